(* FaultSim2.v -- lock-step simulation (see FaultSim.v) for the WAL-level
   operations: rotation, StoreLogs, DeleteRange, stable Set, Open. *)
From RW Require Import Base.Bytes Base.BytesFacts Fmt.Codec Fmt.Frame Wal.Model Wal.Spec Wal.Hist
  Wal.CrashInv Wal.CrashFacts0 Wal.CrashFacts1 Wal.CrashFacts2 Wal.CrashFacts3 Wal.CrashFacts4 Wal.CrashFacts6 Wal.CrashCalls4
  Wal.FaultSim Gen.Constants.
From Coq Require Import ZifyN ZifyNat ZifyBool.
Open Scope N_scope.

Lemma io_files_commit ps e ok e1 : io (ACommit ps) e = (ok, e1) -> dk_files (e_disk e1) = dk_files (e_disk e).
Proof.
  destruct (io_cases3 (ACommit ps) e eq_refl) as [(e' & E & D & _)|[(e' & E & D & _)|(e' & E & _ & D & _)]]; rewrite E; intros K; inversion K; subst; rewrite D; reflexivity.
Qed.

Lemma mutate_gen_ok_facts defer w t e w' e' dl : mutate_gen defer w t e = (ROk, w', e', dl) ->
  st_tail w' = (match tx_create t with None => tx_tail t | Some si => Some (new_wseg si) end) /\
  (forall si, tx_create t = Some si -> lookup (name_of si) (dk_files (e_disk e)) = None) /\
  dl = (if defer then tx_delete t else []) /\
  st_segs w' = tx_segs t /\ st_next_id w' = tx_next_id t /\
  st_rotate w' = st_rotate w /\ st_failed w' = st_failed w /\ st_closed w' = st_closed w.
Proof.
  unfold mutate_gen. destruct (io _ e) as [ok e1] eqn:Eio. destruct ok; cbn [negb]; [|intros E; inversion E].
  pose proof (io_files_commit _ _ _ _ Eio) as Hfl.
  destruct (tx_create t) as [si|].
  - destruct (seg_create si e1) as [sw e2] eqn:Es. destruct sw as [sw|]; intros E; inversion E; subst.
    destruct (seg_create_some _ _ _ _ Es) as (-> & Hl). cbn. repeat split; auto.
    intros si' K. inversion K; subst. rewrite <- Hfl. exact Hl.
  - intros E; inversion E; subst. cbn. repeat split; auto. intros si K; discriminate.
Qed.

(* ------------------------------------------------------------------ *)
(* rotation                                                             *)
Definition rot_none (w : wal) : wal :=
  {| st_next_id := st_next_id w; st_segs := st_segs w; st_tail := st_tail w;
     st_rotate := None; st_failed := st_failed w; st_closed := st_closed w |}.

Lemma sh_rotate c w ec w' ec' : e_fault ec = None -> rotate c w ec = (w', ec') -> shok ec ec'.
Proof.
  intros Hf. unfold rotate. destruct (st_rotate w); [|intros E; inversion E; subst; apply shok_refl; exact Hf].
  destruct (st_closed w); [intros E; inversion E; subst; apply shok_refl; exact Hf|].
  destruct (tail_info _); [|intros E; inversion E; subst; apply shok_add_m; exact Hf].
  destruct (create_next _ _ _ _) as [[nid segs2] si].
  match goal with |- context [mutate ?w0 ?t ?e0] => destruct (mutate w0 t e0) as [[r1 w1] e1] eqn:Em end.
  intros E; inversion E; subst. eapply shok_trans; [apply shok_add_m; exact Hf|].
  eapply sh_mutate; [|exact Em]. exact Hf.
Qed.

Lemma rotate_lock X c w e ec w' e' wc' ec' : R X e ec ->
  rotate c w e = (w', e') -> rotate c w ec = (wc', ec') ->
  (w' = wc' /\ R X e' ec') \/
  (e_fault e' = None /\ st_rotate w <> None /\ st_closed w = false /\ w' = set_failed (rot_none w) /\
   (e_disk e' = e_disk e \/ (exists ps, post_commit X ec ec' (e_disk e') ps) \/ st_failed wc' = true)).
Proof.
  intros HR. unfold rotate. destruct (st_rotate w) as [istart|] eqn:Er; [|intros E1 E2; inversion E1; inversion E2; subst; left; auto].
  destruct (st_closed w) eqn:Ecl; [intros E1 E2; inversion E1; inversion E2; subst; left; auto|].
  destruct (tail_info _); [|intros E1 E2; inversion E1; inversion E2; subst; left; split; [reflexivity|apply R_add_m; exact HR]].
  destruct (create_next _ _ _ _) as [[nid segs2] si].
  match goal with |- context [mutate ?w0 ?t (add_m e ?f)] =>
    destruct (mutate w0 t (add_m e f)) as [[r1 w1] e1] eqn:Em; destruct (mutate w0 t (add_m ec f)) as [[rc1 wc1] ec1] eqn:Emc;
    pose proof (mutate_lock X w0 t (add_m e f) (add_m ec f) _ _ _ _ _ _ (R_add_m X e ec f f HR) Em Emc) as HL end.
  intros E1 E2; inversion E1; inversion E2; subst.
  destruct HL as [(A & B & C & _)|(A & B & Ew & [C|[(C0 & C1 & C3 & _)|[(_ & C1 & _)|(_ & C)]]])].
  - left. split; [exact B|]. unfold dels_of in C. cbn [tx_delete] in C. destruct rc1; eapply Rd_nil; exact C.
  - right. split; [exact A|]. split; [discriminate|]. split; [reflexivity|].
    split; [unfold rot_none, set_failed in *; cbn in *; rewrite Ecl; exact Ew|]. left. exact C.
  - right. split; [exact A|]. split; [discriminate|]. split; [reflexivity|].
    split; [unfold rot_none, set_failed in *; cbn in *; rewrite Ecl; exact Ew|]. right. left.
    eexists. eapply post_commit_shift; [apply aext_add_m|reflexivity|exact C3].
  - cbn [tx_create] in C1. discriminate.
  - right. split; [exact A|]. split; [discriminate|]. split; [reflexivity|].
    split; [unfold rot_none, set_failed in *; cbn in *; rewrite Ecl; exact Ew|]. right. right. exact C.
Qed.

(* ------------------------------------------------------------------ *)
(* resetEmptyFirstSegmentBaseIndex                                      *)
Lemma sh_reset_first c w nbase ec r w' ec' dl : e_fault ec = None ->
  reset_first c w nbase ec = (r, w', ec', dl) -> shok ec ec'.
Proof.
  intros Hf. unfold reset_first. destruct (0 <? _); [intros E; inversion E; subst; apply shok_refl; exact Hf|].
  destruct (tail_info _) as [t|].
  - destruct (si_base t =? nbase); [apply sh_mutate_gen; exact Hf|].
    destruct (create_next _ _ _ _) as [[nid segs2] si]. apply sh_mutate_gen; exact Hf.
  - destruct (create_next _ _ _ _) as [[nid segs2] si]. apply sh_mutate_gen; exact Hf.
Qed.

Lemma reset_first_lock X c w nbase e ec r w1 e1 dl rc wc1 ec1 dlc : R X e ec ->
  reset_first c w nbase e = (r, w1, e1, dl) -> reset_first c w nbase ec = (rc, wc1, ec1, dlc) ->
  (r = rc /\ w1 = wc1 /\ dl = dlc /\ R X e1 ec1 /\
   (rc = ROk -> forall ti, tail_info (st_segs w) = Some ti -> si_base ti <> nbase ->
    dl = [name_of ti] /\ exists si, st_tail w1 = Some (new_wseg si) /\ lookup (name_of si) (dk_files (e_disk e)) = None) /\
   (rc <> ROk -> st_failed wc1 = true \/ (w1 = w /\ e1 = e /\ ec1 = ec))) \/
  (e_fault e1 = None /\ r = RErrIO /\ dl = [] /\ w1 = set_failed w /\
   (e_disk e1 = e_disk e \/
    (rc = ROk /\
     exists ps, post_commit X ec ec1 (e_disk e1) ps /\ dk_meta (e_disk ec1) = Some ps /\
                NoDup (map fst (dk_files (e_disk ec1))) /\
                (forall ti, tail_info (st_segs w) = Some ti -> si_base ti <> nbase -> dlc = [name_of ti]) /\
                (forall ti, tail_info (st_segs w) = Some ti -> si_base ti <> nbase)) \/
    (* the commit of the unchanged state was reported as failed and found applied *)
    ((exists ti, tail_info (st_segs w) = Some ti /\ si_base ti = nbase) /\
     e_disk e1 = apply_act (e_disk e) (ACommit (persistent w))) \/
    (rc <> ROk /\ st_failed wc1 = true))).
Proof.
  intros HR. unfold reset_first. destruct (0 <? _).
  { intros E1 E2; inversion E1; inversion E2; subst. left.
    split; [reflexivity|]. split; [reflexivity|]. split; [reflexivity|]. split; [exact HR|]. split; [discriminate|auto]. }
  assert (Gen : forall t, mutate_gen true w t e = (r, w1, e1, dl) -> mutate_gen true w t ec = (rc, wc1, ec1, dlc) ->
    (r = rc /\ w1 = wc1 /\ dl = dlc /\ R X e1 ec1 /\
     (rc = ROk ->
      (st_tail w1 = tx_tail t /\ tx_create t = None \/ exists si, st_tail w1 = Some (new_wseg si) /\ lookup (name_of si) (dk_files (e_disk e)) = None) /\
      dl = tx_delete t) /\ (rc <> ROk -> st_failed wc1 = true)) \/
    (e_fault e1 = None /\ r = RErrIO /\ dl = [] /\ w1 = set_failed w /\
     (e_disk e1 = e_disk e \/
      (rc = ROk /\ tx_create t <> None /\
       exists ps, post_commit X ec ec1 (e_disk e1) ps /\ dk_meta (e_disk ec1) = Some ps /\
                  NoDup (map fst (dk_files (e_disk ec1))) /\ dlc = tx_delete t) \/
      (tx_create t = None /\ e_disk e1 = apply_act (e_disk e) (ACommit (tx_ps t))) \/
      (rc <> ROk /\ st_failed wc1 = true)))).
  { intros t E1 E2. destruct (mutate_gen_lock X true w t e ec _ _ _ _ _ _ _ _ HR E1 E2) as [(A & B & C & D & F)|(A & B & C & Ew & [D|[(D0 & D1 & D3 & D5 & _ & D7)|[(D0 & D1 & D2 & _)|D]]])].
    - left. split; [exact A|]. split; [exact B|]. split; [exact C|].
      split; [apply (Rd_nil X ec); unfold dels_of in D; destruct rc; exact D|]. split; [|exact F]. intros Hr. subst rc r.
      destruct (mutate_gen_ok_facts _ _ _ _ _ _ _ E1) as (F1 & F2 & F3 & _). split; [|exact F3].
      destruct (tx_create t) as [si|]; [right; exists si; split; [exact F1|apply F2; reflexivity]|left; auto].
    - right. auto 10.
    - right. split; [exact A|]. split; [exact B|]. split; [exact C|]. split; [exact Ew|]. right. left. split; [exact D0|]. split; [exact D1|].
      eexists. split; [exact D3|]. split; [exact D5|]. split; [exact D7|]. subst rc.
      destruct (mutate_gen_ok_facts _ _ _ _ _ _ _ E2) as (_ & _ & F3 & _). exact F3.
    - right. split; [exact A|]. split; [exact B|]. split; [exact C|]. split; [exact Ew|]. right. right. left. auto.
    - right. split; [exact A|]. split; [exact B|]. split; [exact C|]. split; [exact Ew|]. right. right. right. exact D. }
  destruct (tail_info _) as [t|] eqn:Eti.
  - destruct (si_base t =? nbase) eqn:Eb.
    + intros E1 E2. destruct (Gen _ E1 E2) as [(A & B & C & D & E & F)|(A & B & C & Ew & [D|[(_ & D1 & _)|[(_ & D1)|D]]])].
      * left. split; [exact A|]. split; [exact B|]. split; [exact C|]. split; [exact D|]. split; [|intros K; left; apply F; exact K].
        intros Hr ti K Hne. injection K as <-. lia.
      * right. auto 10.
      * cbn [tx_create] in D1. congruence.
      * right. split; [exact A|]. split; [exact B|]. split; [exact C|]. split; [exact Ew|]. right. right. left.
        split; [exists t; split; [reflexivity|lia]|exact D1].
      * right. split; [exact A|]. split; [exact B|]. split; [exact C|]. split; [exact Ew|]. right. right. right. exact D.
    + destruct (create_next _ _ _ _) as [[nid segs2] si].
      intros E1 E2. destruct (Gen _ E1 E2) as [(A & B & C & D & E & F)|(A & B & C & Ew & [D|[(D0 & _ & ps & D2 & D4 & D6 & D5)|[(D1 & _)|D]]])].
      * left. split; [exact A|]. split; [exact B|]. split; [exact C|]. split; [exact D|]. split; [|intros K; left; apply F; exact K].
        intros Hr ti K Hne. injection K as <-.
        destruct (E Hr) as ([(_ & E1')|E1'] & E2'); cbn in *; [discriminate|]. split; [exact E2'|exact E1'].
      * right. auto 10.
      * right. split; [exact A|]. split; [exact B|]. split; [exact C|]. split; [exact Ew|]. right. left. split; [exact D0|].
        exists ps. split; [exact D2|]. split; [exact D4|]. split; [exact D6|].
        split; [intros ti K Hne; injection K as <-; exact D5|]. intros ti K. injection K as <-. lia.
      * cbn [tx_create] in D1. discriminate.
      * right. split; [exact A|]. split; [exact B|]. split; [exact C|]. split; [exact Ew|]. right. right. right. exact D.
  - destruct (create_next _ _ _ _) as [[nid segs2] si].
    intros E1 E2. destruct (Gen _ E1 E2) as [(A & B & C & D & E & F)|(A & B & C & Ew & [D|[(D0 & _ & ps & D2 & D4 & D6 & D5)|[(D1 & _)|D]]])].
    + left. split; [exact A|]. split; [exact B|]. split; [exact C|]. split; [exact D|]. split; [|intros K; left; apply F; exact K].
      intros Hr ti K; discriminate.
    + right. auto 10.
    + right. split; [exact A|]. split; [exact B|]. split; [exact C|]. split; [exact Ew|]. right. left. split; [exact D0|].
      exists ps. split; [exact D2|]. split; [exact D4|]. split; [exact D6|]. split; intros ti K; discriminate.
    + cbn [tx_create] in D1. discriminate.
    + right. split; [exact A|]. split; [exact B|]. split; [exact C|]. split; [exact Ew|]. right. right. right. exact D.
Qed.

(* ------------------------------------------------------------------ *)
(* StoreLogs                                                            *)
Lemma sh_store_go last ls w ec r w' ec' : e_fault ec = None -> store_go last ls w ec = (r, w', ec') -> shok ec ec'.
Proof.
  intros Hf. unfold store_go. destruct (check_logs last ls) as [res nbytes].
  destruct res; [|intros E; inversion E; subst; apply shok_refl; exact Hf ..].
  destruct (st_tail w) as [tw|]; [|intros E; inversion E; subst; apply shok_refl; exact Hf].
  destruct (seg_append tw ls ec) as [[r1 tw1] e1] eqn:Ea. pose proof (sh_seg_append _ _ _ _ _ _ Hf Ea) as H1.
  destruct r1; intros E; inversion E; subst; exact H1.
Qed.

Definition app_facts (tw : wseg) (ls : list log) : Prop :=
  exists l0 lr, ls = l0 :: lr /\ l_index l0 = ws_base tw + ws_n tw /\ ws_index_start tw = 0.

Lemma store_go_lock X last ls w e ec r w' e' rc wc' ec' : R X e ec ->
  (forall tw, st_tail w = Some tw -> In (ws_name tw) X -> wguard (e_disk e) (ws_name tw) (ws_off tw)) ->
  store_go last ls w e = (r, w', e') -> store_go last ls w ec = (rc, wc', ec') ->
  (r = rc /\ w' = wc' /\ R X e' ec' /\
   (rc = ROk -> ls <> [] -> forall tw, st_tail w = Some tw -> R (rem (ws_name tw) X) e' ec') /\
   (rc <> ROk -> e' = e /\ ec' = ec /\ w' = w)) \/
  (rc = ROk /\ ls <> [] /\ r = RErrIO /\ w' = w /\ e_fault e' = None /\
   exists tw, st_tail w = Some tw /\ app_facts tw ls /\
     (e_disk e' = e_disk e \/
      (drel (rem (ws_name tw) X) (e_disk e') (apply_act (e_disk ec) (append_act tw ls)) /\
       pfx ec ec' (apply_act (e_disk ec) (append_act tw ls))))).
Proof.
  intros HR Hg. unfold store_go. destruct (check_logs last ls) as [res nbytes].
  destruct res; [|intros E1 E2; inversion E1; inversion E2; subst; left; split; [reflexivity|]; split; [reflexivity|]; split; [exact HR|]; split; [discriminate|auto] ..].
  destruct (st_tail w) as [tw|] eqn:Et; [|intros E1 E2; inversion E1; inversion E2; subst; left; split; [reflexivity|]; split; [reflexivity|]; split; [exact HR|]; split; [discriminate|auto]].
  destruct (seg_append tw ls e) as [[r1 tw1] e1] eqn:Ea. destruct (seg_append tw ls ec) as [[rc1 twc1] ec1] eqn:Eac.
  destruct (seg_append_lock X tw ls e ec _ _ _ _ _ _ HR (Hg tw eq_refl) Ea Eac)
    as (A1 & A2 & [(-> & -> & B3 & B4 & B5)|(-> & B0 & -> & -> & B3 & Bf & B4)]).
  - destruct rc1; intros E1 E2; inversion E1; inversion E2; subst; left;
      try (split; [reflexivity|]; split; [reflexivity|]; split; [exact B3|]; split; [discriminate|];
           intros _; destruct B5 as (X0 & Y & _); [discriminate|]; subst; auto).
    split; [reflexivity|]. split; [reflexivity|]. split; [apply R_add_m; exact B3|].
    split; [|congruence]. intros _ Hne tw' K. inversion K; subst. apply R_add_m. apply B4; auto.
  - intros E1 E2; inversion E1; inversion E2; subst. right.
    split; [reflexivity|]. split; [exact B0|]. split; [reflexivity|]. split; [reflexivity|]. split; [exact B3|].
    exists tw. split; [reflexivity|]. split; [exact Bf|]. destruct B4 as [B4|(B4 & B5)]; [left; exact B4|right].
    split; [exact B4|]. eapply pfx_more; [exact B5|apply aext_add_m].
Qed.

Lemma sh_store_logs c w ls ec r w' ec' : e_fault ec = None -> store_logs c w ls ec = (r, w', ec') -> shok ec ec'.
Proof.
  intros Hf. rewrite store_logs_unfold. destruct (st_closed w); [intros E; inversion E; subst; apply shok_refl; exact Hf|].
  destruct ls as [|l0 ls']; [intros E; inversion E; subst; apply shok_refl; exact Hf|].
  destruct (st_failed w); [intros E; inversion E; subst; apply shok_refl; exact Hf|]. cbv zeta.
  destruct (tail_info _) as [ti|]; [|intros E; inversion E; subst; apply shok_refl; exact Hf].
  destruct (_ && _); [|apply sh_store_go; exact Hf].
  destruct (reset_first c w (l_index l0) ec) as [[[r1 w1] e1] dels] eqn:Er.
  pose proof (sh_reset_first _ _ _ _ _ _ _ _ Hf Er) as H1.
  destruct r1; try (intros E; inversion E; subst; exact H1).
  destruct (store_go _ _ w1 e1) as [[r2 w2] e2] eqn:Eg. pose proof (sh_store_go _ _ _ _ _ _ _ (proj2 H1) Eg) as H2.
  intros E; inversion E; subst. eapply shok_trans; [exact H1|]. eapply shok_trans; [exact H2|].
  apply sh_delete_files. apply H2.
Qed.

(* the fault-free append keeps the metadata and the set of file names *)
Lemma update_keys_same n f l g : lookup n l = Some g -> map fst (update n f l) = map fst l.
Proof.
  induction l as [|[m h] r IH]; cbn [lookup update map fst]; [discriminate|].
  destruct (fname_eqb n m) eqn:E; cbn [map fst]; [apply fname_eqb_eq in E; subst; reflexivity|].
  intros H. rewrite IH; auto.
Qed.

Lemma write_sync_keys d a : (match a with AWrite _ _ _ _ | ASync _ => True | _ => False end) ->
  map fst (dk_files (apply_act d a)) = map fst (dk_files d) /\ dk_meta (apply_act d a) = dk_meta d.
Proof.
  destruct a as [n sz|n off l b|n|n|ps|k v| | |a']; intros H; try destruct H; cbn [apply_act];
    (destruct (lookup n (dk_files d)) as [f|] eqn:E; [|auto]); cbn [dk_files dk_meta];
    (split; [eapply update_keys_same; eauto|reflexivity]).
Qed.

Lemma sh_store_go_keys last ls w ec r w' ec' : e_fault ec = None -> store_go last ls w ec = (r, w', ec') ->
  map fst (dk_files (e_disk ec')) = map fst (dk_files (e_disk ec)) /\ dk_meta (e_disk ec') = dk_meta (e_disk ec).
Proof.
  intros Hf. unfold store_go. destruct (check_logs last ls) as [res nbytes].
  destruct res; [|intros E; inversion E; subst; auto ..].
  destruct (st_tail w) as [tw|]; [|intros E; inversion E; subst; auto].
  destruct (seg_append tw ls ec) as [[r1 tw1] e1] eqn:Ea.
  assert (H1 : map fst (dk_files (e_disk e1)) = map fst (dk_files (e_disk ec)) /\ dk_meta (e_disk e1) = dk_meta (e_disk ec)).
  { revert Ea. rewrite seg_append_eq. destruct ls; [intros E; inversion E; subst; auto|].
    destruct (0 <? _); [intros E; inversion E; subst; auto|].
    destruct (existsb _ _); [intros E; inversion E; subst; auto|].
    destruct (negb _); [intros E; inversion E; subst; auto|].
    destruct (append_act_form tw (l :: ls)) as (ll & b & Ea). rewrite Ea.
    rewrite (io_ok _ _ Hf). cbn [negb]. rewrite (io_ok _ _ (io_env_fault _ _)). cbn [negb].
    intros E; inversion E; subst. cbn [io_env e_disk].
    destruct (write_sync_keys (e_disk ec) (AWrite (ws_name tw) (ws_off tw) ll b) I) as (K1 & K2).
    destruct (write_sync_keys (apply_act (e_disk ec) (AWrite (ws_name tw) (ws_off tw) ll b)) (ASync (ws_name tw)) I) as (K3 & K4).
    split; congruence. }
  destruct r1; intros E; inversion E; subst; exact H1.
Qed.

(* what the real run of a failed StoreLogs leaves behind *)
Definition store_failed (X : list fname) (c : cfg) (w : wal) (ls : list log) (e ec : env)
  (w' : wal) (e' : env) (rc : result) (wc' : wal) (ec' : env) : Prop :=
  (w' = w /\ e_disk e' = e_disk e) \/
  (* the commit of the reset failed: nothing on the disk changed (but for the commit of
     the unchanged state that was reported as failed and found applied) *)
  (w' = set_failed w /\
   (e_disk e' = e_disk e \/ e_disk e' = apply_act (e_disk e) (ACommit (persistent w)))) \/
  st_failed wc' = true \/
  (w' = set_failed w /\
   exists ps ti, post_commit X ec ec' (e_disk e') ps /\ dk_meta (e_disk ec') = Some ps /\
                 tail_info (st_segs w) = Some ti /\ lookup (name_of ti) (dk_files (e_disk ec')) = None) \/
  (w' = w /\ rc = ROk /\ ls <> [] /\
   exists tw, st_tail w = Some tw /\ app_facts tw ls /\
     drel (rem (ws_name tw) X) (e_disk e') (apply_act (e_disk ec) (append_act tw ls)) /\
     pfx ec ec' (apply_act (e_disk ec) (append_act tw ls))) \/
  (exists l0 ls' w1 ec1 tw1 dm ti,
     ls = l0 :: ls' /\ reset_first c w (l_index l0) ec = (ROk, w1, ec1, [name_of ti]) /\ w' = w1 /\ st_tail w1 = Some tw1 /\
     tail_info (st_segs w) = Some ti /\ st_closed w = false /\ st_failed w = false /\
     (last_index (st_segs w) (st_tail w) =? 0) && negb (l_index l0 =? si_base ti) = true /\
     app_facts tw1 ls /\
     rc = ROk /\ (dm = e_disk ec1 \/ dm = apply_act (e_disk ec1) (append_act tw1 ls)) /\
     pfx ec ec' dm /\ pfx ec ec' (e_disk ec1) /\ lookup (ws_name tw1) (dk_files (e_disk e)) = None /\
     (* the old tail was deleted, or (deletions fail) it stays *)
     (drel (rem (name_of ti) X) (e_disk e') (del_disk [name_of ti] dm) \/ drel X (e_disk e') dm)).

Lemma del_disk_drel X ns : forall d dc, drel X d dc -> drel X (del_disk ns d) (del_disk ns dc).
Proof.
  induction ns as [|n ns IH]; intros d dc H; [exact H|].
  unfold del_disk. cbn [fold_left]. apply IH. apply drel_act_simple; [exact I|exact H].
Qed.

Lemma store_logs_lock X c w ls e ec r w' e' rc wc' ec' : R X e ec ->
  (forall tw, st_tail w = Some tw -> In (ws_name tw) X -> wguard (e_disk e) (ws_name tw) (ws_off tw)) ->
  (forall n, In n X -> lookup n (dk_files (e_disk e)) <> None) ->
  store_logs c w ls e = (r, w', e') -> store_logs c w ls ec = (rc, wc', ec') ->
  (r = rc /\ w' = wc' /\
   ((w' = w /\ e' = e /\ ec' = ec) \/ st_failed wc' = true \/
    (exists tw, st_tail w = Some tw /\ rc = ROk /\ R (rem (ws_name tw) X) e' ec') \/
    (exists ti, tail_info (st_segs w) = Some ti /\ Rd X [name_of ti] ec e' ec'))) \/
  (e_fault e' = None /\ r = RErrIO /\ store_failed X c w ls e ec w' e' rc wc' ec').
Proof.
  intros HR Hg Hex. rewrite !store_logs_unfold.
  assert (Hsame : forall r0, (r0, w, e) = (r, w', e') -> (r0, w, ec) = (rc, wc', ec') ->
    (r = rc /\ w' = wc' /\
     ((w' = w /\ e' = e /\ ec' = ec) \/ st_failed wc' = true \/
      (exists tw, st_tail w = Some tw /\ rc = ROk /\ R (rem (ws_name tw) X) e' ec') \/
      (exists ti, tail_info (st_segs w) = Some ti /\ Rd X [name_of ti] ec e' ec'))) \/
    (e_fault e' = None /\ r = RErrIO /\ store_failed X c w ls e ec w' e' rc wc' ec')).
  { intros r0 E1 E2; inversion E1; inversion E2; subst. left. auto 10. }
  destruct (st_closed w) eqn:Ecl; [apply Hsame|].
  destruct ls as [|l0 ls']; [apply Hsame|].
  set (ls := l0 :: ls') in *.
  destruct (st_failed w) eqn:Efl; [apply Hsame|]. cbv zeta.
  destruct (tail_info _) as [ti|] eqn:Eti; [|apply Hsame].
  destruct (_ && _) eqn:Ereset.
  2:{ intros E1 E2. destruct (store_go_lock X _ ls w e ec _ _ _ _ _ _ HR Hg E1 E2) as [(A & B & C & D & D')|(A & B & C & D & E & tw & Et & Ef & F)].
      - left. split; [exact A|]. split; [exact B|].
        destruct rc; try (left; destruct D' as (X0 & Y & Z); [discriminate|auto]).
        assert (Hne : ls <> []) by discriminate.
        destruct (st_tail w) as [tw|] eqn:Et.
        + right. right. left. exists tw. split; [reflexivity|]. split; [reflexivity|]. apply (D eq_refl Hne tw eq_refl).
        + exfalso. unfold store_go in E2. rewrite Et in E2. destruct (check_logs _ ls) as [[] ?]; inversion E2.
      - right. split; [exact E|]. split; [exact C|]. destruct F as [F|(F1 & F2)].
        + left. auto.
        + right. right. right. right. left. split; [exact D|]. split; [exact A|]. split; [exact B|]. exists tw. auto. }
  destruct (reset_first c w (l_index l0) e) as [[[r1 w1] e1] dels] eqn:Er.
  destruct (reset_first c w (l_index l0) ec) as [[[rc1 wc1] ec1] delsc] eqn:Erc.
  assert (Hbase : si_base ti <> l_index l0) by lia.
  pose proof (sh_reset_first _ _ _ _ _ _ _ _ (proj2 HR) Erc) as Hsh1.
  destruct (reset_first_lock X c w (l_index l0) e ec _ _ _ _ _ _ _ _ HR Er Erc)
    as [(-> & -> & -> & B & C & C')|(A & -> & -> & -> & [C|[(-> & ps & C1 & C3 & C5 & C4 & _)|[((t0 & Kt & Kb) & _)|(Kr & Kf)]]])].
  - destruct rc1; try (intros E1 E2; inversion E1; inversion E2; subst; left; split; [reflexivity|]; split; [reflexivity|];
                       destruct C' as [X0|(X0 & Y & Z)]; [discriminate|right; left; exact X0|left; auto]).
    destruct (C eq_refl ti Eti Hbase) as (-> & si & Ctail & Hl).
    destruct (store_go _ ls wc1 e1) as [[r2 w2] e2] eqn:Eg. destruct (store_go _ ls wc1 ec1) as [[rc2 wc2] ec2] eqn:Egc.
    assert (Hg1 : forall tw, st_tail wc1 = Some tw -> In (ws_name tw) X -> wguard (e_disk e1) (ws_name tw) (ws_off tw)).
    { intros tw Ht Ho. exfalso. rewrite Ctail in Ht. inversion Ht; subst tw. cbn [new_wseg ws_name] in Ho. apply (Hex _ Ho). exact Hl. }
    pose proof (sh_store_go _ _ _ _ _ _ _ (proj2 Hsh1) Egc) as Hsh2.
    destruct (store_go_lock X _ ls wc1 e1 ec1 _ _ _ _ _ _ B Hg1 Eg Egc) as [(-> & -> & G3 & G4 & _)|(-> & G0 & -> & -> & G3 & tw & Et & Gf & G4)].
    + remember (delete_files [name_of ti] e2) as e3 eqn:He3. remember (delete_files [name_of ti] ec2) as ec3 eqn:Hec3.
      intros E1 E2; injection E1 as <- <- <-; injection E2 as <- <- <-. subst e3 ec3. left.
      split; [reflexivity|]. split; [reflexivity|]. right. right. right. exists ti. split; [reflexivity|].
      apply (delete_files_Rd X [name_of ti] e2 ec2 ec G3). eapply aext_trans; [apply Hsh1|apply Hsh2].
    + remember (delete_files [name_of ti] e2) as e3 eqn:He3. remember (delete_files [name_of ti] ec2) as ec3 eqn:Hec3.
      intros E1 E2; injection E1 as <- <- <-; injection E2 as <- <- <-. subst e3 ec3. right.
      destruct (delete_files_real [name_of ti] e2) as (D3 & _ & D4).
      split; [rewrite D3; exact G3|]. split; [reflexivity|]. right. right. right. right. right.
      pose proof (proj1 (sh_delete_files [name_of ti] ec2 (proj2 Hsh2))) as D2'.
      destruct G4 as [G4|(G4 & G5)].
      * exists l0, ls', wc1, ec1, tw, (e_disk ec1), ti.
        split; [reflexivity|]. split; [exact Erc|]. split; [reflexivity|]. split; [exact Et|]. split; [exact Eti|].
        split; [exact Ecl|]. split; [exact Efl|]. split; [exact Ereset|]. split; [exact Gf|]. split; [reflexivity|].
        split; [left; reflexivity|].
        split; [eapply pfx_more; [apply pfx_end; apply Hsh1|eapply aext_trans; [apply Hsh2|exact D2']]|].
        split; [eapply pfx_more; [apply pfx_end; apply Hsh1|eapply aext_trans; [apply Hsh2|exact D2']]|].
        split; [rewrite Ctail in Et; inversion Et; subst tw; exact Hl|].
        rewrite D4, G4. destruct (del_fails e2).
        -- right. apply B.
        -- left. unfold del_disk. cbn [fold_left]. apply drel_delete_stale. apply B.
      * exists l0, ls', wc1, ec1, tw, (apply_act (e_disk ec1) (append_act tw ls)), ti.
        split; [reflexivity|]. split; [exact Erc|]. split; [reflexivity|]. split; [exact Et|]. split; [exact Eti|].
        split; [exact Ecl|]. split; [exact Efl|]. split; [exact Ereset|]. split; [exact Gf|]. split; [reflexivity|].
        split; [right; reflexivity|].
        split; [eapply pfx_shift; [apply Hsh1|]; eapply pfx_more; [exact G5|exact D2']|].
        split; [eapply pfx_more; [apply pfx_end; apply Hsh1|eapply aext_trans; [apply Hsh2|exact D2']]|].
        split; [rewrite Ctail in Et; inversion Et; subst tw; exact Hl|].
        assert (G4' : drel X (e_disk e2) (apply_act (e_disk ec1) (append_act tw ls))) by (eapply drel_rem_weaken; exact G4).
        rewrite D4. destruct (del_fails e2).
        -- right. exact G4'.
        -- left. unfold del_disk. cbn [fold_left]. apply drel_delete_stale. exact G4'.
  - intros E1 _. inversion E1; subst. right. split; [exact A|]. split; [reflexivity|]. right. left. auto.
  - intros E1 E2. inversion E1; subst. right. split; [exact A|]. split; [reflexivity|]. right. right. right. left. split; [reflexivity|].
    exists ps, ti.
    destruct (store_go _ ls wc1 ec1) as [[rc2 wc2] ec2] eqn:Egc.
    pose proof (sh_store_go _ _ _ _ _ _ _ (proj2 Hsh1) Egc) as Hsh2.
    destruct (sh_store_go_keys _ _ _ _ _ _ _ (proj2 Hsh1) Egc) as (K1 & K2).
    specialize (C4 ti Eti Hbase). subst delsc.
    remember (delete_files [name_of ti] ec2) as ec3 eqn:Hec3. injection E2 as <- <- <-. subst ec3.
    assert (Ha2 : aext ec1 (delete_files [name_of ti] ec2)) by (eapply aext_trans; [apply Hsh2|]; apply sh_delete_files; apply Hsh2).
    split.
    { destruct C1 as (dm & P1 & P2 & P3 & P4 & P5). exists dm. split; [exact P1|]. split; [eapply pfx_more; eauto|]. auto. }
    rewrite (delete_files_disk _ _ (proj2 Hsh2)). destruct (del_disk_meta [name_of ti] (e_disk ec2)) as (M1 & _).
    split; [rewrite M1, K2; exact C3|]. split; [exact Eti|].
    rewrite del_disk_lookup by (rewrite K1; exact C5).
    replace (mem_name (name_of ti) [name_of ti]) with true; [reflexivity|]. symmetry. apply mem_name_spec. left. reflexivity.
  - exfalso. rewrite Eti in Kt. inversion Kt; subst t0. contradiction.
  - intros E1 E2. inversion E1; subst. right. split; [exact A|]. split; [reflexivity|]. right. right. left.
    destruct rc1; [congruence|inversion E2; subst; exact Kf..].
Qed.

(* ------------------------------------------------------------------ *)
(* DeleteRange                                                          *)
Lemma sh_truncate_head c w nm ec r w' ec' : e_fault ec = None -> truncate_head c w nm ec = (r, w', ec') -> shok ec ec'.
Proof.
  intros Hf. unfold truncate_head. destruct (head_scan _ _ _ _ _) as [[[rest del] ntr] head].
  destruct head as [h|].
  - intros E. eapply shok_trans; [apply shok_add_m; exact Hf|]. eapply sh_mutate; [|exact E]. exact Hf.
  - destruct (create_next _ _ _ _) as [[nid segs2] si].
    intros E. eapply shok_trans; [apply shok_add_m; exact Hf|]. eapply sh_mutate; [|exact E]. exact Hf.
Qed.

Definition keeps_tail (w : wal) (n : fname) : Prop :=
  forall sk r, st_segs w = sk ++ r -> r <> [] -> ~ In n (map name_of sk).

(* what a successful DeleteRange did to the tail [ti] of [w]: it is still the tail, with
   the same writer and (if its name is unique) the same file; or it was unlisted and is
   among the names [ns] the call deleted or tried to delete *)
Definition tail_fate (w : wal) (e : env) (wc' : wal) (e' : env) (ns : list fname) : Prop :=
  forall ti, tail_info (st_segs w) = Some ti ->
    (exists ti', tail_info (st_segs wc') = Some ti' /\ name_of ti' = name_of ti /\ st_tail wc' = st_tail w /\
                 (keeps_tail w (name_of ti) -> lookup (name_of ti) (dk_files (e_disk e')) = lookup (name_of ti) (dk_files (e_disk e)))) \/
    In (name_of ti) ns.

(* a failed state transaction: the WAL refuses writes; on the disk nothing changed, or the
   transaction is committed and the new tail file is missing (then the tail of [w] is among
   the files the shadow run deleted), or the commit of a transaction that creates nothing was
   reported as failed and found applied (the real run stopped before the trailing
   deletions [ns]), or the shadow run failed as well *)
Definition txn_failed (X : list fname) (w0 w : wal) (e ec : env) (w' : wal) (e' : env)
  (rc : result) (wc' : wal) (ec' : env) : Prop :=
  w' = set_failed w0 /\
  (e_disk e' = e_disk e \/
   (exists ps, post_commit X ec ec' (e_disk e') ps /\ dk_meta (e_disk ec') = Some ps /\
               (forall ti, tail_info (st_segs w) = Some ti -> si_sealed ti = false ->
                           lookup (name_of ti) (dk_files (e_disk ec')) = None)) \/
   (exists ps ns, rc = ROk /\ e_disk e' = apply_act (e_disk e) (ACommit ps) /\ landed X ns ec e' ec' /\
                  tail_fate w e wc' e' ns) \/
   (rc <> ROk /\ st_failed wc' = true)).

Lemma head_scan_spec nm tl : forall segs del ntr rest del' ntr' head,
  head_scan nm tl segs del ntr = (rest, del', ntr', head) ->
  exists skipped, segs = skipped ++ rest /\ del' = del ++ map name_of skipped /\
    match head with None => rest = [] | Some h => exists r, rest = h :: r end.
Proof.
  induction segs as [|s segs IH]; intros del ntr rest del' ntr' head; cbn [head_scan].
  - intros E; inversion E; subst. exists []. cbn. rewrite app_nil_r. auto.
  - destruct (nm <=? _).
    + intros E; inversion E; subst. exists []. cbn. rewrite app_nil_r. split; [reflexivity|]. split; [reflexivity|]. exists segs. reflexivity.
    + intros E. destruct (IH _ _ _ _ _ _ E) as (sk & A & B & C). exists (s :: sk). split; [cbn; rewrite A; reflexivity|].
      split; [rewrite B, <- app_assoc; reflexivity|exact C].
Qed.

Lemma tail_info_cons_ne s l : l <> [] -> tail_info (s :: l) = tail_info l.
Proof. unfold tail_info. destruct l; [congruence|reflexivity]. Qed.
Lemma tail_info_app_ne a l : l <> [] -> tail_info (a ++ l) = tail_info l.
Proof. intros H. induction a as [|x a IH]; [reflexivity|]. cbn [app]. rewrite tail_info_cons_ne; [exact IH|]. destruct a; cbn; [exact H|discriminate]. Qed.

(* the common use of [mutate_lock] by the truncations *)
Definition txn_failed0 (X : list fname) (w0 w : wal) (t : txn) (e ec : env) (w' : wal) (e' : env)
  (rc : result) (wc' : wal) (ec' : env) : Prop :=
  w' = set_failed w0 /\
  (e_disk e' = e_disk e \/
   (exists ps, post_commit X ec ec' (e_disk e') ps /\ dk_meta (e_disk ec') = Some ps /\
               (forall ti, tail_info (st_segs w) = Some ti -> si_sealed ti = false ->
                           lookup (name_of ti) (dk_files (e_disk ec')) = None)) \/
   (rc = ROk /\ tx_create t = None /\ e_disk e' = apply_act (e_disk e) (ACommit (tx_ps t)) /\
    landed X (tx_delete t) ec e' ec' /\ st_segs wc' = tx_segs t /\ st_tail wc' = tx_tail t) \/
   (rc <> ROk /\ st_failed wc' = true)).

Lemma mutate_lock' X w0 w t e1 ec1 r w' e' rc wc' ec' : R X e1 ec1 ->
  mutate w0 t e1 = (r, w', e') -> mutate w0 t ec1 = (rc, wc', ec') ->
  (forall ti, tail_info (st_segs w) = Some ti -> si_sealed ti = false -> tx_create t <> None -> In (name_of ti) (tx_delete t)) ->
  (r = rc /\ w' = wc' /\ Rd X (dels_of false rc t) ec1 e' ec' /\
   (rc = ROk -> st_segs wc' = tx_segs t /\ (tx_create t = None -> st_tail wc' = tx_tail t)) /\
   (rc <> ROk -> st_failed wc' = true)) \/
  (e_fault e' = None /\ r = RErrIO /\ txn_failed0 X w0 w t e1 ec1 w' e' rc wc' ec').
Proof.
  intros HR1 E1 E2 Hin.
  destruct (mutate_lock X w0 t _ _ _ _ _ _ _ _ HR1 E1 E2)
    as [(H1 & H2 & H3 & H5)|(A & B & Ew & [C|[(C0 & C2 & C3 & C5 & C6 & _)|[(C0 & C1 & C2 & _ & _ & C5 & C6 & C7)|C]]])].
  - left. split; [exact H1|]. split; [exact H2|]. split; [exact H3|]. split; [|exact H5].
    intros Hr. subst rc. unfold mutate in E2. destruct (mutate_gen false w0 t _) as [[[r0 w1] e0] d0] eqn:Eg. inversion E2; subst.
    destruct (mutate_gen_ok_facts _ _ _ _ _ _ _ Eg) as (F1 & _ & _ & F4 & _). split; [exact F4|]. intros Hn. rewrite Hn in F1. exact F1.
  - right. split; [exact A|]. split; [exact B|]. split; [exact Ew|]. left. exact C.
  - right. split; [exact A|]. split; [exact B|]. split; [exact Ew|]. right. left. eexists. split; [exact C3|].
    split; [exact C5|]. intros ti Hti Hs. apply C6; [reflexivity|]. apply (Hin ti Hti Hs C2).
  - right. split; [exact A|]. split; [exact B|]. split; [exact Ew|]. right. right. left. cbn [dels_of] in C5. auto 10.
  - right. split; [exact A|]. split; [exact B|]. split; [exact Ew|]. right. right. right. exact C.
Qed.

Lemma txn_failed_shift X w0 w e ec e1 ec1 w' e' rc wc' ec' :
  e_disk e1 = e_disk e -> aext ec ec1 -> e_disk ec1 = e_disk ec ->
  txn_failed X w0 w e1 ec1 w' e' rc wc' ec' -> txn_failed X w0 w e ec w' e' rc wc' ec'.
Proof.
  intros He Ha Hec (A & [B|[(ps & B & C)|[(ps & ns & B1 & B2 & B3 & B4)|B]]]); (split; [exact A|]).
  - left. congruence.
  - right. left. exists ps. split; [eapply post_commit_shift; eauto|exact C].
  - right. right. left. exists ps, ns. split; [exact B1|]. split; [rewrite <- He; exact B2|].
    split; [eapply landed_shift; eauto|]. intros ti Hti. destruct (B4 ti Hti) as [(ti' & K1 & K2 & K3 & K4)|K]; [left|right; exact K].
    exists ti'. rewrite <- He. auto.
  - right. right. right. exact B.
Qed.

Lemma mutate_ok_lookup w t e w' e' n : mutate w t e = (ROk, w', e') -> tx_create t = None ->
  ~ In n (tx_delete t) -> NoDup (map fst (dk_files (e_disk e))) ->
  lookup n (dk_files (e_disk e')) = lookup n (dk_files (e_disk e)).
Proof.
  unfold mutate, mutate_gen. fold (tx_ps t). intros E Hn Hnot ND. rewrite Hn in E.
  destruct (io_cases3 (ACommit (tx_ps t)) e eq_refl) as [(e1 & E1 & D & _)|[(e1 & E1 & _)|(e1 & E1 & _)]]; rewrite E1 in E; cbn [negb] in E; [|inversion E..].
  inversion E; subst. destruct (delete_files_real (tx_delete t) e1) as (_ & _ & K). rewrite K, D.
  destruct (del_fails e1); [reflexivity|]. rewrite del_disk_lookup by exact ND.
  replace (mem_name n (tx_delete t)) with false; [reflexivity|]. symmetry.
  destruct (mem_name n (tx_delete t)) eqn:Em; [|reflexivity]. apply mem_name_spec in Em. contradiction.
Qed.

Lemma truncate_head_lock X c w nm e ec r w' e' rc wc' ec' : R X e ec ->
  truncate_head c w nm e = (r, w', e') -> truncate_head c w nm ec = (rc, wc', ec') ->
  (r = rc /\ w' = wc' /\ (rc <> ROk -> st_failed wc' = true) /\
   exists ns, Rd X (match rc with ROk => ns | _ => [] end) ec e' ec' /\ (rc = ROk -> tail_fate w e wc' e' ns)) \/
  (e_fault e' = None /\ r = RErrIO /\ txn_failed X w w e ec w' e' rc wc' ec').
Proof.
  intros HR. unfold truncate_head. destruct (head_scan _ _ _ _ _) as [[[rest del] ntr] head] eqn:Ehs.
  destruct (head_scan_spec _ _ _ _ _ _ _ _ _ Ehs) as (sk & Hsegs & Hdel & Hhead). cbn [app] in Hdel.
  destruct head as [h|].
  - destruct Hhead as (r0 & ->). intros E1 E2.
    (* the tail of [w] stays the tail *)
    assert (Hfate : forall h' ex, name_of h' = name_of h -> si_base h' = si_base h ->
              st_segs wc' = seg_set h' (h :: r0) -> st_tail wc' = st_tail w ->
              (forall ti, tail_info (st_segs w) = Some ti -> keeps_tail w (name_of ti) ->
                          lookup (name_of ti) (dk_files (e_disk ex)) = lookup (name_of ti) (dk_files (e_disk e))) ->
              tail_fate w e wc' ex del).
    { intros h' ex Hn' Hb' E1' E2' Hkeep ti Hti. left. rewrite E1'. cbn [seg_set]. rewrite Hb', N.ltb_irrefl, N.eqb_refl.
      pose proof (Hkeep ti Hti) as Hk.
      rewrite Hsegs in Hti. rewrite tail_info_app_ne in Hti by discriminate.
      destruct r0 as [|x r0].
      - cbn in Hti. inversion Hti; subst ti. eexists. split; [reflexivity|]. split; [exact Hn'|]. split; [exact E2'|exact Hk].
      - rewrite tail_info_cons_ne in Hti by discriminate. exists ti. rewrite tail_info_cons_ne by discriminate. auto. }
    match type of E1 with mutate _ ?t (add_m e ?f) = _ =>
      destruct (mutate_lock' X w w t _ _ _ _ _ _ _ _ (R_add_m X e ec f f HR) E1 E2) as [(A & B & C & E & F)|(A & B & C)] end.
    { intros ti _ _ K. exfalso. apply K. reflexivity. }
    + left. split; [exact A|]. split; [exact B|]. split; [exact F|]. exists del. cbn [tx_delete dels_of] in C.
      split; [eapply Rd_shift; [apply aext_add_m|exact C]|]. intros Hr.
      destruct (E Hr) as (E1' & E2'). cbn [tx_segs tx_create tx_tail] in E1', E2'. specialize (E2' eq_refl).
      eapply Hfate; [| |exact E1'|exact E2'|]; [reflexivity|reflexivity|].
      intros ti Hti Hk. subst rc r.
      rewrite (mutate_ok_lookup _ _ _ _ _ (name_of ti) E1 eq_refl); [reflexivity| |apply (drel_NoDup _ _ _ (proj1 HR))].
      cbn [tx_delete]. rewrite Hdel. apply (Hk sk (h :: r0) Hsegs ltac:(discriminate)).
    + right. split; [exact A|]. split; [exact B|].
      match type of C with txn_failed0 _ _ _ _ (add_m _ ?f) _ _ _ _ _ _ =>
        apply (txn_failed_shift X w w e ec (add_m e f) (add_m ec f)); [reflexivity|apply aext_add_m|reflexivity|] end.
      destruct C as (C0 & [C|[C|[(C1 & _ & C3 & C4 & C5 & C6)|C]]]); (split; [exact C0|]); [left; exact C|right; left; exact C| |right; right; right; exact C].
      right. right. left. eexists _, del. split; [exact C1|]. split; [exact C3|]. split; [exact C4|].
      cbn [tx_segs tx_tail] in C5, C6.
      eapply Hfate; [| |exact C5|exact C6|]; [reflexivity|reflexivity|].
      intros ti _ _. rewrite C3. reflexivity.
  - subst rest. rewrite app_nil_r in Hsegs. subst sk.
    destruct (create_next _ _ _ _) as [[nid segs2] si].
    intros E1 E2.
    match type of E1 with mutate _ ?t (add_m e ?f) = _ =>
      destruct (mutate_lock' X w w t _ _ _ _ _ _ _ _ (R_add_m X e ec f f HR) E1 E2) as [(A & B & C & E & F)|(A & B & C)] end.
    { intros ti Hti _ _. cbn [tx_delete]. rewrite Hdel. apply in_map_iff. exists ti. split; [reflexivity|]. apply tail_info_In. exact Hti. }
    + left. split; [exact A|]. split; [exact B|]. split; [exact F|]. exists del. cbn [tx_delete dels_of] in C.
      split; [eapply Rd_shift; [apply aext_add_m|exact C]|]. intros Hr ti Hti. right.
      rewrite Hdel. apply in_map_iff. exists ti. split; [reflexivity|]. apply tail_info_In. exact Hti.
    + right. split; [exact A|]. split; [exact B|].
      match type of C with txn_failed0 _ _ _ _ (add_m _ ?f) _ _ _ _ _ _ =>
        apply (txn_failed_shift X w w e ec (add_m e f) (add_m ec f)); [reflexivity|apply aext_add_m|reflexivity|] end.
      destruct C as (C0 & [C|[C|[(_ & C2 & _)|C]]]); (split; [exact C0|]); [left; exact C|right; left; exact C| |right; right; right; exact C].
      cbn [tx_create] in C2. discriminate.
Qed.

Definition set_tail (w : wal) (t : option wseg) : wal :=
  {| st_next_id := st_next_id w; st_segs := st_segs w; st_tail := t; st_rotate := st_rotate w;
     st_failed := st_failed w; st_closed := st_closed w |}.

Lemma set_tail_id w : set_tail w (st_tail w) = w.
Proof. destruct w; reflexivity. Qed.

Lemma tail_scan_spec nm li : forall rsegs del ntr rrest del' ntr',
  tail_scan nm li rsegs del ntr = (rrest, del', ntr') ->
  exists sk, rsegs = sk ++ rrest /\ del' = del ++ map name_of sk.
Proof.
  induction rsegs as [|s rsegs IH]; intros del ntr rrest del' ntr'; cbn [tail_scan].
  - intros E; inversion E; subst. exists []. cbn. rewrite app_nil_r. auto.
  - destruct (si_base s <=? nm).
    + intros E; inversion E; subst. exists []. cbn. rewrite app_nil_r. auto.
    + intros E. destruct (IH _ _ _ _ _ E) as (sk & A & B). exists (s :: sk). split; [cbn; rewrite A; reflexivity|].
      rewrite B, <- app_assoc. reflexivity.
Qed.

Lemma tail_info_rev l t : tail_info l = Some t -> exists r, rev l = t :: r.
Proof.
  intros H. destruct (list_eq_dec_nil l) as [->|Hne]; [discriminate|].
  destruct (exists_last Hne) as (l' & x & ->). rewrite tail_info_app in H. inversion H; subst.
  rewrite rev_app_distr. cbn. eexists. reflexivity.
Qed.

Lemma sh_truncate_tail c w nm ec r w' ec' : e_fault ec = None -> truncate_tail c w nm ec = (r, w', ec') -> shok ec ec'.
Proof.
  intros Hf. unfold truncate_tail. destruct (tail_scan _ _ _ _ _) as [[rrest del] ntr].
  destruct rrest as [|t rr].
  - destruct (create_next _ _ _ _) as [[nid segs2] si]. intros E. eapply sh_mutate; [|exact E]. exact Hf.
  - destruct (si_sealed t).
    + destruct (create_next _ _ _ _) as [[nid segs2] si]. intros E.
      eapply shok_trans; [apply shok_add_m; exact Hf|]. eapply sh_mutate; [|exact E]. exact Hf.
    + destruct (st_tail w) as [tw|]; [|intros E; inversion E; subst; apply shok_refl; exact Hf].
      destruct (seg_force_seal tw ec) as [[r1 tw1] e1] eqn:Efs. pose proof (sh_seg_force_seal _ _ _ _ _ Hf Efs) as H1.
      destruct r1; try (intros E; inversion E; subst; exact H1).
      destruct (create_next _ _ _ _) as [[nid segs2] si]. intros E.
      eapply shok_trans; [exact H1|]. eapply shok_trans; [apply shok_add_m; apply H1|]. eapply sh_mutate; [|exact E]. apply H1.
Qed.

Lemma txn_failed0_create X w0 w t e ec w' e' rc wc' ec' : tx_create t <> None ->
  txn_failed0 X w0 w t e ec w' e' rc wc' ec' -> txn_failed X w0 w e ec w' e' rc wc' ec'.
Proof.
  intros Hc (C0 & [C|[C|[(_ & C2 & _)|C]]]); [| |contradiction|]; (split; [exact C0|]);
    [left; exact C|right; left; exact C|right; right; right; exact C].
Qed.

Definition tail_failed (X : list fname) (w : wal) (e ec : env) (w' : wal) (e' : env)
  (rc : result) (wc' : wal) (ec' : env) : Prop :=
  txn_failed X w w e ec w' e' rc wc' ec' \/
  (exists tw, st_tail w = Some tw /\ ws_index_start tw = 0 /\ ws_n tw <> 0 /\ w' = w /\
     (e_disk e' = e_disk e \/
      (drel (rem (ws_name tw) X) (e_disk e') (apply_act (e_disk ec) (force_act tw)) /\
       pfx ec ec' (apply_act (e_disk ec) (force_act tw))))) \/
  (exists tw tw' e1 ec1 X',
     st_tail w = Some tw /\ seg_force_seal tw ec = (ROk, tw', ec1) /\ seg_force_seal tw e = (ROk, tw', e1) /\
     R X' e1 ec1 /\ (X' = X \/ (ws_index_start tw = 0 /\ X' = rem (ws_name tw) X)) /\
     (ws_index_start tw = 0 -> X' = rem (ws_name tw) X) /\ shok ec ec1 /\
     w' = set_failed (set_tail w (Some tw')) /\
     ((e_disk e' = e_disk e1 /\ pfx ec ec' (e_disk ec1)) \/
      (exists ps, post_commit X' ec1 ec' (e_disk e') ps /\ dk_meta (e_disk ec') = Some ps) \/
      (rc <> ROk /\ st_failed wc' = true))).

Lemma truncate_tail_lock X c w nm e ec r w' e' rc wc' ec' : R X e ec ->
  (forall tw, st_tail w = Some tw -> In (ws_name tw) X -> wguard (e_disk e) (ws_name tw) (ws_off tw)) ->
  truncate_tail c w nm e = (r, w', e') -> truncate_tail c w nm ec = (rc, wc', ec') ->
  (r = rc /\ w' = wc' /\
   (rc <> ROk -> st_failed wc' = true \/ (w' = w /\ e' = e /\ ec' = ec)) /\
   (rc = ROk -> exists ns X', Rd X' ns ec e' ec' /\ incl X' X /\
      forall ti tw, tail_info (st_segs w) = Some ti -> si_sealed ti = false ->
         st_tail w = Some tw -> ws_name tw = name_of ti -> ws_index_start tw = 0 -> ~ In (name_of ti) X' \/ In (name_of ti) ns)) \/
  (e_fault e' = None /\ r = RErrIO /\ tail_failed X w e ec w' e' rc wc' ec').
Proof.
  intros HR Hg. unfold truncate_tail. destruct (tail_scan _ _ _ _ _) as [[rrest del] ntr] eqn:Ets.
  destruct (tail_scan_spec _ _ _ _ _ _ _ _ Ets) as (sk & Hrev & Hdel). cbn [app] in Hdel.
  destruct rrest as [|t rr].
  - rewrite app_nil_r in Hrev. destruct (create_next _ _ _ _) as [[nid segs2] si].
    intros E1 E2.
    assert (Hall : forall ti, tail_info (st_segs w) = Some ti -> In (name_of ti) del).
    { intros ti Hti. rewrite Hdel. apply in_map_iff. exists ti. split; [reflexivity|].
      rewrite <- Hrev. apply in_rev. rewrite rev_involutive. apply tail_info_In. exact Hti. }
    destruct (mutate_lock' X w w _ _ _ _ _ _ _ _ _ HR E1 E2) as [(A & B & C & _ & F)|(A & B & C)].
    { intros ti Hti _ _. apply (Hall ti Hti). }
    + left. split; [exact A|]. split; [exact B|]. split; [intros K; left; apply F; exact K|].
      intros Hr. rewrite Hr in C. exists del, X. cbn [dels_of tx_delete] in C. split; [exact C|]. split; [apply incl_refl|].
      intros ti tw Hti _ _ _ _. right. apply (Hall ti Hti).
    + right. split; [exact A|]. split; [exact B|]. left. eapply txn_failed0_create; [|exact C]. discriminate.
  - destruct (si_sealed t) eqn:Eseal.
    + destruct (create_next _ _ _ _) as [[nid segs2] si].
      fold (set_tail w (st_tail w)). rewrite set_tail_id.
      intros E1 E2.
      assert (Hall : forall ti, tail_info (st_segs w) = Some ti -> si_sealed ti = false -> In (name_of ti) del).
      { intros ti Hti Hus. rewrite Hdel.
        destruct (tail_info_rev _ _ Hti) as (r0 & Hr0). rewrite Hr0 in Hrev.
        destruct sk as [|x sk]; cbn [app] in Hrev; injection Hrev as Hx Hrest; [congruence|]. subst x.
        apply in_map_iff. exists ti. split; [reflexivity|left; reflexivity]. }
      match type of E1 with mutate _ ?t0 (add_m e ?f) = _ =>
        destruct (mutate_lock' X w w t0 _ _ _ _ _ _ _ _ (R_add_m X e ec f f HR) E1 E2) as [(A & B & C & _ & F)|(A & B & C)] end.
      { intros ti Hti Hus _. apply (Hall ti Hti Hus). }
      * left. split; [exact A|]. split; [exact B|]. split; [intros K; left; apply F; exact K|].
        intros Hr. rewrite Hr in C. exists del, X. cbn [dels_of tx_delete] in C. split; [eapply Rd_shift; [apply aext_add_m|exact C]|]. split; [apply incl_refl|].
        intros ti tw Hti Hus _ _ _. right. apply (Hall ti Hti Hus).
      * right. split; [exact A|]. split; [exact B|]. left.
        match type of C with txn_failed0 _ _ _ _ (add_m _ ?f) _ _ _ _ _ _ =>
          apply (txn_failed_shift X w w e ec (add_m e f) (add_m ec f)); [reflexivity|apply aext_add_m|reflexivity|] end.
        eapply txn_failed0_create; [|exact C]. discriminate.
    + destruct (st_tail w) as [tw|] eqn:Etw.
      2:{ intros E1 E2; inversion E1; inversion E2; subst; left. split; [reflexivity|]. split; [reflexivity|].
          split; [intros _; right; auto|discriminate]. }
      destruct (seg_force_seal tw e) as [[r1 tw1] e1] eqn:Efs. destruct (seg_force_seal tw ec) as [[rc1 twc1] ec1] eqn:Efsc.
      destruct (seg_force_seal_lock X tw e ec _ _ _ _ _ _ HR (Hg tw eq_refl) Efs Efsc)
        as (A1 & A2 & [(-> & -> & B3 & B4 & B5)|(-> & B0 & Bn & -> & -> & B3 & B4)]).
      * destruct rc1; try (intros E1 E2; inversion E1; inversion E2; subst; left; split; [reflexivity|]; split; [reflexivity|];
                           split; [|discriminate]; intros _; right; destruct B5 as (X0 & Y & Z); [left; discriminate|]; subst;
                           split; [fold (set_tail w (Some tw)); rewrite <- Etw; apply set_tail_id|auto]).
        destruct (create_next _ _ _ _) as [[nid segs2] si].
        fold (set_tail w (Some twc1)).
        assert (Ho' : exists X', R X' e1 ec1 /\ (X' = X \/ (ws_index_start tw = 0 /\ X' = rem (ws_name tw) X)) /\
                                 (ws_index_start tw = 0 -> X' = rem (ws_name tw) X)).
        { destruct (N.eq_dec (ws_index_start tw) 0) as [Z|Z].
          - exists (rem (ws_name tw) X). split; [apply B4; auto|]. split; [right; auto|auto].
          - exists X. split; [exact B3|]. split; [left; reflexivity|]. intros K; contradiction. }
        destruct Ho' as (X' & HR1 & Ho' & Ho'').
        intros E1 E2.
        match type of E1 with mutate _ ?t0 (add_m e1 ?f) = _ =>
          destruct (mutate_lock X' _ t0 _ _ _ _ _ _ _ _ (R_add_m X' e1 ec1 f f HR1) E1 E2) as [(A & B & C & F)|(A & B & C)] end.
        -- left. split; [exact A|]. split; [exact B|]. split; [intros K; left; apply F; exact K|].
           intros Hr. rewrite Hr in C. exists del, X'. cbn [dels_of tx_delete] in C.
           split; [eapply Rd_shift; [exact A1|]; eapply Rd_shift; [apply aext_add_m|exact C]|].
           split; [destruct Ho' as [->|(_ & ->)]; [apply incl_refl|apply rem_incl]|].
           intros ti tw0 Hti Hus Htw0 Hname His. inversion Htw0; subst tw0. left. rewrite (Ho'' His), <- Hname. apply rem_not.
        -- right. split; [exact A|]. split; [exact B|]. right. right.
           exists tw, twc1, e1, ec1, X'. split; [exact Etw|]. split; [exact Efsc|]. split; [exact Efs|]. split; [exact HR1|].
           split; [exact Ho'|]. split; [exact Ho''|]. split; [split; [exact A1|exact A2]|].
           destruct C as (Ew & [C2|[(C0 & _ & C2 & C4 & _)|[(_ & C2 & _)|C2]]]); (split; [exact Ew|]).
           ++ left. split; [exact C2|].
              match type of E2 with mutate ?w0 ?t ?e0 = _ => pose proof (sh_mutate w0 t e0 _ _ _ A2 E2) as Hsh end.
              eapply pfx_more; [apply pfx_end; exact A1|]. eapply aext_trans; [apply aext_add_m|apply Hsh].
           ++ right. left. eexists. split; [eapply post_commit_shift; [apply aext_add_m|reflexivity|exact C2]|exact C4].
           ++ cbn [tx_create] in C2. discriminate.
           ++ right. right. exact C2.
      * intros E1 E2; inversion E1; inversion E2; subst. right.
        split; [exact B3|]. split; [reflexivity|]. right. left. exists tw. split; [exact Etw|]. split; [exact B0|]. split; [exact Bn|].
        split; [fold (set_tail w (Some tw)); rewrite <- Etw; apply set_tail_id|].
        destruct B4 as [B4|(B4 & B5)]; [left; exact B4|right; split; [exact B4|]].
        destruct (create_next _ _ _ _) as [[nid segs2] si].
        match goal with H : mutate ?w0 ?t ?e0 = _ |- _ => pose proof (sh_mutate w0 t e0 _ _ _ A2 H) as Hsh end.
        eapply pfx_more; [exact B5|]. eapply aext_trans; [apply aext_add_m|apply Hsh].
Qed.

Lemma sh_delete_range c w mn mx ec r w' ec' : e_fault ec = None -> delete_range c w mn mx ec = (r, w', ec') -> shok ec ec'.
Proof.
  intros Hf. unfold delete_range. destruct (st_closed w); [intros E; inversion E; subst; apply shok_refl; exact Hf|].
  destruct (mx <? mn); [intros E; inversion E; subst; apply shok_refl; exact Hf|].
  destruct (st_failed w); [intros E; inversion E; subst; apply shok_refl; exact Hf|]. cbv zeta.
  destruct (_ || _); [intros E; inversion E; subst; apply shok_refl; exact Hf|].
  destruct (mn <=? _); [apply sh_truncate_head; exact Hf|].
  destruct (_ <=? mx); [apply sh_truncate_tail; exact Hf|].
  intros E; inversion E; subst; apply shok_refl; exact Hf.
Qed.

(* the outcome of a DeleteRange on which both runs agree *)
Definition delete_same (X : list fname) (w : wal) (e ec : env) (rc : result) (wc' : wal) (e' ec' : env) : Prop :=
  (rc <> ROk -> st_failed wc' = true \/ (wc' = w /\ e' = e /\ ec' = ec)) /\
  (rc = ROk ->
     (wc' = w /\ e' = e /\ ec' = ec) \/
     (* head truncation: the stale set is unchanged; the tail survives or is among ns *)
     (exists ns, Rd X ns ec e' ec' /\ tail_fate w e wc' e' ns) \/
     (* tail truncation: the tail was written (forced seal) or is among ns *)
     (exists ns X', Rd X' ns ec e' ec' /\ incl X' X /\
        forall ti tw, tail_info (st_segs w) = Some ti -> si_sealed ti = false ->
           st_tail w = Some tw -> ws_name tw = name_of ti -> ws_index_start tw = 0 -> ~ In (name_of ti) X' \/ In (name_of ti) ns)).

Lemma delete_range_lock X c w mn mx e ec r w' e' rc wc' ec' : R X e ec ->
  (forall tw, st_tail w = Some tw -> In (ws_name tw) X -> wguard (e_disk e) (ws_name tw) (ws_off tw)) ->
  delete_range c w mn mx e = (r, w', e') -> delete_range c w mn mx ec = (rc, wc', ec') ->
  (r = rc /\ w' = wc' /\ delete_same X w e ec rc wc' e' ec') \/
  (e_fault e' = None /\ r = RErrIO /\ tail_failed X w e ec w' e' rc wc' ec').
Proof.
  intros HR Hg. unfold delete_range.
  assert (Hsame : forall r0, (r0, w, e) = (r, w', e') -> (r0, w, ec) = (rc, wc', ec') ->
    (r = rc /\ w' = wc' /\ delete_same X w e ec rc wc' e' ec') \/
    (e_fault e' = None /\ r = RErrIO /\ tail_failed X w e ec w' e' rc wc' ec')).
  { intros r0 E1 E2. inversion E1; inversion E2; subst. left. split; [reflexivity|]. split; [reflexivity|].
    split; [intros _; right; auto|intros _; left; auto]. }
  destruct (st_closed w); [apply Hsame|]. destruct (mx <? mn); [apply Hsame|]. destruct (st_failed w); [apply Hsame|]. cbv zeta.
  destruct (_ || _); [apply Hsame|].
  destruct (mn <=? _).
  - intros E1 E2. destruct (truncate_head_lock X c w _ e ec _ _ _ _ _ _ HR E1 E2) as [(A & B & F & ns & C & D)|(A & B & C)].
    + left. split; [exact A|]. split; [exact B|]. split; [intros K; left; apply F; exact K|].
      intros Hr. rewrite Hr in C. right. left. exists ns. split; [exact C|apply D; exact Hr].
    + right. split; [exact A|]. split; [exact B|]. left. exact C.
  - destruct (_ <=? mx); [|apply Hsame].
    intros E1 E2. destruct (truncate_tail_lock X c w _ e ec _ _ _ _ _ _ HR Hg E1 E2) as [(A & B & F & D)|F].
    + left. split; [exact A|]. split; [exact B|]. subst w'. split; [exact F|]. intros Hr. right. right. apply (D Hr).
    + right. exact F.
Qed.

(* ------------------------------------------------------------------ *)
(* StableStore.Set                                                      *)
Lemma sh_set_stable w k v nl ec r ec' : e_fault ec = None -> set_stable w k v nl ec = (r, ec') -> shok ec ec'.
Proof.
  intros Hf. unfold set_stable. destruct (st_closed w); [intros E; inversion E; subst; apply shok_refl; exact Hf|].
  assert (H0 : shok ec (inc_stable ec true)) by (unfold inc_stable; apply shok_add_m; exact Hf).
  destruct (negb (key_ok k)); [intros E; inversion E; subst; exact H0|].
  rewrite (io_ok _ (inc_stable ec true) Hf). intros E; inversion E; subst.
  eapply shok_trans; [exact H0|apply shok_io].
Qed.

Lemma set_stable_lock X w k v nl e ec r e' rc ec' : R X e ec ->
  set_stable w k v nl e = (r, e') -> set_stable w k v nl ec = (rc, ec') ->
  (r = rc /\ R X e' ec') \/
  (e_fault e' = None /\ r = RErrIO /\ rc = ROk /\ (e_disk e' = e_disk e \/ R X e' ec')).
Proof.
  intros HR. unfold set_stable. destruct (st_closed w); [intros E1 E2; inversion E1; inversion E2; subst; left; auto|].
  destruct (negb (key_ok k)); [intros E1 E2; inversion E1; inversion E2; subst; left; split; [reflexivity|exact HR]|].
  assert (HR0 : R X (inc_stable e true) (inc_stable ec true)) by exact HR.
  destruct (io_lock X (ASetStable k v) _ _ HR0 (conj I eq_refl)) as (Ec & [(e1 & Er & HR1 & _)|[(e1 & Er & D & F & _)|(e1 & Er & _ & HR1 & _ & F & _)]]); rewrite Ec, Er;
    intros E1 E2; inversion E1; inversion E2; subst; [left; auto|right; auto|right; auto].
Qed.

(* ------------------------------------------------------------------ *)
(* Open (reads file contents: needs the strict relation)                *)
Lemma drel_cur d dc n : drel [] d dc ->
  match lookup n (dk_files d), lookup n (dk_files dc) with
  | Some f, Some g => cur_ents f = cur_ents g /\ cur_end f = cur_end g /\ cur_seal f = cur_seal g
  | None, None => True
  | _, _ => False
  end.
Proof.
  intros (H1 & _ & _ & _ & _ & H6). pose proof (lrel_lookup n _ _ H1) as K.
  destruct (lookup n (dk_files d)) as [f|] eqn:Ef, (lookup n (dk_files dc)) as [g|] eqn:Eg; auto.
  destruct K as (K1 & K2 & K3 & _). specialize (H6 n f g Ef Eg ltac:(intros [])).
  unfold cur_ents, cur_end, cur_seal. rewrite H6, K1, K2, K3. auto.
Qed.

Lemma seg_recover_rel si e ec : drel [] (e_disk e) (e_disk ec) -> seg_recover si e = seg_recover si ec.
Proof.
  intros H. unfold seg_recover. pose proof (drel_cur _ _ (name_of si) H) as K.
  destruct (lookup _ (dk_files (e_disk e))) as [f|], (lookup _ (dk_files (e_disk ec))) as [g|]; [|destruct K|destruct K|reflexivity].
  destruct K as (K1 & K2 & K3). rewrite K1, K2, K3. reflexivity.
Qed.

Lemma sh_open_segs c : forall segs acc ec r sl tl ec', e_fault ec = None ->
  open_segs c segs acc ec = (r, sl, tl, ec') -> shok ec ec'.
Proof.
  induction segs as [|si segs IH]; intros acc ec r sl tl ec' Hf; cbn [open_segs].
  - intros E; inversion E; subst. apply shok_refl; exact Hf.
  - destruct (negb (si_codec si =? c_codec c)); [intros E; inversion E; subst; apply shok_refl; exact Hf|].
    destruct (negb (si_sealed si)).
    + destruct segs; [|intros E; inversion E; subst; apply shok_refl; exact Hf].
      destruct (seg_recover si ec) as [x|].
      * destruct x as [sw|]; [|intros E; inversion E; subst; apply shok_refl; exact Hf].
        destruct (0 <? _); intros E; inversion E; subst; apply shok_refl; exact Hf.
      * destruct (seg_create si ec) as [sw e1] eqn:Es. pose proof (sh_seg_create _ _ _ _ Hf Es) as H1.
        destruct sw as [sw|]; [|intros E; inversion E; subst; exact H1].
        destruct (0 <? _); intros E; inversion E; subst; exact H1.
    + destruct (lookup _ _) as [f|]; [|intros E; inversion E; subst; apply shok_refl; exact Hf].
      destruct (cur_end f =? 0); [intros E; inversion E; subst; apply shok_refl; exact Hf|]. apply IH. exact Hf.
Qed.

(* Open failed: the real disk is related to a disk the shadow run passes through *)
Definition open_failed (e1 ec1 : env) (res : open_res) (e' ec' : env) : Prop :=
  (exists x, res = OErr x) /\ exists dm, drel [] (e_disk e') dm /\ pfx ec1 ec' dm.

Lemma open_segs_lock c : forall segs acc e ec r sl tl e' rc slc tlc ec', R [] e ec ->
  open_segs c segs acc e = (r, sl, tl, e') -> open_segs c segs acc ec = (rc, slc, tlc, ec') ->
  (r = rc /\ sl = slc /\ tl = tlc /\ R [] e' ec') \/
  (r = RErrIO /\ exists dm, drel [] (e_disk e') dm /\ pfx ec ec' dm).
Proof.
  induction segs as [|si segs IH]; intros acc e ec r sl tl e' rc slc tlc ec' HR; cbn [open_segs].
  - intros E1 E2; inversion E1; inversion E2; subst. left. auto.
  - destruct (negb (si_codec si =? c_codec c)); [intros E1 E2; inversion E1; inversion E2; subst; left; auto|].
    destruct (negb (si_sealed si)).
    + destruct segs; [|intros E1 E2; inversion E1; inversion E2; subst; left; auto].
      rewrite (seg_recover_rel si e ec (proj1 HR)).
      destruct (seg_recover si ec) as [x|].
      * destruct x as [sw|]; [|intros E1 E2; inversion E1; inversion E2; subst; left; auto].
        destruct (0 <? _); intros E1 E2; inversion E1; inversion E2; subst; left; auto.
      * destruct (seg_create si e) as [sw e1] eqn:Es. destruct (seg_create si ec) as [swc ec1] eqn:Esc.
        destruct (seg_create_lock [] si e ec _ _ _ _ HR Es Esc) as (A1 & A2 & [(-> & HR1)|(-> & -> & F & Dc & Hreal)]).
        -- destruct swc as [sw|]; [|intros E1 E2; inversion E1; inversion E2; subst; left; auto].
           destruct (0 <? _); intros E1 E2; inversion E1; inversion E2; subst; left; auto.
        -- intros E1 E2. inversion E1; subst. right. split; [reflexivity|].
           assert (Hec' : ec' = ec1) by (cbn [new_wseg ws_index_start] in E2; change (0 <? 0) with false in E2; inversion E2; reflexivity).
           subst ec'.
           destruct Hreal as [Hd|Hd].
           ++ exists (e_disk ec). split; [rewrite Hd; apply HR|apply pfx_start; exact A1].
           ++ exists (e_disk ec1). split; [exact Hd|apply pfx_end; exact A1].
    + pose proof (drel_cur _ _ (name_of si) (proj1 HR)) as K.
      destruct (lookup _ (dk_files (e_disk e))) as [f|], (lookup _ (dk_files (e_disk ec))) as [g|];
        [|destruct K|destruct K|intros E1 E2; inversion E1; inversion E2; subst; left; auto].
      destruct K as (_ & K2 & _). rewrite K2.
      destruct (cur_end g =? 0); [intros E1 E2; inversion E1; inversion E2; subst; left; auto|].
      apply IH. exact HR.
Qed.

(* the outcome of an Open on which both runs agree: related, up to the garbage
   collection at its end (which fails as a whole while deletion faults are armed) *)
Definition open_same (ec0 : env) (e' ec' : env) : Prop := exists ns, Rd [] ns ec0 e' ec'.

Lemma open_newtail_lock c nid segs garbage e1 ec1 res e' resc ec' : R [] e1 ec1 ->
  open_newtail c nid segs garbage e1 = (res, e') -> open_newtail c nid segs garbage ec1 = (resc, ec') ->
  (res = resc /\ open_same ec1 e' ec') \/ open_failed e1 ec1 res e' ec'.
Proof.
  intros HR. unfold open_newtail.
  match goal with |- context [io (ACommit ?ps) e1] =>
    destruct (io_lock [] (ACommit ps) e1 ec1 HR (conj I eq_refl)) as (Ec & [(e2 & Er & HR2 & _)|[(e2 & Er & D & F & _)|(e2 & Er & _ & HR2 & D & F & _)]]); rewrite Ec, Er; cbn [negb];
    set (ec2 := io_env (ACommit ps) ec1) in * end.
  - destruct (seg_create _ e2) as [sw e3] eqn:Es. destruct (seg_create _ ec2) as [swc ec3] eqn:Esc.
    destruct (seg_create_lock [] _ e2 ec2 _ _ _ _ HR2 Es Esc) as (A1 & A2 & [(-> & HR3)|(-> & -> & F & Dc & Hreal)]).
    + destruct swc as [sw|]; intros E1 E2; inversion E1; inversion E2; subst; left; [|split; [reflexivity|exists []; left; exact HR3]].
      split; [reflexivity|]. exists garbage. apply (delete_files_Rd [] garbage e3 ec3 ec1 HR3).
      eapply aext_trans; [apply aext_io|exact A1].
    + intros E1 E2. inversion E1; subst. right. split; [eexists; reflexivity|].
      assert (Ha3 : aext ec3 ec') by (inversion E2; subst; apply sh_delete_files; exact A2).
      destruct Hreal as [Hd|Hd].
      * exists (e_disk ec2). split; [rewrite Hd; apply HR2|].
        eapply pfx_more; [apply (pfx_end ec1 ec2); apply aext_io|]. eapply aext_trans; [exact A1|exact Ha3].
      * exists (e_disk ec3). split; [exact Hd|].
        eapply pfx_more; [apply (pfx_end ec1 ec3); eapply aext_trans; [apply aext_io|exact A1]|exact Ha3].
  - intros E1 E2. inversion E1; subst. right. split; [eexists; reflexivity|].
    exists (e_disk ec1). split; [rewrite D; apply HR|].
    apply pfx_start.
    destruct (seg_create _ ec2) as [swc ec3] eqn:Esc. pose proof (sh_seg_create _ _ _ _ (io_env_fault _ _) Esc) as H3.
    destruct swc; inversion E2; subst.
    + eapply aext_trans; [apply aext_io|]. eapply aext_trans; [apply H3|]. apply sh_delete_files. apply H3.
    + eapply aext_trans; [apply aext_io|apply H3].
  - (* the commit is reported as failed and found applied *)
    intros E1 E2. inversion E1; subst. right. split; [eexists; reflexivity|].
    exists (e_disk ec2). split; [apply HR2|].
    eapply pfx_more; [apply (pfx_end ec1 ec2); apply aext_io|].
    destruct (seg_create _ ec2) as [swc ec3] eqn:Esc. pose proof (sh_seg_create _ _ _ _ (io_env_fault _ _) Esc) as H3.
    destruct swc; inversion E2; subst.
    + eapply aext_trans; [apply H3|]. apply sh_delete_files. apply H3.
    + apply H3.
Qed.

Lemma sh_open_rest c ec res ec' : e_fault ec = None -> open_rest c ec = (res, ec') -> shok ec ec'.
Proof.
  intros Hf. unfold open_rest.
  destruct (open_segs c _ [] ec) as [[[r segs] tail] ec1] eqn:Eo. pose proof (sh_open_segs _ _ _ _ _ _ _ _ Hf Eo) as H1.
  destruct r; try (intros E; inversion E; subst; exact H1).
  destruct tail as [tw|].
  - intros E; inversion E; subst. eapply shok_trans; [exact H1|]. apply sh_delete_files. apply H1.
  - unfold open_newtail. rewrite (io_ok _ _ (proj2 H1)). cbn [negb].
    destruct (seg_create _ _) as [sw ec3] eqn:Es. pose proof (sh_seg_create _ _ _ _ (io_env_fault _ _) Es) as H3.
    assert (H13 : shok ec ec3).
    { eapply shok_trans; [exact H1|]. eapply shok_trans; [apply shok_io|exact H3]. }
    destruct sw; intros E; inversion E; subst; [|exact H13].
    eapply shok_trans; [exact H13|]. apply sh_delete_files. apply H3.
Qed.

Lemma open_same_shift ec0 ec1 e' ec' : aext ec0 ec1 -> open_same ec1 e' ec' -> open_same ec0 e' ec'.
Proof. intros Ha (ns & H). exists ns. eapply Rd_shift; eauto. Qed.

Lemma open_failed_shift e0 e1 ec0 ec1 res e' ec' : aext ec0 ec1 -> open_failed e1 ec1 res e' ec' -> open_failed e0 ec0 res e' ec'.
Proof. intros Ha (A & dm & B & C). split; [exact A|]. exists dm. split; [exact B|eapply pfx_shift; eauto]. Qed.

Lemma open_rest_lock c e0 ec0 res e' resc ec' : R [] e0 ec0 ->
  open_rest c e0 = (res, e') -> open_rest c ec0 = (resc, ec') ->
  (res = resc /\ open_same ec0 e' ec') \/ open_failed e0 ec0 res e' ec'.
Proof.
  intros HR. unfold open_rest. pose proof HR as ((Hl & Hm & _) & Hf). rewrite Hm, (lrel_keys _ _ Hl).
  set (ps := match dk_meta (e_disk ec0) with Some ps => ps | None => {| ps_next_id := 0; ps_segs := [] |} end).
  destruct (open_segs c (ps_segs ps) [] e0) as [[[r segs] tail] e1] eqn:Eo.
  destruct (open_segs c (ps_segs ps) [] ec0) as [[[rc segsc] tailc] ec1] eqn:Eoc.
  pose proof (sh_open_segs _ _ _ _ _ _ _ _ Hf Eoc) as H1.
  destruct (open_segs_lock c _ _ _ _ _ _ _ _ _ _ _ _ HR Eo Eoc) as [(-> & -> & -> & HR1)|(-> & dm & D1 & D2)].
  - destruct rc; [|intros E1 E2; inversion E1; inversion E2; subst; left; split; [reflexivity|exists []; left; exact HR1] ..].
    destruct tailc as [tw|].
    + intros E1 E2; inversion E1; inversion E2; subst. left. split; [reflexivity|].
      eexists. apply (delete_files_Rd [] _ e1 ec1 ec0 HR1). apply H1.
    + intros E1 E2. destruct (open_newtail_lock c _ _ _ e1 ec1 _ _ _ _ HR1 E1 E2) as [(G1 & G2)|G].
      * left. split; [exact G1|]. eapply open_same_shift; [apply H1|exact G2].
      * right. eapply open_failed_shift; [apply H1|exact G].
  - intros E1 E2. inversion E1; subst. right. split; [eexists; reflexivity|].
    exists dm. split; [exact D1|]. eapply pfx_more; [exact D2|].
    pose proof (sh_open_rest c ec0 resc ec' Hf) as Hsh. unfold open_rest in Hsh. fold ps in Hsh. rewrite Eoc in Hsh.
    (* the shadow run continues after open_segs *)
    destruct rc; try (inversion E2; subst; apply aext_refl).
    destruct tailc as [tw|].
    + inversion E2; subst. apply sh_delete_files. apply H1.
    + unfold open_newtail in E2. rewrite (io_ok _ _ (proj2 H1)) in E2. cbn [negb] in E2.
      destruct (seg_create _ _) as [sw ec3] eqn:Es. pose proof (sh_seg_create _ _ _ _ (io_env_fault _ _) Es) as H3.
      destruct sw; inversion E2; subst.
      * eapply aext_trans; [apply aext_io|]. eapply aext_trans; [apply H3|]. apply sh_delete_files. apply H3.
      * eapply aext_trans; [apply aext_io|apply H3].
Qed.

Lemma sh_open_wal c ec res ec' : e_fault ec = None -> open_wal c ec = (res, ec') -> shok ec ec'.
Proof.
  intros Hf. rewrite open_wal_unfold. destruct (_ && _); [intros E; inversion E; subst; apply shok_refl; exact Hf|].
  destruct (dk_inited (e_disk ec)); cbn [negb].
  - unfold armed. rewrite Hf. cbn [andb]. apply sh_open_rest; exact Hf.
  - rewrite (io_ok _ _ Hf). cbn [negb]. change (armed (io_env AInitMeta ec) && fx_list (e_fx (io_env AInitMeta ec))) with false. cbv iota.
    intros E. eapply shok_trans; [apply shok_io|]. eapply sh_open_rest; [|exact E]. reflexivity.
Qed.

Lemma open_wal_lock c e ec res e' resc ec' : R [] e ec ->
  open_wal c e = (res, e') -> open_wal c ec = (resc, ec') ->
  (res = resc /\ open_same ec e' ec') \/ open_failed e ec res e' ec'.
Proof.
  intros HR. rewrite !open_wal_unfold. destruct (_ && _); [intros E1 E2; inversion E1; inversion E2; subst; left; split; [reflexivity|exists []; left; exact HR]|].
  pose proof HR as ((_ & _ & _ & Hin & _) & Hf). rewrite Hin.
  assert (Hlist : forall e0 ec0, R [] e0 ec0 -> aext ec ec0 ->
            (if armed e0 && fx_list (e_fx e0) then (OErr RErrIO, list_failed e0) else open_rest c e0) = (res, e') ->
            open_rest c ec0 = (resc, ec') ->
            (res = resc /\ open_same ec e' ec') \/ open_failed e ec res e' ec').
  { intros e0 ec0 HR0 Ha E1 E2. destruct (armed e0 && fx_list (e_fx e0)).
    - inversion E1; subst. right. split; [eexists; reflexivity|]. exists (e_disk ec0). split; [apply HR0|].
      eapply pfx_shift; [exact Ha|]. apply pfx_start. eapply sh_open_rest; [apply HR0|exact E2].
    - destruct (open_rest_lock c _ _ _ _ _ _ HR0 E1 E2) as [(G1 & G2)|G].
      + left. split; [exact G1|]. eapply open_same_shift; eauto.
      + right. eapply open_failed_shift; eauto. }
  destruct (dk_inited (e_disk ec)).
  - cbn [negb]. unfold armed at 2. rewrite Hf. cbn [andb]. apply (Hlist e ec HR (aext_refl ec)).
  - destruct (io_lock [] AInitMeta e ec HR (conj I eq_refl)) as (Ec & [(e1 & Er & HR1 & _)|[(e1 & Er & D & F & _)|(e1 & _ & K & _)]]); [| |discriminate K]; rewrite Ec, Er; cbn [negb].
    + change (armed (io_env AInitMeta ec) && fx_list (e_fx (io_env AInitMeta ec))) with false. cbv iota.
      apply (Hlist e1 _ HR1 (aext_io _ _)).
    + change (armed (io_env AInitMeta ec) && fx_list (e_fx (io_env AInitMeta ec))) with false. cbv iota.
      intros E1 E2. inversion E1; subst. right. split; [eexists; reflexivity|].
      exists (e_disk ec). split; [rewrite D; apply HR|]. apply pfx_start.
      eapply aext_trans; [apply aext_io|]. eapply sh_open_rest; [|exact E2]. reflexivity.
Qed.
