(* CrashFacts5.v -- decidable equalities of Hist.v are equalities; the spec keeps
   its entries storable; abs of a live state is the reading of its disk. *)
From RW Require Import Base.Bytes Base.BytesFacts Fmt.Codec Fmt.CodecFacts Fmt.Frame Wal.Model Wal.Spec Wal.Hist
  Wal.CrashInv Wal.CrashFacts0 Wal.CrashFacts1 Wal.CrashFacts2 Wal.CrashFacts3 Wal.CrashFacts4 Gen.Constants.
From Coq Require Import ZifyN ZifyNat ZifyBool.
Open Scope N_scope.

Lemma zone_eqb_eq a b : zone_eqb a b = true <-> a = b.
Proof.
  destruct a, b; cbn; split; intros H; try discriminate; try reflexivity.
  - apply Z.eqb_eq in H. subst; reflexivity.
  - inversion H. apply Z.eqb_refl.
Qed.
Lemma time_eqb_eq a b : time_eqb a b = true <-> a = b.
Proof.
  destruct a, b; unfold time_eqb; cbn. rewrite !andb_true_iff, !Z.eqb_eq, zone_eqb_eq.
  split; [intros ((-> & ->) & ->); reflexivity|intros H; inversion H; auto].
Qed.
Lemma log_eqb_eq a b : log_eqb a b = true <-> a = b.
Proof.
  destruct a, b; unfold log_eqb; cbn. rewrite !andb_true_iff, !N.eqb_eq, !beq_bytes_eq, time_eqb_eq.
  split; [intros (((((-> & ->) & ->) & ->) & ->) & ->); reflexivity|intros H; inversion H; tauto].
Qed.
Lemma logs_eqb_eq a : forall b, logs_eqb a b = true <-> a = b.
Proof.
  induction a as [|x a IH]; intros [|y b]; cbn; try (split; [discriminate|intros H; inversion H]); [tauto|].
  rewrite andb_true_iff, log_eqb_eq, IH. split; [intros (-> & ->); reflexivity|intros H; inversion H; auto].
Qed.
Lemma slog_eqb_eq a b : slog_eqb a b = true <-> a = b.
Proof.
  destruct a, b; unfold slog_eqb; cbn. rewrite andb_true_iff, N.eqb_eq, logs_eqb_eq.
  split; [intros (-> & ->); reflexivity|intros H; inversion H; auto].
Qed.
Lemma kvs_eqb_eq a : forall b, kvs_eqb a b = true <-> a = b.
Proof.
  induction a as [|[k v] a IH]; intros [|[k' v'] b]; cbn; try (split; [discriminate|intros H; inversion H]); [tauto|].
  rewrite !andb_true_iff, !beq_bytes_eq, IH. split; [intros ((-> & ->) & ->); reflexivity|intros H; inversion H; auto].
Qed.
Lemma spst_eqb_eq a b : spst_eqb a b = true <-> a = b.
Proof.
  destruct a, b; unfold spst_eqb; cbn. rewrite andb_true_iff, slog_eqb_eq, kvs_eqb_eq.
  split; [intros (-> & ->); reflexivity|intros H; inversion H; auto].
Qed.
Lemma spst_eqb_refl a : spst_eqb a a = true.
Proof. apply spst_eqb_eq. reflexivity. Qed.
Lemma log_eqb_refl a : log_eqb a a = true.
Proof. apply log_eqb_eq. reflexivity. Qed.

(* ---- abs of a live state ---- *)
Lemma abs_is_gen w d : abs w d = abs_gen (st_segs w) (tail_last (st_tail w)) d.
Proof. reflexivity. Qed.

Lemma LInv_abs c nb w d : LInv c nb w d -> abs w d = dread d.
Proof.
  intros (H1 & H2 & H3 & H4 & H5 & t & f & tw & Ht & Hf & Htw & Hok & Hrot).
  rewrite abs_is_gen. unfold dread. rewrite H5. cbn [persistent ps_segs]. f_equal.
  unfold dtl, persistent. cbn [ps_segs]. rewrite Ht, Htw. cbn [tail_last].
  destruct Hok as (_ & _ & _ & _ & _ & _ & _ & Hci). rewrite Hci.
  unfold file_ents. rewrite Hf. unfold cur_ents. rewrite (H4 _ _ Hf). reflexivity.
Qed.

Lemma LInv_mono c nb nb' w d : nb <= nb' -> LInv c nb w d -> LInv c nb' w d.
Proof.
  intros Hle (H1 & H2 & H3 & H4). split; [exact H1|]. split; [exact H2|]. split; [eapply DIs_mono; eauto|exact H4].
Qed.

Lemma LInv_DP c nb w d (A : spst -> Prop) : LInv c nb w d -> A (sp_of d) -> DP c nb A d.
Proof. intros (_ & _ & H3 & H4 & _) HA. apply DP_no_pend; assumption. Qed.
