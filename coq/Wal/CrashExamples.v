(* CrashExamples.v -- concrete crash histories (definitions only) used as
   non-vacuity examples by Props/C01..C04, C13. *)
From RW Require Import Base.Bytes Fmt.Codec Fmt.Frame Wal.Model Wal.Spec Wal.Hist Gen.Constants.
Open Scope N_scope.

Definition ex_time : gotime := {| t_sec := 63800000000; t_nsec := 0; t_zone := None |}.
(* a 24-byte payload: the encoded entry frame is 56 bytes *)
Definition ex_log (i term : N) : log :=
  {| l_index := i; l_term := term; l_type := 0; l_data := repeat 65 24; l_ext := []; l_time := ex_time |}.

Definition cfg128 : cfg := {| c_seg_size := 128; c_codec := 1 |}.   (* 1 entry fits, the 2nd seals *)
Definition cfg256 : cfg := {| c_seg_size := 256; c_codec := 1 |}.   (* 3 entries fit, the 4th seals *)

Definition keep_none : crash_choice := {| cc_keep_file := []; cc_keep_batch := [] |}.
Definition keep_all : crash_choice :=
  {| cc_keep_file := [(1, 0); (2, 1); (3, 1); (3, 2); (4, 1); (4, 2)];
     cc_keep_batch := [(1, 0); (2, 1); (3, 1); (3, 2); (4, 1); (4, 2)] |}.

(* A: the 2nd append seals segment 1; power is lost between that append and the
   rotation's metadata commit (j = 0 actions of the next call, which first waits
   for the rotation); Open completes the rotation; the WAL is writable again *)
Definition hist_rotation_before_commit : list hstep :=
  [HOpen; HOp (OStore [ex_log 1 1]); HOp (OStore [ex_log 2 1]);
   HCrashIn (OStore [ex_log 3 1]) 0 keep_all;
   HOpen; HOp (OGet 2); HOp OLast; HOp (OStore [ex_log 3 2]); HOp (OGet 3); HOp OFirst].

(* B: power is lost between the rotation's metadata commit and the creation of the
   new tail file (j = 1): the listed tail has no file; Open re-creates it *)
Definition hist_rotation_after_commit : list hstep :=
  [HOpen; HOp (OStore [ex_log 1 1]); HOp (OStore [ex_log 2 1]);
   HCrashIn (OStore [ex_log 3 1]) 1 keep_none;
   HOpen; HOp OLast; HOp (OStore [ex_log 3 2]); HOp (OGet 3)].

(* C: the batch is written but not yet fsynced (j = 3 = rotation commit, create, write):
   the adversary keeps the file and the batch, or loses them *)
Definition hist_batch_kept : list hstep :=
  [HOpen; HOp (OStore [ex_log 1 1]); HOp (OStore [ex_log 2 1]);
   HCrashIn (OStore [ex_log 3 1; ex_log 4 1]) 3 keep_all; HOpen; HOp OLast; HOp (OGet 4)].
Definition hist_batch_lost : list hstep :=
  [HOpen; HOp (OStore [ex_log 1 1]); HOp (OStore [ex_log 2 1]);
   HCrashIn (OStore [ex_log 3 1; ex_log 4 1]) 3 keep_none; HOpen; HOp OLast; HOp (OGet 3)].

(* D: tail truncation inside the unsealed tail; power is lost after the force-seal
   (write + fsync, j = 2) and before the metadata commit: nothing is truncated yet,
   Open finds a sealed file listed as unsealed and completes the rotation *)
Definition hist_trunc_after_forceseal : list hstep :=
  [HOpen; HOp (OStore [ex_log 1 1; ex_log 2 1; ex_log 3 1]);
   HCrashIn (ODelete 3 3) 2 keep_all;
   HOpen; HOp OLast; HOp (OGet 3); HOp (OStore [ex_log 4 1]); HOp OLast].

(* E: the same truncation interrupted after its metadata commit (j = 3): it is applied;
   index 3 is then re-appended with different content, a crash follows, and recovery
   returns the new entry, not the old one still present in the sealed file *)
Definition hist_trunc_after_commit : list hstep :=
  [HOpen; HOp (OStore [ex_log 1 1; ex_log 2 1; ex_log 3 1]);
   HCrashIn (ODelete 3 3) 3 keep_none;
   HOpen; HOp OLast; HOp (OStore [ex_log 3 7]);
   HCrashIn (OGet 3) 0 keep_all; HOpen; HOp (OGet 3); HOp OLast].

(* F: nested: crash after the rotation commit, then a crash at the start of recovery,
   then a crash inside recovery right after it re-created the tail file (which is not
   yet durable and is lost), then a complete recovery *)
Definition hist_nested : list hstep :=
  [HOpen; HOp (OStore [ex_log 1 1]); HOp (OStore [ex_log 2 1]);
   HCrashIn (OStore [ex_log 3 1]) 1 keep_none;
   HCrashInOpen 0 keep_all; HCrashInOpen 1 keep_none; HCrashInOpen 1 keep_all;
   HOpen; HOp OLast; HOp (OStore [ex_log 3 1]); HOp OReopen; HOp (OGet 3)].

(* G: head truncation across a segment boundary interrupted after its metadata commit and
   before the deletion of the old segment file (j = 1); then a stable-store write that
   is interrupted before its only action *)
Definition hist_head_trunc : list hstep :=
  [HOpen; HOp (OStore [ex_log 1 1]); HOp (OStore [ex_log 2 1]); HOp (OStore [ex_log 3 1]);
   HCrashIn (ODelete 0 2) 1 keep_all; HOpen; HOp OFirst; HOp (OGet 2); HOp (OGet 3);
   HOp (OSet [107] [1; 2] false); HCrashIn (OSet [107] [3] false) 0 keep_all; HOpen; HOp (OGetS [107])].

(* projections used by the examples *)
Definition final_ok (c : cfg) (steps : list hstep) : bool := hs_ok (hist_run c hist_init steps).
Definition final_last (c : cfg) (steps : list hstep) : N := spec_last (sp_log (hs_acked (hist_run c hist_init steps))).
Definition final_first (c : cfg) (steps : list hstep) : N := spec_first (sp_log (hs_acked (hist_run c hist_init steps))).
Definition final_term (c : cfg) (steps : list hstep) (i : N) : option N :=
  option_map l_term (spec_get (sp_log (hs_acked (hist_run c hist_init steps))) i).

(* the disk left by the crash that is the last step of [steps]: (segments listed in the
   metadata as (base, sealed), files as (name, synced seal offset <> 0)) *)
Definition crash_shape (c : cfg) (steps : list hstep) : list (N * bool) * list (fname * bool) :=
  match hs_mode (hist_run c hist_init steps) with
  | Down d => (match dk_meta d with
               | Some ps => map (fun s => (si_base s, si_sealed s)) (ps_segs ps)
               | None => [] end,
               map (fun nf => (fst nf, negb (df_seal (snd nf) =? 0))) (dk_files d))
  | Up _ => ([], [])
  end.
