(* FaultInv.v -- the invariant of histories with injected I/O errors (C10).
   Definitions, and the basic facts on the normalised views of a disk:
     sh d   every unsynced batch dropped, every file's directory entry durable
            (what the running process relies on)
     ad d   every unsynced batch adopted (what the next recovery will see). *)
From RW Require Import Base.Bytes Base.BytesFacts Fmt.Codec Fmt.Frame Wal.Model Wal.Spec Wal.Hist Wal.FaultHist
  Wal.CrashInv Wal.CrashFacts0 Wal.CrashFacts1 Wal.CrashFacts2 Wal.CrashFacts3 Wal.CrashFacts4 Wal.CrashFacts5
  Wal.CrashFacts6 Wal.CrashGlue Wal.FaultSim Wal.FaultSim2 Gen.Constants.
From Coq Require Import ZifyN ZifyNat ZifyBool.
Open Scope N_scope.

(* ------------------------------------------------------------------ *)
(* normalised disks                                                     *)
Definition map_files (g : dfile -> dfile) (d : disk) : disk :=
  {| dk_files := map (fun nf => (fst nf, g (snd nf))) (dk_files d);
     dk_meta := dk_meta d; dk_stable := dk_stable d; dk_inited := dk_inited d |}.

Definition dirfix_file (f : dfile) : dfile :=
  {| df_ents := df_ents f; df_end := df_end f; df_seal := df_seal f; df_pend := df_pend f;
     df_dir := true; df_size := 0 |}.
Definition sh_file (f : dfile) : dfile :=
  {| df_ents := df_ents f; df_end := df_end f; df_seal := df_seal f; df_pend := None;
     df_dir := true; df_size := 0 |}.

Definition dirfix (d : disk) : disk := map_files dirfix_file d.
Definition sh (d : disk) : disk := map_files sh_file d.
Definition ad (d : disk) : disk := dirfix (adopt_disk d).

Lemma map_files_keys g d : map fst (dk_files (map_files g d)) = map fst (dk_files d).
Proof. unfold map_files; cbn [dk_files]. rewrite map_map. reflexivity. Qed.

Lemma lookup_map_files g n d :
  lookup n (dk_files (map_files g d)) = option_map g (lookup n (dk_files d)).
Proof.
  unfold map_files; cbn [dk_files]. induction (dk_files d) as [|[m f] r IH]; cbn [map lookup fst snd option_map]; [reflexivity|].
  destruct (fname_eqb n m); [reflexivity|exact IH].
Qed.

Lemma adopt_is_map d : adopt_disk d = map_files adopt_file d.
Proof. reflexivity. Qed.

Lemma map_files_comp g h d : map_files g (map_files h d) = map_files (fun f => g (h f)) d.
Proof. unfold map_files; cbn [dk_files dk_meta dk_stable dk_inited]. rewrite map_map. reflexivity. Qed.

Lemma map_files_ext g h d : (forall n f, In (n, f) (dk_files d) -> g f = h f) -> map_files g d = map_files h d.
Proof.
  intros H. unfold map_files. f_equal. apply map_ext_in. intros [n f] Hin. cbn [fst snd]. rewrite (H n f Hin). reflexivity.
Qed.

Lemma sh_idem d : sh (sh d) = sh d.
Proof. unfold sh. rewrite map_files_comp. reflexivity. Qed.
Lemma sh_dirfix d : sh (dirfix d) = sh d.
Proof. unfold sh, dirfix. rewrite map_files_comp. reflexivity. Qed.
Lemma dirfix_sh d : dirfix (sh d) = sh d.
Proof. unfold sh, dirfix. rewrite map_files_comp. reflexivity. Qed.
Lemma no_pend_in d n f : NoDup (map fst (dk_files d)) -> no_pend d -> In (n, f) (dk_files d) -> df_pend f = None.
Proof. intros ND H Hin. apply (H n f). apply In_lookup; assumption. Qed.

Lemma ad_nopend d : NoDup (map fst (dk_files d)) -> no_pend d -> ad d = sh d.
Proof.
  intros ND H. unfold ad, sh, dirfix. rewrite adopt_is_map, map_files_comp. apply map_files_ext.
  intros n f Hin. pose proof (no_pend_in d n f ND H Hin) as Hp.
  unfold adopt_file. rewrite Hp. unfold dirfix_file, sh_file. rewrite Hp. reflexivity.
Qed.

Lemma dirfix_nopend d : NoDup (map fst (dk_files d)) -> no_pend d -> dirfix d = sh d.
Proof.
  intros ND H. unfold sh, dirfix. apply map_files_ext.
  intros n f Hin. pose proof (no_pend_in d n f ND H Hin) as Hp. unfold dirfix_file, sh_file. rewrite Hp. reflexivity.
Qed.

Lemma no_pend_sh d : no_pend (sh d).
Proof.
  intros n f. unfold sh. rewrite lookup_map_files. destruct (lookup n (dk_files d)); cbn; [|discriminate].
  intros E; inversion E; reflexivity.
Qed.

Lemma no_pend_ad d : no_pend (ad d).
Proof.
  intros n f. unfold ad, dirfix. rewrite adopt_is_map, map_files_comp, lookup_map_files.
  destruct (lookup n (dk_files d)) as [g|]; cbn; [|discriminate].
  intros E; inversion E. unfold adopt_file. destruct (df_pend g) eqn:Ep; cbn; [reflexivity|exact Ep].
Qed.

(* ---- the relation of FaultSim between a disk and its normal forms ---- *)
Lemma lrel_map_files (g : dfile -> dfile) l : (forall f, frel f (g f)) ->
  lrel l (map (fun nf => (fst nf, g (snd nf))) l).
Proof. intros H. induction l as [|[n f] l IH]; constructor; [split; [reflexivity|apply H]|exact IH]. Qed.

Lemma frel_sh f : frel f (sh_file f).
Proof. unfold frel, sh_file; cbn. auto 10. Qed.
Lemma frel_dirfix f : frel f (dirfix_file f).
Proof. unfold frel, dirfix_file; cbn. auto 10. Qed.

(* pending batches only in the files named in [X] *)
Definition stale_ok (X : list fname) (d : disk) : Prop :=
  forall n f, lookup n (dk_files d) = Some f -> df_pend f <> None -> In n X.

(* the names of the files with a pending batch *)
Definition stale_names (d : disk) : list fname :=
  map fst (filter (fun nf => match df_pend (snd nf) with Some _ => true | None => false end) (dk_files d)).

Lemma stale_names_ok d : stale_ok (stale_names d) d.
Proof.
  intros n f Hl Hp. unfold stale_names. apply in_map_iff. exists (n, f). split; [reflexivity|].
  apply filter_In. split; [apply lookup_In; exact Hl|]. cbn. destruct (df_pend f); congruence.
Qed.

Lemma stale_names_in d n : NoDup (map fst (dk_files d)) -> In n (stale_names d) ->
  exists f p, lookup n (dk_files d) = Some f /\ df_pend f = Some p.
Proof.
  intros ND H. unfold stale_names in H. apply in_map_iff in H. destruct H as ([m f] & <- & H).
  apply filter_In in H. destruct H as (Hin & Hp). cbn in *. destruct (df_pend f) as [p|] eqn:E; [|discriminate].
  exists f, p. split; [apply In_lookup; assumption|exact E].
Qed.

Lemma drel_sh X d : NoDup (map fst (dk_files d)) -> stale_ok X d -> drel X d (sh d).
Proof.
  intros ND Hs. split; [apply lrel_map_files; apply frel_sh|].
  split; [reflexivity|]. split; [reflexivity|]. split; [reflexivity|].
  split; [unfold sh; rewrite map_files_keys; exact ND|].
  intros n f g A B Hne. unfold sh in B. rewrite lookup_map_files, A in B. cbn in B. inversion B; subst. cbn.
  destruct (df_pend f) eqn:E; [|reflexivity]. exfalso. apply Hne. apply (Hs n f A). congruence.
Qed.

Lemma drel_dirfix d : NoDup (map fst (dk_files d)) -> drel [] d (dirfix d).
Proof.
  intros ND. split; [apply lrel_map_files; apply frel_dirfix|].
  split; [reflexivity|]. split; [reflexivity|]. split; [reflexivity|].
  split; [unfold dirfix; rewrite map_files_keys; exact ND|].
  intros n f g A B _. unfold dirfix in B. rewrite lookup_map_files, A in B. cbn in B. inversion B; subst. reflexivity.
Qed.

(* related disks have the same normal forms *)
Lemma sh_file_rel f g : frel f g -> sh_file f = sh_file g.
Proof. intros (A & B & C & _). unfold sh_file. rewrite A, B, C. reflexivity. Qed.

Lemma drel_sh_eq X d dc : drel X d dc -> sh d = sh dc.
Proof.
  intros (H1 & H2 & H3 & H4 & _). unfold sh, map_files. rewrite H2, H3, H4. f_equal.
  induction H1 as [|[n f] [m g] l lc (E & Hf) _ IH]; [reflexivity|]. cbn [map fst snd] in *. subst m.
  rewrite (sh_file_rel f g Hf), IH. reflexivity.
Qed.

Lemma drel_strict_in d dc : drel [] d dc ->
  Forall2 (fun a b => fst a = fst b /\ frel (snd a) (snd b) /\ df_pend (snd a) = df_pend (snd b)) (dk_files d) (dk_files dc).
Proof.
  intros (H1 & _ & _ & _ & ND & H6).
  assert (ND' : NoDup (map fst (dk_files d))) by (rewrite (lrel_keys _ _ H1); exact ND).
  revert ND ND' H6. induction H1 as [|[n f] [m g] l lc (E & Hf) Hr IH]; intros ND ND' H6; [constructor|].
  cbn [fst snd map] in *. subst m. inversion ND as [|? ? Hn NDr]; inversion ND' as [|? ? Hn' NDr']; subst.
  constructor.
  - split; [reflexivity|]. split; [exact Hf|]. apply (H6 n f g); cbn [lookup]; try rewrite fname_eqb_refl; auto.
  - apply IH; auto. intros k f' g' A B K. apply (H6 k f' g'); auto; cbn [lookup].
    + destruct (fname_eqb k n) eqn:E; [|exact A]. apply fname_eqb_eq in E. subst k. exfalso. apply Hn'.
      apply lookup_some_in in A. exact A.
    + destruct (fname_eqb k n) eqn:E; [|exact B]. apply fname_eqb_eq in E. subst k. exfalso. apply Hn.
      apply lookup_some_in in B. exact B.
Qed.

Lemma drel_dirfix_eq d dc : drel [] d dc -> dirfix d = dirfix dc.
Proof.
  intros H. pose proof (drel_strict_in d dc H) as HF. destruct H as (_ & H2 & H3 & H4 & _).
  unfold dirfix, map_files. rewrite H2, H3, H4. f_equal.
  induction HF as [|[n f] [m g] l lc (E & (A & B & C & _) & P) _ IH]; [reflexivity|]. cbn [map fst snd] in *. subst m.
  rewrite IH. unfold dirfix_file. rewrite A, B, C, P. reflexivity.
Qed.

(* ------------------------------------------------------------------ *)
(* the crash development's invariants do not depend on the directory flags *)
Lemma sealed_ok_dirfix d s : sealed_ok d s -> sealed_ok (dirfix d) s.
Proof.
  intros (A & B & f & C & D & E & F & G). split; [exact A|]. split; [exact B|].
  exists (dirfix_file f). unfold dirfix. rewrite lookup_map_files, C. cbn. auto.
Qed.

Lemma tail_ok_dirfix c d t : tail_ok c d t -> tail_ok c (dirfix d) t.
Proof.
  intros (A & B). split; [exact A|]. unfold dirfix. rewrite lookup_map_files.
  destruct (lookup (name_of t) (dk_files d)) as [f|]; cbn [option_map]; [|exact B].
  destruct B as (B1 & B2 & B3 & B4 & B5 & B6).
  unfold cur_ents, cur_end, cur_seal in *. cbn [dirfix_file df_ents df_end df_seal df_pend df_dir].
  split; [exact B1|]. split; [exact B2|]. split; [discriminate|]. split; [exact B4|]. split; [exact B5|exact B6].
Qed.

Lemma DIs_dirfix c nb d : DIs c nb d -> DIs c nb (dirfix d).
Proof.
  intros (ND & H). split; [unfold dirfix; rewrite map_files_keys; exact ND|].
  change (dk_meta (dirfix d)) with (dk_meta d). destruct (dk_meta d) as [ps|].
  - destruct H as (H1 & H2 & S & t & H3 & H4 & H5 & H6 & H7). split; [exact H1|]. split.
    + intros n f. unfold dirfix. rewrite lookup_map_files. destruct (lookup n (dk_files d)) as [g|] eqn:E; cbn; [|discriminate].
      intros _. apply (H2 n g E).
    + exists S, t. split; [exact H3|]. split; [exact H4|]. split; [exact H5|].
      split; [eapply Forall_impl; [|exact H6]; intros s; apply sealed_ok_dirfix|apply tail_ok_dirfix; exact H7].
  - unfold dirfix, map_files. cbn. rewrite H. reflexivity.
Qed.

Lemma file_ents_dirfix n d : file_ents n (dirfix d) = file_ents n d.
Proof.
  unfold file_ents, dirfix. rewrite lookup_map_files. destruct (lookup n (dk_files d)); reflexivity.
Qed.

Lemma dread_dirfix d : dread (dirfix d) = dread d.
Proof.
  apply dread_ext; [reflexivity|]. intros ps s _ _. apply file_ents_dirfix.
Qed.

Lemma sp_of_dirfix d : sp_of (dirfix d) = sp_of d.
Proof. unfold sp_of. rewrite dread_dirfix. reflexivity. Qed.

Lemma no_pend_dirfix d : no_pend d -> no_pend (dirfix d).
Proof.
  intros H n f. unfold dirfix. rewrite lookup_map_files. destruct (lookup n (dk_files d)) as [g|] eqn:E; cbn; [|discriminate].
  intros K; inversion K; subst. cbn. apply (H n g E).
Qed.

Lemma LInv_dirfix c nb w d : LInv c nb w d -> LInv c nb w (dirfix d).
Proof.
  intros (H1 & H2 & H3 & H4 & H5 & t & f & tw & A & B & C & D & E).
  split; [exact H1|]. split; [exact H2|]. split; [apply DIs_dirfix; exact H3|]. split; [apply no_pend_dirfix; exact H4|].
  split; [exact H5|]. exists t, (dirfix_file f), tw. split; [exact A|].
  split; [unfold dirfix; rewrite lookup_map_files, B; reflexivity|]. split; [exact C|]. split; [exact D|exact E].
Qed.

Lemma LInv_sh c nb w d : LInv c nb w d -> LInv c nb w (sh d).
Proof.
  intros H. pose proof H as (_ & _ & HD & HN & _).
  rewrite <- (dirfix_nopend d (DIs_NoDup _ _ _ HD) HN). apply LInv_dirfix. exact H.
Qed.

(* reading a disk related by the strict relation *)
Lemma file_ents_drel d dc n : drel [] d dc -> file_ents n d = file_ents n dc.
Proof.
  intros H. unfold file_ents. pose proof (drel_cur d dc n H) as K.
  destruct (lookup n (dk_files d)), (lookup n (dk_files dc)); try destruct K; auto.
Qed.

Lemma sp_of_drel d dc : drel [] d dc -> sp_of d = sp_of dc.
Proof.
  intros H. pose proof H as (_ & Hm & Hs & _). unfold sp_of. rewrite Hs. f_equal.
  apply dread_ext; [exact Hm|]. intros ps s _ _. apply file_ents_drel. exact H.
Qed.

Lemma abs_drel w d dc : drel [] d dc -> abs w d = abs w dc.
Proof.
  intros H. rewrite !abs_is_gen. apply abs_gen_ext. intros s _. apply file_ents_drel. exact H.
Qed.

(* ------------------------------------------------------------------ *)
(* candidates                                                           *)
Definition app_op (o : sop) (alts : list spst) : list spst :=
  flat_map (fun a => match spec_accepts a o with Some a' => [a'] | None => [] end) alts.

Lemma in_app_op o alts a a' : In a alts -> spec_accepts a o = Some a' -> In a' (app_op o alts).
Proof. intros Hin E. unfold app_op. apply in_flat_map. exists a. split; [exact Hin|]. rewrite E. left; reflexivity. Qed.

Lemma cand_alts alts defer x : In x alts -> In x (candidates alts defer).
Proof. intros H. unfold candidates. apply in_or_app. left. exact H. Qed.

Lemma cand_defer alts defer a o a' : In a alts -> In o defer -> spec_accepts a o = Some a' -> In a' (candidates alts defer).
Proof.
  intros Ha Ho E. unfold candidates. apply in_or_app. right. apply in_flat_map. exists a. split; [exact Ha|].
  apply in_flat_map. exists o. split; [exact Ho|]. rewrite E. left; reflexivity.
Qed.

Lemma cand_inv alts defer x : In x (candidates alts defer) ->
  In x alts \/ exists a o, In a alts /\ In o defer /\ spec_accepts a o = Some x.
Proof.
  unfold candidates. intros H. apply in_app_or in H. destruct H as [H|H]; [left; exact H|right].
  apply in_flat_map in H. destruct H as (a & Ha & H). apply in_flat_map in H. destruct H as (o & Ho & H).
  exists a, o. destruct (spec_accepts a o) as [a'|]; [|destruct H]. destruct H as [<-|[]]. auto.
Qed.

Lemma cand_incl alts defer alts' defer' x :
  incl alts alts' -> incl defer defer' -> In x (candidates alts defer) -> In x (candidates alts' defer').
Proof.
  intros H1 H2 H. destruct (cand_inv _ _ _ H) as [K|(a & o & Ka & Ko & E)].
  - apply cand_alts. apply H1. exact K.
  - eapply cand_defer; [apply H1; exact Ka|apply H2; exact Ko|exact E].
Qed.

Lemma matches_in got l : In got l -> matches got l = Some got.
Proof.
  unfold matches. induction l as [|x l IH]; intros H; [destruct H|]. cbn [find].
  destruct (spst_eqb got x) eqn:E; [apply spst_eqb_eq in E; subst; reflexivity|].
  destruct H as [->|H]; [rewrite spst_eqb_refl in E; discriminate|apply IH; exact H].
Qed.

(* ------------------------------------------------------------------ *)
(* the invariant                                                        *)
Definition set_rot (w : wal) (r : option N) : wal :=
  {| st_next_id := st_next_id w; st_segs := st_segs w; st_tail := st_tail w; st_rotate := r;
     st_failed := st_failed w; st_closed := st_closed w |}.

(* what the next recovery will see *)
Definition RD (c : cfg) (nb : N) (d : disk) (alts : list spst) (defer : list sop) : Prop :=
  DIs c nb (ad d) /\ In (sp_of (ad d)) (candidates alts defer).

(* the unsynced batch a failed fsync left behind the last commit of the tail file *)
Definition stale_batch (c : cfg) (t : seginfo) (f : dfile) (p : pbatch) (defer : list sop) : Prop :=
  df_seal f = 0 /\ df_end f <> pb_end p /\
  fsz_ok (c_seg_size c) (df_ents f ++ pb_ents p) (pb_end p) (pb_seal p) /\
  si_base t + llen (df_ents f ++ pb_ents p) < two64 /\
  (pb_ents p <> [] ->
     sop_ok (OStore (pb_ents p)) /\ In (OStore (pb_ents p)) defer /\
     exists l0 r, pb_ents p = l0 :: r /\ l_index l0 = si_base t + llen (df_ents f) /\
                  consecutive (l_index l0) (pb_ents p) = true).

(* a name no segment of the metadata carries *)
Definition unlisted (d : disk) (n : fname) : Prop :=
  forall ps s, dk_meta d = Some ps -> In s (ps_segs ps) -> name_of s <> n.

(* a pending batch sits in the tail file (and is then well-formed) or in a file the
   metadata does not list (left behind by a deletion that failed) *)
Definition stale_tail_ok (c : cfg) (w : wal) (d : disk) (defer : list sop) : Prop :=
  forall n f p, lookup n (dk_files d) = Some f -> df_pend f = Some p ->
    (exists t, tail_info (st_segs w) = Some t /\ n = name_of t /\ stale_batch c t f p defer) \/ unlisted d n.

Definition stale_unlisted (d : disk) : Prop :=
  forall n f p, lookup n (dk_files d) = Some f -> df_pend f = Some p -> unlisted d n.

(* a running WAL that accepts writes *)
Definition Live (c : cfg) (nb : N) (w : wal) (d : disk) (defer : list sop) : Prop :=
  LInv c nb w (sh d) /\ stale_tail_ok c w d defer.

(* the tail is sealed but no rotation is pending (a rotation or tail-truncation commit
   failed): since a failed commit makes the WAL refuse writes this is no mode of its own
   any more, only the shape of the clean state readers are then served from *)
Definition Seal (c : cfg) (nb : N) (w : wal) (d : disk) : Prop :=
  exists tw, st_tail w = Some tw /\ 0 < ws_index_start tw /\ st_rotate w = None /\
             LInv c nb (set_rot w (Some (ws_index_start tw))) (sh d) /\ stale_unlisted d.

(* readers are served from in-memory state [w] that agrees with a clean state: every file
   of the clean disk is the (normalised) file of that name on the real disk, and no
   pending batch sits in a file of a sealed segment of [w] *)
Definition RV (c : cfg) (nb : N) (w : wal) (d : disk) (nom : spst) : Prop :=
  exists wc dc, LInv c nb wc dc /\ sp_of dc = nom /\ st_segs w = st_segs wc /\ st_tail w = st_tail wc /\
    (forall n, lookup n (dk_files dc) <> None -> lookup n (dk_files (sh d)) = lookup n (dk_files dc)) /\
    dk_stable dc = dk_stable d /\ NoDup (map fst (dk_files d)) /\
    (forall n f s, lookup n (dk_files d) = Some f -> df_pend f <> None -> In s (st_segs w) -> name_of s = n ->
                   tail_info (st_segs w) = Some s).

Definition Mode (c : cfg) (nb : N) (w : wal) (d : disk) (nom : spst) (defer : list sop) : Prop :=
  (st_closed w = true /\ st_rotate w = None) \/
  (st_closed w = false /\
   ((Live c nb w d defer /\ sp_of (sh d) = nom) \/
    (st_failed w = true /\ st_rotate w = None /\ RV c nb w d nom))).

(* deferred operations are well-formed StoreLogs calls *)
Definition dop_ok (o : sop) : Prop := sop_ok o /\ exists ls, o = OStore ls.

Definition FInv (c : cfg) (nb : N) (h : fstate) : Prop :=
  fs_ok h = true /\ e_fault (ss_env (fs_s h)) = None /\
  sp_good (fs_nom h) /\ In (fs_nom h) (fs_alts h) /\ Forall sp_good (fs_alts h) /\ Forall dop_ok (fs_defer h) /\
  RD c nb (e_disk (ss_env (fs_s h))) (fs_alts h) (fs_defer h) /\
  Mode c nb (ss_wal (fs_s h)) (e_disk (ss_env (fs_s h))) (fs_nom h) (fs_defer h).
