(* CodecIdFacts.v -- codec identifiers at Open (C12): reserved ids are
   rejected; a directory whose metadata lists a segment written with another
   codec id is refused. *)
From RW Require Import Base.Bytes Fmt.Codec Fmt.Frame Wal.Model Gen.Constants.
Open Scope N_scope.

Lemma reserved_codec_rejected c e :
  c_codec c < FirstExternalCodecID -> c_codec c <> BinaryCodecID ->
  open_wal c e = (OErr RErrOther, e).
Proof.
  intros Hlt Hne. unfold open_wal.
  replace (FirstExternalCodecID <=? c_codec c) with false by (symmetry; apply N.leb_gt; exact Hlt).
  replace (c_codec c =? BinaryCodecID) with false by (symmetry; apply N.eqb_neq; exact Hne).
  reflexivity.
Qed.

Lemma open_segs_foreign_codec c segs acc e :
  (exists s, In s segs /\ si_codec s <> c_codec c) ->
  let '(r, _, _, _) := open_segs c segs acc e in r <> ROk.
Proof.
  revert acc e. induction segs as [|si r IH]; intros acc e (s & Hin & Hne); [destruct Hin|].
  cbn [open_segs].
  destruct (si_codec si =? c_codec c) eqn:Ec; cbn [negb].
  2:{ discriminate. }
  apply N.eqb_eq in Ec.
  destruct Hin as [->|Hin]; [congruence|].
  destruct (si_sealed si); cbn [negb].
  - destruct (lookup (name_of si) (dk_files (e_disk e))) as [f|]; [|discriminate].
    destruct (cur_end f =? 0); [discriminate|].
    apply IH. exists s. split; assumption.
  - destruct r as [|x r']; [destruct Hin|]. discriminate.
Qed.

Lemma foreign_codec_refused c e ps :
  dk_inited (e_disk e) = true -> e_fault e = None -> dk_meta (e_disk e) = Some ps ->
  (exists s, In s (ps_segs ps) /\ si_codec s <> c_codec c) ->
  exists r e', open_wal c e = (OErr r, e').
Proof.
  intros Hi Hf Hm Hex. unfold open_wal.
  destruct (negb (FirstExternalCodecID <=? c_codec c) && negb (c_codec c =? BinaryCodecID)); [eauto|].
  rewrite Hi. cbn [negb]. unfold armed. rewrite Hf. cbn [andb]. rewrite Hm.
  pose proof (open_segs_foreign_codec c (ps_segs ps) [] e Hex) as H.
  destruct (open_segs c (ps_segs ps) [] e) as [[[r segs] tl] e1].
  destruct r; try (eexists; eexists; reflexivity). congruence.
Qed.

(* ---- a sealed segment that the metadata lists but whose file is missing, or whose
   file has no committed header, makes Open fail (never a log with silently missing
   entries) ---- *)
Lemma open_segs_bad_sealed c segs acc e :
  (exists s, In s segs /\ si_sealed s = true /\
             match lookup (name_of s) (dk_files (e_disk e)) with
             | None => True
             | Some f => cur_end f = 0
             end) ->
  let '(r, _, _, _) := open_segs c segs acc e in r <> ROk.
Proof.
  revert acc. induction segs as [|si r IH]; intros acc (s & Hin & Hs & Hbad); [destruct Hin|].
  cbn [open_segs].
  destruct (negb (si_codec si =? c_codec c)); [discriminate|].
  destruct Hin as [->|Hin].
  - rewrite Hs. cbn [negb].
    destruct (lookup (name_of s) (dk_files (e_disk e))) as [f|]; [|discriminate].
    rewrite Hbad. rewrite N.eqb_refl. discriminate.
  - destruct (si_sealed si); cbn [negb].
    + destruct (lookup (name_of si) (dk_files (e_disk e))) as [f|]; [|discriminate].
      destruct (cur_end f =? 0); [discriminate|].
      apply IH. exists s. repeat split; assumption.
    + destruct r as [|x r']; [destruct Hin|]. discriminate.
Qed.

Lemma bad_sealed_segment_refused c e ps :
  dk_inited (e_disk e) = true -> dk_meta (e_disk e) = Some ps ->
  (exists s, In s (ps_segs ps) /\ si_sealed s = true /\
             match lookup (name_of s) (dk_files (e_disk e)) with
             | None => True
             | Some f => cur_end f = 0
             end) ->
  exists r e', open_wal c e = (OErr r, e').
Proof.
  intros Hi Hm Hex. unfold open_wal.
  destruct (negb (FirstExternalCodecID <=? c_codec c) && negb (c_codec c =? BinaryCodecID)); [eauto|].
  rewrite Hi. cbn [negb]. destruct (armed e && fx_list (e_fx e)); [eauto|]. rewrite Hm.
  pose proof (open_segs_bad_sealed c (ps_segs ps) [] e Hex) as H.
  destruct (open_segs c (ps_segs ps) [] e) as [[[r segs] tl] e1].
  destruct r; try (eexists; eexists; reflexivity). congruence.
Qed.
