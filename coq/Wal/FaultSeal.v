(* FaultSeal.v -- DeleteRange on a WAL whose tail is sealed but whose rotation
   did not happen (the rotation commit, or a tail-truncation commit, failed). *)
From RW Require Import Base.Bytes Base.BytesFacts Fmt.Codec Fmt.CodecFacts Fmt.Frame Wal.Model Wal.Spec Wal.Hist Wal.FaultHist
  Wal.CrashInv Wal.CrashFacts0 Wal.CrashFacts1 Wal.CrashFacts2 Wal.CrashFacts3 Wal.CrashFacts4 Wal.CrashFacts5
  Wal.CrashFacts6 Wal.CrashGlue Wal.CrashCalls1 Wal.CrashCalls2 Wal.CrashCalls3 Wal.CrashCalls4 Wal.CrashCalls5 Wal.CrashCalls6
  Wal.CrashCalls7 Wal.CrashCalls8 Wal.CrashCalls9 Wal.CrashCalls10 Wal.FaultSim Wal.FaultSim2 Wal.FaultInv Wal.FaultFacts2
  Wal.FaultFacts3 Wal.FaultNames Wal.FaultStore Wal.FaultDelete Wal.FaultSteps Gen.Constants.
From Coq Require Import ZifyN ZifyNat ZifyBool.
Open Scope N_scope.

(* ---- operations do not look at the pending-rotation field ---- *)
Lemma mutate_gen_rot x defer w t e :
  mutate_gen defer (set_rot w x) t e =
  let '(r, w', e', dl) := mutate_gen defer w t e in (r, set_rot w' x, e', dl).
Proof.
  unfold mutate_gen. destruct (io _ e) as [ok e1]. destruct (negb ok); [reflexivity|].
  destruct (tx_create t) as [si|]; [|reflexivity].
  destruct (seg_create si e1) as [sw e2]. destruct sw; reflexivity.
Qed.

Lemma mutate_rot x w t e :
  mutate (set_rot w x) t e = let '(r, w', e') := mutate w t e in (r, set_rot w' x, e').
Proof.
  unfold mutate. rewrite mutate_gen_rot. destruct (mutate_gen false w t e) as [[[r w'] e'] dl]. reflexivity.
Qed.

Definition SPost (c : cfg) (nb : N) (wS w' : wal) (d' : disk) : Prop :=
  LInv c nb w' d' \/
  (LInv c nb (set_rot w' (st_rotate wS)) d' /\ st_tail w' = st_tail wS /\ st_rotate w' = None).

Lemma mutate_S c nb wS t e w' e' : mutate wS t e = (ROk, w', e') -> tx_tail t = st_tail wS -> tx_create t = None ->
  LInv c nb w' (e_disk e') ->
  mutate (set_rot wS None) t e = (ROk, set_rot w' None, e') /\ SPost c nb wS (set_rot w' None) (e_disk e').
Proof.
  intros Hm Ht Hc HL. rewrite mutate_rot, Hm. split; [reflexivity|]. right.
  unfold mutate in Hm. destruct (mutate_gen false wS t e) as [[[r0 w0] e0] d0] eqn:Eg. inversion Hm; subst.
  destruct (mutate_gen_ok_facts _ _ _ _ _ _ _ Eg) as (F1 & _ & _ & _ & _ & F6 & _).
  rewrite Hc in F1. cbn [set_rot st_tail st_rotate].
  split; [|split; [congruence|reflexivity]].
  replace (set_rot (set_rot w' None) (st_rotate wS)) with w'; [exact HL|]. rewrite <- F6. destruct w'; reflexivity.
Qed.

(* ---- truncateHead on a sealed, unrotated tail ---- *)
Lemma trunc_head_none_S c nb (A : spst -> Prop) w e0 e S t f tw new_min :
  cfg_ok c -> lview c nb w (e_disk e) S t f tw -> ext (DP c nb A) e0 e ->
  st_next_id w + 1 <= nb -> nb < two64 ->
  Forall (fun s => si_max s < new_min) S -> tl_of (si_base t) (df_ents f) < new_min ->
  let d := e_disk e in
  let a1 := {| sp_log := slog_of new_min (skipn (N.to_nat (new_min - hd_min S t)) (lv_es d S t f)); sp_kv := dk_stable d |} in
  let si := new_segment c (st_next_id w) (spec_last (dread d) + 1) in
  A a1 ->
  exists w' e',
    mutate (set_rot w None) {| tx_next_id := st_next_id w + 1; tx_segs := [si]; tx_delete := map name_of S ++ [name_of t];
                tx_create := Some si; tx_tail := None |} e = (ROk, w', e') /\
    ext (DP c nb A) e0 e' /\ LInv c nb w' (e_disk e') /\ sp_of (e_disk e') = a1.
Proof.
  intros Hc V He Hnid Hnb HS Htl d a1 si HA. subst d. set (d := e_disk e) in *.
  pose proof (lv_len V) as Hlen. pose proof (lv_twf V) as (_ & _ & Hb1 & _ & Hbm & _).
  assert (Hbd : si_base t + llen (df_ents f) < two64).
  { pose proof (lv_tok _ _ _ _ _ _ _ _ V) as (_ & Ht'). fold d in Ht'. rewrite (lv_file _ _ _ _ _ _ _ _ V) in Ht'.
    destruct Ht' as (_ & _ & _ & _ & _ & Hb). unfold cur_ents in Hb. rewrite (lv_pend _ _ _ _ _ _ _ _ V) in Hb. exact Hb. }
  assert (Hall : (length (lv_es d S t f) <= N.to_nat (new_min - hd_min S t))%nat).
  { destruct (lv_log_cases V) as [(Ees & _)|(Ees & _ & Hlast & H2)]; [fold d in Ees; rewrite Ees; cbn; lia|].
    fold d in Ees, Hlast. unfold tl_of in Htl. destruct (llen (df_ents f) =? 0) eqn:Z.
    - destruct (list_eq_dec_nil S) as [->|HneS]; [exfalso; apply Ees; apply (lv_es_nil V); split; [reflexivity|lia]|].
      destruct (exists_last HneS) as (S' & x & ES). pose proof (lv_linked _ _ _ _ _ _ _ _ V) as Hl.
      rewrite ES in HS, Hl. rewrite Forall_forall in HS. specialize (HS x ltac:(apply in_or_app; right; left; reflexivity)).
      rewrite <- app_assoc in Hl. cbn [app] in Hl. destruct (linked_mid S' x t [] Hl) as (Hb & _).
      unfold llen in *. lia.
    - unfold llen in *. lia. }
  assert (Hlast1 : spec_last (dread d) + 1 < two64 /\ 1 <= spec_last (dread d) + 1).
  { destruct (lv_log_cases V) as [(_ & _ & _ & Hdr & _)|(_ & _ & Hlast & _)].
    - rewrite Hdr. cbn. unfold two64. lia.
    - rewrite Hlast. lia. }
  unfold mutate.
  destruct (mutate_newtail_ok c nb A false (set_rot w None) e0 e (st_next_id w) [] (spec_last (dread d) + 1) (map name_of S ++ [name_of t]) Hc He)
    as (w' & e' & Hmut & He' & HL' & Hs' & _).
  - apply (lv_nopend _ _ _ _ _ _ _ _ V).
  - reflexivity.
  - apply (lv_failed _ _ _ _ _ _ _ _ V).
  - apply (lv_closed _ _ _ _ _ _ _ _ V).
  - fold d. intros ps E. rewrite (lv_meta _ _ _ _ _ _ _ _ V) in E. inversion E. cbn. lia.
  - exact Hnid.
  - constructor.
  - constructor.
  - lia.
  - lia.
  - exact I.
  - intros n Hin. apply not_listed_by_id. intros y [<-|[]]. cbn [new_segment si_id].
    assert (Hn : exists s, In s (S ++ [t]) /\ name_of s = n).
    { apply in_app_or in Hin. destruct Hin as [Hin|[<-|[]]].
      - apply in_map_iff in Hin. destruct Hin as (x & <- & Hx). exists x. split; [apply in_or_app; left; exact Hx|reflexivity].
      - exists t. split; [apply in_or_app; right; left; reflexivity|reflexivity]. }
    destruct Hn as (s & Hs & <-). pose proof (lv_wf _ _ _ _ _ _ _ _ V) as Hwf. rewrite Forall_forall in Hwf.
    destruct (Hwf s Hs) as (_ & _ & _ & _ & _ & Hid). cbn [name_of snd]. lia.
  - fold d. cbn [app]. unfold sealed_es. cbn [flat_map]. rewrite slog_of_nil.
    unfold a1 in HA. rewrite skipn_all2 in HA by exact Hall. exact HA.
  - cbn [app] in Hmut. fold d in Hmut. fold si in Hmut. cbn [set_rot st_next_id] in Hmut. rewrite Hmut. exists w', e'.
    split; [reflexivity|]. split; [exact He'|]. split; [exact HL'|]. rewrite Hs'. fold d. unfold a1.
    unfold sealed_es. cbn [flat_map]. rewrite slog_of_nil. rewrite skipn_all2 by exact Hall. reflexivity.
Qed.

Lemma truncate_head_S c nb (A : spst -> Prop) w e S t f tw new_min :
  cfg_ok c -> lview c nb w (e_disk e) S t f tw -> e_fault e = None ->
  st_next_id w + 1 <= nb -> nb < two64 -> 1 <= new_min ->
  (lv_es (e_disk e) S t f <> [] -> hd_min S t < new_min) ->
  let d := e_disk e in
  let a1 := {| sp_log := slog_of new_min (skipn (N.to_nat (new_min - hd_min S t)) (lv_es d S t f)); sp_kv := dk_stable d |} in
  A (sp_of d) -> A a1 ->
  exists w' e', truncate_head c (set_rot w None) new_min e = (ROk, w', e') /\ ext (DP c nb A) e e' /\
                SPost c nb w w' (e_disk e') /\ sp_of (e_disk e') = a1.
Proof.
  intros Hc V Hf Hnid Hnb Hnm1 Hfirst d a1 HAa HA. subst d. set (d := e_disk e) in *.
  pose proof (LInv_of_view V) as HLd. fold d in HLd.
  assert (He0 : forall m, ext (DP c nb A) e (add_m e m)).
  { intros m. apply ext_add_m. apply ext_refl; [exact Hf|]. eapply LInv_DP; [exact HLd|exact HAa]. }
  pose proof (lv_sealed _ _ _ _ _ _ _ _ V) as Hso.
  pose proof (lv_tok _ _ _ _ _ _ _ _ V) as (Hu & _).
  unfold truncate_head. cbn [set_rot st_segs st_tail st_next_id].
  rewrite (lv_last V), (lv_tail_last V), (lv_segs _ _ _ _ _ _ _ _ V).
  destruct (prefix_split (fun s => si_max s <? new_min) S) as [Hall|(D & h & R & ES & Hh & HD)].
  - assert (HS : Forall (fun s => si_sealed s = true /\ si_max s < new_min) S).
    { rewrite Forall_forall in *. intros s Hs. split; [apply (Hso s Hs)|]. specialize (Hall s Hs). cbn beta in Hall. lia. }
    assert (HS' : Forall (fun s => si_max s < new_min) S) by (eapply Forall_impl; [|exact HS]; intros s Hs; apply Hs).
    destruct (head_scan_skip new_min (tl_of (si_base t) (df_ents f)) S [t] [] 0 HS) as (ntr' & Ehs).
    rewrite Ehs. cbn [head_scan app]. rewrite Hu.
    destruct (new_min <=? tl_of (si_base t) (df_ents f)) eqn:Etl.
    + (* the tail becomes the head *)
      fold (with_min t new_min). rewrite (seg_set_head (with_min t new_min) t [] eq_refl).
      match goal with |- context [mutate _ _ (add_m e ?m)] =>
        destruct (trunc_head_tail c nb A w e (add_m e m) S t f tw new_min V (He0 m) HS' ltac:(lia) Hnm1 Hfirst HA)
          as (w' & e' & Hmut & He' & HL' & Hs') end.
      destruct (mutate_S c nb w _ _ w' e' Hmut eq_refl eq_refl HL') as (Hm2 & HP).
      rewrite Hm2. exists (set_rot w' None), e'. auto.
    + (* nothing remains *)
      unfold create_next. change (tail_info []) with (@None seginfo).
      assert (Hl1 : spec_last (dread d) + 1 < two64 /\ 1 <= spec_last (dread d) + 1).
      { destruct (lv_log_cases V) as [(_ & _ & _ & Hdr & _)|(_ & _ & Hlast & _)].
        - rewrite Hdr. cbn. unfold two64. lia.
        - rewrite Hlast.
          pose proof (lv_tok _ _ _ _ _ _ _ _ V) as (_ & Ht'). fold d in Ht'. rewrite (lv_file _ _ _ _ _ _ _ _ V) in Ht'.
          destruct Ht' as (_ & _ & _ & _ & _ & Hb). unfold cur_ents in Hb. rewrite (lv_pend _ _ _ _ _ _ _ _ V) in Hb. lia. }
      rewrite (N.mod_small (spec_last (dread d) + 1) two64) by lia.
      replace (0 <? spec_last (dread d) + 1) with true by lia.
      rewrite (N.mod_small (spec_last (dread d) + 1) two64) by lia.
      rewrite (N.mod_small (st_next_id w + 1) two64) by lia. cbn [seg_set].
      match goal with |- context [mutate _ _ (add_m e ?m)] =>
        destruct (trunc_head_none_S c nb A w e (add_m e m) S t f tw new_min Hc V (He0 m) Hnid Hnb HS' ltac:(lia) HA)
          as (w' & e' & Hmut & He' & HL' & Hs') end.
      cbn [add_m with_m e_disk] in Hmut, Hs'. fold d in Hmut, Hs'. rewrite Hmut. exists w', e'.
      split; [reflexivity|]. split; [exact He'|]. split; [left; exact HL'|exact Hs'].
  - (* a sealed segment becomes the head *)
    subst S.
    assert (HD' : Forall (fun s => si_sealed s = true /\ si_max s < new_min) D).
    { rewrite Forall_forall in *. intros s Hs. split; [apply (Hso s); apply in_or_app; left; exact Hs|].
      specialize (HD s Hs). cbn beta in HD. lia. }
    assert (HD'' : Forall (fun s => si_max s < new_min) D) by (eapply Forall_impl; [|exact HD']; intros s Hs; apply Hs).
    rewrite <- app_assoc. cbn [app].
    destruct (head_scan_skip new_min (tl_of (si_base t) (df_ents f)) D (h :: R ++ [t]) [] 0 HD') as (ntr' & Ehs).
    rewrite Ehs. cbn [head_scan app].
    assert (Hhs : si_sealed h = true).
    { rewrite Forall_forall in Hso. apply (Hso h). apply in_or_app. right. left. reflexivity. }
    rewrite Hhs. replace (new_min <=? si_max h) with true by lia.
    fold (with_min h new_min). rewrite (seg_set_head (with_min h new_min) h (R ++ [t]) eq_refl).
    assert (Hne : lv_es d (D ++ h :: R) t f <> []).
    { intros E. apply (lv_es_nil V) in E. destruct E as (E & _). destruct D; discriminate. }
    match goal with |- context [mutate _ _ (add_m e ?m)] =>
      destruct (trunc_head_sealed c nb A w e (add_m e m) D h R t f tw new_min V (He0 m) HD'' ltac:(lia) (Hfirst Hne) HA)
        as (w' & e' & Hmut & He' & HL' & Hs') end.
    destruct (mutate_S c nb w _ _ w' e' Hmut eq_refl eq_refl HL') as (Hm2 & HP).
    rewrite Hm2. exists (set_rot w' None), e'. auto.
Qed.

(* ---- truncateTail on a sealed, unrotated tail ---- *)
Lemma truncate_tail_S c nb (A : spst -> Prop) w e S t f tw new_max :
  cfg_ok c -> lview c nb w (e_disk e) S t f tw -> e_fault e = None -> df_seal f <> 0 ->
  st_next_id w + 1 <= nb -> nb < two64 ->
  lv_es (e_disk e) S t f <> [] -> hd_min S t <= new_max -> new_max + 1 <= si_base t + llen (df_ents f) - 1 ->
  let d := e_disk e in
  let a1 := {| sp_log := slog_of (hd_min S t) (firstn (N.to_nat (new_max + 1 - hd_min S t)) (lv_es d S t f)); sp_kv := dk_stable d |} in
  A (sp_of d) -> A a1 ->
  exists w' e', truncate_tail c (set_rot w None) new_max e = (ROk, w', e') /\ ext (DP c nb A) e e' /\
                LInv c nb w' (e_disk e') /\ sp_of (e_disk e') = a1.
Proof.
  intros Hc V Hf Hse2 Hnid Hnb Hne Hfirst Hlast d a1 HAa HA. subst d. set (d := e_disk e) in *.
  pose proof (LInv_of_view V) as HLd. fold d in HLd.
  assert (He00 : ext (DP c nb A) e e).
  { apply ext_refl; [exact Hf|]. eapply LInv_DP; [exact HLd|exact HAa]. }
  pose proof (lv_sealed _ _ _ _ _ _ _ _ V) as Hso. pose proof (lv_tok _ _ _ _ _ _ _ _ V) as (Hu & _).
  pose proof (lv_twf V) as (_ & _ & Hb1 & _ & Hbm & _). pose proof (lv_Swf V) as Hw.
  pose proof (lv_nid _ _ _ _ _ _ _ _ V) as Hnid0.
  unfold truncate_tail. cbn [set_rot st_segs st_tail st_next_id st_rotate st_failed st_closed].
  rewrite (lv_last V), (lv_segs _ _ _ _ _ _ _ _ V).
  destruct (suffix_split (fun s => new_max <? si_base s) (S ++ [t])) as [Hall|(K & k & D & ES & Hk & HD)].
  { exfalso. rewrite Forall_forall in Hall.
    destruct S as [|s S'].
    - specialize (Hall t (or_introl eq_refl)). cbn beta in Hall. unfold hd_min in Hfirst. cbn in Hfirst. lia.
    - specialize (Hall s (or_introl eq_refl)). cbn beta in Hall. unfold hd_min in Hfirst. cbn [hd] in Hfirst.
      inversion Hw as [|? ? (Hsb & Hsm) _]; subst. lia. }
  assert (HD' : Forall (fun s => new_max < si_base s) (rev D)).
  { rewrite Forall_forall in *. intros s Hs. apply in_rev in Hs. specialize (HD s Hs). cbn beta in HD. lia. }
  rewrite ES. rewrite rev_app_distr. cbn [rev]. rewrite <- app_assoc. cbn [app].
  destruct (tail_scan_skip new_max (spec_last (dread d)) (rev D) (k :: rev K) [] 0 HD') as (ntr' & Ets).
  rewrite Ets. cbn [tail_scan app]. replace (si_base k <=? new_max) with true by lia.
  cbn [rev]. rewrite rev_involutive.
  destruct (si_sealed k) eqn:Eks.
  - (* already sealed: k is one of S *)
    destruct (list_eq_dec_nil D) as [->|HneD].
    { exfalso. apply app_inj_tail in ES. destruct ES as (_ & <-). congruence. }
    destruct (exists_last HneD) as (D' & x & ED). subst D.
    replace (K ++ k :: D' ++ [x]) with ((K ++ k :: D') ++ [x]) in ES by (rewrite <- app_assoc; reflexivity).
    apply app_inj_tail in ES. destruct ES as (ES & <-). subst S.
    fold (seal_info k new_max (si_index_start k)).
    rewrite (seg_set_last (seal_info k new_max (si_index_start k)) K k); [|
      | reflexivity].
    2:{ pose proof (chain_sorted _ t (lv_linked _ _ _ _ _ _ _ _ V) (lv_Ssst V)) as Hsorted.
        rewrite <- app_assoc in Hsorted. cbn [app] in Hsorted.
        rewrite Forall_forall. intros z Hz.
        apply (sorted_app_lt K (k :: D' ++ [t]) z k Hsorted Hz (or_introl eq_refl)). }
    unfold create_next. rewrite tail_info_app. cbn [seal_info si_max].
    fold (seal_info k new_max (si_index_start k)).
    assert (Hnm : new_max + 1 < two64).
    { pose proof (lv_tok _ _ _ _ _ _ _ _ V) as (_ & Ht'). fold d in Ht'. rewrite (lv_file _ _ _ _ _ _ _ _ V) in Ht'.
      destruct Ht' as (_ & _ & _ & _ & _ & Hb). unfold cur_ents in Hb. rewrite (lv_pend _ _ _ _ _ _ _ _ V) in Hb. lia. }
    rewrite (N.mod_small (new_max + 1) two64) by exact Hnm.
    rewrite (N.mod_small (st_next_id w + 1) two64) by lia.
    rewrite (seg_set_snoc (new_segment c (st_next_id w) (new_max + 1)) (K ++ [seal_info k new_max (si_index_start k)])).
    2:{ apply Forall_app. split.
        - pose proof (chain_sorted _ t (lv_linked _ _ _ _ _ _ _ _ V) (lv_Ssst V)) as Hsorted.
          rewrite <- app_assoc in Hsorted. cbn [app] in Hsorted.
          rewrite Forall_forall. intros z Hz.
          pose proof (sorted_app_lt K (k :: D' ++ [t]) z k Hsorted Hz (or_introl eq_refl)). cbn. lia.
        - constructor; [cbn; lia|constructor]. }
    match goal with |- context [mutate ?w0 _ (add_m e ?m)] =>
      destruct (trunc_tail_sealed c nb A w0 w e (add_m e m) K k D' t f tw new_max (map name_of (rev (D' ++ [t]))) Hc V
                  (ext_add_m _ _ _ m He00) eq_refl (lv_failed _ _ _ _ _ _ _ _ V) (lv_closed _ _ _ _ _ _ _ _ V) Hnid Hnb)
        as (w' & e' & Hmut & He' & HL' & Hs') end.
    + lia.
    + intros y Hy. rewrite Forall_forall in HD. specialize (HD y Hy). cbn beta in HD. lia.
    + exact Hfirst.
    + intros n Hin. apply in_map_iff in Hin. destruct Hin as (y & <- & Hy). exists y. split; [apply in_rev; exact Hy|reflexivity].
    + exact HA.
    + cbn [app] in Hmut. rewrite Hmut. exists w', e'. auto.
  - (* the tail itself: it is sealed already *)
    assert (ED : D = [] /\ K = S /\ k = t).
    { destruct (list_eq_dec_nil D) as [->|HneD].
      - apply app_inj_tail in ES. destruct ES as (-> & ->). auto.
      - exfalso. destruct (exists_last HneD) as (D' & x & ED). subst D.
        replace (K ++ k :: D' ++ [x]) with ((K ++ k :: D') ++ [x]) in ES by (rewrite <- app_assoc; reflexivity).
        apply app_inj_tail in ES. destruct ES as (ES & _). rewrite Forall_forall in Hso.
        destruct (Hso k) as (Hks & _); [rewrite ES; apply in_or_app; right; left; reflexivity|]. congruence. }
    destruct ED as (-> & -> & ->). clear ES.
    rewrite (lv_tail _ _ _ _ _ _ _ _ V).
    pose proof (lv_tw _ _ _ _ _ _ _ _ V) as (_ & _ & _ & _ & _ & _ & Ti & _).
    rewrite seg_force_seal_eq. replace (0 <? ws_index_start tw) with true by lia.
    fold (seal_info t new_max (ws_index_start tw)).
    rewrite (seg_set_last (seal_info t new_max (ws_index_start tw)) S t (lv_bases_lt V) eq_refl).
    unfold create_next. rewrite tail_info_app. cbn [seal_info si_max].
    fold (seal_info t new_max (ws_index_start tw)).
    assert (Hnm : new_max + 1 < two64).
    { pose proof (lv_tok _ _ _ _ _ _ _ _ V) as (_ & Ht'). fold d in Ht'. rewrite (lv_file _ _ _ _ _ _ _ _ V) in Ht'.
      destruct Ht' as (_ & _ & _ & _ & _ & Hb). unfold cur_ents in Hb. rewrite (lv_pend _ _ _ _ _ _ _ _ V) in Hb. lia. }
    rewrite (N.mod_small (new_max + 1) two64) by exact Hnm.
    rewrite (N.mod_small (st_next_id w + 1) two64) by lia.
    rewrite (seg_set_snoc (new_segment c (st_next_id w) (new_max + 1)) (S ++ [seal_info t new_max (ws_index_start tw)])).
    2:{ apply Forall_app. split.
        - eapply Forall_impl; [|apply (lv_bases_lt V)]. intros z Hz. cbn beta in Hz. cbn. lia.
        - constructor; [cbn; lia|constructor]. }
    cbn [rev map].
    match goal with |- context [mutate ?w0 _ (add_m e ?m)] =>
      destruct (trunc_tail_unsealed c nb A w0 w e (add_m e m) S t f tw new_max (ws_index_start tw) Hc V
                  (ext_add_m _ _ _ m He00) eq_refl (lv_failed _ _ _ _ _ _ _ _ V) (lv_closed _ _ _ _ _ _ _ _ V) Hnid Hnb Hse2 Hfirst)
        as (w' & e' & Hmut & He' & HL' & Hs') end.
    + lia.
    + unfold tl_of. destruct (llen (df_ents f) =? 0) eqn:Z; lia.
    + exact HA.
    + cbn [app] in Hmut. rewrite Hmut. exists w', e'. auto.
Qed.

Lemma set_rot_rot w x : set_rot (set_rot w x) (st_rotate w) = w.
Proof. destruct w; reflexivity. Qed.

Lemma SPost_same c nb w d : LInv c nb w d -> SPost c nb w (set_rot w None) d.
Proof. intros H. right. rewrite set_rot_rot. auto. Qed.

(* ---- DeleteRange on a sealed, unrotated tail ---- *)
Lemma delete_range_S c nb w e mn mx a :
  cfg_ok c -> LInv c nb w (e_disk e) -> e_fault e = None -> st_rotate w <> None -> nb + 1 < two64 ->
  sp_of (e_disk e) = a -> mx + 1 < two64 ->
  exists r w' e', delete_range c (set_rot w None) mn mx e = (r, w', e') /\
    result_eqb (res_class r) (fst (step_spec a (ODelete mn mx))) = true /\
    SPost c (nb + 1) w w' (e_disk e') /\ sp_of (e_disk e') = snd (step_spec a (ODelete mn mx)) /\
    ext (DP c (nb + 1) (fun x => x = a \/ x = snd (step_spec a (ODelete mn mx)))) e e'.
Proof.
  intros Hc HL Hf Hrot Hnb Hsp Hmx. set (d := e_disk e) in *.
  pose proof (LInv_nid _ _ _ _ HL) as Hnid.
  assert (HL1 : LInv c (nb + 1) w d) by (eapply LInv_mono; [|exact HL]; lia).
  destruct (LInv_view _ _ _ _ HL1) as (S & t & f & tw & V).
  assert (Hse2 : df_seal f <> 0).
  { pose proof (lv_rot _ _ _ _ _ _ _ _ V) as Hr. destruct (0 <? df_seal f) eqn:E; [lia|congruence]. }
  set (a' := snd (step_spec a (ODelete mn mx))).
  set (A := fun x : spst => x = a \/ x = a').
  assert (He0 : ext (DP c (nb + 1) A) e e).
  { apply ext_refl; [exact Hf|]. eapply LInv_DP; [exact HL1|left; exact Hsp]. }
  assert (Hspec : step_spec a (ODelete mn mx) =
            match spec_delete (dread d) mn mx with
            | Some l' => (ROk, {| sp_log := l'; sp_kv := dk_stable d |})
            | None => (RErrOther, a) end).
  { cbn [step_spec]. rewrite <- Hsp. reflexivity. }
  assert (Hnoop : spec_delete (dread d) mn mx = Some (dread d) ->
            exists r w' e', (ROk, set_rot w None, e) = (r, w', e') /\
              result_eqb (res_class r) (fst (step_spec a (ODelete mn mx))) = true /\
              SPost c (nb + 1) w w' (e_disk e') /\ sp_of (e_disk e') = a' /\ ext (DP c (nb + 1) A) e e').
  { intros Hsd. exists ROk, (set_rot w None), e. split; [reflexivity|]. unfold a'. rewrite Hspec, Hsd. cbn [fst snd].
    split; [reflexivity|]. split; [apply SPost_same; exact HL1|]. split; [reflexivity|exact He0]. }
  unfold delete_range. cbn [set_rot st_closed st_failed st_segs st_tail]. rewrite (lv_closed _ _ _ _ _ _ _ _ V).
  destruct (mx <? mn) eqn:Emm.
  { apply Hnoop. unfold spec_delete. rewrite Emm. reflexivity. }
  rewrite (lv_failed _ _ _ _ _ _ _ _ V). rewrite (lv_first V), (lv_last V).
  rewrite (N.mod_small (mx + 1) two64) by exact Hmx.
  destruct (lv_log_cases V) as [(Ees & ES & Hn0 & Hdr & Hmb)|(Ees & Hdr & Hlast & H2)].
  - (* a sealed tail is not empty *)
    exfalso. pose proof (lv_tok _ _ _ _ _ _ _ _ V) as (_ & Ht'). fold d in Ht'. rewrite (lv_file _ _ _ _ _ _ _ _ V) in Ht'.
    destruct Ht' as ((_ & _ & _ & _ & F5) & _). specialize (F5 Hse2). apply llen_pos in F5. lia.
  - (* non-empty log *)
    set (first := hd_min S t) in *. set (es := lv_es d S t f) in *.
    assert (Hf1 : 1 <= first).
    { pose proof (lv_twf V) as (_ & _ & Hb1 & _ & Hbm & _). unfold first.
      destruct (list_eq_dec_nil S) as [->|HneS]; [unfold hd_min; cbn; lia|].
      pose proof (lv_Swf V) as Hw. destruct S as [|s S']; [congruence|]. inversion Hw as [|? ? (Hsb & Hsm) _]; subst.
      unfold hd_min. cbn [hd]. lia. }
    pose proof (lv_len V) as Hlen. fold d es first in Hlen.
    assert (Hfirst : spec_first (dread d) = first).
    { rewrite Hdr. unfold spec_first. cbn [sl_is_empty sl_ents sl_first]. destruct es; [congruence|reflexivity]. }
    assert (Hie : sl_is_empty (dread d) = false).
    { rewrite Hdr. unfold sl_is_empty. cbn [sl_ents]. destruct es; [congruence|reflexivity]. }
    rewrite Hfirst.
    assert (Hsd : spec_delete (dread d) mn mx =
              if (mx <? first) || (spec_last (dread d) <? mn) then Some (dread d)
              else if mn <=? first then
                     if spec_last (dread d) <=? mx then Some sl_empty
                     else Some {| sl_first := mx + 1; sl_ents := skipn (N.to_nat (mx + 1 - first)) es |}
                   else if spec_last (dread d) <=? mx
                        then Some {| sl_first := first; sl_ents := firstn (N.to_nat (mn - first)) es |}
                        else None).
    { unfold spec_delete. rewrite Emm, Hie. cbn [orb].
      assert (E1 : sl_first (dread d) = first) by (rewrite Hdr; reflexivity).
      assert (E2 : sl_ents (dread d) = es) by (rewrite Hdr; reflexivity).
      rewrite E1, E2. reflexivity. }
    destruct ((mx <? first) || (spec_last (dread d) <? mn)) eqn:E1.
    { apply Hnoop. rewrite Hsd. reflexivity. }
    destruct (mn <=? first) eqn:E2.
    + (* head truncation *)
      set (a1 := {| sp_log := slog_of (mx + 1) (skipn (N.to_nat (mx + 1 - first)) es); sp_kv := dk_stable d |}).
      assert (Ea1 : a' = a1).
      { unfold a'. rewrite Hspec, Hsd. unfold a1. destruct (spec_last (dread d) <=? mx) eqn:E3; cbn [snd]; f_equal.
        - rewrite skipn_all2; [reflexivity|]. unfold llen in *. lia.
        - symmetry. apply slog_of_cons. intros E. apply (f_equal (@length _)) in E. rewrite skipn_length in E.
          cbn in E. unfold llen in *. lia. }
      destruct (truncate_head_S c (nb + 1) A w e S t f tw (mx + 1) Hc V Hf ltac:(lia) ltac:(lia) ltac:(lia))
        as (w' & e' & Htr & He' & HL' & Hs').
      * fold d first. intros _. lia.
      * left. exact Hsp.
      * fold d first es a1. right. symmetry. exact Ea1.
      * rewrite Htr. exists ROk, w', e'. split; [reflexivity|].
        split; [rewrite Hspec, Hsd; destruct (spec_last (dread d) <=? mx); reflexivity|].
        split; [exact HL'|]. split; [|exact He']. rewrite Hs'. fold d first es a1. symmetry. exact Ea1.
    + destruct (spec_last (dread d) <=? mx) eqn:E3.
      * (* tail truncation *)
        set (a1 := {| sp_log := slog_of first (firstn (N.to_nat (mn - 1 + 1 - first)) es); sp_kv := dk_stable d |}).
        assert (Ea1 : a' = a1).
        { unfold a'. rewrite Hspec, Hsd. unfold a1. cbn [snd]. f_equal.
          replace (mn - 1 + 1 - first) with (mn - first) by lia.
          symmetry. apply slog_of_cons. intros E. apply (f_equal (@length _)) in E. rewrite firstn_length in E.
          cbn in E. unfold llen in *. lia. }
        destruct (truncate_tail_S c (nb + 1) A w e S t f tw (mn - 1) Hc V Hf Hse2 ltac:(lia) ltac:(lia))
          as (w' & e' & Htr & He' & HL' & Hs').
        -- exact Ees.
        -- fold first. lia.
        -- lia.
        -- left. exact Hsp.
        -- fold d first es a1. right. symmetry. exact Ea1.
        -- rewrite Htr. exists ROk, w', e'. split; [reflexivity|].
           split; [rewrite Hspec, Hsd; reflexivity|].
           split; [left; exact HL'|]. split; [|exact He']. rewrite Hs'. fold d first es a1. symmetry. exact Ea1.
      * (* a range strictly inside the log *)
        exists RErrMiddle, (set_rot w None), e. split; [reflexivity|]. unfold a'. rewrite Hspec, Hsd. cbn [fst snd].
        split; [reflexivity|]. split; [apply SPost_same; exact HL1|]. split; [exact Hsp|exact He0].
Qed.

Lemma set_rot_none_id w x : st_rotate w = None -> set_rot (set_rot w x) None = w.
Proof. intros H. destruct w; cbn in *. subst. reflexivity. Qed.

Lemma seal_delete c nb w e nom alts defer mn mx :
  cfg_ok c -> mx + 1 < two64 -> nb + 1 < two64 ->
  Seal c nb w (e_disk e) -> sp_of (sh (e_disk e)) = nom -> In nom alts ->
  exists r w' e', delete_range c w mn mx e = (r, w', e') /\ st_closed w' = false /\
    ((r = ROk /\ exists nom', spec_accepts nom (ODelete mn mx) = Some nom' /\
        Mode c (nb + 1) w' (e_disk e') nom' defer /\ RD c (nb + 1) (e_disk e') (nom' :: app_op (ODelete mn mx) alts) defer) \/
     (r <> ROk /\ Mode c (nb + 1) w' (e_disk e') nom defer /\
      RD c (nb + 1) (e_disk e') (alts ++ app_op (ODelete mn mx) alts) defer)).
Proof.
  intros Hc Hmx Hnb HS Hsp Hin. pose proof HS as (tw & Htw & Hidx & Hrot & HL & HN).
  set (wS := set_rot w (Some (ws_index_start tw))) in *.
  assert (Ew : set_rot wS None = w) by (apply set_rot_none_id; exact Hrot).
  pose proof (LInv_closed _ _ _ _ HL) as Hcl. cbn in Hcl.
  set (d := e_disk e) in *. set (ec := shenv e).
  pose proof (LInv_NoDup_sh _ _ _ _ HL) as ND.
  set (X := stale_names d).
  assert (HR : R X e ec) by (split; [apply drel_sh; [exact ND|apply stale_names_ok]|reflexivity]).
  assert (Hex : forall n, In n X -> lookup n (dk_files d) <> None).
  { intros n Hx. destruct (stale_names_in _ n ND Hx) as (f & p & Hl & _). rewrite Hl. discriminate. }
  assert (HXu : forall n, In n X -> unlisted d n).
  { intros n Hx. destruct (stale_names_in _ n ND Hx) as (f & p & Hl & Hp). apply (HN n f p Hl Hp). }
  assert (HXw : forall n, In n X -> forall s, In s (st_segs wS) -> name_of s <> n).
  { intros n Hx s Hs. apply (HXu n Hx (persistent wS) s (live_meta c nb wS d HL) Hs). }
  destruct (delete_range_S c nb wS ec mn mx nom Hc HL eq_refl ltac:(cbn; discriminate) Hnb Hsp Hmx)
    as (r0 & w0 & ec' & Hsl & Hres & HP & Hsp' & Hext).
  rewrite Ew in Hsl.
  destruct (delete_range c w mn mx e) as [[r w'] e'] eqn:Est. exists r, w', e'. split; [reflexivity|].
  destruct (delete_range_sub _ _ _ _ _ _ _ _ Est) as (_ & Hms).
  assert (Hgarb : forall n, In n X -> unlisted (e_disk e') n).
  { intros n Hx. apply (unlisted_keep c nb wS d (e_disk e') n HL (Hex n Hx) (HXu n Hx)). exact Hms. }
  set (o1 := ODelete mn mx) in *. set (alts' := alts ++ app_op o1 alts).
  assert (Hia : incl alts alts') by (intros x Hx; apply in_or_app; left; exact Hx).
  assert (Hina : In nom alts') by (apply Hia; exact Hin).
  assert (HS1 : Seal c (nb + 1) w d).
  { exists tw. split; [exact Htw|]. split; [exact Hidx|]. split; [exact Hrot|]. split; [eapply LInv_mono; [|exact HL]; lia|exact HN]. }
  assert (Hunch : forall l, In nom l -> Mode c (nb + 1) w d nom defer /\ RD c (nb + 1) d l defer).
  { intros l Hl. split; [apply Mode_seal; assumption|]. apply (RD_seal c (nb + 1) w d l defer HS1). rewrite Hsp. exact Hl. }
  assert (Hfin : forall dm, pfx ec ec' dm -> DP c (nb + 1) (fun x => x = nom \/ x = snd (step_spec nom o1)) dm) by (intros dm Hp; apply (ext_pfx _ _ _ _ Hext Hp)).
  assert (Hcand : forall x, x = nom \/ x = snd (step_spec nom o1) -> In x (candidates alts' defer)).
  { intros x [-> | ->]; [apply cand_alts; exact Hina|]. apply cand_alts.
    destruct (res_cases nom o1 r0 eq_refl Hres) as [(_ & Hacc)|(_ & _ & Hsnd)]; [eapply in_alts_app_op; eauto|rewrite Hsnd; exact Hina]. }
  assert (Hfailmode : forall ps, post_commit X ec ec' (e_disk e') ps ->
            Mode c (nb + 1) (set_failed w) (e_disk e') nom defer /\ RD c (nb + 1) (e_disk e') alts' defer).
  { intros ps Hpc.
    assert (Hmd' : dk_meta (e_disk e') = Some ps).
    { destruct Hpc as (dm & (_ & M & _) & _ & Hm & _). rewrite M. exact Hm. }
    apply (fail_after_commit c nb (nb + 1) (set_failed w) wS (sh d) (e_disk e') X nom alts' defer ps ec ec' ltac:(lia) HL eq_refl Hsp eq_refl eq_refl eq_refl Hrot Hcl Hpc).
    - intros dm Hp. destruct (Hfin dm Hp) as (HDm & HAm & _). split; [exact HDm|apply Hcand; exact HAm].
    - intros n Hx. right. apply (HXw n Hx).
    - intros n s Hx Hs. apply (Hgarb n Hx ps s Hmd' Hs). }
  assert (Hg : forall tw0, st_tail w = Some tw0 -> In (ws_name tw0) X -> wguard (e_disk e) (ws_name tw0) (ws_off tw0)).
  { intros tw0 Ht0 Hx. exfalso. destruct (LInv_view _ _ _ _ HL) as (S & t & f0 & tw2 & V).
    pose proof (lv_tail _ _ _ _ _ _ _ _ V) as K. cbn in K. rewrite Ht0 in K. inversion K; subst tw2.
    apply (HXw _ Hx t); [rewrite (lv_segs _ _ _ _ _ _ _ _ V); apply in_or_app; right; left; reflexivity|].
    symmetry. apply (lv_tw _ _ _ _ _ _ _ _ V). }
  destruct (delete_range_lock X c w mn mx e ec r w' e' r0 w0 ec' HR Hg Est Hsl) as [(-> & -> & Herr & Hok)|(Hf' & -> & Hfail)].
  - assert (Hcl0 : st_closed w0 = false /\ st_failed w0 = false).
    { destruct HP as [K|(K & _)]; [split; apply K|]. pose proof K as (K1 & K2 & _). cbn in K1, K2. auto. }
    split; [apply Hcl0|].
    destruct (res_cases nom o1 r0 eq_refl Hres) as [(-> & Hacc)|(Hne & Hacc & Hsnd)].
    + left. split; [reflexivity|]. exists (snd (step_spec nom o1)). split; [exact Hacc|].
      (* whatever the deletions did, the pending batches stay in unlisted files *)
      assert (Hpost : forall X' ns, Rd X' ns ec e' ec' -> incl X' X ->
                Mode c (nb + 1) w0 (e_disk e') (snd (step_spec nom o1)) defer /\
                RD c (nb + 1) (e_disk e') (snd (step_spec nom o1) :: app_op o1 alts) defer).
      { intros X' ns HRd Hincl. destruct HP as [HL0|(HL0 & Ht0 & Hr0)].
        - destruct (Rd_live c (nb + 1) _ w0 e' ec ec' X' ns defer Hext HL0 HRd) as (HLv & Hsps).
          { intros n f p Hx _ _ _. right. apply Hgarb. apply Hincl. exact Hx. }
          rewrite Hsp' in Hsps.
          apply (live_out c (nb + 1) w0 (e_disk e') _ _ defer); [exact HLv|exact Hsps|left; reflexivity].
        - destruct (Rd_post c (nb + 1) _ _ e' ec ec' X' ns (fun _ _ _ => False) Hext HL0 HRd) as (HLs & HNs & Hsps).
          { intros n f p Hx _ _ _. right. apply Hgarb. apply Hincl. exact Hx. }
          rewrite Hsp' in Hsps.
          assert (HS0 : Seal c (nb + 1) w0 (e_disk e')).
          { exists tw. split; [rewrite Ht0; exact Htw|]. split; [exact Hidx|]. split; [exact Hr0|]. split; [exact HLs|].
            intros n f p Hl Hp. destruct (HNs n f p Hl Hp) as [[]|K]. exact K. }
          split; [apply Mode_seal; assumption|]. apply (RD_seal c (nb + 1) w0 _ _ defer HS0). rewrite Hsps. left. reflexivity. }
      destruct (Hok eq_refl) as [(-> & -> & Eec)|[(ns & HRd & _)|(ns & X' & HRd & Hincl & _)]].
      * rewrite Eec in Hsp'. change (e_disk ec) with (sh d) in Hsp'. rewrite <- Hsp', Hsp.
        apply Hunch. left. reflexivity.
      * apply (Hpost X ns HRd (incl_refl _)).
      * apply (Hpost X' ns HRd Hincl).
    + right. split; [exact Hne|].
      destruct (Herr Hne) as [Hfl|(-> & -> & Eec)]; [destruct Hcl0; congruence|]. apply Hunch. exact Hina.
  - destruct Hfail as [[(-> & Hd)|(-> & ps & Hpc & _)]|[(tw1 & Htw1 & His & _)|
                       (tw1 & tw' & e1 & ec1 & X' & Htw1 & Hfsc & Hfs & HR1 & HX' & _ & Hsh1 & Hrest)]].
    + split; [exact Hcl|]. right. split; [discriminate|]. rewrite Hd. apply Hunch. exact Hina.
    + split; [exact Hcl|]. right. split; [discriminate|]. apply (Hfailmode ps Hpc).
    + exfalso. rewrite Htw in Htw1. inversion Htw1; subst tw1. lia.
    + rewrite Htw in Htw1. inversion Htw1; subst tw1.
      rewrite seg_force_seal_eq in Hfsc, Hfs. replace (0 <? ws_index_start tw) with true in Hfsc, Hfs by lia.
      inversion Hfsc; subst tw' ec1. inversion Hfs; subst e1.
      assert (EX' : X' = X) by (destruct HX' as [-> | (K & _)]; [reflexivity|lia]). subst X'.
      assert (Est' : set_tail w (Some tw) = w) by (rewrite <- Htw; apply set_tail_id).
      destruct Hrest as [(-> & Hd & _)|(-> & ps & Hpc & _)]; rewrite Est'.
      * split; [exact Hcl|]. right. split; [discriminate|]. rewrite Hd. apply Hunch. exact Hina.
      * split; [exact Hcl|]. right. split; [discriminate|]. apply (Hfailmode ps Hpc).
Qed.
