(* FaultSeal.v -- DeleteRange on a WAL whose tail is sealed but whose rotation
   did not happen (the rotation commit, or a tail-truncation commit, failed). *)
From RW Require Import Base.Bytes Base.BytesFacts Fmt.Codec Fmt.CodecFacts Fmt.Frame Wal.Model Wal.Spec Wal.Hist Wal.FaultHist
  Wal.CrashInv Wal.CrashFacts0 Wal.CrashFacts1 Wal.CrashFacts2 Wal.CrashFacts3 Wal.CrashFacts4 Wal.CrashFacts5
  Wal.CrashFacts6 Wal.CrashGlue Wal.CrashCalls1 Wal.CrashCalls2 Wal.CrashCalls3 Wal.CrashCalls4 Wal.CrashCalls5 Wal.CrashCalls6
  Wal.CrashCalls7 Wal.CrashCalls8 Wal.CrashCalls9 Wal.CrashCalls10 Wal.FaultSim Wal.FaultSim2 Wal.FaultInv Wal.FaultFacts2
  Wal.FaultFacts3 Wal.FaultStore Wal.FaultDelete Wal.FaultSteps Gen.Constants.
From Coq Require Import ZifyN ZifyNat ZifyBool.
Open Scope N_scope.

Lemma seal_delete c nb w e nom alts defer mn mx :
  cfg_ok c -> mx + 1 < two64 -> nb + 1 < two64 ->
  Seal c nb w (e_disk e) -> sp_of (sh (e_disk e)) = nom -> In nom alts ->
  exists r w' e', delete_range c w mn mx e = (r, w', e') /\ st_closed w' = false /\
    ((r = ROk /\ exists nom', spec_accepts nom (ODelete mn mx) = Some nom' /\
        Mode c (nb + 1) w' (e_disk e') nom' defer /\ RD c (nb + 1) (e_disk e') (nom' :: app_op (ODelete mn mx) alts) defer) \/
     (r <> ROk /\ Mode c (nb + 1) w' (e_disk e') nom defer /\
      RD c (nb + 1) (e_disk e') (alts ++ app_op (ODelete mn mx) alts) defer)).
Proof.
Admitted.
