(* CrashCalls6.v -- building blocks of DeleteRange: a transaction that keeps the
   tail (head truncation), and the force-seal of the tail (tail truncation). *)
From RW Require Import Base.Bytes Base.BytesFacts Fmt.Codec Fmt.CodecFacts Fmt.Frame Wal.Model Wal.Spec Wal.Hist
  Wal.CrashInv Wal.CrashFacts0 Wal.CrashFacts1 Wal.CrashFacts2 Wal.CrashFacts3 Wal.CrashFacts4 Wal.CrashFacts5
  Wal.CrashFacts6 Wal.CrashGlue Wal.CrashCalls1 Wal.CrashCalls3 Wal.CrashCalls4 Gen.Constants.
From Coq Require Import ZifyN ZifyNat ZifyBool.
Open Scope N_scope.

Lemma sp_of_del_disk del ps : forall d,
  dk_meta d = Some ps -> (forall n, In n del -> listed (ps_segs ps) n = false) ->
  sp_of (del_disk del d) = sp_of d.
Proof.
  induction del as [|n del IH]; intros d Hm Hdel; [reflexivity|].
  unfold del_disk. cbn [fold_left]. fold (del_disk del (apply_act d (ADelete n))).
  rewrite IH; [|exact Hm|intros m Hin; apply Hdel; right; exact Hin].
  unfold sp_of. cbn [apply_act dk_stable]. f_equal. apply (dread_delete d n ps Hm). apply Hdel. left; reflexivity.
Qed.

Lemma mutate_keep_ok c nb (A : spst -> Prop) w e0 e S t f tw S' t' del :
  lview c nb w (e_disk e) S t f tw -> ext (DP c nb A) e0 e ->
  name_of t' = name_of t -> si_base t' = si_base t -> si_min t <= si_min t' -> si_size_limit t' = si_size_limit t ->
  Forall (seg_wf c (st_next_id w)) (S' ++ [t']) -> linked (S' ++ [t']) ->
  Forall (sealed_ok (e_disk e)) S' -> tail_ok c (e_disk e) t' ->
  (forall n, In n del -> listed (S' ++ [t']) n = false) ->
  let s1 := {| sp_log := slog_of (hd_min S' t') (sealed_es (e_disk e) S' ++ tail_es (e_disk e) t');
               sp_kv := dk_stable (e_disk e) |} in
  A s1 ->
  exists w' e',
    mutate w {| tx_next_id := st_next_id w; tx_segs := S' ++ [t']; tx_delete := del;
                tx_create := None; tx_tail := st_tail w |} e = (ROk, w', e') /\
    ext (DP c nb A) e0 e' /\ LInv c nb w' (e_disk e') /\ sp_of (e_disk e') = s1.
Proof.
  intros V He Hname Hbase Hmin Hlim Hwf Hl Hso Htok Hdel s1 HA.
  set (d := e_disk e) in *. pose proof (ext_fault _ _ _ He) as Hf.
  pose proof (lv_dis _ _ _ _ _ _ _ _ V) as HD.
  set (ps' := {| ps_next_id := st_next_id w; ps_segs := S' ++ [t'] |}).
  assert (HD1 : DIs c nb (apply_act d (ACommit ps'))).
  { apply DIs_commit; auto.
    - intros ps E. rewrite (lv_meta _ _ _ _ _ _ _ _ V) in E. inversion E. cbn. lia.
    - apply (lv_nid _ _ _ _ _ _ _ _ V). }
  unfold mutate, mutate_gen. cbn [tx_next_id tx_segs tx_delete tx_create tx_tail].
  rewrite (io_ok _ e Hf). cbn [negb]. fold ps'. set (e1 := io_env (ACommit ps') e).
  assert (Hm1 : dk_meta (e_disk e1) = Some ps') by reflexivity.
  assert (HN1 : no_pend (e_disk e1)) by (eapply no_pend_same; [|apply (lv_nopend _ _ _ _ _ _ _ _ V)]; reflexivity).
  assert (Hs1 : sp_of (e_disk e1) = s1).
  { unfold sp_of. change (e_disk e1) with (apply_act d (ACommit ps')).
    rewrite (dread_decomp c nb _ ps' S' t' HD1 eq_refl eq_refl). reflexivity. }
  assert (HP1 : DP c nb A (e_disk e1)) by (apply DP_no_pend; [exact HD1|exact HN1|rewrite Hs1; exact HA]).
  assert (He1 : ext (DP c nb A) e0 e1) by (apply ext_io; [exact He|exact I|exact HP1]).
  set (w' := {| st_next_id := st_next_id w; st_segs := S' ++ [t']; st_tail := st_tail w;
                st_rotate := st_rotate w; st_failed := st_failed w; st_closed := st_closed w |}).
  assert (HL1 : LInv c nb w' (e_disk e1)).
  { split; [apply (lv_closed _ _ _ _ _ _ _ _ V)|]. split; [apply (lv_failed _ _ _ _ _ _ _ _ V)|].
    split; [exact HD1|]. split; [exact HN1|]. split; [reflexivity|].
    exists t', f, tw. split; [apply tail_info_app|].
    split; [rewrite Hname; apply (lv_file _ _ _ _ _ _ _ _ V)|].
    split; [apply (lv_tail _ _ _ _ _ _ _ _ V)|]. split; [|apply (lv_rot _ _ _ _ _ _ _ _ V)].
    pose proof (lv_tw _ _ _ _ _ _ _ _ V) as (T1 & T2 & T3 & T4 & T5 & T6 & T7 & T8).
    unfold tw_ok. rewrite Hname, Hbase, Hlim. repeat split; auto. lia. }
  destruct (DP_delete_files c nb A e0 ps' del e1 He1 Hm1 Hdel) as (He2 & Hd2).
  exists w', (delete_files del e1). split; [reflexivity|]. split; [exact He2|].
  split; [rewrite Hd2; apply LInv_del_disk; [exact HL1|exact Hdel]|].
  rewrite Hd2, <- Hs1. apply (sp_of_del_disk del ps' _ Hm1 Hdel).
Qed.

(* ---- ForceSeal ---- *)
Lemma force_seal_sizes L off n h :
  L < two30 -> 8 * n <= off -> off <= L + 8 -> 1 <= n -> (h = 0 \/ h = 32) ->
  let total := h + index_frame_size n + 8 in
  let end' := (off + total) mod two32 in
  8 * n <= end' /\ end' < two32 /\ end' <> 0.
Proof.
  intros HL Hn Hoff Hn1 Hh. cbv zeta.
  pose proof (index_frame_size_le n) as Hidx. revert Hidx. generalize (index_frame_size n). intros X Hidx.
  assert (T32 : two32 = 4294967296) by reflexivity. assert (T30 : two30 = 1073741824) by reflexivity.
  rewrite (N.mod_small (off + (h + X + 8)) two32) by lia. repeat split; lia.
Qed.

Lemma force_seal_ok c nb (A : spst -> Prop) w e0 e S t f tw :
  cfg_ok c -> lview c nb w (e_disk e) S t f tw -> ext (DP c nb A) e0 e ->
  df_seal f = 0 -> 1 <= llen (df_ents f) -> A (sp_of (e_disk e)) ->
  exists tw' e',
    seg_force_seal tw e = (ROk, tw', e') /\ ext (DP c nb A) e0 e' /\
    LInv c nb {| st_next_id := st_next_id w; st_segs := st_segs w; st_tail := Some tw';
                 st_rotate := if 0 <? ws_index_start tw' then Some (ws_index_start tw') else None;
                 st_failed := st_failed w; st_closed := st_closed w |} (e_disk e') /\
    sp_of (e_disk e') = sp_of (e_disk e) /\ 0 < ws_index_start tw' /\
    (exists f', lookup (name_of t) (dk_files (e_disk e')) = Some f' /\ df_ents f' = df_ents f).
Proof.
  intros Hc V He Hse Hn1 HAa. set (d := e_disk e) in *.
  pose proof (ext_fault _ _ _ He) as Hf.
  pose proof (lv_tw _ _ _ _ _ _ _ _ V) as (Tn & Tb & Tm & Tl & Tnn & To & Ti & Tc).
  pose proof (lv_twf V) as (_ & Hlim & Hb1 & _ & Hbm & _).
  pose proof (lv_file _ _ _ _ _ _ _ _ V) as Hfile. pose proof (lv_pend _ _ _ _ _ _ _ _ V) as Hp.
  pose proof (lv_tok _ _ _ _ _ _ _ _ V) as Htok. pose proof Htok as (Hu & Ht'). rewrite Hfile in Ht'.
  destruct Ht' as ((Z1 & Z2 & Z3 & Z4 & Z5) & _ & Hdir & _ & Hmc & Hbd).
  specialize (Z3 Hse).
  destruct Hc as (Hc1 & Hc2 & Hc3 & Hc4).
  assert (Hh : (if ws_hdr tw then 32 else 0) = 0 \/ (if ws_hdr tw then 32 else 0) = 32) by (destruct (ws_hdr tw); auto).
  destruct (force_seal_sizes (c_seg_size c) (df_end f) (llen (df_ents f)) (if ws_hdr tw then 32 else 0) Hc4 Z1 Z3 Hn1 Hh)
    as (Q1 & Q2 & Q4).
  assert (Hbound : si_base t + llen (df_ents f ++ []) < two64).
  { rewrite app_nil_r. unfold cur_ents in Hbd. rewrite Hp in Hbd. exact Hbd. }
  assert (Hn0 : (llen (df_ents f) =? 0) = false) by lia.
  assert (Hist : 0 < df_end f + (if ws_hdr tw then 32 else 0) + 8) by lia.
  unfold seg_force_seal. rewrite Ti, Hse. change (0 <? 0) with false. cbn iota.
  rewrite Tnn, Hn0, To, Tn.
  set (istart := df_end f + (if ws_hdr tw then 32 else 0) + 8) in *.
  set (total := (if ws_hdr tw then 32 else 0) + index_frame_size (llen (df_ents f)) + 8) in *.
  set (b := {| pb_ents := []; pb_end := (df_end f + total) mod two32; pb_seal := istart |}).
  rewrite (io_ok _ e Hf). cbn [negb].
  set (e1 := io_env (AWrite (name_of t) (df_end f) total b) e).
  rewrite (io_ok _ e1 eq_refl). cbn [negb].
  set (e2 := io_env (ASync (name_of t)) e1).
  pose proof (lv_dis _ _ _ _ _ _ _ _ V) as HD. pose proof (lv_meta _ _ _ _ _ _ _ _ V) as Hm.
  set (ps := {| ps_next_id := st_next_id w; ps_segs := S ++ [t] |}) in *.
  assert (Hfz : fsz_ok (c_seg_size c) (df_ents f ++ pb_ents b) (pb_end b) (pb_seal b)).
  { cbn [b pb_ents pb_end pb_seal]. rewrite app_nil_r. unfold fsz_ok.
    split; [exact Q1|]. split; [exact Q2|]. split; [intros K; exfalso; revert K Hist; clear; intros; lia|].
    split; [intros _; exact Q4|]. intros _. apply llen_pos. revert Hn1; clear; intros; lia. }
  assert (HD1 : DIs c nb (e_disk e1)).
  { apply (DIs_write_tail c nb d ps S t f (df_end f) total b HD Hm eq_refl Hfile Hp Hse Hfz Hbound). }
  assert (Ed1 : e_disk e1 = {| dk_files := update (name_of t) (with_pend f b) (dk_files d); dk_meta := dk_meta d;
                              dk_stable := dk_stable d; dk_inited := dk_inited d |}).
  { apply (apply_write d (name_of t) (df_end f) total b f Hfile Hp). }
  assert (Hm1 : dk_meta (e_disk e1) = Some ps) by (rewrite Ed1; exact Hm).
  assert (Hneq : forall s, In s S -> name_of s <> name_of t) by (intros s0 Hs0; apply (DIs_sealed_neq c nb d ps S t s0 HD Hm eq_refl Hs0)).
  destruct (dread_tail_file c nb (e_disk e1) ps S t HD1 Hm1 eq_refl) as (R1 & R1u).
  assert (Hse1 : sealed_es (e_disk e1) S = sealed_es d S).
  { apply (sealed_es_update d (e_disk e1) S t (with_pend f b)); [rewrite Ed1; reflexivity|exact Hneq]. }
  assert (Ht1 : tail_es (e_disk e1) t = skipn (N.to_nat (si_min t - si_base t)) (df_ents f)).
  { unfold tail_es, file_ents. rewrite Ed1. cbn [dk_files]. rewrite lookup_update_eq.
    unfold cur_ents. cbn [with_pend df_pend df_ents b pb_ents]. rewrite app_nil_r. reflexivity. }
  assert (Ht1u : tail_es (unpend (e_disk e1)) t = skipn (N.to_nat (si_min t - si_base t)) (df_ents f)).
  { unfold tail_es. rewrite file_ents_unpend. rewrite Ed1. cbn [dk_files]. rewrite lookup_update_eq. reflexivity. }
  assert (Hst1 : dk_stable (e_disk e1) = dk_stable d) by (rewrite Ed1; reflexivity).
  assert (Hs1 : sp_of (e_disk e1) = sp_of d).
  { unfold sp_of. rewrite R1, Hse1, Ht1, Hst1. rewrite (lv_read _ _ _ _ _ _ _ _ V). reflexivity. }
  assert (Hs1u : sp_of (unpend (e_disk e1)) = sp_of d).
  { unfold sp_of. rewrite R1u, Hse1, Ht1u. cbn [unpend dk_stable]. rewrite Hst1.
    rewrite (lv_read _ _ _ _ _ _ _ _ V). reflexivity. }
  assert (HP1 : DP c nb A (e_disk e1)).
  { split; [exact HD1|]. split; [rewrite Hs1; exact HAa|rewrite Hs1u; exact HAa]. }
  assert (He1 : ext (DP c nb A) e0 e1) by (apply ext_io; [exact He|exact I|exact HP1]).
  assert (Hf1 : lookup (name_of t) (dk_files (e_disk e1)) = Some (with_pend f b)).
  { rewrite Ed1. cbn [dk_files]. apply lookup_update_eq. }
  assert (HD2 : DIs c nb (e_disk e2)).
  { apply (DIs_sync_tail c nb (e_disk e1) ps S t (with_pend f b) HD1 Hm1 eq_refl Hf1). }
  set (f2 := synced_file (with_pend f b)).
  assert (Ed2 : e_disk e2 = {| dk_files := update (name_of t) f2 (dk_files (e_disk e1)); dk_meta := dk_meta (e_disk e1);
                              dk_stable := dk_stable (e_disk e1); dk_inited := dk_inited (e_disk e1) |}).
  { apply (apply_sync (e_disk e1) (name_of t) (with_pend f b) Hf1). }
  assert (Hm2 : dk_meta (e_disk e2) = Some ps) by (rewrite Ed2; exact Hm1).
  assert (HN2 : no_pend (e_disk e2)).
  { apply (no_pend_update (e_disk e1) (e_disk e2) (name_of t) f2); [rewrite Ed2; reflexivity|reflexivity|].
    intros m g Hmn. rewrite Ed1. cbn [dk_files]. rewrite lookup_update_neq by exact Hmn.
    apply (lv_nopend _ _ _ _ _ _ _ _ V). }
  destruct (dread_tail_file c nb (e_disk e2) ps S t HD2 Hm2 eq_refl) as (R2 & _).
  assert (Hse2 : sealed_es (e_disk e2) S = sealed_es d S).
  { rewrite <- Hse1. apply (sealed_es_update (e_disk e1) (e_disk e2) S t f2); [rewrite Ed2; reflexivity|exact Hneq]. }
  assert (Ht2 : tail_es (e_disk e2) t = skipn (N.to_nat (si_min t - si_base t)) (df_ents f)).
  { unfold tail_es, file_ents. rewrite Ed2. cbn [dk_files]. rewrite lookup_update_eq.
    unfold f2, synced_file, cur_ents. cbn [with_pend df_pend df_ents b pb_ents]. rewrite app_nil_r. reflexivity. }
  assert (Hs2 : sp_of (e_disk e2) = sp_of d).
  { unfold sp_of. rewrite R2, Hse2, Ht2. rewrite Ed2. cbn [dk_stable]. rewrite Hst1.
    rewrite (lv_read _ _ _ _ _ _ _ _ V). reflexivity. }
  assert (HP2 : DP c nb A (e_disk e2)) by (apply DP_no_pend; [exact HD2|exact HN2|rewrite Hs2; exact HAa]).
  assert (He2 : ext (DP c nb A) e0 e2) by (apply ext_io; [exact He1|exact I|exact HP2]).
  assert (Hf2 : lookup (name_of t) (dk_files (e_disk e2)) = Some f2).
  { rewrite Ed2. cbn [dk_files]. apply lookup_update_eq. }
  eexists _, e2. split; [reflexivity|]. split; [exact He2|].
  split; [|split; [exact Hs2|split; [cbn [ws_index_start]; exact Hist|]]].
  - cbn [ws_index_start].
    split; [apply (lv_closed _ _ _ _ _ _ _ _ V)|]. split; [apply (lv_failed _ _ _ _ _ _ _ _ V)|].
    split; [exact HD2|]. split; [exact HN2|].
    split; [rewrite Hm2; unfold persistent, ps; cbn; rewrite (lv_segs _ _ _ _ _ _ _ _ V); reflexivity|].
    exists t, f2. eexists. split; [cbn [st_segs]; rewrite (lv_segs _ _ _ _ _ _ _ _ V); apply tail_info_app|].
    split; [exact Hf2|]. split; [reflexivity|]. split; [|reflexivity].
    unfold tw_ok. cbn [ws_name ws_base ws_min ws_limit ws_n ws_off ws_index_start ws_commit_idx].
    unfold f2, synced_file, cur_ents, cur_end, cur_seal. cbn [with_pend df_pend df_ents df_end df_seal b pb_ents pb_end pb_seal].
    rewrite app_nil_r.
    split; [reflexivity|]. split; [first [exact Tb|reflexivity]|]. split; [exact Tm|]. split; [first [exact Tl|reflexivity]|].
    split; [first [exact Tnn|reflexivity]|]. split; [reflexivity|]. split; [reflexivity|].
    unfold tl_of. rewrite Hn0. try rewrite Tb. try rewrite Tnn. reflexivity.
  - exists f2. split; [exact Hf2|]. unfold f2, synced_file, cur_ents. cbn [with_pend df_pend df_ents b pb_ents]. apply app_nil_r.
Qed.
