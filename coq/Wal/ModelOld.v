(* ModelOld.v -- mutateStateLocked as it was before the repair of finding F4 (a failed
   metadata commit was taken for a commit that did not happen: the in-memory state stayed
   as it was and the WAL went on accepting writes), and the tail truncation built on it.
   Only used by the example C10_ex_commit_lands_old_refuted (Props/C10.v). *)
From RW Require Import Base.Bytes Fmt.Codec Fmt.Frame Wal.Model Gen.Constants.
Open Scope N_scope.

Definition mutate_gen_old (defer : bool) (w : wal) (t : txn) (e : env) : result * wal * env * list fname :=
  let ps := {| ps_next_id := tx_next_id t; ps_segs := tx_segs t |} in
  let '(ok, e1) := io (ACommit ps) e in
  if negb ok then (RErrIO, w, e1, [])
  else
    match tx_create t with
    | None =>
        let e2 := if defer then e1 else delete_files (tx_delete t) e1 in
        (ROk, {| st_next_id := tx_next_id t; st_segs := tx_segs t; st_tail := tx_tail t;
                 st_rotate := st_rotate w; st_failed := st_failed w; st_closed := st_closed w |}, e2,
         if defer then tx_delete t else [])
    | Some si =>
        let '(sw, e2) := seg_create si e1 in
        match sw with
        | None => (RErrIO, {| st_next_id := st_next_id w; st_segs := st_segs w; st_tail := st_tail w;
                              st_rotate := st_rotate w; st_failed := true; st_closed := st_closed w |}, e2, [])
        | Some sw =>
            let e3 := if defer then e2 else delete_files (tx_delete t) e2 in
            (ROk, {| st_next_id := tx_next_id t; st_segs := tx_segs t; st_tail := Some sw;
                     st_rotate := st_rotate w; st_failed := st_failed w; st_closed := st_closed w |}, e3,
             if defer then tx_delete t else [])
        end
    end.

Definition mutate_old (w : wal) (t : txn) (e : env) : result * wal * env :=
  let '(r, w', e', _) := mutate_gen_old false w t e in (r, w', e').

(* truncateTailLocked over mutate_old; the branch taken by the example: the segment the
   truncation ends in is sealed, everything behind it is dropped as a whole *)
Definition truncate_tail_old (c : cfg) (w : wal) (new_max : N) (e : env) : result * wal * env :=
  let lastidx := last_index (st_segs w) (st_tail w) in
  let '(rrest, del, ntr) := tail_scan new_max lastidx (rev (st_segs w)) [] 0 in
  match rrest with
  | t :: _ =>
      if si_sealed t then
        let t' := {| si_id := si_id t; si_base := si_base t; si_min := si_min t; si_max := new_max;
                     si_codec := si_codec t; si_index_start := si_index_start t; si_sealed := true;
                     si_size_limit := si_size_limit t |} in
        let segs1 := seg_set t' (rev rrest) in
        let '(nid, segs2, si) := create_next c (st_next_id w) segs1 0 in
        mutate_old w {| tx_next_id := nid; tx_segs := segs2; tx_delete := del; tx_create := Some si; tx_tail := None |} e
      else (RErrOther, w, e)
  | [] => (RErrOther, w, e)
  end.
