(* Model.v -- L2: the WAL state machine of wal.go/state.go over abstract segment
   files.  Every API call is a total function that emits I/O actions (VFS and
   MetaStore calls) and updates an abstract disk; byte sizes are tracked
   numerically so the sealing decision is exact.  The segment-level meaning of
   a file (which entries a torn or complete batch yields on recovery) is the
   L1 law proved in Seg/RecoverFacts.v. *)
From RW Require Import Base.Bytes Fmt.Codec Fmt.Frame Gen.Constants.
Open Scope N_scope.

(* ------------------------------------------------------------------ *)
(* persistent metadata                                                  *)
Definition llen {A : Type} (l : list A) : N := N.of_nat (length l).

(* uint64 subtraction (wraps) *)
Definition sub64 (a b : N) : N := (a + two64 - b mod two64) mod two64.

Record pstate := { ps_next_id : N; ps_segs : list seginfo }.

Definition fname := (N * N)%type.                 (* (BaseIndex, ID) = file name *)
Definition name_of (si : seginfo) : fname := (si_base si, si_id si).
Definition fname_eqb (a b : fname) : bool := (fst a =? fst b) && (snd a =? snd b).

(* ------------------------------------------------------------------ *)
(* abstract disk                                                        *)
Record pbatch := { pb_ents : list log; pb_end : N; pb_seal : N (* index start or 0 *) }.

Record dfile := {
  df_ents : list log;          (* entries of synced batches, physical order  *)
  df_end : N;                  (* file offset after the last synced commit   *)
  df_seal : N;                 (* index start if a synced batch sealed, or 0 *)
  df_pend : option pbatch;     (* batch written after the last fsync         *)
  df_dir : bool;               (* directory entry durable                    *)
  df_size : N }.               (* size requested at creation                 *)

Definition kv := (bytes * bytes)%type.

Record disk := { dk_files : list (fname * dfile); dk_meta : option pstate;
                 dk_stable : list kv; dk_inited : bool }.

Definition empty_disk : disk :=
  {| dk_files := []; dk_meta := None; dk_stable := []; dk_inited := false |}.

Fixpoint lookup (n : fname) (fs : list (fname * dfile)) : option dfile :=
  match fs with
  | [] => None
  | (m, f) :: r => if fname_eqb n m then Some f else lookup n r
  end.

Fixpoint update (n : fname) (f : dfile) (fs : list (fname * dfile)) : list (fname * dfile) :=
  match fs with
  | [] => [(n, f)]
  | (m, g) :: r => if fname_eqb n m then (n, f) :: r else (m, g) :: update n f r
  end.

Fixpoint remove (n : fname) (fs : list (fname * dfile)) : list (fname * dfile) :=
  match fs with
  | [] => []
  | (m, g) :: r => if fname_eqb n m then r else (m, g) :: remove n r
  end.

Inductive act :=
| ACreate (n : fname) (size : N)
| AWrite (n : fname) (off len : N) (b : pbatch)
| ASync (n : fname)
| ADelete (n : fname)
| ACommit (ps : pstate)
| ASetStable (k v : bytes)
| AInitMeta
| AList                       (* directory listing (only recorded when it fails)        *)
| AFail (a : act).            (* the action was attempted and failed: no effect *)

Definition bytes_eqb := beq_bytes.

Fixpoint kv_set (k v : bytes) (m : list kv) : list kv :=
  match m with
  | [] => match v with [] => [] | _ => [(k, v)] end
  | (k', v') :: r =>
      if bytes_eqb k k' then (match v with [] => r | _ => (k, v) :: r end)
      else (k', v') :: kv_set k v r
  end.
Fixpoint kv_get (k : bytes) (m : list kv) : bytes :=
  match m with
  | [] => []
  | (k', v') :: r => if bytes_eqb k k' then v' else kv_get k r
  end.

Definition apply_act (d : disk) (a : act) : disk :=
  match a with
  | ACreate n size =>
      {| dk_files := update n {| df_ents := []; df_end := 0; df_seal := 0; df_pend := None;
                                 df_dir := false; df_size := size |} (dk_files d);
         dk_meta := dk_meta d; dk_stable := dk_stable d; dk_inited := dk_inited d |}
  | AWrite n off l b =>
      match lookup n (dk_files d) with
      | None => d
      | Some f =>
          (* a write right after an adopted (recovered but never synced) pending batch
             extends it; a write at the synced end replaces it *)
          let b' := match df_pend f with
                    | Some p => if off =? pb_end p
                                then {| pb_ents := pb_ents p ++ pb_ents b; pb_end := pb_end b; pb_seal := pb_seal b |}
                                else b
                    | None => b
                    end in
          {| dk_files := update n {| df_ents := df_ents f; df_end := df_end f; df_seal := df_seal f;
                                     df_pend := Some b'; df_dir := df_dir f; df_size := df_size f |}
                                (dk_files d);
             dk_meta := dk_meta d; dk_stable := dk_stable d; dk_inited := dk_inited d |}
      end
  | ASync n =>
      match lookup n (dk_files d) with
      | None => d
      | Some f =>
          let f' := match df_pend f with
                    | None => {| df_ents := df_ents f; df_end := df_end f; df_seal := df_seal f;
                                 df_pend := None; df_dir := true; df_size := df_size f |}
                    | Some b => {| df_ents := df_ents f ++ pb_ents b; df_end := pb_end b;
                                   df_seal := pb_seal b; df_pend := None; df_dir := true;
                                   df_size := df_size f |}
                    end in
          {| dk_files := update n f' (dk_files d);
             dk_meta := dk_meta d; dk_stable := dk_stable d; dk_inited := dk_inited d |}
      end
  | ADelete n =>
      {| dk_files := remove n (dk_files d);
         dk_meta := dk_meta d; dk_stable := dk_stable d; dk_inited := dk_inited d |}
  | ACommit ps =>
      {| dk_files := dk_files d; dk_meta := Some ps; dk_stable := dk_stable d; dk_inited := true |}
  | ASetStable k v =>
      {| dk_files := dk_files d; dk_meta := dk_meta d; dk_stable := kv_set k v (dk_stable d);
         dk_inited := true |}
  | AInitMeta =>
      {| dk_files := dk_files d; dk_meta := dk_meta d; dk_stable := dk_stable d; dk_inited := true |}
  | AList => d
  | AFail _ => d
  end.

Definition replay (acts : list act) : disk := fold_left apply_act acts empty_disk.

(* content of a file as a reader of the running process (or a restarted
   process without power loss) sees it: unsynced complete batch included *)
Definition cur_ents (f : dfile) : list log :=
  match df_pend f with None => df_ents f | Some b => df_ents f ++ pb_ents b end.
Definition cur_end (f : dfile) : N :=
  match df_pend f with None => df_end f | Some b => pb_end b end.
Definition cur_seal (f : dfile) : N :=
  match df_pend f with None => df_seal f | Some b => pb_seal b end.

(* process restart without power loss: what was written but never fsynced is still
   in the page cache and is adopted by the next recovery.  From then on the model
   treats it like synced content (the durability of such bytes across a LATER power
   loss is not modelled: histories combining an I/O error, a restart and a power
   loss are outside the theorems). *)
Definition adopt_file (f : dfile) : dfile :=
  match df_pend f with
  | None => f
  | Some b => {| df_ents := df_ents f ++ pb_ents b; df_end := pb_end b; df_seal := pb_seal b;
                 df_pend := None; df_dir := df_dir f; df_size := df_size f |}
  end.
Definition adopt_disk (d : disk) : disk :=
  {| dk_files := map (fun nf => (fst nf, adopt_file (snd nf))) (dk_files d);
     dk_meta := dk_meta d; dk_stable := dk_stable d; dk_inited := dk_inited d |}.

(* ------------------------------------------------------------------ *)
(* crash: the adversary keeps or loses what is not durable              *)
Record crash_choice := { cc_keep_file : list fname;     (* non-durable files that survive       *)
                         cc_keep_batch : list fname }.  (* pending batches that reached the disk *)
Definition mem_name (n : fname) (l : list fname) : bool := existsb (fname_eqb n) l.

Definition crash_file (c : crash_choice) (nf : fname * dfile) : list (fname * dfile) :=
  let '(n, f) := nf in
  if negb (df_dir f) && negb (mem_name n (cc_keep_file c)) then []
  else
    let keep := mem_name n (cc_keep_batch c) in
    [(n, match df_pend f with
         | Some b => if keep
                     then {| df_ents := df_ents f ++ pb_ents b; df_end := pb_end b; df_seal := pb_seal b;
                             df_pend := None; df_dir := true; df_size := df_size f |}
                     else {| df_ents := df_ents f; df_end := df_end f; df_seal := df_seal f;
                             df_pend := None; df_dir := true; df_size := df_size f |}
         | None => {| df_ents := df_ents f; df_end := df_end f; df_seal := df_seal f;
                      df_pend := None; df_dir := true; df_size := df_size f |}
         end)].

Definition crash_disk (c : crash_choice) (d : disk) : disk :=
  {| dk_files := flat_map (crash_file c) (dk_files d); dk_meta := dk_meta d;
     dk_stable := dk_stable d; dk_inited := dk_inited d |}.

(* ------------------------------------------------------------------ *)
(* process state                                                        *)
Record wseg := {               (* segment writer (types.SegmentWriter)          *)
  ws_name : fname;
  ws_base : N; ws_min : N;     (* info the writer was created / recovered with  *)
  ws_limit : N;
  ws_n : N;                    (* number of entries (len offsets)               *)
  ws_off : N;                  (* writeOffset                                   *)
  ws_hdr : bool;               (* file header still buffered (nothing committed)*)
  ws_index_start : N;
  ws_commit_idx : N }.

Record metrics := { m_bytes_written : N; m_entries_written : N; m_appends : N;
                    m_bytes_read : N; m_entries_read : N; m_rotations : N;
                    m_head_trunc : N; m_tail_trunc : N; m_stable_gets : N; m_stable_sets : N }.
Definition zero_metrics : metrics :=
  {| m_bytes_written := 0; m_entries_written := 0; m_appends := 0; m_bytes_read := 0;
     m_entries_read := 0; m_rotations := 0; m_head_trunc := 0; m_tail_trunc := 0;
     m_stable_gets := 0; m_stable_sets := 0 |}.

Record cfg := { c_seg_size : N; c_codec : N }.

Record wal := {
  st_next_id : N;
  st_segs : list seginfo;            (* sorted by BaseIndex *)
  st_tail : option wseg;
  st_rotate : option N;              (* rotation triggered, not yet run (indexStart) *)
  st_failed : bool;
  st_closed : bool }.

Inductive result :=
| ROk | RErrClosed | RErrNotFound | RErrNonMono | RErrMiddle | RErrSealed | RErrTooBig
| RErrCorrupt | RErrIO | RErrFailed | RErrOther
| RVal (v : N) | RLog (l : log) | RBytes (b : bytes).

(* fault modes.  They are only in force while a counted fault is armed
   (e_fault <> None): with e_fault = None every function below behaves as if
   e_fx = fx_none (this is what keeps the fault-free developments untouched).
     fx_del    every segment-file deletion fails (the file stays; the WAL only logs it)
     fx_list   the next directory listing (Open) fails; one-shot
     fx_leave  a file creation hit by the counted fault leaves the empty,
               not preallocated file behind (fs.Create: O_EXCL open succeeded,
               preallocation failed)
     fx_land   a metadata commit or stable write hit by the counted fault reports
               the failure although its effect reached the disk (bbolt: the meta
               page is written, the last fdatasync fails) *)
Record fxmode := { fx_del : bool; fx_list : bool; fx_leave : bool; fx_land : bool }.
Definition fx_none : fxmode := {| fx_del := false; fx_list := false; fx_leave := false; fx_land := false |}.

Record env := { e_acts : list act;            (* history, newest first *)
                e_disk : disk;
                e_fault : option nat;         (* successful I/O actions left before one fails *)
                e_fx : fxmode;
                e_m : metrics }.

Definition armed (e : env) : bool := match e_fault e with Some _ => true | None => false end.

(* one I/O action; false = it failed (and had no effect, unless it is a BoltDB
   transaction under fx_land) *)
Definition is_txn (a : act) : bool := match a with ACommit _ | ASetStable _ _ => true | _ => false end.
Definition is_delete (a : act) : bool := match a with ADelete _ => true | _ => false end.

(* Deletions are exempt from the counted fault: the WAL issues them in Go map
   order, so which of several deletions a count would hit is not deterministic.
   Instead, while a fault is armed and the mode fx_del is set, every deletion
   fails (the file stays, the count is not used up). *)
Definition io (a : act) (e : env) : bool * env :=
  if is_delete a then
    if armed e && fx_del (e_fx e) then
      (false, {| e_acts := AFail a :: e_acts e; e_disk := e_disk e; e_fault := e_fault e; e_fx := e_fx e; e_m := e_m e |})
    else
    (true, {| e_acts := a :: e_acts e; e_disk := apply_act (e_disk e) a;
              e_fault := e_fault e; e_fx := e_fx e; e_m := e_m e |})
  else
  match e_fault e with
  | Some O =>
      if is_txn a && fx_land (e_fx e) then
        (* reported as failed, then found applied *)
        (false, {| e_acts := a :: AFail a :: e_acts e; e_disk := apply_act (e_disk e) a; e_fault := None;
                   e_fx := e_fx e; e_m := e_m e |})
      else
      (false, {| e_acts := AFail a :: e_acts e; e_disk := e_disk e; e_fault := None; e_fx := e_fx e; e_m := e_m e |})
  | Some (S n) => (true, {| e_acts := a :: e_acts e; e_disk := apply_act (e_disk e) a;
                            e_fault := Some n; e_fx := e_fx e; e_m := e_m e |})
  | None => (true, {| e_acts := a :: e_acts e; e_disk := apply_act (e_disk e) a;
                      e_fault := None; e_fx := e_fx e; e_m := e_m e |})
  end.

Definition with_m (e : env) (m : metrics) : env :=
  {| e_acts := e_acts e; e_disk := e_disk e; e_fault := e_fault e; e_fx := e_fx e; e_m := m |}.

(* ------------------------------------------------------------------ *)
(* sorted segment map (immutable.SortedMap keyed by BaseIndex)          *)
Fixpoint seg_set (si : seginfo) (l : list seginfo) : list seginfo :=
  match l with
  | [] => [si]
  | x :: r => if si_base si <? si_base x then si :: l
              else if si_base si =? si_base x then si :: r
              else x :: seg_set si r
  end.
Fixpoint seg_del (base : N) (l : list seginfo) : list seginfo :=
  match l with
  | [] => []
  | x :: r => if si_base x =? base then r else x :: seg_del base r
  end.
Definition tail_info (l : list seginfo) : option seginfo := last (map Some l) None.

Definition tail_last (t : option wseg) : N :=
  match t with Some w => ws_commit_idx w | None => 0 end.

(* state.firstIndex / state.lastIndex *)
Definition first_index (segs : list seginfo) (t : option wseg) : N :=
  match segs with
  | [] => 0
  | s :: _ => if negb (si_sealed s) && (tail_last t =? 0) then 0 else si_min s
  end.

Definition last_index (segs : list seginfo) (t : option wseg) : N :=
  if 0 <? tail_last t then tail_last t
  else match rev segs with
       | tl :: _ :: _ => if si_base tl =? 0 then 0 else si_base tl - 1
       | _ => 0
       end.

(* findSegmentReader: Seek(idx); Prev; maybe Prev again *)
Fixpoint seek_split (idx : N) (before : list seginfo) (l : list seginfo)
  : list seginfo * list seginfo :=         (* (reversed prefix with base < idx, rest) *)
  match l with
  | [] => (before, [])
  | x :: r => if idx <=? si_base x then (before, l) else seek_split idx (x :: before) r
  end.

Definition find_segment (segs : list seginfo) (idx : N) : option seginfo :=
  match seek_split idx [] segs with
  | (_, []) => None                                    (* iterator done: Prev returns !ok *)
  | (before, x :: _) =>
      let cand := if idx <? si_base x then (match before with p :: _ => Some p | [] => None end)
                  else Some x in
      match cand with
      | Some s => if (si_min s <=? idx) && ((si_max s =? 0) || (idx <=? si_max s)) then Some s else None
      | None => None
      end
  end.

(* ------------------------------------------------------------------ *)
(* segment operations over the abstract disk                            *)
Definition enc_len (l : log) : N :=
  match encode_log l with Some b => len b | None => 0 end.
Definition frames_size (ls : list log) : N :=
  fold_left (fun a l => a + enc_frame_size (enc_len l)) ls 0.

Definition new_wseg (si : seginfo) : wseg :=
  {| ws_name := name_of si; ws_base := si_base si; ws_min := si_min si; ws_limit := si_size_limit si;
     ws_n := 0; ws_off := 0; ws_hdr := true; ws_index_start := 0; ws_commit_idx := 0 |}.

(* the failed creation left the directory entry of an empty file behind *)
Definition leave_entry (n : fname) (e : env) : env :=
  {| e_acts := e_acts e; e_disk := apply_act (e_disk e) (ACreate n 0); e_fault := e_fault e; e_fx := e_fx e; e_m := e_m e |}.

(* Filer.Create *)
Definition seg_create (si : seginfo) (e : env) : option wseg * env :=
  if si_base si =? 0 then (None, e)
  else match lookup (name_of si) (dk_files (e_disk e)) with
       | Some _ => (* O_EXCL: the name exists *)
           let '(_, e') := io (AFail (ACreate (name_of si) (si_size_limit si))) e in (None, e')
       | None =>
           let '(ok, e') := io (ACreate (name_of si) (si_size_limit si)) e in
           if ok then (Some (new_wseg si), e')
           else (None, if fx_leave (e_fx e) then leave_entry (name_of si) e' else e')
       end.

(* Writer.Append for already encoded logs: (result, writer) *)
Definition seg_append (w : wseg) (ls : list log) (e : env) : result * wseg * env :=
  match ls with
  | [] => (ROk, w, e)
  | l0 :: _ =>
      if 0 <? ws_index_start w then (RErrSealed, w, e)
      else if existsb (fun l => MaxEntrySize <? enc_len l) ls then (RErrTooBig, w, e)
      else if negb (l_index l0 =? ws_base w + ws_n w) then (RErrNonMono, w, e)
      else
        let n' := ws_n w + llen ls in
        let buf := (if ws_hdr w then 32 else 0) + frames_size ls in
        let seal := ws_limit w <? (ws_off w + (buf + index_frame_size n') mod two32) mod two32 in
        let buf2 := if seal then buf + index_frame_size n' else buf in
        let istart := if seal then ws_off w + buf + 8 else 0 in
        let total := buf2 + 8 in
        let last := ws_base w + n' - 1 in
        let b := {| pb_ents := ls; pb_end := (ws_off w + total) mod two32; pb_seal := istart |} in
        let '(ok1, e1) := io (AWrite (ws_name w) (ws_off w) total b) e in
        if negb ok1 then (RErrIO, w, e1)
        else let '(ok2, e2) := io (ASync (ws_name w)) e1 in
             if negb ok2 then (RErrIO, w, e2)
             else (ROk, {| ws_name := ws_name w; ws_base := ws_base w; ws_min := ws_min w;
                           ws_limit := ws_limit w; ws_n := n'; ws_off := (ws_off w + total) mod two32;
                           ws_hdr := false; ws_index_start := istart; ws_commit_idx := last |}, e2)
  end.

(* Writer.ForceSeal *)
Definition seg_force_seal (w : wseg) (e : env) : result * wseg * env :=
  if 0 <? ws_index_start w then (ROk, w, e)
  else if ws_n w =? 0 then (RErrOther, w, e)
  else
    let buf := (if ws_hdr w then 32 else 0) + index_frame_size (ws_n w) in
    let istart := ws_off w + (if ws_hdr w then 32 else 0) + 8 in
    let total := buf + 8 in
    let b := {| pb_ents := []; pb_end := (ws_off w + total) mod two32; pb_seal := istart |} in
    let '(ok1, e1) := io (AWrite (ws_name w) (ws_off w) total b) e in
    if negb ok1 then (RErrIO, w, e1)
    else let '(ok2, e2) := io (ASync (ws_name w)) e1 in
         if negb ok2 then (RErrIO, w, e2)
         else (ROk, {| ws_name := ws_name w; ws_base := ws_base w; ws_min := ws_min w;
                       ws_limit := ws_limit w; ws_n := ws_n w; ws_off := (ws_off w + total) mod two32;
                       ws_hdr := false; ws_index_start := istart;
                       ws_commit_idx := ws_base w + ws_n w - 1 |}, e2).

(* Filer.RecoverTail on a file of the (crashed or restarted) disk *)
Definition seg_recover (si : seginfo) (e : env) : option (option wseg) :=
  (* None = file missing; Some None = error; Some (Some w) *)
  match lookup (name_of si) (dk_files (e_disk e)) with
  | None => None
  | Some f =>
      let ents := cur_ents f in
      let n := llen ents in
      Some (Some {| ws_name := name_of si; ws_base := si_base si; ws_min := si_min si;
                    ws_limit := si_size_limit si; ws_n := n; ws_off := cur_end f;
                    ws_hdr := (cur_end f =? 0); ws_index_start := cur_seal f;
                    ws_commit_idx := if n =? 0 then 0 else si_base si + n - 1 |})
  end.

(* read entry idx of the file of a segment *)
Definition seg_read (n : fname) (base : N) (idx : N) (d : disk) : option log :=
  match lookup n (dk_files d) with
  | None => None
  | Some f => nth_error (cur_ents f) (N.to_nat (idx - base))
  end.

(* ------------------------------------------------------------------ *)
(* WAL operations                                                       *)
Definition new_segment (c : cfg) (id base : N) : seginfo :=
  {| si_id := id; si_base := base; si_min := base; si_max := 0; si_codec := c_codec c;
     si_index_start := 0; si_sealed := false; si_size_limit := c_seg_size c mod two32 |}.

Definition persistent (w : wal) : pstate := {| ps_next_id := st_next_id w; ps_segs := st_segs w |}.

Definition delete_files (ns : list fname) (e : env) : env :=
  fold_left (fun e n => snd (io (ADelete n) e)) ns e.

(* a state transaction: new (next_id, segs), files to delete afterwards, optional
   segment to create after the commit *)
Record txn := { tx_next_id : N; tx_segs : list seginfo; tx_delete : list fname;
                tx_create : option seginfo; tx_tail : option wseg }.

(* createNextSegment *)
Definition create_next (c : cfg) (next_id : N) (segs : list seginfo) (next_base : N)
  : N * list seginfo * seginfo :=
  let base := match tail_info segs with
              | Some t => si_max t + 1
              | None => if 0 <? next_base then next_base else 1
              end in
  let si := new_segment c next_id (base mod two64) in
  ((next_id + 1) mod two64, seg_set si segs, si).

(* mutateStateLocked: commit, post-commit create, publish, finalize *)
Definition mutate_gen (defer : bool) (w : wal) (t : txn) (e : env) : result * wal * env * list fname :=
  let ps := {| ps_next_id := tx_next_id t; ps_segs := tx_segs t |} in
  let '(ok, e1) := io (ACommit ps) e in
  if negb ok then
    (* the outcome of a failed commit is unknown (it may have reached the disk): the
       WAL refuses writes until it is reopened *)
    (RErrIO, {| st_next_id := st_next_id w; st_segs := st_segs w; st_tail := st_tail w;
                st_rotate := st_rotate w; st_failed := true; st_closed := st_closed w |}, e1, [])
  else
    match tx_create t with
    | None =>
        let e2 := if defer then e1 else delete_files (tx_delete t) e1 in
        (ROk, {| st_next_id := tx_next_id t; st_segs := tx_segs t; st_tail := tx_tail t;
                 st_rotate := st_rotate w; st_failed := st_failed w; st_closed := st_closed w |}, e2,
         if defer then tx_delete t else [])
    | Some si =>
        let '(sw, e2) := seg_create si e1 in
        match sw with
        | None => (RErrIO, {| st_next_id := st_next_id w; st_segs := st_segs w; st_tail := st_tail w;
                              st_rotate := st_rotate w; st_failed := true; st_closed := st_closed w |}, e2, [])
        | Some sw =>
            let e3 := if defer then e2 else delete_files (tx_delete t) e2 in
            (ROk, {| st_next_id := tx_next_id t; st_segs := tx_segs t; st_tail := Some sw;
                     st_rotate := st_rotate w; st_failed := st_failed w; st_closed := st_closed w |}, e3,
             if defer then tx_delete t else [])
        end
    end.

Definition mutate (w : wal) (t : txn) (e : env) : result * wal * env :=
  let '(r, w', e', _) := mutate_gen false w t e in (r, w', e').

Definition add_m (e : env) (f : metrics -> metrics) : env := with_m e (f (e_m e)).

(* rotateSegmentLocked, run by the background goroutine *)
Definition rotate (c : cfg) (w : wal) (e : env) : wal * env :=
  match st_rotate w with
  | None => (w, e)
  | Some istart =>
      let w0 := {| st_next_id := st_next_id w; st_segs := st_segs w; st_tail := st_tail w;
                   st_rotate := None; st_failed := st_failed w; st_closed := st_closed w |} in
      if st_closed w then (w0, e)
      else
        let e0 := add_m e (fun m => {| m_bytes_written := m_bytes_written m; m_entries_written := m_entries_written m;
                                       m_appends := m_appends m; m_bytes_read := m_bytes_read m;
                                       m_entries_read := m_entries_read m; m_rotations := m_rotations m + 1;
                                       m_head_trunc := m_head_trunc m; m_tail_trunc := m_tail_trunc m;
                                       m_stable_gets := m_stable_gets m; m_stable_sets := m_stable_sets m |}) in
        match tail_info (st_segs w) with
        | None => (w0, e0)
        | Some t =>
            let t' := {| si_id := si_id t; si_base := si_base t; si_min := si_min t;
                         si_max := tail_last (st_tail w); si_codec := si_codec t;
                         si_index_start := istart; si_sealed := true; si_size_limit := si_size_limit t |} in
            let segs1 := seg_set t' (st_segs w) in
            let '(nid, segs2, si) := create_next c (st_next_id w) segs1 0 in
            let '(_, w', e') := mutate w0 {| tx_next_id := nid; tx_segs := segs2; tx_delete := [];
                                             tx_create := Some si; tx_tail := None |} e0 in
            (w', e')
        end
  end.

(* resetEmptyFirstSegmentBaseIndex *)
(* The old tail's files are closed and deleted by the finalizer of the state
   StoreLogs still holds a reference to, i.e. when StoreLogs returns: the
   deletions are handed back to the caller. *)
Definition reset_first (c : cfg) (w : wal) (new_base : N) (e : env) : result * wal * env * list fname :=
  if 0 <? last_index (st_segs w) (st_tail w) then (RErrOther, w, e, [])
  else match tail_info (st_segs w) with
       | Some t =>
           if si_base t =? new_base then
             mutate_gen true w {| tx_next_id := st_next_id w; tx_segs := st_segs w; tx_delete := [];
                                  tx_create := None; tx_tail := st_tail w |} e
           else
             let segs1 := seg_del (si_base t) (st_segs w) in
             let '(nid, segs2, si) := create_next c (st_next_id w) segs1 new_base in
             mutate_gen true w {| tx_next_id := nid; tx_segs := segs2; tx_delete := [name_of t];
                                  tx_create := Some si; tx_tail := None |} e
       | None =>
           let '(nid, segs2, si) := create_next c (st_next_id w) (st_segs w) new_base in
           mutate_gen true w {| tx_next_id := nid; tx_segs := segs2; tx_delete := [];
                                tx_create := Some si; tx_tail := None |} e
       end.

(* the monotonicity / encoding loop of StoreLogs *)
Fixpoint check_logs (last : N) (ls : list log) : result * N :=   (* result, total encoded bytes *)
  match ls with
  | [] => (ROk, 0)
  | l :: r =>
      if (0 <? last) && negb (l_index l =? (last + 1) mod two64) then (RErrNonMono, 0)
      else match encode_log l with
           | None => (RErrOther, 0)
           | Some b => let '(res, n) := check_logs (l_index l) r in (res, (len b + n) mod two64)
           end
  end.

Definition store_logs (c : cfg) (w : wal) (ls : list log) (e : env) : result * wal * env :=
  if st_closed w then (RErrClosed, w, e)
  else match ls with
  | [] => (ROk, w, e)
  | l0 :: _ =>
      if st_failed w then (RErrFailed, w, e)
      else
        let last := last_index (st_segs w) (st_tail w) in
        let go (w : wal) (e : env) : result * wal * env :=
            let '(res, nbytes) := check_logs last ls in
            match res with
            | ROk =>
                match st_tail w with
                | None => (RErrOther, w, e)
                | Some tw =>
                    let '(r, tw', e1) := seg_append tw ls e in
                    match r with
                    | ROk =>
                        let e2 := add_m e1 (fun m =>
                          {| m_bytes_written := (m_bytes_written m + nbytes) mod two64;
                             m_entries_written := m_entries_written m + llen ls;
                             m_appends := m_appends m + 1; m_bytes_read := m_bytes_read m;
                             m_entries_read := m_entries_read m; m_rotations := m_rotations m;
                             m_head_trunc := m_head_trunc m; m_tail_trunc := m_tail_trunc m;
                             m_stable_gets := m_stable_gets m; m_stable_sets := m_stable_sets m |}) in
                        (ROk, {| st_next_id := st_next_id w; st_segs := st_segs w; st_tail := Some tw';
                                 st_rotate := if 0 <? ws_index_start tw' then Some (ws_index_start tw') else None;
                                 st_failed := st_failed w; st_closed := st_closed w |}, e2)
                    | _ => (r, w, e1)
                    end
                end
            | _ => (res, w, e)
            end in
        match tail_info (st_segs w) with
        | None => (RErrOther, w, e)
        | Some ti =>
            if (last =? 0) && negb (l_index l0 =? si_base ti) then
              let '(r, w1, e1, dels) := reset_first c w (l_index l0) e in
              match r with
              | ROk => let '(r2, w2, e2) := go w1 e1 in (r2, w2, delete_files dels e2)
              | _ => (r, w1, e1)
              end
            else go w e
        end
  end.

(* truncateHeadLocked *)
Fixpoint head_scan (new_min : N) (tl : N) (segs : list seginfo) (del : list fname) (ntr : N)
  : list seginfo * list fname * N * option seginfo :=
  (* remaining segs (head first if any), files to delete, nTruncated, head *)
  match segs with
  | [] => ([], del, ntr, None)
  | s :: r =>
      let max_idx := if si_sealed s then si_max s else tl in
      if new_min <=? max_idx then (segs, del, ntr, Some s)
      else head_scan new_min tl r (del ++ [name_of s])
                     (if si_min s <=? max_idx then (ntr + (max_idx - si_min s + 1)) mod two64 else ntr)
  end.

Definition truncate_head (c : cfg) (w : wal) (new_min : N) (e : env) : result * wal * env :=
  let old_last := last_index (st_segs w) (st_tail w) in
  (* for the unsealed tail maxIdx = lastIndex of the state with all earlier segments
     already removed, i.e. the tail's own last index *)
  let '(rest, del, ntr, head) := head_scan new_min (tail_last (st_tail w)) (st_segs w) [] 0 in
  match head with
  | Some h =>
      let ntr' := (ntr + sub64 new_min (si_min h)) mod two64 in
      let h' := {| si_id := si_id h; si_base := si_base h; si_min := new_min; si_max := si_max h;
                   si_codec := si_codec h; si_index_start := si_index_start h; si_sealed := si_sealed h;
                   si_size_limit := si_size_limit h |} in
      let e0 := add_m e (fun m => {| m_bytes_written := m_bytes_written m; m_entries_written := m_entries_written m;
                                     m_appends := m_appends m; m_bytes_read := m_bytes_read m;
                                     m_entries_read := m_entries_read m; m_rotations := m_rotations m;
                                     m_head_trunc := (m_head_trunc m + ntr') mod two64; m_tail_trunc := m_tail_trunc m;
                                     m_stable_gets := m_stable_gets m; m_stable_sets := m_stable_sets m |}) in
      mutate w {| tx_next_id := st_next_id w; tx_segs := seg_set h' rest; tx_delete := del;
                  tx_create := None; tx_tail := st_tail w |} e0
  | None =>
      let '(nid, segs2, si) := create_next c (st_next_id w) [] ((old_last + 1) mod two64) in
      let e0 := add_m e (fun m => {| m_bytes_written := m_bytes_written m; m_entries_written := m_entries_written m;
                                     m_appends := m_appends m; m_bytes_read := m_bytes_read m;
                                     m_entries_read := m_entries_read m; m_rotations := m_rotations m;
                                     m_head_trunc := (m_head_trunc m + ntr) mod two64; m_tail_trunc := m_tail_trunc m;
                                     m_stable_gets := m_stable_gets m; m_stable_sets := m_stable_sets m |}) in
      mutate w {| tx_next_id := nid; tx_segs := segs2; tx_delete := del;
                  tx_create := Some si; tx_tail := None |} e0
  end.

(* truncateTailLocked *)
Fixpoint tail_scan (new_max : N) (lastidx : N) (rsegs : list seginfo) (del : list fname) (ntr : N)
  : list seginfo * list fname * N :=      (* reversed remaining, deletes, nTruncated *)
  match rsegs with
  | [] => ([], del, ntr)
  | s :: r =>
      if si_base s <=? new_max then (rsegs, del, ntr)
      else let max_idx := if si_sealed s then si_max s else lastidx in
           tail_scan new_max lastidx r (del ++ [name_of s]) ((ntr + sub64 max_idx (si_min s) + 1) mod two64)
  end.

Definition truncate_tail (c : cfg) (w : wal) (new_max : N) (e : env) : result * wal * env :=
  let lastidx := last_index (st_segs w) (st_tail w) in
  let '(rrest, del, ntr) := tail_scan new_max lastidx (rev (st_segs w)) [] 0 in
  let finish (t' : seginfo) (ntr' : N) (rest : list seginfo) (tw : option wseg) (e : env) :=
      let segs1 := seg_set t' rest in
      let '(nid, segs2, si) := create_next c (st_next_id w) segs1 0 in
      let e0 := add_m e (fun m => {| m_bytes_written := m_bytes_written m; m_entries_written := m_entries_written m;
                                     m_appends := m_appends m; m_bytes_read := m_bytes_read m;
                                     m_entries_read := m_entries_read m; m_rotations := m_rotations m;
                                     m_head_trunc := m_head_trunc m; m_tail_trunc := (m_tail_trunc m + ntr') mod two64;
                                     m_stable_gets := m_stable_gets m; m_stable_sets := m_stable_sets m |}) in
      mutate {| st_next_id := st_next_id w; st_segs := st_segs w; st_tail := tw; st_rotate := st_rotate w;
                st_failed := st_failed w; st_closed := st_closed w |}
             {| tx_next_id := nid; tx_segs := segs2; tx_delete := del; tx_create := Some si; tx_tail := None |} e0 in
  match rrest with
  | [] =>
      let '(nid, segs2, si) := create_next c (st_next_id w) [] 0 in
      mutate w {| tx_next_id := nid; tx_segs := segs2; tx_delete := del; tx_create := Some si; tx_tail := None |} e
  | t :: _ =>
      let rest := rev rrest in
      if si_sealed t then
        let t' := {| si_id := si_id t; si_base := si_base t; si_min := si_min t; si_max := new_max;
                     si_codec := si_codec t; si_index_start := si_index_start t; si_sealed := true;
                     si_size_limit := si_size_limit t |} in
        finish t' ((ntr + sub64 (si_max t) new_max) mod two64) rest (st_tail w) e
      else
        match st_tail w with
        | None => (RErrOther, w, e)
        | Some tw =>
            let '(r, tw', e1) := seg_force_seal tw e in
            match r with
            | ROk =>
                let t' := {| si_id := si_id t; si_base := si_base t; si_min := si_min t; si_max := new_max;
                             si_codec := si_codec t; si_index_start := ws_index_start tw'; si_sealed := true;
                             si_size_limit := si_size_limit t |} in
                finish t' ((ntr + sub64 lastidx new_max) mod two64) rest (Some tw') e1
            | _ => (r, {| st_next_id := st_next_id w; st_segs := st_segs w; st_tail := Some tw';
                          st_rotate := st_rotate w; st_failed := st_failed w; st_closed := st_closed w |}, e1)
            end
        end
  end.

Definition delete_range (c : cfg) (w : wal) (mn mx : N) (e : env) : result * wal * env :=
  if st_closed w then (RErrClosed, w, e)
  else if mx <? mn then (ROk, w, e)
  else if st_failed w then (RErrFailed, w, e)
  else
    let first := first_index (st_segs w) (st_tail w) in
    let last := last_index (st_segs w) (st_tail w) in
    if (mx <? first) || (last <? mn) then (ROk, w, e)
    else if mn <=? first then truncate_head c w ((mx + 1) mod two64) e
    else if last <=? mx then truncate_tail c w (mn - 1) e
    else (RErrMiddle, w, e).

(* what GetLog hands back: the stored bytes decoded by the codec *)
Definition codec_view (l : log) : log :=
  match encode_log l with
  | Some b => match decode_log b with Some l' => l' | None => l end
  | None => l
  end.

(* GetLog *)
Definition inc_read (e : env) (nbytes : N) (found : bool) : env :=
  add_m e (fun m => {| m_bytes_written := m_bytes_written m; m_entries_written := m_entries_written m;
                       m_appends := m_appends m;
                       m_bytes_read := if found then (m_bytes_read m + nbytes) mod two64 else m_bytes_read m;
                       m_entries_read := m_entries_read m + 1; m_rotations := m_rotations m;
                       m_head_trunc := m_head_trunc m; m_tail_trunc := m_tail_trunc m;
                       m_stable_gets := m_stable_gets m; m_stable_sets := m_stable_sets m |}).

Definition tail_lookup (t : wseg) (idx : N) (d : disk) : option log :=
  if (idx <? ws_base t) || (idx <? ws_min t) || (ws_commit_idx t <? idx) then None
  else seg_read (ws_name t) (ws_base t) idx d.

Definition get_log (w : wal) (idx : N) (e : env) : result * env :=
  if st_closed w then (RErrClosed, e)
  else
    let from_tail :=
        match st_tail w, tail_info (st_segs w) with
        | Some t, Some ti => if si_min ti <=? idx then tail_lookup t idx (e_disk e) else None
        | Some t, None => tail_lookup t idx (e_disk e)
        | None, _ => None
        end in
    match from_tail with
    | Some l => (RLog (codec_view l), inc_read e (enc_len l) true)
    | None =>
        match find_segment (st_segs w) idx with
        | None => (RErrNotFound, inc_read e 0 false)
        | Some s =>
            (* the reader of a listed segment: a sealed reader or the writer object *)
            let is_tail := match st_tail w with
                           | Some t => fname_eqb (ws_name t) (name_of s)
                           | None => false
                           end in
            let r := if is_tail
                     then match st_tail w with Some t => tail_lookup t idx (e_disk e) | None => None end
                     else seg_read (name_of s) (si_base s) idx (e_disk e) in
            match r with
            | Some l => (RLog (codec_view l), inc_read e (enc_len l) true)
            | None => (RErrNotFound, inc_read e 0 false)
            end
        end
    end.

Definition first_index_op (w : wal) : result :=
  if st_closed w then RErrClosed else RVal (first_index (st_segs w) (st_tail w)).
Definition last_index_op (w : wal) : result :=
  if st_closed w then RErrClosed else RVal (last_index (st_segs w) (st_tail w)).

(* StableStore *)
Definition inc_stable (e : env) (is_set : bool) : env :=
  add_m e (fun m => {| m_bytes_written := m_bytes_written m; m_entries_written := m_entries_written m;
                       m_appends := m_appends m; m_bytes_read := m_bytes_read m;
                       m_entries_read := m_entries_read m; m_rotations := m_rotations m;
                       m_head_trunc := m_head_trunc m; m_tail_trunc := m_tail_trunc m;
                       m_stable_gets := if is_set then m_stable_gets m else m_stable_gets m + 1;
                       m_stable_sets := if is_set then m_stable_sets m + 1 else m_stable_sets m |}).

(* BoltDB limits: key 1..32768 bytes *)
Definition key_ok (k : bytes) : bool := (0 <? len k) && (len k <=? 32768).

(* is_nil: the Go value was nil (bolt Delete) rather than a possibly empty slice (bolt Put) *)
Definition set_stable (w : wal) (k v : bytes) (is_nil : bool) (e : env) : result * env :=
  if st_closed w then (RErrClosed, e)
  else let e0 := inc_stable e true in
       if negb (key_ok k) then
         (* Put rejects the key; Delete of a missing/empty key is accepted by bolt *)
         (if is_nil then ROk else RErrOther, e0)
       else let '(ok, e1) := io (ASetStable k v) e0 in
            if ok then (ROk, e1) else (RErrIO, e1).

Definition get_stable (w : wal) (k : bytes) (e : env) : result * env :=
  if st_closed w then (RErrClosed, e)
  else (RBytes (kv_get k (dk_stable (e_disk e))), inc_stable e false).

Definition set_uint64 (w : wal) (k : bytes) (v : N) (e : env) : result * env :=
  set_stable w k (le64 v) false e.
Definition get_uint64 (w : wal) (k : bytes) (e : env) : result * env :=
  let '(r, e') := get_stable w k e in
  match r with
  | RBytes b => if len b =? 0 then (RVal 0, e')
                else if negb (len b =? 8) then (RErrOther, e')
                else (RVal (rd64 b), e')
  | _ => (r, e')
  end.

Definition close (w : wal) : wal :=
  {| st_next_id := st_next_id w; st_segs := st_segs w; st_tail := st_tail w; st_rotate := None;
     st_failed := st_failed w; st_closed := true |}.

(* ------------------------------------------------------------------ *)
(* Open                                                                 *)
Inductive open_res := OOk (w : wal) | OErr (r : result).

Fixpoint open_segs (c : cfg) (segs : list seginfo) (acc : list seginfo) (e : env)
  : result * list seginfo * option wseg * env :=
  (* walks persisted segments; returns listed state, recovered tail (if any) *)
  match segs with
  | [] => (ROk, rev_append acc [], None, e)
  | si :: r =>
      if negb (si_codec si =? c_codec c) then (RErrOther, rev_append acc [], None, e)
      else if negb (si_sealed si) then
        match r with
        | _ :: _ => (RErrOther, rev_append acc [], None, e)   (* unsealed segment is not at tail *)
        | [] =>
            let rec := seg_recover si e in
            let '(sw, e1) := match rec with
                             | None => seg_create si e            (* os.ErrNotExist: re-create *)
                             | Some x => (x, e)
                             end in
            match sw with
            | None => (RErrIO, rev_append acc [], None, e1)
            | Some sw =>
                if 0 <? ws_index_start sw then
                  (* interrupted rotation: record as sealed, a new tail is created by the caller *)
                  let si' := {| si_id := si_id si; si_base := si_base si; si_min := si_min si;
                                si_max := ws_commit_idx sw; si_codec := si_codec si;
                                si_index_start := ws_index_start sw; si_sealed := true;
                                si_size_limit := si_size_limit si |} in
                  (ROk, rev_append acc [si'], None, e1)
                else (ROk, rev_append acc [si], Some sw, e1)
            end
        end
      else
        (* sealed: Filer.Open needs the file and a committed header *)
        match lookup (name_of si) (dk_files (e_disk e)) with
        | None => (RErrIO, rev_append acc [], None, e)
        | Some f => if cur_end f =? 0 then (RErrCorrupt, rev_append acc [], None, e)
                    else open_segs c r (si :: acc) e
        end
  end.

Definition listed (segs : list seginfo) (n : fname) : bool :=
  existsb (fun s => fname_eqb (name_of s) n) segs.

Definition list_failed (e : env) : env :=
  {| e_acts := AFail AList :: e_acts e; e_disk := e_disk e; e_fault := e_fault e;
     e_fx := {| fx_del := fx_del (e_fx e); fx_list := false; fx_leave := fx_leave (e_fx e); fx_land := fx_land (e_fx e) |};
     e_m := e_m e |}.

Definition open_wal (c : cfg) (e : env) : open_res * env :=
  if negb (FirstExternalCodecID <=? c_codec c) && negb (c_codec c =? BinaryCodecID) then (OErr RErrOther, e)
  else
    (* MetaStore.Load initialises the database when it does not exist *)
    let '(ok0, e0) := if dk_inited (e_disk e) then (true, e) else io AInitMeta e in
    if negb ok0 then (OErr RErrIO, e0)
    else if armed e0 && fx_list (e_fx e0) then
      (* SegmentFiler.List fails (one-shot): Open gives up after MetaStore.Load *)
      (OErr RErrIO, list_failed e0)
    else
      let ps := match dk_meta (e_disk e0) with
                | Some ps => ps
                | None => {| ps_next_id := 0; ps_segs := [] |}
                end in
      let on_disk := map fst (dk_files (e_disk e0)) in
      let '(r, segs, tail, e1) := open_segs c (ps_segs ps) [] e0 in
      match r with
      | ROk =>
          let garbage := filter (fun n => negb (listed (ps_segs ps) n)) on_disk in
          match tail with
          | Some tw =>
              let e2 := delete_files garbage e1 in
              (OOk {| st_next_id := ps_next_id ps; st_segs := segs; st_tail := Some tw;
                      st_rotate := None; st_failed := false; st_closed := false |}, e2)
          | None =>
              let base := match tail_info segs with Some t => (si_max t + 1) mod two64 | None => 1 end in
              let si := new_segment c (ps_next_id ps) base in
              let nid := (ps_next_id ps + 1) mod two64 in
              let segs' := seg_set si segs in
              let '(ok1, e2) := io (ACommit {| ps_next_id := nid; ps_segs := segs' |}) e1 in
              if negb ok1 then (OErr RErrIO, e2)
              else let '(sw, e3) := seg_create si e2 in
                   match sw with
                   | None => (OErr RErrIO, e3)
                   | Some sw =>
                       let e4 := delete_files garbage e3 in
                       (OOk {| st_next_id := nid; st_segs := segs'; st_tail := Some sw;
                               st_rotate := None; st_failed := false; st_closed := false |}, e4)
                   end
          end
      | _ => (OErr r, e1)
      end.
