(* FaultFacts3.v -- what the next recovery reads off a disk whose tail file
   carries a stale unsynced batch: the nominal log with that batch appended. *)
From RW Require Import Base.Bytes Base.BytesFacts Fmt.Codec Fmt.CodecFacts Fmt.Frame Wal.Model Wal.Spec Wal.Hist Wal.FaultHist
  Wal.CrashInv Wal.CrashFacts0 Wal.CrashFacts1 Wal.CrashFacts2 Wal.CrashFacts3 Wal.CrashFacts4 Wal.CrashFacts5
  Wal.CrashFacts6 Wal.CrashGlue Wal.CrashCalls1 Wal.CrashCalls2 Wal.CrashCalls3 Wal.CrashCalls4 Wal.CrashCalls6
  Wal.CrashCalls7 Wal.CrashCalls8 Wal.CrashCalls9 Wal.FaultSim Wal.FaultSim2 Wal.FaultInv Wal.FaultFacts2 Gen.Constants.
From Coq Require Import ZifyN ZifyNat ZifyBool.
Open Scope N_scope.

Lemma adopt_nopend_sh g : df_pend g = None -> dirfix_file (adopt_file g) = sh_file g.
Proof. intros H. unfold adopt_file. rewrite H. unfold dirfix_file, sh_file. rewrite H. reflexivity. Qed.

Lemma map_adopt_sh l : (forall m g, In (m, g) l -> df_pend g = None) ->
  map (fun nf : fname * dfile => (fst nf, dirfix_file (adopt_file (snd nf)))) l =
  map (fun nf : fname * dfile => (fst nf, sh_file (snd nf))) l.
Proof.
  intros H. apply map_ext_in. intros [m g] Hin. cbn [fst snd]. rewrite adopt_nopend_sh; [reflexivity|]. apply (H m g Hin).
Qed.

Lemma map_update_stale n f : forall l, NoDup (map fst l) -> lookup n l = Some f ->
  (forall m g, In (m, g) l -> m <> n -> df_pend g = None) ->
  map (fun nf : fname * dfile => (fst nf, dirfix_file (adopt_file (snd nf)))) l =
  update n (dirfix_file (adopt_file f)) (map (fun nf : fname * dfile => (fst nf, sh_file (snd nf))) l).
Proof.
  induction l as [|[m g] r IH]; intros ND Hl Hst; [discriminate|].
  cbn [map fst snd update lookup] in *. inversion ND as [|? ? Hn NDr]; subst.
  destruct (fname_eqb n m) eqn:E.
  - apply fname_eqb_eq in E. subst m. inversion Hl; subst g. f_equal. apply map_adopt_sh.
    intros m g Hin. apply (Hst m g (or_intror Hin)). intros ->. apply Hn. apply in_map_iff. exists (n, g). auto.
  - f_equal.
    + rewrite adopt_nopend_sh; [reflexivity|]. apply (Hst m g (or_introl eq_refl)). apply fname_eqb_neq in E. congruence.
    + apply IH; auto. intros m' g' Hin. apply (Hst m' g' (or_intror Hin)).
Qed.

Lemma ad_files_stale n f d : NoDup (map fst (dk_files d)) -> stale_ok (Some n) d -> lookup n (dk_files d) = Some f ->
  dk_files (ad d) = update n (dirfix_file (adopt_file f)) (dk_files (sh d)).
Proof.
  intros ND Hso Hl. unfold ad, dirfix, sh. rewrite adopt_is_map, map_files_comp. cbn [map_files dk_files].
  apply map_update_stale; auto. intros m g Hin Hne. destruct (df_pend g) eqn:E; [|reflexivity]. exfalso.
  assert (K : Some n = Some m) by (apply (Hso m g); [apply In_lookup; assumption|congruence]). congruence.
Qed.

Lemma spec_accepts_step a o a' : spec_accepts a o = Some a' -> a' = snd (step_spec a o).
Proof. unfold spec_accepts. destruct (step_spec a o) as [r x]. destruct r; intros E; inversion E; reflexivity. Qed.

(* ---- the reading of the adopted disk ---- *)
Lemma live_RD c nb w d alts defer :
  Live c nb w d defer -> In (sp_of (sh d)) alts -> RD c nb d alts defer.
Proof.
  intros (HL & Hst) Hin. pose proof (LInv_NoDup_sh _ _ _ _ HL) as ND.
  destruct Hst as [Hn|(t & f & p & Ht & Hf & Hp & Hso & Hsb)]; [eapply RD_of_clean; eauto|].
  destruct (LInv_view _ _ _ _ HL) as (S & t' & f0 & tw & V).
  assert (t' = t). { rewrite (lv_segs _ _ _ _ _ _ _ _ V), tail_info_app in Ht. inversion Ht. reflexivity. } subst t'.
  assert (Hf0 : f0 = sh_file f).
  { pose proof (lv_file _ _ _ _ _ _ _ _ V) as K. unfold sh in K. rewrite lookup_map_files, Hf in K. cbn in K. inversion K. reflexivity. }
  destruct Hsb as (Hse & Hne & Hfz & Hbd & Hls).
  set (pe := pb_ents p) in *.
  set (f' := dirfix_file (adopt_file f)).
  assert (Ef' : df_ents f' = df_ents f ++ pe /\ df_end f' = pb_end p /\ df_seal f' = pb_seal p /\ df_pend f' = None /\ df_dir f' = true).
  { unfold f', adopt_file. rewrite Hp. cbn. auto. }
  destruct Ef' as (F1 & F2 & F3 & F4 & F5).
  pose proof (ad_files_stale _ _ _ ND Hso Hf) as Hfiles. fold f' in Hfiles.
  pose proof (lv_dis _ _ _ _ _ _ _ _ V) as HD. pose proof (lv_meta _ _ _ _ _ _ _ _ V) as Hm.
  pose proof (lv_tok _ _ _ _ _ _ _ _ V) as Htok. pose proof (lv_twf V) as (_ & _ & Hb1 & _ & Hbm & _).
  pose proof (lv_min_cond V) as Hmc. rewrite Hf0 in Hmc. cbn [sh_file df_ents] in Hmc.
  assert (Htok' : tail_ok c (ad d) t).
  { destruct Htok as (Hu & _). split; [exact Hu|]. rewrite Hfiles, lookup_update_eq.
    unfold cur_ents, cur_end, cur_seal. rewrite F1, F2, F3, F4, F5.
    split; [exact Hfz|]. split; [exact Hfz|]. split; [discriminate|]. split; [reflexivity|].
    split; [|exact Hbd]. rewrite llen_app. destruct (llen (df_ents f) =? 0) eqn:Z.
    - destruct (llen (df_ents f) + llen pe =? 0) eqn:Z2; [exact Hmc|lia].
    - replace (llen (df_ents f) + llen pe =? 0) with false by lia. lia. }
  assert (HD' : DIs c nb (ad d)).
  { eapply (DIs_update_tail c nb (sh d) (ad d) _ S t f' HD Hm eq_refl Hfiles eq_refl Htok'). }
  split; [exact HD'|].
  assert (Hm' : dk_meta (ad d) = Some {| ps_next_id := st_next_id w; ps_segs := S ++ [t] |}) by exact Hm.
  assert (Hrd : dread (ad d) = slog_of (hd_min S t) (lv_es (sh d) S t f0 ++ pe)).
  { rewrite (dread_decomp c nb (ad d) _ S t HD' Hm' eq_refl).
    rewrite (sealed_es_update (sh d) (ad d) S t f' Hfiles); [|intros s Hs; eapply (DIs_sealed_neq c nb (sh d) _ S t s HD Hm eq_refl Hs)].
    unfold tail_es, file_ents. rewrite Hfiles, lookup_update_eq. unfold cur_ents. rewrite F4, F1.
    unfold lv_es. rewrite Hf0. cbn [sh_file df_ents]. rewrite skipn_app_le, app_assoc; [reflexivity|].
    unfold llen in Hmc. destruct (N.of_nat (length (df_ents f)) =? 0) eqn:Z; lia. }
  destruct (list_eq_dec_nil pe) as [Epe|Hpe].
  - (* an empty batch (a forced seal): the reading is the nominal one *)
    apply cand_alts. rewrite Epe, app_nil_r in Hrd.
    replace (sp_of (ad d)) with (sp_of (sh d)); [exact Hin|].
    unfold sp_of. rewrite Hrd, (lv_read _ _ _ _ _ _ _ _ V). reflexivity.
  - destruct (Hls Hpe) as (Hsop & Hdef & l0 & r & Epe & Hidx & Hcons).
    eapply (cand_defer alts defer (sp_of (sh d)) (OStore pe)); [exact Hin|exact Hdef|].
    unfold spec_accepts. cbn [step_spec sp_of sp_log sp_kv]. unfold spec_store. fold pe. rewrite Epe. rewrite <- Epe.
    rewrite Hcons. cbn [andb].
    destruct (lv_log_cases V) as [(Ees & ES & Elen & Edr & Emin)|(Ees & Edr & Elast & H2)].
    + rewrite Edr. cbn [sl_is_empty sl_empty sl_ents orb]. f_equal. unfold sp_of. rewrite Hrd, Ees. cbn [app].
      rewrite Epe. cbn [slog_of]. rewrite <- Epe. f_equal. f_equal. subst S. unfold hd_min. cbn [hd].
      rewrite Hf0 in Elen. cbn [sh_file df_ents] in Elen. lia.
    + rewrite Edr. assert (Hne' : sl_is_empty {| sl_first := hd_min S t; sl_ents := lv_es (sh d) S t f0 |} = false).
      { unfold sl_is_empty. cbn. destruct (lv_es (sh d) S t f0); [congruence|reflexivity]. }
      rewrite Hne'. cbn [orb]. rewrite Edr in Elast. rewrite Elast. rewrite Hf0. cbn [sh_file df_ents].
      replace (l_index l0 =? si_base t + llen (df_ents f) - 1 + 1) with true.
      2:{ symmetry. apply N.eqb_eq. rewrite Hf0 in H2. cbn [sh_file df_ents] in H2. lia. }
      cbn [sl_first sl_ents]. f_equal. unfold sp_of. rewrite Hrd. f_equal. rewrite <- Hf0.
      destruct (lv_es (sh d) S t f0) eqn:El; [congruence|]. reflexivity.
Qed.
