(* FaultFacts3.v -- what the next recovery reads off a disk whose tail file
   carries a stale unsynced batch: the nominal log with that batch appended. *)
From RW Require Import Base.Bytes Base.BytesFacts Fmt.Codec Fmt.CodecFacts Fmt.Frame Wal.Model Wal.Spec Wal.Hist Wal.FaultHist
  Wal.CrashInv Wal.CrashFacts0 Wal.CrashFacts1 Wal.CrashFacts2 Wal.CrashFacts3 Wal.CrashFacts4 Wal.CrashFacts5
  Wal.CrashFacts6 Wal.CrashGlue Wal.CrashCalls1 Wal.CrashCalls2 Wal.CrashCalls3 Wal.CrashCalls4 Wal.CrashCalls6
  Wal.CrashCalls7 Wal.CrashCalls8 Wal.CrashCalls9 Wal.FaultSim Wal.FaultSim2 Wal.FaultInv Wal.FaultFacts2 Gen.Constants.
From Coq Require Import ZifyN ZifyNat ZifyBool.
Open Scope N_scope.

Lemma adopt_nopend_sh g : df_pend g = None -> dirfix_file (adopt_file g) = sh_file g.
Proof. intros H. unfold adopt_file. rewrite H. unfold dirfix_file, sh_file. rewrite H. reflexivity. Qed.

Lemma map_adopt_sh l : (forall m g, In (m, g) l -> df_pend g = None) ->
  map (fun nf : fname * dfile => (fst nf, dirfix_file (adopt_file (snd nf)))) l =
  map (fun nf : fname * dfile => (fst nf, sh_file (snd nf))) l.
Proof.
  intros H. apply map_ext_in. intros [m g] Hin. cbn [fst snd]. rewrite adopt_nopend_sh; [reflexivity|]. apply (H m g Hin).
Qed.

Lemma ad_lookup n d : lookup n (dk_files (ad d)) = option_map (fun f => dirfix_file (adopt_file f)) (lookup n (dk_files d)).
Proof. unfold ad, dirfix. rewrite adopt_is_map, map_files_comp. apply lookup_map_files. Qed.

Lemma spec_accepts_step a o a' : spec_accepts a o = Some a' -> a' = snd (step_spec a o).
Proof. unfold spec_accepts. destruct (step_spec a o) as [r x]. destruct r; intros E; inversion E; reflexivity. Qed.

(* ---- the recovery view of a disk that agrees with a clean disk on the listed files ---- *)
Lemma RD_frame c nb d dm alts defer :
  DIs c nb dm -> dk_meta dm = dk_meta d -> dk_stable dm = dk_stable d -> NoDup (map fst (dk_files d)) ->
  (forall n, lookup n (dk_files d) <> None -> lookup n (dk_files dm) <> None) ->
  (forall ps s, dk_meta dm = Some ps -> In s (ps_segs ps) ->
                lookup (name_of s) (dk_files (ad d)) = lookup (name_of s) (dk_files dm)) ->
  In (sp_of dm) (candidates alts defer) -> RD c nb d alts defer.
Proof.
  intros HD Hm Hs ND Hk Hlk Hin.
  assert (HDa : DIs c nb (ad d)).
  { apply (DIs_frame c nb dm (ad d) HD).
    - symmetry. exact Hm.
    - rewrite ad_keys. exact ND.
    - intros n f Hl. rewrite ad_lookup in Hl. destruct (lookup n (dk_files d)) as [g|] eqn:Eg; [|discriminate].
      specialize (Hk n ltac:(rewrite Eg; discriminate)). destruct (lookup n (dk_files dm)) as [g'|]; [eexists; reflexivity|congruence].
    - intros ps s Hm' Hs'. apply (Hlk ps s Hm' Hs'). }
  split; [exact HDa|].
  replace (sp_of (ad d)) with (sp_of dm); [exact Hin|].
  unfold sp_of. f_equal; [|exact Hs].
  symmetry. apply dread_ext; [symmetry; exact Hm|]. intros ps s Hm' Hs'. unfold file_ents. rewrite (Hlk ps s Hm' Hs'). reflexivity.
Qed.

Lemma adopt_nopend_sh' g : df_pend g = None -> dirfix_file (adopt_file g) = sh_file g.
Proof. intros H. unfold adopt_file. rewrite H. unfold dirfix_file, sh_file. rewrite H. reflexivity. Qed.

(* ---- the reading of the adopted disk ---- *)
Lemma live_RD c nb w d alts defer :
  Live c nb w d defer -> In (sp_of (sh d)) alts -> RD c nb d alts defer.
Proof.
  intros (HL & Hst) Hin. pose proof (LInv_NoDup_sh _ _ _ _ HL) as ND.
  destruct (LInv_view _ _ _ _ HL) as (S & t & f0 & tw & V).
  pose proof (lv_dis _ _ _ _ _ _ _ _ V) as HD. pose proof (lv_meta _ _ _ _ _ _ _ _ V) as Hm.
  assert (Htf : exists f, lookup (name_of t) (dk_files d) = Some f /\ f0 = sh_file f).
  { pose proof (lv_file _ _ _ _ _ _ _ _ V) as K. unfold sh in K. rewrite lookup_map_files in K.
    destruct (lookup (name_of t) (dk_files d)) as [f|]; [|discriminate]. cbn in K. inversion K. exists f. auto. }
  destruct Htf as (f & Hf & Hf0).
  assert (Hlisted : forall s, In s (S ++ [t]) -> ~ unlisted d (name_of s)).
  { intros s Hs Hu. apply (Hu _ s Hm Hs). reflexivity. }
  (* files of sealed segments carry no pending batch *)
  assert (Hsealed : forall s g, In s S -> lookup (name_of s) (dk_files d) = Some g -> df_pend g = None).
  { intros s g Hs Hg. destruct (df_pend g) as [p|] eqn:Ep; [|reflexivity]. exfalso.
    destruct (Hst _ g p Hg Ep) as [(t' & Ht' & Hn & _)|Hu].
    - rewrite (lv_segs _ _ _ _ _ _ _ _ V), tail_info_app in Ht'. inversion Ht'; subst t'.
      apply (DIs_sealed_neq c nb (sh d) _ S t s HD Hm eq_refl Hs). exact Hn.
    - apply (Hlisted s); [apply in_or_app; left; exact Hs|exact Hu]. }
  set (f' := dirfix_file (adopt_file f)).
  set (dm := {| dk_files := update (name_of t) f' (dk_files (sh d)); dk_meta := dk_meta (sh d);
                dk_stable := dk_stable (sh d); dk_inited := dk_inited (sh d) |}).
  pose proof (lv_tok _ _ _ _ _ _ _ _ V) as Htok. pose proof (lv_twf V) as (_ & _ & Hb1 & _ & Hbm & _).
  pose proof (lv_min_cond V) as Hmc. rewrite Hf0 in Hmc. cbn [sh_file df_ents] in Hmc.
  (* the shape of the adopted tail file *)
  assert (Hshape : exists pe, df_ents f' = df_ents f ++ pe /\ df_pend f' = None /\ df_dir f' = true /\
            fsz_ok (c_seg_size c) (df_ents f ++ pe) (df_end f') (df_seal f') /\
            si_base t + llen (df_ents f ++ pe) < two64 /\
            (pe = [] \/ (sop_ok (OStore pe) /\ In (OStore pe) defer /\
               exists l0 r, pe = l0 :: r /\ l_index l0 = si_base t + llen (df_ents f) /\ consecutive (l_index l0) pe = true))).
  { destruct (df_pend f) as [p|] eqn:Ep.
    - destruct (Hst _ f p Hf Ep) as [(t' & Ht' & _ & Hsb)|Hu]; [|exfalso; apply (Hlisted t); [apply in_or_app; right; left; reflexivity|exact Hu]].
      rewrite (lv_segs _ _ _ _ _ _ _ _ V), tail_info_app in Ht'. inversion Ht'; subst t'.
      destruct Hsb as (Hse & Hne & Hfz & Hbd & Hls). exists (pb_ents p). unfold f', adopt_file. rewrite Ep. cbn.
      split; [reflexivity|]. split; [reflexivity|]. split; [reflexivity|]. split; [exact Hfz|]. split; [exact Hbd|].
      destruct (list_eq_dec_nil (pb_ents p)) as [E|E]; [left; exact E|right; apply Hls; exact E].
    - exists []. unfold f', adopt_file. rewrite Ep. cbn. rewrite app_nil_r.
      destruct Htok as (_ & Ht'). rewrite (lv_file _ _ _ _ _ _ _ _ V) in Ht'. rewrite Hf0 in Ht'. cbn in Ht'.
      destruct Ht' as (Z1 & _ & _ & _ & _ & Z6). unfold cur_ents in Z6. cbn in Z6.
      split; [reflexivity|]. split; [exact Ep|]. split; [reflexivity|]. split; [exact Z1|]. split; [exact Z6|left; reflexivity]. }
  destruct Hshape as (pe & F1 & F4 & F5 & Hfz & Hbd & Hpe).
  assert (Htok' : tail_ok c dm t).
  { destruct Htok as (Hu & _). split; [exact Hu|]. cbn [dm dk_files]. rewrite lookup_update_eq.
    unfold cur_ents, cur_end, cur_seal. rewrite F1, F4, F5.
    split; [exact Hfz|]. split; [exact Hfz|]. split; [discriminate|]. split; [reflexivity|].
    split; [|exact Hbd]. rewrite llen_app. destruct (llen (df_ents f) =? 0) eqn:Z.
    - destruct (llen (df_ents f) + llen pe =? 0) eqn:Z2; [exact Hmc|lia].
    - replace (llen (df_ents f) + llen pe =? 0) with false by lia. lia. }
  assert (HDm : DIs c nb dm) by (eapply (DIs_update_tail c nb (sh d) dm _ S t f' HD Hm eq_refl eq_refl eq_refl Htok')).
  assert (Hmm : dk_meta dm = Some {| ps_next_id := st_next_id w; ps_segs := S ++ [t] |}) by exact Hm.
  assert (Hrd : dread dm = slog_of (hd_min S t) (lv_es (sh d) S t f0 ++ pe)).
  { rewrite (dread_decomp c nb dm _ S t HDm Hmm eq_refl).
    rewrite (sealed_es_update (sh d) dm S t f' eq_refl); [|intros s Hs; eapply (DIs_sealed_neq c nb (sh d) _ S t s HD Hm eq_refl Hs)].
    unfold tail_es, file_ents. cbn [dm dk_files]. rewrite lookup_update_eq. unfold cur_ents. rewrite F4, F1.
    unfold lv_es. rewrite Hf0. cbn [sh_file df_ents]. rewrite skipn_app_le, app_assoc; [reflexivity|].
    unfold llen in Hmc. destruct (N.of_nat (length (df_ents f)) =? 0) eqn:Z; lia. }
  apply (RD_frame c nb d dm alts defer HDm eq_refl eq_refl ND).
  - intros n Hn. cbn [dm dk_files]. rewrite lookup_update. destruct (fname_eqb n (name_of t)); [discriminate|].
    unfold sh. rewrite lookup_map_files. destruct (lookup n (dk_files d)); [discriminate|congruence].
  - intros ps s Hm' Hs. rewrite Hmm in Hm'. inversion Hm'; subst ps. cbn [ps_segs] in Hs.
    rewrite ad_lookup. cbn [dm dk_files]. apply in_app_or in Hs. destruct Hs as [Hs|[<-|[]]].
    + rewrite lookup_update_neq by (eapply (DIs_sealed_neq c nb (sh d) _ S t s HD Hm eq_refl Hs)).
      unfold sh. rewrite lookup_map_files. destruct (lookup (name_of s) (dk_files d)) as [g|] eqn:Eg; [|reflexivity].
      cbn [option_map]. rewrite (adopt_nopend_sh' g (Hsealed s g Hs Eg)). reflexivity.
    + rewrite lookup_update_eq, Hf. reflexivity.
  - destruct Hpe as [Epe|(Hsop & Hdef & l0 & r & Epe & Hidx & Hcons)].
    + apply cand_alts. subst pe. rewrite app_nil_r in Hrd.
      replace (sp_of dm) with (sp_of (sh d)); [exact Hin|].
      unfold sp_of. rewrite Hrd, (lv_read _ _ _ _ _ _ _ _ V). reflexivity.
    + eapply (cand_defer alts defer (sp_of (sh d)) (OStore pe)); [exact Hin|exact Hdef|].
      unfold spec_accepts. cbn [step_spec sp_of sp_log sp_kv]. unfold spec_store. rewrite Epe. rewrite <- Epe.
      rewrite Hcons. cbn [andb].
      destruct (lv_log_cases V) as [(Ees & ES & Elen & Edr & Emin)|(Ees & Edr & Elast & H2)].
      * rewrite Edr. cbn [sl_is_empty sl_empty sl_ents orb]. f_equal. unfold sp_of. rewrite Hrd, Ees. cbn [app].
        rewrite Epe. cbn [slog_of]. rewrite <- Epe. f_equal. f_equal. subst S. unfold hd_min. cbn [hd].
        rewrite Hf0 in Elen. cbn [sh_file df_ents] in Elen. lia.
      * rewrite Edr. assert (Hne' : sl_is_empty {| sl_first := hd_min S t; sl_ents := lv_es (sh d) S t f0 |} = false).
        { unfold sl_is_empty. cbn. destruct (lv_es (sh d) S t f0); [congruence|reflexivity]. }
        rewrite Hne'. cbn [orb]. rewrite Edr in Elast. rewrite Elast. rewrite Hf0. cbn [sh_file df_ents].
        replace (l_index l0 =? si_base t + llen (df_ents f) - 1 + 1) with true.
        2:{ symmetry. apply N.eqb_eq. rewrite Hf0 in H2. cbn [sh_file df_ents] in H2. lia. }
        cbn [sl_first sl_ents]. f_equal. unfold sp_of. rewrite Hrd. f_equal. rewrite <- Hf0.
        destruct (lv_es (sh d) S t f0) eqn:El; [congruence|]. reflexivity.
Qed.
