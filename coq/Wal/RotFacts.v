(* RotFacts.v -- segment_rotations shows the rotations of the persisted-metadata
   history (C20): every sequential history, per lifetime.  The statement is
   [rotations_show] of Wal/MetricsSpec.v. *)
From RW Require Import Base.Bytes Base.BytesFacts Fmt.Codec Fmt.CodecFacts Fmt.Frame
  Wal.Model Wal.Spec Wal.Hist Wal.SeqInv Wal.SeqFactsBase Wal.SeqFactsAbs Wal.SeqFactsTxn Wal.SeqFactsOps1
  Wal.SeqFactsOps2 Wal.SeqFactsOps3 Wal.SeqFactsMain Wal.MetricsSpec Gen.Constants.
From Coq Require Import ZifyN ZifyNat ZifyBool.
Open Scope N_scope.

(* ------------------------------------------------------------------ *)
(* [R e e']: e' extends the trace of e by actions that, replayed on the disk of
   e, give the disk of e', and the rotation counter moved by exactly the
   rotations among them; no fault is armed afterwards *)
Definition ext (e e' : env) (new : list act) : Prop :=
  e_acts e' = rev new ++ e_acts e /\ e_disk e' = fold_left apply_act new (e_disk e).

Definition R (e e' : env) : Prop :=
  e_fault e' = None /\
  exists new, ext e e' new /\
    m_rotations (e_m e') = m_rotations (e_m e) + rot_count (e_disk e) new.

Lemma rot_count_app d a b :
  rot_count d (a ++ b) = rot_count d a + rot_count (fold_left apply_act a d) b.
Proof.
  revert d. induction a as [|x a IH]; intros d; cbn [app rot_count fold_left]; [reflexivity|].
  rewrite IH. lia.
Qed.

Lemma R_refl e : e_fault e = None -> R e e.
Proof. intros H. split; [exact H|]. exists []. split; [split; reflexivity|]. cbn. lia. Qed.

Lemma R_trans e1 e2 e3 : R e1 e2 -> R e2 e3 -> R e1 e3.
Proof.
  intros (_ & n1 & (A1 & D1) & M1) (F & n2 & (A2 & D2) & M2). split; [exact F|].
  exists (n1 ++ n2). split; [split|].
  - rewrite A2, A1, rev_app_distr, app_assoc. reflexivity.
  - rewrite fold_left_app, <- D1. exact D2.
  - rewrite rot_count_app, <- D1. lia.
Qed.

Lemma R_fault e e' : R e e' -> e_fault e' = None.
Proof. intros (H & _). exact H. Qed.

Definition is_commit (a : act) : bool := match a with ACommit _ => true | _ => false end.

Lemma R_act a e : act_rotation (e_disk e) a = 0 -> R e (io_post a e).
Proof.
  intros H. split; [reflexivity|]. exists [a]. split; [split; reflexivity|].
  cbn [rot_count io_post e_m]. rewrite H. lia.
Qed.

Lemma R_plain a e : is_commit a = false -> R e (io_post a e).
Proof. intros H. apply R_act. destruct a; try discriminate; reflexivity. Qed.

Lemma R_with_m e m : e_fault e = None -> m_rotations m = m_rotations (e_m e) -> R e (with_m e m).
Proof.
  intros F H. split; [exact F|]. exists []. split; [split; reflexivity|]. cbn [with_m e_m rot_count]. lia.
Qed.

(* ------------------------------------------------------------------ *)
(* actions without a commit                                            *)
Lemma delete_files_R ns : forall e, e_fault e = None -> R e (delete_files ns e).
Proof.
  induction ns as [|n ns IH]; intros e He; unfold delete_files; cbn [fold_left]; [apply R_refl; exact He|].
  rewrite (io_ok _ _ He). cbn [snd]. eapply R_trans; [apply (R_plain (ADelete n)); reflexivity|].
  apply IH. reflexivity.
Qed.

Lemma seg_create_R si e sw e' : e_fault e = None -> seg_create si e = (sw, e') -> R e e'.
Proof.
  intros He. unfold seg_create. destruct (si_base si =? 0); [intros H; inversion H; subst; apply R_refl; exact He|].
  destruct (lookup _ _).
  - rewrite (io_ok _ _ He). intros H; inversion H; subst. apply R_plain. reflexivity.
  - rewrite (io_ok _ _ He). intros H; inversion H; subst. apply R_plain. reflexivity.
Qed.

Lemma seg_append_R tw ls e r tw' e' : e_fault e = None -> seg_append tw ls e = (r, tw', e') -> R e e'.
Proof.
  intros He. unfold seg_append. destruct ls as [|l0 rest]; [intros H; inversion H; subst; apply R_refl; exact He|].
  destruct (0 <? ws_index_start tw); [intros H; inversion H; subst; apply R_refl; exact He|].
  destruct (existsb _ _); [intros H; inversion H; subst; apply R_refl; exact He|].
  destruct (negb _); [intros H; inversion H; subst; apply R_refl; exact He|].
  cbv zeta. rewrite (io_ok _ _ He). cbn [negb]. rewrite (io_ok _ _ (io_post_fault _ _)). cbn [negb].
  intros H; inversion H; subst. eapply R_trans; apply R_plain; reflexivity.
Qed.

Lemma seg_force_seal_R tw e r tw' e' : e_fault e = None -> seg_force_seal tw e = (r, tw', e') -> R e e'.
Proof.
  intros He. unfold seg_force_seal.
  destruct (0 <? ws_index_start tw); [intros H; inversion H; subst; apply R_refl; exact He|].
  destruct (ws_n tw =? 0); [intros H; inversion H; subst; apply R_refl; exact He|].
  cbv zeta. rewrite (io_ok _ _ He). cbn [negb]. rewrite (io_ok _ _ (io_post_fault _ _)). cbn [negb].
  intros H; inversion H; subst. eapply R_trans; apply R_plain; reflexivity.
Qed.

(* ------------------------------------------------------------------ *)
(* what a rotation-shaped commit looks like                             *)
Lemma segs_eqb_len : forall a b, segs_eqb a b = true -> length a = length b.
Proof.
  induction a as [|x a IH]; intros [|y b] H; cbn [segs_eqb] in H; try discriminate; [reflexivity|].
  apply andb_true_iff in H. destruct H as [_ H]. cbn [length]. f_equal. apply IH. exact H.
Qed.

Lemma seginfo_eqb_refl x : seginfo_eqb x x = true.
Proof. unfold seginfo_eqb. rewrite !N.eqb_refl, Bool.eqb_reflx. reflexivity. Qed.
Lemma segs_eqb_refl l : segs_eqb l l = true.
Proof. induction l as [|x l IH]; cbn [segs_eqb]; [reflexivity|]. rewrite seginfo_eqb_refl, IH. reflexivity. Qed.

Lemma is_rotation_len d old new :
  is_rotation d old new = true -> length (ps_segs new) = S (length (ps_segs old)).
Proof.
  unfold is_rotation. rewrite <- (rev_length (ps_segs new)), <- (rev_length (ps_segs old)).
  destruct (rev (ps_segs old)) as [|t rp]; [discriminate|].
  destruct (rev (ps_segs new)) as [|n [|t' rp']]; try discriminate.
  intros H. apply andb_true_iff in H. destruct H as [_ H]. apply segs_eqb_len in H. cbn [length]. lia.
Qed.

Lemma norot_len d old ps :
  dk_meta d = Some old -> length (ps_segs ps) <> S (length (ps_segs old)) -> act_rotation d (ACommit ps) = 0.
Proof.
  intros Hm Hl. unfold act_rotation. rewrite Hm. destruct (is_rotation d old ps) eqn:E; [|reflexivity].
  apply is_rotation_len in E. contradiction.
Qed.

(* ------------------------------------------------------------------ *)
(* mutateStateLocked: one commit, then file work                        *)
Lemma mutate_gen_R defer w t e r w' e' dels :
  e_fault e = None ->
  act_rotation (e_disk e) (ACommit {| ps_next_id := tx_next_id t; ps_segs := tx_segs t |}) = 0 ->
  mutate_gen defer w t e = (r, w', e', dels) -> R e e'.
Proof.
  intros He Hn. unfold mutate_gen. rewrite (io_ok _ _ He). cbn [negb].
  assert (R0 := R_act _ _ Hn).
  set (e1 := io_post (ACommit {| ps_next_id := tx_next_id t; ps_segs := tx_segs t |}) e) in *.
  destruct (tx_create t) as [si|].
  - destruct (seg_create si e1) as [sw e2] eqn:Ec.
    assert (R2 := seg_create_R _ _ _ _ (io_post_fault _ _) Ec).
    destruct sw; intros H; inversion H; subst; clear H.
    + destruct defer; [eapply R_trans; eassumption|].
      eapply R_trans; [exact R0|]. eapply R_trans; [exact R2|]. apply delete_files_R. apply (R_fault _ _ R2).
    + eapply R_trans; eassumption.
  - intros H; inversion H; subst; clear H.
    destruct defer; [exact R0|]. eapply R_trans; [exact R0|]. apply delete_files_R. reflexivity.
Qed.

Lemma mutate_R w t e r w' e' :
  e_fault e = None ->
  act_rotation (e_disk e) (ACommit {| ps_next_id := tx_next_id t; ps_segs := tx_segs t |}) = 0 ->
  mutate w t e = (r, w', e') -> R e e'.
Proof.
  intros He Hn. unfold mutate. destruct (mutate_gen false w t e) as [[[r0 w0] e0] d0] eqn:E.
  intros H; inversion H; subst. eapply mutate_gen_R; eassumption.
Qed.

(* ------------------------------------------------------------------ *)
(* the sorted map: lengths                                              *)
Lemma seg_set_len x l : (length (seg_set x l) <= S (length l))%nat.
Proof.
  induction l as [|y l IH]; cbn [seg_set length]; [lia|].
  destruct (si_base x <? si_base y); [cbn [length]; lia|].
  destruct (si_base x =? si_base y); cbn [length]; lia.
Qed.

Lemma seg_del_lt b l : (exists x, In x l /\ si_base x = b) -> (length (seg_del b l) < length l)%nat.
Proof.
  induction l as [|y l IH]; intros (x & Hx & Hb); [destruct Hx|]. cbn [seg_del length].
  destruct (N.eqb_spec (si_base y) b) as [E|E]; [lia|]. cbn [length].
  destruct Hx as [->|Hx]; [contradiction|]. assert (H := IH (ex_intro _ x (conj Hx Hb))). lia.
Qed.

Lemma tail_info_in : forall l t, tail_info l = Some t -> In t l.
Proof.
  unfold tail_info. induction l as [|x l IH]; intros t H; [discriminate|].
  destruct l as [|y l']; [cbn in H; inversion H; left; reflexivity|].
  right. apply IH. exact H.
Qed.

Lemma tail_info_none l : tail_info l = None -> l = [].
Proof.
  unfold tail_info. induction l as [|x l IH]; intros H; [reflexivity|]. exfalso.
  destruct l as [|y l']; [discriminate|]. specialize (IH H). discriminate.
Qed.

Lemma create_next_segs c nid segs nb nid' segs2 si :
  create_next c nid segs nb = (nid', segs2, si) -> segs2 = seg_set si segs.
Proof. unfold create_next. intros H. inversion H. reflexivity. Qed.

Lemma norot_short d ps : (length (ps_segs ps) < 2)%nat -> act_rotation d (ACommit ps) = 0.
Proof.
  intros Hl. unfold act_rotation. destruct (dk_meta d) as [old|]; [|reflexivity].
  unfold is_rotation. rewrite <- (rev_length (ps_segs ps)) in Hl.
  destruct (rev (ps_segs old)) as [|t rp]; [reflexivity|].
  destruct (rev (ps_segs ps)) as [|n [|t' rp']]; try reflexivity. cbn [length] in Hl. lia.
Qed.

(* ------------------------------------------------------------------ *)
(* StoreLogs                                                            *)
Lemma reset_first_R c w nb e r w1 e1 dels :
  e_fault e = None -> dk_meta (e_disk e) = Some (persistent w) ->
  reset_first c w nb e = (r, w1, e1, dels) -> R e e1.
Proof.
  intros He Hm. unfold reset_first.
  destruct (0 <? last_index (st_segs w) (st_tail w)); [intros H; inversion H; subst; apply R_refl; exact He|].
  destruct (tail_info (st_segs w)) as [t|] eqn:Et.
  - destruct (si_base t =? nb).
    + apply mutate_gen_R; [exact He|]. apply (norot_len _ _ _ Hm). cbn [ps_segs persistent tx_segs]. lia.
    + destruct (create_next c (st_next_id w) (seg_del (si_base t) (st_segs w)) nb) as [[nid segs2] si] eqn:Ecn.
      apply create_next_segs in Ecn. subst segs2.
      apply mutate_gen_R; [exact He|]. apply (norot_len _ _ _ Hm). cbn [ps_segs persistent tx_segs].
      assert (H1 := seg_set_len si (seg_del (si_base t) (st_segs w))).
      assert (H2 := seg_del_lt (si_base t) (st_segs w) (ex_intro _ t (conj (tail_info_in _ _ Et) eq_refl))). lia.
  - destruct (create_next c (st_next_id w) (st_segs w) nb) as [[nid segs2] si] eqn:Ecn.
    apply create_next_segs in Ecn. subst segs2. rewrite (tail_info_none _ Et).
    apply mutate_gen_R; [exact He|]. apply norot_short. cbn. lia.
Qed.

Lemma store_go_R L ls w e r w' e' : e_fault e = None -> store_go L ls w e = (r, w', e') -> R e e'.
Proof.
  intros He. unfold store_go. destruct (check_logs L ls) as [res nb].
  destruct res; try (intros H; inversion H; subst; apply R_refl; exact He).
  destruct (st_tail w) as [tw|]; [|intros H; inversion H; subst; apply R_refl; exact He].
  destruct (seg_append tw ls e) as [[r1 tw'] e1] eqn:Ea.
  assert (R1 := seg_append_R _ _ _ _ _ _ He Ea).
  (* the metrics update of an accepted batch leaves the rotation counter alone *)
  destruct r1; intros H; inversion H; subst; exact R1.
Qed.

Lemma store_logs_R c w e ss t tw ls r w' e' :
  e_fault e = None -> WInvS c w (e_disk e) ss t tw ->
  store_logs c w ls e = (r, w', e') -> R e e'.
Proof.
  intros He (Hcl & Hfa & Hmeta & _ & _ & Hsegs & _).
  destruct ls as [|l0 rest].
  { unfold store_logs. rewrite Hcl. intros H; inversion H; subst. apply R_refl; exact He. }
  assert (Hti : tail_info (st_segs w) = Some t) by (rewrite Hsegs; apply tail_info_snoc).
  rewrite (store_logs_unfold c w l0 rest e t Hcl Hfa Hti). cbv zeta.
  destruct (_ && _).
  - destruct (reset_first c w (l_index l0) e) as [[[r1 w1] e1] dels] eqn:Er.
    assert (R1 := reset_first_R _ _ _ _ _ _ _ _ He Hmeta Er).
    destruct r1; try (intros H; inversion H; subst; exact R1).
    destruct (store_go _ (l0 :: rest) w1 e1) as [[r2 w2] e2] eqn:Eg.
    assert (R2 := store_go_R _ _ _ _ _ _ _ (R_fault _ _ R1) Eg).
    intros H; inversion H; subst. eapply R_trans; [exact R1|]. eapply R_trans; [exact R2|].
    apply delete_files_R. apply (R_fault _ _ R2).
  - apply store_go_R. exact He.
Qed.

(* ------------------------------------------------------------------ *)
(* head truncation                                                      *)
Lemma head_scan_some nm tl : forall segs del ntr rest del' ntr' h,
  head_scan nm tl segs del ntr = (rest, del', ntr', Some h) ->
  exists pre r, segs = pre ++ h :: r /\ rest = h :: r.
Proof.
  induction segs as [|s segs IH]; intros del ntr rest del' ntr' h H; cbn [head_scan] in H; [discriminate|].
  destruct (nm <=? (if si_sealed s then si_max s else tl)).
  - inversion H; subst. exists [], segs. split; reflexivity.
  - destruct (IH _ _ _ _ _ _ H) as (pre & r & -> & ->). exists (s :: pre), r. split; reflexivity.
Qed.

Lemma truncate_head_R c w nm e r w' e' :
  e_fault e = None -> dk_meta (e_disk e) = Some (persistent w) ->
  truncate_head c w nm e = (r, w', e') -> R e e'.
Proof.
  intros He Hm. unfold truncate_head.
  destruct (head_scan nm (tail_last (st_tail w)) (st_segs w) [] 0) as [[[rest del] ntr] head] eqn:Eh.
  destruct head as [h|].
  - set (e0 := add_m e _). intros H.
    assert (R0 : R e e0) by (apply R_with_m; [exact He|reflexivity]).
    eapply R_trans; [exact R0|]. eapply mutate_R; [exact He| |exact H].
    apply (norot_len _ (persistent w)); [exact Hm|]. cbn [ps_segs persistent tx_segs].
    destruct (head_scan_some _ _ _ _ _ _ _ _ _ Eh) as (pre & r0 & E1 & E2). subst rest. rewrite E1.
    rewrite seg_set_head by reflexivity. rewrite app_length. cbn [length]. lia.
  - destruct (create_next c (st_next_id w) [] _) as [[nid segs2] si] eqn:Ecn.
    apply create_next_segs in Ecn. subst segs2.
    set (e0 := add_m e _). intros H.
    assert (R0 : R e e0) by (apply R_with_m; [exact He|reflexivity]).
    eapply R_trans; [exact R0|]. eapply mutate_R; [exact He| |exact H]. apply norot_short. cbn. lia.
Qed.

(* ------------------------------------------------------------------ *)
(* tail truncation                                                      *)
Lemma tail_scan_suffix nm li : forall l del ntr rrest del' ntr',
  tail_scan nm li l del ntr = (rrest, del', ntr') ->
  exists dropped, l = dropped ++ rrest /\ match rrest with t :: _ => si_base t <= nm | [] => True end.
Proof.
  induction l as [|s l IH]; intros del ntr rrest del' ntr' H; cbn [tail_scan] in H.
  - inversion H; subst. exists []. split; [reflexivity|exact I].
  - destruct (N.leb_spec (si_base s) nm) as [Hle|Hgt].
    + inversion H; subst. exists []. split; [reflexivity|exact Hle].
    + destruct (IH _ _ _ _ _ H) as (dr & -> & Hh). exists (s :: dr). split; [reflexivity|exact Hh].
Qed.

Lemma truncate_tail_R c w e ss tl tw nm r w' e' :
  cfg_ok c -> e_fault e = None -> WInvS c w (e_disk e) ss tl tw -> ws_index_start tw = 0 ->
  st_next_id w + 1 < two64 -> nm < last_index (st_segs w) (st_tail w) -> nm + 1 < two64 ->
  truncate_tail c w nm e = (r, w', e') -> R e e'.
Proof.
  intros Hc He HI His Hnid HnL Hnm.
  destruct HI as (Hcl & Hfa & Hmeta & Hini & Hfr & Hsegs & Htail & HS & HT & HL & Hro).
  unfold truncate_tail.
  set (L := last_index (st_segs w) (st_tail w)) in *.
  assert (Erev : rev (st_segs w) = tl :: rev ss) by (rewrite Hsegs, rev_unit; reflexivity).
  rewrite Erev.
  destruct (tail_scan nm L (tl :: rev ss) [] 0) as [[rrest del] ntr] eqn:Et.
  destruct (tail_scan_suffix _ _ _ _ _ _ _ _ Et) as (dropped & Ed & Hhd).
  destruct rrest as [|t r0].
  - destruct (create_next c (st_next_id w) [] 0) as [[nid segs2] si] eqn:Ecn.
    apply create_next_segs in Ecn. subst segs2.
    apply mutate_R; [exact He|]. apply norot_short. cbn. lia.
  - assert (Esegs : ss ++ [tl] = rev r0 ++ t :: rev dropped).
    { apply (f_equal (@rev _)) in Ed. cbn [rev] in Ed. rewrite rev_involutive in Ed. rewrite Ed.
      rewrite rev_app_distr. cbn [rev]. rewrite <- app_assoc. reflexivity. }
    destruct (bases_before c (e_disk e) ss tl (rev r0) t (rev dropped) HS HL Esegs) as [Hpb HSp].
    assert (Hlt : Forall (fun s => si_base s < si_base t) (rev r0)).
    { rewrite Forall_forall in *. intros s Hs. specialize (Hpb s Hs).
      destruct (sealed_srange _ _ _ (HSp s Hs)). lia. }
    assert (Hu : si_sealed tl = false) by apply HT.
    cbn [rev]. cbv zeta.
    destruct (si_sealed t) eqn:Hst.
    + (* a sealed segment becomes the last one: at least the old tail is dropped *)
      rewrite seg_set_replace_last; [|exact Hlt|reflexivity].
      destruct (create_next c (st_next_id w) _ 0) as [[nid segs2] si] eqn:Ecn.
      apply create_next_segs in Ecn. subst segs2.
      set (e0 := add_m e _). intros H.
      assert (R0 : R e e0) by (apply R_with_m; [exact He|reflexivity]).
      eapply R_trans; [exact R0|]. eapply mutate_R; [exact He| |exact H].
      apply (norot_len _ (persistent w)); [exact Hmeta|]. cbn [ps_segs persistent tx_segs].
      match goal with |- length (seg_set ?x ?l) <> _ => assert (H1 := seg_set_len x l) end.
      rewrite app_length in H1. cbn [length] in H1.
      assert (Hd : (0 < length dropped)%nat).
      { destruct dropped as [|d0 dr]; [|cbn; lia]. exfalso. cbn [app] in Ed. inversion Ed; subst. congruence. }
      rewrite Hsegs, Esegs, app_length. cbn [length]. rewrite !rev_length in *. lia.
    + (* the cut is inside the tail segment, which is force-sealed below its last entry *)
      assert (Hdn : dropped = []).
      { destruct dropped as [|d0 dr]; [reflexivity|]. exfalso. cbn [app] in Ed. inversion Ed as [[E1 E2]].
        assert (Hin : In t ss). { apply in_rev. rewrite E2. apply in_or_app. right. left. reflexivity. }
        rewrite Forall_forall in HS. destruct (HS t Hin) as (Hse & _). congruence. }
      subst dropped. cbn [app] in Ed. inversion Ed; subst t r0. clear Ed.
      rewrite rev_involutive in *. rewrite Htail.
      assert (HLeq : L = last_index (ss ++ [tl]) (Some tw)) by (unfold L; rewrite Hsegs, Htail; reflexivity).
      rewrite (last_index_inv c (e_disk e) ss _ _ HT) in HLeq.
      assert (Hn : 0 < ws_n tw).
      { destruct (N.eqb_spec (ws_n tw) 0) as [En|En]; [|lia]. exfalso. destruct ss; lia. }
      destruct (N.eqb_spec (ws_n tw) 0) as [|_]; [lia|].
      destruct (seg_force_seal_ok c e tl tw Hc He HT His Hn)
        as (tw' & e1 & Hfs & He1 & Hm1 & HT1 & Hn1 & His1 & Hme1 & Hst1 & Hin1 & Hlk1 & Hfe1 & Hno1).
      rewrite Hfs.
      rewrite seg_set_replace_last; [|exact Hlt|reflexivity].
      rewrite create_next_snoc; [| |cbn [si_max]; lia|exact Hnid].
      2:{ apply Forall_app. split.
          - eapply Forall_impl; [|exact Hlt]. intros s Hs. cbn [si_max] in *. lia.
          - constructor; [|constructor]. cbn [si_max si_base]. lia. }
      set (e0 := add_m e1 _). intros H.
      assert (R1 := seg_force_seal_R _ _ _ _ _ He Hfs).
      assert (R0 : R e1 e0) by (apply R_with_m; [exact He1|reflexivity]).
      eapply R_trans; [exact R1|]. eapply R_trans; [exact R0|]. eapply mutate_R; [exact He1| |exact H].
      unfold act_rotation. change (e_disk e0) with (e_disk e1). rewrite Hme1, Hmeta.
      assert (Hfl : file_last (e_disk e1) tl = si_base tl + ws_n tw - 1).
      { unfold file_last. rewrite Hfe1.
        destruct (vis_tail _ _ _ _ HT) as (f & Hf & Hlen & _). rewrite (file_ents_ok _ _ _ Hf), Hlen.
        destruct (N.eqb_spec (ws_n tw) 0); [lia|reflexivity]. }
      unfold is_rotation. cbn [ps_segs persistent tx_segs]. rewrite Hsegs, !rev_unit.
      rewrite Hfl. cbn [si_max]. destruct (N.eqb_spec nm (si_base tl + ws_n tw - 1)); [lia|]. reflexivity.
Qed.

(* ------------------------------------------------------------------ *)
(* rotation: THE commit that counts                                     *)
Lemma rotate_R c w e ss t tw :
  cfg_ok c -> e_fault e = None -> WInvS c w (e_disk e) ss t tw ->
  0 < ws_index_start tw -> st_next_id w + 1 < two64 ->
  R e (snd (rotate c w e)).
Proof.
  intros Hc He HI Hpos Hnid.
  assert (HI0 := HI).
  destruct HI as (Hcl & Hfa & Hmeta & Hini & Hfr & Hsegs & Htail & HS & HT & HL & Hro).
  destruct (N.ltb_spec 0 (ws_index_start tw)) as [_|]; [|lia].
  assert (Hn : 0 < ws_n tw) by (apply HT; exact Hpos).
  destruct (tail_commit _ _ _ _ HT) as [Hci Hb1].
  assert (Hci' : ws_commit_idx tw = si_base t + ws_n tw - 1).
  { rewrite Hci. destruct (N.eqb_spec (ws_n tw) 0); [lia|reflexivity]. }
  assert (Hb2 : si_base t + ws_n tw < two64) by apply HT.
  assert (Hlt := linked_base_lt ss t (Forall_impl _ (sealed_srange c (e_disk e)) HS) HL).
  unfold rotate. rewrite Hro.
  set (w0 := {| st_next_id := st_next_id w; st_segs := st_segs w; st_tail := st_tail w; st_rotate := None;
                st_failed := st_failed w; st_closed := st_closed w |}).
  rewrite Hcl, Hsegs, tail_info_snoc, Htail. cbn [tail_last].
  set (istart := ws_index_start tw).
  fold (seal_info t (ws_commit_idx tw) istart).
  set (t' := seal_info t (ws_commit_idx tw) istart).
  rewrite (seg_set_replace_last t' ss t Hlt eq_refl).
  set (e0 := add_m e _).
  rewrite create_next_snoc; [| |cbn [t' seal_info si_max]; lia|exact Hnid].
  2:{ apply Forall_app. split.
      - eapply Forall_impl; [|exact Hlt]. intros s Hs. cbn [t' seal_info si_max] in *. lia.
      - constructor; [|constructor]. cbn [t' seal_info si_max si_base]. lia. }
  set (base := si_max t' + 1).
  assert (Hbase : base = si_base t + ws_n tw) by (unfold base; cbn [t' seal_info si_max]; lia).
  assert (HSt' : sealed_ok c (e_disk e) t').
  { unfold t'. rewrite Hci'. apply sealed_of_tail; assumption. }
  destruct (mutate_new_tail c false w0 e0 (ss ++ [t']) base []) as (Hmut & _);
    try assumption; try reflexivity; try lia.
  { apply Forall_app. split; [exact HS|]. constructor; [exact HSt'|constructor]. }
  { rewrite <- app_assoc. cbn [app]. apply linked_app_intro.
    - eapply linked_last_replace; [| |exact HL]; reflexivity.
    - cbn [linked new_segment si_base si_min]. repeat split; reflexivity. }
  unfold mutate. change (st_next_id w) with (st_next_id w0) at 1 2 3. rewrite Hmut.
  cbn [delete_files fold_left snd].
  set (si := new_segment c (st_next_id w0) base).
  set (ps := {| ps_next_id := st_next_id w0 + 1; ps_segs := (ss ++ [t']) ++ [si] |}).
  split; [reflexivity|].
  exists [ACommit ps; ACreate (name_of si) (si_size_limit si)]. split; [split; reflexivity|].
  assert (Hrot : act_rotation (e_disk e) (ACommit ps) = 1).
  { unfold act_rotation. rewrite Hmeta.
    assert (Hfl : file_last (e_disk e) t = si_base t + ws_n tw - 1).
    { unfold file_last. destruct (vis_tail _ _ _ _ HT) as (f & Hf & Hlen & _).
      rewrite (file_ents_ok _ _ _ Hf), Hlen. destruct (N.eqb_spec (ws_n tw) 0); [lia|reflexivity]. }
    assert (Hu : si_sealed t = false) by apply HT.
    unfold is_rotation. cbn [ps ps_segs persistent ps_next_id]. rewrite Hsegs, !rev_unit.
    rewrite Hfl, Hu, segs_eqb_refl.
    cbn [t' seal_info si new_segment si_max si_sealed si_id si_base si_min si_codec si_size_limit
         si_index_start negb w0 st_next_id].
    rewrite Hci', !N.eqb_refl. fold istart.
    destruct (N.ltb_spec 0 istart); [|unfold istart in *; lia].
    destruct (N.ltb_spec 0 (si_base t + ws_n tw - 1)); [|lia].
    unfold base. cbn [t' seal_info si_max]. rewrite Hci', !N.eqb_refl. reflexivity. }
  cbn [rot_count]. change (e_disk e0) with (e_disk e) in *. rewrite Hrot.
  cbn [create_env commit_env io_post e_m e0 add_m with_m m_rotations act_rotation]. lia.
Qed.

(* ------------------------------------------------------------------ *)
(* DeleteRange, reads, the stable store                                 *)
Lemma delete_range_R c w e ss tl tw mn mx r w' e' :
  cfg_ok c -> e_fault e = None -> WInvS c w (e_disk e) ss tl tw -> ws_index_start tw = 0 ->
  st_next_id w + 1 < two64 -> mx + 1 < two64 ->
  delete_range c w mn mx e = (r, w', e') -> R e e'.
Proof.
  intros Hc He HI His Hnid Hmx. assert (HI0 := HI).
  destruct HI as (Hcl & Hfa & Hmeta & _).
  unfold delete_range. rewrite Hcl.
  destruct (mx <? mn); [intros H; inversion H; subst; apply R_refl; exact He|].
  rewrite Hfa. cbv zeta.
  destruct (N.ltb_spec mx (first_index (st_segs w) (st_tail w))) as [G1|G1];
    [intros H; inversion H; subst; apply R_refl; exact He|].
  destruct (N.ltb_spec (last_index (st_segs w) (st_tail w)) mn) as [G2|G2];
    [intros H; inversion H; subst; apply R_refl; exact He|]. cbn [orb].
  destruct (N.leb_spec mn (first_index (st_segs w) (st_tail w))) as [G3|G3].
  - apply truncate_head_R; assumption.
  - destruct (N.leb_spec (last_index (st_segs w) (st_tail w)) mx) as [G4|G4].
    + apply (truncate_tail_R c w e ss tl tw); try assumption; lia.
    + intros H; inversion H; subst; apply R_refl; exact He.
Qed.

Lemma get_log_R w i e r e' : e_fault e = None -> get_log w i e = (r, e') -> R e e'.
Proof.
  intros He H. unfold get_log in H.
  repeat match type of H with
         | context [if ?b then _ else _] => destruct b
         | context [match ?x with _ => _ end] => destruct x
         end;
  inversion H; subst; try (apply R_refl; exact He); (apply R_with_m; [exact He|reflexivity]).
Qed.

Lemma set_stable_R w k v n e r e' : e_fault e = None -> set_stable w k v n e = (r, e') -> R e e'.
Proof.
  intros He. unfold set_stable. destruct (st_closed w); [intros H; inversion H; subst; apply R_refl; exact He|].
  assert (R0 : R e (inc_stable e true)) by (apply R_with_m; [exact He|reflexivity]).
  destruct (negb (key_ok k)); [intros H; inversion H; subst; exact R0|].
  rewrite (io_ok _ (inc_stable e true) He). intros H; inversion H; subst.
  eapply R_trans; [exact R0|]. apply R_plain. reflexivity.
Qed.

Lemma get_stable_R w k e r e' : e_fault e = None -> get_stable w k e = (r, e') -> R e e'.
Proof.
  intros He. unfold get_stable. destruct (st_closed w); intros H; inversion H; subst;
    [apply R_refl; exact He|apply R_with_m; [exact He|reflexivity]].
Qed.

(* ------------------------------------------------------------------ *)
(* the pending rotation, one call                                       *)
Lemma settle_R c s : cfg_ok c -> SInv c s -> s_nid s + 1 < two64 -> R (ss_env s) (ss_env (settle c s)).
Proof.
  intros Hc (He & ss & t & tw & HI) Hnid. unfold settle.
  assert (Hro : st_rotate (ss_wal s) = (if 0 <? ws_index_start tw then Some (ws_index_start tw) else None))
    by apply HI.
  rewrite Hro. destruct (N.ltb_spec 0 (ws_index_start tw)) as [Hp|Hp]; [|apply R_refl; exact He].
  assert (RR := rotate_R c _ _ ss t tw Hc He HI Hp Hnid).
  destruct (rotate c (ss_wal s) (ss_env s)) as [w' e']. exact RR.
Qed.

Lemma step_R c s o r s' :
  cfg_ok c -> sop_ok o -> SInv c s -> s_nid s + 2 < two64 -> o <> OReopen ->
  step_model c s o = (r, s') -> R (ss_env s) (ss_env s').
Proof.
  intros Hc Hop HS Hnid Hno Hstep.
  destruct o as [ls|mn mx|i| | |k v n|k|]; cbn [step_model] in Hstep.
  - destruct (settle_ok c s Hc HS ltac:(lia)) as (ss & t & tw & He & HI & His & _ & _ & Hid1 & Hid2).
    assert (R0 := settle_R c s Hc HS ltac:(lia)).
    destruct (store_logs c _ ls _) as [[r0 w'] e'] eqn:Es. inversion Hstep; subst. cbn [ss_env].
    eapply R_trans; [exact R0|]. eapply store_logs_R; eassumption.
  - destruct (settle_ok c s Hc HS ltac:(lia)) as (ss & t & tw & He & HI & His & _ & _ & Hid1 & Hid2).
    assert (R0 := settle_R c s Hc HS ltac:(lia)).
    destruct (delete_range c _ mn mx _) as [[r0 w'] e'] eqn:Es. inversion Hstep; subst. cbn [ss_env].
    eapply R_trans; [exact R0|].
    eapply (delete_range_R c _ _ ss t tw mn mx); try eassumption. unfold s_nid in *. lia.
  - destruct HS as (He & _). destruct (get_log _ i _) as [r0 e'] eqn:Eg. inversion Hstep; subst. cbn [ss_env].
    eapply get_log_R; eassumption.
  - inversion Hstep; subst. apply R_refl. apply HS.
  - inversion Hstep; subst. apply R_refl. apply HS.
  - destruct HS as (He & _). destruct (set_stable _ k v n _) as [r0 e'] eqn:Eg. inversion Hstep; subst. cbn [ss_env].
    eapply set_stable_R; eassumption.
  - destruct HS as (He & _). destruct (get_stable _ k _) as [r0 e'] eqn:Eg. inversion Hstep; subst. cbn [ss_env].
    eapply get_stable_R; eassumption.
  - contradiction.
Qed.

(* ------------------------------------------------------------------ *)
(* Open: the trace is extended (its own commits belong to no lifetime)   *)
Definition E (e e' : env) : Prop := e_fault e' = None /\ exists new, ext e e' new.

Lemma R_E e e' : R e e' -> E e e'.
Proof. intros (F & new & X & _). split; [exact F|]. exists new. exact X. Qed.
Lemma E_refl e : e_fault e = None -> E e e.
Proof. intros H. apply R_E. apply R_refl. exact H. Qed.
Lemma E_trans e1 e2 e3 : E e1 e2 -> E e2 e3 -> E e1 e3.
Proof.
  intros (_ & n1 & A1 & D1) (F & n2 & A2 & D2). split; [exact F|]. exists (n1 ++ n2). split.
  - rewrite A2, A1, rev_app_distr, app_assoc. reflexivity.
  - rewrite fold_left_app, <- D1. exact D2.
Qed.
Lemma E_io a e : E e (io_post a e).
Proof. split; [reflexivity|]. exists [a]. split; reflexivity. Qed.
Lemma E_fault e e' : E e e' -> e_fault e' = None.
Proof. intros (H & _). exact H. Qed.

Lemma open_segs_E c : forall segs acc e r segs' tail e',
  e_fault e = None -> open_segs c segs acc e = (r, segs', tail, e') -> E e e'.
Proof.
  induction segs as [|si rest IH]; intros acc e r segs' tail e' He H; cbn [open_segs] in H.
  - inversion H; subst. apply E_refl. exact He.
  - destruct (negb (si_codec si =? c_codec c)); [inversion H; subst; apply E_refl; exact He|].
    destruct (negb (si_sealed si)).
    + destruct rest; [|inversion H; subst; apply E_refl; exact He].
      destruct (seg_recover si e) as [x|].
      * destruct x as [sw|]; [|inversion H; subst; apply E_refl; exact He].
        destruct (0 <? ws_index_start sw); inversion H; subst; apply E_refl; exact He.
      * destruct (seg_create si e) as [sw e1] eqn:Ec.
        assert (R1 := R_E _ _ (seg_create_R _ _ _ _ He Ec)).
        destruct sw as [sw|]; [|inversion H; subst; exact R1].
        destruct (0 <? ws_index_start sw); inversion H; subst; exact R1.
    + destruct (lookup _ _) as [f|]; [|inversion H; subst; apply E_refl; exact He].
      destruct (cur_end f =? 0); [inversion H; subst; apply E_refl; exact He|].
      eapply IH; eassumption.
Qed.

Lemma open_wal_E c e r e' : e_fault e = None -> open_wal c e = (r, e') -> E e e'.
Proof.
  intros He. unfold open_wal.
  destruct (_ && _); [intros H; inversion H; subst; apply E_refl; exact He|].
  assert (X : exists e0, (if dk_inited (e_disk e) then (true, e) else io AInitMeta e) = (true, e0) /\ E e e0).
  { destruct (dk_inited (e_disk e)); [exists e; split; [reflexivity|apply E_refl; exact He]|].
    rewrite (io_ok _ _ He). eexists. split; [reflexivity|apply E_io]. }
  destruct X as (e0 & -> & E0). cbn [negb]. assert (He0 := E_fault _ _ E0).
  unfold armed. rewrite He0. cbn [andb].
  destruct (open_segs c _ [] e0) as [[[r0 segs] tail] e1] eqn:Eo.
  assert (E1 : E e e1) by (eapply E_trans; [exact E0|eapply open_segs_E; eassumption]).
  assert (He1 := E_fault _ _ E1).
  destruct r0; try (intros H; inversion H; subst; exact E1).
  destruct tail as [tw|].
  - intros H; inversion H; subst. eapply E_trans; [exact E1|]. apply R_E. apply delete_files_R. exact He1.
  - rewrite (io_ok _ _ He1). cbn [negb].
    match goal with |- context [seg_create ?si ?ex] => destruct (seg_create si ex) as [sw e3] eqn:Ec end.
    assert (E3 : E e e3).
    { eapply E_trans; [exact E1|]. eapply E_trans; [apply E_io|].
      apply R_E. eapply seg_create_R; [|exact Ec]. reflexivity. }
    destruct sw; intros H; inversion H; subst; [|exact E3].
    eapply E_trans; [exact E3|]. apply R_E. apply delete_files_R. apply (E_fault _ _ E3).
Qed.

Lemma step_E c s o r s' :
  cfg_ok c -> sop_ok o -> SInv c s -> s_nid s + 2 < two64 ->
  step_model c s o = (r, s') -> E (ss_env s) (ss_env s').
Proof.
  intros Hc Hop HS Hnid Hstep.
  assert (D : o = OReopen \/ o <> OReopen) by (destruct o; (left; reflexivity) || (right; discriminate)).
  destruct D as [->|Hno]; [|apply R_E; eapply step_R; eassumption].
  cbn [step_model] in Hstep. destruct HS as (He & _).
  destruct (open_wal c (ss_env s)) as [ro e'] eqn:Eo. assert (X := open_wal_E _ _ _ _ He Eo).
  destruct ro; inversion Hstep; subst; exact X.
Qed.

(* ------------------------------------------------------------------ *)
(* histories                                                            *)
Lemma run_E c : forall os s,
  cfg_ok c -> Forall sop_ok os -> SInv c s -> s_nid s + 2 * N.of_nat (length os) < two64 ->
  E (ss_env s) (ss_env (snd (run_model c s os))).
Proof.
  induction os as [|o os IH]; intros s Hc Hops HS Hnid; [apply E_refl; apply HS|].
  inversion Hops as [|? ? Hop Hops']; subst. cbn [run_model]. cbn [length] in Hnid.
  destruct (step_model c s o) as [r s1] eqn:Estep.
  destruct (step_ok c s o {| sp_log := s_abs s; sp_kv := s_kv s |} r s1 Hc Hop HS ltac:(lia) eq_refl eq_refl Estep)
    as (HS1 & _ & _ & _ & Hid1 & Hid2).
  assert (E1 := step_E c s o r s1 Hc Hop HS ltac:(lia) Estep).
  specialize (IH s1 Hc Hops' HS1 ltac:(lia)).
  destruct (run_model c s1 os) as [rs s2]. cbn [snd] in *. eapply E_trans; eassumption.
Qed.

Lemma run_R c : forall os s,
  cfg_ok c -> Forall sop_ok os -> SInv c s -> s_nid s + 2 * N.of_nat (length os) < two64 ->
  Forall (fun o => o <> OReopen) os ->
  R (ss_env s) (ss_env (snd (run_model c s os))).
Proof.
  induction os as [|o os IH]; intros s Hc Hops HS Hnid Hno; [apply R_refl; apply HS|].
  inversion Hops as [|? ? Hop Hops']; subst. inversion Hno as [|? ? Hn1 Hno']; subst.
  cbn [run_model]. cbn [length] in Hnid.
  destruct (step_model c s o) as [r s1] eqn:Estep.
  destruct (step_ok c s o {| sp_log := s_abs s; sp_kv := s_kv s |} r s1 Hc Hop HS ltac:(lia) eq_refl eq_refl Estep)
    as (HS1 & _ & _ & _ & Hid1 & Hid2).
  assert (R1 := step_R c s o r s1 Hc Hop HS ltac:(lia) Hn1 Estep).
  specialize (IH s1 Hc Hops' HS1 ltac:(lia) Hno').
  destruct (run_model c s1 os) as [rs s2]. cbn [snd] in *. eapply R_trans; eassumption.
Qed.

Lemma run_model_app c : forall a b s,
  snd (run_model c s (a ++ b)) = snd (run_model c (snd (run_model c s a)) b).
Proof.
  induction a as [|o a IH]; intros b s; [reflexivity|]. cbn [app run_model].
  destruct (step_model c s o) as [r s1]. specialize (IH b s1).
  destruct (run_model c s1 (a ++ b)) as [x1 y1]. destruct (run_model c s1 a) as [x2 y2]. cbn [snd] in *.
  rewrite IH. destruct (run_model c y2 b). reflexivity.
Qed.

(* the disk is what the trace replays to *)
Definition TInv (e : env) : Prop := e_disk e = fold_left apply_act (rev (e_acts e)) empty_disk.

Lemma TInv_E e e' : TInv e -> E e e' -> TInv e'.
Proof.
  unfold TInv. intros T (_ & new & A & D). rewrite A, D, rev_app_distr, rev_involutive, fold_left_app, <- T.
  reflexivity.
Qed.

Lemma trace_rotations_ext e1 e2 new :
  TInv e1 -> ext e1 e2 new ->
  trace_rotations (length (e_acts e1)) (e_acts e2) = rot_count (e_disk e1) new.
Proof.
  unfold TInv. intros T (A & _). unfold trace_rotations. cbv zeta.
  rewrite rev_append_rev, app_nil_r, A, rev_app_distr, rev_involutive.
  rewrite <- (rev_length (e_acts e1)).
  rewrite firstn_app, skipn_app, Nat.sub_diag, firstn_all, skipn_all. cbn [firstn skipn app].
  rewrite app_nil_r, <- T. reflexivity.
Qed.

Lemma last_life_spec : forall os p l,
  last_life os = (p, l) -> os = p ++ l /\ Forall (fun o => o <> OReopen) l.
Proof.
  induction os as [|o os IH]; intros p l H; cbn [last_life] in H.
  - inversion H; subst. split; [reflexivity|constructor].
  - destruct (last_life os) as [p0 l0]. destruct (IH _ _ eq_refl) as (-> & HF).
    destruct p0 as [|x p0].
    + destruct o; inversion H; subst; (split; [reflexivity|]); try exact HF; constructor; try exact HF; discriminate.
    + inversion H; subst. split; [reflexivity|exact HF].
Qed.

(* ------------------------------------------------------------------ *)
(* Any stretch of calls without a Close;Open: the counter moved by the
   rotations the trace shows for that stretch. *)
Theorem rotations_segment c os1 os2 s0 :
  cfg_ok c -> Forall sop_ok (os1 ++ os2) -> short_enough (os1 ++ os2) -> initial c = Some s0 ->
  Forall (fun o => o <> OReopen) os2 ->
  let s1 := snd (run_model c s0 os1) in
  let s2 := snd (run_model c s0 (os1 ++ os2)) in
  m_rotations (e_m (ss_env s2)) =
  m_rotations (e_m (ss_env s1)) + trace_rotations (length (e_acts (ss_env s1))) (e_acts (ss_env s2)).
Proof.
  intros Hc Hops Hshort Hinit Hno s1 s2. unfold s2. rewrite run_model_app. fold s1.
  apply Forall_app in Hops. destruct Hops as [Hops1 Hops2].
  unfold short_enough in Hshort. rewrite app_length in Hshort.
  destruct (initial_inv c s0 Hc Hinit) as (HS & Ha0 & Hk0 & Hid & _).
  assert (Hb1 : s_nid s0 + 2 * N.of_nat (length os1) < two64) by (rewrite Hid; unfold two64; lia).
  destruct (run_ok c os1 s0 spec_init Hc Hops1 HS Hb1) as (_ & _ & _ & HS1 & Hid1);
    [symmetry; exact Ha0|symmetry; exact Hk0|]. fold s1 in HS1, Hid1.
  assert (T0 : TInv (ss_env s0)).
  { unfold initial in Hinit. destruct (open_wal c fresh_env) as [ro e] eqn:Eo.
    destruct ro; [|discriminate]. inversion Hinit; subst. cbn [ss_env].
    apply (TInv_E fresh_env); [reflexivity|]. eapply open_wal_E; [|exact Eo]. reflexivity. }
  assert (T1 : TInv (ss_env s1)) by (apply (TInv_E _ _ T0); apply run_E; assumption).
  assert (RR : R (ss_env s1) (ss_env (snd (run_model c s1 os2)))).
  { apply run_R; try assumption. rewrite Hid in Hid1. unfold two64. lia. }
  destruct RR as (_ & new & X & M). rewrite (trace_rotations_ext _ _ _ T1 X). exact M.
Qed.

(* per lifetime *)
Theorem rotations_true c os s0 :
  cfg_ok c -> Forall sop_ok os -> short_enough os -> initial c = Some s0 ->
  rotations_show c s0 os.
Proof.
  intros Hc Hops Hshort Hinit. unfold rotations_show.
  destruct (last_life os) as [p l] eqn:El. destruct (last_life_spec _ _ _ El) as (-> & Hno). cbn [fst].
  apply rotations_segment; assumption.
Qed.
