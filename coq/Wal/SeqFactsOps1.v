(* SeqFactsOps1.v -- rotation (settle) and StoreLogs on invariant states. *)
From RW Require Import Base.Bytes Base.BytesFacts Fmt.Codec Fmt.CodecFacts Fmt.Frame
  Wal.Model Wal.Spec Wal.SeqInv Wal.SeqFactsBase Wal.SeqFactsAbs Wal.SeqFactsTxn Gen.Constants.
From Coq Require Import ZifyN ZifyNat ZifyBool.
Open Scope N_scope.

(* the visible part of a sealed segment does not depend on the tail *)
Lemma seg_visible_sealed tl tl' d s : si_sealed s = true -> seg_visible tl d s = seg_visible tl' d s.
Proof. intros H. unfold seg_visible. rewrite H. reflexivity. Qed.
Lemma flat_map_visible_sealed c tl tl' d d' ss :
  Forall (sealed_ok c d) ss ->
  (forall s, In s ss -> lookup (name_of s) (dk_files d') = lookup (name_of s) (dk_files d)) ->
  flat_map (seg_visible tl' d') ss = flat_map (seg_visible tl d) ss.
Proof.
  intros HS E. rewrite (flat_map_visible_frame tl' d d' ss E). clear E.
  induction HS as [|s r Hs _ IH]; [reflexivity|]. cbn [flat_map].
  rewrite IH. rewrite (seg_visible_sealed tl' tl d s) by apply Hs. reflexivity.
Qed.

(* abs of a state whose tail is empty *)
Lemma abs_empty_tail c w d ss t tw :
  WInvS c w d ss t tw -> ws_n tw = 0 ->
  abs w d = match ss with
            | [] => sl_empty
            | s :: _ => {| sl_first := si_min s; sl_ents := flat_map (seg_visible 0 d) ss |}
            end.
Proof.
  intros HI Hn. rewrite (abs_eq _ _ _ _ _ _ HI).
  destruct HI as (_ & _ & _ & _ & _ & Hsegs & Htail & HS & HT & HL & _).
  rewrite Hsegs, Htail. rewrite (last_index_inv c d ss _ _ HT), (first_index_inv _ _ _ _ _ HS HT), Hn.
  change (0 =? 0) with true. cbv iota.
  destruct ss as [|s r]; [reflexivity|].
  assert (Hlt := linked_lt _ t (Forall_impl _ (sealed_srange c d) HS) HL).
  inversion Hlt as [|? ? Hs _]; subst. inversion HS as [|? ? Hs' _]; subst.
  destruct Hs' as (_ & _ & ? & ? & ? & _).
  destruct (N.eqb_spec (si_base t - 1) 0); [lia|]. f_equal.
  rewrite flat_map_app.
  change (flat_map (seg_visible (ws_commit_idx tw) d) [t]) with (seg_visible (ws_commit_idx tw) d t ++ []).
  rewrite app_nil_r.
  destruct (vis_tail _ _ _ _ HT) as (f & _ & _ & _ & _ & _ & Hlen & _).
  assert (Hr : si_base t <= si_min t) by apply HT.
  rewrite (llen_0 (seg_visible (ws_commit_idx tw) d t)) by lia. rewrite app_nil_r.
  apply (flat_map_visible_sealed c); [exact HS|reflexivity].
Qed.

(* ------------------------------------------------------------------ *)
(* rotation                                                             *)
Definition inc_rot (m : metrics) : metrics :=
  {| m_bytes_written := m_bytes_written m; m_entries_written := m_entries_written m;
     m_appends := m_appends m; m_bytes_read := m_bytes_read m;
     m_entries_read := m_entries_read m; m_rotations := m_rotations m + 1;
     m_head_trunc := m_head_trunc m; m_tail_trunc := m_tail_trunc m;
     m_stable_gets := m_stable_gets m; m_stable_sets := m_stable_sets m |}.

(* the tail segment recorded as sealed at its last index *)
Definition seal_info (t : seginfo) (mx istart : N) : seginfo :=
  {| si_id := si_id t; si_base := si_base t; si_min := si_min t; si_max := mx; si_codec := si_codec t;
     si_index_start := istart; si_sealed := true; si_size_limit := si_size_limit t |}.

Lemma sealed_of_tail c d t tw istart :
  tail_ok c d t tw -> 0 < ws_n tw ->
  sealed_ok c d (seal_info t (si_base t + ws_n tw - 1) istart).
Proof.
  intros (H1 & H2 & H3 & H4 & H5 & H6 & H7 & H8 & H9 & H10 & H11 & H12 & H13 & H14 & H15 & H16 & H17
          & f & Hf & Hn & He & Hs) Hpos.
  unfold sealed_ok, seal_info. cbn [si_sealed si_codec si_base si_min si_max].
  split; [reflexivity|]. split; [exact H2|]. split; [exact H4|]. split; [exact H5|].
  split; [lia|]. split; [lia|]. exists f. split; [|split; lia]. exact Hf.
Qed.

Lemma rotate_ok c w e ss t tw :
  cfg_ok c -> e_fault e = None -> WInvS c w (e_disk e) ss t tw ->
  0 < ws_index_start tw -> st_next_id w + 1 < two64 ->
  exists w' e' ss' t' tw',
    rotate c w e = (w', e') /\ e_fault e' = None /\ WInvS c w' (e_disk e') ss' t' tw' /\
    ws_index_start tw' = 0 /\ abs w' (e_disk e') = abs w (e_disk e) /\
    dk_stable (e_disk e') = dk_stable (e_disk e) /\ st_next_id w' = st_next_id w + 1 /\
    e_m e' = inc_rot (e_m e).
Proof.
  intros Hc He HI Hpos Hnid.
  assert (HI0 := HI).
  destruct HI as (Hcl & Hfa & Hmeta & Hini & Hfr & Hsegs & Htail & HS & HT & HL & Hro).
  destruct (N.ltb_spec 0 (ws_index_start tw)) as [_|]; [|lia].
  assert (Hn : 0 < ws_n tw) by (apply HT; exact Hpos).
  destruct (tail_commit _ _ _ _ HT) as [Hci Hb1].
  assert (Hci' : ws_commit_idx tw = si_base t + ws_n tw - 1).
  { rewrite Hci. destruct (N.eqb_spec (ws_n tw) 0); [lia|reflexivity]. }
  assert (Hb2 : si_base t + ws_n tw < two64) by apply HT.
  assert (Hlt := linked_base_lt ss t (Forall_impl _ (sealed_srange c (e_disk e)) HS) HL).
  unfold rotate. rewrite Hro.
  set (w0 := {| st_next_id := st_next_id w; st_segs := st_segs w; st_tail := st_tail w; st_rotate := None;
                st_failed := st_failed w; st_closed := st_closed w |}).
  rewrite Hcl, Hsegs, tail_info_snoc, Htail. cbn [tail_last].
  set (istart := ws_index_start tw).
  fold (seal_info t (ws_commit_idx tw) istart).
  set (t' := seal_info t (ws_commit_idx tw) istart).
  rewrite (seg_set_replace_last t' ss t Hlt eq_refl).
  set (e0 := add_m e _).
  rewrite create_next_snoc; [| |cbn [t' seal_info si_max]; lia|exact Hnid].
  2:{ apply Forall_app. split.
      - eapply Forall_impl; [|exact Hlt]. intros s Hs. cbn [t' seal_info si_max] in *. lia.
      - constructor; [|constructor]. cbn [t' seal_info si_max si_base]. lia. }
  set (base := si_max t' + 1).
  assert (Hbase : base = si_base t + ws_n tw) by (unfold base; cbn [t' seal_info si_max]; lia).
  assert (HSt' : sealed_ok c (e_disk e) t').
  { unfold t'. rewrite Hci'. apply sealed_of_tail; assumption. }
  destruct (mutate_new_tail c false w0 e0 (ss ++ [t']) base []) as (Hmut & HI' & He' & Hst' & Hm' & Hlk');
    try assumption; try reflexivity; try lia.
  { apply Forall_app. split; [exact HS|]. constructor; [exact HSt'|constructor]. }
  { rewrite <- app_assoc. cbn [app]. apply linked_app_intro.
    - eapply linked_last_replace; [| |exact HL]; reflexivity.
    - cbn [linked new_segment si_base si_min]. repeat split; reflexivity. }
  unfold mutate. change (st_next_id w) with (st_next_id w0) at 1 2 3. rewrite Hmut.
  cbn [delete_files fold_left].
  eexists _, _, (ss ++ [t']), _, _.
  split; [reflexivity|]. split; [exact He'|]. split; [exact HI'|].
  split; [reflexivity|]. split; [|split; [exact Hst'|split; [reflexivity|exact Hm']]].
  rewrite (abs_empty_tail _ _ _ _ _ _ HI' eq_refl).
  rewrite (abs_eq _ _ _ _ _ _ HI0), Hsegs, Htail.
  rewrite (last_index_inv c (e_disk e) ss _ _ HT), (first_index_inv _ _ _ _ _ HS HT).
  destruct (N.eqb_spec (ws_n tw) 0) as [|_]; [lia|].
  destruct (N.eqb_spec (si_base t + ws_n tw - 1) 0) as [|_]; [lia|].
  assert (Econt : flat_map (seg_visible 0 (e_disk (create_env (new_segment c (st_next_id w0) base)
                     (commit_env (st_next_id w0 + 1) ((ss ++ [t']) ++ [new_segment c (st_next_id w0) base]) e0))))
                     (ss ++ [t'])
                  = flat_map (seg_visible (ws_commit_idx tw) (e_disk e)) (ss ++ [t])).
  { rewrite !flat_map_app. f_equal.
    - apply (flat_map_visible_sealed c); [exact HS|]. intros s Hs. apply Hlk'.
      apply fname_neq_base. cbn [name_of fst new_segment si_base]. rewrite Forall_forall in Hlt.
      specialize (Hlt s Hs). lia.
    - cbn [flat_map]. f_equal. unfold seg_visible. cbn [t' seal_info si_sealed si_max si_min si_base].
      assert (Hs : si_sealed t = false) by apply HT. rewrite Hs.
      unfold file_ents. rewrite Hlk'; [reflexivity|].
      apply fname_neq_base. unfold t', name_of, new_segment, seal_info. cbn [fst si_base]. lia. }
  rewrite Econt. destruct ss as [|s r]; cbn [app]; reflexivity.
Qed.

(* ------------------------------------------------------------------ *)
(* Writer.Append                                                        *)
Lemma existsb_false {A} (f : A -> bool) l : Forall (fun x => f x = false) l -> existsb f l = false.
Proof. induction 1 as [|x l Hx _ IH]; [reflexivity|]. cbn [existsb]. rewrite Hx, IH. reflexivity. Qed.

Lemma append_arith off n k fs lim (hdr : bool) :
  lim < two30 -> off <= lim -> 8 * n <= off -> 8 * k <= fs -> 0 < k -> fs < two30 ->
  let n' := n + k in
  let buf := (if hdr then 32 else 0) + fs in
  (off + (buf + index_frame_size n') mod two32) mod two32 = off + buf + index_frame_size n' /\
  forall seal : bool, seal = (lim <? off + buf + index_frame_size n') ->
    let total := (if seal then buf + index_frame_size n' else buf) + 8 in
    (off + total) mod two32 = off + total /\ (off + total =? 0) = false /\
    8 * n' <= off + total /\ off + total < two32 /\
    ((if seal then off + buf + 8 else 0) = 0 -> off + total <= lim).
Proof.
  intros H1 H2 H3 H4 H5 H6 n' buf.
  assert (Hbuf : fs <= buf /\ buf <= 32 + fs) by (unfold buf; destruct hdr; lia).
  assert (Hifs := index_frame_size_bounds n' ltac:(unfold n'; lia)).
  clearbody buf. unfold n' in *. clear n'. unfold two30, two32 in *.
  split.
  - rewrite (N.mod_small (buf + _)) by lia. rewrite N.mod_small by lia. lia.
  - intros seal Hseal.
    destruct (N.ltb_spec lim (off + buf + index_frame_size (n + k))); subst seal.
    + rewrite N.mod_small by lia. repeat split; lia.
    + rewrite N.mod_small by lia. repeat split; lia.
Qed.

Lemma seg_append_ok c e t tw ls :
  cfg_ok c -> e_fault e = None -> tail_ok c (e_disk e) t tw -> ws_index_start tw = 0 ->
  ls <> [] -> logs_ok ls -> frames_size ls < two30 -> consecutive (si_base t + ws_n tw) ls = true ->
  exists tw' e',
    seg_append tw ls e = (ROk, tw', e') /\ e_fault e' = None /\ e_m e' = e_m e /\
    tail_ok c (e_disk e') t tw' /\ ws_n tw' = ws_n tw + llen ls /\
    dk_meta (e_disk e') = dk_meta (e_disk e) /\ dk_stable (e_disk e') = dk_stable (e_disk e) /\
    dk_inited (e_disk e') = dk_inited (e_disk e) /\
    (forall m, fname_eqb m (name_of t) = false ->
               lookup m (dk_files (e_disk e')) = lookup m (dk_files (e_disk e))) /\
    seg_visible (ws_commit_idx tw') (e_disk e') t = seg_visible (ws_commit_idx tw) (e_disk e) t ++ ls.
Proof.
  intros Hc He HT His Hne Hok Hfs Hcons.
  destruct (vis_tail _ _ _ _ HT) as (f & Hf & Hlen & Hend & Hseal & Hvis & _).
  destruct HT as (H1 & H2 & H3 & H4 & H5 & H6 & H7 & H8 & H9 & H10 & H11 & H12 & H13 & H14 & H15 & H16 & H17
          & _).
  destruct (cfg_seg_size c Hc) as [Hs1 Hs2].
  destruct ls as [|l0 rest]; [congruence|]. set (ls := l0 :: rest) in *.
  assert (Hl0 : l_index l0 = si_base t + ws_n tw) by (eapply consecutive_hd; exact Hcons).
  assert (Hbig : existsb (fun l => MaxEntrySize <? enc_len l) ls = false).
  { apply existsb_false. eapply Forall_impl; [|exact Hok]. intros l (_ & _ & _ & Hl). cbv beta. lia. }
  assert (Hlast : si_base t + ws_n tw + llen ls < two64).
  { assert (Hx : exists x, nth_error ls (length ls - 1) = Some x).
    { destruct (nth_error ls (length ls - 1)) eqn:E; [eauto|].
      apply nth_error_None in E. unfold ls in E. cbn [length] in E. lia. }
    destruct Hx as [x Hx]. assert (Hi := consecutive_nth _ _ _ _ Hcons Hx).
    apply nth_error_In in Hx. unfold logs_ok in Hok. rewrite Forall_forall in Hok.
    destruct (Hok x Hx) as (_ & _ & Hu & _). unfold llen, ls in *. cbn [length] in *. lia. }
  assert (Hllen : 0 < llen ls) by (unfold ls; rewrite llen_cons; lia).
  assert (Hfg := frames_size_ge ls).
  assert (Hoff : ws_off tw <= c_seg_size c) by (apply H16; exact His).
  unfold seg_append. unfold ls at 1. cbv iota. rewrite His. change (0 <? 0) with false. cbv iota.
  rewrite Hbig, H9, Hl0, N.eqb_refl. cbn [negb]. cbv zeta.
  set (n' := ws_n tw + llen ls).
  set (buf := (if ws_hdr tw then 32 else 0) + frames_size ls).
  destruct (append_arith (ws_off tw) (ws_n tw) (llen ls) (frames_size ls) (c_seg_size c) (ws_hdr tw)
              Hs2 Hoff H14 Hfg Hllen Hfs) as [Hnw1 Hnw2].
  fold n' buf in Hnw1, Hnw2.
  rewrite Hnw1, H10. clear Hnw1.
  set (seal := c_seg_size c <? ws_off tw + buf + index_frame_size n') in *.
  specialize (Hnw2 seal eq_refl). cbv zeta in Hnw2.
  set (total := (if seal then buf + index_frame_size n' else buf) + 8) in *.
  destruct Hnw2 as (Hnw2 & Ht0 & Ht1 & Ht2 & Ht3).
  rewrite Hnw2. clear Hnw2. rewrite (io_ok _ _ He). cbn [negb]. rewrite (io_ok _ _ (io_post_fault _ _)). cbn [negb].
  eexists _, _. split; [reflexivity|]. split; [reflexivity|]. split; [reflexivity|].
  assert (Hn' : n' = ws_n tw + llen ls) by reflexivity.
  clearbody total seal buf n'. clear Hbig Hfg Hfs Hoff H14 H15 H16 H17 H13 Hs1 Hs2.
  set (b := {| pb_ents := ls; pb_end := ws_off tw + total;
               pb_seal := if seal then ws_off tw + buf + 8 else 0 |}).
  assert (Hd : e_disk (io_post (ASync (ws_name tw)) (io_post (AWrite (ws_name tw) (ws_off tw) total b) e))
               = wsync (e_disk e) (name_of t) (ws_off tw) total b).
  { rewrite H8. reflexivity. }
  rewrite Hd. clear Hd.
  destruct Hf as (Hlk & Hpend & Hfc & Hfok).
  assert (Hlk' := fun m => lookup_wsync (e_disk e) (name_of t) (ws_off tw) total b f m Hlk Hpend).
  destruct (wsync_other (e_disk e) (name_of t) (ws_off tw) total b) as (Ho1 & Ho2 & Ho3).
  set (f' := {| df_ents := df_ents f ++ pb_ents b; df_end := pb_end b; df_seal := pb_seal b;
                df_pend := None; df_dir := true; df_size := df_size f |}) in *.
  assert (Hf' : file_ok (wsync (e_disk e) (name_of t) (ws_off tw) total b) t f').
  { unfold file_ok. rewrite Hlk', fname_eqb_refl. cbn [f' df_pend df_ents b pb_ents].
    split; [reflexivity|]. split; [reflexivity|]. split.
    - rewrite consecutive_app, Hfc, Hlen. exact Hcons.
    - apply Forall_app. split; assumption. }
  assert (Hn'0 : (n' =? 0) = false) by lia.
  split.
  { unfold tail_ok. cbn [ws_n ws_name ws_base ws_min ws_limit ws_off ws_hdr ws_index_start ws_commit_idx].
    rewrite Hn'0.
    repeat split; auto; try lia.
    exists f'. split; [exact Hf'|]. cbn [f' df_ents df_end df_seal b pb_ents pb_end pb_seal].
    rewrite llen_app, Hlen, Hn'. repeat split; reflexivity. }
  split; [reflexivity|]. split; [exact Ho1|]. split; [exact Ho2|]. split; [exact Ho3|].
  split.
  { intros m Hm. rewrite Hlk', Hm. reflexivity. }
  cbn [ws_commit_idx]. rewrite Hvis.
  rewrite seg_visible_eq by lia. rewrite (emax_unsealed _ _ H1), (file_ents_ok _ _ _ Hf').
  cbn [f' df_ents b pb_ents].
  rewrite firstn_all2.
  - apply skipn_app_le. unfold llen in Hlen. lia.
  - rewrite skipn_length, app_length. unfold llen in *. lia.
Qed.

(* ------------------------------------------------------------------ *)
(* the monotonicity loop of StoreLogs                                   *)
Lemma check_logs_inner : forall r i, logs_ok r -> 1 <= i -> i + 1 < two64 ->
  fst (check_logs i r) = if consecutive (i + 1) r then ROk else RErrNonMono.
Proof.
  induction r as [|l r IH]; intros i Hok Hi1 Hi2; [reflexivity|].
  inversion Hok as [|? ? Hl Hr]; subst. cbn [check_logs consecutive].
  destruct (N.ltb_spec 0 i); [|lia]. rewrite mod64_small by exact Hi2. cbn [andb].
  destruct (N.eqb_spec (l_index l) (i + 1)) as [E|E]; cbn [negb andb]; [|reflexivity].
  destruct (log_ok_codec l Hl) as (_ & b & Hb). rewrite Hb.
  destruct Hl as (_ & Hl1 & Hl2 & _).
  specialize (IH (l_index l) Hr Hl1 Hl2). destruct (check_logs (l_index l) r) as [res n].
  cbn [fst] in *. rewrite IH, E. reflexivity.
Qed.

Lemma check_logs_fst last l0 rest : logs_ok (l0 :: rest) -> last + 1 < two64 ->
  fst (check_logs last (l0 :: rest)) =
  if ((last =? 0) || (l_index l0 =? last + 1)) && consecutive (l_index l0) (l0 :: rest)
  then ROk else RErrNonMono.
Proof.
  intros Hok Hlast. inversion Hok as [|? ? Hl Hr]; subst. cbn [check_logs consecutive].
  rewrite mod64_small by exact Hlast. rewrite N.eqb_refl. cbn [andb].
  destruct (N.eqb_spec last 0) as [E0|E0]; cbn [orb].
  - subst last. cbn [N.ltb andb]. change (0 <? 0) with false. cbn [andb].
    destruct (log_ok_codec l0 Hl) as (_ & b & Hb). rewrite Hb.
    destruct Hl as (_ & Hl1 & Hl2 & _).
    assert (IH := check_logs_inner rest (l_index l0) Hr Hl1 Hl2).
    destruct (check_logs (l_index l0) rest) as [res n]. cbn [fst] in *. exact IH.
  - destruct (N.ltb_spec 0 last); [|lia]. cbn [andb].
    destruct (N.eqb_spec (l_index l0) (last + 1)) as [E|E]; cbn [negb andb]; [|reflexivity].
    destruct (log_ok_codec l0 Hl) as (_ & b & Hb). rewrite Hb.
    destruct Hl as (_ & Hl1 & Hl2 & _).
    assert (IH := check_logs_inner rest (l_index l0) Hr Hl1 Hl2).
    destruct (check_logs (l_index l0) rest) as [res n]. cbn [fst] in *. exact IH.
Qed.

(* total encoded size of a batch, as StoreLogs accounts it *)
Definition bytes_sum (ls : list log) : N := fold_right (fun l a => enc_len l + a) 0 ls.

Lemma check_logs_snd : forall r i, fst (check_logs i r) = ROk ->
  snd (check_logs i r) = bytes_sum r mod two64.
Proof.
  induction r as [|l r IH]; intros i; [reflexivity|]. cbn [check_logs bytes_sum fold_right].
  destruct (_ && _); [discriminate|]. unfold enc_len at 1.
  destruct (encode_log l) as [b|]; [|discriminate].
  specialize (IH (l_index l)). destruct (check_logs (l_index l) r) as [res n]. cbn [fst snd] in *.
  intros Hr. rewrite (IH Hr). fold (bytes_sum r). apply N.add_mod_idemp_r. unfold two64. lia.
Qed.

(* the state after a successful append to the tail *)
Definition appended (w : wal) (tw' : wseg) : wal :=
  {| st_next_id := st_next_id w; st_segs := st_segs w; st_tail := Some tw';
     st_rotate := if 0 <? ws_index_start tw' then Some (ws_index_start tw') else None;
     st_failed := st_failed w; st_closed := st_closed w |}.

Lemma append_state c w d d' ss t tw tw' ls :
  WInvS c w d ss t tw -> tail_ok c d' t tw' ->
  dk_meta d' = dk_meta d -> dk_inited d' = dk_inited d ->
  (forall m, fname_eqb m (name_of t) = false -> lookup m (dk_files d') = lookup m (dk_files d)) ->
  seg_visible (ws_commit_idx tw') d' t = seg_visible (ws_commit_idx tw) d t ++ ls ->
  ws_n tw' = ws_n tw + llen ls -> ls <> [] ->
  WInvS c (appended w tw') d' ss t tw' /\
  abs (appended w tw') d' =
    {| sl_first := if last_index (st_segs w) (st_tail w) =? 0 then si_base t
                   else first_index (st_segs w) (st_tail w);
       sl_ents := sl_ents (abs w d) ++ ls |}.
Proof.
  intros HI HT' Em Ei El Ev En Hne.
  assert (HI0 := HI).
  destruct HI as (Hcl & Hfa & Hmeta & Hini & Hfr & Hsegs & Htail & HS & HT & HL & Hro).
  assert (Hlt := linked_base_lt ss t (Forall_impl _ (sealed_srange c d) HS) HL).
  assert (Hoth : forall s, In s ss -> lookup (name_of s) (dk_files d') = lookup (name_of s) (dk_files d)).
  { intros s Hs. apply El. apply fname_neq_base. rewrite Forall_forall in Hlt. specialize (Hlt s Hs).
    cbn [name_of fst]. lia. }
  assert (HS' : Forall (sealed_ok c d') ss) by (eapply sealed_ok_frame_all; eauto).
  assert (HI' : WInvS c (appended w tw') d' ss t tw').
  { apply WInvS_intro; unfold appended; cbn [st_closed st_failed st_segs st_tail st_rotate st_next_id]; auto.
    - rewrite Em, Hmeta. reflexivity.
    - congruence.
    - intros n Hn. cbn [st_next_id] in Hn. destruct (fname_eqb n (name_of t)) eqn:E.
      + apply fname_eqb_eq in E. subst n. specialize (Hfr _ Hn).
        destruct HT as (_ & _ & _ & _ & _ & _ & _ & _ & _ & _ & _ & _ & _ & _ & _ & _ & _ & f & (Hl & _) & _).
        congruence.
      + rewrite El by exact E. apply Hfr. exact Hn. }
  split; [exact HI'|].
  assert (Hllen : 0 < llen ls).
  { destruct ls; [congruence|]. rewrite llen_cons. lia. }
  rewrite (abs_eq _ _ _ _ _ _ HI'). unfold appended at 1 2 3 4. cbn [st_segs st_tail].
  rewrite Hsegs.
  rewrite (last_index_inv c d' ss _ _ HT'), (first_index_inv _ _ _ _ _ HS' HT').
  assert (Hb : 1 <= si_base t) by apply HT.
  destruct (N.eqb_spec (ws_n tw') 0) as [|_]; [lia|].
  destruct (N.eqb_spec (si_base t + ws_n tw' - 1) 0) as [|_]; [lia|].
  rewrite (abs_eq _ _ _ _ _ _ HI0), Hsegs, Htail.
  assert (Econt : flat_map (seg_visible (ws_commit_idx tw') d') (ss ++ [t])
                  = flat_map (seg_visible (ws_commit_idx tw) d) (ss ++ [t]) ++ ls).
  { rewrite !flat_map_app. cbn [flat_map]. rewrite !app_nil_r, Ev, <- app_assoc. f_equal.
    apply (flat_map_visible_sealed c); assumption. }
  rewrite Econt.
  assert (Hne0 := content_nonempty _ _ _ _ _ HT HS HL).
  rewrite (first_index_inv _ _ _ _ _ HS HT).
  destruct (N.eqb_spec (last_index (ss ++ [t]) (Some tw)) 0) as [E0|E0].
  - rewrite (proj2 Hne0 E0). cbn [sl_ents sl_empty app]. f_equal.
    rewrite (last_index_inv c d ss _ _ HT) in E0.
    assert (Hr : si_base t <= si_min t /\ si_min t <= si_base t + (ws_n tw - 1)) by (split; apply HT).
    destruct ss as [|s r].
    + destruct (N.eqb_spec (ws_n tw) 0); lia.
    + exfalso. inversion HS as [|? ? Hs' _]; subst. inversion Hlt as [|? ? Hs _]; subst.
      destruct Hs' as (_ & _ & ? & ? & ? & _). destruct (N.eqb_spec (ws_n tw) 0); lia.
  - cbn [sl_ents]. f_equal. destruct ss as [|s r]; [|reflexivity].
    rewrite (last_index_inv c d [] _ _ HT) in E0.
    destruct (N.eqb_spec (ws_n tw) 0); [congruence|reflexivity].
Qed.

(* ------------------------------------------------------------------ *)
(* StoreLogs                                                            *)
Definition inc_write (nbytes k : N) (m : metrics) : metrics :=
  {| m_bytes_written := (m_bytes_written m + nbytes) mod two64;
     m_entries_written := m_entries_written m + k;
     m_appends := m_appends m + 1; m_bytes_read := m_bytes_read m;
     m_entries_read := m_entries_read m; m_rotations := m_rotations m;
     m_head_trunc := m_head_trunc m; m_tail_trunc := m_tail_trunc m;
     m_stable_gets := m_stable_gets m; m_stable_sets := m_stable_sets m |}.

(* the check-and-append part of StoreLogs; [last] is LastIndex at call time *)
Definition store_go (last : N) (ls : list log) (w : wal) (e : env) : result * wal * env :=
  let '(res, nbytes) := check_logs last ls in
  match res with
  | ROk =>
      match st_tail w with
      | None => (RErrOther, w, e)
      | Some tw =>
          let '(r, tw', e1) := seg_append tw ls e in
          match r with
          | ROk => (ROk, appended w tw', add_m e1 (inc_write nbytes (llen ls)))
          | _ => (r, w, e1)
          end
      end
  | _ => (res, w, e)
  end.

Lemma store_logs_unfold c w l0 rest e ti :
  st_closed w = false -> st_failed w = false -> tail_info (st_segs w) = Some ti ->
  store_logs c w (l0 :: rest) e =
  let last := last_index (st_segs w) (st_tail w) in
  if (last =? 0) && negb (l_index l0 =? si_base ti) then
    let '(r, w1, e1, dels) := reset_first c w (l_index l0) e in
    match r with
    | ROk => let '(r2, w2, e2) := store_go last (l0 :: rest) w1 e1 in (r2, w2, delete_files dels e2)
    | _ => (r, w1, e1)
    end
  else store_go last (l0 :: rest) w e.
Proof.
  intros H1 H2 H3. unfold store_logs, store_go, appended, inc_write. rewrite H1, H2, H3. cbv zeta.
  destruct ((last_index (st_segs w) (st_tail w) =? 0) && negb (l_index l0 =? si_base ti)); [|reflexivity].
  destruct (reset_first c w (l_index l0) e) as [[[r w1] e1] dels]. destruct r; reflexivity.
Qed.

Lemma last_zero c d ss t tw :
  Forall (sealed_ok c d) ss -> tail_ok c d t tw -> linked (ss ++ [t]) ->
  last_index (ss ++ [t]) (Some tw) = 0 -> ss = [] /\ ws_n tw = 0.
Proof.
  intros HS HT HL E. rewrite (last_index_inv c d ss _ _ HT) in E.
  assert (Hb : 1 <= si_base t) by apply HT.
  assert (Hlt := linked_lt ss t (Forall_impl _ (sealed_srange c d) HS) HL).
  destruct (N.eqb_spec (ws_n tw) 0) as [E0|E0]; [|lia].
  split; [|exact E0]. destruct ss as [|s r]; [reflexivity|]. exfalso.
  inversion HS as [|? ? Hs' _]; subst. inversion Hlt as [|? ? Hs _]; subst.
  destruct Hs' as (_ & _ & ? & ? & ? & _). lia.
Qed.

Lemma store_go_ok c L l0 rest w e ss t tw :
  let ls := l0 :: rest in
  let good := ((L =? 0) || (l_index l0 =? L + 1)) && consecutive (l_index l0) ls in
  cfg_ok c -> e_fault e = None -> WInvS c w (e_disk e) ss t tw -> ws_index_start tw = 0 ->
  logs_ok ls -> frames_size ls < two30 -> L + 1 < two64 ->
  (good = true -> l_index l0 = si_base t + ws_n tw) ->
  exists r w' e',
    store_go L ls w e = (r, w', e') /\ e_fault e' = None /\
    dk_stable (e_disk e') = dk_stable (e_disk e) /\ st_next_id w' = st_next_id w /\
    e_m e' = (if good then inc_write (bytes_sum ls mod two64) (llen ls) (e_m e) else e_m e) /\
    if good then
      r = ROk /\ exists tw', WInvS c w' (e_disk e') ss t tw' /\
      abs w' (e_disk e') =
        {| sl_first := if last_index (st_segs w) (st_tail w) =? 0 then si_base t
                       else first_index (st_segs w) (st_tail w);
           sl_ents := sl_ents (abs w (e_disk e)) ++ ls |}
    else r = RErrNonMono /\ w' = w /\ e' = e.
Proof.
  intros ls good Hc He HI His Hok Hfs HL Hgood.
  assert (Hfst := check_logs_fst L l0 rest Hok HL). fold ls good in Hfst.
  assert (Hsnd := check_logs_snd ls L).
  unfold store_go. destruct (check_logs L ls) as [res nb]. cbn [fst snd] in Hfst, Hsnd. subst res.
  destruct good eqn:Eg.
  - assert (HI0 := HI).
    destruct HI as (Hcl & Hfa & Hmeta & Hini & Hfr & Hsegs & Htail & HS & HT & HL' & Hro).
    rewrite Htail.
    assert (Hcons : consecutive (si_base t + ws_n tw) ls = true).
    { rewrite <- (Hgood eq_refl). unfold good in Eg. apply andb_true_iff in Eg. apply Eg. }
    destruct (seg_append_ok c e t tw ls Hc He HT His ltac:(discriminate) Hok Hfs Hcons)
      as (tw' & e' & Happ & He' & Hm' & HT' & Hn' & Hme & Hst & Hin & Hlk & Hvis).
    rewrite Happ.
    eexists _, _, _. split; [reflexivity|]. split; [exact He'|]. split; [exact Hst|].
    split; [reflexivity|]. split; [cbn [add_m with_m e_m]; rewrite Hm', (Hsnd eq_refl); reflexivity|].
    split; [reflexivity|]. exists tw'.
    change (e_disk (add_m e' (inc_write nb (llen ls)))) with (e_disk e').
    destruct (append_state c w (e_disk e) (e_disk e') ss t tw tw' ls) as [G1 G2]; auto; [discriminate|].
    rewrite Htail in G2. split; assumption.
  - eexists _, _, _. split; [reflexivity|]. repeat split; auto.
Qed.

Definition is_nil {A} (l : list A) : bool := match l with [] => true | _ => false end.

Lemma WInvS_rotate_none c w d ss t tw : WInvS c w d ss t tw -> ws_index_start tw = 0 -> st_rotate w = None.
Proof. intros (_ & _ & _ & _ & _ & _ & _ & _ & _ & _ & Hro) H. rewrite Hro, H. reflexivity. Qed.

Lemma reset_first_ok c w e t tw nb :
  cfg_ok c -> e_fault e = None -> WInvS c w (e_disk e) [] t tw -> ws_index_start tw = 0 -> ws_n tw = 0 ->
  st_next_id w + 1 < two64 -> 1 <= nb -> nb < two64 -> nb <> si_base t ->
  let si := new_segment c (st_next_id w) nb in
  exists w1 e1,
    reset_first c w nb e = (ROk, w1, e1, [name_of t]) /\ e_fault e1 = None /\
    WInvS c w1 (e_disk e1) [] si (new_wseg si) /\
    dk_stable (e_disk e1) = dk_stable (e_disk e) /\ st_next_id w1 = st_next_id w + 1 /\ e_m e1 = e_m e.
Proof.
  intros Hc He HI His Hn Hnid Hnb1 Hnb2 Hnb3 si.
  assert (Hro := WInvS_rotate_none _ _ _ _ _ _ HI His).
  destruct HI as (Hcl & Hfa & Hmeta & Hini & Hfr & Hsegs & Htail & HS & HT & HL & _).
  cbn [app] in Hsegs.
  assert (HL0 : last_index (st_segs w) (st_tail w) = 0).
  { rewrite Hsegs, Htail. assert (X := last_index_inv c (e_disk e) [] t tw HT). cbn [app] in X.
    rewrite X, Hn. reflexivity. }
  unfold reset_first. rewrite HL0. change (0 <? 0) with false. cbv iota.
  rewrite Hsegs. change (tail_info [t]) with (Some t). cbv iota.
  destruct (N.eqb_spec (si_base t) nb) as [E|_]; [congruence|].
  cbn [seg_del]. rewrite N.eqb_refl.
  rewrite (create_next_nil c _ nb Hnb1 Hnb2 Hnid).
  destruct (mutate_new_tail c true w e [] nb [name_of t]) as (Hmut & HI' & He' & Hst' & Hm' & Hlk');
    try assumption; try reflexivity.
  cbn [app] in Hmut. rewrite Hmut.
  eexists _, _. split; [reflexivity|]. split; [exact He'|]. split; [exact HI'|].
  split; [exact Hst'|]. split; [reflexivity|exact Hm'].
Qed.

Lemma store_logs_ok c w e ss t tw ls :
  cfg_ok c -> e_fault e = None -> WInvS c w (e_disk e) ss t tw -> ws_index_start tw = 0 ->
  st_next_id w + 1 < two64 -> logs_ok ls -> frames_size ls < two30 ->
  exists r w' e',
    store_logs c w ls e = (r, w', e') /\ e_fault e' = None /\ WInv c w' (e_disk e') /\
    dk_stable (e_disk e') = dk_stable (e_disk e) /\
    st_next_id w <= st_next_id w' /\ st_next_id w' <= st_next_id w + 1 /\
    match spec_store (abs w (e_disk e)) ls with
    | Some a' => r = ROk /\ abs w' (e_disk e') = a' /\
                 e_m e' = (if is_nil ls then e_m e else inc_write (bytes_sum ls mod two64) (llen ls) (e_m e))
    | None => res_class r = RErrOther /\ abs w' (e_disk e') = abs w (e_disk e) /\ e_m e' = e_m e
    end.
Proof.
  intros Hc He HI His Hnid Hok Hfs.
  assert (HI0 := HI).
  destruct (abs_props _ _ _ _ _ _ HI) as (Hsf & Hsl & Hemp & Haok & Hne).
  destruct HI as (Hcl & Hfa & Hmeta & Hini & Hfr & Hsegs & Htail & HS & HT & HL & Hro).
  destruct ls as [|l0 rest].
  { unfold store_logs. rewrite Hcl. exists ROk, w, e. cbn [spec_store is_nil].
    repeat split; auto; try lia. exists ss, t, tw. exact HI0. }
  assert (Hti : tail_info (st_segs w) = Some t) by (rewrite Hsegs; apply tail_info_snoc).
  rewrite (store_logs_unfold c w l0 rest e t Hcl Hfa Hti). cbv zeta.
  set (ls := l0 :: rest) in *.
  set (L := last_index (st_segs w) (st_tail w)) in *.
  set (a := abs w (e_disk e)) in *.
  assert (Hl0 : log_ok l0) by (inversion Hok; assumption).
  assert (HL1 : L + 1 < two64).
  { destruct (N.eq_dec L 0) as [E|E]; [rewrite E; unfold two64; lia|]. apply Hne. exact E. }
  assert (Hempb : sl_is_empty a = (L =? 0)).
  { destruct (N.eqb_spec L 0) as [E|E]; [apply Hemp; exact E|].
    destruct (sl_is_empty a); [|reflexivity]. exfalso. apply E. apply Hemp. reflexivity. }
  assert (Hspec : spec_store a ls =
            if ((L =? 0) || (l_index l0 =? L + 1)) && consecutive (l_index l0) ls
            then Some {| sl_first := if L =? 0 then l_index l0 else sl_first a; sl_ents := sl_ents a ++ ls |}
            else None).
  { unfold spec_store, ls. fold ls. rewrite Hempb, Hsl. rewrite andb_comm. reflexivity. }
  rewrite Hspec. clear Hspec.
  destruct ((L =? 0) && negb (l_index l0 =? si_base t)) eqn:Ereset.
  - (* the empty log restarts at a new base index *)
    apply andb_true_iff in Ereset. destruct Ereset as [EL Enb]. apply N.eqb_eq in EL.
    apply negb_true_iff in Enb. apply N.eqb_neq in Enb.
    assert (HL0 : last_index (ss ++ [t]) (Some tw) = 0) by (unfold L in EL; rewrite Hsegs, Htail in EL; exact EL).
    destruct (last_zero _ _ _ _ _ HS HT HL HL0) as [-> Hn].
    destruct Hl0 as (_ & Hi1 & Hi2 & _).
    destruct (reset_first_ok c w e t tw (l_index l0) Hc He HI0 His Hn Hnid Hi1 ltac:(lia) Enb)
      as (w1 & e1 & Hrf & He1 & HI1 & Hst1 & Hid1 & Hm1).
    rewrite Hrf.
    set (si := new_segment c (st_next_id w) (l_index l0)) in *.
    destruct (store_go_ok c L l0 rest w1 e1 [] si (new_wseg si) Hc He1 HI1 eq_refl Hok Hfs HL1)
      as (r & w2 & e2 & Hgo & He2 & Hst2 & Hid2 & Hm2 & Hres).
    { intros _. cbn [si new_segment si_base new_wseg ws_n]. lia. }
    fold ls in Hgo, Hres, Hm2. rewrite Hgo. rewrite EL in *. cbn [N.eqb orb andb] in Hres, Hm2 |- *.
    assert (Ha : a = sl_empty).
    { unfold a. rewrite (abs_eq _ _ _ _ _ _ HI0). fold L. rewrite EL. reflexivity. }
    assert (Ha1 : abs w1 (e_disk e1) = sl_empty) by apply (abs_empty_tail _ _ _ _ _ _ HI1 eq_refl).
    assert (HL1' : last_index (st_segs w1) (st_tail w1) = 0).
    { destruct HI1 as (_ & _ & _ & _ & _ & Hsegs1 & Htail1 & _ & HT1 & _).
      rewrite Hsegs1, Htail1. rewrite (last_index_inv c (e_disk e1) [] _ _ HT1). reflexivity. }
    assert (Hdn : forall s n, In s ([] ++ [si]) -> In n [name_of t] -> fname_eqb (name_of s) n = false).
    { intros s n [<-|[]] [<-|[]]. apply fname_neq_base. cbn. exact Enb. }
    destruct (consecutive (l_index l0) ls) eqn:Econs.
    + destruct Hres as (-> & tw2 & HI2 & Habs2).
      destruct (WInvS_delete_files c w2 e2 [] si tw2 [name_of t] HI2 He2 Hdn) as (G1 & G2 & G3 & G4 & G5).
      eexists _, _, _. split; [reflexivity|]. split; [exact G3|]. split; [exists [], si, tw2; exact G1|].
      split; [congruence|]. split; [lia|]. split; [lia|]. split; [reflexivity|].
      split; [rewrite G2, Habs2, HL1', Ha1, Ha; reflexivity|].
      rewrite G5, Hm2, Hm1. reflexivity.
    + destruct Hres as (-> & -> & ->).
      destruct (WInvS_delete_files c w1 e1 [] si _ [name_of t] HI1 He1 Hdn) as (G1 & G2 & G3 & G4 & G5).
      eexists _, _, _. split; [reflexivity|]. split; [exact G3|]. split; [exists [], si, (new_wseg si); exact G1|].
      split; [congruence|]. split; [lia|]. split; [lia|]. split; [reflexivity|].
      split; [rewrite G2, Ha1, Ha; reflexivity|]. rewrite G5. exact Hm1.
  - (* append to the current tail *)
    destruct (store_go_ok c L l0 rest w e ss t tw Hc He HI0 His Hok Hfs HL1)
      as (r & w2 & e2 & Hgo & He2 & Hst2 & Hid2 & Hm2 & Hres).
    { intros Hg. apply andb_true_iff in Hg. destruct Hg as [Hg _].
      assert (HLi : L = last_index (ss ++ [t]) (Some tw)) by (unfold L; rewrite Hsegs, Htail; reflexivity).
      rewrite (last_index_inv c (e_disk e) ss _ _ HT) in HLi.
      destruct (N.eqb_spec L 0) as [EL|EL].
      - cbn [andb] in Ereset. apply negb_false_iff in Ereset. apply N.eqb_eq in Ereset.
        assert (HL0 : last_index (ss ++ [t]) (Some tw) = 0) by (unfold L in EL; rewrite Hsegs, Htail in EL; exact EL).
        destruct (last_zero _ _ _ _ _ HS HT HL HL0) as [_ Hn]. lia.
      - cbn [orb] in Hg. apply N.eqb_eq in Hg. assert (Hb : 1 <= si_base t) by apply HT.
        destruct (N.eqb_spec (ws_n tw) 0); [|lia]. destruct ss; lia. }
    fold ls in Hgo, Hres, Hm2. rewrite Hgo.
    destruct (((L =? 0) || (l_index l0 =? L + 1)) && consecutive (l_index l0) ls) eqn:Eg.
    + destruct Hres as (-> & tw2 & HI2 & Habs2).
      eexists _, _, _. split; [reflexivity|]. split; [exact He2|]. split; [exists ss, t, tw2; exact HI2|].
      split; [exact Hst2|]. split; [lia|]. split; [lia|]. split; [reflexivity|]. split; [|exact Hm2].
      rewrite Habs2. fold L a. f_equal.
      destruct (N.eqb_spec L 0) as [EL|EL].
      * cbn [andb] in Ereset. apply negb_false_iff in Ereset. apply N.eqb_eq in Ereset. congruence.
      * destruct (Hne EL) as (Ha & _). rewrite Ha. reflexivity.
    + destruct Hres as (-> & -> & ->).
      eexists _, _, _. split; [reflexivity|]. split; [exact He|]. split; [exists ss, t, tw; exact HI0|].
      repeat split; auto; lia.
Qed.
