(* FaultStore.v -- StoreLogs with an injected I/O error, from a running WAL that
   accepts writes (possibly with a stale unsynced batch in its tail file). *)
From RW Require Import Base.Bytes Base.BytesFacts Fmt.Codec Fmt.CodecFacts Fmt.Frame Wal.Model Wal.Spec Wal.Hist Wal.FaultHist
  Wal.CrashInv Wal.CrashFacts0 Wal.CrashFacts1 Wal.CrashFacts2 Wal.CrashFacts3 Wal.CrashFacts4 Wal.CrashFacts5
  Wal.CrashFacts6 Wal.CrashGlue Wal.CrashCalls1 Wal.CrashCalls2 Wal.CrashCalls3 Wal.CrashCalls4 Wal.CrashCalls6
  Wal.CrashCalls7 Wal.CrashCalls8 Wal.CrashCalls9 Wal.FaultSim Wal.FaultSim2 Wal.FaultInv Wal.FaultFacts2 Wal.FaultFacts3
  Gen.Constants.
From Coq Require Import ZifyN ZifyNat ZifyBool.
Open Scope N_scope.

(* the shadow environment: same history and metrics, normalised disk, no fault *)
Definition shenv (e : env) : env :=
  {| e_acts := e_acts e; e_disk := sh (e_disk e); e_fault := None; e_m := e_m e |}.

Lemma RD_mono c nb nb' d alts alts' defer defer' :
  nb <= nb' -> incl alts alts' -> incl defer defer' -> RD c nb d alts defer -> RD c nb' d alts' defer'.
Proof. intros H1 H2 H3 (A & B). split; [eapply DIs_mono; eauto|eapply cand_incl; eauto]. Qed.

Lemma stale_batch_mono c t f p defer defer' : incl defer defer' -> stale_batch c t f p defer -> stale_batch c t f p defer'.
Proof.
  intros Hi (A & B & C & D & E). split; [exact A|]. split; [exact B|]. split; [exact C|]. split; [exact D|].
  intros Hne. destruct (E Hne) as (E1 & E2 & E3). split; [exact E1|]. split; [apply Hi; exact E2|exact E3].
Qed.

Lemma Live_mono c nb nb' w d defer defer' : nb <= nb' -> incl defer defer' -> Live c nb w d defer -> Live c nb' w d defer'.
Proof.
  intros Hn Hi (HL & Hst). split; [eapply LInv_mono; eauto|].
  destruct Hst as [H|(t & f & p & A & B & C & D & E)]; [left; exact H|right].
  exists t, f, p. split; [exact A|]. split; [exact B|]. split; [exact C|]. split; [exact D|]. eapply stale_batch_mono; eauto.
Qed.

(* ---- a live state and its shadow ---- *)
Lemma live_shadow c nb w e defer : Live c nb w (e_disk e) defer ->
  exists o, R o e (shenv e) /\ stale_tail o w (e_disk e) /\ stale_ok o (e_disk e) /\
            (o = None -> no_pend (e_disk e)) /\
            (forall tw, st_tail w = Some tw -> o = Some (ws_name tw) -> wguard (e_disk e) (ws_name tw) (ws_off tw)) /\
            (forall n, o = Some n -> exists t f p, n = name_of t /\ tail_info (st_segs w) = Some t /\
               lookup n (dk_files (e_disk e)) = Some f /\ df_pend f = Some p /\ stale_batch c t f p defer).
Proof.
  intros (HL & Hst). pose proof (LInv_NoDup_sh _ _ _ _ HL) as ND.
  destruct Hst as [Hn|(t & f & p & Ht & Hf & Hp & Hso & Hsb)].
  - exists None. split; [split; [apply drel_sh; [exact ND|apply stale_ok_nopend; exact Hn]|reflexivity]|].
    split; [intros n K; discriminate|]. split; [apply stale_ok_nopend; exact Hn|]. split; [auto|].
    split; [intros tw _ K; discriminate|intros n K; discriminate].
  - destruct (LInv_view _ _ _ _ HL) as (S & t' & f0 & tw & V).
    assert (t' = t). { rewrite (lv_segs _ _ _ _ _ _ _ _ V), tail_info_app in Ht. inversion Ht. reflexivity. } subst t'.
    assert (Hf0 : f0 = sh_file f).
    { pose proof (lv_file _ _ _ _ _ _ _ _ V) as K. unfold sh in K. rewrite lookup_map_files, Hf in K. cbn in K. inversion K. reflexivity. }
    pose proof (lv_tw _ _ _ _ _ _ _ _ V) as (Tn & _ & _ & _ & _ & To & _).
    assert (Hgd : wguard (e_disk e) (name_of t) (ws_off tw)).
    { intros f' p' Hl Hp'. rewrite Hf in Hl. inversion Hl; subst f'. rewrite Hp in Hp'. inversion Hp'; subst p'.
      rewrite To, Hf0. cbn. apply Hsb. }
    exists (Some (name_of t)). split; [split; [apply drel_sh; assumption|reflexivity]|].
    split.
    { intros n K. inversion K; subst n. split; [rewrite Hf; discriminate|].
      exists t, tw. split; [exact Ht|]. split; [apply (lv_tail _ _ _ _ _ _ _ _ V)|]. split; [exact Tn|]. split; [reflexivity|exact Hgd]. }
    split; [exact Hso|]. split; [discriminate|]. split.
    { intros tw' Ht' K. rewrite (lv_tail _ _ _ _ _ _ _ _ V) in Ht'. inversion Ht'; subst tw'. rewrite Tn. exact Hgd. }
    intros n K. inversion K; subst n. exists t, f, p. auto.
Qed.

Lemma drel_stale_ok o d dc : drel o d dc -> no_pend dc -> stale_ok o d.
Proof.
  intros (H1 & _ & _ & _ & _ & H6) Hn n f Hl Hp. destruct (lrel_lookup_some n _ _ f H1 Hl) as (g & Hg & _).
  destruct o as [m|].
  - destruct (fname_eqb m n) eqn:E; [apply fname_eqb_eq in E; congruence|]. exfalso. apply Hp.
    rewrite (H6 n f g Hl Hg). { apply (Hn n g Hg). } intros K. inversion K; subst. rewrite fname_eqb_refl in E. discriminate.
  - exfalso. apply Hp. rewrite (H6 n f g Hl Hg ltac:(discriminate)). apply (Hn n g Hg).
Qed.

(* ---- sizes ---- *)
Lemma append_end_gt L off n k F h :
  L < two30 -> 8 * n <= off -> off <= L + 8 -> 8 * k <= F -> F < two30 -> 1 <= k -> (h = 0 \/ h = 32) ->
  let n' := n + k in
  let buf := h + F in
  let seal := L <? (off + (buf + index_frame_size n') mod two32) mod two32 in
  let buf2 := if seal then buf + index_frame_size n' else buf in
  let total := buf2 + 8 in
  off < (off + total) mod two32.
Proof.
  intros HL Hn Hoff Hk HF Hk1 Hh. cbv zeta.
  pose proof (index_frame_size_le (n + k)) as Hidx. revert Hidx. generalize (index_frame_size (n + k)). intros X Hidx.
  assert (T32 : two32 = 4294967296) by reflexivity. assert (T30 : two30 = 1073741824) by reflexivity.
  rewrite (N.mod_small (h + F + X) two32) by lia.
  rewrite (N.mod_small (off + (h + F + X)) two32) by lia.
  destruct (L <? off + (h + F + X)) eqn:Es.
  - rewrite (N.mod_small (off + (h + F + X + 8)) two32) by lia. lia.
  - rewrite (N.mod_small (off + (h + F + 8)) two32) by lia. lia.
Qed.

Lemma force_end_gt L off n h :
  L < two30 -> 8 * n <= off -> off <= L + 8 -> 1 <= n -> (h = 0 \/ h = 32) ->
  off < (off + (h + index_frame_size n + 8)) mod two32.
Proof.
  intros HL Hn Hoff Hn1 Hh.
  pose proof (index_frame_size_le n) as Hidx. revert Hidx. generalize (index_frame_size n). intros X Hidx.
  assert (T32 : two32 = 4294967296) by reflexivity. assert (T30 : two30 = 1073741824) by reflexivity.
  rewrite (N.mod_small (off + (h + X + 8)) two32) by lia. lia.
Qed.

Lemma sh_write d n off l b : sh (apply_act d (AWrite n off l b)) = sh d.
Proof.
  cbn [apply_act]. destruct (lookup n (dk_files d)) as [f|] eqn:E; [|reflexivity].
  unfold sh, map_files. cbn [dk_files dk_meta dk_stable dk_inited]. f_equal.
  induction (dk_files d) as [|[m g] r IH]; [discriminate|]. cbn [lookup update map fst snd] in *.
  destruct (fname_eqb n m) eqn:En.
  - apply fname_eqb_eq in En. subst m. inversion E; subst g. reflexivity.
  - cbn [map fst snd]. rewrite IH; auto.
Qed.

(* ---- a failed fsync leaves a stale batch behind a clean state ---- *)
Lemma sp_of_sh_clean c nb w dc : LInv c nb w dc -> sp_of (sh dc) = sp_of dc.
Proof.
  intros (_ & _ & HD & HN & _). rewrite <- (dirfix_nopend dc (DIs_NoDup _ _ _ HD) HN). apply sp_of_dirfix.
Qed.

Lemma stale_after_write c nb nb' w dc d' S t f0 tw defer' a len b :
  lview c nb w dc S t f0 tw -> df_seal f0 = 0 -> nb <= nb' ->
  a = AWrite (name_of t) (df_end f0) len b -> df_end f0 < pb_end b ->
  DIs c nb' (apply_act dc a) -> drel None d' (apply_act dc a) ->
  (pb_ents b <> [] -> sop_ok (OStore (pb_ents b)) /\ In (OStore (pb_ents b)) defer' /\
     exists l0 r, pb_ents b = l0 :: r /\ l_index l0 = si_base t + llen (df_ents f0) /\
                  consecutive (l_index l0) (pb_ents b) = true) ->
  Live c nb' w d' defer' /\ sp_of (sh d') = sp_of dc.
Proof.
  intros V Hse Hnb -> Hlt HD Hrel Hls.
  set (n := name_of t) in *. set (dm := apply_act dc (AWrite n (df_end f0) len b)) in *.
  pose proof (LInv_of_view V) as HLc.
  assert (Hsh : sh d' = sh dc) by (rewrite (drel_sh_eq _ _ _ Hrel); unfold dm; apply sh_write).
  pose proof (lv_file _ _ _ _ _ _ _ _ V) as Hf0. pose proof (lv_pend _ _ _ _ _ _ _ _ V) as Hp0.
  assert (Edm : dm = {| dk_files := update n (with_pend f0 b) (dk_files dc); dk_meta := dk_meta dc;
                        dk_stable := dk_stable dc; dk_inited := dk_inited dc |}).
  { apply (apply_write dc n (df_end f0) len b f0 Hf0 Hp0). }
  assert (Hldm : lookup n (dk_files dm) = Some (with_pend f0 b)) by (rewrite Edm; cbn [dk_files]; apply lookup_update_eq).
  pose proof Hrel as (H1 & _ & _ & _ & _ & H6).
  destruct (lrel_lookup_some_r n _ _ _ H1 Hldm) as (f' & Hf' & (F1 & F2 & F3 & F4 & _)).
  pose proof (H6 n f' _ Hf' Hldm ltac:(discriminate)) as F5. cbn [with_pend df_ents df_end df_seal df_pend] in *.
  rewrite Hsh. split; [|apply (sp_of_sh_clean c nb w dc HLc)].
  split; [rewrite Hsh; eapply LInv_mono; [exact Hnb|apply LInv_sh; exact HLc]|].
  right. exists t, f', b. split; [rewrite (lv_segs _ _ _ _ _ _ _ _ V); apply tail_info_app|].
  split; [exact Hf'|]. split; [exact F5|]. split.
  { (* pending only in the tail file *)
    intros m g Hl Hp. destruct (fname_eqb m n) eqn:E; [apply fname_eqb_eq in E; rewrite E; reflexivity|]. exfalso. apply Hp.
    destruct (lrel_lookup_some m _ _ _ H1 Hl) as (gm & Hgm & _). rewrite (H6 m g gm Hl Hgm ltac:(discriminate)).
    apply fname_eqb_neq in E. rewrite Edm in Hgm. cbn [dk_files] in Hgm. rewrite lookup_update_neq in Hgm by exact E.
    apply (lv_nopend _ _ _ _ _ _ _ _ V m gm Hgm). }
  pose proof (lv_meta _ _ _ _ _ _ _ _ V) as Hm.
  assert (Hmdm : dk_meta dm = Some {| ps_next_id := st_next_id w; ps_segs := S ++ [t] |}) by (rewrite Edm; exact Hm).
  destruct (DIs_parts c nb' dm _ S t HD Hmdm eq_refl) as (_ & _ & _ & _ & _ & _ & Htok).
  destruct Htok as (_ & Htok). fold n in Htok. rewrite Hldm in Htok. destruct Htok as (_ & Z2 & _ & _ & _ & Z6).
  unfold cur_ents, cur_end, cur_seal in Z2, Z6. cbn [with_pend df_pend df_ents] in Z2, Z6.
  split; [congruence|]. split; [rewrite F2; lia|]. rewrite F1. split; [exact Z2|]. split; [exact Z6|].
  exact Hls.
Qed.

Lemma lv_sizes {c nb w d S t f tw} (V : lview c nb w d S t f tw) :
  df_seal f = 0 -> 8 * llen (df_ents f) <= df_end f /\ df_end f <= c_seg_size c + 8.
Proof.
  intros Hse. pose proof (lv_tok _ _ _ _ _ _ _ _ V) as (_ & Ht'). rewrite (lv_file _ _ _ _ _ _ _ _ V) in Ht'.
  destruct Ht' as ((Z1 & Z2 & Z3 & _) & _). split; [exact Z1|apply Z3; exact Hse].
Qed.

Lemma append_act_pend {c nb w d S t f tw} (V : lview c nb w d S t f tw) ls :
  cfg_ok c -> df_seal f = 0 -> logs_ok ls -> frames_size ls < two30 -> ls <> [] ->
  exists len b, append_act tw ls = AWrite (name_of t) (df_end f) len b /\ pb_ents b = ls /\ df_end f < pb_end b.
Proof.
  intros (_ & _ & _ & Hc4) Hse Hok HF Hne.
  pose proof (lv_tw _ _ _ _ _ _ _ _ V) as (Tn & Tb & Tm & Tl & Tnn & To & Ti & Tc).
  pose proof (lv_twf V) as (_ & Hlim & _).
  destruct (lv_sizes V Hse) as (Z1 & Z3).
  unfold append_act. cbv zeta. rewrite Tn, To, Tl, Hlim, Tnn. eexists _, _. split; [reflexivity|]. split; [reflexivity|].
  cbn [pb_end].
  assert (Hk1 : 1 <= llen ls) by (destruct ls; [congruence|rewrite llen_cons; lia]).
  assert (Hh : (if ws_hdr tw then 32 else 0) = 0 \/ (if ws_hdr tw then 32 else 0) = 32) by (destruct (ws_hdr tw); auto).
  apply (append_end_gt (c_seg_size c) (df_end f) (llen (df_ents f)) (llen ls) (frames_size ls)
              (if ws_hdr tw then 32 else 0) Hc4 Z1 Z3 (frames_size_ge ls) HF Hk1 Hh).
Qed.

Lemma force_act_pend {c nb w d S t f tw} (V : lview c nb w d S t f tw) :
  cfg_ok c -> df_seal f = 0 -> 1 <= llen (df_ents f) ->
  exists len b, force_act tw = AWrite (name_of t) (df_end f) len b /\ pb_ents b = [] /\ df_end f < pb_end b.
Proof.
  intros (_ & _ & _ & Hc4) Hse Hn1.
  pose proof (lv_tw _ _ _ _ _ _ _ _ V) as (Tn & Tb & Tm & Tl & Tnn & To & Ti & Tc).
  destruct (lv_sizes V Hse) as (Z1 & Z3).
  unfold force_act. cbv zeta. rewrite Tn, To, Tnn. eexists _, _. split; [reflexivity|]. split; [reflexivity|].
  cbn [pb_end].
  assert (Hh : (if ws_hdr tw then 32 else 0) = 0 \/ (if ws_hdr tw then 32 else 0) = 32) by (destruct (ws_hdr tw); auto).
  apply (force_end_gt (c_seg_size c) (df_end f) (llen (df_ents f)) (if ws_hdr tw then 32 else 0) Hc4 Z1 Z3 Hn1 Hh).
Qed.

(* ---- the recovery view of a disk related to a clean one, when the only file
        that may differ (a stale batch) is not listed by the metadata ---- *)
Lemma ad_lookup n d : lookup n (dk_files (ad d)) = option_map (fun f => dirfix_file (adopt_file f)) (lookup n (dk_files d)).
Proof. unfold ad, dirfix. rewrite adopt_is_map, map_files_comp. apply lookup_map_files. Qed.

Lemma RD_stale_unlisted c nb d' dm o alts defer :
  DIs c nb dm -> no_pend dm -> drel o d' dm ->
  (forall n ps s, o = Some n -> dk_meta dm = Some ps -> In s (ps_segs ps) -> name_of s <> n) ->
  In (sp_of dm) (candidates alts defer) -> RD c nb d' alts defer.
Proof.
  intros HD HN Hrel Hunl Hin. pose proof Hrel as (H1 & H2 & H3 & H4 & H5 & H6).
  assert (Hlk : forall ps s, dk_meta dm = Some ps -> In s (ps_segs ps) ->
            lookup (name_of s) (dk_files (ad d')) = lookup (name_of s) (dk_files (dirfix dm))).
  { intros ps s Hm Hs. rewrite ad_lookup. unfold dirfix. rewrite lookup_map_files.
    pose proof (lrel_lookup (name_of s) _ _ H1) as K.
    destruct (lookup (name_of s) (dk_files d')) as [g|] eqn:Eg, (lookup (name_of s) (dk_files dm)) as [gm|] eqn:Egm; [|destruct K|destruct K|reflexivity].
    destruct K as (K1 & K2 & K3 & K4 & _). cbn [option_map]. f_equal.
    assert (Hp : df_pend g = df_pend gm).
    { apply (H6 _ g gm Eg Egm). destruct o as [n|]; [|discriminate]. intros X. inversion X; subst. apply (Hunl _ ps s eq_refl Hm Hs). reflexivity. }
    pose proof (HN _ gm Egm) as Hpm. rewrite Hpm in Hp. unfold adopt_file. rewrite Hp. unfold dirfix_file. cbn. rewrite K1, K2, K3, K4, Hp, Hpm. reflexivity. }
  assert (HDa : DIs c nb (ad d')).
  { apply (DIs_frame c nb (dirfix dm) (ad d') (DIs_dirfix _ _ _ HD)).
    - exact H2.
    - rewrite ad_keys. apply (drel_NoDup _ _ _ Hrel).
    - intros n f Hl. rewrite ad_lookup in Hl. unfold dirfix. rewrite lookup_map_files.
      destruct (lookup n (dk_files d')) as [g|] eqn:Eg; [|discriminate].
      destruct (lrel_lookup_some n _ _ g H1 Eg) as (gm & Egm & _). rewrite Egm. eexists. reflexivity.
    - intros ps s Hm Hs. apply (Hlk ps s Hm Hs). }
  split; [exact HDa|].
  replace (sp_of (ad d')) with (sp_of dm); [exact Hin|].
  rewrite <- (sp_of_dirfix dm). unfold sp_of. f_equal; [|symmetry; exact H3].
  symmetry. apply dread_ext; [exact H2|]. intros ps s Hm Hs. unfold file_ents. rewrite (Hlk ps s Hm Hs). reflexivity.
Qed.

(* the names listed by a live state all have files *)
Lemma unlisted_of_final c nb w0 dfin dm n ps :
  LInv c nb w0 dfin -> dk_meta dfin = Some ps -> dk_meta dm = Some ps -> lookup n (dk_files dfin) = None ->
  forall ps' s, dk_meta dm = Some ps' -> In s (ps_segs ps') -> name_of s <> n.
Proof.
  intros HL Hmf Hmd Hl ps' s Hm' Hs Hn. rewrite Hmd in Hm'. inversion Hm'; subst ps'.
  pose proof HL as (_ & _ & _ & _ & Hmeta & _). rewrite Hmf in Hmeta. inversion Hmeta; subst ps.
  apply (LInv_listed_files c nb w0 dfin s HL Hs). rewrite Hn. exact Hl.
Qed.

(* ---- result classes ---- *)
Lemma res_class_ok r : res_class r = ROk -> r = ROk.
Proof. destruct r; cbn; intros H; try discriminate; reflexivity. Qed.

Lemma res_cases a o r0 : is_mutating o = true ->
  result_eqb (res_class r0) (fst (step_spec a o)) = true ->
  (r0 = ROk /\ spec_accepts a o = Some (snd (step_spec a o))) \/
  (r0 <> ROk /\ spec_accepts a o = None /\ snd (step_spec a o) = a).
Proof.
  intros Hm. unfold spec_accepts.
  assert (Hshape : (fst (step_spec a o) = ROk) \/ (fst (step_spec a o) = RErrOther /\ snd (step_spec a o) = a)).
  { destruct o; try discriminate; cbn [step_spec].
    - destruct (spec_store _ _); cbn; auto.
    - destruct (spec_delete _ _ _); cbn; auto.
    - destruct (key_ok k); cbn; auto. destruct is_nil; cbn; auto. }
  destruct (step_spec a o) as [rs s']. cbn [fst snd] in *. destruct Hshape as [->|(-> & ->)].
  - intros H. left. split; [|reflexivity]. apply res_class_ok. destruct (res_class r0); cbn in H; try discriminate. reflexivity.
  - intros H. right. split; [|auto]. intros ->. cbn in H. discriminate.
Qed.

Lemma in_alts_app_op nom o alts a' : In nom alts -> spec_accepts nom o = Some a' -> In a' (alts ++ app_op o alts).
Proof. intros H E. apply in_or_app. right. eapply in_app_op; eauto. Qed.

(* the clean state a Same outcome leaves *)
Lemma clean_after c nb w0 e' ec' : LInv c nb w0 (e_disk ec') -> R None e' ec' ->
  LInv c nb w0 (sh (e_disk e')) /\ no_pend (e_disk e') /\ sp_of (sh (e_disk e')) = sp_of (e_disk ec').
Proof.
  intros HL (Hrel & _). pose proof HL as (_ & _ & _ & HN & _).
  rewrite (drel_sh_eq _ _ _ Hrel). split; [apply LInv_sh; exact HL|]. split; [eapply drel_nopend; eauto|].
  apply (sp_of_sh_clean c nb w0 _ HL).
Qed.

Lemma Mode_live c nb w d nom defer : Live c nb w d defer -> sp_of (sh d) = nom -> Mode c nb w d nom defer.
Proof. intros H E. right. split; [apply (LInv_closed _ _ _ _ (proj1 H))|]. left. auto. Qed.

(* ---- a StoreLogs that resets the empty first segment and then stops ---- *)
Lemma store_twice c w l0 ec ti w1 ec1 dels :
  log_ok l0 -> st_closed w = false -> st_failed w = false -> tail_info (st_segs w) = Some ti ->
  (last_index (st_segs w) (st_tail w) =? 0) && negb (l_index l0 =? si_base ti) = true ->
  reset_first c w (l_index l0) ec = (ROk, w1, ec1, dels) ->
  store_logs c w [l0; l0] ec = (RErrNonMono, w1, delete_files dels ec1).
Proof.
  intros Hok Hcl Hfl Hti Hcond Hr. rewrite store_logs_unfold, Hcl, Hfl. cbv zeta. rewrite Hti, Hcond, Hr.
  apply andb_true_iff in Hcond. destruct Hcond as (Hlast & _). apply N.eqb_eq in Hlast. rewrite Hlast.
  unfold store_go. cbn [check_logs]. change (0 <? 0) with false. cbn [andb].
  destruct (log_ok_encodes l0 Hok) as (b & Eb). rewrite Eb.
  destruct Hok as (_ & H1 & H2 & _).
  replace (0 <? l_index l0) with true by lia. rewrite (N.mod_small (l_index l0 + 1) two64) by exact H2.
  replace (l_index l0 =? l_index l0 + 1) with false by lia. cbn [andb negb]. reflexivity.
Qed.

Lemma twice_frames l0 : log_ok l0 -> frames_size [l0; l0] < two30.
Proof.
  intros (_ & _ & _ & H). rewrite !frames_size_cons. unfold frames_size. cbn [fold_left]. unfold enc_frame_size.
  pose proof (pad_len_lt (enc_len l0)). unfold MaxEntrySize in H. unfold two30. lia.
Qed.

Lemma twice_rejected a l0 : log_ok l0 -> step_spec a (OStore [l0; l0]) = (RErrOther, a).
Proof.
  intros (_ & H1 & H2 & _). cbn [step_spec]. unfold spec_store. cbn [consecutive].
  rewrite N.eqb_refl. replace (l_index l0 =? l_index l0 + 1) with false by lia. reflexivity.
Qed.

Lemma drel_trans_None d1 d2 d3 : drel None d1 d2 -> drel None d2 d3 -> drel None d1 d3.
Proof.
  intros H12 H23. pose proof (drel_strict_in _ _ H12) as F12. pose proof (drel_strict_in _ _ H23) as F23.
  destruct H12 as (_ & A2 & A3 & A4 & A5 & A6). destruct H23 as (_ & B2 & B3 & B4 & B5 & B6).
  assert (HF : Forall2 (fun a b => fst a = fst b /\ frel (snd a) (snd b) /\ df_pend (snd a) = df_pend (snd b)) (dk_files d1) (dk_files d3)).
  { clear - F12 F23. revert F23. generalize (dk_files d3). induction F12 as [|a b l lc (E & (P1 & P2 & P3 & P4 & _) & P) _ IH]; intros l3 F23.
    - inversion F23; constructor.
    - inversion F23 as [|b' c' lc' l3' (E' & (Q1 & Q2 & Q3 & Q4 & _) & Q) F23']; subst. constructor; [|apply IH; exact F23'].
      split; [congruence|]. split; [|congruence]. unfold frel. repeat split; try congruence. left. congruence. }
  split.
  { clear - HF. induction HF as [|a b l lc (E & F & _) _ IH]; constructor; auto. }
  split; [congruence|]. split; [congruence|]. split; [congruence|]. split; [exact B5|].
  intros n f h Hf Hh _.
  assert (L13 : lrel (dk_files d1) (dk_files d3)) by (clear - HF; induction HF as [|a b l lc (E & F & _) _ IH]; constructor; auto).
  clear - HF Hf Hh. induction HF as [|[m a] [m' b] l lc (E & _ & P) _ IH]; [discriminate|].
  cbn [fst snd lookup] in *. subst m'. destruct (fname_eqb n m); [inversion Hf; inversion Hh; subst; exact P|auto].
Qed.

Lemma live_out c nb w d nom alts defer :
  Live c nb w d defer -> sp_of (sh d) = nom -> In nom alts -> Mode c nb w d nom defer /\ RD c nb d alts defer.
Proof.
  intros H E Hin. split; [apply Mode_live; assumption|]. apply (live_RD c nb w d alts defer H). rewrite E. exact Hin.
Qed.

Lemma remove_update_comm n m f : forall l, n <> m -> remove m (update n f l) = update n f (remove m l).
Proof.
  intros l Hne. induction l as [|[k g] r IH]; cbn [update remove].
  - apply fname_eqb_neq in Hne. rewrite fname_eqb_sym, Hne. reflexivity.
  - destruct (fname_eqb n k) eqn:E1, (fname_eqb m k) eqn:E2.
    + apply fname_eqb_eq in E1, E2. congruence.
    + cbn [remove update]. apply fname_eqb_eq in E1. subst k. rewrite E2. cbn [update]. rewrite fname_eqb_refl. reflexivity.
    + cbn [remove update]. rewrite E2. reflexivity.
    + cbn [remove update]. rewrite E2, E1, IH. reflexivity.
Qed.

Lemma write_delete_comm d n m off l b : n <> m -> NoDup (map fst (dk_files d)) ->
  apply_act (apply_act d (ADelete m)) (AWrite n off l b) = apply_act (apply_act d (AWrite n off l b)) (ADelete m).
Proof.
  intros Hne ND. cbn [apply_act dk_files dk_meta dk_stable dk_inited]. rewrite (lookup_remove_neq n m _ Hne).
  destruct (lookup n (dk_files d)) as [f|]; [|reflexivity]. cbn [dk_files dk_meta dk_stable dk_inited].
  rewrite remove_update_comm by exact Hne. reflexivity.
Qed.

(* ---- StoreLogs from a live state ---- *)
Lemma live_store c nb w e nom alts defer ls :
  cfg_ok c -> logs_ok ls -> frames_size ls < two30 -> nb + 1 < two64 ->
  Live c nb w (e_disk e) defer -> st_rotate w = None -> sp_of (sh (e_disk e)) = nom -> In nom alts ->
  exists r w' e', store_logs c w ls e = (r, w', e') /\ st_closed w' = false /\
    ((r = ROk /\ exists nom', spec_accepts nom (OStore ls) = Some nom' /\
        Live c (nb + 1) w' (e_disk e') defer /\ sp_of (sh (e_disk e')) = nom') \/
     (r <> ROk /\ Mode c (nb + 1) w' (e_disk e') nom (OStore ls :: defer) /\
      RD c (nb + 1) (e_disk e') (alts ++ app_op (OStore ls) alts) (OStore ls :: defer))).
Proof.
  intros Hc Hok HF Hnb HLive Hrot Hsp Hin.
  pose proof HLive as (HL & _). pose proof (LInv_closed _ _ _ _ HL) as Hcl.
  destruct (live_shadow c nb w e defer HLive) as (o & HR & Hst & Hso & Hon & Hg & _).
  set (ec := shenv e) in *. set (d := e_disk e) in *.
  destruct (store_logs_ok c nb w ec ls nom Hc HL eq_refl Hrot Hnb Hsp Hok HF) as (r0 & w0 & ec' & Hsl & Hres & HL' & Hsp' & Hext).
  destruct (store_logs c w ls e) as [[r w'] e'] eqn:Est. exists r, w', e'. split; [reflexivity|].
  set (o1 := OStore ls) in *. set (defer' := o1 :: defer). set (alts' := alts ++ app_op o1 alts).
  assert (Hia : incl alts alts') by (intros x Hx; apply in_or_app; left; exact Hx).
  assert (Hid : incl defer defer') by (intros x Hx; right; exact Hx).
  assert (Hina : In nom alts') by (apply Hia; exact Hin).
  pose proof (LInv_closed _ _ _ _ HL') as Hcl0.
  destruct (store_logs_lock o c w ls e ec r w' e' r0 w0 ec' HR Hst Est Hsl) as [(-> & -> & HR' & Hcase)|(Hf' & -> & Hfail)].
  - (* both runs agree *)
    split; [exact Hcl0|].
    assert (Hunch : w0 = w /\ e' = e /\ ec' = ec ->
      (r0 = ROk /\ exists nom', spec_accepts nom o1 = Some nom' /\ Live c (nb + 1) w0 (e_disk e') defer /\ sp_of (sh (e_disk e')) = nom') \/
      (r0 <> ROk /\ Mode c (nb + 1) w0 (e_disk e') nom defer' /\ RD c (nb + 1) (e_disk e') alts' defer')).
    { intros (-> & -> & Eec). rewrite Eec in Hsp'. change (e_disk ec) with (sh d) in Hsp'.
      destruct (res_cases nom o1 r0 eq_refl Hres) as [(-> & Hacc)|(Hne & Hacc & Hsnd)].
      - left. split; [reflexivity|]. exists (snd (step_spec nom o1)). split; [exact Hacc|]. split; [|exact Hsp'].
        eapply Live_mono; [| |exact HLive]; [lia|apply incl_refl].
      - right. split; [exact Hne|].
        apply (live_out c (nb + 1) w d nom alts' defer'); [eapply Live_mono; [| |exact HLive]; [lia|exact Hid]|exact Hsp|exact Hina]. }
    destruct Hcase as [Hu|[HRn|Hfl]]; [apply Hunch; exact Hu| |destruct HL' as (_ & K & _); congruence].
    destruct (clean_after c (nb + 1) w0 e' ec' HL' HRn) as (HLs & HNs & Hsps). rewrite Hsp' in Hsps.
    destruct (res_cases nom o1 r0 eq_refl Hres) as [(-> & Hacc)|(Hne & Hacc & Hsnd)].
    + left. split; [reflexivity|]. exists (snd (step_spec nom o1)). split; [exact Hacc|]. split; [apply live_clean; assumption|exact Hsps].
    + right. split; [exact Hne|]. rewrite Hsnd in Hsps.
      apply (live_out c (nb + 1) w0 (e_disk e') nom alts' defer'); [apply live_clean; assumption|exact Hsps|exact Hina].
  - (* the real run failed at an I/O action *)
    assert (Hfin : forall dm, pfx ec ec' dm -> DP c (nb + 1) (fun x => x = nom \/ x = snd (step_spec nom o1)) dm) by (intros dm Hp; apply (ext_pfx _ _ _ _ Hext Hp)).
    assert (Hcand : forall x, x = nom \/ x = snd (step_spec nom o1) -> In x (candidates alts' defer')).
    { intros x [-> | ->]; [apply cand_alts; exact Hina|]. apply cand_alts.
      destruct (res_cases nom o1 r0 eq_refl Hres) as [(_ & Hacc)|(_ & _ & Hsnd)]; [eapply in_alts_app_op; eauto|rewrite Hsnd; exact Hina]. }
    destruct Hfail as [(-> & Hd)|[(-> & ps & Hrel & Hpfx & Hmeta & Hgone)|[(-> & -> & Hne & tw & Htw & Hfacts & Hrel & Hpfx)|
                        (l0 & ls' & w1 & ec1 & dels & tw1 & dm & -> & Hreset & -> & Htw1 & (ti & Hti & -> & _ & Hfl & Hcond) & Hfacts & -> & Hdm & Hpfx & Hrel)]]].
    + (* nothing happened *)
      split; [exact Hcl|]. right. split; [discriminate|]. rewrite Hd.
      apply (live_out c (nb + 1) w d nom alts' defer'); [eapply Live_mono; [| |exact HLive]; [lia|exact Hid]|exact Hsp|exact Hina].
    + (* the reset was committed but the new tail could not be created *)
      split; [exact Hcl|]. right. split; [discriminate|].
      set (dm := apply_act (e_disk ec) (ACommit ps)) in *.
      assert (HNdm : no_pend dm) by (intros n f Hl; apply (no_pend_sh d n f Hl)).
      split.
      * right. split; [exact Hcl|]. right. right. split; [reflexivity|]. split; [exact Hrot|].
        exists w, (sh d), o. split; [eapply LInv_mono; [|exact HL]; lia|]. split; [exact Hsp|]. split; [reflexivity|]. split; [reflexivity|].
        split; [rewrite (drel_sh_eq _ _ _ Hrel); change (dk_files (sh dm)) with (dk_files (sh (sh d))); rewrite sh_idem; reflexivity|].
        split; [destruct Hrel as (_ & _ & K & _); rewrite K; reflexivity|]. split; [apply (drel_NoDup _ _ _ Hrel)|].
        split; [eapply drel_stale_ok; eauto|]. intros n Ho. destruct (Hst n Ho) as (_ & ti & tw & A & _ & _ & B & _). exists ti. auto.
      * destruct (Hfin dm Hpfx) as (HDm & HAm & _).
        eapply (RD_stale_unlisted c (nb + 1) (e_disk e') dm o); [exact HDm|exact HNdm|exact Hrel| |apply Hcand; exact HAm].
        intros n ps' s Ho. apply (unlisted_of_final c (nb + 1) w0 (e_disk ec') dm n ps HL' Hmeta eq_refl (Hgone n Ho)).
    + (* the batch was written but not synced *)
      split; [exact Hcl|]. right. split; [discriminate|].
      destruct (LInv_view _ _ _ _ HL) as (S & t & f0 & tw0 & V).
      rewrite (lv_tail _ _ _ _ _ _ _ _ V) in Htw. inversion Htw; subst tw0.
      assert (Hse : df_seal f0 = 0).
      { pose proof (lv_rot _ _ _ _ _ _ _ _ V) as K. rewrite Hrot in K. destruct (0 <? df_seal f0) eqn:Z; [discriminate|lia]. }
      destruct (append_act_pend V ls Hc Hse Hok HF Hne) as (len & b & Ea & Eb & Hlt).
      pose proof (lv_tw _ _ _ _ _ _ _ _ V) as (Tn & Tb & _ & _ & Tnn & _).
      assert (Hcl' : clr o (ws_name tw) = None).
      { destruct o as [n|]; [|reflexivity]. destruct (Hst n eq_refl) as (_ & ti & tw' & _ & Ht' & En & _).
        rewrite (lv_tail _ _ _ _ _ _ _ _ V) in Ht'. inversion Ht'; subst tw'. rewrite En. unfold clr. rewrite fname_eqb_refl. reflexivity. }
      rewrite Hcl' in Hrel. change (e_disk ec) with (sh d) in Hrel, Hpfx.
      destruct (Hfin _ Hpfx) as (HDm & _).
      destruct (res_cases nom o1 ROk eq_refl Hres) as [(_ & Hacc)|(Hne0 & _)]; [|congruence].
      destruct (stale_after_write c nb (nb + 1) w (sh d) (e_disk e') S t f0 tw defer' _ len b V Hse ltac:(lia) Ea Hlt HDm Hrel) as (HLv & Hspv).
      { rewrite Eb. intros _. split; [split; [exact Hok|exact HF]|]. split; [left; reflexivity|].
        destruct Hfacts as (l0 & lr & El & Hidx & _). exists l0, lr. split; [exact El|]. split; [rewrite Hidx, Tb, Tnn; reflexivity|].
        unfold o1, spec_accepts in Hacc. cbn [step_spec] in Hacc. unfold spec_store in Hacc. rewrite El in Hacc |- *. cbv iota in Hacc.
        destruct (consecutive (l_index l0) (l0 :: lr)); [reflexivity|]. cbn in Hacc. discriminate. }
      rewrite Hsp in Hspv.
      apply (live_out c (nb + 1) w (e_disk e') nom alts' defer'); assumption.
    + (* the empty first segment was replaced, then the append failed *)
      assert (Hl0 : log_ok l0) by (inversion Hok; assumption).
      pose proof (store_twice c w l0 ec ti w1 ec1 [name_of ti] Hl0 Hcl Hfl Hti Hcond Hreset) as Htw.
      destruct (store_logs_ok c nb w ec [l0; l0] nom Hc HL eq_refl Hrot Hnb Hsp ltac:(constructor; [exact Hl0|constructor; [exact Hl0|constructor]]) (twice_frames l0 Hl0))
        as (rh & wh & ech & Hslh & _ & HLh & Hsph & _).
      remember (delete_files [name_of ti] ec1) as ecd eqn:Hecd in Htw.
      rewrite Htw in Hslh. injection Hslh as Er Ew Ee. subst rh wh ech. rewrite Hecd in HLh, Hsph. clear Hecd.
      rewrite (twice_rejected nom l0 Hl0) in Hsph. cbn [snd] in Hsph.
      pose proof (sh_reset_first c w (l_index l0) ec _ _ _ _ eq_refl Hreset) as Hsh1.
      rewrite (delete_files_disk _ _ (proj2 Hsh1)) in HLh, Hsph.
      set (d1 := del_disk [name_of ti] (e_disk ec1)) in *.
      split; [apply (LInv_closed _ _ _ _ HLh)|]. right. split; [discriminate|].
      destruct Hdm as [-> | ->].
      * (* the write failed: a clean state *)
        fold d1 in Hrel. pose proof HLh as (_ & _ & _ & HN1 & _).
        assert (HLs : LInv c (nb + 1) w1 (sh (e_disk e'))) by (rewrite (drel_sh_eq _ _ _ Hrel); apply LInv_sh; exact HLh).
        assert (HNs : no_pend (e_disk e')) by (eapply drel_nopend; eauto).
        assert (Hsps : sp_of (sh (e_disk e')) = nom) by (rewrite (drel_sh_eq _ _ _ Hrel), (sp_of_sh_clean c _ w1 _ HLh); exact Hsph).
        apply (live_out c (nb + 1) w1 (e_disk e') nom alts' defer'); [apply live_clean; assumption|exact Hsps|exact Hina].
      * (* the fsync failed: the batch sits behind the new, empty tail *)
        destruct (LInv_view _ _ _ _ HLh) as (S & t & f0 & tw0 & V).
        rewrite (lv_tail _ _ _ _ _ _ _ _ V) in Htw1. inversion Htw1; subst tw0.
        pose proof (lv_tw _ _ _ _ _ _ _ _ V) as (Tn & Tb & _ & _ & Tnn & _ & Ti & _).
        destruct Hfacts as (l1 & lr & El & Hidx & His). injection El as <- <-.
        assert (Hse : df_seal f0 = 0) by congruence.
        assert (Hne : l0 :: ls' <> []) by discriminate.
        destruct (append_act_pend V (l0 :: ls') Hc Hse Hok HF Hne) as (len & b & Ea & Eb & Hlt).
        set (a := append_act tw1 (l0 :: ls')) in *. set (m := name_of ti) in *.
        destruct (Hfin _ Hpfx) as (HDa & _).
        assert (ND1 : NoDup (map fst (dk_files (e_disk ec1)))).
        { pose proof (DIs_NoDup _ _ _ HDa) as K. rewrite Ea in K.
          destruct (write_sync_keys (e_disk ec1) (AWrite (name_of t) (df_end f0) len b) I) as (K1 & _). rewrite K1 in K. exact K. }
        assert (Hd1 : d1 = apply_act (e_disk ec1) (ADelete m)) by reflexivity.
        assert (Hlm : lookup m (dk_files d1) = None) by (rewrite Hd1; cbn [apply_act dk_files]; apply lookup_remove_eq; exact ND1).
        assert (Hnm : name_of t <> m).
        { intros K. pose proof (lv_file _ _ _ _ _ _ _ _ V) as Hf. rewrite K, Hlm in Hf. discriminate. }
        assert (Hcomm : apply_act d1 a = del_disk [m] (apply_act (e_disk ec1) a)).
        { rewrite Hd1, Ea. unfold del_disk. cbn [fold_left]. apply write_delete_comm; assumption. }
        rewrite <- Hcomm in Hrel.
        assert (Hmeta1 : dk_meta (apply_act (e_disk ec1) a) = Some (persistent w1)).
        { rewrite Ea. destruct (write_sync_keys (e_disk ec1) (AWrite (name_of t) (df_end f0) len b) I) as (_ & K2). rewrite K2.
          pose proof HLh as (_ & _ & _ & _ & Hm1 & _). rewrite Hd1 in Hm1. exact Hm1. }
        assert (Hunl : listed (ps_segs (persistent w1)) m = false).
        { destruct (listed (ps_segs (persistent w1)) m) eqn:El'; [|reflexivity]. exfalso.
          apply listed_spec in El'. destruct El' as (s & Hs & Hn). apply (LInv_listed_files c _ w1 d1 s HLh Hs). rewrite Hn. exact Hlm. }
        assert (HDw : DIs c (nb + 1) (apply_act d1 a)).
        { rewrite Hcomm. unfold del_disk. cbn [fold_left]. apply (DIs_delete c (nb + 1) _ m _ HDa Hmeta1 Hunl). }
        destruct (res_cases nom o1 ROk eq_refl Hres) as [(_ & Hacc)|(Hne0 & _)]; [|congruence].
        destruct (stale_after_write c (nb + 1) (nb + 1) w1 d1 (e_disk e') S t f0 tw1 defer' a len b V Hse ltac:(lia) Ea Hlt HDw Hrel) as (HLv & Hspv).
        { rewrite Eb. intros _. split; [split; [exact Hok|exact HF]|]. split; [left; reflexivity|].
          exists l0, ls'. split; [reflexivity|]. split; [rewrite Hidx, Tb, Tnn; reflexivity|].
          unfold o1, spec_accepts in Hacc. cbn [step_spec] in Hacc. unfold spec_store in Hacc. cbv iota in Hacc.
          destruct (consecutive (l_index l0) (l0 :: ls')); [reflexivity|]. cbn in Hacc. discriminate. }
        rewrite Hsph in Hspv.
        apply (live_out c (nb + 1) w1 (e_disk e') nom alts' defer'); assumption.
Qed.
