(* FaultStore.v -- StoreLogs with an injected I/O error, from a running WAL that
   accepts writes (possibly with a stale unsynced batch in its tail file). *)
From RW Require Import Base.Bytes Base.BytesFacts Fmt.Codec Fmt.CodecFacts Fmt.Frame Wal.Model Wal.Spec Wal.Hist Wal.FaultHist
  Wal.CrashInv Wal.CrashFacts0 Wal.CrashFacts1 Wal.CrashFacts2 Wal.CrashFacts3 Wal.CrashFacts4 Wal.CrashFacts5
  Wal.CrashFacts6 Wal.CrashGlue Wal.CrashCalls1 Wal.CrashCalls2 Wal.CrashCalls3 Wal.CrashCalls4 Wal.CrashCalls6
  Wal.CrashCalls7 Wal.CrashCalls8 Wal.CrashCalls9 Wal.FaultSim Wal.FaultSim2 Wal.FaultInv Wal.FaultFacts2 Wal.FaultFacts3 Wal.FaultNames
  Gen.Constants.
From Coq Require Import ZifyN ZifyNat ZifyBool.
Open Scope N_scope.

(* the shadow environment: same history and metrics, normalised disk, no fault *)
Definition shenv (e : env) : env :=
  {| e_acts := e_acts e; e_disk := sh (e_disk e); e_fault := None; e_fx := e_fx e; e_m := e_m e |}.

Lemma RD_mono c nb nb' d alts alts' defer defer' :
  nb <= nb' -> incl alts alts' -> incl defer defer' -> RD c nb d alts defer -> RD c nb' d alts' defer'.
Proof. intros H1 H2 H3 (A & B). split; [eapply DIs_mono; eauto|eapply cand_incl; eauto]. Qed.

Lemma stale_batch_mono c t f p defer defer' : incl defer defer' -> stale_batch c t f p defer -> stale_batch c t f p defer'.
Proof.
  intros Hi (A & B & C & D & E). split; [exact A|]. split; [exact B|]. split; [exact C|]. split; [exact D|].
  intros Hne. destruct (E Hne) as (E1 & E2 & E3). split; [exact E1|]. split; [apply Hi; exact E2|exact E3].
Qed.

Lemma Live_mono c nb nb' w d defer defer' : nb <= nb' -> incl defer defer' -> Live c nb w d defer -> Live c nb' w d defer'.
Proof.
  intros Hn Hi (HL & Hst). split; [eapply LInv_mono; eauto|].
  intros n f p Hl Hp. destruct (Hst n f p Hl Hp) as [(t & A & B & C)|K]; [left|right; exact K].
  exists t. split; [exact A|]. split; [exact B|]. eapply stale_batch_mono; eauto.
Qed.

(* ---- the metadata and the file ids of a live state ---- *)
Lemma live_meta c nb w d : LInv c nb w (sh d) -> dk_meta d = Some (persistent w).
Proof. intros (_ & _ & _ & _ & H & _). exact H. Qed.

Lemma live_ids c nb w d n : LInv c nb w (sh d) -> lookup n (dk_files d) <> None -> snd n < st_next_id w.
Proof.
  intros HL Hl. pose proof HL as (_ & _ & (ND & HD) & _ & Hm & _). rewrite Hm in HD. destruct HD as (_ & Hids & _).
  destruct (lookup n (dk_files d)) as [f|] eqn:E; [|congruence]. apply (Hids n (sh_file f)).
  unfold sh. rewrite lookup_map_files, E. reflexivity.
Qed.

(* a file the metadata does not list stays unlisted *)
Lemma unlisted_keep c nb w d d' n : LInv c nb w (sh d) -> lookup n (dk_files d) <> None -> unlisted d n ->
  meta_sub w d d' -> unlisted d' n.
Proof.
  intros HL Hl Hu [Hm|(ps & Hm & Hf)] ps' s Hm' Hs.
  - rewrite Hm in Hm'. apply (Hu ps' s Hm' Hs).
  - rewrite Hm in Hm'. inversion Hm'; subst ps'.
    apply (fresh_sub_keep w (ps_segs ps) n Hf (live_ids c nb w d n HL Hl)); [|exact Hs].
    intros s0 Hs0. apply (Hu (persistent w) s0 (live_meta c nb w d HL) Hs0).
Qed.

Lemma unlisted_meta d d' n : dk_meta d' = dk_meta d -> unlisted d n -> unlisted d' n.
Proof. intros Hm Hu ps s Hm' Hs. rewrite Hm in Hm'. apply (Hu ps s Hm' Hs). Qed.

(* ---- a live state and its shadow ---- *)
Lemma live_shadow c nb w e defer : Live c nb w (e_disk e) defer ->
  let X := stale_names (e_disk e) in
  R X e (shenv e) /\
  (forall tw, st_tail w = Some tw -> In (ws_name tw) X -> wguard (e_disk e) (ws_name tw) (ws_off tw)) /\
  (forall n, In n X -> lookup n (dk_files (e_disk e)) <> None) /\
  (forall n, In n X -> (exists t, tail_info (st_segs w) = Some t /\ n = name_of t) \/ unlisted (e_disk e) n).
Proof.
  intros (HL & Hst) X. pose proof (LInv_NoDup_sh _ _ _ _ HL) as ND.
  split; [split; [apply drel_sh; [exact ND|apply stale_names_ok]|reflexivity]|].
  split.
  { intros tw Htw _ f p Hl Hp. destruct (LInv_view _ _ _ _ HL) as (S & t & f0 & tw0 & V).
    rewrite (lv_tail _ _ _ _ _ _ _ _ V) in Htw. inversion Htw; subst tw0.
    pose proof (lv_tw _ _ _ _ _ _ _ _ V) as (Tn & _ & _ & _ & _ & To & _). rewrite Tn in Hl.
    assert (Hf0 : f0 = sh_file f).
    { pose proof (lv_file _ _ _ _ _ _ _ _ V) as K. unfold sh in K. rewrite lookup_map_files, Hl in K. cbn in K. inversion K. reflexivity. }
    destruct (Hst _ f p Hl Hp) as [(t' & Ht' & _ & Hsb)|Hu].
    - rewrite To, Hf0. cbn. apply Hsb.
    - exfalso. apply (Hu (persistent w) t (live_meta c nb w _ HL)); [|reflexivity].
      cbn [persistent ps_segs]. rewrite (lv_segs _ _ _ _ _ _ _ _ V). apply in_or_app. right. left. reflexivity. }
  split.
  { intros n Hin. destruct (stale_names_in _ n ND Hin) as (f & p & Hl & _). rewrite Hl. discriminate. }
  intros n Hin. destruct (stale_names_in _ n ND Hin) as (f & p & Hl & Hp).
  destruct (Hst n f p Hl Hp) as [(t & A & B & _)|K]; [left; exists t; auto|right; exact K].
Qed.

Lemma not_mem_name n X : mem_name n X = false -> ~ In n X.
Proof. intros E K. apply mem_name_spec in K. congruence. Qed.

Lemma drel_stale_ok X d dc : drel X d dc -> no_pend dc -> stale_ok X d.
Proof.
  intros (H1 & _ & _ & _ & _ & H6) Hn n f Hl Hp. destruct (lrel_lookup_some n _ _ f H1 Hl) as (g & Hg & _).
  destruct (mem_name n X) eqn:E; [apply mem_name_spec; exact E|]. exfalso. apply Hp.
  rewrite (H6 n f g Hl Hg (not_mem_name _ _ E)). apply (Hn n g Hg).
Qed.

Lemma sp_of_sh_clean c nb w dc : LInv c nb w dc -> sp_of (sh dc) = sp_of dc.
Proof.
  intros (_ & _ & HD & HN & _). rewrite <- (dirfix_nopend dc (DIs_NoDup _ _ _ HD) HN). apply sp_of_dirfix.
Qed.

(* ---- putting back files whose deletion failed ---- *)
Lemma sh_unpend d : sh d = dirfix (unpend d).
Proof. change (unpend d) with (map_files unpend_file d). unfold sh, dirfix. rewrite map_files_comp. reflexivity. Qed.

Lemma DIs_sh c nb d : DIs c nb d -> DIs c nb (sh d).
Proof. intros H. rewrite sh_unpend. apply DIs_dirfix, DIs_unpend. exact H. Qed.

Lemma sh_delete d n : sh (apply_act d (ADelete n)) = apply_act (sh d) (ADelete n).
Proof.
  unfold sh, map_files. cbn [apply_act dk_files dk_meta dk_stable dk_inited]. f_equal.
  induction (dk_files d) as [|[m g] r IH]; cbn [remove map fst snd]; [reflexivity|].
  destruct (fname_eqb n m); [reflexivity|]. cbn [map fst snd]. rewrite IH. reflexivity.
Qed.

Lemma sh_del_disk ns : forall d, sh (del_disk ns d) = del_disk ns (sh d).
Proof.
  unfold del_disk. induction ns as [|n ns IH]; intros d; cbn [fold_left]; [reflexivity|]. rewrite IH, sh_delete. reflexivity.
Qed.

Lemma sp_of_del c nb w d ns : LInv c nb w (del_disk ns d) -> NoDup (map fst (dk_files d)) -> sp_of (del_disk ns d) = sp_of d.
Proof.
  intros HL ND. destruct (del_disk_meta ns d) as (M1 & M2). unfold sp_of. rewrite M2. f_equal.
  apply dread_ext; [exact M1|]. intros ps s Hm Hs. unfold file_ents. rewrite (del_disk_lookup ns d _ ND).
  destruct (mem_name (name_of s) ns) eqn:E; [|reflexivity]. exfalso.
  pose proof HL as (_ & _ & _ & _ & Hmeta & _). rewrite M1, Hm in Hmeta. inversion Hmeta; subst ps.
  apply (LInv_listed_files c nb w _ s HL Hs). rewrite (del_disk_lookup ns d _ ND), E. reflexivity.
Qed.

Lemma undelete_sh c nb w dcp ns : LInv c nb w (del_disk ns dcp) -> DIs c nb dcp ->
  LInv c nb w (sh dcp) /\ sp_of (sh dcp) = sp_of (del_disk ns dcp) /\
  (forall n, In n ns -> forall s, In s (st_segs w) -> name_of s <> n).
Proof.
  intros HL HD. pose proof (DIs_NoDup _ _ _ HD) as ND.
  assert (HL1 : LInv c nb w (del_disk ns (sh dcp))) by (rewrite <- sh_del_disk; apply LInv_sh; exact HL).
  assert (NDs : NoDup (map fst (dk_files (sh dcp)))) by (unfold sh; rewrite map_files_keys; exact ND).
  split; [apply (LInv_undelete c nb w (sh dcp) ns HL1 (DIs_sh c nb dcp HD) (no_pend_sh dcp))|]. split.
  - rewrite <- (sp_of_del c nb w (sh dcp) ns HL1 NDs), <- sh_del_disk. apply (sp_of_sh_clean c nb w _ HL).
  - intros n Hin s Hs Hn. apply (LInv_listed_files c nb w _ s HL Hs). rewrite Hn, (del_disk_lookup ns dcp n ND).
    replace (mem_name n ns) with true; [reflexivity|]. symmetry. apply mem_name_spec. exact Hin.
Qed.

(* ---- sizes ---- *)
Lemma append_end_gt L off n k F h :
  L < two30 -> 8 * n <= off -> off <= L + 8 -> 8 * k <= F -> F < two30 -> 1 <= k -> (h = 0 \/ h = 32) ->
  let n' := n + k in
  let buf := h + F in
  let seal := L <? (off + (buf + index_frame_size n') mod two32) mod two32 in
  let buf2 := if seal then buf + index_frame_size n' else buf in
  let total := buf2 + 8 in
  off < (off + total) mod two32.
Proof.
  intros HL Hn Hoff Hk HF Hk1 Hh. cbv zeta.
  pose proof (index_frame_size_le (n + k)) as Hidx. revert Hidx. generalize (index_frame_size (n + k)). intros X Hidx.
  assert (T32 : two32 = 4294967296) by reflexivity. assert (T30 : two30 = 1073741824) by reflexivity.
  rewrite (N.mod_small (h + F + X) two32) by lia.
  rewrite (N.mod_small (off + (h + F + X)) two32) by lia.
  destruct (L <? off + (h + F + X)) eqn:Es.
  - rewrite (N.mod_small (off + (h + F + X + 8)) two32) by lia. lia.
  - rewrite (N.mod_small (off + (h + F + 8)) two32) by lia. lia.
Qed.

Lemma force_end_gt L off n h :
  L < two30 -> 8 * n <= off -> off <= L + 8 -> 1 <= n -> (h = 0 \/ h = 32) ->
  off < (off + (h + index_frame_size n + 8)) mod two32.
Proof.
  intros HL Hn Hoff Hn1 Hh.
  pose proof (index_frame_size_le n) as Hidx. revert Hidx. generalize (index_frame_size n). intros X Hidx.
  assert (T32 : two32 = 4294967296) by reflexivity. assert (T30 : two30 = 1073741824) by reflexivity.
  rewrite (N.mod_small (off + (h + X + 8)) two32) by lia. lia.
Qed.

Lemma sh_write d n off l b : sh (apply_act d (AWrite n off l b)) = sh d.
Proof.
  cbn [apply_act]. destruct (lookup n (dk_files d)) as [f|] eqn:E; [|reflexivity].
  unfold sh, map_files. cbn [dk_files dk_meta dk_stable dk_inited]. f_equal.
  induction (dk_files d) as [|[m g] r IH]; [discriminate|]. cbn [lookup update map fst snd] in *.
  destruct (fname_eqb n m) eqn:En.
  - apply fname_eqb_eq in En. subst m. inversion E; subst g. reflexivity.
  - cbn [map fst snd]. rewrite IH; auto.
Qed.

(* ---- a failed fsync leaves a stale batch behind a clean state ---- *)

Lemma stale_after_write c nb nb' w dc d' X S t f0 tw defer' a len b :
  lview c nb w dc S t f0 tw -> df_seal f0 = 0 -> nb <= nb' ->
  a = AWrite (name_of t) (df_end f0) len b -> df_end f0 < pb_end b ->
  DIs c nb' (apply_act dc a) -> drel X d' (apply_act dc a) -> ~ In (name_of t) X ->
  (forall n, In n X -> unlisted d' n) ->
  (pb_ents b <> [] -> sop_ok (OStore (pb_ents b)) /\ In (OStore (pb_ents b)) defer' /\
     exists l0 r, pb_ents b = l0 :: r /\ l_index l0 = si_base t + llen (df_ents f0) /\
                  consecutive (l_index l0) (pb_ents b) = true) ->
  Live c nb' w d' defer' /\ sp_of (sh d') = sp_of dc.
Proof.
  intros V Hse Hnb -> Hlt HD Hrel HtX Hgarb Hls.
  set (n := name_of t) in *. set (dm := apply_act dc (AWrite n (df_end f0) len b)) in *.
  pose proof (LInv_of_view V) as HLc.
  assert (Hsh : sh d' = sh dc) by (rewrite (drel_sh_eq _ _ _ Hrel); unfold dm; apply sh_write).
  pose proof (lv_file _ _ _ _ _ _ _ _ V) as Hf0. pose proof (lv_pend _ _ _ _ _ _ _ _ V) as Hp0.
  assert (Edm : dm = {| dk_files := update n (with_pend f0 b) (dk_files dc); dk_meta := dk_meta dc;
                        dk_stable := dk_stable dc; dk_inited := dk_inited dc |}).
  { apply (apply_write dc n (df_end f0) len b f0 Hf0 Hp0). }
  assert (Hldm : lookup n (dk_files dm) = Some (with_pend f0 b)) by (rewrite Edm; cbn [dk_files]; apply lookup_update_eq).
  pose proof Hrel as (H1 & _ & _ & _ & _ & H6).
  destruct (lrel_lookup_some_r n _ _ _ H1 Hldm) as (f' & Hf' & (F1 & F2 & F3 & _)).
  pose proof (H6 n f' _ Hf' Hldm HtX) as F5. cbn [with_pend df_ents df_end df_seal df_pend] in *.
  rewrite Hsh. split; [|apply (sp_of_sh_clean c nb w dc HLc)].
  split; [rewrite Hsh; eapply LInv_mono; [exact Hnb|apply LInv_sh; exact HLc]|].
  intros m g q Hl Hq. destruct (fname_eqb m n) eqn:E.
  - apply fname_eqb_eq in E. subst m. left. exists t. split; [rewrite (lv_segs _ _ _ _ _ _ _ _ V); apply tail_info_app|]. split; [reflexivity|].
    rewrite Hf' in Hl. inversion Hl; subst g. rewrite F5 in Hq. inversion Hq; subst q.
    pose proof (lv_meta _ _ _ _ _ _ _ _ V) as Hm.
    assert (Hmdm : dk_meta dm = Some {| ps_next_id := st_next_id w; ps_segs := S ++ [t] |}) by (rewrite Edm; exact Hm).
    destruct (DIs_parts c nb' dm _ S t HD Hmdm eq_refl) as (_ & _ & _ & _ & _ & _ & Htok).
    destruct Htok as (_ & Htok). fold n in Htok. rewrite Hldm in Htok. destruct Htok as (_ & Z2 & _ & _ & _ & Z6).
    unfold cur_ents, cur_end, cur_seal in Z2, Z6. cbn [with_pend df_pend df_ents] in Z2, Z6.
    split; [congruence|]. split; [rewrite F2; lia|]. rewrite F1. split; [exact Z2|]. split; [exact Z6|].
    exact Hls.
  - right. apply Hgarb. destruct (mem_name m X) eqn:Ex; [apply mem_name_spec; exact Ex|]. exfalso.
    destruct (lrel_lookup_some m _ _ _ H1 Hl) as (gm & Hgm & _). rewrite (H6 m g gm Hl Hgm (not_mem_name _ _ Ex)) in Hq.
    apply fname_eqb_neq in E. rewrite Edm in Hgm. cbn [dk_files] in Hgm. rewrite lookup_update_neq in Hgm by exact E.
    rewrite (lv_nopend _ _ _ _ _ _ _ _ V m gm Hgm) in Hq. discriminate.
Qed.

Lemma lv_sizes {c nb w d S t f tw} (V : lview c nb w d S t f tw) :
  df_seal f = 0 -> 8 * llen (df_ents f) <= df_end f /\ df_end f <= c_seg_size c + 8.
Proof.
  intros Hse. pose proof (lv_tok _ _ _ _ _ _ _ _ V) as (_ & Ht'). rewrite (lv_file _ _ _ _ _ _ _ _ V) in Ht'.
  destruct Ht' as ((Z1 & Z2 & Z3 & _) & _). split; [exact Z1|apply Z3; exact Hse].
Qed.

Lemma append_act_pend {c nb w d S t f tw} (V : lview c nb w d S t f tw) ls :
  cfg_ok c -> df_seal f = 0 -> logs_ok ls -> frames_size ls < two30 -> ls <> [] ->
  exists len b, append_act tw ls = AWrite (name_of t) (df_end f) len b /\ pb_ents b = ls /\ df_end f < pb_end b.
Proof.
  intros (_ & _ & _ & Hc4) Hse Hok HF Hne.
  pose proof (lv_tw _ _ _ _ _ _ _ _ V) as (Tn & Tb & Tm & Tl & Tnn & To & Ti & Tc).
  pose proof (lv_twf V) as (_ & Hlim & _).
  destruct (lv_sizes V Hse) as (Z1 & Z3).
  unfold append_act. cbv zeta. rewrite Tn, To, Tl, Hlim, Tnn. eexists _, _. split; [reflexivity|]. split; [reflexivity|].
  cbn [pb_end].
  assert (Hk1 : 1 <= llen ls) by (destruct ls; [congruence|rewrite llen_cons; lia]).
  assert (Hh : (if ws_hdr tw then 32 else 0) = 0 \/ (if ws_hdr tw then 32 else 0) = 32) by (destruct (ws_hdr tw); auto).
  apply (append_end_gt (c_seg_size c) (df_end f) (llen (df_ents f)) (llen ls) (frames_size ls)
              (if ws_hdr tw then 32 else 0) Hc4 Z1 Z3 (frames_size_ge ls) HF Hk1 Hh).
Qed.

Lemma force_act_pend {c nb w d S t f tw} (V : lview c nb w d S t f tw) :
  cfg_ok c -> df_seal f = 0 -> 1 <= llen (df_ents f) ->
  exists len b, force_act tw = AWrite (name_of t) (df_end f) len b /\ pb_ents b = [] /\ df_end f < pb_end b.
Proof.
  intros (_ & _ & _ & Hc4) Hse Hn1.
  pose proof (lv_tw _ _ _ _ _ _ _ _ V) as (Tn & Tb & Tm & Tl & Tnn & To & Ti & Tc).
  destruct (lv_sizes V Hse) as (Z1 & Z3).
  unfold force_act. cbv zeta. rewrite Tn, To, Tnn. eexists _, _. split; [reflexivity|]. split; [reflexivity|].
  cbn [pb_end].
  assert (Hh : (if ws_hdr tw then 32 else 0) = 0 \/ (if ws_hdr tw then 32 else 0) = 32) by (destruct (ws_hdr tw); auto).
  apply (force_end_gt (c_seg_size c) (df_end f) (llen (df_ents f)) (if ws_hdr tw then 32 else 0) Hc4 Z1 Z3 Hn1 Hh).
Qed.

(* ---- the recovery view of a disk related to a clean one, when the files that may
        differ (stale batches) are not listed by the metadata ---- *)
Lemma RD_rel c nb d' dm X alts defer :
  DIs c nb dm -> no_pend dm -> drel X d' dm -> (forall n, In n X -> unlisted dm n) ->
  In (sp_of dm) (candidates alts defer) -> RD c nb d' alts defer.
Proof.
  intros HD HN Hrel Hunl Hin. pose proof Hrel as (H1 & H2 & H3 & H4 & H5 & H6).
  assert (Hlk : forall ps s, dk_meta dm = Some ps -> In s (ps_segs ps) ->
            lookup (name_of s) (dk_files (ad d')) = lookup (name_of s) (dk_files (dirfix dm))).
  { intros ps s Hm Hs. rewrite ad_lookup. unfold dirfix. rewrite lookup_map_files.
    pose proof (lrel_lookup (name_of s) _ _ H1) as K.
    destruct (lookup (name_of s) (dk_files d')) as [g|] eqn:Eg, (lookup (name_of s) (dk_files dm)) as [gm|] eqn:Egm; [|destruct K|destruct K|reflexivity].
    destruct K as (K1 & K2 & K3 & _). cbn [option_map]. f_equal.
    assert (Hp : df_pend g = df_pend gm).
    { apply (H6 _ g gm Eg Egm). intros Hx. apply (Hunl _ Hx ps s Hm Hs). reflexivity. }
    pose proof (HN _ gm Egm) as Hpm. rewrite Hpm in Hp. unfold adopt_file. rewrite Hp. unfold dirfix_file. rewrite K1, K2, K3, Hp, Hpm. reflexivity. }
  eapply (RD_frame c nb d' (dirfix dm)).
  - apply DIs_dirfix. exact HD.
  - symmetry. exact H2.
  - symmetry. exact H3.
  - apply (drel_NoDup _ _ _ Hrel).
  - intros n Hl. unfold dirfix. rewrite lookup_map_files. destruct (lookup n (dk_files d')) as [g|] eqn:Eg; [|congruence].
    destruct (lrel_lookup_some n _ _ g H1 Eg) as (gm & Egm & _). rewrite Egm. discriminate.
  - intros ps s Hm Hs. apply (Hlk ps s Hm Hs).
  - rewrite sp_of_dirfix. exact Hin.
Qed.

(* ---- readers after a failure: the in-memory state agrees with a clean disk ---- *)
Lemma RV_intro2 c nb w wc dc d nom :
  LInv c nb wc dc -> sp_of dc = nom -> st_segs w = st_segs wc -> st_tail w = st_tail wc ->
  (forall n, lookup n (dk_files dc) <> None -> lookup n (dk_files (sh d)) = lookup n (dk_files dc)) ->
  dk_stable dc = dk_stable d -> NoDup (map fst (dk_files d)) ->
  (forall n f p, lookup n (dk_files d) = Some f -> df_pend f = Some p ->
     (exists t, tail_info (st_segs wc) = Some t /\ n = name_of t) \/ (forall s, In s (st_segs wc) -> name_of s <> n)) ->
  RV c nb w d nom.
Proof.
  intros HL Hsp Hs Ht Hlk Hstb ND Hst.
  exists wc, dc. split; [exact HL|]. split; [exact Hsp|]. split; [exact Hs|]. split; [exact Ht|].
  split; [exact Hlk|]. split; [exact Hstb|]. split; [exact ND|].
  intros n f s Hl Hp Hin Hn. destruct (df_pend f) as [p|] eqn:Ep; [|congruence].
  destruct (LInv_view _ _ _ _ HL) as (S & t & f0 & tw & V). rewrite Hs, (lv_segs _ _ _ _ _ _ _ _ V) in Hin |- *.
  rewrite tail_info_app. apply in_app_or in Hin. destruct Hin as [Hin|[<-|[]]]; [exfalso|reflexivity].
  destruct (Hst n f p Hl Ep) as [(t' & Ht' & ->)|Hu].
  - rewrite (lv_segs _ _ _ _ _ _ _ _ V), tail_info_app in Ht'. inversion Ht'; subst t'.
    apply (DIs_sealed_neq c nb dc _ S t s (lv_dis _ _ _ _ _ _ _ _ V) (lv_meta _ _ _ _ _ _ _ _ V) eq_refl Hin). exact Hn.
  - apply (Hu s); [rewrite (lv_segs _ _ _ _ _ _ _ _ V); apply in_or_app; left; exact Hin|exact Hn].
Qed.

(* the metadata commit went through, the creation of the new tail file failed *)
Lemma fail_after_commit c nb nb' wm wc dc d' X nom alts defer ps ec ec' :
  nb <= nb' -> LInv c nb wc dc -> e_disk ec = dc -> sp_of dc = nom ->
  st_segs wm = st_segs wc -> st_tail wm = st_tail wc -> st_failed wm = true -> st_rotate wm = None -> st_closed wm = false ->
  post_commit X ec ec' d' ps ->
  (forall dm, pfx ec ec' dm -> DIs c nb' dm /\ In (sp_of dm) (candidates alts defer)) ->
  (forall n, In n X -> (exists t, tail_info (st_segs wc) = Some t /\ n = name_of t) \/
                       (forall s, In s (st_segs wc) -> name_of s <> n)) ->
  (forall n s, In n X -> In s (ps_segs ps) -> name_of s <> n) ->
  Mode c nb' wm d' nom defer /\ RD c nb' d' alts defer.
Proof.
  intros Hnb HL Hec Hsp Hs Ht Hf Hr Hcl (dm & Hrel & Hpfx & Hmeta & Hkeep & Hstb & Hnew) Hfin HX Hunl.
  subst dc. pose proof HL as (_ & _ & HDc & HNc & _).
  assert (HNdm : no_pend dm).
  { intros n f Hl. destruct (lookup n (dk_files (e_disk ec))) as [g|] eqn:E0; [|apply (Hnew n f Hl E0)].
    rewrite (Hkeep n) in Hl by congruence. apply (HNc n f Hl). }
  destruct (Hfin dm Hpfx) as (HDm & Hcand).
  split.
  - right. split; [exact Hcl|]. right. split; [exact Hf|]. split; [exact Hr|].
    apply (RV_intro2 c nb' wm wc (sh (e_disk ec)) d' nom).
    + eapply LInv_mono; [exact Hnb|apply LInv_sh; exact HL].
    + rewrite (sp_of_sh_clean c nb wc _ HL). exact Hsp.
    + exact Hs.
    + exact Ht.
    + intros n Hl. rewrite (drel_sh_eq _ _ _ Hrel). unfold sh in Hl |- *. rewrite lookup_map_files in Hl. rewrite !lookup_map_files.
      destruct (lookup n (dk_files (e_disk ec))) as [g|] eqn:E0; [|exfalso; apply Hl; reflexivity].
      rewrite (Hkeep n) by congruence. rewrite E0. reflexivity.
    + destruct Hrel as (_ & _ & K & _). rewrite K. symmetry. exact Hstb.
    + apply (drel_NoDup _ _ _ Hrel).
    + intros n f p Hl Hp. apply HX. apply (drel_stale_ok _ _ _ Hrel HNdm n f Hl). congruence.
  - apply (RD_rel c nb' d' dm X alts defer HDm HNdm Hrel); [|exact Hcand].
    intros n Hx ps' s Hm' Hs'. rewrite Hmeta in Hm'. inversion Hm'; subst ps'. apply (Hunl n s Hx Hs').
Qed.

(* ---- the state a run leaves whose trailing deletions may all have failed ---- *)
Lemma landed_post c nb A w0 e' ec ec' X ns (P : fname -> dfile -> pbatch -> Prop) :
  ext (DP c nb A) ec ec' -> LInv c nb w0 (e_disk ec') -> landed X ns ec e' ec' ->
  (forall n f p, In n X -> ~ In n ns -> lookup n (dk_files (e_disk e')) = Some f -> df_pend f = Some p ->
      P n f p \/ unlisted (e_disk e') n) ->
  LInv c nb w0 (sh (e_disk e')) /\
  (forall n f p, lookup n (dk_files (e_disk e')) = Some f -> df_pend f = Some p -> P n f p \/ unlisted (e_disk e') n) /\
  sp_of (sh (e_disk e')) = sp_of (e_disk ec').
Proof.
  intros Hext HL (ecp & HR & Eec & Ha) Hcls.
  destruct HR as (Hrel & Hfp).
  assert (Hd' : e_disk ec' = del_disk ns (e_disk ecp)) by (rewrite Eec; apply delete_files_disk; exact Hfp).
  assert (Hp : pfx ec ec' (e_disk ecp)).
  { eapply pfx_more; [apply pfx_end; exact Ha|]. rewrite Eec. apply sh_delete_files. exact Hfp. }
  destruct (ext_pfx _ _ _ _ Hext Hp) as (HDp & _).
  rewrite Hd' in HL. destruct (undelete_sh c nb w0 (e_disk ecp) ns HL HDp) as (HL2 & Hsp2 & Hunl).
  pose proof HL as (_ & _ & _ & HN & Hmeta & _). pose proof (DIs_NoDup _ _ _ HDp) as ND.
  split; [|split].
  + rewrite (drel_sh_eq _ _ _ Hrel). exact HL2.
  + intros n f p Hl Hp'. destruct (mem_name n ns) eqn:En.
    * right. apply mem_name_spec in En. intros ps s Hm Hs.
      assert (Eps : ps = persistent w0).
      { destruct Hrel as (_ & M & _). rewrite M in Hm. destruct (del_disk_meta ns (e_disk ecp)) as (M1 & _).
        rewrite <- M1, Hmeta in Hm. inversion Hm; reflexivity. }
      subst ps. apply (Hunl n En s Hs).
    * assert (Hin : In n X).
      { destruct (mem_name n X) eqn:Ex; [apply mem_name_spec; exact Ex|]. exfalso.
        destruct Hrel as (H1 & _ & _ & _ & _ & H6). destruct (lrel_lookup_some n _ _ f H1 Hl) as (g & Hg & _).
        assert (Hpg : df_pend g = None). { apply (HN n g). rewrite (del_disk_lookup ns _ n ND), En. exact Hg. }
        rewrite (H6 n f g Hl Hg (not_mem_name _ _ Ex)) in Hp'. congruence. }
      apply (Hcls n f p Hin (not_mem_name _ _ En) Hl Hp').
  + rewrite (drel_sh_eq _ _ _ Hrel), Hd'. exact Hsp2.
Qed.

Lemma Rd_post c nb A w0 e' ec ec' X ns (P : fname -> dfile -> pbatch -> Prop) :
  ext (DP c nb A) ec ec' -> LInv c nb w0 (e_disk ec') -> Rd X ns ec e' ec' ->
  (forall n f p, In n X -> ~ In n ns -> lookup n (dk_files (e_disk e')) = Some f -> df_pend f = Some p ->
      P n f p \/ unlisted (e_disk e') n) ->
  LInv c nb w0 (sh (e_disk e')) /\
  (forall n f p, lookup n (dk_files (e_disk e')) = Some f -> df_pend f = Some p -> P n f p \/ unlisted (e_disk e') n) /\
  sp_of (sh (e_disk e')) = sp_of (e_disk ec').
Proof.
  intros Hext HL [HR|(ecp & HR & Eec & Ha & _)] Hcls.
  - destruct HR as (Hrel & _). pose proof HL as (_ & _ & _ & HN & _).
    split; [|split].
    + rewrite (drel_sh_eq _ _ _ Hrel). apply LInv_sh; exact HL.
    + intros n f p Hl Hp. assert (Hin : In n (rems ns X)) by (apply (drel_stale_ok _ _ _ Hrel HN n f Hl); congruence).
      apply (Hcls n f p (rems_incl ns X n Hin) (rems_in ns X n Hin) Hl Hp).
    + rewrite (drel_sh_eq _ _ _ Hrel). apply (sp_of_sh_clean c nb w0 _ HL).
  - apply (landed_post c nb A w0 e' ec ec' X ns P Hext HL); [|exact Hcls]. exists ecp. auto.
Qed.

Lemma Rd_live c nb A w0 e' ec ec' X ns defer' :
  ext (DP c nb A) ec ec' -> LInv c nb w0 (e_disk ec') -> Rd X ns ec e' ec' ->
  (forall n f p, In n X -> ~ In n ns -> lookup n (dk_files (e_disk e')) = Some f -> df_pend f = Some p ->
      (exists t, tail_info (st_segs w0) = Some t /\ n = name_of t /\ stale_batch c t f p defer') \/ unlisted (e_disk e') n) ->
  Live c nb w0 (e_disk e') defer' /\ sp_of (sh (e_disk e')) = sp_of (e_disk ec').
Proof.
  intros Hext HL HRd Hcls.
  destruct (Rd_post c nb A w0 e' ec ec' X ns (fun n f p => exists t, tail_info (st_segs w0) = Some t /\ n = name_of t /\ stale_batch c t f p defer') Hext HL HRd Hcls)
    as (A1 & A2 & A3).
  split; [split; [exact A1|exact A2]|exact A3].
Qed.

(* ---- fault-free runs keep the disk free of pending batches ---- *)
Lemma np_seg_create si ec sw ec' : e_fault ec = None -> no_pend (e_disk ec) -> seg_create si ec = (sw, ec') -> no_pend (e_disk ec').
Proof.
  intros Hf Hn. unfold seg_create. destruct (si_base si =? 0); [intros E; inversion E; subst; exact Hn|].
  destruct (lookup _ _); rewrite (io_ok _ _ Hf); intros E; inversion E; subst; cbn [io_env e_disk]; [exact Hn|].
  apply no_pend_create. exact Hn.
Qed.

Lemma np_mutate_gen_defer w t ec r w' ec' dl : e_fault ec = None -> no_pend (e_disk ec) ->
  mutate_gen true w t ec = (r, w', ec', dl) -> no_pend (e_disk ec').
Proof.
  intros Hf Hn. unfold mutate_gen. rewrite (io_ok _ _ Hf). cbn [negb].
  match goal with |- context [io_env ?a ec] => set (ec1 := io_env a ec) end.
  assert (Hn1 : no_pend (e_disk ec1)) by (apply (no_pend_same (e_disk ec)); [reflexivity|exact Hn]).
  destruct (tx_create t) as [si|]; [|intros E; inversion E; subst; exact Hn1].
  destruct (seg_create si ec1) as [sw ec2] eqn:Es. pose proof (np_seg_create si ec1 sw ec2 eq_refl Hn1 Es) as Hn2.
  destruct sw; intros E; inversion E; subst; exact Hn2.
Qed.

Lemma np_reset_first c w nbase ec r w' ec' dl : e_fault ec = None -> no_pend (e_disk ec) ->
  reset_first c w nbase ec = (r, w', ec', dl) -> no_pend (e_disk ec').
Proof.
  intros Hf Hn. unfold reset_first. destruct (0 <? _); [intros E; inversion E; subst; exact Hn|].
  destruct (tail_info _) as [t|].
  - destruct (si_base t =? nbase); [apply np_mutate_gen_defer; assumption|].
    destruct (create_next _ _ _ _) as [[nid segs2] si]. apply np_mutate_gen_defer; assumption.
  - destruct (create_next _ _ _ _) as [[nid segs2] si]. apply np_mutate_gen_defer; assumption.
Qed.

(* ---- result classes ---- *)
Lemma res_class_ok r : res_class r = ROk -> r = ROk.
Proof. destruct r; cbn; intros H; try discriminate; reflexivity. Qed.

Lemma res_cases a o r0 : is_mutating o = true ->
  result_eqb (res_class r0) (fst (step_spec a o)) = true ->
  (r0 = ROk /\ spec_accepts a o = Some (snd (step_spec a o))) \/
  (r0 <> ROk /\ spec_accepts a o = None /\ snd (step_spec a o) = a).
Proof.
  intros Hm. unfold spec_accepts.
  assert (Hshape : (fst (step_spec a o) = ROk) \/ (fst (step_spec a o) = RErrOther /\ snd (step_spec a o) = a)).
  { destruct o; try discriminate; cbn [step_spec].
    - destruct (spec_store _ _); cbn; auto.
    - destruct (spec_delete _ _ _); cbn; auto.
    - destruct (key_ok k); cbn; auto. destruct is_nil; cbn; auto. }
  destruct (step_spec a o) as [rs s']. cbn [fst snd] in *. destruct Hshape as [->|(-> & ->)].
  - intros H. left. split; [|reflexivity]. apply res_class_ok. destruct (res_class r0); cbn in H; try discriminate. reflexivity.
  - intros H. right. split; [|auto]. intros ->. cbn in H. discriminate.
Qed.

Lemma in_alts_app_op nom o alts a' : In nom alts -> spec_accepts nom o = Some a' -> In a' (alts ++ app_op o alts).
Proof. intros H E. apply in_or_app. right. eapply in_app_op; eauto. Qed.

(* the clean state a Same outcome leaves *)
Lemma clean_after c nb w0 X e' ec' : LInv c nb w0 (e_disk ec') -> R X e' ec' ->
  LInv c nb w0 (sh (e_disk e')) /\ stale_ok X (e_disk e') /\ sp_of (sh (e_disk e')) = sp_of (e_disk ec').
Proof.
  intros HL (Hrel & _). pose proof HL as (_ & _ & _ & HN & _).
  rewrite (drel_sh_eq _ _ _ Hrel). split; [apply LInv_sh; exact HL|]. split; [eapply drel_stale_ok; eauto|].
  apply (sp_of_sh_clean c nb w0 _ HL).
Qed.

Lemma Mode_live c nb w d nom defer : Live c nb w d defer -> sp_of (sh d) = nom -> Mode c nb w d nom defer.
Proof. intros H E. right. split; [apply (LInv_closed _ _ _ _ (proj1 H))|]. left. auto. Qed.

(* ---- a StoreLogs that resets the empty first segment and then stops ---- *)
Lemma store_twice c w l0 ec ti w1 ec1 dels :
  log_ok l0 -> st_closed w = false -> st_failed w = false -> tail_info (st_segs w) = Some ti ->
  (last_index (st_segs w) (st_tail w) =? 0) && negb (l_index l0 =? si_base ti) = true ->
  reset_first c w (l_index l0) ec = (ROk, w1, ec1, dels) ->
  store_logs c w [l0; l0] ec = (RErrNonMono, w1, delete_files dels ec1).
Proof.
  intros Hok Hcl Hfl Hti Hcond Hr. rewrite store_logs_unfold, Hcl, Hfl. cbv zeta. rewrite Hti, Hcond, Hr.
  apply andb_true_iff in Hcond. destruct Hcond as (Hlast & _). apply N.eqb_eq in Hlast. rewrite Hlast.
  unfold store_go. cbn [check_logs]. change (0 <? 0) with false. cbn [andb].
  destruct (log_ok_encodes l0 Hok) as (b & Eb). rewrite Eb.
  destruct Hok as (_ & H1 & H2 & _).
  replace (0 <? l_index l0) with true by lia. rewrite (N.mod_small (l_index l0 + 1) two64) by exact H2.
  replace (l_index l0 =? l_index l0 + 1) with false by lia. cbn [andb negb]. reflexivity.
Qed.

Lemma twice_frames l0 : log_ok l0 -> frames_size [l0; l0] < two30.
Proof.
  intros (_ & _ & _ & H). rewrite !frames_size_cons. unfold frames_size. cbn [fold_left]. unfold enc_frame_size.
  pose proof (pad_len_lt (enc_len l0)). unfold MaxEntrySize in H. unfold two30. lia.
Qed.

Lemma twice_rejected a l0 : log_ok l0 -> step_spec a (OStore [l0; l0]) = (RErrOther, a).
Proof.
  intros (_ & H1 & H2 & _). cbn [step_spec]. unfold spec_store. cbn [consecutive].
  rewrite N.eqb_refl. replace (l_index l0 =? l_index l0 + 1) with false by lia. reflexivity.
Qed.

Lemma drel_trans_nil d1 d2 d3 : drel [] d1 d2 -> drel [] d2 d3 -> drel [] d1 d3.
Proof.
  intros H12 H23. pose proof (drel_strict_in _ _ H12) as F12. pose proof (drel_strict_in _ _ H23) as F23.
  destruct H12 as (_ & A2 & A3 & A4 & A5 & A6). destruct H23 as (_ & B2 & B3 & B4 & B5 & B6).
  assert (HF : Forall2 (fun a b => fst a = fst b /\ frel (snd a) (snd b) /\ df_pend (snd a) = df_pend (snd b)) (dk_files d1) (dk_files d3)).
  { clear - F12 F23. revert F23. generalize (dk_files d3). induction F12 as [|a b l lc (E & (P1 & P2 & P3 & P4) & P) _ IH]; intros l3 F23.
    - inversion F23; constructor.
    - inversion F23 as [|b' c' lc' l3' (E' & (Q1 & Q2 & Q3 & Q4) & Q) F23']; subst. constructor; [|apply IH; exact F23'].
      split; [congruence|]. split; [|congruence]. unfold frel. split; [congruence|]. split; [congruence|]. split; [congruence|]. left. congruence. }
  split.
  { clear - HF. induction HF as [|a b l lc (E & F & _) _ IH]; constructor; auto. }
  split; [congruence|]. split; [congruence|]. split; [congruence|]. split; [exact B5|].
  intros n f h Hf Hh _.
  assert (L13 : lrel (dk_files d1) (dk_files d3)) by (clear - HF; induction HF as [|a b l lc (E & F & _) _ IH]; constructor; auto).
  clear - HF Hf Hh. induction HF as [|[m a] [m' b] l lc (E & _ & P) _ IH]; [discriminate|].
  cbn [fst snd lookup] in *. subst m'. destruct (fname_eqb n m); [inversion Hf; inversion Hh; subst; exact P|auto].
Qed.

Lemma live_out c nb w d nom alts defer :
  Live c nb w d defer -> sp_of (sh d) = nom -> In nom alts -> Mode c nb w d nom defer /\ RD c nb d alts defer.
Proof.
  intros H E Hin. split; [apply Mode_live; assumption|]. apply (live_RD c nb w d alts defer H). rewrite E. exact Hin.
Qed.

Lemma remove_update_comm n m f : forall l, n <> m -> remove m (update n f l) = update n f (remove m l).
Proof.
  intros l Hne. induction l as [|[k g] r IH]; cbn [update remove].
  - apply fname_eqb_neq in Hne. rewrite fname_eqb_sym, Hne. reflexivity.
  - destruct (fname_eqb n k) eqn:E1, (fname_eqb m k) eqn:E2.
    + apply fname_eqb_eq in E1, E2. congruence.
    + cbn [remove update]. apply fname_eqb_eq in E1. subst k. rewrite E2. cbn [update]. rewrite fname_eqb_refl. reflexivity.
    + cbn [remove update]. rewrite E2. reflexivity.
    + cbn [remove update]. rewrite E2, E1, IH. reflexivity.
Qed.

Lemma write_delete_comm d n m off l b : n <> m -> NoDup (map fst (dk_files d)) ->
  apply_act (apply_act d (ADelete m)) (AWrite n off l b) = apply_act (apply_act d (AWrite n off l b)) (ADelete m).
Proof.
  intros Hne ND. cbn [apply_act dk_files dk_meta dk_stable dk_inited]. rewrite (lookup_remove_neq n m _ Hne).
  destruct (lookup n (dk_files d)) as [f|]; [|reflexivity]. cbn [dk_files dk_meta dk_stable dk_inited].
  rewrite remove_update_comm by exact Hne. reflexivity.
Qed.

(* ---- a failed commit that changed nothing: the WAL refuses writes ---- *)
(* equal up to dk_inited *)
Definition deq (d' d : disk) : Prop :=
  dk_files d' = dk_files d /\ dk_meta d' = dk_meta d /\ dk_stable d' = dk_stable d.

Lemma deq_refl d : deq d d. Proof. repeat split. Qed.

Lemma deq_commit_same d ps : dk_meta d = Some ps -> deq (apply_act d (ACommit ps)) d.
Proof. intros H. split; [reflexivity|]. split; [cbn; symmetry; exact H|reflexivity]. Qed.

Lemma Live_deq c nb w d d' defer : deq d' d -> Live c nb w d defer -> Live c nb w d' defer.
Proof.
  intros (Hf & Hm & Hs) (HL & Hst). split.
  - apply (LInv_same c nb w (sh d) (sh d')); [unfold sh, map_files; cbn [dk_files]; rewrite Hf; reflexivity|exact Hm|exact HL].
  - intros n f p Hl Hp. rewrite Hf in Hl. destruct (Hst n f p Hl Hp) as [K|K]; [left; exact K|right].
    eapply unlisted_meta; [exact Hm|exact K].
Qed.

Lemma sp_of_sh_deq d d' : deq d' d -> sp_of (sh d') = sp_of (sh d).
Proof.
  intros (Hf & Hm & Hs). unfold sp_of. cbn [sh map_files dk_stable]. rewrite Hs. f_equal.
  apply dread_ext; [exact Hm|]. intros ps s _ _. unfold file_ents, sh, map_files. cbn [dk_files]. rewrite Hf. reflexivity.
Qed.

Lemma RV_ext c nb w w2 d nom : st_segs w2 = st_segs w -> st_tail w2 = st_tail w -> RV c nb w d nom -> RV c nb w2 d nom.
Proof.
  intros Hs Ht (wc & dc & A & B & C & D & E). exists wc, dc. split; [exact A|]. split; [exact B|].
  split; [congruence|]. split; [congruence|]. rewrite Hs. exact E.
Qed.

Lemma failed_unchanged c nb nb' w d d' nom alts defer defer' :
  nb <= nb' -> incl defer defer' -> deq d' d -> Live c nb w d defer -> st_rotate w = None -> st_closed w = false ->
  sp_of (sh d) = nom -> In nom alts ->
  Mode c nb' (set_failed w) d' nom defer' /\ RD c nb' d' alts defer'.
Proof.
  intros Hnb Hid Hq HLive Hrot Hcl Hsp Hin.
  assert (HL' : Live c nb' w d' defer') by (eapply Live_mono; [exact Hnb|exact Hid|]; eapply Live_deq; eauto).
  pose proof (sp_of_sh_deq d d' Hq) as Hsp'. rewrite Hsp in Hsp'.
  split.
  - right. split; [exact Hcl|]. right. split; [reflexivity|]. split; [exact Hrot|].
    apply (RV_ext c nb' w (set_failed w)); [reflexivity|reflexivity|]. rewrite <- Hsp'. eapply RV_of_live; exact HL'.
  - apply (live_RD c nb' w d' alts defer' HL'). rewrite Hsp'. exact Hin.
Qed.

(* ---- StoreLogs from a live state ---- *)
Lemma live_tail_name c nb w d t tw : LInv c nb w d -> tail_info (st_segs w) = Some t -> st_tail w = Some tw -> ws_name tw = name_of t.
Proof.
  intros HL Ht Htw. destruct (LInv_view _ _ _ _ HL) as (S & t0 & f0 & tw0 & V).
  rewrite (lv_segs _ _ _ _ _ _ _ _ V), tail_info_app in Ht. inversion Ht; subst t0.
  rewrite (lv_tail _ _ _ _ _ _ _ _ V) in Htw. inversion Htw; subst tw0. apply (lv_tw _ _ _ _ _ _ _ _ V).
Qed.

Lemma live_store c nb w e nom alts defer ls :
  cfg_ok c -> logs_ok ls -> frames_size ls < two30 -> nb + 1 < two64 ->
  Live c nb w (e_disk e) defer -> st_rotate w = None -> sp_of (sh (e_disk e)) = nom -> In nom alts ->
  exists r w' e', store_logs c w ls e = (r, w', e') /\ st_closed w' = false /\
    ((r = ROk /\ exists nom', spec_accepts nom (OStore ls) = Some nom' /\
        Live c (nb + 1) w' (e_disk e') defer /\ sp_of (sh (e_disk e')) = nom') \/
     (r <> ROk /\ Mode c (nb + 1) w' (e_disk e') nom (OStore ls :: defer) /\
      RD c (nb + 1) (e_disk e') (alts ++ app_op (OStore ls) alts) (OStore ls :: defer))).
Proof.
  intros Hc Hok HF Hnb HLive Hrot Hsp Hin.
  pose proof HLive as (HL & _). pose proof (LInv_closed _ _ _ _ HL) as Hcl.
  destruct (live_shadow c nb w e defer HLive) as (HR & Hg & Hex & HX).
  set (X := stale_names (e_disk e)) in *. set (ec := shenv e) in *. set (d := e_disk e) in *.
  destruct (store_logs_ok c nb w ec ls nom Hc HL eq_refl Hrot Hnb Hsp Hok HF) as (r0 & w0 & ec' & Hsl & Hres & HL' & Hsp' & Hext).
  destruct (store_logs c w ls e) as [[r w'] e'] eqn:Est. exists r, w', e'. split; [reflexivity|].
  destruct (store_logs_sub _ _ _ _ _ _ _ Est) as (_ & Hms).
  assert (Hgarb : forall n, In n X -> unlisted d n -> unlisted (e_disk e') n).
  { intros n Hx Hu. apply (unlisted_keep c nb w d (e_disk e') n HL (Hex n Hx) Hu Hms). }
  set (o1 := OStore ls) in *. set (defer' := o1 :: defer). set (alts' := alts ++ app_op o1 alts).
  assert (Hia : incl alts alts') by (intros x Hx; apply in_or_app; left; exact Hx).
  assert (Hid : incl defer defer') by (intros x Hx; right; exact Hx).
  assert (Hina : In nom alts') by (apply Hia; exact Hin).
  pose proof (LInv_closed _ _ _ _ HL') as Hcl0.
  (* the names in X other than the tail's are garbage *)
  assert (HXg : forall t n, tail_info (st_segs w) = Some t -> In n X -> n <> name_of t -> unlisted (e_disk e') n).
  { intros t n Ht Hx Hne. destruct (HX n Hx) as [(t' & Ht' & ->)|Hu]; [rewrite Ht in Ht'; inversion Ht'; subst; congruence|].
    apply Hgarb; assumption. }
  assert (Hdone : forall w1, Live c (nb + 1) w1 (e_disk e') defer -> sp_of (sh (e_disk e')) = snd (step_spec nom o1) ->
    (r0 = ROk /\ exists nom', spec_accepts nom o1 = Some nom' /\ Live c (nb + 1) w1 (e_disk e') defer /\ sp_of (sh (e_disk e')) = nom') \/
    (r0 <> ROk /\ Mode c (nb + 1) w1 (e_disk e') nom defer' /\ RD c (nb + 1) (e_disk e') alts' defer')).
  { intros w1 HLv Hsps. destruct (res_cases nom o1 r0 eq_refl Hres) as [(-> & Hacc)|(Hne & Hacc & Hsnd)].
    - left. split; [reflexivity|]. exists (snd (step_spec nom o1)). auto.
    - right. split; [exact Hne|]. rewrite Hsnd in Hsps.
      apply (live_out c (nb + 1) w1 (e_disk e') nom alts' defer'); [eapply Live_mono; [| |exact HLv]; [lia|exact Hid]|exact Hsps|exact Hina]. }
  destruct (store_logs_lock X c w ls e ec r w' e' r0 w0 ec' HR Hg Hex Est Hsl) as [(-> & -> & Hcase)|(Hf' & -> & Hfail)].
  - (* both runs agree *)
    split; [exact Hcl0|].
    destruct Hcase as [(-> & -> & Eec)|[Hfl|[(tw & Htw & -> & HRn)|(ti & Hti & HRd)]]].
    + apply Hdone; [eapply Live_mono; [| |exact HLive]; [lia|apply incl_refl]|]. rewrite Eec in Hsp'. exact Hsp'.
    + destruct HL' as (_ & K & _); congruence.
    + destruct (LInv_view _ _ _ _ HL) as (S & t & f0 & tw0 & V).
      assert (Ht : tail_info (st_segs w) = Some t) by (rewrite (lv_segs _ _ _ _ _ _ _ _ V); apply tail_info_app).
      pose proof (live_tail_name c nb w _ t tw HL Ht Htw) as Tn.
      destruct (Rd_live c (nb + 1) _ w0 e' ec ec' (rem (ws_name tw) X) [] defer Hext HL' (Rd_of_R _ _ _ _ HRn)) as (HLv & Hsps).
      { intros n f p Hx _ _ _. right. apply rem_in in Hx. destruct Hx as (Hx & Hne). apply (HXg t n Ht Hx). rewrite <- Tn. exact Hne. }
      apply Hdone; [exact HLv|rewrite Hsps; exact Hsp'].
    + destruct (Rd_live c (nb + 1) _ w0 e' ec ec' X [name_of ti] defer Hext HL' HRd) as (HLv & Hsps).
      { intros n f p Hx Hni _ _. right. apply (HXg ti n Hti Hx). intros ->. apply Hni. left. reflexivity. }
      apply Hdone; [exact HLv|rewrite Hsps; exact Hsp'].
  - (* the real run failed at an I/O action *)
    assert (Hfin : forall dm, pfx ec ec' dm -> DP c (nb + 1) (fun x => x = nom \/ x = snd (step_spec nom o1)) dm) by (intros dm Hp; apply (ext_pfx _ _ _ _ Hext Hp)).
    assert (Hcand : forall x, x = nom \/ x = snd (step_spec nom o1) -> In x (candidates alts' defer')).
    { intros x [-> | ->]; [apply cand_alts; exact Hina|]. apply cand_alts.
      destruct (res_cases nom o1 r0 eq_refl Hres) as [(_ & Hacc)|(_ & _ & Hsnd)]; [eapply in_alts_app_op; eauto|rewrite Hsnd; exact Hina]. }
    destruct Hfail as [(-> & Hd)|[(-> & Hd)|[Hfl0|[(-> & ps & ti & Hpc & Hmeta & Hti & Hgone)|[(-> & -> & Hne & tw & Htw & Hfacts & Hrel & Hpfx)|
                        (l0 & ls' & w1 & ec1 & tw1 & dm & ti & -> & Hreset & -> & Htw1 & Hti & _ & Hfl & Hcond & Hfacts & -> & Hdm & Hpfx & Hpfx1 & Hfresh & Hrel)]]]]].
    + (* nothing happened *)
      split; [exact Hcl|]. right. split; [discriminate|]. rewrite Hd.
      apply (live_out c (nb + 1) w d nom alts' defer'); [eapply Live_mono; [| |exact HLive]; [lia|exact Hid]|exact Hsp|exact Hina].
    + (* the commit of the reset failed: the WAL refuses writes, the disk is as it was *)
      split; [exact Hcl|]. right. split; [discriminate|].
      apply (failed_unchanged c nb (nb + 1) w d (e_disk e') nom alts' defer defer' ltac:(lia) Hid); try assumption.
      destruct Hd as [-> | ->]; [apply deq_refl|apply deq_commit_same; apply (live_meta c nb w d HL)].
    + destruct HL' as (_ & K & _); congruence.
    + (* the reset was committed but the new tail could not be created *)
      split; [exact Hcl|]. right. split; [discriminate|].
      assert (Hmd' : dk_meta (e_disk e') = Some ps).
      { destruct Hpc as (dm & (_ & M & _) & _ & Hm & _). rewrite M. exact Hm. }
      apply (fail_after_commit c nb (nb + 1) (set_failed w) w (sh d) (e_disk e') X nom alts' defer' ps ec ec' ltac:(lia) HL eq_refl Hsp eq_refl eq_refl eq_refl Hrot Hcl Hpc).
      * intros dm Hp. destruct (Hfin dm Hp) as (HDm & HAm & _). split; [exact HDm|apply Hcand; exact HAm].
      * intros n Hx. destruct (HX n Hx) as [K|Hu]; [left; exact K|right].
        intros s Hs. apply (Hu (persistent w) s (live_meta c nb w d HL) Hs).
      * intros n s Hx Hs. destruct (mem_name n [name_of ti]) eqn:En.
        -- apply mem_name_spec in En. destruct En as [<-|[]].
           pose proof HL' as (_ & _ & _ & _ & Hm0 & _). rewrite Hmeta in Hm0. inversion Hm0; subst ps.
           intros Hn. apply (LInv_listed_files c (nb + 1) w0 _ s HL' Hs). rewrite Hn. exact Hgone.
        -- apply (HXg ti n Hti Hx (fun K => not_mem_name _ _ En (or_introl (eq_sym K))) ps s Hmd' Hs).
    + (* the batch was written but not synced *)
      split; [exact Hcl|]. right. split; [discriminate|].
      destruct (LInv_view _ _ _ _ HL) as (S & t & f0 & tw0 & V).
      rewrite (lv_tail _ _ _ _ _ _ _ _ V) in Htw. inversion Htw; subst tw0.
      assert (Ht : tail_info (st_segs w) = Some t) by (rewrite (lv_segs _ _ _ _ _ _ _ _ V); apply tail_info_app).
      assert (Hse : df_seal f0 = 0).
      { pose proof (lv_rot _ _ _ _ _ _ _ _ V) as K. rewrite Hrot in K. destruct (0 <? df_seal f0) eqn:Z; [discriminate|lia]. }
      destruct (append_act_pend V ls Hc Hse Hok HF Hne) as (len & b & Ea & Eb & Hlt).
      pose proof (lv_tw _ _ _ _ _ _ _ _ V) as (Tn & Tb & _ & _ & Tnn & _).
      change (e_disk ec) with (sh d) in Hrel, Hpfx.
      destruct (Hfin _ Hpfx) as (HDm & _).
      destruct (res_cases nom o1 ROk eq_refl Hres) as [(_ & Hacc)|(Hne0 & _)]; [|congruence].
      destruct (stale_after_write c nb (nb + 1) w (sh d) (e_disk e') (rem (ws_name tw) X) S t f0 tw defer' _ len b V Hse ltac:(lia) Ea Hlt HDm Hrel) as (HLv & Hspv).
      { rewrite <- Tn. apply rem_not. }
      { intros n Hx. apply rem_in in Hx. destruct Hx as (Hx & Hn). apply (HXg t n Ht Hx). rewrite <- Tn. exact Hn. }
      { rewrite Eb. intros _. split; [split; [exact Hok|exact HF]|]. split; [left; reflexivity|].
        destruct Hfacts as (l0 & lr & El & Hidx & _). exists l0, lr. split; [exact El|]. split; [rewrite Hidx, Tb, Tnn; reflexivity|].
        unfold o1, spec_accepts in Hacc. cbn [step_spec] in Hacc. unfold spec_store in Hacc. rewrite El in Hacc |- *. cbv iota in Hacc.
        destruct (consecutive (l_index l0) (l0 :: lr)); [reflexivity|]. cbn in Hacc. discriminate. }
      rewrite Hsp in Hspv.
      apply (live_out c (nb + 1) w (e_disk e') nom alts' defer'); assumption.
    + (* the empty first segment was replaced, then the append failed *)
      assert (Hl0 : log_ok l0) by (inversion Hok; assumption).
      pose proof (store_twice c w l0 ec ti w1 ec1 [name_of ti] Hl0 Hcl Hfl Hti Hcond Hreset) as Htw.
      destruct (store_logs_ok c nb w ec [l0; l0] nom Hc HL eq_refl Hrot Hnb Hsp ltac:(constructor; [exact Hl0|constructor; [exact Hl0|constructor]]) (twice_frames l0 Hl0))
        as (rh & wh & ech & Hslh & _ & HLh & Hsph & _).
      remember (delete_files [name_of ti] ec1) as ecd eqn:Hecd in Htw.
      rewrite Htw in Hslh. injection Hslh as Er Ew Ee. subst rh wh ech. rewrite Hecd in HLh, Hsph. clear Hecd.
      rewrite (twice_rejected nom l0 Hl0) in Hsph. cbn [snd] in Hsph.
      pose proof (sh_reset_first c w (l_index l0) ec _ _ _ _ eq_refl Hreset) as Hsh1.
      rewrite (delete_files_disk _ _ (proj2 Hsh1)) in HLh, Hsph.
      set (m := name_of ti) in *. set (d1 := del_disk [m] (e_disk ec1)) in *.
      split; [apply (LInv_closed _ _ _ _ HLh)|]. right. split; [discriminate|].
      (* the state right after the reset, the old tail file not yet deleted *)
      destruct (Hfin _ Hpfx1) as (HD1 & _).
      assert (HN1 : no_pend (e_disk ec1)) by (apply (np_reset_first c w (l_index l0) ec _ _ _ _ eq_refl (no_pend_sh d) Hreset)).
      pose proof (LInv_undelete c (nb + 1) w1 (e_disk ec1) [m] HLh HD1 HN1) as HL1.
      pose proof (DIs_NoDup _ _ _ HD1) as ND1.
      assert (Hlm : lookup m (dk_files d1) = None).
      { unfold d1. rewrite (del_disk_lookup [m] _ m ND1). cbn [mem_name existsb]. rewrite fname_eqb_refl. reflexivity. }
      assert (Hunlm : forall s, In s (st_segs w1) -> name_of s <> m).
      { intros s Hs Hn. apply (LInv_listed_files c (nb + 1) w1 d1 s HLh Hs). rewrite Hn. exact Hlm. }
      assert (Hsp1 : sp_of (e_disk ec1) = nom) by (rewrite <- (sp_of_del c (nb + 1) w1 (e_disk ec1) [m] HLh ND1); exact Hsph).
      assert (Hmeta1 : dk_meta (e_disk ec1) = Some (persistent w1)) by apply HL1.
      (* the names in X are not listed any more *)
      assert (HXu : forall d2, dk_meta d2 = Some (persistent w1) -> dk_meta (e_disk e') = dk_meta d2 ->
                     forall n, In n X -> unlisted (e_disk e') n).
      { intros d2 Hm2 Hme n Hx. destruct (mem_name n [m]) eqn:En.
        - apply mem_name_spec in En. destruct En as [<-|[]]. intros ps s Hm Hs. rewrite Hme, Hm2 in Hm. inversion Hm; subst ps. apply (Hunlm s Hs).
        - apply (HXg ti n Hti Hx). intros K. apply (not_mem_name _ _ En). left. symmetry. exact K. }
      assert (Hclean : forall X2 d2, drel X2 (e_disk e') d2 -> incl X2 X -> LInv c (nb + 1) w1 d2 -> sp_of d2 = nom ->
                Mode c (nb + 1) w1 (e_disk e') nom defer' /\ RD c (nb + 1) (e_disk e') alts' defer').
      { intros X2 d2 Hr2 Hi2 HL2 Hsp2.
        assert (HLs : LInv c (nb + 1) w1 (sh (e_disk e'))) by (rewrite (drel_sh_eq _ _ _ Hr2); apply LInv_sh; exact HL2).
        assert (Hsps : sp_of (sh (e_disk e')) = nom) by (rewrite (drel_sh_eq _ _ _ Hr2), (sp_of_sh_clean c _ w1 _ HL2); exact Hsp2).
        apply (live_out c (nb + 1) w1 (e_disk e') nom alts' defer'); [|exact Hsps|exact Hina].
        split; [exact HLs|]. intros n f p Hl Hp. right.
        apply (HXu d2 (proj1 (proj2 (proj2 (proj2 (proj2 HL2))))) (proj1 (proj2 Hr2)) n). apply Hi2.
        apply (drel_stale_ok _ _ _ Hr2 (proj1 (proj2 (proj2 (proj2 HL2)))) n f Hl). congruence. }
      destruct Hdm as [-> | ->].
      * (* the write failed: a clean state *)
        destruct Hrel as [Hrel|Hrel].
        -- apply (Hclean _ _ Hrel (rem_incl _ _) HLh Hsph).
        -- apply (Hclean _ _ Hrel (incl_refl _) HL1 Hsp1).
      * (* the fsync failed: the batch sits behind the new, empty tail *)
        assert (Hne : l0 :: ls' <> []) by discriminate.
        destruct (res_cases nom o1 ROk eq_refl Hres) as [(_ & Hacc)|(Hne0 & _)]; [|congruence].
        assert (Hlsfacts : forall t tw0 f0, tw_ok t f0 tw0 -> tw0 = tw1 ->
          sop_ok (OStore (l0 :: ls')) /\ In (OStore (l0 :: ls')) defer' /\
          exists l1 r, l0 :: ls' = l1 :: r /\ l_index l1 = si_base t + llen (df_ents f0) /\ consecutive (l_index l1) (l0 :: ls') = true).
        { intros t tw0 f0 (Tn & Tb & _ & _ & Tnn & _) ->. split; [split; [exact Hok|exact HF]|]. split; [left; reflexivity|].
          destruct Hfacts as (l1 & lr & El & Hidx & His). injection El as <- <-.
          exists l0, ls'. split; [reflexivity|]. split; [rewrite Hidx, Tb, Tnn; reflexivity|].
          unfold o1, spec_accepts in Hacc. cbn [step_spec] in Hacc. unfold spec_store in Hacc. cbv iota in Hacc.
          destruct (consecutive (l_index l0) (l0 :: ls')); [reflexivity|]. cbn in Hacc. discriminate. }
        assert (Hse1 : forall f0, tw_ok (match tail_info (st_segs w1) with Some t => t | None => ti end) f0 tw1 -> df_seal f0 = 0).
        { intros f0 (_ & _ & _ & _ & _ & _ & Ti & _). destruct Hfacts as (l1 & lr & El & Hidx & His). congruence. }
        set (a := append_act tw1 (l0 :: ls')) in *.
        destruct (Hfin _ Hpfx) as (HDa & _).
        destruct Hrel as [Hrel|Hrel].
        -- (* the old tail file was deleted *)
           destruct (LInv_view _ _ _ _ HLh) as (S & t & f0 & tw0 & V).
           rewrite (lv_tail _ _ _ _ _ _ _ _ V) in Htw1. inversion Htw1; subst tw0.
           assert (Hse : df_seal f0 = 0).
           { apply Hse1. rewrite (lv_segs _ _ _ _ _ _ _ _ V), tail_info_app. apply (lv_tw _ _ _ _ _ _ _ _ V). }
           destruct (append_act_pend V (l0 :: ls') Hc Hse Hok HF Hne) as (len & b & Ea & Eb & Hlt). fold a in Ea.
           assert (Hd1 : d1 = apply_act (e_disk ec1) (ADelete m)) by reflexivity.
           assert (Hnm : name_of t <> m).
           { intros K. pose proof (lv_file _ _ _ _ _ _ _ _ V) as Hf. rewrite K, Hlm in Hf. discriminate. }
           assert (Hcomm : apply_act d1 a = del_disk [m] (apply_act (e_disk ec1) a)).
           { rewrite Hd1, Ea. unfold del_disk. cbn [fold_left]. apply write_delete_comm; assumption. }
           rewrite <- Hcomm in Hrel.
           assert (Hmetaa : dk_meta (apply_act (e_disk ec1) a) = Some (persistent w1)).
           { rewrite Ea. destruct (write_sync_keys (e_disk ec1) (AWrite (name_of t) (df_end f0) len b) I) as (_ & K2). rewrite K2. exact Hmeta1. }
           assert (Hunl : listed (ps_segs (persistent w1)) m = false).
           { destruct (listed (ps_segs (persistent w1)) m) eqn:El'; [|reflexivity]. exfalso.
             apply listed_spec in El'. destruct El' as (s & Hs & Hn). apply (Hunlm s Hs Hn). }
           assert (HDw : DIs c (nb + 1) (apply_act d1 a)).
           { rewrite Hcomm. unfold del_disk. cbn [fold_left]. apply (DIs_delete c (nb + 1) _ m _ HDa Hmetaa Hunl). }
           assert (Hmdw : dk_meta (apply_act d1 a) = Some (persistent w1)).
           { rewrite Ea. destruct (write_sync_keys d1 (AWrite (name_of t) (df_end f0) len b) I) as (_ & K2). rewrite K2. apply HLh. }
           destruct (stale_after_write c (nb + 1) (nb + 1) w1 d1 (e_disk e') (rem m X) S t f0 tw1 defer' a len b V Hse ltac:(lia) Ea Hlt HDw Hrel) as (HLv & Hspv).
           { intros K. apply rem_in in K. destruct K as (K & _). apply (Hex _ K).
             rewrite <- (proj1 (lv_tw _ _ _ _ _ _ _ _ V)). exact Hfresh. }
           { intros n Hx. apply (HXu _ Hmdw (proj1 (proj2 Hrel)) n (rem_incl _ _ _ Hx)). }
           { rewrite Eb. intros _. apply (Hlsfacts t tw1 f0 (lv_tw _ _ _ _ _ _ _ _ V) eq_refl). }
           rewrite Hsph in Hspv.
           apply (live_out c (nb + 1) w1 (e_disk e') nom alts' defer'); assumption.
        -- (* its deletion failed *)
           destruct (LInv_view _ _ _ _ HL1) as (S & t & f0 & tw0 & V).
           rewrite (lv_tail _ _ _ _ _ _ _ _ V) in Htw1. inversion Htw1; subst tw0.
           assert (Hse : df_seal f0 = 0).
           { apply Hse1. rewrite (lv_segs _ _ _ _ _ _ _ _ V), tail_info_app. apply (lv_tw _ _ _ _ _ _ _ _ V). }
           destruct (append_act_pend V (l0 :: ls') Hc Hse Hok HF Hne) as (len & b & Ea & Eb & Hlt). fold a in Ea.
           assert (Hmetaa : dk_meta (apply_act (e_disk ec1) a) = Some (persistent w1)).
           { rewrite Ea. destruct (write_sync_keys (e_disk ec1) (AWrite (name_of t) (df_end f0) len b) I) as (_ & K2). rewrite K2. exact Hmeta1. }
           destruct (stale_after_write c (nb + 1) (nb + 1) w1 (e_disk ec1) (e_disk e') X S t f0 tw1 defer' a len b V Hse ltac:(lia) Ea Hlt HDa Hrel) as (HLv & Hspv).
           { intros K. apply (Hex _ K). rewrite <- (proj1 (lv_tw _ _ _ _ _ _ _ _ V)). exact Hfresh. }
           { intros n Hx. apply (HXu _ Hmetaa (proj1 (proj2 Hrel)) n Hx). }
           { rewrite Eb. intros _. apply (Hlsfacts t tw1 f0 (lv_tw _ _ _ _ _ _ _ _ V) eq_refl). }
           rewrite Hsp1 in Hspv.
           apply (live_out c (nb + 1) w1 (e_disk e') nom alts' defer'); assumption.
Qed.
