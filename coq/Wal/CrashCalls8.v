(* CrashCalls8.v -- truncateHead. *)
From RW Require Import Base.Bytes Base.BytesFacts Fmt.Codec Fmt.CodecFacts Fmt.Frame Wal.Model Wal.Spec Wal.Hist
  Wal.CrashInv Wal.CrashFacts0 Wal.CrashFacts1 Wal.CrashFacts2 Wal.CrashFacts3 Wal.CrashFacts4 Wal.CrashFacts5
  Wal.CrashFacts6 Wal.CrashGlue Wal.CrashCalls1 Wal.CrashCalls3 Wal.CrashCalls4 Wal.CrashCalls6 Wal.CrashCalls7
  Gen.Constants.
From Coq Require Import ZifyN ZifyNat ZifyBool.
Open Scope N_scope.

Lemma lv_Ssst {c nb w d S t f tw} (V : lview c nb w d S t f tw) : Forall sst S.
Proof. apply (sealed_swf_sst d S (lv_sealed _ _ _ _ _ _ _ _ V) (lv_Swf V)). Qed.

Lemma slog_of_nil first : slog_of first [] = sl_empty. Proof. reflexivity. Qed.

(* head = a sealed segment *)
Lemma trunc_head_sealed c nb (A : spst -> Prop) w e0 e D h R t f tw new_min :
  lview c nb w (e_disk e) (D ++ h :: R) t f tw -> ext (DP c nb A) e0 e ->
  Forall (fun s => si_max s < new_min) D -> new_min <= si_max h -> hd_min (D ++ h :: R) t < new_min ->
  let d := e_disk e in
  let a1 := {| sp_log := slog_of new_min (skipn (N.to_nat (new_min - hd_min (D ++ h :: R) t)) (lv_es d (D ++ h :: R) t f));
               sp_kv := dk_stable d |} in
  A a1 ->
  exists w' e',
    mutate w {| tx_next_id := st_next_id w; tx_segs := with_min h new_min :: R ++ [t]; tx_delete := map name_of D;
                tx_create := None; tx_tail := st_tail w |} e = (ROk, w', e') /\
    ext (DP c nb A) e0 e' /\ LInv c nb w' (e_disk e') /\ sp_of (e_disk e') = a1.
Proof.
  intros V He HD Hh Hfirst d a1 HA. set (S := D ++ h :: R) in *.
  pose proof (lv_sealed _ _ _ _ _ _ _ _ V) as Hso. pose proof (lv_Swf V) as Hw. pose proof (lv_Ssst V) as Hsst.
  pose proof (lv_linked _ _ _ _ _ _ _ _ V) as Hl. pose proof (lv_wf _ _ _ _ _ _ _ _ V) as Hwf.
  assert (HsoD := Hso). unfold S in HsoD. apply Forall_app in HsoD. destruct HsoD as (HsoD & HsoH).
  inversion HsoH as [|? ? Hsh HsoR]; subst.
  assert (HwD := Hw). unfold S in HwD. apply Forall_app in HwD. destruct HwD as (HwD & HwH).
  inversion HwH as [|? ? (Hhb1 & Hhbm) HwR]; subst.
  pose proof Hsh as (Hhs & Hhmm & _).
  pose proof (sealed_prefix_len d D h R t Hso Hw Hl) as Hplen. fold S in Hplen.
  (* min h <= new_min *)
  assert (Hminh : si_min h <= new_min).
  { destruct (list_eq_dec_nil D) as [->|Hne].
    - unfold S, hd_min in Hfirst. cbn in Hfirst. lia.
    - destruct (exists_last Hne) as (D' & x & ->). rewrite Forall_forall in HD.
      specialize (HD x ltac:(apply in_or_app; right; left; reflexivity)).
      unfold S in Hl. rewrite <- !app_assoc in Hl. cbn [app] in Hl.
      destruct (linked_mid D' x h (R ++ [t]) Hl) as (Hb & Hm). lia. }
  assert (Hsegs : with_min h new_min :: R ++ [t] = (with_min h new_min :: R) ++ [t]) by reflexivity.
  rewrite Hsegs.
  assert (Hlh : linked (h :: R ++ [t])).
  { unfold S in Hl. rewrite <- app_assoc in Hl. cbn [app] in Hl. eapply linked_app_r; eauto. }
  destruct (mutate_keep_ok c nb A w e0 e S t f tw (with_min h new_min :: R) t (map name_of D) V He eq_refl eq_refl ltac:(lia) eq_refl)
    as (w' & e' & Hmut & He' & HL' & Hs').
  - (* wf *)
    unfold S in Hwf. rewrite <- app_assoc in Hwf. cbn [app] in Hwf. apply Forall_app in Hwf. destruct Hwf as (_ & Hwf).
    inversion Hwf as [|? ? Hwh Hwr]; subst. cbn [app]. constructor; [|exact Hwr].
    destruct Hwh as (W1 & W2 & W3 & W4 & W5 & W6). unfold seg_wf. cbn [with_min si_codec si_size_limit si_base si_min si_id].
    repeat split; auto. lia.
  - cbn [app]. apply (linked_replace_head h (with_min h new_min)); [exact Hlh|reflexivity].
  - fold d. constructor; [apply sealed_ok_with_min; assumption|exact HsoR].
  - apply (lv_tok _ _ _ _ _ _ _ _ V).
  - (* the deleted files are no longer listed *)
    intros n Hin. apply in_map_iff in Hin. destruct Hin as (x & <- & Hx). apply not_listed_by_base.
    intros y Hy. cbn [name_of fst].
    assert (Hyb : exists y0, In y0 (h :: R ++ [t]) /\ si_base y0 = si_base y).
    { cbn [app] in Hy. destruct Hy as [<-|Hy]; [exists h; split; [left; reflexivity|reflexivity]|exists y; split; [right; exact Hy|reflexivity]]. }
    destruct Hyb as (y0 & Hy0 & <-).
    pose proof (chain_sorted S t Hl Hsst) as Hsorted. unfold S in Hsorted. rewrite <- app_assoc in Hsorted.
    pose proof (sorted_app_lt D (h :: R ++ [t]) x y0 Hsorted Hx Hy0). lia.
  - (* the new reading *)
    fold d. unfold a1 in HA.
    assert (Er : slog_of (hd_min (with_min h new_min :: R) t) (sealed_es d (with_min h new_min :: R) ++ tail_es d t) =
                 slog_of new_min (skipn (N.to_nat (new_min - hd_min S t)) (lv_es d S t f))).
    { unfold hd_min at 1. cbn [hd with_min si_min]. f_equal.
      unfold lv_es. rewrite <- (lv_tail_es V). unfold S at 2. rewrite sealed_es_app, !sealed_es_cons, <- !app_assoc.
      rewrite (seg_visible_with_min d h new_min Hhs Hhb1 Hhbm Hminh Hh).
      destruct (seg_visible_sealed_facts d h Hsh Hhb1 Hhbm) as (Hvl & _).
      replace (N.to_nat (new_min - hd_min S t)) with (length (sealed_es d D) + N.to_nat (new_min - si_min h))%nat
        by (unfold llen in Hplen; lia).
      rewrite (skipn_app_exact (sealed_es d D) _ (length (sealed_es d D)) _ eq_refl).
      rewrite skipn_app_le by (unfold llen in Hvl; lia). reflexivity. }
    rewrite Er. exact HA.
  - exists w', e'. split; [exact Hmut|]. split; [exact He'|]. split; [exact HL'|].
    rewrite Hs'. fold d. unfold a1. f_equal.
    unfold hd_min at 1. cbn [hd with_min si_min]. f_equal.
    unfold lv_es. rewrite <- (lv_tail_es V). unfold S at 2. rewrite sealed_es_app, !sealed_es_cons, <- !app_assoc.
    rewrite (seg_visible_with_min d h new_min Hhs Hhb1 Hhbm Hminh Hh).
    destruct (seg_visible_sealed_facts d h Hsh Hhb1 Hhbm) as (Hvl & _).
    replace (N.to_nat (new_min - hd_min S t)) with (length (sealed_es d D) + N.to_nat (new_min - si_min h))%nat
      by (unfold llen in Hplen; lia).
    rewrite (skipn_app_exact (sealed_es d D) _ (length (sealed_es d D)) _ eq_refl).
    rewrite skipn_app_le by (unfold llen in Hvl; lia). reflexivity.
Qed.

(* head = the (unsealed, non-empty) tail *)
Lemma trunc_head_tail c nb (A : spst -> Prop) w e0 e S t f tw new_min :
  lview c nb w (e_disk e) S t f tw -> ext (DP c nb A) e0 e ->
  Forall (fun s => si_max s < new_min) S -> new_min <= tl_of (si_base t) (df_ents f) -> 1 <= new_min ->
  (lv_es (e_disk e) S t f <> [] -> hd_min S t < new_min) ->
  let d := e_disk e in
  let a1 := {| sp_log := slog_of new_min (skipn (N.to_nat (new_min - hd_min S t)) (lv_es d S t f)); sp_kv := dk_stable d |} in
  A a1 ->
  exists w' e',
    mutate w {| tx_next_id := st_next_id w; tx_segs := [with_min t new_min]; tx_delete := map name_of S;
                tx_create := None; tx_tail := st_tail w |} e = (ROk, w', e') /\
    ext (DP c nb A) e0 e' /\ LInv c nb w' (e_disk e') /\ sp_of (e_disk e') = a1.
Proof.
  intros V He HS Htl Hnm1 Hfirst d a1 HA. subst d. set (d := e_disk e) in *.
  pose proof (lv_sealed _ _ _ _ _ _ _ _ V) as Hso. pose proof (lv_Swf V) as Hw. pose proof (lv_Ssst V) as Hsst.
  pose proof (lv_linked _ _ _ _ _ _ _ _ V) as Hl. pose proof (lv_twf V) as Htwf.
  pose proof Htwf as (W1 & W2 & W3 & W4 & W5 & W6).
  pose proof (lv_min_cond V) as Hmc. pose proof (lv_file _ _ _ _ _ _ _ _ V) as Hfile.
  assert (Hn : (llen (df_ents f) =? 0) = false /\ tl_of (si_base t) (df_ents f) = si_base t + llen (df_ents f) - 1).
  { unfold tl_of in *. destruct (llen (df_ents f) =? 0) eqn:Z; [lia|auto]. }
  destruct Hn as (Hn0 & Etl). rewrite Etl in Htl. rewrite Hn0 in Hmc.
  assert (Hne : lv_es d S t f <> []).
  { intros E. apply (lv_es_nil V) in E. lia. }
  specialize (Hfirst Hne).
  assert (Hmint : si_min t <= new_min).
  { destruct (list_eq_dec_nil S) as [->|HneS]; [unfold hd_min in Hfirst; cbn in Hfirst; lia|].
    destruct (lv_hd_min_lt V HneS) as (_ & Hmt).
    destruct (exists_last HneS) as (S' & x & ES). rewrite ES in HS, Hl. rewrite Forall_forall in HS.
    specialize (HS x ltac:(apply in_or_app; right; left; reflexivity)).
    rewrite <- app_assoc in Hl. cbn [app] in Hl. destruct (linked_mid S' x t [] Hl) as (Hb & _). lia. }
  change [with_min t new_min] with ([] ++ [with_min t new_min]).
  destruct (mutate_keep_ok c nb A w e0 e S t f tw [] (with_min t new_min) (map name_of S) V He eq_refl eq_refl Hmint eq_refl)
    as (w' & e' & Hmut & He' & HL' & Hs').
  - cbn [app]. constructor; [|constructor]. unfold seg_wf. cbn [with_min si_codec si_size_limit si_base si_min si_id].
    repeat split; auto. lia.
  - exact I.
  - constructor.
  - (* the tail with its raised min *)
    pose proof (lv_tok _ _ _ _ _ _ _ _ V) as (Hu & Ht'). split; [exact Hu|].
    change (name_of (with_min t new_min)) with (name_of t). fold d. rewrite Hfile in *.
    destruct Ht' as (T1 & T2 & T3 & T4 & T5 & T6). cbn [with_min si_min si_base].
    rewrite Hn0. repeat split; try apply T1; try apply T2; auto.
  - intros n Hin. apply in_map_iff in Hin. destruct Hin as (x & <- & Hx). apply not_listed_by_base.
    intros y [<-|[]]. cbn [name_of fst with_min si_base].
    pose proof (lv_bases_lt V) as Hlt. rewrite Forall_forall in Hlt. specialize (Hlt x Hx). lia.
  - fold d. unfold a1 in HA.
    assert (Er : slog_of (hd_min [] (with_min t new_min)) (sealed_es d [] ++ tail_es d (with_min t new_min)) =
                 slog_of new_min (skipn (N.to_nat (new_min - hd_min S t)) (lv_es d S t f))).
    { unfold hd_min at 1. cbn [hd with_min si_min]. f_equal. unfold sealed_es at 1. cbn [flat_map app].
      unfold tail_es. change (name_of (with_min t new_min)) with (name_of t). cbn [with_min si_min si_base].
      unfold file_ents. rewrite Hfile. unfold cur_ents. rewrite (lv_pend _ _ _ _ _ _ _ _ V).
      unfold lv_es.
      destruct (list_eq_dec_nil S) as [->|HneS].
      - unfold sealed_es, hd_min. cbn [flat_map hd app]. rewrite skipn_skipn'. f_equal. lia.
      - destruct (lv_hd_min_lt V HneS) as (Hlt & Hmt).
        pose proof (sealed_es_len d S t Hso Hw Hl HneS) as Hlen.
        replace (N.to_nat (new_min - hd_min S t)) with (length (sealed_es d S) + N.to_nat (new_min - si_base t))%nat
          by (unfold llen in Hlen; lia).
        rewrite (skipn_app_exact (sealed_es d S) _ (length (sealed_es d S)) _ eq_refl).
        rewrite skipn_skipn'. f_equal. lia. }
    rewrite Er. exact HA.
  - exists w', e'. split; [exact Hmut|]. split; [exact He'|]. split; [exact HL'|].
    rewrite Hs'. fold d. unfold a1. f_equal.
    unfold hd_min at 1. cbn [hd with_min si_min]. f_equal. unfold sealed_es at 1. cbn [flat_map app].
    unfold tail_es. change (name_of (with_min t new_min)) with (name_of t). cbn [with_min si_min si_base].
    unfold file_ents. rewrite Hfile. unfold cur_ents. rewrite (lv_pend _ _ _ _ _ _ _ _ V).
    unfold lv_es.
    destruct (list_eq_dec_nil S) as [->|HneS].
    + unfold sealed_es, hd_min. cbn [flat_map hd app]. rewrite skipn_skipn'. f_equal. lia.
    + destruct (lv_hd_min_lt V HneS) as (Hlt & Hmt).
      pose proof (sealed_es_len d S t Hso Hw Hl HneS) as Hlen.
      replace (N.to_nat (new_min - hd_min S t)) with (length (sealed_es d S) + N.to_nat (new_min - si_base t))%nat
        by (unfold llen in Hlen; lia).
      rewrite (skipn_app_exact (sealed_es d S) _ (length (sealed_es d S)) _ eq_refl).
      rewrite skipn_skipn'. f_equal. lia.
Qed.

(* nothing remains: a fresh tail is created *)
Lemma trunc_head_none c nb (A : spst -> Prop) w e0 e S t f tw new_min :
  cfg_ok c -> lview c nb w (e_disk e) S t f tw -> ext (DP c nb A) e0 e -> st_rotate w = None ->
  st_next_id w + 1 <= nb -> nb < two64 ->
  Forall (fun s => si_max s < new_min) S -> tl_of (si_base t) (df_ents f) < new_min ->
  let d := e_disk e in
  let a1 := {| sp_log := slog_of new_min (skipn (N.to_nat (new_min - hd_min S t)) (lv_es d S t f)); sp_kv := dk_stable d |} in
  let si := new_segment c (st_next_id w) (spec_last (dread d) + 1) in
  A a1 ->
  exists w' e',
    mutate w {| tx_next_id := st_next_id w + 1; tx_segs := [si]; tx_delete := map name_of S ++ [name_of t];
                tx_create := Some si; tx_tail := None |} e = (ROk, w', e') /\
    ext (DP c nb A) e0 e' /\ LInv c nb w' (e_disk e') /\ sp_of (e_disk e') = a1.
Proof.
  intros Hc V He Hrot Hnid Hnb HS Htl d a1 si HA. subst d. set (d := e_disk e) in *.
  pose proof (lv_len V) as Hlen. pose proof (lv_twf V) as (_ & _ & Hb1 & _ & Hbm & _).
  assert (Hbd : si_base t + llen (df_ents f) < two64).
  { pose proof (lv_tok _ _ _ _ _ _ _ _ V) as (_ & Ht'). fold d in Ht'. rewrite (lv_file _ _ _ _ _ _ _ _ V) in Ht'.
    destruct Ht' as (_ & _ & _ & _ & _ & Hb). unfold cur_ents in Hb. rewrite (lv_pend _ _ _ _ _ _ _ _ V) in Hb. exact Hb. }
  (* everything is below new_min *)
  assert (Hall : (length (lv_es d S t f) <= N.to_nat (new_min - hd_min S t))%nat).
  { destruct (lv_log_cases V) as [(Ees & _)|(Ees & _ & Hlast & H2)]; [fold d in Ees; rewrite Ees; cbn; lia|].
    fold d in Ees, Hlast. unfold tl_of in Htl. destruct (llen (df_ents f) =? 0) eqn:Z.
    - destruct (list_eq_dec_nil S) as [->|HneS]; [exfalso; apply Ees; apply (lv_es_nil V); split; [reflexivity|lia]|].
      destruct (exists_last HneS) as (S' & x & ES). pose proof (lv_linked _ _ _ _ _ _ _ _ V) as Hl.
      rewrite ES in HS, Hl. rewrite Forall_forall in HS. specialize (HS x ltac:(apply in_or_app; right; left; reflexivity)).
      rewrite <- app_assoc in Hl. cbn [app] in Hl. destruct (linked_mid S' x t [] Hl) as (Hb & _).
      unfold llen in *. lia.
    - unfold llen in *. lia. }
  assert (Hlast1 : spec_last (dread d) + 1 < two64 /\ 1 <= spec_last (dread d) + 1).
  { destruct (lv_log_cases V) as [(_ & _ & _ & Hdr & _)|(_ & _ & Hlast & _)].
    - rewrite Hdr. cbn. unfold two64. lia.
    - rewrite Hlast. lia. }
  unfold mutate.
  destruct (mutate_newtail_ok c nb A false w e0 e (st_next_id w) [] (spec_last (dread d) + 1) (map name_of S ++ [name_of t]) Hc He)
    as (w' & e' & Hmut & He' & HL' & Hs' & _).
  - apply (lv_nopend _ _ _ _ _ _ _ _ V).
  - exact Hrot.
  - apply (lv_failed _ _ _ _ _ _ _ _ V).
  - apply (lv_closed _ _ _ _ _ _ _ _ V).
  - fold d. intros ps E. rewrite (lv_meta _ _ _ _ _ _ _ _ V) in E. inversion E. cbn. lia.
  - exact Hnid.
  - constructor.
  - constructor.
  - lia.
  - lia.
  - exact I.
  - intros n Hin. apply not_listed_by_id. intros y [<-|[]]. cbn [new_segment si_id].
    assert (Hn : exists s, In s (S ++ [t]) /\ name_of s = n).
    { apply in_app_or in Hin. destruct Hin as [Hin|[<-|[]]].
      - apply in_map_iff in Hin. destruct Hin as (x & <- & Hx). exists x. split; [apply in_or_app; left; exact Hx|reflexivity].
      - exists t. split; [apply in_or_app; right; left; reflexivity|reflexivity]. }
    destruct Hn as (s & Hs & <-). pose proof (lv_wf _ _ _ _ _ _ _ _ V) as Hwf. rewrite Forall_forall in Hwf.
    destruct (Hwf s Hs) as (_ & _ & _ & _ & _ & Hid). cbn [name_of snd]. lia.
  - fold d. cbn [app]. unfold sealed_es. cbn [flat_map]. rewrite slog_of_nil.
    unfold a1 in HA. rewrite skipn_all2 in HA by exact Hall. exact HA.
  - cbn [app] in Hmut. fold d in Hmut. fold si in Hmut. rewrite Hmut. exists w', e'.
    split; [reflexivity|]. split; [exact He'|]. split; [exact HL'|]. rewrite Hs'. fold d. unfold a1.
    unfold sealed_es. cbn [flat_map]. rewrite slog_of_nil. rewrite skipn_all2 by exact Hall. reflexivity.
Qed.

Lemma truncate_head_ok c nb (A : spst -> Prop) w e S t f tw new_min :
  cfg_ok c -> lview c nb w (e_disk e) S t f tw -> e_fault e = None -> st_rotate w = None ->
  st_next_id w + 1 <= nb -> nb < two64 -> 1 <= new_min ->
  (lv_es (e_disk e) S t f <> [] -> hd_min S t < new_min) ->
  let d := e_disk e in
  let a1 := {| sp_log := slog_of new_min (skipn (N.to_nat (new_min - hd_min S t)) (lv_es d S t f)); sp_kv := dk_stable d |} in
  A (sp_of d) -> A a1 ->
  exists w' e', truncate_head c w new_min e = (ROk, w', e') /\ ext (DP c nb A) e e' /\
                LInv c nb w' (e_disk e') /\ sp_of (e_disk e') = a1.
Proof.
  intros Hc V Hf Hrot Hnid Hnb Hnm1 Hfirst d a1 HAa HA. subst d. set (d := e_disk e) in *.
  assert (HLd : LInv c nb w d).
  { split; [apply (lv_closed _ _ _ _ _ _ _ _ V)|]. split; [apply (lv_failed _ _ _ _ _ _ _ _ V)|].
    split; [apply (lv_dis _ _ _ _ _ _ _ _ V)|]. split; [apply (lv_nopend _ _ _ _ _ _ _ _ V)|].
    split; [rewrite (lv_meta _ _ _ _ _ _ _ _ V); unfold persistent; rewrite (lv_segs _ _ _ _ _ _ _ _ V); reflexivity|].
    exists t, f, tw. split; [rewrite (lv_segs _ _ _ _ _ _ _ _ V); apply tail_info_app|].
    split; [apply (lv_file _ _ _ _ _ _ _ _ V)|]. split; [apply (lv_tail _ _ _ _ _ _ _ _ V)|].
    split; [apply (lv_tw _ _ _ _ _ _ _ _ V)|apply (lv_rot _ _ _ _ _ _ _ _ V)]. }
  assert (He0 : forall m, ext (DP c nb A) e (add_m e m)).
  { intros m. apply ext_add_m. apply ext_refl; [exact Hf|]. eapply LInv_DP; [exact HLd|exact HAa]. }
  pose proof (lv_sealed _ _ _ _ _ _ _ _ V) as Hso.
  pose proof (lv_tok _ _ _ _ _ _ _ _ V) as (Hu & _).
  unfold truncate_head. rewrite (lv_last V), (lv_tail_last V), (lv_segs _ _ _ _ _ _ _ _ V).
  destruct (prefix_split (fun s => si_max s <? new_min) S) as [Hall|(D & h & R & ES & Hh & HD)].
  - assert (HS : Forall (fun s => si_sealed s = true /\ si_max s < new_min) S).
    { rewrite Forall_forall in *. intros s Hs. split; [apply (Hso s Hs)|]. specialize (Hall s Hs). cbn beta in Hall. lia. }
    assert (HS' : Forall (fun s => si_max s < new_min) S) by (eapply Forall_impl; [|exact HS]; intros s Hs; apply Hs).
    destruct (head_scan_skip new_min (tl_of (si_base t) (df_ents f)) S [t] [] 0 HS) as (ntr' & Ehs).
    rewrite Ehs. cbn [head_scan app]. rewrite Hu.
    destruct (new_min <=? tl_of (si_base t) (df_ents f)) eqn:Etl.
    + (* the tail becomes the head *)
      fold (with_min t new_min). rewrite (seg_set_head (with_min t new_min) t [] eq_refl).
      match goal with |- context [mutate _ _ (add_m e ?m)] =>
        destruct (trunc_head_tail c nb A w e (add_m e m) S t f tw new_min V (He0 m) HS' ltac:(lia) Hnm1 Hfirst HA)
          as (w' & e' & Hmut & He' & HL' & Hs') end.
      rewrite Hmut. exists w', e'. auto.
    + (* nothing remains *)
      unfold create_next. change (tail_info []) with (@None seginfo).
      assert (Hl1 : spec_last (dread d) + 1 < two64 /\ 1 <= spec_last (dread d) + 1).
      { destruct (lv_log_cases V) as [(_ & _ & _ & Hdr & _)|(_ & _ & Hlast & _)].
        - rewrite Hdr. cbn. unfold two64. lia.
        - rewrite Hlast.
          pose proof (lv_tok _ _ _ _ _ _ _ _ V) as (_ & Ht'). fold d in Ht'. rewrite (lv_file _ _ _ _ _ _ _ _ V) in Ht'.
          destruct Ht' as (_ & _ & _ & _ & _ & Hb). unfold cur_ents in Hb. rewrite (lv_pend _ _ _ _ _ _ _ _ V) in Hb. lia. }
      rewrite (N.mod_small (spec_last (dread d) + 1) two64) by lia.
      replace (0 <? spec_last (dread d) + 1) with true by lia.
      rewrite (N.mod_small (spec_last (dread d) + 1) two64) by lia.
      rewrite (N.mod_small (st_next_id w + 1) two64) by lia. cbn [seg_set].
      match goal with |- context [mutate _ _ (add_m e ?m)] =>
        destruct (trunc_head_none c nb A w e (add_m e m) S t f tw new_min Hc V (He0 m) Hrot Hnid Hnb HS' ltac:(lia) HA)
          as (w' & e' & Hmut & He' & HL' & Hs') end.
      cbn [add_m with_m e_disk] in Hmut, Hs'. fold d in Hmut, Hs'. rewrite Hmut. exists w', e'. auto.
  - (* a sealed segment becomes the head *)
    subst S.
    assert (HD' : Forall (fun s => si_sealed s = true /\ si_max s < new_min) D).
    { rewrite Forall_forall in *. intros s Hs. split; [apply (Hso s); apply in_or_app; left; exact Hs|].
      specialize (HD s Hs). cbn beta in HD. lia. }
    assert (HD'' : Forall (fun s => si_max s < new_min) D) by (eapply Forall_impl; [|exact HD']; intros s Hs; apply Hs).
    rewrite <- app_assoc. cbn [app].
    destruct (head_scan_skip new_min (tl_of (si_base t) (df_ents f)) D (h :: R ++ [t]) [] 0 HD') as (ntr' & Ehs).
    rewrite Ehs. cbn [head_scan app].
    assert (Hhs : si_sealed h = true).
    { rewrite Forall_forall in Hso. apply (Hso h). apply in_or_app. right. left. reflexivity. }
    rewrite Hhs. replace (new_min <=? si_max h) with true by lia.
    fold (with_min h new_min). rewrite (seg_set_head (with_min h new_min) h (R ++ [t]) eq_refl).
    assert (Hne : lv_es d (D ++ h :: R) t f <> []).
    { intros E. apply (lv_es_nil V) in E. destruct E as (E & _). destruct D; discriminate. }
    match goal with |- context [mutate _ _ (add_m e ?m)] =>
      destruct (trunc_head_sealed c nb A w e (add_m e m) D h R t f tw new_min V (He0 m) HD'' ltac:(lia) (Hfirst Hne) HA)
        as (w' & e' & Hmut & He' & HL' & Hs') end.
    rewrite Hmut. exists w', e'. auto.
Qed.
