(* CrashCalls1.v -- call_ok for the calls that do not change the log:
   FirstIndex, LastIndex, stable store Get/Set, Close+Open. *)
From RW Require Import Base.Bytes Base.BytesFacts Fmt.Codec Fmt.CodecFacts Fmt.Frame Wal.Model Wal.Spec Wal.Hist
  Wal.CrashInv Wal.CrashFacts0 Wal.CrashFacts1 Wal.CrashFacts2 Wal.CrashFacts3 Wal.CrashFacts4 Wal.CrashFacts5
  Wal.CrashFacts6 Wal.CrashGlue Gen.Constants.
From Coq Require Import ZifyN ZifyNat ZifyBool.
Open Scope N_scope.

Lemma DP_mono c nb nb' (A B : spst -> Prop) d :
  nb <= nb' -> (forall x, A x -> B x) -> DP c nb A d -> DP c nb' B d.
Proof. intros Hle HAB (H1 & H2 & H3). split; [eapply DIs_mono; eauto|]. split; auto. Qed.

Lemma LInv_closed c nb w d : LInv c nb w d -> st_closed w = false.
Proof. intros (H & _). exact H. Qed.

Lemma LInv_same c nb w d d' :
  dk_files d' = dk_files d -> dk_meta d' = dk_meta d -> LInv c nb w d -> LInv c nb w d'.
Proof.
  intros Hf Hm (H1 & H2 & H3 & H4 & H5 & H6). split; [exact H1|]. split; [exact H2|].
  split; [eapply DIs_same; eauto|]. split; [eapply no_pend_same; eauto|]. split; [congruence|].
  rewrite Hf. exact H6.
Qed.

(* a call without I/O: the trace is empty *)
Lemma ext_refl_LInv c nb w e (A : spst -> Prop) :
  LInv c nb w (e_disk e) -> e_fault e = None -> A (sp_of (e_disk e)) -> ext (DP c (nb + 2) A) e e.
Proof.
  intros HL Hf HA. apply ext_refl; [exact Hf|]. eapply LInv_DP; [eapply LInv_mono; [|exact HL]; lia|exact HA].
Qed.

Lemma call_first c : call_ok c OFirst.
Proof.
  intros nb s a Hc _ Hnb HL Hf Hsp Hg. exists (first_index_op (ss_wal s)), s. split; [reflexivity|].
  cbn [step_spec fst snd]. split.
  - unfold first_index_op. rewrite (LInv_closed _ _ _ _ HL). cbn [res_class result_eqb].
    destruct (LInv_view _ _ _ _ HL) as (S & t & f & tw & V). rewrite (lv_first V). rewrite <- Hsp. cbn. apply N.eqb_refl.
  - split; [eapply LInv_mono; [|exact HL]; lia|]. split; [exact Hsp|].
    eapply ext_refl_LInv; eauto.
Qed.

Lemma call_last c : call_ok c OLast.
Proof.
  intros nb s a Hc _ Hnb HL Hf Hsp Hg. exists (last_index_op (ss_wal s)), s. split; [reflexivity|].
  cbn [step_spec fst snd]. split.
  - unfold last_index_op. rewrite (LInv_closed _ _ _ _ HL). cbn [res_class result_eqb].
    destruct (LInv_view _ _ _ _ HL) as (S & t & f & tw & V). rewrite (lv_last V). rewrite <- Hsp. cbn. apply N.eqb_refl.
  - split; [eapply LInv_mono; [|exact HL]; lia|]. split; [exact Hsp|].
    eapply ext_refl_LInv; eauto.
Qed.

Lemma call_gets c k : call_ok c (OGetS k).
Proof.
  intros nb s a Hc _ Hnb HL Hf Hsp Hg. cbn [step_model step_spec fst snd].
  unfold get_stable. rewrite (LInv_closed _ _ _ _ HL).
  eexists _, _. split; [reflexivity|]. cbn [ss_wal ss_env].
  split; [cbn [res_class result_eqb]; rewrite <- Hsp; cbn; apply beq_bytes_refl|].
  split; [eapply LInv_mono; [|exact HL]; lia|]. split; [exact Hsp|].
  apply ext_add_m. eapply ext_refl_LInv; eauto.
Qed.

Lemma call_set c k v n : call_ok c (OSet k v n).
Proof.
  intros nb s a Hc _ Hnb HL Hf Hsp Hg. cbn [step_model step_spec].
  unfold set_stable. rewrite (LInv_closed _ _ _ _ HL).
  destruct (key_ok k) eqn:Ek; cbn [negb fst snd].
  - assert (Hf0 : e_fault (inc_stable (ss_env s) true) = None) by exact Hf.
    rewrite (io_ok _ _ Hf0).
    eexists _, _. split; [reflexivity|]. cbn [ss_wal ss_env].
    split; [reflexivity|].
    set (d := e_disk (ss_env s)) in *.
    assert (HL' : LInv c (nb + 2) (ss_wal s) (apply_act d (ASetStable k v))).
    { eapply LInv_same; [reflexivity|reflexivity|]. eapply LInv_mono; [|exact HL]; lia. }
    assert (Hsp' : sp_of (apply_act d (ASetStable k v)) = {| sp_log := sp_log a; sp_kv := kv_set k v (sp_kv a) |}).
    { rewrite sp_of_setstable. rewrite <- Hsp. reflexivity. }
    split; [exact HL'|]. split; [exact Hsp'|].
    apply ext_io; [|exact I|].
    + apply ext_add_m. eapply ext_refl_LInv; eauto.
    + eapply LInv_DP; [exact HL'|]. right. exact Hsp'.
  - eexists _, _. split; [reflexivity|]. cbn [ss_wal ss_env].
    split; [destruct n; reflexivity|].
    split; [eapply LInv_mono; [|exact HL]; lia|].
    split; [exact Hsp|].
    apply ext_add_m. eapply ext_refl_LInv; eauto.
Qed.

Lemma call_reopen c : call_ok c OReopen.
Proof.
  intros nb s a Hc _ Hnb HL Hf Hsp Hg. cbn [step_model step_spec fst snd].
  pose proof HL as (_ & _ & HD & HN & _).
  destruct (open_wal_ok c nb (ss_env s) Hc Hf HD HN) as (w & e' & Ho & Hext & HL' & Hde); [lia|].
  rewrite Ho. eexists _, _. split; [reflexivity|]. cbn [ss_wal ss_env].
  split; [reflexivity|]. split; [eapply LInv_mono; [|exact HL']; lia|].
  pose proof (ext_final _ _ _ Hext) as (_ & _ & Hs'). split; [congruence|].
  eapply ext_mono; [|exact Hext]. intros d HQ. apply OQ_DP in HQ.
  eapply DP_mono; [| |exact HQ]; [lia|]. intros x Hx. left. congruence.
Qed.
