(* SeqFactsOps3.v -- GetLog, FirstIndex/LastIndex, the stable store, and
   Close+Open on invariant states. *)
From RW Require Import Base.Bytes Base.BytesFacts Fmt.Codec Fmt.CodecFacts Fmt.Frame
  Wal.Model Wal.Spec Wal.SeqInv Wal.SeqFactsBase Wal.SeqFactsAbs Wal.SeqFactsTxn Wal.SeqFactsOps1
  Wal.SeqFactsOps2 Gen.Constants.
From Coq Require Import ZifyN ZifyNat ZifyBool.
Open Scope N_scope.

(* ------------------------------------------------------------------ *)
(* findSegmentReader                                                    *)
Lemma seek_split_app idx : forall l1 l2 before,
  Forall (fun x => si_base x < idx) l1 ->
  seek_split idx before (l1 ++ l2) = seek_split idx (rev l1 ++ before) l2.
Proof.
  induction l1 as [|x l1 IH]; intros l2 before HF; [reflexivity|].
  inversion HF as [|? ? Hx HF']; subst. cbn [app seek_split].
  destruct (N.leb_spec idx (si_base x)); [lia|]. rewrite IH by exact HF'.
  cbn [rev]. rewrite <- app_assoc. reflexivity.
Qed.

Lemma seek_split_spec idx : forall l before,
  exists l1 l2, l = l1 ++ l2 /\ seek_split idx before l = (rev l1 ++ before, l2) /\
    match l2 with [] => True | x :: _ => idx <= si_base x end.
Proof.
  induction l as [|x l IH]; intros before.
  - exists [], []. repeat split.
  - cbn [seek_split]. destruct (N.leb_spec idx (si_base x)).
    + exists [], (x :: l). repeat split. exact H.
    + destruct (IH (x :: before)) as (l1 & l2 & -> & E & Hh). exists (x :: l1), l2.
      split; [reflexivity|]. split; [|exact Hh]. rewrite E. cbn [rev]. rewrite <- app_assoc. reflexivity.
Qed.

Lemma find_segment_sound segs idx s :
  find_segment segs idx = Some s ->
  In s segs /\ si_min s <= idx /\ (si_max s = 0 \/ idx <= si_max s).
Proof.
  unfold find_segment. destruct (seek_split_spec idx segs []) as (l1 & l2 & -> & E & Hh).
  rewrite E. rewrite app_nil_r. destruct l2 as [|x l2]; [discriminate|].
  assert (Hcand : forall cand, match cand with
              | Some s0 => if (si_min s0 <=? idx) && ((si_max s0 =? 0) || (idx <=? si_max s0)) then Some s0 else None
              | None => None end = Some s -> cand = Some s /\ si_min s <= idx /\ (si_max s = 0 \/ idx <= si_max s)).
  { intros [s0|]; [|discriminate].
    destruct (N.leb_spec (si_min s0) idx); cbn [andb]; [|discriminate].
    destruct (N.eqb_spec (si_max s0) 0); cbn [orb].
    - intros H0; inversion H0; subst. auto.
    - destruct (N.leb_spec idx (si_max s0)); [|discriminate]. intros H1; inversion H1; subst. auto. }
  intros H. apply Hcand in H. destruct H as (Hc & H1 & H2). split; [|split; assumption].
  destruct (idx <? si_base x).
  - destruct (rev l1) as [|p rl] eqn:Er; [discriminate|]. inversion Hc; subst.
    apply in_or_app. left. apply in_rev. rewrite Er. left; reflexivity.
  - inversion Hc; subst. apply in_or_app. right. left; reflexivity.
Qed.

Lemma find_segment_complete pre s x post idx :
  Forall (fun p => si_base p < si_base s) pre -> si_base s <= idx -> idx < si_base x ->
  si_min s <= idx -> idx <= si_max s ->
  find_segment (pre ++ s :: x :: post) idx = Some s.
Proof.
  intros Hpre Hb Hx Hmin Hmax. unfold find_segment.
  rewrite seek_split_app by (eapply Forall_impl; [|exact Hpre]; intros p Hp; cbv beta in *; lia).
  assert (Hchk : (si_min s <=? idx) && ((si_max s =? 0) || (idx <=? si_max s)) = true).
  { destruct (N.leb_spec (si_min s) idx); [|lia]. destruct (N.leb_spec idx (si_max s)); [|lia].
    cbn [andb]. apply orb_true_r. }
  cbn [seek_split]. destruct (N.leb_spec idx (si_base s)).
  - destruct (N.ltb_spec idx (si_base s)); [lia|]. rewrite Hchk. reflexivity.
  - destruct (N.leb_spec idx (si_base x)); [|lia].
    destruct (N.ltb_spec idx (si_base x)); [|lia]. cbn [rev app]. rewrite Hchk. reflexivity.
Qed.

(* ------------------------------------------------------------------ *)
(* GetLog                                                               *)
Definition raw_get (w : wal) (idx : N) (d : disk) : option log :=
  let from_tail :=
      match st_tail w, tail_info (st_segs w) with
      | Some t, Some ti => if si_min ti <=? idx then tail_lookup t idx d else None
      | Some t, None => tail_lookup t idx d
      | None, _ => None
      end in
  match from_tail with
  | Some l => Some l
  | None =>
      match find_segment (st_segs w) idx with
      | None => None
      | Some s =>
          let is_tail := match st_tail w with
                         | Some t => fname_eqb (ws_name t) (name_of s)
                         | None => false
                         end in
          if is_tail
          then match st_tail w with Some t => tail_lookup t idx d | None => None end
          else seg_read (name_of s) (si_base s) idx d
      end
  end.

Lemma get_log_raw w idx e : st_closed w = false ->
  get_log w idx e = match raw_get w idx (e_disk e) with
                    | Some l => (RLog (codec_view l), inc_read e (enc_len l) true)
                    | None => (RErrNotFound, inc_read e 0 false)
                    end.
Proof.
  intros Hcl. unfold get_log, raw_get. rewrite Hcl. cbv zeta.
  destruct (match st_tail w with
            | Some t => match tail_info (st_segs w) with
                        | Some ti => if si_min ti <=? idx then tail_lookup t idx (e_disk e) else None
                        | None => tail_lookup t idx (e_disk e) end
            | None => None end); [reflexivity|].
  destruct (find_segment (st_segs w) idx); [|reflexivity].
  destruct (match st_tail w with Some t => fname_eqb (ws_name t) (name_of s) | None => false end); reflexivity.
Qed.

Lemma seg_read_ents n b idx d : seg_read n b idx d = nth_error (file_ents n d) (N.to_nat (idx - b)).
Proof.
  unfold seg_read, file_ents. destruct (lookup n (dk_files d)); [reflexivity|].
  destruct (N.to_nat (idx - b)); reflexivity.
Qed.

(* every listed segment has a good file *)
Lemma seg_file c d ss t tw s :
  Forall (sealed_ok c d) ss -> tail_ok c d t tw -> In s (ss ++ [t]) ->
  1 <= si_base s /\ si_base s <= si_min s /\
  exists f, file_ok d s f /\ emax (ws_commit_idx tw) s + 1 - si_base s <= llen (df_ents f).
Proof.
  intros HS HT Hs. apply in_app_or in Hs. destruct Hs as [Hs|[<-|[]]].
  - rewrite Forall_forall in HS. destruct (HS s Hs) as (H1 & _ & H3 & H4 & _ & _ & f & Hf & _ & H7).
    rewrite (emax_sealed _ _ H1). repeat split; auto. exists f. auto.
  - destruct (tail_commit _ _ _ _ HT) as [Hci Hb].
    destruct HT as (H1 & _ & _ & H4 & H5 & _ & _ & _ & _ & _ & _ & _ & _ & _ & _ & _ & _ & f & Hf & Hn & _).
    rewrite (emax_unsealed _ _ H1), Hci. repeat split; auto. exists f. split; [exact Hf|].
    destruct (N.eqb_spec (ws_n tw) 0); lia.
Qed.

(* an entry read from the file of a listed segment inside its visible range
   is the entry the abstract log has at that index *)
Lemma seg_lookup_abs c w d ss t tw s idx l :
  WInvS c w d ss t tw -> In s (ss ++ [t]) ->
  si_min s <= idx -> idx <= emax (ws_commit_idx tw) s ->
  nth_error (file_ents (name_of s) d) (N.to_nat (idx - si_base s)) = Some l ->
  spec_get (abs w d) idx = Some l /\ log_ok l.
Proof.
  intros HI Hs Hmin Hmax Hnth.
  destruct (abs_props _ _ _ _ _ _ HI) as (Hsf & Hsl & Hemp & Haok & Hne).
  destruct HI as (_ & _ & _ & _ & _ & Hsegs & Htail & HS & HT & HL & _).
  destruct (seg_file _ _ _ _ _ _ HS HT Hs) as (Hb1 & Hb2 & f & Hf & Hflen).
  rewrite (file_ents_ok _ _ _ Hf) in Hnth.
  assert (Hidx : l_index l = idx).
  { destruct Hf as (_ & _ & Hc & _). rewrite (consecutive_nth _ _ _ _ Hc Hnth). lia. }
  assert (Hvis : In l (seg_visible (ws_commit_idx tw) d s)).
  { rewrite seg_visible_eq by lia. rewrite (file_ents_ok _ _ _ Hf).
    apply (nth_error_In _ (N.to_nat (idx - si_min s))).
    rewrite nth_error_firstn by lia. rewrite nth_error_skipn. rewrite <- Hnth. f_equal. lia. }
  assert (Hin : In l (flat_map (seg_visible (ws_commit_idx tw) d) (ss ++ [t]))).
  { apply in_flat_map. exists s. split; assumption. }
  assert (HL0 : last_index (st_segs w) (st_tail w) <> 0).
  { intros E0. rewrite Hsegs, Htail in E0. apply (content_nonempty _ _ _ _ _ HT HS HL) in E0.
    rewrite E0 in Hin. destruct Hin. }
  destruct (Hne HL0) as (Ha & HFm & HF1 & HFL & HLlen & HL1 & Hcons).
  rewrite Ha in *. cbn [sl_ents sl_first] in *.
  split.
  - assert (Hpos := consecutive_In_nth _ _ _ Hcons Hin). rewrite Hidx in Hpos.
    apply In_nth_error in Hin. destruct Hin as [k Hk].
    assert (Hik := consecutive_nth _ _ _ _ Hcons Hk).
    assert (Hklen : (k < length (flat_map (seg_visible (ws_commit_idx tw) d) (ss ++ [t])))%nat).
    { apply nth_error_Some. congruence. }
    unfold spec_get, spec_last, sl_is_empty. cbn [sl_ents sl_first].
    destruct (flat_map (seg_visible (ws_commit_idx tw) d) (ss ++ [t])) eqn:Ec; [cbn in Hklen; lia|].
    rewrite <- Ec in *. cbn [orb].
    unfold llen in *.
    destruct (N.ltb_spec idx (first_index (st_segs w) (st_tail w))); [lia|]. cbn [orb].
    destruct (N.ltb_spec (first_index (st_segs w) (st_tail w) +
                          N.of_nat (length (flat_map (seg_visible (ws_commit_idx tw) d) (ss ++ [t]))) - 1) idx);
      [lia|]. exact Hpos.
  - rewrite Forall_forall in Haok. apply Haok. exact Hin.
Qed.

(* every index of the abstract log lies in the visible range of a listed segment *)
Lemma covering c w d ss t tw idx l :
  WInvS c w d ss t tw -> spec_get (abs w d) idx = Some l ->
  exists s, In s (ss ++ [t]) /\ si_min s <= idx /\ idx <= emax (ws_commit_idx tw) s.
Proof.
  intros HI Hget.
  destruct (abs_props _ _ _ _ _ _ HI) as (Hsf & Hsl & Hemp & Haok & Hne).
  destruct HI as (_ & _ & _ & _ & _ & Hsegs & Htail & HS & HT & HL & _).
  unfold spec_get in Hget.
  destruct (sl_is_empty (abs w d)) eqn:Ee; [discriminate|]. cbn [orb] in Hget.
  assert (HL0 : last_index (st_segs w) (st_tail w) <> 0).
  { intros E0. apply Hemp in E0. congruence. }
  destruct (Hne HL0) as (Ha & HFm & HF1 & HFL & HLlen & HL1 & Hcons).
  rewrite Hsl in Hget. rewrite Ha in Hget, Hcons. cbn [sl_ents sl_first] in *.
  destruct (N.ltb_spec idx (first_index (st_segs w) (st_tail w))); [discriminate|].
  destruct (N.ltb_spec (last_index (st_segs w) (st_tail w)) idx); [discriminate|]. cbn [orb] in Hget.
  assert (Hidx := consecutive_nth _ _ _ _ Hcons Hget).
  apply nth_error_In in Hget. apply in_flat_map in Hget. destruct Hget as (s & Hs & Hl).
  exists s. split; [exact Hs|].
  apply In_nth_error in Hl. destruct Hl as [k Hk].
  assert (Hklen : (k < length (seg_visible (ws_commit_idx tw) d s))%nat) by (apply nth_error_Some; congruence).
  apply in_app_or in Hs. destruct Hs as [Hs|[<-|[]]].
  - rewrite Forall_forall in HS. specialize (HS s Hs).
    destruct (vis_sealed _ _ (ws_commit_idx tw) _ HS) as (f & _ & _ & _ & Hlen & Hc & _).
    assert (Hik := consecutive_nth _ _ _ _ Hc Hk). destruct HS as (Hsl' & _).
    rewrite (emax_sealed _ _ Hsl'). unfold llen in Hlen. lia.
  - destruct (vis_tail _ _ _ _ HT) as (f & _ & _ & _ & _ & _ & Hlen & Hc & _).
    assert (Hik := consecutive_nth _ _ _ _ Hc Hk).
    destruct (tail_commit _ _ _ _ HT) as [Hci Hb]. assert (Hu : si_sealed t = false) by apply HT.
    assert (Hbm : si_base t <= si_min t) by apply HT.
    rewrite (emax_unsealed _ _ Hu), Hci. unfold llen in Hlen.
    destruct (N.eqb_spec (ws_n tw) 0); lia.
Qed.

Lemma tail_lookup_some c d t tw idx l :
  tail_ok c d t tw -> tail_lookup tw idx d = Some l ->
  si_base t <= idx /\ idx <= ws_commit_idx tw /\
  nth_error (file_ents (name_of t) d) (N.to_nat (idx - si_base t)) = Some l.
Proof.
  intros HT. assert (H8 : ws_name tw = name_of t) by apply HT. assert (H9 : ws_base tw = si_base t) by apply HT.
  unfold tail_lookup. rewrite H8, H9.
  destruct (N.ltb_spec idx (si_base t)); cbn [orb]; [discriminate|].
  destruct (idx <? ws_min tw); cbn [orb]; [discriminate|].
  destruct (N.ltb_spec (ws_commit_idx tw) idx); [discriminate|].
  rewrite seg_read_ents. auto.
Qed.

Lemma tail_lookup_hit c d t tw idx :
  tail_ok c d t tw -> si_min t <= idx -> idx <= ws_commit_idx tw ->
  tail_lookup tw idx d = nth_error (file_ents (name_of t) d) (N.to_nat (idx - si_base t)).
Proof.
  intros HT Hm Hc. assert (H8 : ws_name tw = name_of t) by apply HT. assert (H9 : ws_base tw = si_base t) by apply HT.
  assert (H5 : si_base t <= si_min t) by apply HT. assert (H11 : ws_min tw <= si_min t) by apply HT.
  unfold tail_lookup. rewrite H8, H9.
  destruct (N.ltb_spec idx (si_base t)); [lia|]. destruct (N.ltb_spec idx (ws_min tw)); [lia|].
  destruct (N.ltb_spec (ws_commit_idx tw) idx); [lia|]. cbn [orb]. apply seg_read_ents.
Qed.

Lemma raw_get_sound c w d ss t tw idx l :
  WInvS c w d ss t tw -> raw_get w idx d = Some l ->
  exists s, In s (ss ++ [t]) /\ si_min s <= idx /\ idx <= emax (ws_commit_idx tw) s /\
            nth_error (file_ents (name_of s) d) (N.to_nat (idx - si_base s)) = Some l.
Proof.
  intros (_ & _ & _ & _ & _ & Hsegs & Htail & HS & HT & HL & _).
  unfold raw_get. rewrite Hsegs, Htail, tail_info_snoc. cbv zeta.
  assert (Hu : si_sealed t = false) by apply HT.
  assert (Hlt := linked_base_lt ss t (Forall_impl _ (sealed_srange c d) HS) HL).
  assert (Htail_case : forall l0, si_min t <= idx -> tail_lookup tw idx d = Some l0 ->
            exists s, In s (ss ++ [t]) /\ si_min s <= idx /\ idx <= emax (ws_commit_idx tw) s /\
                      nth_error (file_ents (name_of s) d) (N.to_nat (idx - si_base s)) = Some l0).
  { intros l0 Hm Hl. destruct (tail_lookup_some _ _ _ _ _ _ HT Hl) as (H1 & H2 & H3).
    exists t. rewrite (emax_unsealed _ _ Hu). repeat split; auto. apply in_or_app. right. left. reflexivity. }
  destruct (N.leb_spec (si_min t) idx) as [Hm|Hm].
  - destruct (tail_lookup tw idx d) as [l0|] eqn:Etl.
    + intros H; inversion H; subst. apply Htail_case; assumption.
    + destruct (find_segment (ss ++ [t]) idx) as [s|] eqn:Efs; [|discriminate].
      destruct (find_segment_sound _ _ _ Efs) as (Hin & Hmin & Hmax).
      assert (H8 : ws_name tw = name_of t) by apply HT. rewrite H8.
      destruct (fname_eqb (name_of t) (name_of s)) eqn:En; [discriminate|].
      intros Hr. rewrite seg_read_ents in Hr.
      apply in_app_or in Hin. destruct Hin as [Hin|[<-|[]]]; [|rewrite fname_eqb_refl in En; discriminate].
      exists s. rewrite Forall_forall in HS. destruct (HS s Hin) as (Hsl & _ & Hb1 & Hb2 & Hb3 & _).
      rewrite (emax_sealed _ _ Hsl). repeat split; auto; [apply in_or_app; left; exact Hin|lia].
  - destruct (find_segment (ss ++ [t]) idx) as [s|] eqn:Efs; [|discriminate].
    destruct (find_segment_sound _ _ _ Efs) as (Hin & Hmin & Hmax).
    assert (H8 : ws_name tw = name_of t) by apply HT. rewrite H8.
    apply in_app_or in Hin. destruct Hin as [Hin|[<-|[]]]; [|lia].
    rewrite Forall_forall in HS, Hlt. destruct (HS s Hin) as (Hsl & _ & Hb1 & Hb2 & Hb3 & _). specialize (Hlt s Hin).
    rewrite (fname_neq_base (name_of t) (name_of s)) by (cbn [name_of fst]; lia).
    intros Hr. rewrite seg_read_ents in Hr. exists s. rewrite (emax_sealed _ _ Hsl).
    repeat split; auto; [apply in_or_app; left; exact Hin|lia].
Qed.

Lemma raw_get_complete c w d ss t tw idx s :
  WInvS c w d ss t tw -> In s (ss ++ [t]) -> si_min s <= idx -> idx <= emax (ws_commit_idx tw) s ->
  raw_get w idx d = nth_error (file_ents (name_of s) d) (N.to_nat (idx - si_base s)) /\
  raw_get w idx d <> None.
Proof.
  intros (_ & _ & _ & _ & _ & Hsegs & Htail & HS & HT & HL & _) Hs Hmin Hmax.
  destruct (seg_file _ _ _ _ _ _ HS HT Hs) as (Hb1 & Hb2 & f & Hf & Hflen).
  assert (Hsome : nth_error (file_ents (name_of s) d) (N.to_nat (idx - si_base s)) <> None).
  { rewrite (file_ents_ok _ _ _ Hf). apply nth_error_Some. unfold llen in Hflen. lia. }
  assert (Heq : raw_get w idx d = nth_error (file_ents (name_of s) d) (N.to_nat (idx - si_base s)));
    [|split; [exact Heq|rewrite Heq; exact Hsome]].
  unfold raw_get. rewrite Hsegs, Htail, tail_info_snoc. cbv zeta.
  assert (Hu : si_sealed t = false) by apply HT.
  assert (Hlt := linked_lt ss t (Forall_impl _ (sealed_srange c d) HS) HL).
  apply in_app_or in Hs. destruct Hs as [Hs|[<-|[]]].
  - (* a sealed segment *)
    rewrite Forall_forall in Hlt. assert (Hlt_s := Hlt s Hs).
    assert (HSs : sealed_ok c d s) by (rewrite Forall_forall in HS; apply HS; exact Hs).
    assert (Hsl : si_sealed s = true) by apply HSs. rewrite (emax_sealed _ _ Hsl) in Hmax.
    assert (Hft : (if si_min t <=? idx then tail_lookup tw idx d else None) = None).
    { destruct (si_min t <=? idx); [|reflexivity]. unfold tail_lookup.
      assert (H9 : ws_base tw = si_base t) by apply HT. rewrite H9.
      destruct (N.ltb_spec idx (si_base t)); [reflexivity|lia]. }
    rewrite Hft.
    apply in_split in Hs. destruct Hs as (pre & post & Ess).
    assert (Efs : find_segment (ss ++ [t]) idx = Some s).
    { assert (Hx : exists x rest, post ++ [t] = x :: rest) by (destruct post; cbn [app]; eauto).
      destruct Hx as (x & rest & Ex). rewrite Ess, <- app_assoc. cbn [app]. rewrite Ex.
      assert (Hl2 : linked (pre ++ s :: x :: rest)).
      { rewrite <- Ex. replace (pre ++ s :: post ++ [t]) with (ss ++ [t]); [exact HL|].
        rewrite Ess, <- app_assoc. reflexivity. }
      destruct (linked_app_inv _ _ _ Hl2) as [Hl3 Hl4]. destruct Hl4 as (E1 & _).
      apply find_segment_complete; try lia.
      apply linked_base_lt; [|exact Hl3].
      rewrite Ess in HS. apply Forall_app in HS. destruct HS as [HS _].
      eapply Forall_impl; [|exact HS]. apply sealed_srange. }
    rewrite Efs. assert (H8 : ws_name tw = name_of t) by apply HT. rewrite H8.
    rewrite (fname_neq_base (name_of t) (name_of s)) by (cbn [name_of fst]; lia).
    apply seg_read_ents.
  - (* the tail *)
    rewrite (emax_unsealed _ _ Hu) in Hmax.
    destruct (N.leb_spec (si_min t) idx); [|lia].
    rewrite (tail_lookup_hit _ _ _ _ _ HT Hmin Hmax).
    destruct (nth_error (file_ents (name_of t) d) (N.to_nat (idx - si_base t))); [reflexivity|congruence].
Qed.

Lemma get_log_ok c w e ss t tw idx :
  WInvS c w (e_disk e) ss t tw ->
  exists r e',
    get_log w idx e = (r, e') /\ e_disk e' = e_disk e /\ e_fault e' = e_fault e /\
    r = match spec_get (abs w (e_disk e)) idx with Some l => RLog l | None => RErrNotFound end /\
    e' = match raw_get w idx (e_disk e) with
         | Some l => inc_read e (enc_len l) true
         | None => inc_read e 0 false
         end.
Proof.
  intros HI. assert (Hcl : st_closed w = false) by apply HI.
  rewrite (get_log_raw _ _ _ Hcl).
  destruct (raw_get w idx (e_disk e)) as [l|] eqn:Er.
  - destruct (raw_get_sound _ _ _ _ _ _ _ _ HI Er) as (s & Hs & Hmin & Hmax & Hnth).
    destruct (seg_lookup_abs _ _ _ _ _ _ _ _ _ HI Hs Hmin Hmax Hnth) as [Hget Hok].
    rewrite Hget. destruct (log_ok_codec l Hok) as [Hcv _]. rewrite Hcv.
    eexists _, _. repeat split; reflexivity.
  - destruct (spec_get (abs w (e_disk e)) idx) as [l|] eqn:Eg.
    + exfalso. destruct (covering _ _ _ _ _ _ _ _ HI Eg) as (s & Hs & Hmin & Hmax).
      destruct (raw_get_complete _ _ _ _ _ _ _ _ HI Hs Hmin Hmax) as [_ Hnn]. congruence.
    + eexists _, _. repeat split; reflexivity.
Qed.

(* ------------------------------------------------------------------ *)
(* FirstIndex / LastIndex                                               *)
Lemma first_last_ok c w d ss t tw : WInvS c w d ss t tw ->
  first_index_op w = RVal (spec_first (abs w d)) /\ last_index_op w = RVal (spec_last (abs w d)).
Proof.
  intros HI. destruct (abs_props _ _ _ _ _ _ HI) as (Hsf & Hsl & _).
  assert (Hcl : st_closed w = false) by apply HI.
  unfold first_index_op, last_index_op. rewrite Hcl, Hsf, Hsl. split; reflexivity.
Qed.

(* ------------------------------------------------------------------ *)
(* StableStore                                                          *)
Lemma set_stable_ok c w e ss t tw k v n :
  e_fault e = None -> WInvS c w (e_disk e) ss t tw ->
  exists r e',
    set_stable w k v n e = (r, e') /\ e_fault e' = None /\ WInvS c w (e_disk e') ss t tw /\
    abs w (e_disk e') = abs w (e_disk e) /\
    dk_files (e_disk e') = dk_files (e_disk e) /\ dk_meta (e_disk e') = dk_meta (e_disk e) /\
    (r, dk_stable (e_disk e')) =
      (if key_ok k then (ROk, kv_set k v (dk_stable (e_disk e)))
       else (if n then ROk else RErrOther, dk_stable (e_disk e))) /\
    e_m e' = e_m (inc_stable e true).
Proof.
  intros He HI. assert (Hcl : st_closed w = false) by apply HI.
  unfold set_stable. rewrite Hcl. destruct (key_ok k); cbn [negb].
  - assert (He0 : e_fault (inc_stable e true) = None) by exact He.
    rewrite (io_ok _ _ He0). eexists _, _. split; [reflexivity|]. split; [reflexivity|].
    assert (Hini : dk_inited (e_disk e) = true) by apply HI.
    destruct (WInvS_frame c w (e_disk e) (e_disk (io_post (ASetStable k v) (inc_stable e true))) ss t tw HI)
      as [G1 G2]; try reflexivity.
    { cbn. rewrite Hini. reflexivity. }
    { intros m Hm. exact Hm. }
    split; [exact G1|]. split; [exact G2|]. repeat split; reflexivity.
  - eexists _, _. split; [reflexivity|]. split; [exact He|]. split; [exact HI|]. repeat split; reflexivity.
Qed.

Lemma get_stable_ok c w e ss t tw k :
  WInvS c w (e_disk e) ss t tw ->
  get_stable w k e = (RBytes (kv_get k (dk_stable (e_disk e))), inc_stable e false).
Proof. intros HI. assert (Hcl : st_closed w = false) by apply HI. unfold get_stable. rewrite Hcl. reflexivity. Qed.

(* ------------------------------------------------------------------ *)
(* Open on the disk of a live (fault-free) state                         *)
Lemma open_segs_sealed c e : forall ss acc rest,
  Forall (sealed_ok c (e_disk e)) ss ->
  open_segs c (ss ++ rest) acc e = open_segs c rest (rev ss ++ acc) e.
Proof.
  induction ss as [|s ss IH]; intros acc rest HS; [reflexivity|].
  inversion HS as [|? ? Hs HS']; subst. cbn [app open_segs].
  destruct Hs as (H1 & H2 & _ & _ & _ & _ & f & (Hl & Hp & _) & He & _).
  rewrite H2, N.eqb_refl, H1. cbn [negb]. rewrite Hl.
  unfold cur_end. rewrite Hp. destruct (N.eqb_spec (df_end f) 0); [contradiction|].
  rewrite IH by exact HS'. cbn [rev]. rewrite <- app_assoc. reflexivity.
Qed.

(* the writer RecoverTail builds from the tail file *)
Definition recovered (t : seginfo) (f : dfile) : wseg :=
  {| ws_name := name_of t; ws_base := si_base t; ws_min := si_min t; ws_limit := si_size_limit t;
     ws_n := llen (cur_ents f); ws_off := cur_end f; ws_hdr := (cur_end f =? 0);
     ws_index_start := cur_seal f;
     ws_commit_idx := if llen (cur_ents f) =? 0 then 0 else si_base t + llen (cur_ents f) - 1 |}.

Lemma recovered_ok c d t tw : tail_ok c d t tw ->
  exists f, lookup (name_of t) (dk_files d) = Some f /\
    tail_ok c d t (recovered t f) /\ ws_commit_idx (recovered t f) = ws_commit_idx tw /\
    ws_index_start (recovered t f) = ws_index_start tw /\ ws_n (recovered t f) = ws_n tw.
Proof.
  intros (H1 & H2 & H3 & H4 & H5 & H6 & H7 & H8 & H9 & H10 & H11 & H12 & H13 & H14 & H15 & H16 & H17
          & f & Hf & Hn & He & Hs).
  exists f. destruct Hf as (Hl & Hp & Hc & Hok). split; [exact Hl|].
  unfold recovered, cur_ents, cur_end, cur_seal. rewrite Hp, Hn, He, Hs.
  cbn [ws_commit_idx ws_index_start ws_n]. split; [|auto].
  unfold tail_ok. cbn [ws_n ws_name ws_base ws_min ws_limit ws_off ws_hdr ws_index_start ws_commit_idx].
  repeat split; auto; try lia.
  exists f. repeat split; auto.
Qed.

Lemma garbage_not_listed segs on_disk s n :
  In s segs -> In n (filter (fun n => negb (listed segs n)) on_disk) -> fname_eqb (name_of s) n = false.
Proof.
  intros Hs Hn. apply filter_In in Hn. destruct Hn as [_ Hn]. apply negb_true_iff in Hn.
  destruct (fname_eqb (name_of s) n) eqn:E; [|reflexivity].
  assert (Hl : listed segs n = true) by (apply existsb_exists; exists s; split; assumption). congruence.
Qed.

Lemma cfg_codec_check c : cfg_ok c ->
  negb (FirstExternalCodecID <=? c_codec c) && negb (c_codec c =? BinaryCodecID) = false.
Proof.
  intros ([H|H] & _).
  - rewrite H, N.eqb_refl. apply andb_false_r.
  - destruct (N.leb_spec FirstExternalCodecID (c_codec c)); [reflexivity|lia].
Qed.

Lemma reopen_ok c w e ss t tw :
  cfg_ok c -> e_fault e = None -> WInvS c w (e_disk e) ss t tw -> st_next_id w + 1 < two64 ->
  exists w' e' ss' t' tw',
    open_wal c e = (OOk w', e') /\ e_fault e' = None /\ WInvS c w' (e_disk e') ss' t' tw' /\
    ws_index_start tw' = 0 /\ abs w' (e_disk e') = abs w (e_disk e) /\
    dk_stable (e_disk e') = dk_stable (e_disk e) /\
    st_next_id w <= st_next_id w' /\ st_next_id w' <= st_next_id w + 1 /\ e_m e' = e_m e.
Proof.
  intros Hc He HI Hnid. assert (HI0 := HI).
  destruct HI as (Hcl & Hfa & Hmeta & Hini & Hfr & Hsegs & Htail & HS & HT & HL & Hro).
  destruct (recovered_ok _ _ _ _ HT) as (f & Hlk & HTr & Hrc & Hri & Hrn).
  unfold open_wal. rewrite (cfg_codec_check c Hc), Hini. cbn [negb]. unfold armed. rewrite He. cbn [andb]. rewrite Hmeta. cbv zeta.
  cbn [persistent ps_segs ps_next_id]. rewrite Hsegs.
  rewrite (open_segs_sealed c e ss [] [t] HS). cbn [open_segs].
  assert (Hcod : si_codec t = c_codec c) by apply HT. assert (Hu : si_sealed t = false) by apply HT.
  rewrite (proj2 (N.eqb_eq _ _) Hcod), Hu. cbn [negb]. unfold seg_recover. rewrite Hlk. cbv zeta.
  fold (recovered t f). rewrite app_nil_r, rev_append_rev, rev_involutive.
  set (garbage := filter (fun n => negb (listed (ss ++ [t]) n)) (map fst (dk_files (e_disk e)))).
  assert (Hgarb : forall s n, In s (ss ++ [t]) -> In n garbage -> fname_eqb (name_of s) n = false).
  { intros s n Hs Hn. eapply garbage_not_listed; eauto. }
  destruct (N.ltb_spec 0 (ws_index_start (recovered t f))) as [Hpend|Hpend].
  - (* a rotation was pending: Open completes it *)
    fold (seal_info t (ws_commit_idx (recovered t f)) (ws_index_start (recovered t f))).
    rewrite Hrc. set (istart := ws_index_start (recovered t f)).
    set (t' := seal_info t (ws_commit_idx tw) istart).
    rewrite tail_info_snoc.
    assert (Hn : 0 < ws_n tw) by (apply HT; lia).
    destruct (tail_commit _ _ _ _ HT) as [Hci Hb1].
    assert (Hci' : ws_commit_idx tw = si_base t + ws_n tw - 1).
    { rewrite Hci. destruct (N.eqb_spec (ws_n tw) 0); [lia|reflexivity]. }
    assert (Hb2 : si_base t + ws_n tw < two64) by apply HT.
    assert (Hlt := linked_base_lt ss t (Forall_impl _ (sealed_srange c (e_disk e)) HS) HL).
    change (si_max t') with (ws_commit_idx tw).
    rewrite !mod64_small by lia.
    set (si := new_segment c (st_next_id w) (ws_commit_idx tw + 1)).
    rewrite seg_set_add.
    2:{ apply Forall_app. split.
        - eapply Forall_impl; [|exact Hlt]. intros s Hs. cbn [si new_segment si_base] in *. lia.
        - constructor; [|constructor]. cbn [si new_segment si_base t' seal_info]. lia. }
    rewrite (io_ok _ _ He). cbn [negb].
    assert (Hnone : lookup (name_of si) (dk_files (e_disk e)) = None) by (apply Hfr; cbn; lia).
    rewrite seg_create_ok; [|reflexivity|cbn [si new_segment si_base]; lia|exact Hnone].
    set (w0 := {| st_next_id := st_next_id w; st_segs := []; st_tail := None; st_rotate := None;
                  st_failed := false; st_closed := false |}).
    assert (HSt' : sealed_ok c (e_disk e) t').
    { unfold t'. rewrite Hci'. apply sealed_of_tail; assumption. }
    assert (HI' := new_tail_inv c w0 (e_disk e) (ss ++ [t']) (ws_commit_idx tw + 1) Hc ltac:(lia) ltac:(lia) Hnid Hfr Hini).
    cbv zeta in HI'. fold si in HI'.
    assert (HI'' : WInvS c (wal_with (st_next_id w0 + 1) ((ss ++ [t']) ++ [si]) (Some (new_wseg si)) w0)
                     (e_disk (io_post (ACreate (name_of si) (si_size_limit si))
                        (io_post (ACommit {| ps_next_id := st_next_id w + 1; ps_segs := (ss ++ [t']) ++ [si] |}) e)))
                     (ss ++ [t']) si (new_wseg si)).
    { apply HI'; try reflexivity.
      - apply Forall_app. split; [exact HS|constructor; [exact HSt'|constructor]].
      - rewrite <- app_assoc. cbn [app]. apply linked_app_intro.
        + eapply linked_last_replace; [| |exact HL]; reflexivity.
        + cbn [linked si new_segment si_base si_min t' seal_info si_max]. repeat split; reflexivity. }
    clear HI'.
    set (e2 := io_post (ACreate _ _) _) in *.
    assert (Hdn : forall s n, In s ((ss ++ [t']) ++ [si]) -> In n garbage -> fname_eqb (name_of s) n = false).
    { intros s n Hs Hn'. apply in_app_or in Hs. destruct Hs as [Hs|[<-|[]]].
      - apply in_app_or in Hs. destruct Hs as [Hs|[<-|[]]].
        + apply Hgarb; [apply in_or_app; left; exact Hs|exact Hn'].
        + change (name_of t') with (name_of t). apply Hgarb; [apply in_or_app; right; left; reflexivity|exact Hn'].
      - apply fname_eqb_neq. intros Eq. unfold garbage in Hn'. apply filter_In in Hn'. destruct Hn' as [Hn' _].
        apply in_names_lookup in Hn'. rewrite <- Eq in Hn'. contradiction. }
    destruct (WInvS_delete_files c _ e2 _ si _ garbage HI'' eq_refl Hdn) as (G1 & G2 & G3 & G4 & G5).
    eexists _, _, _, _, _. split; [reflexivity|]. split; [exact G3|]. split; [exact G1|].
    split; [reflexivity|]. split; [|split; [rewrite G4; reflexivity|]].
    2:{ cbn [wal_with st_next_id w0]. split; [lia|]. split; [lia|exact G5]. }
    etransitivity; [exact G2|]. rewrite (abs_empty_tail _ _ _ _ _ _ HI'' eq_refl).
    rewrite (abs_eq _ _ _ _ _ _ HI0), Hsegs, Htail.
    rewrite (last_index_inv c (e_disk e) ss _ _ HT), (first_index_inv _ _ _ _ _ HS HT).
    destruct (N.eqb_spec (ws_n tw) 0) as [|_]; [lia|].
    destruct (N.eqb_spec (si_base t + ws_n tw - 1) 0) as [|_]; [lia|].
    assert (Hlk2 : forall m, fname_eqb m (name_of si) = false ->
                     lookup m (dk_files (e_disk e2)) = lookup m (dk_files (e_disk e))).
    { intros m Hm. unfold e2. rewrite !io_post_disk, lookup_create, Hm. reflexivity. }
    assert (Econt : flat_map (seg_visible 0 (e_disk e2)) (ss ++ [t'])
                    = flat_map (seg_visible (ws_commit_idx tw) (e_disk e)) (ss ++ [t])).
    { rewrite !flat_map_app. f_equal.
      - apply (flat_map_visible_sealed c); [exact HS|]. intros s Hs. apply Hlk2.
        apply fname_neq_base. cbn [name_of fst si new_segment si_base]. rewrite Forall_forall in Hlt.
        specialize (Hlt s Hs). lia.
      - cbn [flat_map]. f_equal. unfold seg_visible. cbn [t' seal_info si_sealed si_max si_min si_base].
        rewrite Hu. unfold file_ents. rewrite Hlk2; [reflexivity|].
        apply fname_neq_base. unfold t', name_of, si, new_segment, seal_info. cbn [fst si_base]. lia. }
    rewrite Econt. destruct ss as [|s r]; cbn [app]; reflexivity.
  - (* the tail is recovered as it was *)
    assert (His : ws_index_start tw = 0) by lia.
    rewrite rev_append_rev, rev_involutive.
    set (w1 := {| st_next_id := st_next_id w; st_segs := ss ++ [t]; st_tail := Some (recovered t f);
                  st_rotate := None; st_failed := false; st_closed := false |}).
    assert (HI1 : WInvS c w1 (e_disk e) ss t (recovered t f)).
    { apply WInvS_intro; unfold w1; cbn [st_closed st_failed st_next_id st_segs st_tail st_rotate]; auto.
      - rewrite Hmeta. unfold persistent. rewrite Hsegs. reflexivity.
      - rewrite Hri, His. reflexivity. }
    destruct (WInvS_delete_files c w1 e ss t _ garbage HI1 He Hgarb) as (G1 & G2 & G3 & G4 & G5).
    eexists _, _, _, _, _. split; [reflexivity|]. split; [exact G3|]. split; [exact G1|].
    split; [lia|]. split; [|split; [exact G4|cbn [w1 st_next_id]; repeat split; try lia; exact G5]].
    rewrite G2. unfold abs, first_index, w1. cbn [st_segs st_tail tail_last].
    rewrite Hsegs, Htail. cbn [tail_last]. rewrite Hrc. reflexivity.
Qed.

(* what GetLog reads is what the abstract log holds *)
Lemma raw_get_spec c w d ss t tw idx :
  WInvS c w d ss t tw -> raw_get w idx d = spec_get (abs w d) idx.
Proof.
  intros HI. destruct (raw_get w idx d) as [l|] eqn:Er.
  - destruct (raw_get_sound _ _ _ _ _ _ _ _ HI Er) as (s & Hs & Hmin & Hmax & Hnth).
    destruct (seg_lookup_abs _ _ _ _ _ _ _ _ _ HI Hs Hmin Hmax Hnth) as [Hget _]. symmetry. exact Hget.
  - destruct (spec_get (abs w d) idx) as [l|] eqn:Eg; [|reflexivity]. exfalso.
    destruct (covering _ _ _ _ _ _ _ _ HI Eg) as (s & Hs & Hmin & Hmax).
    destruct (raw_get_complete _ _ _ _ _ _ _ _ HI Hs Hmin Hmax) as [_ Hnn]. congruence.
Qed.
