(* CrashCalls3.v -- state transactions (mutateStateLocked) that install a
   brand-new tail, and the background rotation. *)
From RW Require Import Base.Bytes Base.BytesFacts Fmt.Codec Fmt.CodecFacts Fmt.Frame Wal.Model Wal.Spec Wal.Hist
  Wal.CrashInv Wal.CrashFacts0 Wal.CrashFacts1 Wal.CrashFacts2 Wal.CrashFacts3 Wal.CrashFacts4 Wal.CrashFacts5
  Wal.CrashFacts6 Wal.CrashGlue Wal.CrashCalls1 Gen.Constants.
From Coq Require Import ZifyN ZifyNat ZifyBool.
Open Scope N_scope.

Lemma DP_delete_files c nb (A : spst -> Prop) e0 ps del : forall e,
  ext (DP c nb A) e0 e -> dk_meta (e_disk e) = Some ps ->
  (forall n, In n del -> listed (ps_segs ps) n = false) ->
  ext (DP c nb A) e0 (delete_files del e) /\ e_disk (delete_files del e) = del_disk del (e_disk e).
Proof.
  intros e He Hm Hdel. pose proof (ext_fault _ _ _ He) as Hf.
  split; [|apply delete_files_disk; exact Hf].
  set (P' := fun d => DP c nb A d /\ dk_meta d = Some ps).
  assert (He3 : ext P' e e) by (apply ext_refl; [exact Hf|split; [apply (ext_final _ _ _ He)|exact Hm]]).
  destruct (ext_delete_files P' e del e He3) as (He4 & _).
  - intros d n (HQ & Hm') Hin. split; [|exact Hm']. eapply DP_delete; eauto.
  - eapply ext_trans; [exact He|]. eapply ext_mono; [|exact He4]. intros d (HQ & _). exact HQ.
Qed.

Lemma mutate_newtail_ok c nb (A : spst -> Prop) defer w e0 e nid0 S' base del :
  cfg_ok c -> ext (DP c nb A) e0 e -> no_pend (e_disk e) ->
  st_rotate w = None -> st_failed w = false -> st_closed w = false ->
  (forall ps, dk_meta (e_disk e) = Some ps -> ps_next_id ps <= nid0) -> nid0 + 1 <= nb ->
  Forall (seg_wf c nid0) S' -> Forall (sealed_ok (e_disk e)) S' ->
  1 <= base -> base < two64 -> linked (S' ++ [new_segment c nid0 base]) ->
  (forall n, In n del -> listed (S' ++ [new_segment c nid0 base]) n = false) ->
  let si := new_segment c nid0 base in
  let s1 := {| sp_log := slog_of (hd_min S' si) (sealed_es (e_disk e) S'); sp_kv := dk_stable (e_disk e) |} in
  A s1 ->
  exists w' e',
    mutate_gen defer w {| tx_next_id := nid0 + 1; tx_segs := S' ++ [si]; tx_delete := del;
                          tx_create := Some si; tx_tail := None |} e
    = (ROk, w', e', if defer then del else []) /\
    ext (DP c nb A) e0 e' /\ LInv c nb w' (e_disk e') /\ sp_of (e_disk e') = s1 /\
    st_rotate w' = None /\ st_segs w' = S' ++ [si] /\ st_next_id w' = nid0 + 1 /\
    st_tail w' = Some (new_wseg si).
Proof.
  intros Hc He HN Hrot Hfail Hclosed Hnid Hnb Hwf Hso Hb1 Hb2 Hl Hdel si s1 HA.
  pose proof (ext_final _ _ _ He) as (HD & _ & _). pose proof (ext_fault _ _ _ He) as Hf.
  set (d := e_disk e) in *.
  destruct (commit_newtail c nb d nid0 S' base Hc HD Hnid Hnb Hwf Hl Hso Hb1 Hb2) as (HD1 & Hfresh & Hr1 & Hu1).
  fold si in HD1, Hfresh, Hr1, Hu1.
  set (ps' := {| ps_next_id := nid0 + 1; ps_segs := S' ++ [si] |}) in *.
  unfold mutate_gen. cbn [tx_next_id tx_segs tx_delete tx_create tx_tail].
  rewrite (io_ok _ e Hf). cbn [negb]. fold ps'. set (e1 := io_env (ACommit ps') e).
  assert (Hs1 : sp_of (e_disk e1) = s1) by (unfold sp_of; cbn [e1 io_env e_disk]; fold d; rewrite Hr1; reflexivity).
  assert (HN1 : no_pend (e_disk e1)) by (eapply no_pend_same; [|exact HN]; reflexivity).
  assert (HP1 : DP c nb A (e_disk e1)).
  { apply DP_no_pend; [exact HD1|exact HN1|rewrite Hs1; exact HA]. }
  assert (He1 : ext (DP c nb A) e0 e1) by (apply ext_io; [exact He|exact I|exact HP1]).
  rewrite (seg_create_ok si e1 eq_refl); [|cbn; lia|exact Hfresh].
  set (e2 := io_env (ACreate (name_of si) (si_size_limit si)) e1).
  assert (Hm1 : dk_meta (e_disk e1) = Some ps') by reflexivity.
  pose proof (DP_create_tail c nb A (e_disk e1) ps' S' si (si_size_limit si) HP1 Hm1 eq_refl Hfresh) as HP2.
  assert (He2 : ext (DP c nb A) e0 e2) by (apply ext_io; [exact He1|exact I|exact HP2]).
  assert (HN2 : no_pend (e_disk e2)) by (apply no_pend_create; exact HN1).
  assert (Hs2 : sp_of (e_disk e2) = s1).
  { rewrite <- Hs1. apply (sp_of_tail_ext (e_disk e1) _ ps' S' si Hm1 eq_refl); auto.
    - intros s Hin. cbn [e2 io_env e_disk apply_act dk_files]. apply lookup_update_neq.
      eapply (DIs_sealed_neq c nb (e_disk e1) ps' S' si s); [exact HD1|exact Hm1|reflexivity|exact Hin].
    - unfold file_ents. change (dk_files (e_disk e2)) with (update (name_of si) (fresh_file (si_size_limit si)) (dk_files (e_disk e1))).
      rewrite lookup_update_eq. change (dk_files (e_disk e1)) with (dk_files (apply_act d (ACommit ps'))).
      rewrite Hfresh. reflexivity. }
  set (w' := {| st_next_id := nid0 + 1; st_segs := S' ++ [si]; st_tail := Some (new_wseg si);
                st_rotate := st_rotate w; st_failed := st_failed w; st_closed := st_closed w |}).
  assert (HL2 : LInv c nb w' (e_disk e2)).
  { split; [exact Hclosed|]. split; [exact Hfail|]. split; [apply HP2|]. split; [exact HN2|].
    split; [reflexivity|]. exists si, (fresh_file (si_size_limit si)), (new_wseg si).
    split; [apply tail_info_app|]. split; [cbn; apply lookup_update_eq|].
    split; [reflexivity|]. split; [apply tw_ok_fresh|]. cbn. exact Hrot. }
  destruct defer.
  - exists w', e2. split; [reflexivity|]. split; [exact He2|]. split; [exact HL2|]. split; [exact Hs2|].
    cbn. auto.
  - assert (Hm2 : dk_meta (e_disk e2) = Some ps') by reflexivity.
    destruct (DP_delete_files c nb A e0 ps' del e2 He2 Hm2 Hdel) as (He3 & Hd3).
    exists w', (delete_files del e2). split; [reflexivity|]. split; [exact He3|].
    split; [rewrite Hd3; apply LInv_del_disk; [exact HL2|exact Hdel]|].
    split; [|cbn; auto].
    rewrite Hd3. rewrite <- Hs2. unfold sp_of. destruct (del_disk_meta del (e_disk e2)) as (M1 & M2). rewrite M2. f_equal.
    clear - Hdel Hm2. revert Hm2. generalize (e_disk e2). induction del as [|n del IH]; intros d0 Hm2; [reflexivity|].
    unfold del_disk. cbn [fold_left]. fold (del_disk del (apply_act d0 (ADelete n))).
    rewrite IH; [|intros m Hm; apply Hdel; right; exact Hm|exact Hm2].
    apply (dread_delete d0 n ps' Hm2). apply Hdel. left; reflexivity.
Qed.

(* ---- sealing the tail in the metadata ---- *)
Lemma lv_bases_lt {c nb w d S t f tw} (V : lview c nb w d S t f tw) :
  Forall (fun s => si_base s < si_base t) S.
Proof.
  eapply DIs_bases_lt; [apply (lv_dis _ _ _ _ _ _ _ _ V)|apply (lv_meta _ _ _ _ _ _ _ _ V)|reflexivity].
Qed.

Lemma lv_tail_es {c nb w d S t f tw} (V : lview c nb w d S t f tw) :
  tail_es d t = skipn (N.to_nat (si_min t - si_base t)) (df_ents f).
Proof.
  unfold tail_es, file_ents. rewrite (lv_file _ _ _ _ _ _ _ _ V). unfold cur_ents.
  rewrite (lv_pend _ _ _ _ _ _ _ _ V). reflexivity.
Qed.

Lemma seal_tail_facts {c nb w d S t f tw} (V : lview c nb w d S t f tw) mx istart :
  df_seal f <> 0 -> si_min t <= mx -> mx <= tl_of (si_base t) (df_ents f) ->
  let t' := seal_info t mx istart in
  Forall (seg_wf c (st_next_id w)) (S ++ [t']) /\ Forall (sealed_ok d) (S ++ [t']) /\
  (forall si, si_base si = mx + 1 -> si_min si = si_base si -> linked ((S ++ [t']) ++ [si])) /\
  Forall (fun x => si_base x < mx + 1) (S ++ [t']) /\
  sealed_es d (S ++ [t']) = sealed_es d S ++ firstn (N.to_nat (mx - si_min t + 1)) (tail_es d t) /\
  (forall si, hd_min (S ++ [t']) si = hd_min S t) /\ mx + 1 < two64.
Proof.
  intros Hse Hmin Hmx t'.
  pose proof (lv_twf V) as Htwf. pose proof Htwf as (_ & _ & Hb1 & _ & Hbm & _).
  pose proof (lv_tok _ _ _ _ _ _ _ _ V) as Htok. pose proof (lv_file _ _ _ _ _ _ _ _ V) as Hf.
  pose proof (lv_pend _ _ _ _ _ _ _ _ V) as Hp.
  pose proof (lv_wf _ _ _ _ _ _ _ _ V) as Hwf. apply Forall_app in Hwf. destruct Hwf as (Hwf1 & _).
  assert (Htl : tl_of (si_base t) (df_ents f) = si_base t + llen (df_ents f) - 1 /\ 0 < llen (df_ents f)).
  { pose proof Htok as (_ & Ht'). rewrite Hf in Ht'. destruct Ht' as ((_ & _ & _ & _ & F5) & _).
    specialize (F5 Hse). apply llen_pos in F5. unfold tl_of. destruct (llen (df_ents f) =? 0) eqn:Z; [lia|]. split; [reflexivity|lia]. }
  destruct Htl as (Htl & Hn0). rewrite Htl in Hmx.
  assert (Hbound : si_base t + llen (df_ents f) < two64).
  { pose proof Htok as (_ & Ht'). rewrite Hf in Ht'. destruct Ht' as (_ & _ & _ & _ & _ & Hb).
    unfold cur_ents in Hb. rewrite Hp in Hb. exact Hb. }
  assert (Hsok : sealed_ok d t') by (eapply sealed_ok_of_tail; eauto; lia).
  split; [apply Forall_app; split; [exact Hwf1|constructor; [apply seal_info_wf; exact Htwf|constructor]]|].
  split; [apply Forall_app; split; [apply (lv_sealed _ _ _ _ _ _ _ _ V)|constructor; [exact Hsok|constructor]]|].
  split.
  { intros si Hb Hm. rewrite <- app_assoc. cbn [app]. apply linked_snoc; [|exact Hb|exact Hm].
    eapply linked_replace_last; [apply (lv_linked _ _ _ _ _ _ _ _ V)|reflexivity|reflexivity]. }
  split.
  { apply Forall_app. split.
    - eapply Forall_impl; [|apply (lv_bases_lt V)]. intros s Hs. cbn beta in Hs. lia.
    - constructor; [change (si_base t') with (si_base t); lia|constructor]. }
  split.
  { unfold sealed_es at 1. rewrite flat_map_app. cbn [flat_map]. rewrite app_nil_r. fold (sealed_es d S).
    unfold t'. rewrite (seg_visible_seal_info d t mx istart) by lia. reflexivity. }
  split; [intros si; rewrite hd_min_app; unfold hd_min; destruct S; reflexivity|lia].
Qed.

Lemma LInv_nid c nb w d : LInv c nb w d -> st_next_id w <= nb.
Proof.
  intros (_ & _ & HD & _ & Hm & _). apply (DIs_unfold c nb d _ Hm) in HD. destruct HD as (_ & H & _). exact H.
Qed.

(* ---- the background rotation ---- *)
Lemma rotate_ok c nb w e istart :
  cfg_ok c -> LInv c nb w (e_disk e) -> e_fault e = None -> nb + 1 < two64 ->
  st_rotate w = Some istart ->
  exists w' e', rotate c w e = (w', e') /\ LInv c (nb + 1) w' (e_disk e') /\ st_rotate w' = None /\
                sp_of (e_disk e') = sp_of (e_disk e) /\
                ext (DP c (nb + 1) (eq (sp_of (e_disk e)))) e e'.
Proof.
  intros Hc HL Hf Hnb Hrot. set (d := e_disk e) in *.
  assert (HL1 : LInv c (nb + 1) w d) by (eapply LInv_mono; [|exact HL]; lia).
  destruct (LInv_view _ _ _ _ HL1) as (S & t & f & tw & V).
  pose proof (lv_rot _ _ _ _ _ _ _ _ V) as Hr. rewrite Hrot in Hr.
  destruct (0 <? df_seal f) eqn:Es; [|discriminate]. inversion Hr; subst istart.
  assert (Hse : df_seal f <> 0) by lia.
  pose proof (lv_min_cond V) as Hmc.
  set (mx := tl_of (si_base t) (df_ents f)).
  assert (Hn0 : 0 < llen (df_ents f)).
  { pose proof (lv_tok _ _ _ _ _ _ _ _ V) as (_ & Ht'). rewrite (lv_file _ _ _ _ _ _ _ _ V) in Ht'.
    destruct Ht' as ((_ & _ & _ & _ & F5) & _). apply llen_pos. apply F5. exact Hse. }
  assert (Hmx : mx = si_base t + llen (df_ents f) - 1).
  { unfold mx, tl_of. destruct (llen (df_ents f) =? 0) eqn:Z; [lia|reflexivity]. }
  assert (Hmin : si_min t <= mx). { destruct (llen (df_ents f) =? 0) eqn:Z; lia. }
  destruct (seal_tail_facts V mx (df_seal f) Hse Hmin ltac:(unfold mx; lia)) as (F1 & F2 & F3 & F4 & F5 & F6 & F7).
  set (t' := seal_info t mx (df_seal f)) in *.
  set (si := new_segment c (st_next_id w) (mx + 1)).
  unfold rotate. rewrite Hrot, (lv_closed _ _ _ _ _ _ _ _ V), (lv_segs _ _ _ _ _ _ _ _ V), tail_info_app.
  rewrite (lv_tail_last V). fold mx. fold (seal_info t mx (df_seal f)). fold t'.
  rewrite (seg_set_last t' S t (lv_bases_lt V) eq_refl).
  unfold create_next. rewrite tail_info_app. change (si_max t') with mx.
  rewrite (N.mod_small (mx + 1) two64) by lia.
  pose proof (LInv_nid _ _ _ _ HL) as Hnid.
  rewrite (N.mod_small (st_next_id w + 1) two64) by lia.
  fold si. rewrite (seg_set_snoc si (S ++ [t']) F4).
  set (w0 := {| st_next_id := st_next_id w; st_segs := S ++ [t]; st_tail := st_tail w; st_rotate := None;
                st_failed := st_failed w; st_closed := false |}).
  set (e0 := add_m e _).
  set (a := sp_of d).
  assert (He0 : ext (DP c (nb + 1) (eq a)) e e0).
  { apply ext_add_m. apply ext_refl; [exact Hf|]. eapply LInv_DP; [exact HL1|reflexivity]. }
  assert (Hd0 : e_disk e0 = d) by reflexivity.
  destruct (mutate_newtail_ok c (nb + 1) (eq a) false w0 e e0 (st_next_id w) (S ++ [t']) (mx + 1) [] Hc He0)
    as (w' & e' & Hmut & He' & HL' & Hs' & Hr' & _).
  - rewrite Hd0. apply (lv_nopend _ _ _ _ _ _ _ _ V).
  - reflexivity.
  - apply (lv_failed _ _ _ _ _ _ _ _ V).
  - reflexivity.
  - rewrite Hd0. intros ps E. rewrite (lv_meta _ _ _ _ _ _ _ _ V) in E. inversion E. cbn. lia.
  - lia.
  - exact F1.
  - rewrite Hd0. exact F2.
  - lia.
  - lia.
  - apply F3; reflexivity.
  - intros n [].
  - rewrite Hd0. fold si. rewrite F6, F5.
    rewrite firstn_all2.
    + unfold a, sp_of. f_equal. rewrite (lv_read _ _ _ _ _ _ _ _ V), (lv_tail_es V). reflexivity.
    + rewrite (lv_tail_es V), skipn_length. unfold llen in *. lia.
  - unfold mutate. fold si in Hmut. rewrite Hmut. exists w', e'. split; [reflexivity|]. split; [exact HL'|].
    split; [exact Hr'|]. split; [|exact He'].
    rewrite Hs'. rewrite Hd0. fold si. rewrite F6, F5. rewrite firstn_all2.
    + unfold a, sp_of. f_equal. rewrite (lv_read _ _ _ _ _ _ _ _ V), (lv_tail_es V). reflexivity.
    + rewrite (lv_tail_es V), skipn_length. unfold llen in *. lia.
Qed.
