(* FaultSim.v -- lock-step simulation used by the fault-safety proof (C10).
   A run of a WAL operation with an armed I/O fault on the real disk is compared
   with the fault-free run of the same operation on a "shadow" disk that differs
   from the real one only in what no operation ever reads: directory-durability
   flags, and a stale unsynced batch (left behind a failed fsync) in one file.
   Either both runs agree, or the real run failed at an I/O action and its disk is
   related to a disk the shadow run passes through. *)
From RW Require Import Base.Bytes Base.BytesFacts Fmt.Codec Fmt.Frame Wal.Model Wal.Spec Wal.Hist
  Wal.CrashInv Wal.CrashFacts0 Wal.CrashFacts1 Wal.CrashFacts2 Wal.CrashFacts3 Wal.CrashFacts4 Gen.Constants.
From Coq Require Import ZifyN ZifyNat ZifyBool.
Open Scope N_scope.

(* ------------------------------------------------------------------ *)
(* related files and disks                                              *)
Definition frel (f g : dfile) : Prop :=
  df_ents f = df_ents g /\ df_end f = df_end g /\ df_seal f = df_seal g /\ df_size f = df_size g /\
  (df_pend f = df_pend g \/ df_pend g = None).

Definition lrel (l lc : list (fname * dfile)) : Prop :=
  Forall2 (fun a b => fst a = fst b /\ frel (snd a) (snd b)) l lc.

(* [o] = the only file name whose pending batch may differ *)
Definition drel (o : option fname) (d dc : disk) : Prop :=
  lrel (dk_files d) (dk_files dc) /\ dk_meta d = dk_meta dc /\ dk_stable d = dk_stable dc /\
  dk_inited d = dk_inited dc /\ NoDup (map fst (dk_files dc)) /\
  (forall n f g, lookup n (dk_files d) = Some f -> lookup n (dk_files dc) = Some g -> o <> Some n ->
                 df_pend f = df_pend g).

Lemma frel_refl f : frel f f.
Proof. unfold frel. auto 10. Qed.

Lemma lrel_refl l : lrel l l.
Proof. induction l as [|a l IH]; constructor; [split; [reflexivity|apply frel_refl]|exact IH]. Qed.

Lemma drel_refl o d : NoDup (map fst (dk_files d)) -> drel o d d.
Proof.
  intros ND. split; [apply lrel_refl|]. repeat split; auto. intros n f g H1 H2 _. congruence.
Qed.

Lemma lrel_keys l lc : lrel l lc -> map fst l = map fst lc.
Proof. induction 1 as [|a b l lc (H & _) _ IH]; cbn; [reflexivity|]. rewrite H, IH. reflexivity. Qed.

Lemma lrel_lookup n l lc : lrel l lc ->
  match lookup n l, lookup n lc with
  | Some f, Some g => frel f g
  | None, None => True
  | _, _ => False
  end.
Proof.
  induction 1 as [|[m f] [m' g] l lc (H & Hf) _ IH]; cbn [lookup]; [exact I|].
  cbn [fst snd] in *. subst m'. destruct (fname_eqb n m); [exact Hf|exact IH].
Qed.

Lemma lrel_lookup_some n l lc f : lrel l lc -> lookup n l = Some f -> exists g, lookup n lc = Some g /\ frel f g.
Proof.
  intros H E. pose proof (lrel_lookup n l lc H) as K. rewrite E in K.
  destruct (lookup n lc) as [g|]; [exists g; auto|destruct K].
Qed.
Lemma lrel_lookup_some_r n l lc g : lrel l lc -> lookup n lc = Some g -> exists f, lookup n l = Some f /\ frel f g.
Proof.
  intros H E. pose proof (lrel_lookup n l lc H) as K. rewrite E in K.
  destruct (lookup n l) as [f|]; [exists f; auto|destruct K].
Qed.
Lemma lrel_lookup_none n l lc : lrel l lc -> lookup n l = None <-> lookup n lc = None.
Proof.
  intros H. pose proof (lrel_lookup n l lc H) as K.
  destruct (lookup n l), (lookup n lc); split; intros; try reflexivity; try discriminate; destruct K.
Qed.

Lemma lrel_update n f g l lc : lrel l lc -> frel f g -> lrel (update n f l) (update n g lc).
Proof.
  induction 1 as [|[m f0] [m' g0] l lc (H & Hf) Hr IH]; intros Hfg; cbn [update].
  - constructor; [split; [reflexivity|exact Hfg]|constructor].
  - cbn [fst snd] in *. subst m'. destruct (fname_eqb n m).
    + constructor; [split; [reflexivity|exact Hfg]|exact Hr].
    + constructor; [split; [reflexivity|exact Hf]|apply IH; exact Hfg].
Qed.

Lemma lrel_remove n l lc : lrel l lc -> lrel (remove n l) (remove n lc).
Proof.
  induction 1 as [|[m f0] [m' g0] l lc (H & Hf) Hr IH]; cbn [remove]; [constructor|].
  cbn [fst snd] in *. subst m'. destruct (fname_eqb n m); [exact Hr|].
  constructor; [split; [reflexivity|exact Hf]|exact IH].
Qed.

Lemma drel_weaken o d dc : drel None d dc -> drel o d dc.
Proof.
  intros (H1 & H2 & H3 & H4 & H5 & H6). repeat split; auto. intros n f g A B _. apply (H6 n f g A B). discriminate.
Qed.

Lemma drel_NoDup o d dc : drel o d dc -> NoDup (map fst (dk_files d)).
Proof. intros (H1 & _ & _ & _ & H5 & _). rewrite (lrel_keys _ _ H1). exact H5. Qed.

Lemma drel_lookup_none o d dc n : drel o d dc -> lookup n (dk_files d) = None <-> lookup n (dk_files dc) = None.
Proof. intros (H1 & _). apply lrel_lookup_none. exact H1. Qed.

(* ------------------------------------------------------------------ *)
(* actions preserve the relation                                        *)
Definition simple_act (a : act) : Prop :=
  match a with AWrite _ _ _ _ | ASync _ => False | _ => True end.

Lemma drel_act_simple o d dc a : simple_act a -> drel o d dc -> drel o (apply_act d a) (apply_act dc a).
Proof.
  intros Hs (H1 & H2 & H3 & H4 & H5 & H6).
  destruct a as [n sz|n off l b|n|n|ps|k v| |a']; try destruct Hs; cbn [apply_act].
  - (* create *)
    split; [cbn [dk_files]; apply lrel_update; [exact H1|apply frel_refl]|]. cbn [dk_files dk_meta dk_stable dk_inited].
    repeat split; auto; [apply update_NoDup; exact H5|].
    intros m f g A B Hne. rewrite lookup_update in A, B. destruct (fname_eqb m n); [congruence|].
    apply (H6 m f g A B Hne).
  - (* delete *)
    split; [cbn [dk_files]; apply lrel_remove; exact H1|]. cbn [dk_files dk_meta dk_stable dk_inited].
    repeat split; auto; [apply remove_NoDup; exact H5|].
    intros m f g A B Hne. pose proof H5 as H5'. rewrite <- (lrel_keys _ _ H1) in H5'.
    rewrite lookup_remove in A by exact H5'. rewrite lookup_remove in B by exact H5.
    destruct (fname_eqb m n); [discriminate|]. apply (H6 m f g A B Hne).
  - repeat split; auto.
  - repeat split; cbn; auto. congruence.
  - repeat split; auto.
  - repeat split; auto.
Qed.

(* deleting the possibly stale file makes the relation strict *)
Lemma drel_delete_stale n d dc : drel (Some n) d dc -> drel None (apply_act d (ADelete n)) (apply_act dc (ADelete n)).
Proof.
  intros (H1 & H2 & H3 & H4 & H5 & H6). cbn [apply_act].
  split; [cbn [dk_files]; apply lrel_remove; exact H1|]. cbn [dk_files dk_meta dk_stable dk_inited].
  repeat split; auto; [apply remove_NoDup; exact H5|].
  intros m f g A B _. pose proof H5 as H5'. rewrite <- (lrel_keys _ _ H1) in H5'.
  rewrite lookup_remove in A by exact H5'. rewrite lookup_remove in B by exact H5.
  destruct (fname_eqb m n) eqn:E; [discriminate|]. apply (H6 m f g A B).
  intros K. inversion K; subst. rewrite fname_eqb_refl in E. discriminate.
Qed.

(* a write whose offset is not the end of a stale batch *)
Definition wguard (d : disk) (n : fname) (off : N) : Prop :=
  forall f p, lookup n (dk_files d) = Some f -> df_pend f = Some p -> off <> pb_end p.

Definition clr (o : option fname) (n : fname) : option fname :=
  match o with Some m => if fname_eqb m n then None else o | None => None end.

Lemma clr_spec o n m : clr o n <> Some m -> o <> Some m \/ m = n.
Proof.
  unfold clr. destruct o as [k|]; [|left; discriminate].
  destruct (fname_eqb k n) eqn:E; [|left; exact (fun x => H x)].
  apply fname_eqb_eq in E. subst k. intros _.
  destruct (fname_eqb m n) eqn:E2; [right; apply fname_eqb_eq; exact E2|left].
  intros K. inversion K; subst. rewrite fname_eqb_refl in E2. discriminate.
Qed.

Lemma drel_write o d dc n off l b :
  drel o d dc -> (o = Some n -> wguard d n off) ->
  drel (clr o n) (apply_act d (AWrite n off l b)) (apply_act dc (AWrite n off l b)).
Proof.
  intros (H1 & H2 & H3 & H4 & H5 & H6) Hg. cbn [apply_act].
  pose proof (lrel_lookup n _ _ H1) as K.
  destruct (lookup n (dk_files d)) as [f|] eqn:Ef, (lookup n (dk_files dc)) as [g|] eqn:Eg; [|destruct K|destruct K|].
  - destruct K as (K1 & K2 & K3 & K4 & K5).
    assert (Hb : match df_pend f with
                 | Some p => if off =? pb_end p then {| pb_ents := pb_ents p ++ pb_ents b; pb_end := pb_end b; pb_seal := pb_seal b |} else b
                 | None => b end =
                 match df_pend g with
                 | Some p => if off =? pb_end p then {| pb_ents := pb_ents p ++ pb_ents b; pb_end := pb_end b; pb_seal := pb_seal b |} else b
                 | None => b end).
    { destruct K5 as [K5|K5]; [rewrite K5; reflexivity|].
      rewrite K5. destruct (df_pend f) as [p|] eqn:Ep; [|reflexivity].
      assert (Ho : o = Some n).
      { destruct o as [m|].
        - destruct (fname_eqb m n) eqn:E; [apply fname_eqb_eq in E; congruence|].
          exfalso. assert (Hne : Some m <> Some n) by (intros X; inversion X; subst; rewrite fname_eqb_refl in E; discriminate).
          specialize (H6 n f g Ef Eg Hne). congruence.
        - exfalso. specialize (H6 n f g Ef Eg ltac:(discriminate)). congruence. }
      specialize (Hg Ho f p Ef Ep). replace (off =? pb_end p) with false by lia. reflexivity. }
    split; [cbn [dk_files]; apply lrel_update; [exact H1|]|].
    { unfold frel. cbn [df_ents df_end df_seal df_size df_pend]. repeat split; auto. left. rewrite Hb. reflexivity. }
    cbn [dk_files dk_meta dk_stable dk_inited]. repeat split; auto; [apply update_NoDup; exact H5|].
    intros m f' g' A B Hne. rewrite lookup_update in A, B. destruct (fname_eqb m n) eqn:E.
    + inversion A; inversion B; subst. cbn [df_pend]. rewrite Hb. reflexivity.
    + apply (H6 m f' g' A B). destruct (clr_spec o n m Hne) as [X|X]; [exact X|].
      subst m. rewrite fname_eqb_refl in E. discriminate.
  - repeat split; auto. intros m f' g' A B Hne. apply (H6 m f' g' A B).
    destruct (clr_spec o n m Hne) as [X|X]; [exact X|]. subst m. congruence.
Qed.

Lemma drel_sync o d dc n :
  drel o d dc -> o <> Some n -> drel o (apply_act d (ASync n)) (apply_act dc (ASync n)).
Proof.
  intros (H1 & H2 & H3 & H4 & H5 & H6) Hne. cbn [apply_act].
  pose proof (lrel_lookup n _ _ H1) as K.
  destruct (lookup n (dk_files d)) as [f|] eqn:Ef, (lookup n (dk_files dc)) as [g|] eqn:Eg; [|destruct K|destruct K|].
  - destruct K as (K1 & K2 & K3 & K4 & _). pose proof (H6 n f g Ef Eg Hne) as K5.
    assert (Hfr : frel (match df_pend f with
                    | None => {| df_ents := df_ents f; df_end := df_end f; df_seal := df_seal f; df_pend := None; df_dir := true; df_size := df_size f |}
                    | Some b => {| df_ents := df_ents f ++ pb_ents b; df_end := pb_end b; df_seal := pb_seal b; df_pend := None; df_dir := true; df_size := df_size f |} end)
                   (match df_pend g with
                    | None => {| df_ents := df_ents g; df_end := df_end g; df_seal := df_seal g; df_pend := None; df_dir := true; df_size := df_size g |}
                    | Some b => {| df_ents := df_ents g ++ pb_ents b; df_end := pb_end b; df_seal := pb_seal b; df_pend := None; df_dir := true; df_size := df_size g |} end)).
    { rewrite K5. destruct (df_pend g); unfold frel; cbn; repeat split; auto; congruence. }
    split; [cbn [dk_files]; apply lrel_update; [exact H1|exact Hfr]|].
    cbn [dk_files dk_meta dk_stable dk_inited]. repeat split; auto; [apply update_NoDup; exact H5|].
    intros m f' g' A B Hne'. rewrite lookup_update in A, B. destruct (fname_eqb m n) eqn:E.
    + inversion A; inversion B; subst. rewrite K5. destruct (df_pend g); reflexivity.
    + apply (H6 m f' g' A B Hne').
  - repeat split; auto.
Qed.

(* ------------------------------------------------------------------ *)
(* environments                                                         *)
Definition R (o : option fname) (e ec : env) : Prop :=
  drel o (e_disk e) (e_disk ec) /\ e_fault ec = None.

(* the shadow run: what it appended to the history, and its final disk *)
Definition aext (ec0 ec1 : env) : Prop :=
  exists acts, e_acts ec1 = rev acts ++ e_acts ec0 /\ e_disk ec1 = fold_left apply_act acts (e_disk ec0).

(* a disk the shadow run ec0 ~> ecN passes through *)
Definition pfx (ec0 ecN : env) (dm : disk) : Prop :=
  exists a1 a2, e_acts ecN = rev a2 ++ rev a1 ++ e_acts ec0 /\ dm = fold_left apply_act a1 (e_disk ec0).

Lemma aext_refl e : aext e e.
Proof. exists []. split; reflexivity. Qed.
Lemma aext_trans e0 e1 e2 : aext e0 e1 -> aext e1 e2 -> aext e0 e2.
Proof.
  intros (a1 & A1 & D1) (a2 & A2 & D2). exists (a1 ++ a2). split.
  - rewrite A2, A1, rev_app_distr, app_assoc. reflexivity.
  - rewrite fold_left_app, <- D1. exact D2.
Qed.
Lemma aext_io a e : aext e (io_env a e).
Proof. exists [a]. split; reflexivity. Qed.
Lemma aext_with_m e m : aext e (with_m e m).
Proof. exists []. split; reflexivity. Qed.
Lemma aext_add_m e f : aext e (add_m e f).
Proof. apply aext_with_m. Qed.

Lemma pfx_start e0 eN : aext e0 eN -> pfx e0 eN (e_disk e0).
Proof. intros (a & A & _). exists [], a. split; [exact A|reflexivity]. Qed.
Lemma pfx_end e0 eN : aext e0 eN -> pfx e0 eN (e_disk eN).
Proof. intros (a & A & D). exists a, []. split; [exact A|exact D]. Qed.
Lemma pfx_shift e0 e1 eN d : aext e0 e1 -> pfx e1 eN d -> pfx e0 eN d.
Proof.
  intros (a & A & D) (a1 & a2 & A' & D'). exists (a ++ a1), a2. split.
  - rewrite A', A, rev_app_distr, <- !app_assoc. reflexivity.
  - rewrite fold_left_app, <- D. exact D'.
Qed.
Lemma pfx_more e0 e1 e2 d : pfx e0 e1 d -> aext e1 e2 -> pfx e0 e2 d.
Proof.
  intros (a1 & a2 & A & D) (a & A' & _). exists a1, (a2 ++ a). split; [|exact D].
  rewrite A', A, rev_app_distr, <- !app_assoc. reflexivity.
Qed.

Lemma ext_aext P e0 e1 : ext P e0 e1 -> aext e0 e1.
Proof. intros (_ & acts & A & _ & D & _). exists acts. auto. Qed.

Lemma ext_pfx (P : disk -> Prop) e0 eN d : ext P e0 eN -> pfx e0 eN d -> P d.
Proof.
  intros (_ & acts & A & _ & _ & Hp) (a1 & a2 & A' & D). subst d.
  rewrite A in A'. rewrite app_assoc in A'. apply app_inv_tail in A'.
  rewrite <- rev_app_distr in A'. apply (f_equal (@rev act)) in A'. rewrite !rev_involutive in A'. subst acts.
  specialize (Hp (length a1)). rewrite firstn_app, firstn_all, Nat.sub_diag in Hp. cbn in Hp. rewrite app_nil_r in Hp. exact Hp.
Qed.

(* ------------------------------------------------------------------ *)
(* one I/O action                                                       *)
Lemma io_cases a e :
  (exists e', io a e = (true, e') /\ e_disk e' = apply_act (e_disk e) a /\ e_acts e' = a :: e_acts e /\ e_m e' = e_m e /\
              (e_fault e = None -> e_fault e' = None)) \/
  (is_delete a = false /\ exists e', io a e = (false, e') /\ e_disk e' = e_disk e /\ e_fault e' = None /\ e_m e' = e_m e).
Proof.
  unfold io. destruct (is_delete a) eqn:Ed.
  - left. eexists. split; [reflexivity|]. cbn. auto.
  - destruct (e_fault e) as [[|k]|].
    + right. split; [reflexivity|]. eexists. split; [reflexivity|]. cbn. auto.
    + left. eexists. split; [reflexivity|]. cbn. repeat split; auto. discriminate.
    + left. eexists. split; [reflexivity|]. cbn. auto.
Qed.

Lemma drel_clr_weaken o n d dc : drel (clr o n) d dc -> drel o d dc.
Proof.
  intros (H1 & H2 & H3 & H4 & H5 & H6). repeat split; auto. intros m f g A B Hne. apply (H6 m f g A B).
  unfold clr. destruct o as [k|]; [|discriminate]. destruct (fname_eqb k n); [discriminate|exact Hne].
Qed.

Lemma R_clr_weaken o n e ec : R (clr o n) e ec -> R o e ec.
Proof. intros (H & F). split; [eapply drel_clr_weaken; eauto|exact F]. Qed.

Lemma R_weaken o e ec : R None e ec -> R o e ec.
Proof. intros (H & F). split; [apply drel_weaken; exact H|exact F]. Qed.

Lemma R_add_m o e ec f g : R o e ec -> R o (add_m e f) (add_m ec g).
Proof. intros H. exact H. Qed.

Lemma io_env_fault a e : e_fault (io_env a e) = None. Proof. reflexivity. Qed.

Lemma io_lock o a e ec : R o e ec -> simple_act a ->
  io a ec = (true, io_env a ec) /\
  ((exists e', io a e = (true, e') /\ R o e' (io_env a ec)) \/
   (exists e', io a e = (false, e') /\ e_disk e' = e_disk e /\ e_fault e' = None)).
Proof.
  intros (Hd & Hf) Hs. split; [apply io_ok; exact Hf|].
  destruct (io_cases a e) as [(e' & E & D & _)|(_ & e' & E & D & F & _)].
  - left. exists e'. split; [exact E|]. split; [|reflexivity]. rewrite D. cbn [io_env e_disk].
    apply drel_act_simple; assumption.
  - right. exists e'. auto.
Qed.

Lemma io_lock_write o n off l b e ec : R o e ec -> (o = Some n -> wguard (e_disk e) n off) ->
  io (AWrite n off l b) ec = (true, io_env (AWrite n off l b) ec) /\
  ((exists e', io (AWrite n off l b) e = (true, e') /\ R (clr o n) e' (io_env (AWrite n off l b) ec)) \/
   (exists e', io (AWrite n off l b) e = (false, e') /\ e_disk e' = e_disk e /\ e_fault e' = None)).
Proof.
  intros (Hd & Hf) Hg. split; [apply io_ok; exact Hf|].
  destruct (io_cases (AWrite n off l b) e) as [(e' & E & D & _)|(_ & e' & E & D & F & _)].
  - left. exists e'. split; [exact E|]. split; [|reflexivity]. rewrite D. cbn [io_env e_disk].
    apply drel_write; assumption.
  - right. exists e'. auto.
Qed.

Lemma io_lock_sync o n e ec : R o e ec -> o <> Some n ->
  io (ASync n) ec = (true, io_env (ASync n) ec) /\
  ((exists e', io (ASync n) e = (true, e') /\ R o e' (io_env (ASync n) ec)) \/
   (exists e', io (ASync n) e = (false, e') /\ e_disk e' = e_disk e /\ e_fault e' = None)).
Proof.
  intros (Hd & Hf) Hg. split; [apply io_ok; exact Hf|].
  destruct (io_cases (ASync n) e) as [(e' & E & D & _)|(_ & e' & E & D & F & _)].
  - left. exists e'. split; [exact E|]. split; [|reflexivity]. rewrite D. cbn [io_env e_disk].
    apply drel_sync; assumption.
  - right. exists e'. auto.
Qed.

Lemma clr_not o n : clr o n <> Some n.
Proof.
  unfold clr. destruct o as [k|]; [|discriminate]. destruct (fname_eqb k n) eqn:E; [discriminate|].
  intros K. inversion K; subst. rewrite fname_eqb_refl in E. discriminate.
Qed.

(* ------------------------------------------------------------------ *)
(* deletions never fail                                                 *)
Lemma delete_files_lock o ns : forall e ec, R o e ec ->
  R o (delete_files ns e) (delete_files ns ec) /\ aext ec (delete_files ns ec) /\
  e_fault (delete_files ns e) = e_fault e /\
  e_disk (delete_files ns e) = del_disk ns (e_disk e) /\
  e_disk (delete_files ns ec) = del_disk ns (e_disk ec) /\
  (forall n, o = Some n -> In n ns -> R None (delete_files ns e) (delete_files ns ec)).
Proof.
  revert o. induction ns as [|n ns IH]; intros o e ec HR.
  - cbn. split; [exact HR|]. split; [apply aext_refl|]. split; [reflexivity|]. split; [reflexivity|]. split; [reflexivity|]. intros m _ [].
  - unfold delete_files. cbn [fold_left]. fold (delete_files ns (snd (io (ADelete n) e))).
    fold (delete_files ns (snd (io (ADelete n) ec))).
    destruct HR as (Hd & Hf).
    assert (E1 : snd (io (ADelete n) ec) = io_env (ADelete n) ec) by (rewrite (io_ok _ _ Hf); reflexivity).
    assert (E2 : e_disk (snd (io (ADelete n) e)) = apply_act (e_disk e) (ADelete n) /\ e_fault (snd (io (ADelete n) e)) = e_fault e).
    { unfold io. cbn [is_delete snd e_disk e_fault]. auto. }
    destruct E2 as (E2 & E3). rewrite E1.
    assert (HR1 : R o (snd (io (ADelete n) e)) (io_env (ADelete n) ec)).
    { split; [|reflexivity]. rewrite E2. cbn [io_env e_disk]. apply drel_act_simple; [exact I|exact Hd]. }
    destruct (IH _ _ _ HR1) as (A1 & A2 & A3 & A4 & A5 & A6).
    split; [exact A1|]. split; [eapply aext_trans; [apply aext_io|exact A2]|].
    split; [rewrite A3; exact E3|]. split; [rewrite A4, E2; reflexivity|]. split; [rewrite A5; reflexivity|].
    intros m Ho [<-|Hin]; [|apply (A6 m Ho Hin)].
    assert (HR2 : R None (snd (io (ADelete n) e)) (io_env (ADelete n) ec)).
    { split; [|reflexivity]. rewrite E2. cbn [io_env e_disk]. apply drel_delete_stale. rewrite <- Ho. exact Hd. }
    destruct (IH _ _ _ HR2) as (B1 & _). exact B1.
Qed.

(* ------------------------------------------------------------------ *)
(* Filer.Create                                                         *)
Lemma seg_create_lock o si e ec sw e' swc ec' : R o e ec ->
  seg_create si e = (sw, e') -> seg_create si ec = (swc, ec') ->
  aext ec ec' /\ e_fault ec' = None /\
  ((sw = swc /\ R o e' ec') \/
   (swc = Some (new_wseg si) /\ sw = None /\ e_disk e' = e_disk e /\ e_fault e' = None /\
    e_disk ec' = apply_act (e_disk ec) (ACreate (name_of si) (si_size_limit si)))).
Proof.
  intros HR. unfold seg_create. destruct (si_base si =? 0).
  - intros E1 E2. inversion E1; inversion E2; subst. split; [apply aext_refl|]. split; [apply HR|]. left. auto.
  - pose proof (drel_lookup_none o _ _ (name_of si) (proj1 HR)) as Hn.
    destruct (lookup (name_of si) (dk_files (e_disk e))) as [f|] eqn:Ef, (lookup (name_of si) (dk_files (e_disk ec))) as [g|] eqn:Eg.
    + destruct (io_lock o (AFail (ACreate (name_of si) (si_size_limit si))) e ec HR I) as (Ec & [(e1 & Er & HR1)|(e1 & Er & D & F)]);
        rewrite Ec, Er; intros E1 E2; inversion E1; inversion E2; subst;
        (split; [apply aext_io|]); (split; [reflexivity|]); left; (split; [reflexivity|]); [exact HR1|].
      split; [|reflexivity]. rewrite D. cbn [io_env e_disk apply_act]. apply HR.
    + exfalso. destruct Hn as (_ & Hn). specialize (Hn eq_refl). discriminate.
    + exfalso. destruct Hn as (Hn & _). specialize (Hn eq_refl). discriminate.
    + destruct (io_lock o (ACreate (name_of si) (si_size_limit si)) e ec HR I) as (Ec & [(e1 & Er & HR1)|(e1 & Er & D & F)]);
        rewrite Ec, Er; intros E1 E2; inversion E1; inversion E2; subst;
        (split; [apply aext_io|]); (split; [reflexivity|]).
      * left. auto.
      * right. auto.
Qed.

(* ------------------------------------------------------------------ *)
(* Writer.Append                                                        *)
Definition append_act (w : wseg) (ls : list log) : act :=
  let n' := ws_n w + llen ls in
  let buf := (if ws_hdr w then 32 else 0) + frames_size ls in
  let seal := ws_limit w <? (ws_off w + (buf + index_frame_size n') mod two32) mod two32 in
  let buf2 := if seal then buf + index_frame_size n' else buf in
  let istart := if seal then ws_off w + buf + 8 else 0 in
  let total := buf2 + 8 in
  AWrite (ws_name w) (ws_off w) total {| pb_ents := ls; pb_end := (ws_off w + total) mod two32; pb_seal := istart |}.

Definition append_wseg (w : wseg) (ls : list log) : wseg :=
  let n' := ws_n w + llen ls in
  let buf := (if ws_hdr w then 32 else 0) + frames_size ls in
  let seal := ws_limit w <? (ws_off w + (buf + index_frame_size n') mod two32) mod two32 in
  let buf2 := if seal then buf + index_frame_size n' else buf in
  let istart := if seal then ws_off w + buf + 8 else 0 in
  let total := buf2 + 8 in
  {| ws_name := ws_name w; ws_base := ws_base w; ws_min := ws_min w;
     ws_limit := ws_limit w; ws_n := n'; ws_off := (ws_off w + total) mod two32;
     ws_hdr := false; ws_index_start := istart; ws_commit_idx := ws_base w + n' - 1 |}.

Lemma seg_append_eq w ls e :
  seg_append w ls e =
  match ls with
  | [] => (ROk, w, e)
  | l0 :: _ =>
      if 0 <? ws_index_start w then (RErrSealed, w, e)
      else if existsb (fun l => MaxEntrySize <? enc_len l) ls then (RErrTooBig, w, e)
      else if negb (l_index l0 =? ws_base w + ws_n w) then (RErrNonMono, w, e)
      else
        let '(ok1, e1) := io (append_act w ls) e in
        if negb ok1 then (RErrIO, w, e1)
        else let '(ok2, e2) := io (ASync (ws_name w)) e1 in
             if negb ok2 then (RErrIO, w, e2)
             else (ROk, append_wseg w ls, e2)
  end.
Proof. destruct ls; reflexivity. Qed.

Lemma append_act_form tw ls : exists l b, append_act tw ls = AWrite (ws_name tw) (ws_off tw) l b.
Proof. unfold append_act. cbv zeta. eexists _, _. reflexivity. Qed.

Lemma seg_append_lock o tw ls e ec r tw' e' rc twc ec' : R o e ec ->
  (o = Some (ws_name tw) -> wguard (e_disk e) (ws_name tw) (ws_off tw)) ->
  seg_append tw ls e = (r, tw', e') -> seg_append tw ls ec = (rc, twc, ec') ->
  aext ec ec' /\ e_fault ec' = None /\
  ((r = rc /\ tw' = twc /\ R o e' ec' /\ (rc = ROk -> ls <> [] -> R (clr o (ws_name tw)) e' ec') /\
    (rc <> ROk -> e' = e /\ ec' = ec /\ tw' = tw)) \/
   (rc = ROk /\ ls <> [] /\ r = RErrIO /\ tw' = tw /\ e_fault e' = None /\
    (exists l0 lr, ls = l0 :: lr /\ l_index l0 = ws_base tw + ws_n tw /\ ws_index_start tw = 0) /\
    (e_disk e' = e_disk e \/
     (drel (clr o (ws_name tw)) (e_disk e') (apply_act (e_disk ec) (append_act tw ls)) /\
      pfx ec ec' (apply_act (e_disk ec) (append_act tw ls)))))).
Proof.
  intros HR Hg. rewrite !seg_append_eq. destruct ls as [|l0 ls'].
  { intros E1 E2. inversion E1; inversion E2; subst. split; [apply aext_refl|]. split; [apply HR|]. left.
    split; [reflexivity|]. split; [reflexivity|]. split; [exact HR|]. split; [intros _ K; congruence|congruence]. }
  set (ls := l0 :: ls') in *.
  destruct (0 <? ws_index_start tw) eqn:Eis.
  { intros E1 E2. inversion E1; inversion E2; subst. split; [apply aext_refl|]. split; [apply HR|]. left.
    split; [reflexivity|]. split; [reflexivity|]. split; [exact HR|]. split; [discriminate|auto]. }
  destruct (existsb _ ls).
  { intros E1 E2. inversion E1; inversion E2; subst. split; [apply aext_refl|]. split; [apply HR|]. left.
    split; [reflexivity|]. split; [reflexivity|]. split; [exact HR|]. split; [discriminate|auto]. }
  destruct (negb (l_index l0 =? ws_base tw + ws_n tw)) eqn:Eidx.
  { intros E1 E2. inversion E1; inversion E2; subst. split; [apply aext_refl|]. split; [apply HR|]. left.
    split; [reflexivity|]. split; [reflexivity|]. split; [exact HR|]. split; [discriminate|auto]. }
  assert (Hfacts : exists l1 lr, ls = l1 :: lr /\ l_index l1 = ws_base tw + ws_n tw /\ ws_index_start tw = 0).
  { exists l0, ls'. split; [reflexivity|]. split; lia. }
  destruct (append_act_form tw ls) as (l & b & Ea). rewrite Ea.
  destruct (io_lock_write o (ws_name tw) (ws_off tw) l b e ec HR Hg) as (Ec & Hr).
  set (a := AWrite (ws_name tw) (ws_off tw) l b) in *.
  rewrite Ec. cbn [negb].
  assert (Ec2' : io (ASync (ws_name tw)) (io_env a ec) = (true, io_env (ASync (ws_name tw)) (io_env a ec))) by (apply io_ok; reflexivity).
  rewrite Ec2'. cbn [negb].
  destruct Hr as [(e1 & Er & HR1)|(e1 & Er & D & F)]; rewrite Er; cbn [negb].
  - destruct (io_lock_sync (clr o (ws_name tw)) (ws_name tw) e1 (io_env a ec) HR1 (clr_not _ _)) as (_ & [(e2 & Er2 & HR2)|(e2 & Er2 & D2 & F2)]);
      rewrite Er2; cbn [negb]; intros E1 E2; inversion E1; inversion E2; subst;
      (split; [eapply aext_trans; apply aext_io|]); (split; [reflexivity|]).
    + left. split; [reflexivity|]. split; [reflexivity|]. split; [apply (R_clr_weaken o (ws_name tw)); exact HR2|].
      split; [intros _ _; exact HR2|congruence].
    + right. split; [reflexivity|]. split; [discriminate|]. split; [reflexivity|]. split; [reflexivity|]. split; [exact F2|].
      split; [exact Hfacts|]. right. rewrite D2. split; [apply HR1|].
      eapply pfx_more; [apply (pfx_end ec (io_env a ec)); apply aext_io|apply aext_io].
  - intros E1 E2; inversion E1; inversion E2; subst.
    split; [eapply aext_trans; apply aext_io|]. split; [reflexivity|].
    right. split; [reflexivity|]. split; [discriminate|]. split; [reflexivity|]. split; [reflexivity|]. split; [exact F|].
    split; [exact Hfacts|]. left. exact D.
Qed.

(* ------------------------------------------------------------------ *)
(* Writer.ForceSeal                                                     *)
Definition force_act (w : wseg) : act :=
  let buf := (if ws_hdr w then 32 else 0) + index_frame_size (ws_n w) in
  let istart := ws_off w + (if ws_hdr w then 32 else 0) + 8 in
  let total := buf + 8 in
  AWrite (ws_name w) (ws_off w) total {| pb_ents := []; pb_end := (ws_off w + total) mod two32; pb_seal := istart |}.

Definition force_wseg (w : wseg) : wseg :=
  let buf := (if ws_hdr w then 32 else 0) + index_frame_size (ws_n w) in
  let istart := ws_off w + (if ws_hdr w then 32 else 0) + 8 in
  let total := buf + 8 in
  {| ws_name := ws_name w; ws_base := ws_base w; ws_min := ws_min w;
     ws_limit := ws_limit w; ws_n := ws_n w; ws_off := (ws_off w + total) mod two32;
     ws_hdr := false; ws_index_start := istart; ws_commit_idx := ws_base w + ws_n w - 1 |}.

Lemma seg_force_seal_eq w e :
  seg_force_seal w e =
  if 0 <? ws_index_start w then (ROk, w, e)
  else if ws_n w =? 0 then (RErrOther, w, e)
  else
    let '(ok1, e1) := io (force_act w) e in
    if negb ok1 then (RErrIO, w, e1)
    else let '(ok2, e2) := io (ASync (ws_name w)) e1 in
         if negb ok2 then (RErrIO, w, e2)
         else (ROk, force_wseg w, e2).
Proof. reflexivity. Qed.

Lemma force_act_form tw : exists l b, force_act tw = AWrite (ws_name tw) (ws_off tw) l b.
Proof. unfold force_act. cbv zeta. eexists _, _. reflexivity. Qed.

Lemma seg_force_seal_lock o tw e ec r tw' e' rc twc ec' : R o e ec ->
  (o = Some (ws_name tw) -> wguard (e_disk e) (ws_name tw) (ws_off tw)) ->
  seg_force_seal tw e = (r, tw', e') -> seg_force_seal tw ec = (rc, twc, ec') ->
  aext ec ec' /\ e_fault ec' = None /\
  ((r = rc /\ tw' = twc /\ R o e' ec' /\ (rc = ROk -> ws_index_start tw = 0 -> R (clr o (ws_name tw)) e' ec') /\
    (rc <> ROk \/ ws_index_start tw <> 0 -> e' = e /\ ec' = ec /\ tw' = tw)) \/
   (rc = ROk /\ ws_index_start tw = 0 /\ ws_n tw <> 0 /\ r = RErrIO /\ tw' = tw /\ e_fault e' = None /\
    (e_disk e' = e_disk e \/
     (drel (clr o (ws_name tw)) (e_disk e') (apply_act (e_disk ec) (force_act tw)) /\
      pfx ec ec' (apply_act (e_disk ec) (force_act tw)))))).
Proof.
  intros HR Hg. rewrite !seg_force_seal_eq.
  destruct (0 <? ws_index_start tw) eqn:Eis.
  { intros E1 E2. inversion E1; inversion E2; subst. split; [apply aext_refl|]. split; [apply HR|]. left.
    split; [reflexivity|]. split; [reflexivity|]. split; [exact HR|]. split; [intros _ K; lia|auto]. }
  destruct (ws_n tw =? 0) eqn:En0.
  { intros E1 E2. inversion E1; inversion E2; subst. split; [apply aext_refl|]. split; [apply HR|]. left.
    split; [reflexivity|]. split; [reflexivity|]. split; [exact HR|]. split; [discriminate|auto]. }
  assert (His : ws_index_start tw = 0) by lia. assert (Hn0 : ws_n tw <> 0) by lia.
  destruct (force_act_form tw) as (l & b & Ea). rewrite Ea.
  destruct (io_lock_write o (ws_name tw) (ws_off tw) l b e ec HR Hg) as (Ec & Hr).
  set (a := AWrite (ws_name tw) (ws_off tw) l b) in *.
  rewrite Ec. cbn [negb].
  assert (Ec2' : io (ASync (ws_name tw)) (io_env a ec) = (true, io_env (ASync (ws_name tw)) (io_env a ec))) by (apply io_ok; reflexivity).
  rewrite Ec2'. cbn [negb].
  destruct Hr as [(e1 & Er & HR1)|(e1 & Er & D & F)]; rewrite Er; cbn [negb].
  - destruct (io_lock_sync (clr o (ws_name tw)) (ws_name tw) e1 (io_env a ec) HR1 (clr_not _ _)) as (_ & [(e2 & Er2 & HR2)|(e2 & Er2 & D2 & F2)]);
      rewrite Er2; cbn [negb]; intros E1 E2; inversion E1; inversion E2; subst;
      (split; [eapply aext_trans; apply aext_io|]); (split; [reflexivity|]).
    + left. split; [reflexivity|]. split; [reflexivity|]. split; [apply (R_clr_weaken o (ws_name tw)); exact HR2|].
      split; [intros _ _; exact HR2|]. intros [K|K]; congruence.
    + right. repeat split; auto; try discriminate. right. rewrite D2. split; [apply HR1|].
      eapply pfx_more; [apply (pfx_end ec (io_env a ec)); apply aext_io|apply aext_io].
  - intros E1 E2; inversion E1; inversion E2; subst.
    split; [eapply aext_trans; apply aext_io|]. split; [reflexivity|].
    right. repeat split; auto; discriminate.
Qed.

(* ------------------------------------------------------------------ *)
(* mutateStateLocked                                                    *)
Definition set_failed (w : wal) : wal :=
  {| st_next_id := st_next_id w; st_segs := st_segs w; st_tail := st_tail w;
     st_rotate := st_rotate w; st_failed := true; st_closed := st_closed w |}.

Definition tx_ps (t : txn) : pstate := {| ps_next_id := tx_next_id t; ps_segs := tx_segs t |}.

(* the fault-free shadow run only extends the history *)
Definition shok (ec ec' : env) : Prop := aext ec ec' /\ e_fault ec' = None.

Lemma shok_refl ec : e_fault ec = None -> shok ec ec.
Proof. intros H. split; [apply aext_refl|exact H]. Qed.
Lemma shok_trans e0 e1 e2 : shok e0 e1 -> shok e1 e2 -> shok e0 e2.
Proof. intros (A & _) (B & F). split; [eapply aext_trans; eauto|exact F]. Qed.
Lemma shok_io a ec : shok ec (io_env a ec).
Proof. split; [apply aext_io|reflexivity]. Qed.
Lemma shok_add_m ec f : e_fault ec = None -> shok ec (add_m ec f).
Proof. intros H. split; [apply aext_add_m|exact H]. Qed.

Lemma sh_seg_create si ec sw ec' : e_fault ec = None -> seg_create si ec = (sw, ec') -> shok ec ec'.
Proof.
  intros Hf. unfold seg_create. destruct (si_base si =? 0); [intros E; inversion E; subst; apply shok_refl; exact Hf|].
  destruct (lookup _ _).
  - rewrite (io_ok _ _ Hf). intros E; inversion E; subst. apply shok_io.
  - rewrite (io_ok _ _ Hf). intros E; inversion E; subst. apply shok_io.
Qed.

Lemma sh_delete_files ns : forall ec, e_fault ec = None -> shok ec (delete_files ns ec).
Proof.
  induction ns as [|n ns IH]; intros ec Hf; [apply shok_refl; exact Hf|].
  unfold delete_files. cbn [fold_left]. fold (delete_files ns (snd (io (ADelete n) ec))).
  rewrite (io_ok _ _ Hf). cbn [snd]. eapply shok_trans; [apply shok_io|apply IH; reflexivity].
Qed.

Lemma sh_seg_append tw ls ec r tw' ec' : e_fault ec = None -> seg_append tw ls ec = (r, tw', ec') -> shok ec ec'.
Proof.
  intros Hf. rewrite seg_append_eq. destruct ls; [intros E; inversion E; subst; apply shok_refl; exact Hf|].
  destruct (0 <? _); [intros E; inversion E; subst; apply shok_refl; exact Hf|].
  destruct (existsb _ _); [intros E; inversion E; subst; apply shok_refl; exact Hf|].
  destruct (negb _); [intros E; inversion E; subst; apply shok_refl; exact Hf|].
  rewrite (io_ok _ _ Hf). cbn [negb]. rewrite (io_ok _ _ (io_env_fault _ _)). cbn [negb].
  intros E; inversion E; subst. eapply shok_trans; apply shok_io.
Qed.

Lemma sh_seg_force_seal tw ec r tw' ec' : e_fault ec = None -> seg_force_seal tw ec = (r, tw', ec') -> shok ec ec'.
Proof.
  intros Hf. rewrite seg_force_seal_eq.
  destruct (0 <? _); [intros E; inversion E; subst; apply shok_refl; exact Hf|].
  destruct (_ =? 0); [intros E; inversion E; subst; apply shok_refl; exact Hf|].
  rewrite (io_ok _ _ Hf). cbn [negb]. rewrite (io_ok _ _ (io_env_fault _ _)). cbn [negb].
  intros E; inversion E; subst. eapply shok_trans; apply shok_io.
Qed.

Lemma sh_mutate_gen defer w t ec r w' ec' dl : e_fault ec = None ->
  mutate_gen defer w t ec = (r, w', ec', dl) -> shok ec ec'.
Proof.
  intros Hf. unfold mutate_gen. rewrite (io_ok _ _ Hf). cbn [negb].
  destruct (tx_create t) as [si|].
  - destruct (seg_create si _) as [sw e2] eqn:Es. pose proof (sh_seg_create _ _ _ _ (io_env_fault _ _) Es) as H2.
    destruct sw; intros E; inversion E; subst.
    + destruct defer; [eapply shok_trans; [apply shok_io|exact H2]|].
      eapply shok_trans; [apply shok_io|]. eapply shok_trans; [exact H2|]. apply sh_delete_files. apply H2.
    + eapply shok_trans; [apply shok_io|exact H2].
  - intros E; inversion E; subst. destruct defer; [apply shok_io|].
    eapply shok_trans; [apply shok_io|]. apply sh_delete_files. reflexivity.
Qed.

Lemma sh_mutate w t ec r w' ec' : e_fault ec = None -> mutate w t ec = (r, w', ec') -> shok ec ec'.
Proof.
  intros Hf. unfold mutate. destruct (mutate_gen false w t ec) as [[[r0 w0] e0] d0] eqn:E.
  intros K; inversion K; subst. eapply sh_mutate_gen; eauto.
Qed.

Lemma mutate_gen_lock o defer w t e ec r w' e' dl rc wc' ec' dlc : R o e ec ->
  mutate_gen defer w t e = (r, w', e', dl) -> mutate_gen defer w t ec = (rc, wc', ec', dlc) ->
  (r = rc /\ w' = wc' /\ dl = dlc /\ R o e' ec' /\
   (rc = ROk -> defer = false -> forall n, o = Some n -> In n (tx_delete t) -> R None e' ec') /\
   (rc <> ROk -> st_failed wc' = true)) \/
  (e_fault e' = None /\ r = RErrIO /\ dl = [] /\
   ((w' = w /\ e_disk e' = e_disk e) \/
    (rc = ROk /\ w' = set_failed w /\ tx_create t <> None /\
     drel o (e_disk e') (apply_act (e_disk ec) (ACommit (tx_ps t))) /\
     pfx ec ec' (apply_act (e_disk ec) (ACommit (tx_ps t))) /\
     dk_meta (e_disk ec') = Some (tx_ps t) /\
     (defer = false -> forall n, In n (tx_delete t) -> lookup n (dk_files (e_disk ec')) = None) /\
     NoDup (map fst (dk_files (e_disk ec')))))).
Proof.
  intros HR. unfold mutate_gen. fold (tx_ps t).
  destruct (io_lock o (ACommit (tx_ps t)) e ec HR I) as (Ec & [(e1 & Er & HR1)|(e1 & Er & D & F)]); rewrite Ec, Er; cbn [negb].
  2:{ intros E1 _. inversion E1; subst. right. auto 10. }
  set (ec1 := io_env (ACommit (tx_ps t)) ec) in *.
  destruct (tx_create t) as [si|] eqn:Etc.
  - destruct (seg_create si e1) as [sw e2] eqn:Es. destruct (seg_create si ec1) as [swc ec2] eqn:Esc.
    destruct (seg_create_lock o si e1 ec1 sw e2 swc ec2 HR1 Es Esc) as (A1 & A2 & [(-> & HR2)|(-> & -> & D & F & Dc)]).
    + destruct swc as [sw|].
      * destruct defer; intros E1 E2; inversion E1; inversion E2; subst; left.
        -- split; [reflexivity|]. split; [reflexivity|]. split; [reflexivity|]. split; [exact HR2|]. split; [discriminate|congruence].
        -- destruct (delete_files_lock o (tx_delete t) e2 ec2 HR2) as (B1 & _ & _ & _ & _ & B6).
           split; [reflexivity|]. split; [reflexivity|]. split; [reflexivity|]. split; [exact B1|].
           split; [intros _ _ n Ho Hin; apply (B6 n Ho Hin)|congruence].
      * intros E1 E2; inversion E1; inversion E2; subst. left.
        split; [reflexivity|]. split; [reflexivity|]. split; [reflexivity|]. split; [exact HR2|]. split; [discriminate|reflexivity].
    + intros E1. inversion E1; subst. intros E2. right.
      split; [exact F|]. split; [reflexivity|]. split; [reflexivity|]. right.
      assert (ND2 : NoDup (map fst (dk_files (e_disk ec2)))).
      { rewrite Dc. cbn [apply_act dk_files]. apply update_NoDup. apply HR1. }
      assert (Hm2 : dk_meta (e_disk ec2) = Some (tx_ps t)) by (rewrite Dc; reflexivity).
      assert (Hsh : shok ec2 ec' /\ rc = ROk /\ dk_meta (e_disk ec') = Some (tx_ps t) /\
                    (defer = false -> forall n, In n (tx_delete t) -> lookup n (dk_files (e_disk ec')) = None) /\
                    NoDup (map fst (dk_files (e_disk ec')))).
      { destruct defer; inversion E2; subst.
        - split; [apply shok_refl; exact A2|]. split; [reflexivity|]. split; [exact Hm2|]. split; [discriminate|exact ND2].
        - split; [apply sh_delete_files; exact A2|]. split; [reflexivity|].
          rewrite (delete_files_disk _ _ A2). destruct (del_disk_meta (tx_delete t) (e_disk ec2)) as (M1 & _).
          split; [rewrite M1; exact Hm2|]. split; [|apply del_disk_NoDup; exact ND2]. intros _ n Hin. rewrite (del_disk_lookup _ _ n ND2).
          replace (mem_name n (tx_delete t)) with true; [reflexivity|]. symmetry. apply mem_name_spec. exact Hin. }
      destruct Hsh as (Hsh & -> & Hm' & Hdel' & ND').
      split; [reflexivity|]. split; [reflexivity|]. split; [discriminate|].
      split; [rewrite D; apply HR1|].
      split; [eapply pfx_more; [apply (pfx_end ec ec1); apply aext_io|]; eapply aext_trans; [exact A1|apply Hsh]|].
      split; [exact Hm'|]. split; [exact Hdel'|exact ND'].
  - destruct defer; intros E1 E2; inversion E1; inversion E2; subst; left.
    + split; [reflexivity|]. split; [reflexivity|]. split; [reflexivity|]. split; [exact HR1|]. split; [discriminate|congruence].
    + destruct (delete_files_lock o (tx_delete t) e1 ec1 HR1) as (B1 & _ & _ & _ & _ & B6).
      split; [reflexivity|]. split; [reflexivity|]. split; [reflexivity|]. split; [exact B1|].
      split; [intros _ _ n Ho Hin; apply (B6 n Ho Hin)|congruence].
Qed.

Lemma mutate_lock o w t e ec r w' e' rc wc' ec' : R o e ec ->
  mutate w t e = (r, w', e') -> mutate w t ec = (rc, wc', ec') ->
  (r = rc /\ w' = wc' /\ R o e' ec' /\
   (rc = ROk -> forall n, o = Some n -> In n (tx_delete t) -> R None e' ec') /\
   (rc <> ROk -> st_failed wc' = true)) \/
  (e_fault e' = None /\ r = RErrIO /\
   ((w' = w /\ e_disk e' = e_disk e) \/
    (rc = ROk /\ w' = set_failed w /\ tx_create t <> None /\
     drel o (e_disk e') (apply_act (e_disk ec) (ACommit (tx_ps t))) /\
     pfx ec ec' (apply_act (e_disk ec) (ACommit (tx_ps t))) /\
     dk_meta (e_disk ec') = Some (tx_ps t) /\
     (forall n, In n (tx_delete t) -> lookup n (dk_files (e_disk ec')) = None) /\
     NoDup (map fst (dk_files (e_disk ec')))))).
Proof.
  intros HR. unfold mutate.
  destruct (mutate_gen false w t e) as [[[r0 w0] e0] d0] eqn:E1.
  destruct (mutate_gen false w t ec) as [[[rc0 wc0] ec0] dc0] eqn:E2.
  intros K1 K2; inversion K1; inversion K2; subst.
  destruct (mutate_gen_lock o false w t e ec _ _ _ _ _ _ _ _ HR E1 E2) as [(A & B & C & D & E & F)|(A & B & C & [D|(D0 & D1 & D2 & D3 & D4 & D5 & D6 & D7)])].
  - left. split; [exact A|]. split; [exact B|]. split; [exact D|]. split; [|exact F]. intros Hr n Ho Hin. apply (E Hr eq_refl n Ho Hin).
  - right. auto.
  - right. split; [exact A|]. split; [exact B|]. right. split; [exact D0|]. split; [exact D1|]. split; [exact D2|].
    split; [exact D3|]. split; [exact D4|]. split; [exact D5|]. split; [apply D6; reflexivity|exact D7].
Qed.
