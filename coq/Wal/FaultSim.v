(* FaultSim.v -- lock-step simulation used by the fault-safety proof (C10).
   A run of a WAL operation with an armed I/O fault on the real disk is compared
   with the fault-free run of the same operation on a "shadow" disk that differs
   from the real one only in what no operation ever reads: directory-durability
   flags, and a stale unsynced batch (left behind a failed fsync) in one file.
   Either both runs agree, or the real run failed at an I/O action and its disk is
   related to a disk the shadow run passes through. *)
From RW Require Import Base.Bytes Base.BytesFacts Fmt.Codec Fmt.Frame Wal.Model Wal.Spec Wal.Hist
  Wal.CrashInv Wal.CrashFacts0 Wal.CrashFacts1 Wal.CrashFacts2 Wal.CrashFacts3 Wal.CrashFacts4 Gen.Constants.
From Coq Require Import ZifyN ZifyNat ZifyBool.
Open Scope N_scope.

(* ------------------------------------------------------------------ *)
(* related files and disks                                              *)
Definition frel (f g : dfile) : Prop :=
  df_ents f = df_ents g /\ df_end f = df_end g /\ df_seal f = df_seal g /\
  (df_pend f = df_pend g \/ df_pend g = None).

Definition lrel (l lc : list (fname * dfile)) : Prop :=
  Forall2 (fun a b => fst a = fst b /\ frel (snd a) (snd b)) l lc.

(* [X] = the file names whose pending batch may differ *)
Definition drel (X : list fname) (d dc : disk) : Prop :=
  lrel (dk_files d) (dk_files dc) /\ dk_meta d = dk_meta dc /\ dk_stable d = dk_stable dc /\
  dk_inited d = dk_inited dc /\ NoDup (map fst (dk_files dc)) /\
  (forall n f g, lookup n (dk_files d) = Some f -> lookup n (dk_files dc) = Some g -> ~ In n X ->
                 df_pend f = df_pend g).

Lemma frel_refl f : frel f f.
Proof. unfold frel. auto 10. Qed.

Lemma lrel_refl l : lrel l l.
Proof. induction l as [|a l IH]; constructor; [split; [reflexivity|apply frel_refl]|exact IH]. Qed.

Lemma drel_refl X d : NoDup (map fst (dk_files d)) -> drel X d d.
Proof.
  intros ND. split; [apply lrel_refl|]. repeat split; auto. intros n f g H1 H2 _. congruence.
Qed.

Lemma lrel_keys l lc : lrel l lc -> map fst l = map fst lc.
Proof. induction 1 as [|a b l lc (H & _) _ IH]; cbn; [reflexivity|]. rewrite H, IH. reflexivity. Qed.

Lemma lrel_lookup n l lc : lrel l lc ->
  match lookup n l, lookup n lc with
  | Some f, Some g => frel f g
  | None, None => True
  | _, _ => False
  end.
Proof.
  induction 1 as [|[m f] [m' g] l lc (H & Hf) _ IH]; cbn [lookup]; [exact I|].
  cbn [fst snd] in *. subst m'. destruct (fname_eqb n m); [exact Hf|exact IH].
Qed.

Lemma lrel_lookup_some n l lc f : lrel l lc -> lookup n l = Some f -> exists g, lookup n lc = Some g /\ frel f g.
Proof.
  intros H E. pose proof (lrel_lookup n l lc H) as K. rewrite E in K.
  destruct (lookup n lc) as [g|]; [exists g; auto|destruct K].
Qed.
Lemma lrel_lookup_some_r n l lc g : lrel l lc -> lookup n lc = Some g -> exists f, lookup n l = Some f /\ frel f g.
Proof.
  intros H E. pose proof (lrel_lookup n l lc H) as K. rewrite E in K.
  destruct (lookup n l) as [f|]; [exists f; auto|destruct K].
Qed.
Lemma lrel_lookup_none n l lc : lrel l lc -> lookup n l = None <-> lookup n lc = None.
Proof.
  intros H. pose proof (lrel_lookup n l lc H) as K.
  destruct (lookup n l), (lookup n lc); split; intros; try reflexivity; try discriminate; destruct K.
Qed.

Lemma lrel_update n f g l lc : lrel l lc -> frel f g -> lrel (update n f l) (update n g lc).
Proof.
  induction 1 as [|[m f0] [m' g0] l lc (H & Hf) Hr IH]; intros Hfg; cbn [update].
  - constructor; [split; [reflexivity|exact Hfg]|constructor].
  - cbn [fst snd] in *. subst m'. destruct (fname_eqb n m).
    + constructor; [split; [reflexivity|exact Hfg]|exact Hr].
    + constructor; [split; [reflexivity|exact Hf]|apply IH; exact Hfg].
Qed.

Lemma lrel_remove n l lc : lrel l lc -> lrel (remove n l) (remove n lc).
Proof.
  induction 1 as [|[m f0] [m' g0] l lc (H & Hf) Hr IH]; cbn [remove]; [constructor|].
  cbn [fst snd] in *. subst m'. destruct (fname_eqb n m); [exact Hr|].
  constructor; [split; [reflexivity|exact Hf]|exact IH].
Qed.

Lemma drel_incl X X' d dc : incl X X' -> drel X d dc -> drel X' d dc.
Proof.
  intros Hi (H1 & H2 & H3 & H4 & H5 & H6). repeat split; auto. intros n f g A B Hn. apply (H6 n f g A B).
  intros K. apply Hn. apply Hi. exact K.
Qed.

Lemma drel_weaken X d dc : drel [] d dc -> drel X d dc.
Proof. apply drel_incl. intros x []. Qed.

Lemma drel_NoDup X d dc : drel X d dc -> NoDup (map fst (dk_files d)).
Proof. intros (H1 & _ & _ & _ & H5 & _). rewrite (lrel_keys _ _ H1). exact H5. Qed.

Lemma drel_lookup_none X d dc n : drel X d dc -> lookup n (dk_files d) = None <-> lookup n (dk_files dc) = None.
Proof. intros (H1 & _). apply lrel_lookup_none. exact H1. Qed.

(* removing a name from the set *)
Definition rem (n : fname) (X : list fname) : list fname := filter (fun m => negb (fname_eqb m n)) X.

Lemma rem_in n X m : In m (rem n X) <-> In m X /\ m <> n.
Proof.
  unfold rem. rewrite filter_In. split; intros (A & B); split; auto.
  - intros ->. rewrite fname_eqb_refl in B. discriminate.
  - apply fname_eqb_neq in B. rewrite B. reflexivity.
Qed.
Lemma rem_not n X : ~ In n (rem n X).
Proof. rewrite rem_in. intros (_ & K). congruence. Qed.
Lemma rem_incl n X : incl (rem n X) X.
Proof. intros m H. apply rem_in in H. apply H. Qed.
Lemma rem_notin n X m : ~ In m (rem n X) -> ~ In m X \/ m = n.
Proof.
  intros H. destruct (fname_eqb m n) eqn:E; [right; apply fname_eqb_eq; exact E|left].
  intros K. apply H. apply rem_in. split; [exact K|]. apply fname_eqb_neq. exact E.
Qed.

(* ------------------------------------------------------------------ *)
(* actions preserve the relation                                        *)
Definition simple_act (a : act) : Prop :=
  match a with AWrite _ _ _ _ | ASync _ => False | _ => True end.

Lemma drel_act_simple X d dc a : simple_act a -> drel X d dc -> drel X (apply_act d a) (apply_act dc a).
Proof.
  intros Hs (H1 & H2 & H3 & H4 & H5 & H6).
  destruct a as [n sz|n off l b|n|n|ps|k v| | |a']; try destruct Hs; cbn [apply_act].
  - (* create *)
    split; [cbn [dk_files]; apply lrel_update; [exact H1|apply frel_refl]|]. cbn [dk_files dk_meta dk_stable dk_inited].
    repeat split; auto; [apply update_NoDup; exact H5|].
    intros m f g A B Hne. rewrite lookup_update in A, B. destruct (fname_eqb m n); [congruence|].
    apply (H6 m f g A B Hne).
  - (* delete *)
    split; [cbn [dk_files]; apply lrel_remove; exact H1|]. cbn [dk_files dk_meta dk_stable dk_inited].
    repeat split; auto; [apply remove_NoDup; exact H5|].
    intros m f g A B Hne. pose proof H5 as H5'. rewrite <- (lrel_keys _ _ H1) in H5'.
    rewrite lookup_remove in A by exact H5'. rewrite lookup_remove in B by exact H5.
    destruct (fname_eqb m n); [discriminate|]. apply (H6 m f g A B Hne).
  - repeat split; auto.
  - repeat split; cbn; auto. congruence.
  - repeat split; auto.
  - repeat split; auto.
  - repeat split; auto.
Qed.

(* a creation that leaves a file of another requested size *)
Lemma drel_create X d dc n sz sz' : drel X d dc -> drel X (apply_act d (ACreate n sz)) (apply_act dc (ACreate n sz')).
Proof.
  intros (H1 & H2 & H3 & H4 & H5 & H6). cbn [apply_act].
  split; [cbn [dk_files]; apply lrel_update; [exact H1|unfold frel; cbn; auto]|]. cbn [dk_files dk_meta dk_stable dk_inited].
  repeat split; auto; [apply update_NoDup; exact H5|].
  intros m f g A B Hne. rewrite lookup_update in A, B. destruct (fname_eqb m n); [inversion A; inversion B; reflexivity|].
  apply (H6 m f g A B Hne).
Qed.

(* deleting a possibly stale file removes it from the set *)
Lemma drel_delete_stale n X d dc : drel X d dc -> drel (rem n X) (apply_act d (ADelete n)) (apply_act dc (ADelete n)).
Proof.
  intros (H1 & H2 & H3 & H4 & H5 & H6). cbn [apply_act].
  split; [cbn [dk_files]; apply lrel_remove; exact H1|]. cbn [dk_files dk_meta dk_stable dk_inited].
  repeat split; auto; [apply remove_NoDup; exact H5|].
  intros m f g A B Hn. pose proof H5 as H5'. rewrite <- (lrel_keys _ _ H1) in H5'.
  rewrite lookup_remove in A by exact H5'. rewrite lookup_remove in B by exact H5.
  destruct (fname_eqb m n) eqn:E; [discriminate|]. apply (H6 m f g A B).
  destruct (rem_notin n X m Hn) as [K|K]; [exact K|]. subst m. rewrite fname_eqb_refl in E. discriminate.
Qed.

(* a write whose offset is not the end of a stale batch *)
Definition wguard (d : disk) (n : fname) (off : N) : Prop :=
  forall f p, lookup n (dk_files d) = Some f -> df_pend f = Some p -> off <> pb_end p.

Lemma drel_write X d dc n off l b :
  drel X d dc -> (In n X -> wguard d n off) ->
  drel (rem n X) (apply_act d (AWrite n off l b)) (apply_act dc (AWrite n off l b)).
Proof.
  intros (H1 & H2 & H3 & H4 & H5 & H6) Hg. cbn [apply_act].
  pose proof (lrel_lookup n _ _ H1) as K.
  destruct (lookup n (dk_files d)) as [f|] eqn:Ef, (lookup n (dk_files dc)) as [g|] eqn:Eg; [|destruct K|destruct K|].
  - destruct K as (K1 & K2 & K3 & K5).
    assert (Hb : match df_pend f with
                 | Some p => if off =? pb_end p then {| pb_ents := pb_ents p ++ pb_ents b; pb_end := pb_end b; pb_seal := pb_seal b |} else b
                 | None => b end =
                 match df_pend g with
                 | Some p => if off =? pb_end p then {| pb_ents := pb_ents p ++ pb_ents b; pb_end := pb_end b; pb_seal := pb_seal b |} else b
                 | None => b end).
    { destruct K5 as [K5|K5]; [rewrite K5; reflexivity|].
      rewrite K5. destruct (df_pend f) as [p|] eqn:Ep; [|reflexivity].
      assert (Ho : In n X).
      { destruct (in_dec (fun a b => match N.eq_dec (fst a) (fst b), N.eq_dec (snd a) (snd b) with
                                       | left e1, left e2 => left (match a, b return fst a = fst b -> snd a = snd b -> a = b with
                                                                   (a1, a2), (b1, b2) => fun p q => f_equal2 pair p q end e1 e2)
                                       | right ne, _ => right (fun E => ne (f_equal fst E))
                                       | _, right ne => right (fun E => ne (f_equal snd E)) end) n X) as [I|NI]; [exact I|].
        exfalso. specialize (H6 n f g Ef Eg NI). congruence. }
      specialize (Hg Ho f p Ef Ep). replace (off =? pb_end p) with false by lia. reflexivity. }
    split; [cbn [dk_files]; apply lrel_update; [exact H1|]|].
    { unfold frel. cbn [df_ents df_end df_seal df_pend]. repeat split; auto. left. rewrite Hb. reflexivity. }
    cbn [dk_files dk_meta dk_stable dk_inited]. repeat split; auto; [apply update_NoDup; exact H5|].
    intros m f' g' A B Hne. rewrite lookup_update in A, B. destruct (fname_eqb m n) eqn:E.
    + inversion A; inversion B; subst. cbn [df_pend]. rewrite Hb. reflexivity.
    + apply (H6 m f' g' A B). destruct (rem_notin n X m Hne) as [Y|Y]; [exact Y|].
      subst m. rewrite fname_eqb_refl in E. discriminate.
  - repeat split; auto. intros m f' g' A B Hne. apply (H6 m f' g' A B).
    destruct (rem_notin n X m Hne) as [Y|Y]; [exact Y|]. subst m. congruence.
Qed.

Lemma drel_sync X d dc n :
  drel X d dc -> ~ In n X -> drel X (apply_act d (ASync n)) (apply_act dc (ASync n)).
Proof.
  intros (H1 & H2 & H3 & H4 & H5 & H6) Hne. cbn [apply_act].
  pose proof (lrel_lookup n _ _ H1) as K.
  destruct (lookup n (dk_files d)) as [f|] eqn:Ef, (lookup n (dk_files dc)) as [g|] eqn:Eg; [|destruct K|destruct K|].
  - destruct K as (K1 & K2 & K3 & _). pose proof (H6 n f g Ef Eg Hne) as K5.
    assert (Hfr : frel (match df_pend f with
                    | None => {| df_ents := df_ents f; df_end := df_end f; df_seal := df_seal f; df_pend := None; df_dir := true; df_size := df_size f |}
                    | Some b => {| df_ents := df_ents f ++ pb_ents b; df_end := pb_end b; df_seal := pb_seal b; df_pend := None; df_dir := true; df_size := df_size f |} end)
                   (match df_pend g with
                    | None => {| df_ents := df_ents g; df_end := df_end g; df_seal := df_seal g; df_pend := None; df_dir := true; df_size := df_size g |}
                    | Some b => {| df_ents := df_ents g ++ pb_ents b; df_end := pb_end b; df_seal := pb_seal b; df_pend := None; df_dir := true; df_size := df_size g |} end)).
    { rewrite K5. destruct (df_pend g); unfold frel; cbn; repeat split; auto; congruence. }
    split; [cbn [dk_files]; apply lrel_update; [exact H1|exact Hfr]|].
    cbn [dk_files dk_meta dk_stable dk_inited]. repeat split; auto; [apply update_NoDup; exact H5|].
    intros m f' g' A B Hne'. rewrite lookup_update in A, B. destruct (fname_eqb m n) eqn:E.
    + inversion A; inversion B; subst. rewrite K5. destruct (df_pend g); reflexivity.
    + apply (H6 m f' g' A B Hne').
  - repeat split; auto.
Qed.

(* ------------------------------------------------------------------ *)
(* environments                                                         *)
Definition R (X : list fname) (e ec : env) : Prop :=
  drel X (e_disk e) (e_disk ec) /\ e_fault ec = None.

(* the shadow run: what it appended to the history, and its final disk *)
Definition aext (ec0 ec1 : env) : Prop :=
  exists acts, e_acts ec1 = rev acts ++ e_acts ec0 /\ e_disk ec1 = fold_left apply_act acts (e_disk ec0).

(* a disk the shadow run ec0 ~> ecN passes through *)
Definition pfx (ec0 ecN : env) (dm : disk) : Prop :=
  exists a1 a2, e_acts ecN = rev a2 ++ rev a1 ++ e_acts ec0 /\ dm = fold_left apply_act a1 (e_disk ec0).

Lemma aext_refl e : aext e e.
Proof. exists []. split; reflexivity. Qed.
Lemma aext_trans e0 e1 e2 : aext e0 e1 -> aext e1 e2 -> aext e0 e2.
Proof.
  intros (a1 & A1 & D1) (a2 & A2 & D2). exists (a1 ++ a2). split.
  - rewrite A2, A1, rev_app_distr, app_assoc. reflexivity.
  - rewrite fold_left_app, <- D1. exact D2.
Qed.
Lemma aext_io a e : aext e (io_env a e).
Proof. exists [a]. split; reflexivity. Qed.
Lemma aext_with_m e m : aext e (with_m e m).
Proof. exists []. split; reflexivity. Qed.
Lemma aext_add_m e f : aext e (add_m e f).
Proof. apply aext_with_m. Qed.

Lemma pfx_start e0 eN : aext e0 eN -> pfx e0 eN (e_disk e0).
Proof. intros (a & A & _). exists [], a. split; [exact A|reflexivity]. Qed.
Lemma pfx_end e0 eN : aext e0 eN -> pfx e0 eN (e_disk eN).
Proof. intros (a & A & D). exists a, []. split; [exact A|exact D]. Qed.
Lemma pfx_shift e0 e1 eN d : aext e0 e1 -> pfx e1 eN d -> pfx e0 eN d.
Proof.
  intros (a & A & D) (a1 & a2 & A' & D'). exists (a ++ a1), a2. split.
  - rewrite A', A, rev_app_distr, <- !app_assoc. reflexivity.
  - rewrite fold_left_app, <- D. exact D'.
Qed.
Lemma pfx_more e0 e1 e2 d : pfx e0 e1 d -> aext e1 e2 -> pfx e0 e2 d.
Proof.
  intros (a1 & a2 & A & D) (a & A' & _). exists a1, (a2 ++ a). split; [|exact D].
  rewrite A', A, rev_app_distr, <- !app_assoc. reflexivity.
Qed.

Lemma ext_aext P e0 e1 : ext P e0 e1 -> aext e0 e1.
Proof. intros (_ & acts & A & _ & D & _). exists acts. auto. Qed.

Lemma ext_pfx (P : disk -> Prop) e0 eN d : ext P e0 eN -> pfx e0 eN d -> P d.
Proof.
  intros (_ & acts & A & _ & _ & Hp) (a1 & a2 & A' & D). subst d.
  rewrite A in A'. rewrite app_assoc in A'. apply app_inv_tail in A'.
  rewrite <- rev_app_distr in A'. apply (f_equal (@rev act)) in A'. rewrite !rev_involutive in A'. subst acts.
  specialize (Hp (length a1)). rewrite firstn_app, firstn_all, Nat.sub_diag in Hp. cbn in Hp. rewrite app_nil_r in Hp. exact Hp.
Qed.

(* ------------------------------------------------------------------ *)
(* one I/O action                                                       *)
Lemma io_cases3 a e : is_delete a = false ->
  (exists e', io a e = (true, e') /\ e_disk e' = apply_act (e_disk e) a /\ e_acts e' = a :: e_acts e /\ e_m e' = e_m e /\
              e_fx e' = e_fx e /\ (e_fault e = None -> e_fault e' = None)) \/
  (exists e', io a e = (false, e') /\ e_disk e' = e_disk e /\ e_fault e' = None /\ e_m e' = e_m e /\ e_fx e' = e_fx e) \/
  (* a BoltDB transaction reported as failed and found applied *)
  (exists e', io a e = (false, e') /\ is_txn a = true /\ e_disk e' = apply_act (e_disk e) a /\ e_fault e' = None /\
              e_m e' = e_m e /\ e_fx e' = e_fx e).
Proof.
  intros Ed. unfold io. rewrite Ed. destruct (e_fault e) as [[|k]|].
  - destruct (is_txn a) eqn:Et, (fx_land (e_fx e)); cbn [andb];
      [right; right; eexists; split; [reflexivity|]; cbn; auto| | |];
      (right; left; eexists; split; [reflexivity|]; cbn; auto).
  - left. eexists. split; [reflexivity|]. cbn. repeat split; auto. discriminate.
  - left. eexists. split; [reflexivity|]. cbn. auto.
Qed.

Lemma io_cases a e : is_delete a = false -> is_txn a = false ->
  (exists e', io a e = (true, e') /\ e_disk e' = apply_act (e_disk e) a /\ e_acts e' = a :: e_acts e /\ e_m e' = e_m e /\
              e_fx e' = e_fx e /\ (e_fault e = None -> e_fault e' = None)) \/
  (exists e', io a e = (false, e') /\ e_disk e' = e_disk e /\ e_fault e' = None /\ e_m e' = e_m e /\ e_fx e' = e_fx e).
Proof.
  intros Ed Et. destruct (io_cases3 a e Ed) as [H|[H|(e' & _ & K & _)]]; [left; exact H|right; exact H|congruence].
Qed.

Lemma drel_rem_weaken n X d dc : drel (rem n X) d dc -> drel X d dc.
Proof. apply drel_incl. apply rem_incl. Qed.

Lemma R_rem_weaken n X e ec : R (rem n X) e ec -> R X e ec.
Proof. intros (H & F). split; [eapply drel_rem_weaken; eauto|exact F]. Qed.

Lemma R_incl X X' e ec : incl X X' -> R X e ec -> R X' e ec.
Proof. intros Hi (H & F). split; [eapply drel_incl; eauto|exact F]. Qed.

Lemma R_weaken X e ec : R [] e ec -> R X e ec.
Proof. apply R_incl. intros x []. Qed.

Lemma R_add_m X e ec f g : R X e ec -> R X (add_m e f) (add_m ec g).
Proof. intros H. exact H. Qed.

Lemma io_env_fault a e : e_fault (io_env a e) = None. Proof. reflexivity. Qed.

Definition nodel_act (a : act) : Prop := simple_act a /\ is_delete a = false.

Lemma io_lock X a e ec : R X e ec -> nodel_act a ->
  io a ec = (true, io_env a ec) /\
  ((exists e', io a e = (true, e') /\ R X e' (io_env a ec) /\ e_fx e' = e_fx e) \/
   (exists e', io a e = (false, e') /\ e_disk e' = e_disk e /\ e_fault e' = None /\ e_fx e' = e_fx e) \/
   (exists e', io a e = (false, e') /\ is_txn a = true /\ R X e' (io_env a ec) /\
               e_disk e' = apply_act (e_disk e) a /\ e_fault e' = None /\ e_fx e' = e_fx e)).
Proof.
  intros (Hd & Hf) (Hs & Hnd). split; [apply io_ok; exact Hf|].
  destruct (io_cases3 a e Hnd) as [(e' & E & D & _ & _ & Fx & _)|[(e' & E & D & F & _ & Fx)|(e' & E & T & D & F & _ & Fx)]].
  - left. exists e'. split; [exact E|]. split; [|exact Fx]. split; [|reflexivity]. rewrite D. cbn [io_env e_disk].
    apply drel_act_simple; assumption.
  - right. left. exists e'. auto.
  - right. right. exists e'. split; [exact E|]. split; [exact T|]. split; [|auto].
    split; [|reflexivity]. rewrite D. cbn [io_env e_disk]. apply drel_act_simple; assumption.
Qed.

Lemma io_lock_write X n off l b e ec : R X e ec -> (In n X -> wguard (e_disk e) n off) ->
  io (AWrite n off l b) ec = (true, io_env (AWrite n off l b) ec) /\
  ((exists e', io (AWrite n off l b) e = (true, e') /\ R (rem n X) e' (io_env (AWrite n off l b) ec)) \/
   (exists e', io (AWrite n off l b) e = (false, e') /\ e_disk e' = e_disk e /\ e_fault e' = None)).
Proof.
  intros (Hd & Hf) Hg. split; [apply io_ok; exact Hf|].
  destruct (io_cases (AWrite n off l b) e eq_refl eq_refl) as [(e' & E & D & _)|(e' & E & D & F & _)].
  - left. exists e'. split; [exact E|]. split; [|reflexivity]. rewrite D. cbn [io_env e_disk].
    apply drel_write; assumption.
  - right. exists e'. auto.
Qed.

Lemma io_lock_sync X n e ec : R X e ec -> ~ In n X ->
  io (ASync n) ec = (true, io_env (ASync n) ec) /\
  ((exists e', io (ASync n) e = (true, e') /\ R X e' (io_env (ASync n) ec)) \/
   (exists e', io (ASync n) e = (false, e') /\ e_disk e' = e_disk e /\ e_fault e' = None)).
Proof.
  intros (Hd & Hf) Hg. split; [apply io_ok; exact Hf|].
  destruct (io_cases (ASync n) e eq_refl eq_refl) as [(e' & E & D & _)|(e' & E & D & F & _)].
  - left. exists e'. split; [exact E|]. split; [|reflexivity]. rewrite D. cbn [io_env e_disk].
    apply drel_sync; assumption.
  - right. exists e'. auto.
Qed.

(* ------------------------------------------------------------------ *)
(* deletions: they all succeed, or (deletion faults armed) they all fail and
   change nothing                                                        *)
Definition del_fails (e : env) : bool := armed e && fx_del (e_fx e).

Fixpoint rems (ns : list fname) (X : list fname) : list fname :=
  match ns with [] => X | n :: r => rems r (rem n X) end.

Lemma rems_incl ns : forall X, incl (rems ns X) X.
Proof.
  induction ns as [|n ns IH]; intros X; [apply incl_refl|]. cbn [rems].
  intros m H. apply (rem_incl n X). apply IH. exact H.
Qed.

Lemma rems_in ns : forall X m, In m (rems ns X) -> ~ In m ns.
Proof.
  induction ns as [|n ns IH]; intros X m H; [intros []|]. cbn [rems] in H. intros [<-|K].
  - apply (rems_incl ns) in H. apply (rem_not n X H).
  - apply (IH _ _ H K).
Qed.

Lemma del_fails_ext e e' : e_fault e' = e_fault e -> e_fx e' = e_fx e -> del_fails e' = del_fails e.
Proof. intros A B. unfold del_fails, armed. rewrite A, B. reflexivity. Qed.

Lemma io_delete n e :
  e_fault (snd (io (ADelete n) e)) = e_fault e /\ e_fx (snd (io (ADelete n) e)) = e_fx e /\
  e_disk (snd (io (ADelete n) e)) = (if del_fails e then e_disk e else apply_act (e_disk e) (ADelete n)).
Proof. unfold io, del_fails. cbn [is_delete]. destruct (armed e && fx_del (e_fx e)); cbn; auto. Qed.

Lemma delete_files_real ns : forall e,
  e_fault (delete_files ns e) = e_fault e /\ e_fx (delete_files ns e) = e_fx e /\
  e_disk (delete_files ns e) = (if del_fails e then e_disk e else del_disk ns (e_disk e)).
Proof.
  induction ns as [|n ns IH]; intros e.
  - cbn. destruct (del_fails e); auto.
  - unfold delete_files, del_disk. cbn [fold_left]. fold (delete_files ns (snd (io (ADelete n) e))).
    fold (del_disk ns (apply_act (e_disk e) (ADelete n))).
    destruct (IH (snd (io (ADelete n) e))) as (A & B & C). destruct (io_delete n e) as (D1 & D2 & D3).
    rewrite A, B, C, (del_fails_ext _ _ D1 D2), D1, D2, D3. destruct (del_fails e); auto.
Qed.

Lemma delete_files_lock ns : forall X e ec, R X e ec ->
  aext ec (delete_files ns ec) /\ e_fault (delete_files ns ec) = None /\
  e_disk (delete_files ns ec) = del_disk ns (e_disk ec) /\
  e_fault (delete_files ns e) = e_fault e /\
  (if del_fails e then e_disk (delete_files ns e) = e_disk e
   else R (rems ns X) (delete_files ns e) (delete_files ns ec)).
Proof.
  intros X e ec HR. pose proof HR as (Hd & Hf).
  destruct (delete_files_real ns e) as (A & B & C).
  assert (Hsh : forall ns ec, e_fault ec = None ->
            aext ec (delete_files ns ec) /\ e_fault (delete_files ns ec) = None /\ e_disk (delete_files ns ec) = del_disk ns (e_disk ec)).
  { clear. induction ns as [|n ns IH]; intros ec Hf; [split; [apply aext_refl|auto]|].
    unfold delete_files, del_disk. cbn [fold_left]. fold (delete_files ns (snd (io (ADelete n) ec))).
    fold (del_disk ns (apply_act (e_disk ec) (ADelete n))).
    rewrite (io_ok _ _ Hf). cbn [snd]. destruct (IH (io_env (ADelete n) ec) eq_refl) as (A1 & A2 & A3).
    split; [eapply aext_trans; [apply aext_io|exact A1]|]. split; [exact A2|exact A3]. }
  destruct (Hsh ns ec Hf) as (S1 & S2 & S3).
  split; [exact S1|]. split; [exact S2|]. split; [exact S3|]. split; [exact A|].
  destruct (del_fails e) eqn:E; [exact C|].
  split; [|exact S2]. rewrite C, S3. clear - Hd.
  revert X e ec Hd. induction ns as [|n ns IH]; intros X e ec Hd; [exact Hd|].
  unfold del_disk. cbn [fold_left rems]. fold (del_disk ns (apply_act (e_disk e) (ADelete n))).
  fold (del_disk ns (apply_act (e_disk ec) (ADelete n))).
  set (e1 := {| e_acts := e_acts e; e_disk := apply_act (e_disk e) (ADelete n); e_fault := e_fault e; e_fx := e_fx e; e_m := e_m e |}).
  set (ec1 := {| e_acts := e_acts ec; e_disk := apply_act (e_disk ec) (ADelete n); e_fault := e_fault ec; e_fx := e_fx ec; e_m := e_m ec |}).
  apply (IH (rem n X) e1 ec1). apply drel_delete_stale. exact Hd.
Qed.

(* ------------------------------------------------------------------ *)
(* Filer.Create                                                         *)
Lemma seg_create_lock X si e ec sw e' swc ec' : R X e ec ->
  seg_create si e = (sw, e') -> seg_create si ec = (swc, ec') ->
  aext ec ec' /\ e_fault ec' = None /\
  ((sw = swc /\ R X e' ec') \/
   (swc = Some (new_wseg si) /\ sw = None /\ e_fault e' = None /\
    e_disk ec' = apply_act (e_disk ec) (ACreate (name_of si) (si_size_limit si)) /\
    (e_disk e' = e_disk e \/ drel X (e_disk e') (e_disk ec')))).
Proof.
  intros HR. unfold seg_create. destruct (si_base si =? 0).
  - intros E1 E2. inversion E1; inversion E2; subst. split; [apply aext_refl|]. split; [apply HR|]. left. auto.
  - pose proof (drel_lookup_none X _ _ (name_of si) (proj1 HR)) as Hn.
    destruct (lookup (name_of si) (dk_files (e_disk e))) as [f|] eqn:Ef, (lookup (name_of si) (dk_files (e_disk ec))) as [g|] eqn:Eg.
    + destruct (io_lock X (AFail (ACreate (name_of si) (si_size_limit si))) e ec HR (conj I eq_refl)) as (Ec & [(e1 & Er & HR1 & _)|[(e1 & Er & D & F & _)|(e1 & _ & K & _)]]); [| |discriminate K];
        rewrite Ec, Er; intros E1 E2; inversion E1; inversion E2; subst;
        (split; [apply aext_io|]); (split; [reflexivity|]); left; (split; [reflexivity|]); [exact HR1|].
      split; [|reflexivity]. rewrite D. cbn [io_env e_disk apply_act]. apply HR.
    + exfalso. destruct Hn as (_ & Hn). specialize (Hn eq_refl). discriminate.
    + exfalso. destruct Hn as (Hn & _). specialize (Hn eq_refl). discriminate.
    + destruct (io_lock X (ACreate (name_of si) (si_size_limit si)) e ec HR (conj I eq_refl)) as (Ec & [(e1 & Er & HR1 & _)|[(e1 & Er & D & F & Fx)|(e1 & _ & K & _)]]); [| |discriminate K];
        rewrite Ec, Er; intros E1 E2; inversion E1; inversion E2; subst;
        (split; [apply aext_io|]); (split; [reflexivity|]).
      * left. auto.
      * right. split; [reflexivity|]. split; [reflexivity|].
        destruct (fx_leave (e_fx e)).
        -- split; [exact F|]. split; [reflexivity|]. right. unfold leave_entry. cbn [e_disk io_env]. rewrite D.
           apply drel_create. apply HR.
        -- split; [exact F|]. split; [reflexivity|]. left. exact D.
Qed.

(* ------------------------------------------------------------------ *)
(* Writer.Append                                                        *)
Definition append_act (w : wseg) (ls : list log) : act :=
  let n' := ws_n w + llen ls in
  let buf := (if ws_hdr w then 32 else 0) + frames_size ls in
  let seal := ws_limit w <? (ws_off w + (buf + index_frame_size n') mod two32) mod two32 in
  let buf2 := if seal then buf + index_frame_size n' else buf in
  let istart := if seal then ws_off w + buf + 8 else 0 in
  let total := buf2 + 8 in
  AWrite (ws_name w) (ws_off w) total {| pb_ents := ls; pb_end := (ws_off w + total) mod two32; pb_seal := istart |}.

Definition append_wseg (w : wseg) (ls : list log) : wseg :=
  let n' := ws_n w + llen ls in
  let buf := (if ws_hdr w then 32 else 0) + frames_size ls in
  let seal := ws_limit w <? (ws_off w + (buf + index_frame_size n') mod two32) mod two32 in
  let buf2 := if seal then buf + index_frame_size n' else buf in
  let istart := if seal then ws_off w + buf + 8 else 0 in
  let total := buf2 + 8 in
  {| ws_name := ws_name w; ws_base := ws_base w; ws_min := ws_min w;
     ws_limit := ws_limit w; ws_n := n'; ws_off := (ws_off w + total) mod two32;
     ws_hdr := false; ws_index_start := istart; ws_commit_idx := ws_base w + n' - 1 |}.

Lemma seg_append_eq w ls e :
  seg_append w ls e =
  match ls with
  | [] => (ROk, w, e)
  | l0 :: _ =>
      if 0 <? ws_index_start w then (RErrSealed, w, e)
      else if existsb (fun l => MaxEntrySize <? enc_len l) ls then (RErrTooBig, w, e)
      else if negb (l_index l0 =? ws_base w + ws_n w) then (RErrNonMono, w, e)
      else
        let '(ok1, e1) := io (append_act w ls) e in
        if negb ok1 then (RErrIO, w, e1)
        else let '(ok2, e2) := io (ASync (ws_name w)) e1 in
             if negb ok2 then (RErrIO, w, e2)
             else (ROk, append_wseg w ls, e2)
  end.
Proof. destruct ls; reflexivity. Qed.

Lemma append_act_form tw ls : exists l b, append_act tw ls = AWrite (ws_name tw) (ws_off tw) l b.
Proof. unfold append_act. cbv zeta. eexists _, _. reflexivity. Qed.

Lemma seg_append_lock X tw ls e ec r tw' e' rc twc ec' : R X e ec ->
  (In (ws_name tw) X -> wguard (e_disk e) (ws_name tw) (ws_off tw)) ->
  seg_append tw ls e = (r, tw', e') -> seg_append tw ls ec = (rc, twc, ec') ->
  aext ec ec' /\ e_fault ec' = None /\
  ((r = rc /\ tw' = twc /\ R X e' ec' /\ (rc = ROk -> ls <> [] -> R (rem (ws_name tw) X) e' ec') /\
    (rc <> ROk -> e' = e /\ ec' = ec /\ tw' = tw)) \/
   (rc = ROk /\ ls <> [] /\ r = RErrIO /\ tw' = tw /\ e_fault e' = None /\
    (exists l0 lr, ls = l0 :: lr /\ l_index l0 = ws_base tw + ws_n tw /\ ws_index_start tw = 0) /\
    (e_disk e' = e_disk e \/
     (drel (rem (ws_name tw) X) (e_disk e') (apply_act (e_disk ec) (append_act tw ls)) /\
      pfx ec ec' (apply_act (e_disk ec) (append_act tw ls)))))).
Proof.
  intros HR Hg. rewrite !seg_append_eq. destruct ls as [|l0 ls'].
  { intros E1 E2. inversion E1; inversion E2; subst. split; [apply aext_refl|]. split; [apply HR|]. left.
    split; [reflexivity|]. split; [reflexivity|]. split; [exact HR|]. split; [intros _ K; congruence|congruence]. }
  set (ls := l0 :: ls') in *.
  destruct (0 <? ws_index_start tw) eqn:Eis.
  { intros E1 E2. inversion E1; inversion E2; subst. split; [apply aext_refl|]. split; [apply HR|]. left.
    split; [reflexivity|]. split; [reflexivity|]. split; [exact HR|]. split; [discriminate|auto]. }
  destruct (existsb _ ls).
  { intros E1 E2. inversion E1; inversion E2; subst. split; [apply aext_refl|]. split; [apply HR|]. left.
    split; [reflexivity|]. split; [reflexivity|]. split; [exact HR|]. split; [discriminate|auto]. }
  destruct (negb (l_index l0 =? ws_base tw + ws_n tw)) eqn:Eidx.
  { intros E1 E2. inversion E1; inversion E2; subst. split; [apply aext_refl|]. split; [apply HR|]. left.
    split; [reflexivity|]. split; [reflexivity|]. split; [exact HR|]. split; [discriminate|auto]. }
  assert (Hfacts : exists l1 lr, ls = l1 :: lr /\ l_index l1 = ws_base tw + ws_n tw /\ ws_index_start tw = 0).
  { exists l0, ls'. split; [reflexivity|]. split; lia. }
  destruct (append_act_form tw ls) as (l & b & Ea). rewrite Ea.
  destruct (io_lock_write X (ws_name tw) (ws_off tw) l b e ec HR Hg) as (Ec & Hr).
  set (a := AWrite (ws_name tw) (ws_off tw) l b) in *.
  rewrite Ec. cbn [negb].
  assert (Ec2' : io (ASync (ws_name tw)) (io_env a ec) = (true, io_env (ASync (ws_name tw)) (io_env a ec))) by (apply io_ok; reflexivity).
  rewrite Ec2'. cbn [negb].
  destruct Hr as [(e1 & Er & HR1)|(e1 & Er & D & F)]; rewrite Er; cbn [negb].
  - destruct (io_lock_sync (rem (ws_name tw) X) (ws_name tw) e1 (io_env a ec) HR1 (rem_not _ _)) as (_ & [(e2 & Er2 & HR2)|(e2 & Er2 & D2 & F2)]);
      rewrite Er2; cbn [negb]; intros E1 E2; inversion E1; inversion E2; subst;
      (split; [eapply aext_trans; apply aext_io|]); (split; [reflexivity|]).
    + left. split; [reflexivity|]. split; [reflexivity|]. split; [apply (R_rem_weaken (ws_name tw) X); exact HR2|].
      split; [intros _ _; exact HR2|congruence].
    + right. split; [reflexivity|]. split; [discriminate|]. split; [reflexivity|]. split; [reflexivity|]. split; [exact F2|].
      split; [exact Hfacts|]. right. rewrite D2. split; [apply HR1|].
      eapply pfx_more; [apply (pfx_end ec (io_env a ec)); apply aext_io|apply aext_io].
  - intros E1 E2; inversion E1; inversion E2; subst.
    split; [eapply aext_trans; apply aext_io|]. split; [reflexivity|].
    right. split; [reflexivity|]. split; [discriminate|]. split; [reflexivity|]. split; [reflexivity|]. split; [exact F|].
    split; [exact Hfacts|]. left. exact D.
Qed.

(* ------------------------------------------------------------------ *)
(* Writer.ForceSeal                                                     *)
Definition force_act (w : wseg) : act :=
  let buf := (if ws_hdr w then 32 else 0) + index_frame_size (ws_n w) in
  let istart := ws_off w + (if ws_hdr w then 32 else 0) + 8 in
  let total := buf + 8 in
  AWrite (ws_name w) (ws_off w) total {| pb_ents := []; pb_end := (ws_off w + total) mod two32; pb_seal := istart |}.

Definition force_wseg (w : wseg) : wseg :=
  let buf := (if ws_hdr w then 32 else 0) + index_frame_size (ws_n w) in
  let istart := ws_off w + (if ws_hdr w then 32 else 0) + 8 in
  let total := buf + 8 in
  {| ws_name := ws_name w; ws_base := ws_base w; ws_min := ws_min w;
     ws_limit := ws_limit w; ws_n := ws_n w; ws_off := (ws_off w + total) mod two32;
     ws_hdr := false; ws_index_start := istart; ws_commit_idx := ws_base w + ws_n w - 1 |}.

Lemma seg_force_seal_eq w e :
  seg_force_seal w e =
  if 0 <? ws_index_start w then (ROk, w, e)
  else if ws_n w =? 0 then (RErrOther, w, e)
  else
    let '(ok1, e1) := io (force_act w) e in
    if negb ok1 then (RErrIO, w, e1)
    else let '(ok2, e2) := io (ASync (ws_name w)) e1 in
         if negb ok2 then (RErrIO, w, e2)
         else (ROk, force_wseg w, e2).
Proof. reflexivity. Qed.

Lemma force_act_form tw : exists l b, force_act tw = AWrite (ws_name tw) (ws_off tw) l b.
Proof. unfold force_act. cbv zeta. eexists _, _. reflexivity. Qed.

Lemma seg_force_seal_lock X tw e ec r tw' e' rc twc ec' : R X e ec ->
  (In (ws_name tw) X -> wguard (e_disk e) (ws_name tw) (ws_off tw)) ->
  seg_force_seal tw e = (r, tw', e') -> seg_force_seal tw ec = (rc, twc, ec') ->
  aext ec ec' /\ e_fault ec' = None /\
  ((r = rc /\ tw' = twc /\ R X e' ec' /\ (rc = ROk -> ws_index_start tw = 0 -> R (rem (ws_name tw) X) e' ec') /\
    (rc <> ROk \/ ws_index_start tw <> 0 -> e' = e /\ ec' = ec /\ tw' = tw)) \/
   (rc = ROk /\ ws_index_start tw = 0 /\ ws_n tw <> 0 /\ r = RErrIO /\ tw' = tw /\ e_fault e' = None /\
    (e_disk e' = e_disk e \/
     (drel (rem (ws_name tw) X) (e_disk e') (apply_act (e_disk ec) (force_act tw)) /\
      pfx ec ec' (apply_act (e_disk ec) (force_act tw)))))).
Proof.
  intros HR Hg. rewrite !seg_force_seal_eq.
  destruct (0 <? ws_index_start tw) eqn:Eis.
  { intros E1 E2. inversion E1; inversion E2; subst. split; [apply aext_refl|]. split; [apply HR|]. left.
    split; [reflexivity|]. split; [reflexivity|]. split; [exact HR|]. split; [intros _ K; lia|auto]. }
  destruct (ws_n tw =? 0) eqn:En0.
  { intros E1 E2. inversion E1; inversion E2; subst. split; [apply aext_refl|]. split; [apply HR|]. left.
    split; [reflexivity|]. split; [reflexivity|]. split; [exact HR|]. split; [discriminate|auto]. }
  assert (His : ws_index_start tw = 0) by lia. assert (Hn0 : ws_n tw <> 0) by lia.
  destruct (force_act_form tw) as (l & b & Ea). rewrite Ea.
  destruct (io_lock_write X (ws_name tw) (ws_off tw) l b e ec HR Hg) as (Ec & Hr).
  set (a := AWrite (ws_name tw) (ws_off tw) l b) in *.
  rewrite Ec. cbn [negb].
  assert (Ec2' : io (ASync (ws_name tw)) (io_env a ec) = (true, io_env (ASync (ws_name tw)) (io_env a ec))) by (apply io_ok; reflexivity).
  rewrite Ec2'. cbn [negb].
  destruct Hr as [(e1 & Er & HR1)|(e1 & Er & D & F)]; rewrite Er; cbn [negb].
  - destruct (io_lock_sync (rem (ws_name tw) X) (ws_name tw) e1 (io_env a ec) HR1 (rem_not _ _)) as (_ & [(e2 & Er2 & HR2)|(e2 & Er2 & D2 & F2)]);
      rewrite Er2; cbn [negb]; intros E1 E2; inversion E1; inversion E2; subst;
      (split; [eapply aext_trans; apply aext_io|]); (split; [reflexivity|]).
    + left. split; [reflexivity|]. split; [reflexivity|]. split; [apply (R_rem_weaken (ws_name tw) X); exact HR2|].
      split; [intros _ _; exact HR2|]. intros [K|K]; congruence.
    + right. repeat split; auto; try discriminate. right. rewrite D2. split; [apply HR1|].
      eapply pfx_more; [apply (pfx_end ec (io_env a ec)); apply aext_io|apply aext_io].
  - intros E1 E2; inversion E1; inversion E2; subst.
    split; [eapply aext_trans; apply aext_io|]. split; [reflexivity|].
    right. repeat split; auto; discriminate.
Qed.

(* ------------------------------------------------------------------ *)
(* mutateStateLocked                                                    *)
Definition set_failed (w : wal) : wal :=
  {| st_next_id := st_next_id w; st_segs := st_segs w; st_tail := st_tail w;
     st_rotate := st_rotate w; st_failed := true; st_closed := st_closed w |}.

Definition tx_ps (t : txn) : pstate := {| ps_next_id := tx_next_id t; ps_segs := tx_segs t |}.

(* the fault-free shadow run only extends the history *)
Definition shok (ec ec' : env) : Prop := aext ec ec' /\ e_fault ec' = None.

Lemma shok_refl ec : e_fault ec = None -> shok ec ec.
Proof. intros H. split; [apply aext_refl|exact H]. Qed.
Lemma shok_trans e0 e1 e2 : shok e0 e1 -> shok e1 e2 -> shok e0 e2.
Proof. intros (A & _) (B & F). split; [eapply aext_trans; eauto|exact F]. Qed.
Lemma shok_io a ec : shok ec (io_env a ec).
Proof. split; [apply aext_io|reflexivity]. Qed.
Lemma shok_add_m ec f : e_fault ec = None -> shok ec (add_m ec f).
Proof. intros H. split; [apply aext_add_m|exact H]. Qed.

Lemma sh_seg_create si ec sw ec' : e_fault ec = None -> seg_create si ec = (sw, ec') -> shok ec ec'.
Proof.
  intros Hf. unfold seg_create. destruct (si_base si =? 0); [intros E; inversion E; subst; apply shok_refl; exact Hf|].
  destruct (lookup _ _).
  - rewrite (io_ok _ _ Hf). intros E; inversion E; subst. apply shok_io.
  - rewrite (io_ok _ _ Hf). intros E; inversion E; subst. apply shok_io.
Qed.

Lemma sh_delete_files ns : forall ec, e_fault ec = None -> shok ec (delete_files ns ec).
Proof.
  induction ns as [|n ns IH]; intros ec Hf; [apply shok_refl; exact Hf|].
  unfold delete_files. cbn [fold_left]. fold (delete_files ns (snd (io (ADelete n) ec))).
  rewrite (io_ok _ _ Hf). cbn [snd]. eapply shok_trans; [apply shok_io|apply IH; reflexivity].
Qed.

Lemma sh_seg_append tw ls ec r tw' ec' : e_fault ec = None -> seg_append tw ls ec = (r, tw', ec') -> shok ec ec'.
Proof.
  intros Hf. rewrite seg_append_eq. destruct ls; [intros E; inversion E; subst; apply shok_refl; exact Hf|].
  destruct (0 <? _); [intros E; inversion E; subst; apply shok_refl; exact Hf|].
  destruct (existsb _ _); [intros E; inversion E; subst; apply shok_refl; exact Hf|].
  destruct (negb _); [intros E; inversion E; subst; apply shok_refl; exact Hf|].
  rewrite (io_ok _ _ Hf). cbn [negb]. rewrite (io_ok _ _ (io_env_fault _ _)). cbn [negb].
  intros E; inversion E; subst. eapply shok_trans; apply shok_io.
Qed.

Lemma sh_seg_force_seal tw ec r tw' ec' : e_fault ec = None -> seg_force_seal tw ec = (r, tw', ec') -> shok ec ec'.
Proof.
  intros Hf. rewrite seg_force_seal_eq.
  destruct (0 <? _); [intros E; inversion E; subst; apply shok_refl; exact Hf|].
  destruct (_ =? 0); [intros E; inversion E; subst; apply shok_refl; exact Hf|].
  rewrite (io_ok _ _ Hf). cbn [negb]. rewrite (io_ok _ _ (io_env_fault _ _)). cbn [negb].
  intros E; inversion E; subst. eapply shok_trans; apply shok_io.
Qed.

Lemma sh_mutate_gen defer w t ec r w' ec' dl : e_fault ec = None ->
  mutate_gen defer w t ec = (r, w', ec', dl) -> shok ec ec'.
Proof.
  intros Hf. unfold mutate_gen. rewrite (io_ok _ _ Hf). cbn [negb].
  destruct (tx_create t) as [si|].
  - destruct (seg_create si _) as [sw e2] eqn:Es. pose proof (sh_seg_create _ _ _ _ (io_env_fault _ _) Es) as H2.
    destruct sw; intros E; inversion E; subst.
    + destruct defer; [eapply shok_trans; [apply shok_io|exact H2]|].
      eapply shok_trans; [apply shok_io|]. eapply shok_trans; [exact H2|]. apply sh_delete_files. apply H2.
    + eapply shok_trans; [apply shok_io|exact H2].
  - intros E; inversion E; subst. destruct defer; [apply shok_io|].
    eapply shok_trans; [apply shok_io|]. apply sh_delete_files. reflexivity.
Qed.

Lemma sh_mutate w t ec r w' ec' : e_fault ec = None -> mutate w t ec = (r, w', ec') -> shok ec ec'.
Proof.
  intros Hf. unfold mutate. destruct (mutate_gen false w t ec) as [[[r0 w0] e0] d0] eqn:E.
  intros K; inversion K; subst. eapply sh_mutate_gen; eauto.
Qed.

Lemma seg_create_some si e sw e' : seg_create si e = (Some sw, e') ->
  sw = new_wseg si /\ lookup (name_of si) (dk_files (e_disk e)) = None.
Proof.
  unfold seg_create. destruct (si_base si =? 0); [intros E; inversion E|].
  destruct (lookup _ _).
  - destruct (io _ e) as [ok e1]. intros E; inversion E.
  - destruct (io _ e) as [ok e1]. destruct ok; intros E; inversion E; auto.
Qed.

(* the outcome of a trailing run of deletions: both runs deleted, or the real run's
   deletions all failed and it stays related to the shadow state before them *)
Definition Rd (X : list fname) (ns : list fname) (ec0 e' ec' : env) : Prop :=
  R (rems ns X) e' ec' \/
  (exists ecp, R X e' ecp /\ ec' = delete_files ns ecp /\ aext ec0 ecp /\ e_fault e' <> None).

Lemma Rd_nil X ec0 e' ec' : Rd X [] ec0 e' ec' -> R X e' ec'.
Proof. intros [H|(ecp & H & -> & _)]; exact H. Qed.
Lemma Rd_of_R X ec0 e' ec' : R X e' ec' -> Rd X [] ec0 e' ec'.
Proof. intros H. left. exact H. Qed.

Lemma Rd_shift X ns ec0 ec1 e' ec' : aext ec0 ec1 -> Rd X ns ec1 e' ec' -> Rd X ns ec0 e' ec'.
Proof.
  intros Ha [H|(ecp & H & E & A & F)]; [left; exact H|right]. exists ecp. split; [exact H|]. split; [exact E|].
  split; [eapply aext_trans; eauto|exact F].
Qed.

Lemma delete_files_Rd X ns e ec ec0 : R X e ec -> aext ec0 ec ->
  Rd X ns ec0 (delete_files ns e) (delete_files ns ec) /\ e_fault (delete_files ns e) = e_fault e.
Proof.
  intros HR Ha. destruct (delete_files_lock ns X e ec HR) as (_ & _ & _ & A & B). split; [|exact A].
  destruct (del_fails e) eqn:Ed.
  - right. exists ec. split; [split; [|apply HR]; rewrite B; apply HR|]. split; [reflexivity|]. split; [exact Ha|].
    rewrite A. unfold del_fails, armed in Ed. destruct (e_fault e); [discriminate|discriminate].
  - left. exact B.
Qed.

(* the metadata commit happened (and possibly the file creation after it left an empty
   file): the real disk is related to a disk [dm] the shadow run passes through, which
   lists [ps] and keeps every file of the shadow's starting disk *)
Definition post_commit (X : list fname) (ec ec' : env) (d' : disk) (ps : pstate) : Prop :=
  exists dm, drel X d' dm /\ pfx ec ec' dm /\ dk_meta dm = Some ps /\
    (forall n, lookup n (dk_files (e_disk ec)) <> None -> lookup n (dk_files dm) = lookup n (dk_files (e_disk ec))) /\
    dk_stable dm = dk_stable (e_disk ec) /\
    (forall n f, lookup n (dk_files dm) = Some f -> lookup n (dk_files (e_disk ec)) = None -> df_pend f = None).

Lemma post_commit_shift X ec0 ec ec' d' ps : aext ec0 ec -> e_disk ec = e_disk ec0 ->
  post_commit X ec ec' d' ps -> post_commit X ec0 ec' d' ps.
Proof.
  intros Ha Hd (dm & A & B & C & D & E & F). exists dm. split; [exact A|]. split; [eapply pfx_shift; eauto|].
  split; [exact C|]. rewrite <- Hd. auto.
Qed.

Definition dels_of (defer : bool) (rc : result) (t : txn) : list fname :=
  match rc with ROk => if defer then [] else tx_delete t | _ => [] end.

(* the real run stopped (its commit was reported as failed and found applied, nothing was
   created) where the shadow run went on to its trailing deletions *)
Definition landed (X : list fname) (ns : list fname) (ec0 e' ec' : env) : Prop :=
  exists ecp, R X e' ecp /\ ec' = delete_files ns ecp /\ aext ec0 ecp.

Lemma landed_shift X ns ec0 ec1 e' ec' : aext ec0 ec1 -> landed X ns ec1 e' ec' -> landed X ns ec0 e' ec'.
Proof.
  intros Ha (ecp & H & E & A). exists ecp. split; [exact H|]. split; [exact E|]. eapply aext_trans; eauto.
Qed.

(* what the real run of a failed state transaction leaves: the WAL refuses writes, and
   A  nothing changed on the disk, or
   B  the metadata is committed and a new tail file is missing (its creation failed, or the
      commit itself was reported as failed and found applied), or
   C  the commit of a transaction that creates nothing was reported as failed and found
      applied, or
   D  the shadow run could not create the new tail either (excluded later: it ends failed) *)
Definition commit_failed (X : list fname) (defer : bool) (t : txn) (e ec : env) (e' : env)
  (rc : result) (wc' : wal) (ec' : env) : Prop :=
  e_disk e' = e_disk e \/
  (rc = ROk /\ tx_create t <> None /\
   post_commit X ec ec' (e_disk e') (tx_ps t) /\
   dk_meta (e_disk ec') = Some (tx_ps t) /\
   (defer = false -> forall n, In n (tx_delete t) -> lookup n (dk_files (e_disk ec')) = None) /\
   NoDup (map fst (dk_files (e_disk ec')))) \/
  (rc = ROk /\ tx_create t = None /\ e_disk e' = apply_act (e_disk e) (ACommit (tx_ps t)) /\
   post_commit X ec ec' (e_disk e') (tx_ps t) /\ dk_meta (e_disk ec') = Some (tx_ps t) /\
   landed X (dels_of defer ROk t) ec e' ec' /\
   st_segs wc' = tx_segs t /\ st_tail wc' = tx_tail t) \/
  (rc <> ROk /\ st_failed wc' = true).

Lemma mutate_gen_lock X defer w t e ec r w' e' dl rc wc' ec' dlc : R X e ec ->
  mutate_gen defer w t e = (r, w', e', dl) -> mutate_gen defer w t ec = (rc, wc', ec', dlc) ->
  (r = rc /\ w' = wc' /\ dl = dlc /\ Rd X (dels_of defer rc t) ec e' ec' /\
   (rc <> ROk -> st_failed wc' = true)) \/
  (e_fault e' = None /\ r = RErrIO /\ dl = [] /\ w' = set_failed w /\
   commit_failed X defer t e ec e' rc wc' ec').
Proof.
  intros HR. unfold mutate_gen, commit_failed. fold (tx_ps t). fold (set_failed w).
  destruct (io_lock X (ACommit (tx_ps t)) e ec HR (conj I eq_refl))
    as (Ec & [(e1 & Er & HR1 & _)|[(e1 & Er & D & F & _)|(e1 & Er & _ & HR1 & D & F & _)]]); rewrite Ec, Er; cbn [negb].
  2:{ intros E1 _. inversion E1; subst. right. split; [exact F|]. split; [reflexivity|]. split; [reflexivity|].
      split; [reflexivity|]. left. exact D. }
  2:{ (* the commit is reported as failed and found applied: the shadow run goes on *)
      intros E1. inversion E1; subst. intros E2. right. split; [exact F|]. split; [reflexivity|]. split; [reflexivity|].
      split; [reflexivity|].
      set (ec1 := io_env (ACommit (tx_ps t)) ec) in *.
      assert (Ha1 : aext ec ec1) by apply aext_io.
      assert (Hpc : forall ecN, aext ec1 ecN -> post_commit X ec ecN (e_disk e') (tx_ps t)).
      { intros ecN HaN. exists (e_disk ec1). split; [apply HR1|].
        split; [eapply pfx_more; [apply (pfx_end ec ec1); exact Ha1|exact HaN]|].
        split; [reflexivity|]. split; [intros n _; reflexivity|]. split; [reflexivity|].
        intros n f Hl Hn. cbn [ec1 io_env e_disk apply_act dk_files] in Hl. congruence. }
      destruct (tx_create t) as [si|] eqn:Etc.
      - destruct (seg_create si ec1) as [swc ec2] eqn:Esc.
        pose proof (sh_seg_create si ec1 swc ec2 eq_refl Esc) as Hs2.
        destruct swc as [sw|]; [|inversion E2; subst; right; right; right; split; [discriminate|reflexivity]].
        destruct (seg_create_some _ _ _ _ Esc) as (_ & Hfresh).
        assert (Dc : e_disk ec2 = apply_act (e_disk ec1) (ACreate (name_of si) (si_size_limit si))).
        { revert Esc. unfold seg_create. destruct (si_base si =? 0); [discriminate|]. rewrite Hfresh.
          rewrite (io_ok _ _ (eq_refl : e_fault ec1 = None)). intros K; inversion K; reflexivity. }
        assert (ND2 : NoDup (map fst (dk_files (e_disk ec2)))).
        { rewrite Dc. cbn [apply_act dk_files]. apply update_NoDup. apply HR1. }
        assert (Hm2 : dk_meta (e_disk ec2) = Some (tx_ps t)) by (rewrite Dc; reflexivity).
        right. left. destruct defer; inversion E2; subst.
        + split; [reflexivity|]. split; [discriminate|]. split; [apply Hpc; apply Hs2|]. split; [exact Hm2|].
          split; [discriminate|exact ND2].
        + split; [reflexivity|]. split; [discriminate|].
          pose proof (sh_delete_files (tx_delete t) ec2 (proj2 Hs2)) as Hs3.
          split; [apply Hpc; eapply aext_trans; [apply Hs2|apply Hs3]|].
          rewrite (delete_files_disk _ _ (proj2 Hs2)). destruct (del_disk_meta (tx_delete t) (e_disk ec2)) as (M1 & _).
          split; [rewrite M1; exact Hm2|]. split; [|apply del_disk_NoDup; exact ND2]. intros _ n Hin.
          rewrite (del_disk_lookup _ _ n ND2).
          replace (mem_name n (tx_delete t)) with true; [reflexivity|]. symmetry. apply mem_name_spec. exact Hin.
      - right. right. left. destruct defer; inversion E2; subst; cbn [st_segs st_tail].
        + split; [reflexivity|]. split; [reflexivity|]. split; [exact D|].
          split; [apply Hpc; apply aext_refl|]. split; [reflexivity|].
          split; [exists ec1; split; [exact HR1|]; split; [reflexivity|exact Ha1]|]. auto.
        + split; [reflexivity|]. split; [reflexivity|]. split; [exact D|].
          pose proof (sh_delete_files (tx_delete t) ec1 eq_refl) as Hs3.
          split; [apply Hpc; apply Hs3|].
          rewrite (delete_files_disk _ _ (eq_refl : e_fault ec1 = None)). destruct (del_disk_meta (tx_delete t) (e_disk ec1)) as (M1 & _).
          split; [rewrite M1; reflexivity|].
          split; [exists ec1; split; [exact HR1|]; split; [reflexivity|exact Ha1]|]. auto. }
  set (ec1 := io_env (ACommit (tx_ps t)) ec) in *.
  assert (Ha1 : aext ec ec1) by apply aext_io.
  destruct (tx_create t) as [si|] eqn:Etc.
  - destruct (seg_create si e1) as [sw e2] eqn:Es. destruct (seg_create si ec1) as [swc ec2] eqn:Esc.
    destruct (seg_create_lock X si e1 ec1 sw e2 swc ec2 HR1 Es Esc) as (A1 & A2 & [(-> & HR2)|(-> & -> & F & Dc & Hreal)]).
    + destruct swc as [sw|].
      * destruct defer; intros E1 E2; inversion E1; inversion E2; subst; left.
        -- split; [reflexivity|]. split; [reflexivity|]. split; [reflexivity|]. split; [apply Rd_of_R; exact HR2|congruence].
        -- split; [reflexivity|]. split; [reflexivity|]. split; [reflexivity|]. split; [|congruence].
           apply (delete_files_Rd X (tx_delete t) e2 ec2 ec HR2). eapply aext_trans; eauto.
      * intros E1 E2; inversion E1; inversion E2; subst. left.
        split; [reflexivity|]. split; [reflexivity|]. split; [reflexivity|]. split; [apply Rd_of_R; exact HR2|reflexivity].
    + intros E1. inversion E1; subst. intros E2. right.
      split; [exact F|]. split; [reflexivity|]. split; [reflexivity|]. split; [reflexivity|]. right. left.
      assert (ND2 : NoDup (map fst (dk_files (e_disk ec2)))).
      { rewrite Dc. cbn [apply_act dk_files]. apply update_NoDup. apply HR1. }
      assert (Hm2 : dk_meta (e_disk ec2) = Some (tx_ps t)) by (rewrite Dc; reflexivity).
      assert (Hsh : shok ec2 ec' /\ rc = ROk /\ dk_meta (e_disk ec') = Some (tx_ps t) /\
                    (defer = false -> forall n, In n (tx_delete t) -> lookup n (dk_files (e_disk ec')) = None) /\
                    NoDup (map fst (dk_files (e_disk ec')))).
      { destruct defer; inversion E2; subst.
        - split; [apply shok_refl; exact A2|]. split; [reflexivity|]. split; [exact Hm2|]. split; [discriminate|exact ND2].
        - split; [apply sh_delete_files; exact A2|]. split; [reflexivity|].
          rewrite (delete_files_disk _ _ A2). destruct (del_disk_meta (tx_delete t) (e_disk ec2)) as (M1 & _).
          split; [rewrite M1; exact Hm2|]. split; [|apply del_disk_NoDup; exact ND2]. intros _ n Hin. rewrite (del_disk_lookup _ _ n ND2).
          replace (mem_name n (tx_delete t)) with true; [reflexivity|]. symmetry. apply mem_name_spec. exact Hin. }
      destruct Hsh as (Hsh & -> & Hm' & Hdel' & ND').
      split; [reflexivity|]. split; [discriminate|].
      assert (Hsl : seg_create si ec1 = (Some (new_wseg si), ec2)) by exact Esc.
      destruct (seg_create_some _ _ _ _ Hsl) as (_ & Hfresh).
      destruct Hreal as [Hd|Hd].
      * split; [|split; [exact Hm'|split; [exact Hdel'|exact ND']]].
        exists (e_disk ec1). split; [rewrite Hd; apply HR1|].
        split; [eapply pfx_more; [apply (pfx_end ec ec1); exact Ha1|]; eapply aext_trans; [exact A1|apply Hsh]|].
        split; [reflexivity|]. split; [intros n _; reflexivity|]. split; [reflexivity|].
        intros n f Hl Hn. cbn [ec1 io_env e_disk apply_act dk_files] in Hl. congruence.
      * split; [|split; [exact Hm'|split; [exact Hdel'|exact ND']]].
        exists (e_disk ec2). split; [exact Hd|].
        split; [eapply pfx_more; [apply (pfx_end ec ec2); eapply aext_trans; eauto|apply Hsh]|].
        split; [exact Hm2|]. split; [|split; [rewrite Dc; reflexivity|]].
        { intros n Hn. rewrite Dc. cbn [apply_act dk_files]. apply lookup_update_neq. intros ->. apply Hn. exact Hfresh. }
        intros n f Hl Hn. rewrite Dc in Hl. cbn [apply_act dk_files] in Hl.
        destruct (fname_eqb n (name_of si)) eqn:En.
        { apply fname_eqb_eq in En. subst n. rewrite lookup_update_eq in Hl. inversion Hl; reflexivity. }
        apply fname_eqb_neq in En. rewrite lookup_update_neq in Hl by exact En.
        cbn [ec1 io_env e_disk apply_act dk_files] in Hl. congruence.
  - destruct defer; intros E1 E2; inversion E1; inversion E2; subst; left.
    + split; [reflexivity|]. split; [reflexivity|]. split; [reflexivity|]. split; [apply Rd_of_R; exact HR1|congruence].
    + split; [reflexivity|]. split; [reflexivity|]. split; [reflexivity|]. split; [|congruence].
      apply (delete_files_Rd X (tx_delete t) e1 ec1 ec HR1 Ha1).
Qed.

Lemma mutate_lock X w t e ec r w' e' rc wc' ec' : R X e ec ->
  mutate w t e = (r, w', e') -> mutate w t ec = (rc, wc', ec') ->
  (r = rc /\ w' = wc' /\ Rd X (dels_of false rc t) ec e' ec' /\
   (rc <> ROk -> st_failed wc' = true)) \/
  (e_fault e' = None /\ r = RErrIO /\ w' = set_failed w /\ commit_failed X false t e ec e' rc wc' ec').
Proof.
  intros HR. unfold mutate.
  destruct (mutate_gen false w t e) as [[[r0 w0] e0] d0] eqn:E1.
  destruct (mutate_gen false w t ec) as [[[rc0 wc0] ec0] dc0] eqn:E2.
  intros K1 K2; inversion K1; inversion K2; subst.
  destruct (mutate_gen_lock X false w t e ec _ _ _ _ _ _ _ _ HR E1 E2) as [(A & B & C & D & F)|(A & B & C & D & F)].
  - left. auto.
  - right. auto.
Qed.
