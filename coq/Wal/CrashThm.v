(* CrashThm.v -- corollaries of the crash-refinement theorem in the form used by
   Props/C01..C04, C13: what holds after ANY history of calls, crashes (at any
   I/O boundary, with any adversary choice, also inside recovery) and reopens. *)
From RW Require Import Base.Bytes Base.BytesFacts Fmt.Codec Fmt.CodecFacts Fmt.Frame Wal.Model Wal.Spec Wal.Hist
  Wal.CrashInv Wal.CrashFacts0 Wal.CrashFacts1 Wal.CrashFacts2 Wal.CrashFacts3 Wal.CrashFacts4 Wal.CrashFacts5
  Wal.CrashFacts6 Wal.CrashGlue Wal.CrashCalls1 Wal.CrashCalls2 Wal.CrashCalls3 Wal.CrashCalls4 Wal.CrashCalls5
  Wal.CrashCalls6 Wal.CrashCalls7 Wal.CrashCalls8 Wal.CrashCalls9 Wal.CrashCalls10 Gen.Constants.
From Coq Require Import ZifyN ZifyNat ZifyBool.
Open Scope N_scope.

Definition hist_ok (c : cfg) (steps : list hstep) : Prop :=
  cfg_ok c /\ Forall hstep_wf steps /\ short_enough steps.

Theorem hist_invariant c steps :
  hist_ok c steps -> GI c (2 * N.of_nat (length steps)) (hist_run c hist_init steps).
Proof.
  intros (Hc & Hwf & Hshort).
  assert (Hb : 0 + 2 * N.of_nat (length steps) < two64).
  { unfold short_enough in Hshort. unfold two64. lia. }
  apply (GI_run c (fun _ => True) steps 0 hist_init Hc (fun o _ => call_ok_all c o) Hb Hwf); [|apply GI_init].
  rewrite Forall_forall. intros st _. destruct st; exact I.
Qed.

Lemma short_bound {A} (steps : list A) : short_enough steps -> 2 * N.of_nat (length steps) + 2 < two64.
Proof. unfold short_enough, two64. lia. Qed.

(* ---- after a crash: Open succeeds, yields acked or may, exact directory ---- *)
Theorem recovery_after_any_history c steps d :
  hist_ok c steps -> hs_mode (hist_run c hist_init steps) = Down d ->
  exists w e, open_wal c (env_of d) = (OOk w, e) /\
    ({| sp_log := abs w (e_disk e); sp_kv := dk_stable (e_disk e) |} = hs_acked (hist_run c hist_init steps) \/
     {| sp_log := abs w (e_disk e); sp_kv := dk_stable (e_disk e) |} = hs_may (hist_run c hist_init steps)) /\
    dir_exact (e_disk e) = true /\ Forall not_fail (e_acts e).
Proof.
  intros Hok Hmode. pose proof (hist_invariant c steps Hok) as (_ & _ & _ & HM). rewrite Hmode in HM.
  destruct HM as (HD & HN & Hsp). destruct Hok as (Hc & _ & Hshort). pose proof (short_bound steps Hshort) as Hb.
  destruct (open_wal_ok c _ (env_of d) Hc eq_refl HD HN) as (w & e & Ho & Hext & HL & Hde); [lia|].
  exists w, e. split; [exact Ho|]. pose proof (ext_final _ _ _ Hext) as (_ & _ & Hs').
  rewrite (LInv_abs _ _ _ _ HL). fold (sp_of (e_disk e)). rewrite Hs'. cbn [env_of e_disk].
  split; [exact Hsp|]. split; [exact Hde|]. apply (ext_nofail _ _ _ Hext). constructor.
Qed.

(* ---- a running state reads exactly the ledger ---- *)
Lemma result_class_log r l : result_eqb (res_class r) (RLog l) = true -> r = RLog l.
Proof. destruct r; cbn; try discriminate. intros H. apply log_eqb_eq in H. subst. reflexivity. Qed.
Lemma result_class_notfound r : result_eqb (res_class r) RErrNotFound = true -> r = RErrNotFound.
Proof. destruct r; cbn; try discriminate. reflexivity. Qed.
Lemma result_class_ok r : result_eqb (res_class r) ROk = true -> r = ROk.
Proof. destruct r; cbn; try discriminate. reflexivity. Qed.

Theorem live_state_is_ledger c steps s :
  hist_ok c steps -> hs_mode (hist_run c hist_init steps) = Up s ->
  let a := hs_acked (hist_run c hist_init steps) in
  hs_may (hist_run c hist_init steps) = a /\
  {| sp_log := abs (ss_wal s) (e_disk (ss_env s)); sp_kv := dk_stable (e_disk (ss_env s)) |} = a /\
  (forall i, fst (get_log (ss_wal s) i (ss_env s)) =
             match spec_get (sp_log a) i with Some l => RLog l | None => RErrNotFound end) /\
  first_index_op (ss_wal s) = RVal (spec_first (sp_log a)) /\
  last_index_op (ss_wal s) = RVal (spec_last (sp_log a)) /\
  (forall k, fst (get_stable (ss_wal s) k (ss_env s)) = RBytes (kv_get k (sp_kv a))) /\
  Forall not_fail (e_acts (ss_env s)).
Proof.
  intros Hok Hmode a. pose proof (hist_invariant c steps Hok) as (_ & Hga & _ & HM). rewrite Hmode in HM.
  destruct HM as (Hma & HL & Hf & Hsp & Hnf). fold a in Hma, Hsp, Hga.
  split; [exact Hma|]. split; [rewrite (LInv_abs _ _ _ _ HL); exact Hsp|].
  destruct (LInv_view _ _ _ _ HL) as (S & t & f & tw & V).
  split.
  { intros i. destruct (get_log_ok c _ (ss_wal s) (ss_env s) S t f tw a i V Hsp Hga) as (r & x & y & Hgl & Hres).
    rewrite Hgl. cbn [fst step_spec] in *. destruct (spec_get (sp_log a) i) as [l|]; cbn [fst] in Hres.
    - apply result_class_log. exact Hres.
    - apply result_class_notfound. exact Hres. }
  split; [unfold first_index_op; rewrite (lv_closed _ _ _ _ _ _ _ _ V), (lv_first V), <- Hsp; reflexivity|].
  split; [unfold last_index_op; rewrite (lv_closed _ _ _ _ _ _ _ _ V), (lv_last V), <- Hsp; reflexivity|].
  split; [|exact Hnf].
  intros k. unfold get_stable. rewrite (lv_closed _ _ _ _ _ _ _ _ V). cbn [fst]. rewrite <- Hsp. reflexivity.
Qed.

(* ---- every file id is below the committed next id, in every reachable disk ---- *)
Definition disk_of (h : hstate) : disk :=
  match hs_mode h with Up s => e_disk (ss_env s) | Down d => d end.

Theorem ids_below_next c steps ps n f :
  hist_ok c steps -> dk_meta (disk_of (hist_run c hist_init steps)) = Some ps ->
  lookup n (dk_files (disk_of (hist_run c hist_init steps))) = Some f -> snd n < ps_next_id ps.
Proof.
  intros Hok Hm Hl. pose proof (hist_invariant c steps Hok) as (_ & _ & _ & HM). unfold disk_of in *.
  assert (HD : DIs c (2 * N.of_nat (length steps)) (match hs_mode (hist_run c hist_init steps) with Up s => e_disk (ss_env s) | Down d => d end)).
  { destruct (hs_mode (hist_run c hist_init steps)); [apply HM|apply HM]. }
  apply (DIs_unfold _ _ _ ps Hm) in HD. destruct HD as (_ & _ & Hid & _). eapply Hid; eauto.
Qed.

(* ---- the spec keeps an entry until a DeleteRange covers its index ---- *)
Definition covers (i : N) (o : sop) : Prop :=
  match o with ODelete mn mx => mn <= i /\ i <= mx | _ => False end.

Lemma spec_get_slog_some first es i l :
  spec_get {| sl_first := first; sl_ents := es |} i = Some l <->
  first <= i /\ nth_error es (N.to_nat (i - first)) = Some l.
Proof.
  unfold spec_get, spec_last, sl_is_empty. cbn [sl_ents sl_first]. destruct es as [|x r].
  - cbn [orb]. split; [discriminate|]. intros (_ & H). destruct (N.to_nat (i - first)); discriminate.
  - cbn [orb]. destruct ((i <? first) || (first + llen (x :: r) - 1 <? i)) eqn:E.
    + split; [discriminate|]. intros (H1 & H2). exfalso.
      assert (nth_error (x :: r) (N.to_nat (i - first)) <> None) by congruence.
      apply nth_error_Some in H. unfold llen in E. lia.
    + split; [intros H; split; [lia|exact H]|intros (_ & H); exact H].
Qed.

Lemma slog_eta s : s = {| sl_first := sl_first s; sl_ents := sl_ents s |}.
Proof. destruct s; reflexivity. Qed.

Lemma spec_get_preserved a o i l :
  spec_get (sp_log a) i = Some l -> ~ covers i o ->
  spec_get (sp_log (snd (step_spec a o))) i = Some l.
Proof.
  intros Hg Hc. destruct o; cbn [step_spec]; try exact Hg.
  - (* store *)
    unfold spec_store. destruct ls as [|l0 r]; [exact Hg|].
    destruct (consecutive (l_index l0) (l0 :: r) && (sl_is_empty (sp_log a) || (l_index l0 =? spec_last (sp_log a) + 1))); [|exact Hg].
    cbn [snd sp_log]. rewrite (slog_eta (sp_log a)) in Hg. apply spec_get_slog_some in Hg. destruct Hg as (H1 & H2).
    assert (Hne : sl_is_empty (sp_log a) = false).
    { unfold sl_is_empty. destruct (sl_ents (sp_log a)); [destruct (N.to_nat (i - sl_first (sp_log a))); discriminate|reflexivity]. }
    rewrite Hne. apply spec_get_slog_some. split; [exact H1|].
    rewrite nth_error_app1; [exact H2|]. apply nth_error_Some. congruence.
  - (* delete *)
    cbn [covers] in Hc. unfold spec_delete.
    destruct ((mx <? mn) || sl_is_empty (sp_log a) || (mx <? sl_first (sp_log a)) || (spec_last (sp_log a) <? mn)) eqn:E0; [exact Hg|].
    pose proof Hg as Hg0. rewrite (slog_eta (sp_log a)) in Hg. apply spec_get_slog_some in Hg. destruct Hg as (H1 & H2).
    assert (Hlt : (N.to_nat (i - sl_first (sp_log a)) < length (sl_ents (sp_log a)))%nat) by (apply nth_error_Some; congruence).
    assert (Hlast : i <= spec_last (sp_log a)).
    { unfold spec_last. destruct (sl_is_empty (sp_log a)) eqn:Ee; [lia|]. unfold llen. lia. }
    destruct (mn <=? sl_first (sp_log a)) eqn:E1.
    + destruct (spec_last (sp_log a) <=? mx) eqn:E2; cbn [snd sp_log]; [exfalso; apply Hc; lia|].
      apply spec_get_slog_some. assert (Hi : mx < i) by lia. split; [lia|].
      rewrite nth_error_skipn'. rewrite <- H2. f_equal. lia.
    + destruct (spec_last (sp_log a) <=? mx) eqn:E2; cbn [snd sp_log]; [|exact Hg0].
      apply spec_get_slog_some. split; [exact H1|]. assert (Hi : i < mn) by lia.
      rewrite nth_error_firstn' by lia. exact H2.
  - destruct (spec_get (sp_log a) i0); exact Hg.
  - destruct (key_ok k); [exact Hg|]. destruct is_nil; exact Hg.
Qed.

Definition touches (i : N) (st : hstep) : Prop :=
  match st with HOp o | HCrashIn o _ _ => covers i o | _ => False end.

Lemma ledger_step c h st i l :
  spec_get (sp_log (hs_acked h)) i = Some l -> spec_get (sp_log (hs_may h)) i = Some l -> ~ touches i st ->
  spec_get (sp_log (hs_acked (hstep_run c h st))) i = Some l /\
  spec_get (sp_log (hs_may (hstep_run c h st))) i = Some l.
Proof.
  intros Ha Hm Ht. unfold hstep_run. destruct (hs_mode h) as [s|d]; destruct st as [o|o j cc| |j cc]; auto.
  - destruct (step_model c s o) as [r s']. pose proof (spec_get_preserved (hs_acked h) o i l Ha Ht) as Hp.
    destruct (step_spec (hs_acked h) o) as [r' sp']. cbn [snd hs_acked hs_may] in *. auto.
  - destruct (step_model c s o) as [r s']. pose proof (spec_get_preserved (hs_acked h) o i l Ha Ht) as Hp.
    destruct (step_spec (hs_acked h) o) as [r' sp']. cbn [snd] in Hp.
    destruct (Nat.leb _ j); cbn [hs_acked hs_may]; auto.
  - destruct (open_wal c (env_of d)) as [[w|x] e]; cbn [hs_acked hs_may]; [|auto].
    destruct (spst_eqb _ (hs_acked h)); auto.
  - destruct (open_wal c (env_of d)) as [o e]. cbn [hs_acked hs_may]. auto.
Qed.

Lemma ledger_run c steps : forall h i l,
  spec_get (sp_log (hs_acked h)) i = Some l -> spec_get (sp_log (hs_may h)) i = Some l ->
  Forall (fun st => ~ touches i st) steps ->
  spec_get (sp_log (hs_acked (hist_run c h steps))) i = Some l /\
  spec_get (sp_log (hs_may (hist_run c h steps))) i = Some l.
Proof.
  unfold hist_run. induction steps as [|st steps IH]; intros h i l Ha Hm Hn; [auto|].
  inversion Hn as [|? ? H1 H2]; subst. cbn [fold_left].
  destruct (ledger_step c h st i l Ha Hm H1) as (Ha' & Hm'). apply IH; auto.
Qed.

(* an acknowledged StoreLogs puts its entries into the ledger *)
Lemma consecutive_nth ls : forall i k l, consecutive i ls = true -> nth_error ls k = Some l -> l_index l = i + N.of_nat k.
Proof.
  induction ls as [|x r IH]; intros i k l Hc Hn; [destruct k; discriminate|].
  cbn [consecutive] in Hc. apply andb_true_iff in Hc. destruct Hc as (Hi & Hc). apply N.eqb_eq in Hi.
  destruct k as [|k]; cbn in Hn.
  - inversion Hn; subst. lia.
  - rewrite (IH (i + 1) k l Hc Hn). lia.
Qed.

Lemma spec_store_get a ls k l :
  fst (step_spec a (OStore ls)) = ROk -> nth_error ls k = Some l ->
  spec_get (sp_log (snd (step_spec a (OStore ls)))) (l_index l) = Some l.
Proof.
  intros Hok Hn. cbn [step_spec] in *. unfold spec_store in *. destruct ls as [|l0 r]; [destruct k; discriminate|].
  destruct (consecutive (l_index l0) (l0 :: r) && (sl_is_empty (sp_log a) || (l_index l0 =? spec_last (sp_log a) + 1))) eqn:E;
    [|discriminate]. cbn [snd sp_log]. apply andb_true_iff in E. destruct E as (Hc & He).
  pose proof (consecutive_nth _ _ _ _ Hc Hn) as Hidx.
  apply spec_get_slog_some. destruct (sl_is_empty (sp_log a)) eqn:Ee.
  - unfold sl_is_empty in Ee. destruct (sl_ents (sp_log a)) eqn:Es; [|discriminate]. cbn [app].
    split; [lia|]. replace (N.to_nat (l_index l - l_index l0)) with k by lia. exact Hn.
  - cbn [orb] in He. apply N.eqb_eq in He. unfold spec_last in He. rewrite Ee in He.
    assert (Hpos : 0 < llen (sl_ents (sp_log a))).
    { unfold sl_is_empty in Ee. destruct (sl_ents (sp_log a)); [discriminate|]. rewrite llen_cons. lia. }
    split; [lia|]. rewrite nth_error_app2 by (unfold llen in *; lia).
    replace (N.to_nat (l_index l - sl_first (sp_log a)) - length (sl_ents (sp_log a)))%nat with k by (unfold llen in *; lia).
    exact Hn.
Qed.

Lemma hist_run_app c h a b : hist_run c h (a ++ b) = hist_run c (hist_run c h a) b.
Proof. unfold hist_run. apply fold_left_app. Qed.
