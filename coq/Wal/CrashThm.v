(* CrashThm.v -- corollaries of the crash-refinement theorem in the form used by
   Props/C01..C04, C13: what holds after ANY history of calls, crashes (at any
   I/O boundary, with any adversary choice, also inside recovery) and reopens. *)
From RW Require Import Base.Bytes Base.BytesFacts Fmt.Codec Fmt.CodecFacts Fmt.Frame Wal.Model Wal.Spec Wal.Hist
  Wal.CrashInv Wal.CrashFacts0 Wal.CrashFacts1 Wal.CrashFacts2 Wal.CrashFacts3 Wal.CrashFacts4 Wal.CrashFacts5
  Wal.CrashFacts6 Wal.CrashGlue Wal.CrashCalls1 Wal.CrashCalls2 Wal.CrashCalls3 Wal.CrashCalls4 Wal.CrashCalls5
  Wal.CrashCalls6 Wal.CrashCalls7 Wal.CrashCalls8 Wal.CrashCalls9 Wal.CrashCalls10 Gen.Constants.
From Coq Require Import ZifyN ZifyNat ZifyBool.
Open Scope N_scope.

Definition hist_ok (c : cfg) (steps : list hstep) : Prop :=
  cfg_ok c /\ Forall hstep_wf steps /\ short_enough steps.

Theorem hist_invariant c steps :
  hist_ok c steps -> GI c (2 * N.of_nat (length steps)) (hist_run c hist_init steps).
Proof.
  intros (Hc & Hwf & Hshort).
  assert (Hb : 0 + 2 * N.of_nat (length steps) < two64).
  { unfold short_enough in Hshort. unfold two64. lia. }
  apply (GI_run c (fun _ => True) steps 0 hist_init Hc (fun o _ => call_ok_all c o) Hb Hwf); [|apply GI_init].
  rewrite Forall_forall. intros st _. destruct st; exact I.
Qed.

Lemma short_bound {A} (steps : list A) : short_enough steps -> 2 * N.of_nat (length steps) + 2 < two64.
Proof. unfold short_enough, two64. lia. Qed.

(* ---- after a crash: Open succeeds, yields acked or may, exact directory ---- *)
Theorem recovery_after_any_history c steps d :
  hist_ok c steps -> hs_mode (hist_run c hist_init steps) = Down d ->
  exists w e, open_wal c (env_of d) = (OOk w, e) /\
    ({| sp_log := abs w (e_disk e); sp_kv := dk_stable (e_disk e) |} = hs_acked (hist_run c hist_init steps) \/
     {| sp_log := abs w (e_disk e); sp_kv := dk_stable (e_disk e) |} = hs_may (hist_run c hist_init steps)) /\
    dir_exact (e_disk e) = true /\ Forall not_fail (e_acts e).
Proof.
  intros Hok Hmode. pose proof (hist_invariant c steps Hok) as (_ & _ & _ & HM). rewrite Hmode in HM.
  destruct HM as (HD & HN & Hsp). destruct Hok as (Hc & _ & Hshort). pose proof (short_bound steps Hshort) as Hb.
  destruct (open_wal_ok c _ (env_of d) Hc eq_refl HD HN) as (w & e & Ho & Hext & HL & Hde); [lia|].
  exists w, e. split; [exact Ho|]. pose proof (ext_final _ _ _ Hext) as (_ & _ & Hs').
  rewrite (LInv_abs _ _ _ _ HL). fold (sp_of (e_disk e)). rewrite Hs'. cbn [env_of e_disk].
  split; [exact Hsp|]. split; [exact Hde|]. apply (ext_nofail _ _ _ Hext). constructor.
Qed.

(* ---- a running state reads exactly the ledger ---- *)
Lemma result_class_log r l : result_eqb (res_class r) (RLog l) = true -> r = RLog l.
Proof. destruct r; cbn; try discriminate. intros H. apply log_eqb_eq in H. subst. reflexivity. Qed.
Lemma result_class_notfound r : result_eqb (res_class r) RErrNotFound = true -> r = RErrNotFound.
Proof. destruct r; cbn; try discriminate. reflexivity. Qed.
Lemma result_class_ok r : result_eqb (res_class r) ROk = true -> r = ROk.
Proof. destruct r; cbn; try discriminate. reflexivity. Qed.

Theorem live_state_is_ledger c steps s :
  hist_ok c steps -> hs_mode (hist_run c hist_init steps) = Up s ->
  let a := hs_acked (hist_run c hist_init steps) in
  hs_may (hist_run c hist_init steps) = a /\
  {| sp_log := abs (ss_wal s) (e_disk (ss_env s)); sp_kv := dk_stable (e_disk (ss_env s)) |} = a /\
  (forall i, fst (get_log (ss_wal s) i (ss_env s)) =
             match spec_get (sp_log a) i with Some l => RLog l | None => RErrNotFound end) /\
  first_index_op (ss_wal s) = RVal (spec_first (sp_log a)) /\
  last_index_op (ss_wal s) = RVal (spec_last (sp_log a)) /\
  (forall k, fst (get_stable (ss_wal s) k (ss_env s)) = RBytes (kv_get k (sp_kv a))) /\
  Forall not_fail (e_acts (ss_env s)).
Proof.
  intros Hok Hmode a. pose proof (hist_invariant c steps Hok) as (_ & Hga & _ & HM). rewrite Hmode in HM.
  destruct HM as (Hma & HL & Hf & Hsp & Hnf). fold a in Hma, Hsp, Hga.
  split; [exact Hma|]. split; [rewrite (LInv_abs _ _ _ _ HL); exact Hsp|].
  destruct (LInv_view _ _ _ _ HL) as (S & t & f & tw & V).
  split.
  { intros i. destruct (get_log_ok c _ (ss_wal s) (ss_env s) S t f tw a i V Hsp Hga) as (r & x & y & Hgl & Hres).
    rewrite Hgl. cbn [fst step_spec] in *. destruct (spec_get (sp_log a) i) as [l|]; cbn [fst] in Hres.
    - apply result_class_log. exact Hres.
    - apply result_class_notfound. exact Hres. }
  split; [unfold first_index_op; rewrite (lv_closed _ _ _ _ _ _ _ _ V), (lv_first V), <- Hsp; reflexivity|].
  split; [unfold last_index_op; rewrite (lv_closed _ _ _ _ _ _ _ _ V), (lv_last V), <- Hsp; reflexivity|].
  split; [|exact Hnf].
  intros k. unfold get_stable. rewrite (lv_closed _ _ _ _ _ _ _ _ V). cbn [fst]. rewrite <- Hsp. reflexivity.
Qed.

(* ---- every file id is below the committed next id, in every reachable disk ---- *)
Definition disk_of (h : hstate) : disk :=
  match hs_mode h with Up s => e_disk (ss_env s) | Down d => d end.

Theorem ids_below_next c steps ps n f :
  hist_ok c steps -> dk_meta (disk_of (hist_run c hist_init steps)) = Some ps ->
  lookup n (dk_files (disk_of (hist_run c hist_init steps))) = Some f -> snd n < ps_next_id ps.
Proof.
  intros Hok Hm Hl. pose proof (hist_invariant c steps Hok) as (_ & _ & _ & HM). unfold disk_of in *.
  assert (HD : DIs c (2 * N.of_nat (length steps)) (match hs_mode (hist_run c hist_init steps) with Up s => e_disk (ss_env s) | Down d => d end)).
  { destruct (hs_mode (hist_run c hist_init steps)); [apply HM|apply HM]. }
  apply (DIs_unfold _ _ _ ps Hm) in HD. destruct HD as (_ & _ & Hid & _). eapply Hid; eauto.
Qed.

(* ---- the spec keeps an entry until a DeleteRange covers its index ---- *)
Definition covers (i : N) (o : sop) : Prop :=
  match o with ODelete mn mx => mn <= i /\ i <= mx | _ => False end.

Lemma spec_get_slog_some first es i l :
  spec_get {| sl_first := first; sl_ents := es |} i = Some l <->
  first <= i /\ nth_error es (N.to_nat (i - first)) = Some l.
Proof.
  unfold spec_get, spec_last, sl_is_empty. cbn [sl_ents sl_first]. destruct es as [|x r].
  - cbn [orb]. split; [discriminate|]. intros (_ & H). destruct (N.to_nat (i - first)); discriminate.
  - cbn [orb]. destruct ((i <? first) || (first + llen (x :: r) - 1 <? i)) eqn:E.
    + split; [discriminate|]. intros (H1 & H2). exfalso.
      assert (nth_error (x :: r) (N.to_nat (i - first)) <> None) by congruence.
      apply nth_error_Some in H. unfold llen in E. lia.
    + split; [intros H; split; [lia|exact H]|intros (_ & H); exact H].
Qed.

Lemma slog_eta s : s = {| sl_first := sl_first s; sl_ents := sl_ents s |}.
Proof. destruct s; reflexivity. Qed.

Lemma spec_get_preserved a o i l :
  spec_get (sp_log a) i = Some l -> ~ covers i o ->
  spec_get (sp_log (snd (step_spec a o))) i = Some l.
Proof.
  intros Hg Hc. destruct o; cbn [step_spec]; try exact Hg.
  - (* store *)
    unfold spec_store. destruct ls as [|l0 r]; [exact Hg|].
    destruct (consecutive (l_index l0) (l0 :: r) && (sl_is_empty (sp_log a) || (l_index l0 =? spec_last (sp_log a) + 1))); [|exact Hg].
    cbn [snd sp_log]. rewrite (slog_eta (sp_log a)) in Hg. apply spec_get_slog_some in Hg. destruct Hg as (H1 & H2).
    assert (Hne : sl_is_empty (sp_log a) = false).
    { unfold sl_is_empty. destruct (sl_ents (sp_log a)); [destruct (N.to_nat (i - sl_first (sp_log a))); discriminate|reflexivity]. }
    rewrite Hne. apply spec_get_slog_some. split; [exact H1|].
    rewrite nth_error_app1; [exact H2|]. apply nth_error_Some. congruence.
  - (* delete *)
    cbn [covers] in Hc. unfold spec_delete.
    destruct ((mx <? mn) || sl_is_empty (sp_log a) || (mx <? sl_first (sp_log a)) || (spec_last (sp_log a) <? mn)) eqn:E0; [exact Hg|].
    pose proof Hg as Hg0. rewrite (slog_eta (sp_log a)) in Hg. apply spec_get_slog_some in Hg. destruct Hg as (H1 & H2).
    assert (Hlt : (N.to_nat (i - sl_first (sp_log a)) < length (sl_ents (sp_log a)))%nat) by (apply nth_error_Some; congruence).
    assert (Hlast : i <= spec_last (sp_log a)).
    { unfold spec_last. destruct (sl_is_empty (sp_log a)) eqn:Ee; [lia|]. unfold llen. lia. }
    destruct (mn <=? sl_first (sp_log a)) eqn:E1.
    + destruct (spec_last (sp_log a) <=? mx) eqn:E2; cbn [snd sp_log]; [exfalso; apply Hc; lia|].
      apply spec_get_slog_some. assert (Hi : mx < i) by lia. split; [lia|].
      rewrite nth_error_skipn'. rewrite <- H2. f_equal. lia.
    + destruct (spec_last (sp_log a) <=? mx) eqn:E2; cbn [snd sp_log]; [|exact Hg0].
      apply spec_get_slog_some. split; [exact H1|]. assert (Hi : i < mn) by lia.
      rewrite nth_error_firstn' by lia. exact H2.
  - destruct (spec_get (sp_log a) i0); exact Hg.
  - destruct (key_ok k); [exact Hg|]. destruct is_nil; exact Hg.
Qed.

Definition touches (i : N) (st : hstep) : Prop :=
  match st with HOp o | HCrashIn o _ _ => covers i o | _ => False end.

Lemma ledger_step c h st i l :
  spec_get (sp_log (hs_acked h)) i = Some l -> spec_get (sp_log (hs_may h)) i = Some l -> ~ touches i st ->
  spec_get (sp_log (hs_acked (hstep_run c h st))) i = Some l /\
  spec_get (sp_log (hs_may (hstep_run c h st))) i = Some l.
Proof.
  intros Ha Hm Ht. unfold hstep_run. destruct (hs_mode h) as [s|d]; destruct st as [o|o j cc| |j cc]; auto.
  - destruct (step_model c s o) as [r s']. pose proof (spec_get_preserved (hs_acked h) o i l Ha Ht) as Hp.
    destruct (step_spec (hs_acked h) o) as [r' sp']. cbn [snd hs_acked hs_may] in *. auto.
  - destruct (step_model c s o) as [r s']. pose proof (spec_get_preserved (hs_acked h) o i l Ha Ht) as Hp.
    destruct (step_spec (hs_acked h) o) as [r' sp']. cbn [snd] in Hp.
    destruct (Nat.leb _ j); cbn [hs_acked hs_may]; auto.
  - destruct (open_wal c (env_of d)) as [[w|x] e]; cbn [hs_acked hs_may]; [|auto].
    destruct (spst_eqb _ (hs_acked h)); auto.
  - destruct (open_wal c (env_of d)) as [o e]. cbn [hs_acked hs_may]. auto.
Qed.

Lemma ledger_run c steps : forall h i l,
  spec_get (sp_log (hs_acked h)) i = Some l -> spec_get (sp_log (hs_may h)) i = Some l ->
  Forall (fun st => ~ touches i st) steps ->
  spec_get (sp_log (hs_acked (hist_run c h steps))) i = Some l /\
  spec_get (sp_log (hs_may (hist_run c h steps))) i = Some l.
Proof.
  unfold hist_run. induction steps as [|st steps IH]; intros h i l Ha Hm Hn; [auto|].
  inversion Hn as [|? ? H1 H2]; subst. cbn [fold_left].
  destruct (ledger_step c h st i l Ha Hm H1) as (Ha' & Hm'). apply IH; auto.
Qed.

(* an acknowledged StoreLogs puts its entries into the ledger *)
Lemma consecutive_nth ls : forall i k l, consecutive i ls = true -> nth_error ls k = Some l -> l_index l = i + N.of_nat k.
Proof.
  induction ls as [|x r IH]; intros i k l Hc Hn; [destruct k; discriminate|].
  cbn [consecutive] in Hc. apply andb_true_iff in Hc. destruct Hc as (Hi & Hc). apply N.eqb_eq in Hi.
  destruct k as [|k]; cbn in Hn.
  - inversion Hn; subst. lia.
  - rewrite (IH (i + 1) k l Hc Hn). lia.
Qed.

Lemma spec_store_get a ls k l :
  fst (step_spec a (OStore ls)) = ROk -> nth_error ls k = Some l ->
  spec_get (sp_log (snd (step_spec a (OStore ls)))) (l_index l) = Some l.
Proof.
  intros Hok Hn. cbn [step_spec] in *. unfold spec_store in *. destruct ls as [|l0 r]; [destruct k; discriminate|].
  destruct (consecutive (l_index l0) (l0 :: r) && (sl_is_empty (sp_log a) || (l_index l0 =? spec_last (sp_log a) + 1))) eqn:E;
    [|discriminate]. cbn [snd sp_log]. apply andb_true_iff in E. destruct E as (Hc & He).
  pose proof (consecutive_nth _ _ _ _ Hc Hn) as Hidx.
  apply spec_get_slog_some. destruct (sl_is_empty (sp_log a)) eqn:Ee.
  - unfold sl_is_empty in Ee. destruct (sl_ents (sp_log a)) eqn:Es; [|discriminate]. cbn [app].
    split; [lia|]. replace (N.to_nat (l_index l - l_index l0)) with k by lia. exact Hn.
  - cbn [orb] in He. apply N.eqb_eq in He. unfold spec_last in He. rewrite Ee in He.
    assert (Hpos : 0 < llen (sl_ents (sp_log a))).
    { unfold sl_is_empty in Ee. destruct (sl_ents (sp_log a)); [discriminate|]. rewrite llen_cons. lia. }
    split; [lia|]. rewrite nth_error_app2 by (unfold llen in *; lia).
    replace (N.to_nat (l_index l - sl_first (sp_log a)) - length (sl_ents (sp_log a)))%nat with k by (unfold llen in *; lia).
    exact Hn.
Qed.

Lemma hist_run_app c h a b : hist_run c h (a ++ b) = hist_run c (hist_run c h a) b.
Proof. unfold hist_run. apply fold_left_app. Qed.

(* ---- prefixes of good histories ---- *)
Lemma hist_ok_prefix c a b : hist_ok c (a ++ b) -> hist_ok c a.
Proof.
  intros (Hc & Hwf & Hs). split; [exact Hc|]. split; [apply Forall_app in Hwf; apply Hwf|].
  unfold short_enough in *. rewrite app_length in Hs. lia.
Qed.

Lemma result_eqb_eq a b : result_eqb a b = true -> a = b.
Proof.
  destruct a, b; cbn; try discriminate; try reflexivity; intros H.
  - apply N.eqb_eq in H. subst; reflexivity.
  - apply log_eqb_eq in H. subst; reflexivity.
  - apply beq_bytes_eq in H. subst; reflexivity.
Qed.

(* what one complete call does to the history state *)
Lemma hstep_run_op c h s o :
  hs_mode h = Up s ->
  hs_acked (hstep_run c h (HOp o)) = snd (step_spec (hs_acked h) o) /\
  hs_may (hstep_run c h (HOp o)) = snd (step_spec (hs_acked h) o) /\
  hs_mode (hstep_run c h (HOp o)) = Up (snd (step_model c s o)).
Proof.
  intros Hm. unfold hstep_run. rewrite Hm. destruct (step_model c s o) as [r s'].
  destruct (step_spec (hs_acked h) o) as [r' sp']. cbn. auto.
Qed.

(* every call's result and resulting state are the spec's, after any history *)
Theorem every_call_matches_spec c steps s o :
  hist_ok c (steps ++ [HOp o]) -> hs_mode (hist_run c hist_init steps) = Up s ->
  res_class (fst (step_model c s o)) = fst (step_spec (hs_acked (hist_run c hist_init steps)) o) /\
  {| sp_log := abs (ss_wal (snd (step_model c s o))) (e_disk (ss_env (snd (step_model c s o))));
     sp_kv := dk_stable (e_disk (ss_env (snd (step_model c s o)))) |}
  = snd (step_spec (hs_acked (hist_run c hist_init steps)) o).
Proof.
  intros Hok Hmode. pose proof (hist_ok_prefix _ _ _ Hok) as Hok0.
  pose proof (hist_invariant c steps Hok0) as (_ & Hga & _ & HM). rewrite Hmode in HM.
  destruct HM as (Hma & HL & Hf & Hsp & Hnf).
  destruct Hok as (Hc & Hwf & Hshort). apply Forall_app in Hwf. destruct Hwf as (_ & Hwo).
  inversion Hwo as [|? ? Ho _]; subst. cbn [hstep_wf] in Ho.
  assert (Hb : 2 * N.of_nat (length steps) + 2 < two64).
  { unfold short_enough in Hshort. rewrite app_length in Hshort. cbn [length] in Hshort. unfold two64. lia. }
  destruct (call_ok_all c o _ s _ Hc Ho Hb HL Hf Hsp Hga) as (r & s' & Hst & Hres & HL' & Hs' & _).
  rewrite Hst. cbn [fst snd]. split; [apply result_eqb_eq; exact Hres|].
  rewrite (LInv_abs _ _ _ _ HL'). exact Hs'.
Qed.

(* a call interrupted by a crash at any point is applied in full or not at all *)
Theorem interrupted_call_atomic c steps s o j cc d :
  hist_ok c (steps ++ [HCrashIn o j cc]) -> hs_mode (hist_run c hist_init steps) = Up s ->
  hs_mode (hist_run c hist_init (steps ++ [HCrashIn o j cc])) = Down d ->
  exists w e, open_wal c (env_of d) = (OOk w, e) /\
    ({| sp_log := abs w (e_disk e); sp_kv := dk_stable (e_disk e) |} = hs_acked (hist_run c hist_init steps) \/
     {| sp_log := abs w (e_disk e); sp_kv := dk_stable (e_disk e) |} = snd (step_spec (hs_acked (hist_run c hist_init steps)) o)) /\
    dir_exact (e_disk e) = true.
Proof.
  intros Hok Hmode Hd. destruct (recovery_after_any_history c _ d Hok Hd) as (w & e & Ho & Hgot & Hde & _).
  exists w, e. split; [exact Ho|]. split; [|exact Hde].
  rewrite hist_run_app in Hgot. unfold hist_run at 1 3 in Hgot. cbn [fold_left] in Hgot.
  set (h0 := hist_run c hist_init steps) in *. unfold hstep_run in Hgot. rewrite Hmode in Hgot.
  destruct (step_model c s o) as [r s']. destruct (step_spec (hs_acked h0) o) as [r' sp']. cbn [snd].
  destruct (Nat.leb _ j); cbn [hs_acked hs_may] in Hgot; tauto.
Qed.

(* once StoreLogs has returned nil for an entry ... (C01) *)
Theorem acked_entry_survives c pre ls post s k l :
  hist_ok c (pre ++ HOp (OStore ls) :: post) ->
  hs_mode (hist_run c hist_init pre) = Up s ->
  fst (step_model c s (OStore ls)) = ROk ->
  nth_error ls k = Some l ->
  Forall (fun st => ~ touches (l_index l) st) post ->
  match hs_mode (hist_run c hist_init (pre ++ HOp (OStore ls) :: post)) with
  | Up s' => fst (get_log (ss_wal s') (l_index l) (ss_env s')) = RLog l /\
             exists fi la, first_index_op (ss_wal s') = RVal fi /\ last_index_op (ss_wal s') = RVal la /\
                           fi <= l_index l /\ l_index l <= la
  | Down d => exists w e, open_wal c (env_of d) = (OOk w, e)
  end.
Proof.
  intros Hok Hmode Hret Hn Hpost.
  assert (Hok1 : hist_ok c (pre ++ [HOp (OStore ls)])).
  { replace (pre ++ HOp (OStore ls) :: post) with ((pre ++ [HOp (OStore ls)]) ++ post) in Hok by (rewrite <- app_assoc; reflexivity).
    eapply hist_ok_prefix; eauto. }
  destruct (every_call_matches_spec c pre s (OStore ls) Hok1 Hmode) as (Hres & _).
  rewrite Hret in Hres. cbn [res_class] in Hres.
  set (h0 := hist_run c hist_init pre) in *.
  destruct (hstep_run_op c h0 s (OStore ls) Hmode) as (Ha1 & Hm1 & _).
  pose proof (spec_store_get (hs_acked h0) ls k l (eq_sym Hres) Hn) as Hget.
  replace (pre ++ HOp (OStore ls) :: post) with ((pre ++ [HOp (OStore ls)]) ++ post) in * by (rewrite <- app_assoc; reflexivity).
  set (h := hist_run c hist_init ((pre ++ [HOp (OStore ls)]) ++ post)).
  assert (Hled : spec_get (sp_log (hs_acked h)) (l_index l) = Some l).
  { unfold h. rewrite hist_run_app. apply ledger_run; [| |exact Hpost].
    - rewrite hist_run_app. unfold hist_run at 1. cbn [fold_left]. fold h0. rewrite Ha1. exact Hget.
    - rewrite hist_run_app. unfold hist_run at 1. cbn [fold_left]. fold h0. rewrite Hm1. exact Hget. }
  destruct (hs_mode h) as [s'|d] eqn:Emode.
  - destruct (live_state_is_ledger c _ s' Hok Emode) as (_ & _ & Hgl & Hfi & Hla & _). fold h in Hgl, Hfi, Hla.
    split; [rewrite Hgl, Hled; reflexivity|].
    exists (spec_first (sp_log (hs_acked h))), (spec_last (sp_log (hs_acked h))).
    split; [exact Hfi|]. split; [exact Hla|].
    unfold spec_get in Hled. unfold spec_first.
    destruct (sl_is_empty (sp_log (hs_acked h))) eqn:Ee; [discriminate|]. cbn [orb] in Hled.
    destruct ((l_index l <? sl_first (sp_log (hs_acked h))) || (spec_last (sp_log (hs_acked h)) <? l_index l)) eqn:E; [discriminate|lia].
  - destruct (recovery_after_any_history c _ d Hok Emode) as (w & e & Ho & _). eauto.
Qed.

(* FirstIndex..LastIndex is contiguous and every index in it is readable (C02) *)
Lemma spec_get_total s i :
  sl_is_empty s = false -> spec_first s <= i -> i <= spec_last s -> exists l, spec_get s i = Some l.
Proof.
  intros He H1 H2. unfold spec_get, spec_first, spec_last in *. rewrite He in *. cbn [orb].
  destruct ((i <? sl_first s) || (sl_first s + llen (sl_ents s) - 1 <? i)) eqn:E; [lia|].
  destruct (nth_error (sl_ents s) (N.to_nat (i - sl_first s))) eqn:En; [eauto|].
  apply nth_error_None in En. unfold sl_is_empty in He. destruct (sl_ents s); [discriminate|].
  unfold llen in *. cbn [length] in *. lia.
Qed.

Theorem range_is_readable c steps s i :
  hist_ok c steps -> hs_mode (hist_run c hist_init steps) = Up s ->
  forall fi la, first_index_op (ss_wal s) = RVal fi -> last_index_op (ss_wal s) = RVal la ->
  1 <= fi -> fi <= i -> i <= la ->
  exists l, fst (get_log (ss_wal s) i (ss_env s)) = RLog l /\
            spec_get (sp_log (hs_acked (hist_run c hist_init steps))) i = Some l.
Proof.
  intros Hok Hmode fi la Hfi Hla H0 H1 H2.
  destruct (live_state_is_ledger c _ s Hok Hmode) as (_ & _ & Hgl & Hfi' & Hla' & _).
  rewrite Hfi in Hfi'. rewrite Hla in Hla'. inversion Hfi'; inversion Hla'; subst.
  set (a := hs_acked (hist_run c hist_init steps)) in *.
  assert (He : sl_is_empty (sp_log a) = false).
  { unfold spec_first in H0. destruct (sl_is_empty (sp_log a)); [lia|reflexivity]. }
  destruct (spec_get_total (sp_log a) i He H1 H2) as (l & Hl). exists l. rewrite Hgl, Hl. auto.
Qed.

(* the WAL is writable after any history (C03) *)
Theorem writable_after_any_history c steps s l :
  hist_ok c (steps ++ [HOp (OStore [l])]) -> hs_mode (hist_run c hist_init steps) = Up s ->
  sl_is_empty (sp_log (hs_acked (hist_run c hist_init steps))) = true \/
  l_index l = spec_last (sp_log (hs_acked (hist_run c hist_init steps))) + 1 ->
  fst (step_model c s (OStore [l])) = ROk.
Proof.
  intros Hok Hmode Hidx. destruct (every_call_matches_spec c steps s (OStore [l]) Hok Hmode) as (Hres & _).
  set (a := hs_acked (hist_run c hist_init steps)) in *.
  assert (Hs : fst (step_spec a (OStore [l])) = ROk).
  { cbn [step_spec spec_store consecutive]. rewrite N.eqb_refl. cbn [andb].
    destruct Hidx as [He|He]; [rewrite He; reflexivity|].
    rewrite He, N.eqb_refl, orb_true_r. reflexivity. }
  rewrite Hs in Hres. destruct (fst (step_model c s (OStore [l]))); cbn in Hres; try discriminate. reflexivity.
Qed.

(* a deleted index stays deleted until it is stored again (C04) *)
Definition stores (i : N) (o : sop) : Prop :=
  match o with OStore ls => exists l, In l ls /\ l_index l = i | _ => False end.
Definition restores (i : N) (st : hstep) : Prop :=
  match st with HOp o | HCrashIn o _ _ => stores i o | _ => False end.

Lemma spec_get_slog_none first es i :
  spec_get {| sl_first := first; sl_ents := es |} i = None <->
  (i < first \/ nth_error es (N.to_nat (i - first)) = None).
Proof.
  destruct (spec_get {| sl_first := first; sl_ents := es |} i) as [l|] eqn:E.
  - apply spec_get_slog_some in E. destruct E as (H1 & H2). split; [discriminate|]. intros [H|H]; [lia|congruence].
  - split; [|reflexivity]. intros _. destruct (i <? first) eqn:E1; [left; lia|]. right.
    destruct (nth_error es (N.to_nat (i - first))) as [l|] eqn:En; [|reflexivity].
    assert (spec_get {| sl_first := first; sl_ents := es |} i = Some l) by (apply spec_get_slog_some; split; [lia|exact En]).
    congruence.
Qed.

Lemma consecutive_index_in ls : forall i0 k l, consecutive i0 ls = true -> nth_error ls k = Some l ->
  In l ls /\ l_index l = i0 + N.of_nat k.
Proof.
  intros i0 k l Hc Hn. split; [eapply nth_error_In; eauto|eapply consecutive_nth; eauto].
Qed.

Lemma spec_get_none_preserved a o i :
  spec_get (sp_log a) i = None -> ~ stores i o -> spec_get (sp_log (snd (step_spec a o))) i = None.
Proof.
  intros Hg Hs. destruct o; cbn [step_spec]; try exact Hg.
  - unfold spec_store. destruct ls as [|l0 r]; [exact Hg|].
    destruct (consecutive (l_index l0) (l0 :: r) && (sl_is_empty (sp_log a) || (l_index l0 =? spec_last (sp_log a) + 1))) eqn:E; [|exact Hg].
    cbn [snd sp_log]. apply andb_true_iff in E. destruct E as (Hc & He).
    destruct (spec_get {| sl_first := if sl_is_empty (sp_log a) then l_index l0 else sl_first (sp_log a);
                          sl_ents := sl_ents (sp_log a) ++ l0 :: r |} i) as [x|] eqn:Ex; [|reflexivity].
    exfalso. apply spec_get_slog_some in Ex. destruct Ex as (H1 & H2).
    destruct (sl_is_empty (sp_log a)) eqn:Ee.
    + unfold sl_is_empty in Ee. destruct (sl_ents (sp_log a)) eqn:Es; [|discriminate]. cbn [app] in H2.
      destruct (consecutive_index_in _ _ _ _ Hc H2) as (Hin & Hi). apply Hs. exists x. split; [exact Hin|lia].
    + cbn [orb] in He. apply N.eqb_eq in He. unfold spec_last in He. rewrite Ee in He.
      destruct (Nat.ltb (N.to_nat (i - sl_first (sp_log a))) (length (sl_ents (sp_log a)))) eqn:El.
      * apply Nat.ltb_lt in El. rewrite nth_error_app1 in H2 by exact El.
        rewrite (slog_eta (sp_log a)) in Hg. apply spec_get_slog_none in Hg. destruct Hg as [Hg|Hg]; [lia|congruence].
      * apply Nat.ltb_ge in El. rewrite nth_error_app2 in H2 by exact El.
        destruct (consecutive_index_in _ _ _ _ Hc H2) as (Hin & Hi). apply Hs. exists x. split; [exact Hin|].
        assert (Hpos : 0 < llen (sl_ents (sp_log a))).
        { unfold sl_is_empty in Ee. destruct (sl_ents (sp_log a)); [discriminate|]. rewrite llen_cons. lia. }
        unfold llen in *. lia.
  - unfold spec_delete.
    destruct ((mx <? mn) || sl_is_empty (sp_log a) || (mx <? sl_first (sp_log a)) || (spec_last (sp_log a) <? mn)) eqn:E0; [exact Hg|].
    rewrite (slog_eta (sp_log a)) in Hg. apply spec_get_slog_none in Hg.
    destruct (mn <=? sl_first (sp_log a)) eqn:E1.
    + destruct (spec_last (sp_log a) <=? mx) eqn:E2; cbn [snd sp_log]; [reflexivity|].
      apply spec_get_slog_none. destruct (i <? mx + 1) eqn:E3; [left; lia|]. right.
      rewrite nth_error_skipn'. destruct Hg as [Hg|Hg]; [lia|]. rewrite <- Hg. f_equal. lia.
    + destruct (spec_last (sp_log a) <=? mx) eqn:E2; cbn [snd sp_log].
      * apply spec_get_slog_none. destruct Hg as [Hg|Hg]; [left; exact Hg|]. right.
        apply nth_error_None. rewrite firstn_length. apply nth_error_None in Hg. lia.
      * rewrite (slog_eta (sp_log a)). apply spec_get_slog_none. exact Hg.
  - destruct (spec_get (sp_log a) i0); exact Hg.
  - destruct (key_ok k); [exact Hg|]. destruct is_nil; exact Hg.
Qed.

Lemma ledger_none_step c h st i :
  spec_get (sp_log (hs_acked h)) i = None -> spec_get (sp_log (hs_may h)) i = None -> ~ restores i st ->
  spec_get (sp_log (hs_acked (hstep_run c h st))) i = None /\
  spec_get (sp_log (hs_may (hstep_run c h st))) i = None.
Proof.
  intros Ha Hm Ht. unfold hstep_run. destruct (hs_mode h) as [s|d]; destruct st as [o|o j cc| |j cc]; auto.
  - destruct (step_model c s o) as [r s']. pose proof (spec_get_none_preserved (hs_acked h) o i Ha Ht) as Hp.
    destruct (step_spec (hs_acked h) o) as [r' sp']. cbn [snd hs_acked hs_may] in *. auto.
  - destruct (step_model c s o) as [r s']. pose proof (spec_get_none_preserved (hs_acked h) o i Ha Ht) as Hp.
    destruct (step_spec (hs_acked h) o) as [r' sp']. cbn [snd] in Hp.
    destruct (Nat.leb _ j); cbn [hs_acked hs_may]; auto.
  - destruct (open_wal c (env_of d)) as [[w|x] e]; cbn [hs_acked hs_may]; [|auto].
    destruct (spst_eqb _ (hs_acked h)); auto.
  - destruct (open_wal c (env_of d)) as [o e]. cbn [hs_acked hs_may]. auto.
Qed.

Lemma ledger_none_run c steps : forall h i,
  spec_get (sp_log (hs_acked h)) i = None -> spec_get (sp_log (hs_may h)) i = None ->
  Forall (fun st => ~ restores i st) steps ->
  spec_get (sp_log (hs_acked (hist_run c h steps))) i = None.
Proof.
  unfold hist_run. induction steps as [|st steps IH]; intros h i Ha Hm Hn; [auto|].
  inversion Hn as [|? ? H1 H2]; subst. cbn [fold_left].
  destruct (ledger_none_step c h st i Ha Hm H1) as (Ha' & Hm'). apply IH; auto.
Qed.

Lemma spec_delete_removes a mn mx i :
  fst (step_spec a (ODelete mn mx)) = ROk -> mn <= i -> i <= mx ->
  spec_get (sp_log (snd (step_spec a (ODelete mn mx)))) i = None.
Proof.
  intros Hok H1 H2. cbn [step_spec] in *. unfold spec_delete in *.
  destruct ((mx <? mn) || sl_is_empty (sp_log a) || (mx <? sl_first (sp_log a)) || (spec_last (sp_log a) <? mn)) eqn:E0.
  - cbn [snd sp_log]. unfold spec_get. destruct (sl_is_empty (sp_log a)) eqn:Ee; [reflexivity|]. cbn [orb].
    destruct ((i <? sl_first (sp_log a)) || (spec_last (sp_log a) <? i)) eqn:E; [reflexivity|lia].
  - destruct (mn <=? sl_first (sp_log a)) eqn:E1.
    + destruct (spec_last (sp_log a) <=? mx) eqn:E2; cbn [snd sp_log]; [reflexivity|].
      apply spec_get_slog_none. left. lia.
    + destruct (spec_last (sp_log a) <=? mx) eqn:E2; cbn [snd sp_log] in *; [|discriminate].
      apply spec_get_slog_none. right. apply nth_error_None. rewrite firstn_length. lia.
Qed.

Theorem acked_delete_stays c pre mn mx post s i :
  hist_ok c (pre ++ HOp (ODelete mn mx) :: post) ->
  hs_mode (hist_run c hist_init pre) = Up s ->
  fst (step_model c s (ODelete mn mx)) = ROk -> mn <= i -> i <= mx ->
  Forall (fun st => ~ restores i st) post ->
  match hs_mode (hist_run c hist_init (pre ++ HOp (ODelete mn mx) :: post)) with
  | Up s' => fst (get_log (ss_wal s') i (ss_env s')) = RErrNotFound
  | Down d => exists w e, open_wal c (env_of d) = (OOk w, e)
  end.
Proof.
  intros Hok Hmode Hret H1 H2 Hpost.
  assert (Hok1 : hist_ok c (pre ++ [HOp (ODelete mn mx)])).
  { replace (pre ++ HOp (ODelete mn mx) :: post) with ((pre ++ [HOp (ODelete mn mx)]) ++ post) in Hok by (rewrite <- app_assoc; reflexivity).
    eapply hist_ok_prefix; eauto. }
  destruct (every_call_matches_spec c pre s (ODelete mn mx) Hok1 Hmode) as (Hres & _).
  rewrite Hret in Hres. cbn [res_class] in Hres.
  set (h0 := hist_run c hist_init pre) in *.
  destruct (hstep_run_op c h0 s (ODelete mn mx) Hmode) as (Ha1 & Hm1 & _).
  pose proof (spec_delete_removes (hs_acked h0) mn mx i (eq_sym Hres) H1 H2) as Hget.
  replace (pre ++ HOp (ODelete mn mx) :: post) with ((pre ++ [HOp (ODelete mn mx)]) ++ post) in * by (rewrite <- app_assoc; reflexivity).
  set (h := hist_run c hist_init ((pre ++ [HOp (ODelete mn mx)]) ++ post)).
  assert (Hled : spec_get (sp_log (hs_acked h)) i = None).
  { unfold h. rewrite hist_run_app. apply ledger_none_run; [| |exact Hpost].
    - rewrite hist_run_app. unfold hist_run at 1. cbn [fold_left]. fold h0. rewrite Ha1. exact Hget.
    - rewrite hist_run_app. unfold hist_run at 1. cbn [fold_left]. fold h0. rewrite Hm1. exact Hget. }
  destruct (hs_mode h) as [s'|d] eqn:Emode.
  - destruct (live_state_is_ledger c _ s' Hok Emode) as (_ & _ & Hgl & _). fold h in Hgl. rewrite Hgl, Hled. reflexivity.
  - destruct (recovery_after_any_history c _ d Hok Emode) as (w & e & Ho & _). eauto.
Qed.

(* Close+Open without a crash also leaves an exact directory (C13) *)
Theorem reopen_dir_exact c steps s :
  hist_ok c (steps ++ [HOp OReopen]) -> hs_mode (hist_run c hist_init steps) = Up s ->
  fst (step_model c s OReopen) = ROk /\
  dir_exact (e_disk (ss_env (snd (step_model c s OReopen)))) = true.
Proof.
  intros Hok Hmode. pose proof (hist_ok_prefix _ _ _ Hok) as Hok0.
  pose proof (hist_invariant c steps Hok0) as (_ & Hga & _ & HM). rewrite Hmode in HM.
  destruct HM as (Hma & HL & Hf & Hsp & Hnf). destruct Hok as (Hc & _ & Hshort).
  assert (Hb : 2 * N.of_nat (length steps) + 1 < two64).
  { unfold short_enough in Hshort. rewrite app_length in Hshort. cbn [length] in Hshort. unfold two64. lia. }
  pose proof HL as (_ & _ & HD & HN & _).
  destruct (open_wal_ok c _ (ss_env s) Hc Hf HD HN Hb) as (w & e' & Ho & _ & _ & Hde).
  cbn [step_model]. rewrite Ho. cbn [fst snd ss_env]. auto.
Qed.
