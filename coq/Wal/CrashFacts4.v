(* CrashFacts4.v -- Open (recovery) on any disk satisfying the structural
   invariant: it succeeds, every intermediate disk keeps the invariant and the
   reading, the result satisfies the live invariant and the directory is exact. *)
From RW Require Import Base.Bytes Base.BytesFacts Fmt.Codec Fmt.Frame Wal.Model Wal.Spec Wal.Hist
  Wal.CrashInv Wal.CrashFacts0 Wal.CrashFacts1 Wal.CrashFacts2 Wal.CrashFacts3 Gen.Constants.
From Coq Require Import ZifyN ZifyNat ZifyBool.
Open Scope N_scope.

(* ---- no pending batches ---- *)
Lemma file_ents_no_pend n d : no_pend d -> file_ents n (unpend d) = file_ents n d.
Proof.
  intros H. rewrite file_ents_unpend. unfold file_ents. destruct (lookup n (dk_files d)) as [f|] eqn:E; [|reflexivity].
  unfold cur_ents. rewrite (H _ _ E). reflexivity.
Qed.
Lemma sp_of_no_pend d : no_pend d -> sp_of (unpend d) = sp_of d.
Proof.
  intros H. unfold sp_of. cbn [unpend dk_stable]. f_equal. apply dread_ext; [reflexivity|].
  intros. apply file_ents_no_pend. exact H.
Qed.
Lemma DP_no_pend c nb (A : spst -> Prop) d : DIs c nb d -> no_pend d -> A (sp_of d) -> DP c nb A d.
Proof. intros H1 H2 H3. split; [exact H1|]. split; [exact H3|]. rewrite sp_of_no_pend; assumption. Qed.

Lemma no_pend_delete d n : NoDup (map fst (dk_files d)) -> no_pend d -> no_pend (apply_act d (ADelete n)).
Proof.
  intros ND H m f. cbn [apply_act dk_files]. rewrite lookup_remove by exact ND.
  destruct (fname_eqb m n); [discriminate|apply H].
Qed.
Lemma no_pend_create d n sz : no_pend d -> no_pend (apply_act d (ACreate n sz)).
Proof.
  intros H m f. cbn [apply_act dk_files]. rewrite lookup_update.
  destruct (fname_eqb m n); [intros E; inversion E; reflexivity|apply H].
Qed.
Lemma no_pend_same d d' : dk_files d' = dk_files d -> no_pend d -> no_pend d'.
Proof. intros Hf H m f. rewrite Hf. apply H. Qed.

(* ---- list helpers ---- *)
Lemma seg_set_snoc si l : Forall (fun x => si_base x < si_base si) l -> seg_set si l = l ++ [si].
Proof.
  induction l as [|x r IH]; intros H; cbn [seg_set app]; [reflexivity|].
  inversion H as [|? ? Hx Hr]; subst.
  destruct (si_base si <? si_base x) eqn:E1; [lia|].
  destruct (si_base si =? si_base x) eqn:E2; [lia|]. rewrite IH by exact Hr. reflexivity.
Qed.

Lemma seg_set_last si S t :
  Forall (fun x => si_base x < si_base t) S -> si_base si = si_base t -> seg_set si (S ++ [t]) = S ++ [si].
Proof.
  induction S as [|x r IH]; intros H Hb; cbn [seg_set app].
  - destruct (si_base si <? si_base t) eqn:E1; [lia|].
    destruct (si_base si =? si_base t) eqn:E2; [reflexivity|lia].
  - inversion H as [|? ? Hx Hr]; subst.
    destruct (si_base si <? si_base x) eqn:E1; [lia|].
    destruct (si_base si =? si_base x) eqn:E2; [lia|]. rewrite IH by assumption. reflexivity.
Qed.

Lemma listed_app A B n : listed (A ++ B) n = listed A n || listed B n.
Proof. unfold listed. apply existsb_app. Qed.
Lemma listed_single s n : listed [s] n = fname_eqb (name_of s) n.
Proof. unfold listed. cbn. apply orb_false_r. Qed.

(* bases of a well-formed list are below the tail's *)
Lemma DIs_bases_lt c nb d ps S t :
  DIs c nb d -> dk_meta d = Some ps -> ps_segs ps = S ++ [t] ->
  Forall (fun s => si_base s < si_base t) S.
Proof.
  intros HD Hm Hs. destruct (DIs_parts _ _ _ _ _ _ HD Hm Hs) as (_ & _ & _ & Hwf & Hl & Hso & _).
  assert (Hsst : Forall sst S). { eapply Forall_sst; [|exact Hso]. apply Forall_app in Hwf. apply Hwf. }
  pose proof (linked_app_lt S t Hl Hsst) as Hlt. rewrite Forall_forall in *.
  intros s Hin. specialize (Hlt s Hin). specialize (Hsst s Hin). unfold sst in Hsst. lia.
Qed.

(* ---- deletions ---- *)
Definition del_disk (ns : list fname) (d : disk) : disk :=
  fold_left (fun d n => apply_act d (ADelete n)) ns d.

Lemma delete_files_disk ns : forall e, e_fault e = None -> e_disk (delete_files ns e) = del_disk ns (e_disk e).
Proof.
  unfold delete_files, del_disk. induction ns as [|n ns IH]; intros e Hf; cbn [fold_left]; [reflexivity|].
  rewrite (io_ok (ADelete n) e Hf). cbn [snd]. rewrite IH by reflexivity. reflexivity.
Qed.

Lemma del_disk_lookup ns : forall d n, NoDup (map fst (dk_files d)) ->
  lookup n (dk_files (del_disk ns d)) = if mem_name n ns then None else lookup n (dk_files d).
Proof.
  unfold del_disk. induction ns as [|m ns IH]; intros d n ND; cbn [fold_left mem_name existsb]; [reflexivity|].
  change (existsb (fname_eqb n) ns) with (mem_name n ns).
  rewrite IH by (cbn; apply remove_NoDup; exact ND).
  cbn [apply_act dk_files]. rewrite lookup_remove by exact ND.
  destruct (fname_eqb n m); destruct (mem_name n ns); reflexivity.
Qed.

Lemma del_disk_NoDup ns : forall d, NoDup (map fst (dk_files d)) -> NoDup (map fst (dk_files (del_disk ns d))).
Proof.
  unfold del_disk. induction ns as [|m ns IH]; intros d ND; cbn [fold_left]; [exact ND|].
  apply IH. cbn. apply remove_NoDup. exact ND.
Qed.

Lemma del_disk_meta ns : forall d, dk_meta (del_disk ns d) = dk_meta d /\ dk_stable (del_disk ns d) = dk_stable d.
Proof.
  unfold del_disk. induction ns as [|m ns IH]; intros d; cbn [fold_left]; [auto|].
  destruct (IH (apply_act d (ADelete m))) as (H1 & H2). rewrite H1, H2. auto.
Qed.

Lemma mem_name_spec n l : mem_name n l = true <-> In n l.
Proof.
  unfold mem_name. rewrite existsb_exists. split.
  - intros (x & Hin & E). apply fname_eqb_eq in E. subst. exact Hin.
  - intros H. exists n. split; [exact H|apply fname_eqb_refl].
Qed.

(* ---- segment-level recovery ---- *)
Definition rec_wseg (t : seginfo) (f : dfile) : wseg :=
  {| ws_name := name_of t; ws_base := si_base t; ws_min := si_min t; ws_limit := si_size_limit t;
     ws_n := llen (cur_ents f); ws_off := cur_end f; ws_hdr := (cur_end f =? 0);
     ws_index_start := cur_seal f;
     ws_commit_idx := if llen (cur_ents f) =? 0 then 0 else si_base t + llen (cur_ents f) - 1 |}.

Lemma seg_recover_some t e f :
  lookup (name_of t) (dk_files (e_disk e)) = Some f -> seg_recover t e = Some (Some (rec_wseg t f)).
Proof. intros H. unfold seg_recover. rewrite H. reflexivity. Qed.
Lemma seg_recover_none t e :
  lookup (name_of t) (dk_files (e_disk e)) = None -> seg_recover t e = None.
Proof. intros H. unfold seg_recover. rewrite H. reflexivity. Qed.

Lemma seg_create_ok si e :
  e_fault e = None -> 1 <= si_base si -> lookup (name_of si) (dk_files (e_disk e)) = None ->
  seg_create si e = (Some (new_wseg si), io_env (ACreate (name_of si) (si_size_limit si)) e).
Proof.
  intros Hf Hb Hn. unfold seg_create. destruct (si_base si =? 0) eqn:E; [lia|].
  rewrite Hn. rewrite (io_ok _ e Hf). reflexivity.
Qed.

Lemma open_segs_sealed c S : forall acc rest e,
  Forall (sealed_ok (e_disk e)) S -> Forall (fun s => si_codec s = c_codec c) S ->
  open_segs c (S ++ rest) acc e = open_segs c rest (rev S ++ acc) e.
Proof.
  induction S as [|s S IH]; intros acc rest e Hso Hc; [reflexivity|].
  inversion Hso as [|? ? Hs Hso']; subst. inversion Hc as [|? ? Hcs Hc']; subst.
  destruct Hs as (Hse & _ & f & Hf & _ & Hp & He & _).
  cbn [app open_segs]. rewrite Hcs, N.eqb_refl, Hse. cbn [negb]. rewrite Hf.
  assert (Hce : cur_end f =? 0 = false). { unfold cur_end. rewrite Hp. lia. }
  rewrite Hce. rewrite IH by assumption. cbn [rev]. rewrite <- app_assoc. reflexivity.
Qed.

Lemma rev_append_rev_snoc {A} (S : list A) x : rev_append (rev S ++ []) [x] = S ++ [x].
Proof. rewrite app_nil_r, rev_append_rev, rev_involutive. reflexivity. Qed.

(* ---- the invariants through garbage deletion ---- *)
Definition OQ (c : cfg) (nb : N) (s0 : spst) (d : disk) : Prop :=
  DIs c nb d /\ no_pend d /\ sp_of d = s0.

Lemma OQ_DP c nb s0 d : OQ c nb s0 d -> DP c nb (eq s0) d.
Proof. intros (H1 & H2 & H3). apply DP_no_pend; auto. Qed.

Lemma OQ_delete c nb s0 d n ps :
  OQ c nb s0 d -> dk_meta d = Some ps -> listed (ps_segs ps) n = false -> OQ c nb s0 (apply_act d (ADelete n)).
Proof.
  intros (H1 & H2 & H3) Hm Hl. split; [eapply DIs_delete; eauto|]. split.
  - apply no_pend_delete; [eapply DIs_NoDup; eauto|exact H2].
  - unfold sp_of in *. rewrite (dread_delete d n ps Hm Hl). exact H3.
Qed.

Lemma LInv_delete c nb w d n :
  LInv c nb w d -> listed (st_segs w) n = false -> LInv c nb w (apply_act d (ADelete n)).
Proof.
  intros (H1 & H2 & H3 & H4 & H5 & t & f & tw & Ht & Hf & Htw & Hok & Hrot) Hl.
  split; [exact H1|]. split; [exact H2|]. split; [eapply DIs_delete; eauto|]. split.
  - apply no_pend_delete; [eapply DIs_NoDup; eauto|exact H4].
  - split; [exact H5|]. exists t, f, tw. split; [exact Ht|]. split; [|auto].
    cbn [apply_act dk_files]. rewrite lookup_remove_neq; [exact Hf|].
    eapply listed_false_neq; [exact Hl|]. apply tail_info_In. exact Ht.
Qed.

Lemma LInv_del_disk c nb w ns : forall d,
  LInv c nb w d -> (forall n, In n ns -> listed (st_segs w) n = false) -> LInv c nb w (del_disk ns d).
Proof.
  unfold del_disk. induction ns as [|n ns IH]; intros d HL Hns; cbn [fold_left]; [exact HL|].
  apply IH; [apply LInv_delete; [exact HL|apply Hns; left; reflexivity]|].
  intros m Hm. apply Hns. right. exact Hm.
Qed.

Lemma dir_exact_intro d ps :
  dk_meta d = Some ps -> NoDup (map fst (dk_files d)) ->
  (forall n f, lookup n (dk_files d) = Some f -> listed (ps_segs ps) n = true) ->
  (forall s, In s (ps_segs ps) -> lookup (name_of s) (dk_files d) <> None) ->
  dir_exact d = true.
Proof.
  intros Hm ND H1 H2. unfold dir_exact. rewrite Hm. apply andb_true_iff. split.
  - apply forallb_forall. intros [n f] Hin. cbn [fst]. eapply H1. apply In_lookup; eauto.
  - apply forallb_forall. intros s Hin. specialize (H2 s Hin).
    destruct (lookup (name_of s) (dk_files d)); [reflexivity|congruence].
Qed.

Lemma LInv_listed_files c nb w d s :
  LInv c nb w d -> In s (st_segs w) -> lookup (name_of s) (dk_files d) <> None.
Proof.
  intros (H1 & H2 & H3 & H4 & H5 & t & f & tw & Ht & Hf & Htw & Hok & Hrot) Hin.
  destruct (DIs_segs _ _ _ _ H3 H5) as (S & t' & Hs). cbn [persistent ps_segs] in Hs.
  rewrite Hs, tail_info_app in Ht. inversion Ht; subst t'.
  destruct (DIs_parts _ _ _ _ _ _ H3 H5 Hs) as (_ & _ & _ & _ & _ & Hso & _).
  rewrite Hs in Hin. apply in_app_or in Hin. destruct Hin as [Hin|[<-|[]]].
  - rewrite Forall_forall in Hso. destruct (Hso s Hin) as (_ & _ & g & Hg & _). congruence.
  - congruence.
Qed.

Lemma open_finish c nb s0 e0 e3 w garbage :
  ext (OQ c nb s0) e0 e3 -> LInv c nb w (e_disk e3) ->
  (forall n, In n garbage -> listed (st_segs w) n = false) ->
  (forall n f, lookup n (dk_files (e_disk e3)) = Some f -> In n garbage \/ listed (st_segs w) n = true) ->
  ext (OQ c nb s0) e0 (delete_files garbage e3) /\ LInv c nb w (e_disk (delete_files garbage e3)) /\
  dir_exact (e_disk (delete_files garbage e3)) = true.
Proof.
  intros He HL Hg Hall.
  pose proof (ext_fault _ _ _ He) as Hf3.
  assert (HL4 : LInv c nb w (e_disk (delete_files garbage e3))).
  { rewrite delete_files_disk by exact Hf3. apply LInv_del_disk; assumption. }
  destruct HL as (H1 & H2 & H3 & H4 & H5 & HLr).
  split; [|split; [exact HL4|]].
  - set (P' := fun d => OQ c nb s0 d /\ dk_meta d = Some (persistent w)).
    assert (He3 : ext P' e3 e3).
    { apply ext_refl; [exact Hf3|]. split; [apply (ext_final _ _ _ He)|exact H5]. }
    destruct (ext_delete_files P' e3 garbage e3 He3) as (He4 & _).
    + intros d n (HQ & Hm) Hin. split; [|exact Hm].
      eapply OQ_delete; [exact HQ|exact Hm|]. cbn [persistent ps_segs]. apply Hg. exact Hin.
    + eapply ext_trans; [exact He|]. eapply ext_mono; [|exact He4]. intros d (HQ & _). exact HQ.
  - destruct HL4 as (_ & _ & HD4 & _ & Hm4 & _).
    apply (dir_exact_intro _ (persistent w) Hm4); [eapply DIs_NoDup; eauto| |].
    + intros n f. rewrite delete_files_disk by exact Hf3.
      rewrite del_disk_lookup by (eapply DIs_NoDup; eauto).
      destruct (mem_name n garbage) eqn:E; [discriminate|]. intros Hl.
      destruct (Hall _ _ Hl) as [Hin|Hli]; [|exact Hli].
      apply mem_name_spec in Hin. congruence.
    + intros s Hin. eapply LInv_listed_files; [|exact Hin].
      rewrite delete_files_disk by exact Hf3. apply LInv_del_disk; [|assumption].
      split; [exact H1|]. split; [exact H2|]. split; [exact H3|]. split; [exact H4|]. split; [exact H5|exact HLr].
Qed.

(* ---- Open: the part that creates a new tail ---- *)
Definition open_newtail (c : cfg) (nid0 : N) (segs : list seginfo) (garbage : list fname) (e1 : env)
  : open_res * env :=
  let base := match tail_info segs with Some t => (si_max t + 1) mod two64 | None => 1 end in
  let si := new_segment c nid0 base in
  let nid := (nid0 + 1) mod two64 in
  let segs' := seg_set si segs in
  let '(ok1, e2) := io (ACommit {| ps_next_id := nid; ps_segs := segs' |}) e1 in
  if negb ok1 then (OErr RErrIO, e2)
  else let '(sw, e3) := seg_create si e2 in
       match sw with
       | None => (OErr RErrIO, e3)
       | Some sw =>
           let e4 := delete_files garbage e3 in
           (OOk {| st_next_id := nid; st_segs := segs'; st_tail := Some sw;
                   st_rotate := None; st_failed := false; st_closed := false |}, e4)
       end.

Lemma tw_ok_fresh si sz : tw_ok si (fresh_file sz) (new_wseg si).
Proof.
  unfold tw_ok, new_wseg, fresh_file, tl_of. cbn. change (llen (@nil log)) with 0. cbn.
  repeat split; try reflexivity; lia.
Qed.

Lemma open_newtail_ok c nb s0 e0 e1 nid0 S1 garbage base :
  cfg_ok c -> ext (OQ c nb s0) e0 e1 ->
  (forall ps, dk_meta (e_disk e1) = Some ps -> ps_next_id ps <= nid0) ->
  nid0 + 1 <= nb -> nb < two64 ->
  Forall (seg_wf c nid0) S1 -> Forall (sealed_ok (e_disk e1)) S1 ->
  base = match tail_info S1 with Some t => si_max t + 1 | None => 1 end ->
  1 <= base -> base < two64 ->
  linked (S1 ++ [new_segment c nid0 base]) -> Forall (fun x => si_base x < base) S1 ->
  slog_of (hd_min S1 (new_segment c nid0 base)) (sealed_es (e_disk e1) S1) = sp_log s0 ->
  (forall n, In n garbage -> listed S1 n = false /\ lookup n (dk_files (e_disk e1)) <> None) ->
  (forall n f, lookup n (dk_files (e_disk e1)) = Some f -> In n garbage \/ listed S1 n = true) ->
  exists w e', open_newtail c nid0 S1 garbage e1 = (OOk w, e') /\ ext (OQ c nb s0) e0 e' /\
               LInv c nb w (e_disk e') /\ dir_exact (e_disk e') = true.
Proof.
  intros Hc He Hnid Hnb Hnb2 Hwf Hso Hbase Hb1 Hb2 Hl Hlt Hrd Hg Hall.
  pose proof (ext_final _ _ _ He) as (HD1 & HN1 & HS1). pose proof (ext_fault _ _ _ He) as Hf1.
  set (d1 := e_disk e1) in *.
  unfold open_newtail.
  assert (Eb : match tail_info S1 with Some t => (si_max t + 1) mod two64 | None => 1 end = base).
  { rewrite Hbase. destruct (tail_info S1); [|reflexivity]. apply N.mod_small. lia. }
  rewrite Eb. set (si := new_segment c nid0 base) in *.
  assert (En : (nid0 + 1) mod two64 = nid0 + 1) by (apply N.mod_small; lia). rewrite En.
  assert (Ess : seg_set si S1 = S1 ++ [si]) by (apply seg_set_snoc; exact Hlt). rewrite Ess.
  rewrite (io_ok _ e1 Hf1). cbn [negb].
  set (ps' := {| ps_next_id := nid0 + 1; ps_segs := S1 ++ [si] |}).
  set (e2 := io_env (ACommit ps') e1).
  destruct (commit_newtail c nb d1 nid0 S1 base Hc HD1 Hnid Hnb Hwf Hl Hso Hb1 Hb2) as (HD2 & Hfresh & Hr2 & _).
  fold si in HD2, Hfresh, Hr2. fold ps' in HD2, Hfresh, Hr2.
  assert (HQ2 : OQ c nb s0 (e_disk e2)).
  { split; [exact HD2|]. split; [eapply no_pend_same; [|exact HN1]; reflexivity|].
    change (e_disk e2) with (apply_act d1 (ACommit ps')). unfold sp_of. rewrite Hr2. cbn [apply_act dk_stable].
    rewrite Hrd. rewrite <- HS1. reflexivity. }
  assert (He2 : ext (OQ c nb s0) e0 e2) by (apply ext_io; [exact He|exact I|exact HQ2]).
  rewrite (seg_create_ok si e2 eq_refl); [|cbn; lia|exact Hfresh].
  set (e3 := io_env (ACreate (name_of si) (si_size_limit si)) e2).
  assert (Hm2 : dk_meta (e_disk e2) = Some ps') by reflexivity.
  assert (HQ3 : OQ c nb s0 (e_disk e3)).
  { destruct (DP_create_tail c nb (eq s0) (e_disk e2) ps' S1 si (si_size_limit si) (OQ_DP _ _ _ _ HQ2) Hm2 eq_refl Hfresh) as (HD3 & Hs3 & _).
    split; [exact HD3|]. split; [apply no_pend_create; apply HQ2|symmetry; exact Hs3]. }
  assert (He3 : ext (OQ c nb s0) e0 e3) by (apply ext_io; [exact He2|exact I|exact HQ3]).
  set (w := {| st_next_id := nid0 + 1; st_segs := S1 ++ [si]; st_tail := Some (new_wseg si);
               st_rotate := None; st_failed := false; st_closed := false |}).
  assert (HL3 : LInv c nb w (e_disk e3)).
  { split; [reflexivity|]. split; [reflexivity|]. split; [apply HQ3|]. split; [apply HQ3|].
    split; [reflexivity|]. exists si, (fresh_file (si_size_limit si)), (new_wseg si).
    split; [apply tail_info_app|]. split; [cbn; apply lookup_update_eq|].
    split; [reflexivity|]. split; [apply tw_ok_fresh|reflexivity]. }
  destruct (open_finish c nb s0 e0 e3 w garbage He3 HL3) as (He4 & HL4 & Hde).
  - intros n Hin. destruct (Hg n Hin) as (Hnl & Hex). cbn [w st_segs]. rewrite listed_app, Hnl, listed_single.
    cbn [orb]. apply fname_eqb_neq. intros E. subst n. apply Hex. exact Hfresh.
  - intros n f. cbn [e3 e2 io_env e_disk apply_act dk_files w st_segs]. rewrite lookup_update, listed_app, listed_single.
    rewrite (fname_eqb_sym (name_of si) n).
    destruct (fname_eqb n (name_of si)); [intros _; right; apply orb_true_r|].
    intros Hlk. destruct (Hall _ _ Hlk) as [Hin|Hli]; [left; exact Hin|right; rewrite Hli; reflexivity].
  - exists w, (delete_files garbage e3). auto.
Qed.

(* ---- Open after the metadata database is initialised ---- *)
Definition open_rest (c : cfg) (e0 : env) : open_res * env :=
  let ps := match dk_meta (e_disk e0) with
            | Some ps => ps
            | None => {| ps_next_id := 0; ps_segs := [] |}
            end in
  let on_disk := map fst (dk_files (e_disk e0)) in
  let '(r, segs, tail, e1) := open_segs c (ps_segs ps) [] e0 in
  match r with
  | ROk =>
      let garbage := filter (fun n => negb (listed (ps_segs ps) n)) on_disk in
      match tail with
      | Some tw =>
          let e2 := delete_files garbage e1 in
          (OOk {| st_next_id := ps_next_id ps; st_segs := segs; st_tail := Some tw;
                  st_rotate := None; st_failed := false; st_closed := false |}, e2)
      | None => open_newtail c (ps_next_id ps) segs garbage e1
      end
  | _ => (OErr r, e1)
  end.

Lemma open_wal_unfold c e :
  open_wal c e =
  if negb (FirstExternalCodecID <=? c_codec c) && negb (c_codec c =? BinaryCodecID) then (OErr RErrOther, e)
  else
    let '(ok0, e0) := if dk_inited (e_disk e) then (true, e) else io AInitMeta e in
    if negb ok0 then (OErr RErrIO, e0)
    else if armed e0 && fx_list (e_fx e0) then (OErr RErrIO, list_failed e0) else open_rest c e0.
Proof. reflexivity. Qed.

Lemma garbage_spec segs (fs : list (fname * dfile)) n :
  In n (filter (fun n => negb (listed segs n)) (map fst fs)) <-> listed segs n = false /\ In n (map fst fs).
Proof. rewrite filter_In. rewrite negb_true_iff. tauto. Qed.

Lemma lookup_some_in n f fs : lookup n fs = Some f -> In n (map fst fs).
Proof. intros H. apply lookup_In in H. apply in_map_iff. exists (n, f). auto. Qed.

Lemma in_lookup_not_none n fs : In n (map fst fs) -> lookup n fs <> None.
Proof. intros H E. apply lookup_None in E. contradiction. Qed.

Lemma tw_ok_rec t f : df_pend f = None -> tw_ok t f (rec_wseg t f).
Proof.
  intros Hp. unfold tw_ok, rec_wseg, tl_of, cur_ents, cur_end, cur_seal. rewrite Hp. cbn.
  repeat split; try reflexivity; lia.
Qed.

Lemma open_segs_tail c S t e :
  Forall (sealed_ok (e_disk e)) S -> Forall (fun s => si_codec s = c_codec c) (S ++ [t]) ->
  si_sealed t = false -> e_fault e = None -> 1 <= si_base t ->
  open_segs c (S ++ [t]) [] e =
  match lookup (name_of t) (dk_files (e_disk e)) with
  | None => (ROk, S ++ [t], Some (new_wseg t), io_env (ACreate (name_of t) (si_size_limit t)) e)
  | Some f => if 0 <? cur_seal f
              then (ROk, S ++ [seal_info t (ws_commit_idx (rec_wseg t f)) (cur_seal f)], None, e)
              else (ROk, S ++ [t], Some (rec_wseg t f), e)
  end.
Proof.
  intros Hso Hc Hu Hf Hb. apply Forall_app in Hc. destruct Hc as (Hc1 & Hc2).
  inversion Hc2 as [|? ? Hct _]; subst.
  rewrite (open_segs_sealed c S [] [t] e Hso Hc1).
  cbn [open_segs]. replace (si_codec t =? c_codec c) with true by (symmetry; apply N.eqb_eq; exact Hct).
  rewrite Hu. cbn [negb].
  destruct (lookup (name_of t) (dk_files (e_disk e))) as [f|] eqn:E.
  - rewrite (seg_recover_some t e f E).
    change (ws_index_start (rec_wseg t f)) with (cur_seal f).
    destruct (0 <? cur_seal f); rewrite rev_append_rev_snoc; reflexivity.
  - rewrite (seg_recover_none t e E). rewrite (seg_create_ok t e Hf Hb E).
    change (0 <? ws_index_start (new_wseg t)) with false. cbn iota.
    rewrite rev_append_rev_snoc. reflexivity.
Qed.

Lemma open_rest_ok c nb e0 :
  cfg_ok c -> e_fault e0 = None -> DIs c nb (e_disk e0) -> no_pend (e_disk e0) -> nb + 1 < two64 ->
  exists w e', open_rest c e0 = (OOk w, e') /\ ext (OQ c (nb + 1) (sp_of (e_disk e0))) e0 e' /\
               LInv c (nb + 1) w (e_disk e') /\ dir_exact (e_disk e') = true.
Proof.
  intros Hc Hf0 HD0 HN0 Hnb.
  set (d0 := e_disk e0) in *. set (s0 := sp_of d0).
  assert (HD0' : DIs c (nb + 1) d0) by (eapply DIs_mono; [|exact HD0]; lia).
  assert (HQ0 : OQ c (nb + 1) s0 d0) by (split; [exact HD0'|split; [exact HN0|reflexivity]]).
  assert (He0 : ext (OQ c (nb + 1) s0) e0 e0) by (apply ext_refl; assumption).
  pose proof (DIs_NoDup _ _ _ HD0) as ND0.
  unfold open_rest. fold d0.
  destruct (dk_meta d0) as [ps|] eqn:Hm.
  - (* initialised directory *)
    destruct (DIs_segs _ _ _ _ HD0 Hm) as (S & t & Hs).
    destruct (DIs_parts _ _ _ _ _ _ HD0 Hm Hs) as (_ & Hn2 & Hid & Hwf & Hl & Hso & Ht).
    pose proof (tail_wf _ _ _ _ _ _ HD0 Hm Hs) as (Hwc & Hwl & Hwb1 & Hwb2 & Hwbm & Hwid).
    assert (Hcod : Forall (fun s => si_codec s = c_codec c) (S ++ [t])).
    { eapply Forall_impl; [|exact Hwf]. intros s Hsw. apply Hsw. }
    pose proof Ht as (Hu & Ht').
    rewrite Hs. rewrite (open_segs_tail c S t e0 Hso Hcod Hu Hf0 Hwb1). fold d0.
    set (garbage := filter (fun n => negb (listed (S ++ [t]) n)) (map fst (dk_files d0))).
    destruct (lookup (name_of t) (dk_files d0)) as [f|] eqn:Ef.
    + pose proof (HN0 _ _ Ef) as Hp.
      destruct Ht' as (Fa & Fb & Fc & Fd & Fe & Ff).
      assert (Hcs : cur_seal f = df_seal f) by (unfold cur_seal; rewrite Hp; reflexivity).
      assert (Hce : cur_ents f = df_ents f) by (unfold cur_ents; rewrite Hp; reflexivity).
      destruct (0 <? cur_seal f) eqn:Eseal.
      * (* the tail file is sealed: complete the rotation *)
        set (mx := ws_commit_idx (rec_wseg t f)). set (t' := seal_info t mx (cur_seal f)).
        destruct Fa as (Fa1 & Fa2 & Fa3 & Fa4 & Fa5).
        assert (Hne : df_ents f <> []) by (apply Fa5; lia).
        assert (Hn0 : 0 < llen (df_ents f)) by (apply llen_pos; exact Hne).
        assert (Hmx : mx = si_base t + llen (df_ents f) - 1).
        { unfold mx, rec_wseg. cbn [ws_commit_idx]. rewrite Hce. destruct (llen (df_ents f) =? 0) eqn:Z; [lia|reflexivity]. }
        assert (Hmin : si_min t <= mx). { destruct (llen (df_ents f) =? 0) eqn:Z; lia. }
        rewrite Hce in Ff.
        assert (Hsok : sealed_ok d0 t').
        { eapply sealed_ok_of_tail; eauto; lia. }
        destruct (open_newtail_ok c (nb + 1) s0 e0 e0 (ps_next_id ps) (S ++ [t']) garbage (mx + 1) Hc He0)
          as (w & e' & Ho & He' & HL & Hde).
        -- fold d0. intros ps' E. rewrite Hm in E. inversion E. lia.
        -- lia.
        -- lia.
        -- apply Forall_app in Hwf. destruct Hwf as (Hwf1 & Hwf2). apply Forall_app. split; [exact Hwf1|].
           constructor; [|constructor]. apply seal_info_wf. inversion Hwf2; assumption.
        -- fold d0. apply Forall_app. split; [exact Hso|constructor; [exact Hsok|constructor]].
        -- rewrite tail_info_app. reflexivity.
        -- lia.
        -- lia.
        -- rewrite <- app_assoc. cbn [app]. apply linked_snoc; [|reflexivity|reflexivity].
           eapply linked_replace_last; [exact Hl|reflexivity|reflexivity].
        -- apply Forall_app. split.
           ++ pose proof (DIs_bases_lt _ _ _ _ _ _ HD0 Hm Hs) as Hlt.
              eapply Forall_impl; [|exact Hlt]. intros s Hs'. cbn beta in Hs'. lia.
           ++ constructor; [change (si_base t') with (si_base t); lia|constructor].
        -- fold d0. rewrite hd_min_app. unfold s0, sp_of. cbn [sp_log].
           rewrite (dread_decomp c nb d0 ps S t HD0 Hm Hs).
           unfold sealed_es at 1. rewrite flat_map_app. cbn [flat_map]. rewrite app_nil_r.
           fold (sealed_es d0 S).
           unfold t'. rewrite (seg_visible_seal_info d0 t mx (cur_seal f)) by lia.
           rewrite firstn_all2.
           { apply slog_of_abs. intros _. unfold hd_min. destruct S; reflexivity. }
           destruct (tail_es_length c d0 t f Hwbm Ht Ef) as [Hlen|(Hz & _)]; [|rewrite Hce in Hz; lia].
           rewrite Hce in Hlen. unfold llen in *. lia.
        -- intros n Hin. apply garbage_spec in Hin. destruct Hin as (Hnl & Hin). split.
           ++ rewrite listed_app, listed_single in *. exact Hnl.
           ++ fold d0. apply in_lookup_not_none. exact Hin.
        -- fold d0. intros n g Hg. destruct (listed (S ++ [t]) n) eqn:El.
           ++ right. rewrite listed_app, listed_single in *. exact El.
           ++ left. apply garbage_spec. split; [exact El|eapply lookup_some_in; eauto].
        -- exists w, e'. auto.
      * (* a usable tail *)
        set (w := {| st_next_id := ps_next_id ps; st_segs := S ++ [t]; st_tail := Some (rec_wseg t f);
                     st_rotate := None; st_failed := false; st_closed := false |}).
        assert (HL : LInv c (nb + 1) w (e_disk e0)).
        { split; [reflexivity|]. split; [reflexivity|]. split; [exact HD0'|]. split; [exact HN0|].
          split; [fold d0; rewrite Hm; destruct ps; cbn in *; rewrite Hs; reflexivity|].
          exists t, f, (rec_wseg t f). split; [apply tail_info_app|]. split; [exact Ef|].
          split; [reflexivity|]. split; [apply tw_ok_rec; exact Hp|].
          cbn [w st_rotate]. rewrite <- Hcs, Eseal. reflexivity. }
        destruct (open_finish c (nb + 1) s0 e0 e0 w garbage He0 HL) as (He4 & HL4 & Hde).
        -- intros n Hin. apply garbage_spec in Hin. apply Hin.
        -- fold d0. intros n g Hg. destruct (listed (S ++ [t]) n) eqn:El; [right; exact El|].
           left. apply garbage_spec. split; [exact El|eapply lookup_some_in; eauto].
        -- exists w, (delete_files garbage e0). auto.
    + (* the tail file is missing: re-create it *)
      set (e1 := io_env (ACreate (name_of t) (si_size_limit t)) e0).
      set (w := {| st_next_id := ps_next_id ps; st_segs := S ++ [t]; st_tail := Some (new_wseg t);
                   st_rotate := None; st_failed := false; st_closed := false |}).
      assert (HQ1 : OQ c (nb + 1) s0 (e_disk e1)).
      { destruct (DP_create_tail c (nb + 1) (eq s0) d0 ps S t (si_size_limit t) (OQ_DP _ _ _ _ HQ0) Hm Hs Ef) as (HD1 & Hs1 & _).
        split; [exact HD1|]. split; [apply no_pend_create; exact HN0|symmetry; exact Hs1]. }
      assert (He1 : ext (OQ c (nb + 1) s0) e0 e1) by (apply ext_io; [exact He0|exact I|exact HQ1]).
      assert (HL : LInv c (nb + 1) w (e_disk e1)).
      { split; [reflexivity|]. split; [reflexivity|]. split; [apply HQ1|]. split; [apply HQ1|].
        split; [cbn [e1 io_env e_disk apply_act dk_meta]; fold d0; rewrite Hm; destruct ps; cbn in *; rewrite Hs; reflexivity|].
        exists t, (fresh_file (si_size_limit t)), (new_wseg t). split; [apply tail_info_app|].
        split; [cbn; apply lookup_update_eq|]. split; [reflexivity|]. split; [apply tw_ok_fresh|reflexivity]. }
      destruct (open_finish c (nb + 1) s0 e0 e1 w garbage He1 HL) as (He4 & HL4 & Hde).
      * intros n Hin. apply garbage_spec in Hin. apply Hin.
      * intros n g. cbn [e1 io_env e_disk apply_act dk_files w st_segs]. fold d0. rewrite lookup_update.
        destruct (fname_eqb n (name_of t)) eqn:En.
        -- intros _. right. rewrite listed_app, listed_single. rewrite (fname_eqb_sym (name_of t) n), En. apply orb_true_r.
        -- intros Hg. destruct (listed (S ++ [t]) n) eqn:El; [right; reflexivity|].
           left. apply garbage_spec. split; [exact El|eapply lookup_some_in; eauto].
      * exists w, (delete_files garbage e1). auto.
  - (* empty directory *)
    assert (Hfiles : dk_files d0 = []).
    { unfold DIs in HD0. rewrite Hm in HD0. apply HD0. }
    cbn [ps_segs ps_next_id open_segs rev_append]. rewrite Hfiles. cbn [map filter].
    assert (G1 : forall ps, dk_meta (e_disk e0) = Some ps -> ps_next_id ps <= 0) by (fold d0; intros ps E; congruence).
    assert (G2 : 0 + 1 <= nb + 1) by lia.
    assert (G3 : nb + 1 < two64) by lia.
    assert (G4 : Forall (seg_wf c 0) []) by constructor.
    assert (G5 : Forall (sealed_ok (e_disk e0)) []) by constructor.
    assert (G6 : 1 = match tail_info [] with Some t => si_max t + 1 | None => 1 end) by reflexivity.
    assert (G7 : 1 <= 1) by lia.
    assert (G8 : 1 < two64) by (unfold two64; lia).
    assert (G9 : linked ([] ++ [new_segment c 0 1])) by exact I.
    assert (G10 : Forall (fun x => si_base x < 1) []) by constructor.
    assert (G11 : slog_of (hd_min [] (new_segment c 0 1)) (sealed_es (e_disk e0) []) = sp_log s0).
    { cbn. unfold dread. fold d0. rewrite Hm. reflexivity. }
    assert (G12 : forall n, In n [] -> listed [] n = false /\ lookup n (dk_files (e_disk e0)) <> None) by (intros n []).
    assert (G13 : forall n f, lookup n (dk_files (e_disk e0)) = Some f -> In n [] \/ listed [] n = true).
    { fold d0. rewrite Hfiles. intros n f E. discriminate. }
    destruct (open_newtail_ok c (nb + 1) s0 e0 e0 0 [] [] 1 Hc He0 G1 G2 G3 G4 G5 G6 G7 G8 G9 G10 G11 G12 G13)
      as (w & e' & Ho & He' & HL & Hde).
    exists w, e'. auto.
Qed.

Lemma no_pend_unpend_eq d : no_pend d -> sp_of (unpend d) = sp_of d.
Proof. apply sp_of_no_pend. Qed.

Theorem open_wal_ok c nb e :
  cfg_ok c -> e_fault e = None -> DIs c nb (e_disk e) -> no_pend (e_disk e) -> nb + 1 < two64 ->
  exists w e', open_wal c e = (OOk w, e') /\ ext (OQ c (nb + 1) (sp_of (e_disk e))) e e' /\
               LInv c (nb + 1) w (e_disk e') /\ dir_exact (e_disk e') = true.
Proof.
  intros Hc Hf HD HN Hnb. rewrite open_wal_unfold.
  assert (Hcod : negb (FirstExternalCodecID <=? c_codec c) && negb (c_codec c =? BinaryCodecID) = false).
  { destruct Hc as ([Hc|Hc] & _); lia. }
  rewrite Hcod.
  destruct (dk_inited (e_disk e)) eqn:Hi.
  - cbn [negb]. unfold armed. rewrite Hf. cbn [andb]. apply open_rest_ok; assumption.
  - rewrite (io_ok AInitMeta e Hf). cbn [negb]. change (armed (io_env AInitMeta e) && fx_list (e_fx (io_env AInitMeta e))) with false. cbv iota.
    set (e0 := io_env AInitMeta e).
    assert (HD0 : DIs c nb (e_disk e0)) by (apply DIs_initmeta; exact HD).
    assert (HN0 : no_pend (e_disk e0)) by (eapply no_pend_same; [|exact HN]; reflexivity).
    assert (Hs0 : sp_of (e_disk e0) = sp_of (e_disk e)) by apply sp_of_initmeta.
    destruct (open_rest_ok c nb e0 Hc eq_refl HD0 HN0 Hnb) as (w & e' & Ho & He & HL & Hde).
    exists w, e'. split; [exact Ho|]. split; [|auto].
    rewrite Hs0 in He. eapply ext_trans; [|exact He].
    apply ext_io; [apply ext_refl; [exact Hf|]|exact I|].
    + split; [eapply DIs_mono; [|exact HD]; lia|]. split; [exact HN|reflexivity].
    + split; [eapply DIs_mono; [|exact HD0]; lia|]. split; [exact HN0|exact Hs0].
Qed.
