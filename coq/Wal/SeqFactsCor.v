(* SeqFactsCor.v -- consequences of the sequential refinement theorem stated
   in plain terms (C05 corollaries, C12 store/get, C08 stable store). *)
From RW Require Import Base.Bytes Base.BytesFacts Fmt.Codec Fmt.CodecFacts Fmt.Frame
  Wal.Model Wal.Spec Wal.Hist Wal.SeqInv Wal.SeqFactsBase Wal.SeqFactsAbs Wal.SeqFactsTxn Wal.SeqFactsOps1
  Wal.SeqFactsOps2 Wal.SeqFactsOps3 Wal.SeqFactsMain Gen.Constants.
From Coq Require Import ZifyN ZifyNat ZifyBool.
Open Scope N_scope.

Lemma res_class_ok r : res_class r = ROk -> r = ROk.
Proof. destruct r; cbn; intros H; try discriminate; reflexivity. Qed.

(* facts about the abstract log of an invariant state *)
Lemma sinv_log c s : SInv c s ->
  let a := s_abs s in
  Forall log_ok (sl_ents a) /\
  (sl_is_empty a = true -> sl_ents a = []) /\
  (sl_is_empty a = false ->
     1 <= sl_first a /\ spec_last a + 1 = sl_first a + llen (sl_ents a) /\ spec_last a + 1 < two64 /\
     sl_first a <= spec_last a /\ consecutive (sl_first a) (sl_ents a) = true).
Proof.
  intros (He & ss & t & tw & HI). cbv zeta. unfold s_abs.
  destruct (abs_props _ _ _ _ _ _ HI) as (Hsf & Hsl & Hemp & Hok & Hne).
  split; [exact Hok|]. split.
  - unfold sl_is_empty. destruct (sl_ents _); [reflexivity|discriminate].
  - intros Hnz. assert (HL0 : last_index (st_segs (ss_wal s)) (st_tail (ss_wal s)) <> 0).
    { intros E. apply Hemp in E. congruence. }
    destruct (Hne HL0) as (Ha & HFm & HF1 & HFL & HLlen & HL1 & Hcons).
    rewrite Hsl. rewrite Ha in *. cbn [sl_first sl_ents] in *. repeat split; auto.
Qed.

(* in a contiguous log an entry is found under its own index *)
Lemma spec_get_in a l :
  sl_is_empty a = false -> consecutive (sl_first a) (sl_ents a) = true -> In l (sl_ents a) ->
  spec_get a (l_index l) = Some l.
Proof.
  intros Hne Hc Hin. assert (Hpos := consecutive_In_nth _ _ _ Hc Hin).
  apply In_nth_error in Hin. destruct Hin as [k Hk].
  assert (Hik := consecutive_nth _ _ _ _ Hc Hk).
  assert (Hklen : (k < length (sl_ents a))%nat) by (apply nth_error_Some; congruence).
  unfold spec_get, spec_last. rewrite Hne. cbn [orb]. unfold llen.
  destruct (N.ltb_spec (l_index l) (sl_first a)); [lia|]. cbn [orb].
  destruct (N.ltb_spec (sl_first a + N.of_nat (length (sl_ents a)) - 1) (l_index l)); [lia|]. exact Hpos.
Qed.

Lemma spec_get_some a i l :
  spec_get a i = Some l ->
  sl_is_empty a = false /\ sl_first a <= i /\ i <= spec_last a /\
  nth_error (sl_ents a) (N.to_nat (i - sl_first a)) = Some l.
Proof.
  unfold spec_get. destruct (sl_is_empty a); [discriminate|]. cbn [orb].
  destruct (N.ltb_spec i (sl_first a)); [discriminate|]. cbn [orb].
  destruct (N.ltb_spec (spec_last a) i); [discriminate|]. auto.
Qed.

(* ------------------------------------------------------------------ *)
(* C05 corollaries                                                      *)
Lemma get_in_range c os s0 i :
  cfg_ok c -> Forall sop_ok os -> short_enough os -> initial c = Some s0 ->
  let s1 := snd (run_model c s0 os) in
  let lg := sp_log (snd (run_spec spec_init os)) in
  fst (step_model c s1 (OGet i)) =
    match spec_get lg i with Some l => RLog l | None => RErrNotFound end /\
  (forall l, spec_get lg i = Some l -> l_index l = i /\ log_ok l) /\
  (sl_is_empty lg = false -> (spec_get lg i <> None <-> sl_first lg <= i <= spec_last lg)) /\
  (sl_is_empty lg = true -> spec_get lg i = None).
Proof.
  intros Hc Hops Hshort Hinit. cbv zeta.
  destruct (reach_inv c os s0 Hc Hops Hshort Hinit) as (HS & Hnid & Ha & Hk). cbv zeta in *.
  set (s1 := snd (run_model c s0 os)) in *. rewrite <- Ha.
  destruct (sinv_log c s1 HS) as (Hok & Hemp & Hne). cbv zeta in *.
  split; [|split; [|split]].
  - destruct HS as (He & ss & t & tw & HI). cbn [step_model].
    destruct (get_log_ok c _ _ ss t tw i HI) as (r0 & e' & Hg & _ & _ & Hr & _).
    rewrite Hg. cbn [fst]. exact Hr.
  - intros l Hl. destruct (spec_get_some _ _ _ Hl) as (Hnz & H1 & H2 & Hn).
    destruct (Hne Hnz) as (_ & _ & _ & _ & Hcons).
    rewrite (consecutive_nth _ _ _ _ Hcons Hn). split; [lia|].
    rewrite Forall_forall in Hok. apply Hok. eapply nth_error_In; eauto.
  - intros Hnz. destruct (Hne Hnz) as (HF1 & Hlen & _ & _ & Hcons).
    unfold spec_get. rewrite Hnz. cbn [orb].
    destruct (N.ltb_spec i (sl_first (s_abs s1))); cbn [orb]; [split; [congruence|lia]|].
    destruct (N.ltb_spec (spec_last (s_abs s1)) i); cbn [orb]; [split; [congruence|lia]|].
    split; [intros _; lia|]. intros _. apply nth_error_Some. unfold llen in Hlen. lia.
  - intros Hz. unfold spec_get. rewrite Hz. reflexivity.
Qed.

Lemma reopen_id c os s0 :
  cfg_ok c -> Forall sop_ok os -> short_enough os -> initial c = Some s0 ->
  let s1 := snd (run_model c s0 os) in
  fst (step_model c s1 OReopen) = ROk /\
  s_abs (snd (step_model c s1 OReopen)) = s_abs s1 /\ s_kv (snd (step_model c s1 OReopen)) = s_kv s1.
Proof.
  intros Hc Hops Hshort Hinit. cbv zeta.
  destruct (reach_inv c os s0 Hc Hops Hshort Hinit) as (HS & Hnid & _ & _). cbv zeta in *.
  destruct (step_reach c _ OReopen Hc I HS Hnid) as (_ & Hr & Ha & Hk). cbv zeta in *.
  cbn [step_spec fst snd sp_log sp_kv] in *. split; [apply res_class_ok; exact Hr|]. split; assumption.
Qed.

Lemma errors_change_nothing c os s0 o :
  cfg_ok c -> Forall sop_ok os -> short_enough os -> initial c = Some s0 -> sop_ok o ->
  let s1 := snd (run_model c s0 os) in
  let lg := sp_log (snd (run_spec spec_init os)) in
  match o with
  | OStore ls => spec_store lg ls = None
  | ODelete mn mx => spec_delete lg mn mx = None
  | _ => False
  end ->
  res_class (fst (step_model c s1 o)) = RErrOther /\
  s_abs (snd (step_model c s1 o)) = lg /\ s_kv (snd (step_model c s1 o)) = s_kv s1.
Proof.
  intros Hc Hops Hshort Hinit Hop. cbv zeta.
  destruct (reach_inv c os s0 Hc Hops Hshort Hinit) as (HS & Hnid & Ha & _). cbv zeta in *.
  destruct (step_reach c _ o Hc Hop HS Hnid) as (_ & Hr & Ha' & Hk). cbv zeta in *.
  rewrite <- Ha. intros Hrej.
  destruct o; try contradiction; cbn [step_spec sp_log sp_kv] in *; rewrite Hrej in *;
    cbn [fst snd sp_log sp_kv] in *; auto.
Qed.

Lemma empty_accepts_any_start c os s0 l0 rest :
  cfg_ok c -> Forall sop_ok os -> short_enough os -> initial c = Some s0 ->
  let s1 := snd (run_model c s0 os) in
  let ls := l0 :: rest in
  sl_is_empty (sp_log (snd (run_spec spec_init os))) = true ->
  logs_ok ls -> frames_size ls < two30 -> consecutive (l_index l0) ls = true ->
  fst (step_model c s1 (OStore ls)) = ROk /\
  s_abs (snd (step_model c s1 (OStore ls))) = {| sl_first := l_index l0; sl_ents := ls |}.
Proof.
  intros Hc Hops Hshort Hinit. cbv zeta.
  destruct (reach_inv c os s0 Hc Hops Hshort Hinit) as (HS & Hnid & Ha & _). cbv zeta in *.
  rewrite <- Ha. intros Hemp Hok Hfs Hcons.
  destruct (step_reach c _ (OStore (l0 :: rest)) Hc (conj Hok Hfs) HS Hnid) as (_ & Hr & Ha' & _).
  cbv zeta in *. cbn [step_spec sp_log] in *. unfold spec_store in *. rewrite Hcons, Hemp in *.
  cbn [andb orb fst snd sp_log] in *.
  destruct (sinv_log c _ HS) as (_ & He & _). cbv zeta in He. rewrite (He Hemp) in Ha'.
  split; [apply res_class_ok; exact Hr|exact Ha'].
Qed.

(* ------------------------------------------------------------------ *)
(* C12: what StoreLogs acknowledged, GetLog returns field for field      *)
Lemma store_get c os s0 ls :
  cfg_ok c -> Forall sop_ok os -> short_enough os -> initial c = Some s0 ->
  let s1 := snd (run_model c s0 os) in
  logs_ok ls -> frames_size ls < two30 ->
  spec_store (sp_log (snd (run_spec spec_init os))) ls <> None ->
  fst (step_model c s1 (OStore ls)) = ROk /\
  forall l, In l ls -> fst (step_model c (snd (step_model c s1 (OStore ls))) (OGet (l_index l))) = RLog l.
Proof.
  intros Hc Hops Hshort Hinit. cbv zeta.
  destruct (reach_inv c os s0 Hc Hops Hshort Hinit) as (HS & Hnid & Ha & _). cbv zeta in *.
  rewrite <- Ha. intros Hok Hfs Hacc.
  destruct (step_reach c _ (OStore ls) Hc (conj Hok Hfs) HS Hnid) as (HS2 & Hr & Ha' & _).
  cbv zeta in *. cbn [step_spec sp_log] in *.
  destruct (spec_store (s_abs (snd (run_model c s0 os))) ls) as [lg'|] eqn:Es; [|congruence].
  cbn [fst snd sp_log] in *. split; [apply res_class_ok; exact Hr|].
  intros l Hl. set (s2 := snd (step_model c (snd (run_model c s0 os)) (OStore ls))) in *.
  assert (Hin : In l (sl_ents (s_abs s2))).
  { rewrite Ha'. unfold spec_store in Es. destruct ls as [|l0 rest]; [destruct Hl|].
    destruct (_ && _); [|discriminate]. inversion Es; subst lg'. cbn [sl_ents]. apply in_or_app. right. exact Hl. }
  destruct (sinv_log c s2 HS2) as (_ & Hemp & Hne). cbv zeta in *.
  assert (Hnz : sl_is_empty (s_abs s2) = false).
  { destruct (sl_is_empty (s_abs s2)) eqn:E; [|reflexivity]. rewrite (Hemp eq_refl) in Hin. destruct Hin. }
  destruct (Hne Hnz) as (_ & _ & _ & _ & Hcons).
  assert (Hget := spec_get_in _ _ Hnz Hcons Hin).
  destruct HS2 as (He & ss & t & tw & HI). cbn [step_model].
  destruct (get_log_ok c _ _ ss t tw (l_index l) HI) as (r0 & e' & Hg & _ & _ & Hr0 & _).
  rewrite Hg. cbn [fst]. rewrite Hr0. unfold s_abs in Hget. rewrite Hget. reflexivity.
Qed.
