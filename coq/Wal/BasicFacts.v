(* BasicFacts.v -- small facts about the abstract disk, crashes, the stable map
   and the very first Open; used by the interim (partial) statements in Props/. *)
From RW Require Import Base.Bytes Base.BytesFacts Fmt.Codec Fmt.Frame Wal.Model Wal.Spec Wal.Hist Gen.Constants.
Open Scope N_scope.

(* ---- crash_file: synced entries of a durable file survive every adversary choice;
        the pending batch is kept whole or dropped whole ---- *)
Lemma crash_file_durable c n f :
  df_dir f = true ->
  exists f', crash_file c (n, f) = [(n, f')] /\ df_pend f' = None /\ df_dir f' = true /\
             (df_ents f' = df_ents f \/
              exists b, df_pend f = Some b /\ df_ents f' = df_ents f ++ pb_ents b /\ df_end f' = pb_end b).
Proof.
  intros Hd. unfold crash_file. rewrite Hd. cbn [negb andb].
  destruct (df_pend f) as [b|] eqn:Hp.
  - destruct (mem_name n (cc_keep_batch c)).
    + eexists; split; [reflexivity|]. cbn. repeat split. right. exists b. repeat split.
    + eexists; split; [reflexivity|]. cbn. repeat split. left. reflexivity.
  - eexists; split; [reflexivity|]. cbn. repeat split. left. reflexivity.
Qed.

Lemma crash_file_nondurable_dropped c n f :
  df_dir f = false -> mem_name n (cc_keep_file c) = false -> crash_file c (n, f) = [].
Proof. intros Hd Hk. unfold crash_file. rewrite Hd, Hk. reflexivity. Qed.

Lemma crash_disk_meta c d : dk_meta (crash_disk c d) = dk_meta d /\ dk_stable (crash_disk c d) = dk_stable d.
Proof. split; reflexivity. Qed.

(* ---- stable map ---- *)

(* maps built by kv_set have unique keys *)
Fixpoint kv_keys_unique (m : list kv) : Prop :=
  match m with
  | [] => True
  | (k, _) :: r => (forall v, ~ In (k, v) r) /\ (forall k' v', In (k', v') r -> beq_bytes k k' = false) /\ kv_keys_unique r
  end.

Lemma kv_get_notin k m : (forall k' v', In (k', v') m -> beq_bytes k k' = false) -> kv_get k m = [].
Proof.
  induction m as [|[k' v'] m IH]; intros H; cbn [kv_get]; [reflexivity|].
  unfold bytes_eqb. rewrite (H k' v' (or_introl eq_refl)). apply IH. intros k2 v2 Hin. apply (H k2 v2). right. exact Hin.
Qed.

Lemma beq_bytes_sym a b : beq_bytes a b = beq_bytes b a.
Proof.
  destruct (beq_bytes a b) eqn:E.
  - apply beq_bytes_eq in E. subst. symmetry. apply beq_bytes_refl.
  - destruct (beq_bytes b a) eqn:E2; [|reflexivity]. apply beq_bytes_eq in E2. subst.
    rewrite beq_bytes_refl in E. discriminate.
Qed.


Lemma kv_get_set_same k v m : kv_keys_unique m -> kv_get k (kv_set k v m) = v.
Proof.
  induction m as [|[k' v'] m IH]; intros Hu; cbn [kv_set kv_get].
  - destruct v as [|b v]; cbn [kv_get]; [reflexivity|]. unfold bytes_eqb. rewrite beq_bytes_refl. reflexivity.
  - destruct Hu as (Hn & Hd & Hu'). unfold bytes_eqb. destruct (beq_bytes k k') eqn:E.
    + destruct v as [|b v].
      * apply beq_bytes_eq in E. subst k'. apply kv_get_notin. exact Hd.
      * cbn [kv_get]. unfold bytes_eqb. rewrite beq_bytes_refl. reflexivity.
    + cbn [kv_get]. unfold bytes_eqb. rewrite E. apply IH. exact Hu'.
Qed.

Lemma kv_get_set_other k k2 v m : beq_bytes k2 k = false -> kv_get k2 (kv_set k v m) = kv_get k2 m.
Proof.
  intros Hne. induction m as [|[k' v'] m IH]; cbn [kv_set kv_get].
  - destruct v as [|b v]; cbn [kv_get]; [reflexivity|]. unfold bytes_eqb. rewrite Hne. reflexivity.
  - unfold bytes_eqb in *. destruct (beq_bytes k k') eqn:E.
    + apply beq_bytes_eq in E. subst k'. rewrite Hne.
      destruct v as [|b v]; cbn [kv_get]; [reflexivity|]. unfold bytes_eqb. rewrite Hne. reflexivity.
    + cbn [kv_get]. unfold bytes_eqb. destruct (beq_bytes k2 k'); [reflexivity|]. exact IH.
Qed.

(* ---- the very first Open: on an empty directory it succeeds, the log is empty,
        and the directory holds exactly the one listed tail file ---- *)
Lemma first_open c :
  cfg_ok c ->
  exists w e, open_wal c fresh_env = (OOk w, e) /\ abs w (e_disk e) = sl_empty /\
              dir_exact (e_disk e) = true /\ dk_stable (e_disk e) = [] /\
              first_index (st_segs w) (st_tail w) = 0 /\ last_index (st_segs w) (st_tail w) = 0.
Proof.
  intros (Hcodec & Hlt & Hs1 & Hs2).
  unfold open_wal.
  assert (Hchk : negb (FirstExternalCodecID <=? c_codec c) && negb (c_codec c =? BinaryCodecID) = false).
  { destruct Hcodec as [H|H].
    - rewrite H. rewrite N.eqb_refl. cbn [negb]. apply andb_false_r.
    - replace (FirstExternalCodecID <=? c_codec c) with true by (symmetry; apply N.leb_le; exact H). reflexivity. }
  rewrite Hchk. destruct c as [sz cd]. cbn [c_seg_size c_codec] in *.
  unfold fresh_env, io, seg_create, new_segment. cbn.
  do 2 eexists. split; [reflexivity|].
  unfold abs, seg_visible, dir_exact, first_index, last_index. cbn.
  repeat split; reflexivity.
Qed.
