(* CrashGlue.v -- from the per-call lemma [call_ok] (every call refines the spec,
   keeps the live invariant, and every disk it passes through recovers to the
   old or the new spec state) to the master statement over crash histories. *)
From RW Require Import Base.Bytes Base.BytesFacts Fmt.Codec Fmt.CodecFacts Fmt.Frame Wal.Model Wal.Spec Wal.Hist
  Wal.CrashInv Wal.CrashFacts0 Wal.CrashFacts1 Wal.CrashFacts2 Wal.CrashFacts3 Wal.CrashFacts4 Wal.CrashFacts5
  Gen.Constants.
From Coq Require Import ZifyN ZifyNat ZifyBool.
Open Scope N_scope.

Definition call_ok (c : cfg) (o : sop) : Prop :=
  forall nb s a, cfg_ok c -> sop_ok o -> nb + 2 < two64 ->
    LInv c nb (ss_wal s) (e_disk (ss_env s)) -> e_fault (ss_env s) = None ->
    sp_of (e_disk (ss_env s)) = a -> sp_good a ->
    exists r s', step_model c s o = (r, s') /\
      result_eqb (res_class r) (fst (step_spec a o)) = true /\
      LInv c (nb + 2) (ss_wal s') (e_disk (ss_env s')) /\
      sp_of (e_disk (ss_env s')) = snd (step_spec a o) /\
      ext (DP c (nb + 2) (fun x => x = a \/ x = snd (step_spec a o))) (ss_env s) (ss_env s').

(* ---- the spec keeps entries storable ---- *)
Lemma Forall_firstn {A} (P : A -> Prop) n l : Forall P l -> Forall P (firstn n l).
Proof. intros H. rewrite <- (firstn_skipn n l) in H. apply Forall_app in H. apply H. Qed.
Lemma Forall_skipn {A} (P : A -> Prop) n l : Forall P l -> Forall P (skipn n l).
Proof. intros H. rewrite <- (firstn_skipn n l) in H. apply Forall_app in H. apply H. Qed.

Lemma step_spec_good a o : sp_good a -> sop_ok o -> sp_good (snd (step_spec a o)).
Proof.
  intros Hg Ho. unfold sp_good in *. destruct o; cbn [step_spec]; try exact Hg.
  - destruct Ho as (Hl & _). unfold spec_store. destruct ls as [|l0 r]; [exact Hg|].
    destruct (consecutive (l_index l0) (l0 :: r) && (sl_is_empty (sp_log a) || (l_index l0 =? spec_last (sp_log a) + 1))); [|exact Hg].
    cbn. apply Forall_app. split; assumption.
  - unfold spec_delete.
    destruct ((mx <? mn) || sl_is_empty (sp_log a) || (mx <? sl_first (sp_log a)) || (spec_last (sp_log a) <? mn)); [exact Hg|].
    destruct (mn <=? sl_first (sp_log a)).
    + destruct (spec_last (sp_log a) <=? mx); cbn; [constructor|apply Forall_skipn; exact Hg].
    + destruct (spec_last (sp_log a) <=? mx); cbn; [apply Forall_firstn; exact Hg|exact Hg].
  - destruct (spec_get (sp_log a) i); exact Hg.
  - destruct (key_ok k); [exact Hg|]. destruct is_nil; exact Hg.
Qed.

(* ---- the invariant of histories ---- *)
Definition GI (c : cfg) (nb : N) (h : hstate) : Prop :=
  hs_ok h = true /\ sp_good (hs_acked h) /\ sp_good (hs_may h) /\
  match hs_mode h with
  | Up s => hs_may h = hs_acked h /\ LInv c nb (ss_wal s) (e_disk (ss_env s)) /\
            e_fault (ss_env s) = None /\ sp_of (e_disk (ss_env s)) = hs_acked h /\
            Forall not_fail (e_acts (ss_env s))
  | Down d => DIs c nb d /\ no_pend d /\ (sp_of d = hs_acked h \/ sp_of d = hs_may h)
  end.

Lemma ext_nofail P e0 e : ext P e0 e -> Forall not_fail (e_acts e0) -> Forall not_fail (e_acts e).
Proof.
  intros (_ & acts & Ea & Hnf & _) H0. rewrite Ea. apply Forall_app. split; [|exact H0].
  rewrite Forall_forall in *. intros a Ha. apply Hnf. apply in_rev. exact Ha.
Qed.

Lemma GI_mono c nb nb' h : nb <= nb' -> GI c nb h -> GI c nb' h.
Proof.
  intros Hle (H1 & H2 & H3 & H4). split; [exact H1|]. split; [exact H2|]. split; [exact H3|].
  destruct (hs_mode h).
  - destruct H4 as (A & B & C). split; [exact A|]. split; [eapply LInv_mono; eauto|exact C].
  - destruct H4 as (A & B). split; [eapply DIs_mono; eauto|exact B].
Qed.

Lemma GI_init c : GI c 0 hist_init.
Proof.
  split; [reflexivity|]. split; [constructor|]. split; [constructor|]. cbn.
  split; [split; [constructor|reflexivity]|]. split; [intros n f H; discriminate|left; reflexivity].
Qed.

Definition step_covered (ok : sop -> Prop) (st : hstep) : Prop :=
  match st with HOp o | HCrashIn o _ _ => ok o | _ => True end.

Lemma env_of_acts d : e_acts (env_of d) = []. Proof. reflexivity. Qed.

Lemma GI_step c nb h st (ok : sop -> Prop) :
  cfg_ok c -> (forall o, ok o -> call_ok c o) -> nb + 2 < two64 ->
  hstep_wf st -> step_covered ok st -> GI c nb h -> GI c (nb + 2) (hstep_run c h st).
Proof.
  intros Hc Hcall Hnb Hwf Hcov HG.
  assert (Hmono : GI c (nb + 2) h) by (eapply GI_mono; [|exact HG]; lia).
  destruct HG as (Hok & Hga & Hgm & HM).
  unfold hstep_run. destruct (hs_mode h) as [s|d] eqn:Emode.
  - destruct HM as (Hma & HL & Hf & Hsp & Hnofail).
    destruct st as [o|o j cc| |j cc]; try exact Hmono.
    + (* a complete call *)
      destruct (Hcall o Hcov nb s (hs_acked h) Hc Hwf Hnb HL Hf Hsp Hga) as (r & s' & Hst & Hres & HL' & Hsp' & Hext).
      rewrite Hst. destruct (step_spec (hs_acked h) o) as [r' sp'] eqn:Espec. cbn [fst snd] in *.
      pose proof (step_spec_good (hs_acked h) o Hga Hwf) as Hg'. rewrite Espec in Hg'. cbn [snd] in Hg'.
      split; [cbn [hs_ok]|].
      { rewrite Hok, Hres. cbn [andb]. rewrite (LInv_abs _ _ _ _ HL'). fold (sp_of (e_disk (ss_env s'))).
        rewrite Hsp'. apply spst_eqb_refl. }
      cbn [hs_acked hs_may hs_mode]. split; [exact Hg'|]. split; [exact Hg'|].
      split; [reflexivity|]. split; [exact HL'|]. split; [apply (ext_fault _ _ _ Hext)|]. split; [exact Hsp'|].
      apply (ext_nofail _ _ _ Hext Hnofail).
    + (* a crash inside a call *)
      destruct (Hcall o Hcov nb s (hs_acked h) Hc Hwf Hnb HL Hf Hsp Hga) as (r & s' & Hst & Hres & HL' & Hsp' & Hext).
      rewrite Hst. destruct (step_spec (hs_acked h) o) as [r' sp'] eqn:Espec. cbn [fst snd] in *.
      pose proof (step_spec_good (hs_acked h) o Hga Hwf) as Hg'. rewrite Espec in Hg'. cbn [snd] in Hg'.
      destruct (ext_acts _ _ _ Hext) as (acts & Ea & Hnf & Hdisk & Hpre). rewrite Ea.
      set (dj := fold_left apply_act (firstn j acts) (e_disk (ss_env s))).
      destruct (Hpre j) as (HDj & Haj & Huj). fold dj in HDj, Haj, Huj.
      pose proof (DIs_crash c (nb + 2) cc dj HDj) as HDc.
      pose proof (crash_no_pend cc dj (DIs_NoDup _ _ _ HDj)) as HNc.
      pose proof (crash_reading c (nb + 2) cc dj HDj) as Hrd.
      destruct (Nat.leb (length acts) j) eqn:Ej.
      * apply Nat.leb_le in Ej.
        assert (Edj : dj = e_disk (ss_env s')).
        { unfold dj. rewrite firstn_all2 by exact Ej. symmetry. exact Hdisk. }
        assert (Hfin : sp_of (crash_disk cc dj) = sp').
        { destruct HL' as (_ & _ & _ & HN' & _). rewrite <- Edj in HN'.
          rewrite (sp_of_no_pend dj HN') in Hrd. rewrite Edj in Hrd. rewrite Hsp' in Hrd. rewrite Edj. destruct Hrd; assumption. }
        split; [exact Hok|]. cbn [hs_acked hs_may hs_mode]. split; [exact Hg'|]. split; [exact Hg'|].
        split; [exact HDc|]. split; [exact HNc|left; exact Hfin].
      * split; [exact Hok|]. cbn [hs_acked hs_may hs_mode]. split; [exact Hga|]. split; [exact Hg'|].
        split; [exact HDc|]. split; [exact HNc|].
        destruct Hrd as [-> | ->]; [destruct Haj|destruct Huj]; auto.
  - destruct HM as (HD & HN & Hsp).
    destruct st as [o|o j cc| |j cc]; try exact Hmono.
    + (* Open *)
      destruct (open_wal_ok c nb (env_of d) Hc eq_refl HD HN) as (w & e' & Ho & Hext & HL & Hde); [lia|].
      rewrite Ho. cbn [env_of e_disk] in Hext.
      pose proof (ext_final _ _ _ Hext) as (_ & _ & Hs').
      assert (Hgot : {| sp_log := abs w (e_disk e'); sp_kv := dk_stable (e_disk e') |} = sp_of d).
      { rewrite (LInv_abs _ _ _ _ HL). exact Hs'. }
      rewrite Hgot.
      set (now := if spst_eqb (sp_of d) (hs_acked h) then hs_acked h else hs_may h).
      assert (Hnow : sp_of d = now /\ spst_eqb (sp_of d) (hs_acked h) || spst_eqb (sp_of d) (hs_may h) = true).
      { unfold now. destruct (spst_eqb (sp_of d) (hs_acked h)) eqn:E1.
        - apply spst_eqb_eq in E1. auto.
        - destruct Hsp as [Hsp|Hsp]; [rewrite Hsp, spst_eqb_refl in E1; discriminate|].
          split; [exact Hsp|]. rewrite Hsp, spst_eqb_refl. reflexivity. }
      destruct Hnow as (Hn1 & Hn2).
      assert (Hgn : sp_good now) by (unfold now; destruct (spst_eqb (sp_of d) (hs_acked h)); assumption).
      split; [cbn [hs_ok]; rewrite Hok, Hn2, Hde; reflexivity|].
      cbn [hs_acked hs_may hs_mode]. split; [exact Hgn|]. split; [exact Hgn|].
      split; [reflexivity|]. split; [eapply LInv_mono; [|exact HL]; lia|].
      cbn [ss_env]. split; [apply (ext_fault _ _ _ Hext)|]. split; [rewrite Hs'; exact Hn1|].
      apply (ext_nofail _ _ _ Hext). constructor.
    + (* a crash inside Open *)
      destruct (open_wal_ok c nb (env_of d) Hc eq_refl HD HN) as (w & e' & Ho & Hext & HL & Hde); [lia|].
      rewrite Ho. cbn [env_of e_disk] in Hext.
      destruct (ext_acts _ _ _ Hext) as (acts & Ea & Hnf & Hdisk & Hpre).
      assert (Eacts : rev_append (e_acts e') [] = acts).
      { rewrite <- Ea. unfold new_acts. rewrite env_of_acts. cbn [length]. rewrite Nat.sub_0_r, firstn_all. reflexivity. }
      rewrite Eacts. cbn [env_of e_disk] in Hpre.
      destruct (Hpre j) as (HDj & HNj & Hsj).
      set (dj := fold_left apply_act (firstn j acts) d) in *.
      split; [exact Hok|]. cbn [hs_acked hs_may hs_mode]. split; [exact Hga|]. split; [exact Hgm|].
      split; [eapply DIs_mono; [|apply DIs_crash; exact HDj]; lia|].
      split; [apply crash_no_pend; eapply DIs_NoDup; eauto|].
      destruct (crash_reading c (nb + 1) cc dj HDj) as [Hr|Hr]; rewrite Hr; [|rewrite (sp_of_no_pend dj HNj)]; rewrite Hsj; exact Hsp.
Qed.

Lemma GI_run c (ok : sop -> Prop) steps : forall nb h,
  cfg_ok c -> (forall o, ok o -> call_ok c o) ->
  nb + 2 * N.of_nat (length steps) < two64 ->
  Forall hstep_wf steps -> Forall (step_covered ok) steps -> GI c nb h ->
  GI c (nb + 2 * N.of_nat (length steps)) (hist_run c h steps).
Proof.
  unfold hist_run. induction steps as [|st steps IH]; intros nb h Hc Hcall Hnb Hwf Hcov HG.
  - cbn [length fold_left]. replace (nb + 2 * N.of_nat 0) with nb by lia. exact HG.
  - inversion Hwf as [|? ? Hw1 Hw2]; subst. inversion Hcov as [|? ? Hc1 Hc2]; subst.
    cbn [fold_left length]. cbn [length] in Hnb.
    replace (nb + 2 * N.of_nat (S (length steps))) with ((nb + 2) + 2 * N.of_nat (length steps)) by lia.
    apply IH; auto; [lia|].
    eapply GI_step; eauto. lia.
Qed.

Theorem crash_refinement_from_calls c (ok : sop -> Prop) steps :
  cfg_ok c -> (forall o, ok o -> call_ok c o) ->
  Forall hstep_wf steps -> Forall (step_covered ok) steps -> short_enough steps ->
  hs_ok (hist_run c hist_init steps) = true.
Proof.
  intros Hc Hcall Hwf Hcov Hshort.
  assert (Hb : 0 + 2 * N.of_nat (length steps) < two64).
  { unfold short_enough in Hshort. unfold two64. lia. }
  apply (GI_run c ok steps 0 hist_init Hc Hcall Hb Hwf Hcov (GI_init c)).
Qed.
