(* CrashFacts6.v -- the reading of a well-formed segment list as a contiguous
   log: lengths, positions, FirstIndex/LastIndex, segment lookup. *)
From RW Require Import Base.Bytes Base.BytesFacts Fmt.Codec Fmt.CodecFacts Fmt.Frame Wal.Model Wal.Spec Wal.Hist
  Wal.CrashInv Wal.CrashFacts0 Wal.CrashFacts1 Wal.CrashFacts2 Wal.CrashFacts3 Wal.CrashFacts4 Wal.CrashFacts5
  Gen.Constants.
From Coq Require Import ZifyN ZifyNat ZifyBool.
Open Scope N_scope.

Lemma nth_error_firstn' {A} (l : list A) n k : (k < n)%nat -> nth_error (firstn n l) k = nth_error l k.
Proof.
  revert n k. induction l as [|x l IH]; intros n k H.
  - rewrite firstn_nil. reflexivity.
  - destruct n; [lia|]. destruct k; [reflexivity|]. cbn. apply IH. lia.
Qed.
Lemma nth_error_skipn' {A} (l : list A) m k : nth_error (skipn m l) k = nth_error l (m + k).
Proof.
  revert l. induction m as [|m IH]; intros l; [reflexivity|].
  destruct l; [cbn; destruct k; reflexivity|]. cbn. apply IH.
Qed.

(* one sealed segment *)
Lemma seg_visible_sealed_facts d s :
  sealed_ok d s -> 1 <= si_base s -> si_base s <= si_min s ->
  llen (seg_visible 0 d s) = si_max s - si_min s + 1 /\
  forall i, si_min s <= i -> i <= si_max s ->
    nth_error (seg_visible 0 d s) (N.to_nat (i - si_min s)) =
    nth_error (file_ents (name_of s) d) (N.to_nat (i - si_base s)).
Proof.
  intros (Hse & Hmm & f & Hf & Hd & Hp & He & Hlen) Hb Hbm.
  unfold seg_visible. rewrite Hse.
  destruct ((si_max s =? 0) || (si_max s <? si_min s)) eqn:E; [lia|].
  assert (Hfe : file_ents (name_of s) d = df_ents f).
  { unfold file_ents. rewrite Hf. unfold cur_ents. rewrite Hp. reflexivity. }
  rewrite Hfe. split.
  - unfold llen. rewrite firstn_length, skipn_length. unfold llen in Hlen. lia.
  - intros i H1 H2. rewrite nth_error_firstn' by lia. rewrite nth_error_skipn'. f_equal. lia.
Qed.

(* the sealed prefix *)
Lemma sealed_es_cons d s S : sealed_es d (s :: S) = seg_visible 0 d s ++ sealed_es d S.
Proof. reflexivity. Qed.

Definition swf (s : seginfo) : Prop := 1 <= si_base s /\ si_base s <= si_min s.

Lemma sealed_es_len d S t :
  Forall (sealed_ok d) S -> Forall swf S -> linked (S ++ [t]) -> S <> [] ->
  llen (sealed_es d S) + hd_min S t = si_base t.
Proof.
  induction S as [|s S IH]; intros Hso Hw Hl Hne; [congruence|].
  inversion Hso as [|? ? Hs Hso']; subst. inversion Hw as [|? ? Hws Hw']; subst.
  destruct Hws as (Hb & Hbm).
  destruct (seg_visible_sealed_facts d s Hs Hb Hbm) as (Hlen & _).
  pose proof Hs as (_ & Hmm & _).
  rewrite sealed_es_cons, llen_app, Hlen. unfold hd_min. cbn [hd].
  destruct S as [|s' S'].
  - cbn in Hl. unfold sealed_es. cbn [flat_map]. change (llen (@nil log)) with 0. lia.
  - change (linked (s :: s' :: S' ++ [t])) in Hl. rewrite linked_cons2 in Hl. destruct Hl as (H1 & H2 & H3).
    specialize (IH Hso' Hw' H3 ltac:(discriminate)). unfold hd_min in IH. cbn [hd] in IH. lia.
Qed.

Lemma chain_after L : forall a t s,
  linked (a :: L ++ [t]) -> Forall sst L -> In s L -> si_max a < si_min s.
Proof.
  induction L as [|b L IH]; intros a t s Hl Hs Hin; [destruct Hin|].
  change (linked (a :: b :: L ++ [t])) in Hl. rewrite linked_cons2 in Hl. destruct Hl as (L1 & L2 & L3).
  inversion Hs as [|? ? Hb Hs']; subst. unfold sst in Hb.
  destruct Hin as [<-|Hin]; [lia|].
  specialize (IH b t s L3 Hs' Hin). lia.
Qed.

Lemma sealed_swf_sst d S : Forall (sealed_ok d) S -> Forall swf S -> Forall sst S.
Proof.
  induction S as [|x l IHl]; intros A B; [constructor|].
  inversion A as [|? ? Ax A']; inversion B as [|? ? Bx B']; subst. constructor; [|auto].
  destruct Ax as (_ & Hm & _). destruct Bx as (_ & Hbm'). split; assumption.
Qed.

Lemma sealed_es_nth d S t s i X :
  Forall (sealed_ok d) S -> Forall swf S -> linked (S ++ [t]) -> In s S ->
  si_min s <= i -> i <= si_max s ->
  nth_error (sealed_es d S ++ X) (N.to_nat (i - hd_min S t)) =
  nth_error (file_ents (name_of s) d) (N.to_nat (i - si_base s)).
Proof.
  induction S as [|a S IH]; intros Hso Hw Hl Hin H1 H2; [destruct Hin|].
  inversion Hso as [|? ? Hs Hso']; subst. inversion Hw as [|? ? Hws Hw']; subst.
  destruct Hws as (Hb & Hbm).
  destruct (seg_visible_sealed_facts d a Hs Hb Hbm) as (Hlen & Hnth).
  pose proof Hs as (_ & Hmm & _).
  rewrite sealed_es_cons, <- app_assoc. unfold hd_min. cbn [hd].
  destruct Hin as [<-|Hin].
  - rewrite nth_error_app1 by (unfold llen in Hlen; lia). apply Hnth; assumption.
  - pose proof (chain_after S a t s Hl (sealed_swf_sst d S Hso' Hw') Hin) as Haft.
    destruct S as [|s' S']; [destruct Hin|].
    change (linked (a :: s' :: S' ++ [t])) in Hl. rewrite linked_cons2 in Hl. destruct Hl as (L1 & L2 & L3).
    specialize (IH Hso' Hw' L3 Hin H1 H2). unfold hd_min in IH. cbn [hd] in IH.
    rewrite nth_error_app2 by (unfold llen in Hlen; lia). rewrite <- IH. f_equal. unfold llen in Hlen. lia.
Qed.

Lemma list_eq_dec_nil {A} (l : list A) : l = [] \/ l <> [].
Proof. destruct l; [left; reflexivity|right; discriminate]. Qed.

(* ---- the components of a live state ---- *)
Record lview (c : cfg) (nb : N) (w : wal) (d : disk) (S : list seginfo) (t : seginfo) (f : dfile) (tw : wseg) : Prop := {
  lv_segs : st_segs w = S ++ [t];
  lv_tail : st_tail w = Some tw;
  lv_file : lookup (name_of t) (dk_files d) = Some f;
  lv_pend : df_pend f = None;
  lv_tw : tw_ok t f tw;
  lv_rot : st_rotate w = (if 0 <? df_seal f then Some (df_seal f) else None);
  lv_meta : dk_meta d = Some {| ps_next_id := st_next_id w; ps_segs := S ++ [t] |};
  lv_nid : st_next_id w <= nb;
  lv_ids : forall n g, lookup n (dk_files d) = Some g -> snd n < st_next_id w;
  lv_wf : Forall (seg_wf c (st_next_id w)) (S ++ [t]);
  lv_linked : linked (S ++ [t]);
  lv_sealed : Forall (sealed_ok d) S;
  lv_tok : tail_ok c d t;
  lv_closed : st_closed w = false;
  lv_failed : st_failed w = false;
  lv_dis : DIs c nb d;
  lv_nopend : no_pend d;
  lv_read : dread d = slog_of (hd_min S t)
                        (sealed_es d S ++ skipn (N.to_nat (si_min t - si_base t)) (df_ents f)) }.

Lemma LInv_view c nb w d : LInv c nb w d -> exists S t f tw, lview c nb w d S t f tw.
Proof.
  intros (H1 & H2 & H3 & H4 & H5 & t & f & tw & Ht & Hf & Htw & Hok & Hrot).
  destruct (DIs_segs _ _ _ _ H3 H5) as (S & t' & Hs). cbn [persistent ps_segs] in Hs.
  assert (t' = t). { rewrite Hs, tail_info_app in Ht. inversion Ht. reflexivity. } subst t'.
  destruct (DIs_parts _ _ _ _ _ _ H3 H5 Hs) as (P1 & P2 & P3 & P4 & P5 & P6 & P7).
  cbn [persistent ps_next_id] in *.
  exists S, t, f, tw. constructor; auto.
  - apply (H4 _ _ Hf).
  - rewrite H5. unfold persistent. rewrite Hs. reflexivity.
  - rewrite (dread_decomp c nb d _ S t H3 H5 Hs). unfold tail_es, file_ents. rewrite Hf.
    unfold cur_ents. rewrite (H4 _ _ Hf). reflexivity.
Qed.

Lemma wf_swf c nid S : Forall (seg_wf c nid) S -> Forall swf S.
Proof. apply Forall_impl. intros s (_ & _ & H1 & _ & H2 & _). split; assumption. Qed.

Definition lv_es (d : disk) (S : list seginfo) (t : seginfo) (f : dfile) : list log :=
  sealed_es d S ++ skipn (N.to_nat (si_min t - si_base t)) (df_ents f).

Lemma lv_twf {c nb w d S t f tw} (V : lview c nb w d S t f tw) : seg_wf c (st_next_id w) t.
  Proof. pose proof (lv_wf _ _ _ _ _ _ _ _ V) as H. rewrite Forall_forall in H. apply H. apply in_or_app; right; left; reflexivity. Qed.

Lemma lv_Swf {c nb w d S t f tw} (V : lview c nb w d S t f tw) : Forall swf S.
  Proof. pose proof (lv_wf _ _ _ _ _ _ _ _ V) as H. apply Forall_app in H. eapply wf_swf. apply H. Qed.

Lemma lv_min_cond {c nb w d S t f tw} (V : lview c nb w d S t f tw) :
    if llen (df_ents f) =? 0 then si_min t = si_base t else si_min t <= si_base t + llen (df_ents f) - 1.
  Proof.
    pose proof (lv_tok _ _ _ _ _ _ _ _ V) as (_ & H). rewrite (lv_file _ _ _ _ _ _ _ _ V) in H. apply H.
  Qed.

Lemma lv_hd_min_lt {c nb w d S t f tw} (V : lview c nb w d S t f tw) : S <> [] -> hd_min S t < si_base t /\ si_min t = si_base t.
  Proof.
    intros Hne. pose proof (lv_linked _ _ _ _ _ _ _ _ V) as Hl. pose proof (lv_sealed _ _ _ _ _ _ _ _ V) as Hso.
    pose proof (lv_Swf V) as Hw.
    pose proof (linked_app_lt S t Hl (sealed_swf_sst d S Hso Hw)) as Hlt.
    destruct S as [|s S']; [congruence|]. unfold hd_min. cbn [hd].
    inversion Hlt as [|? ? Hs _]; subst. inversion Hso as [|? ? (_ & Hmm & _) _]; subst.
    split; [lia|].
    clear - Hl. revert s Hl. induction S' as [|y S'' IH]; intros s Hl.
    - cbn in Hl. tauto.
    - change (linked (s :: y :: S'' ++ [t])) in Hl. rewrite linked_cons2 in Hl. destruct Hl as (_ & _ & Hl). eapply IH; eauto.
  Qed.

Lemma lv_len {c nb w d S t f tw} (V : lview c nb w d S t f tw) :
  llen (lv_es d S t f) + hd_min S t = si_base t + llen (df_ents f).
Proof.
  unfold lv_es. rewrite llen_app.
  pose proof (lv_min_cond V) as Hmc. pose proof (lv_twf V) as (_ & _ & Hb1 & _ & Hbm & _).
  assert (Hsk : llen (skipn (N.to_nat (si_min t - si_base t)) (df_ents f)) + si_min t = si_base t + llen (df_ents f)).
  { unfold llen. rewrite skipn_length. unfold llen in Hmc.
    destruct (N.of_nat (length (df_ents f)) =? 0) eqn:Z; lia. }
  destruct (list_eq_dec_nil S) as [ES|Hne].
  - subst S. unfold sealed_es, hd_min. cbn [flat_map hd]. change (llen (@nil log)) with 0. lia.
  - pose proof (sealed_es_len d S t (lv_sealed _ _ _ _ _ _ _ _ V) (lv_Swf V) (lv_linked _ _ _ _ _ _ _ _ V) Hne) as Hl.
    destruct (lv_hd_min_lt V Hne) as (_ & Hmt). lia.
Qed.

Lemma lv_es_nil {c nb w d S t f tw} (V : lview c nb w d S t f tw) :
  lv_es d S t f = [] <-> (S = [] /\ llen (df_ents f) = 0).
Proof.
  pose proof (lv_len V) as Hl. pose proof (lv_min_cond V) as Hmc. rewrite <- llen_0. split.
  - intros Hz. destruct (list_eq_dec_nil S) as [ES|Hne].
    + split; [exact ES|]. subst S. unfold hd_min in Hl. cbn [hd] in Hl.
      destruct (llen (df_ents f) =? 0) eqn:Z; lia.
    + destruct (lv_hd_min_lt V Hne). lia.
  - intros (-> & Hz). unfold hd_min in Hl. cbn [hd] in Hl. rewrite Hz in Hmc. cbn in Hmc. lia.
Qed.

Lemma lv_tail_last {c nb w d S t f tw} (V : lview c nb w d S t f tw) :
  tail_last (st_tail w) = tl_of (si_base t) (df_ents f).
Proof. rewrite (lv_tail _ _ _ _ _ _ _ _ V). cbn. apply (lv_tw _ _ _ _ _ _ _ _ V). Qed.

Lemma slog_of_first first es : es <> [] -> sl_first (slog_of first es) = first /\ sl_ents (slog_of first es) = es
  /\ sl_is_empty (slog_of first es) = false.
Proof. destruct es; [congruence|]. intros _. cbn. auto. Qed.

Lemma lv_first {c nb w d S t f tw} (V : lview c nb w d S t f tw) :
  first_index (st_segs w) (st_tail w) = spec_first (dread d).
Proof.
  rewrite (lv_read _ _ _ _ _ _ _ _ V). fold (lv_es d S t f). unfold first_index, spec_first.
  rewrite (lv_segs _ _ _ _ _ _ _ _ V), (lv_tail_last V).
  pose proof (lv_es_nil V) as Hn. pose proof (lv_min_cond V) as Hmc.
  pose proof (lv_sealed _ _ _ _ _ _ _ _ V) as Hso.
  pose proof (lv_tok _ _ _ _ _ _ _ _ V) as (Hu & _). pose proof (lv_twf V) as (_ & _ & Hb1 & _).
  destruct (list_eq_dec_nil (lv_es d S t f)) as [Ee|Ee].
  - rewrite Ee. cbn. destruct Hn as (Hn & _). destruct (Hn Ee) as (-> & Hz). cbn [app]. rewrite Hu.
    unfold tl_of. rewrite Hz. reflexivity.
  - destruct (slog_of_first (hd_min S t) _ Ee) as (E1 & E2 & E3). rewrite E1, E3.
    destruct S as [|s S'].
    + cbn [app]. rewrite Hu. cbn [negb andb]. unfold tl_of.
      destruct (llen (df_ents f) =? 0) eqn:Z.
      * exfalso. apply Ee. apply Hn. split; [reflexivity|lia].
      * destruct (si_base t + llen (df_ents f) - 1 =? 0) eqn:Z2; [lia|]. reflexivity.
    + cbn [app]. inversion Hso as [|? ? (Hse & _) _]; subst. rewrite Hse. reflexivity.
Qed.

Lemma lv_last {c nb w d S t f tw} (V : lview c nb w d S t f tw) :
  last_index (st_segs w) (st_tail w) = spec_last (dread d).
Proof.
  rewrite (lv_read _ _ _ _ _ _ _ _ V). fold (lv_es d S t f). unfold last_index, spec_last.
  rewrite (lv_segs _ _ _ _ _ _ _ _ V), (lv_tail_last V).
  pose proof (lv_es_nil V) as Hn. pose proof (lv_len V) as Hl. pose proof (lv_twf V) as (_ & _ & Hb1 & _).
  pose proof (lv_min_cond V) as Hmc.
  destruct (list_eq_dec_nil (lv_es d S t f)) as [Ee|Ee].
  - rewrite Ee. cbn [slog_of sl_is_empty sl_empty sl_ents]. destruct Hn as (Hn & _). destruct (Hn Ee) as (-> & Hz).
    unfold tl_of. rewrite Hz. reflexivity.
  - destruct (slog_of_first (hd_min S t) _ Ee) as (E1 & E2 & E3). rewrite E1, E2, E3.
    unfold tl_of. destruct (llen (df_ents f) =? 0) eqn:Z.
    + change (0 <? 0) with false. cbn iota. rewrite rev_app_distr. cbn [rev app].
      destruct (list_eq_dec_nil S) as [ES|Hne]; [exfalso; apply Ee; apply Hn; split; [exact ES|lia]|].
      destruct (lv_hd_min_lt V Hne) as (Hlt & _).
      destruct (rev S) as [|x r] eqn:Er.
      { apply (f_equal (@rev _)) in Er. rewrite rev_involutive in Er. cbn in Er. congruence. }
      destruct (si_base t =? 0) eqn:Zb; lia.
    + destruct (0 <? si_base t + llen (df_ents f) - 1) eqn:Z2; [|lia].
      destruct (list_eq_dec_nil S) as [ES|Hne].
      * subst S. unfold hd_min in *. cbn [hd] in *. lia.
      * destruct (lv_hd_min_lt V Hne). lia.
Qed.
