(* CrashInv.v -- the invariants behind the crash-refinement theorem
   (Hist.crash_refinement_stmt).  Definitions only; lemmas are in CrashFacts*.v.

   DIs c nb d      structural invariant of a disk at ANY I/O boundary (of a call,
                   of the background rotation, of Open/recovery), also after a crash
   dread d         the log a recovery of d yields when pending batches are kept;
                   dread (unpend d) when they are lost
   LInv c nb w d   ties the state of a running process to its disk
   ext P e0 e      e extends e0 by I/O actions such that every intermediate disk
                   satisfies P (this is how "a crash at any action boundary" is
                   expressed)                                                     *)
From RW Require Import Base.Bytes Fmt.Codec Fmt.Frame Wal.Model Wal.Spec Wal.Hist Gen.Constants.
Open Scope N_scope.

(* ---- pending batches dropped ---- *)
Definition unpend_file (f : dfile) : dfile :=
  {| df_ents := df_ents f; df_end := df_end f; df_seal := df_seal f; df_pend := None;
     df_dir := df_dir f; df_size := df_size f |}.
Definition unpend (d : disk) : disk :=
  {| dk_files := map (fun nf => (fst nf, unpend_file (snd nf))) (dk_files d);
     dk_meta := dk_meta d; dk_stable := dk_stable d; dk_inited := dk_inited d |}.

(* ---- the log read off a disk ---- *)
Definition tl_of (base : N) (ents : list log) : N :=
  if llen ents =? 0 then 0 else base + llen ents - 1.

Definition first_gen (segs : list seginfo) (tl : N) : N :=
  match segs with
  | [] => 0
  | s :: _ => if negb (si_sealed s) && (tl =? 0) then 0 else si_min s
  end.

Definition abs_gen (segs : list seginfo) (tl : N) (d : disk) : slog :=
  let es := flat_map (seg_visible tl d) segs in
  match es with
  | [] => sl_empty
  | _ => {| sl_first := first_gen segs tl; sl_ents := es |}
  end.

Definition dtl (ps : pstate) (d : disk) : N :=
  match tail_info (ps_segs ps) with
  | Some t => tl_of (si_base t) (file_ents (name_of t) d)
  | None => 0
  end.

Definition dread (d : disk) : slog :=
  match dk_meta d with
  | None => sl_empty
  | Some ps => abs_gen (ps_segs ps) (dtl ps d) d
  end.

Definition sp_of (d : disk) : spst := {| sp_log := dread d; sp_kv := dk_stable d |}.

(* ---- structural invariant ---- *)
Definition seg_wf (c : cfg) (nid : N) (s : seginfo) : Prop :=
  si_codec s = c_codec c /\ si_size_limit s = c_seg_size c /\
  1 <= si_base s /\ si_base s < two64 /\ si_base s <= si_min s /\ si_id s < nid.

(* consecutive segments: the next one starts right after the max of the previous *)
Fixpoint linked (segs : list seginfo) : Prop :=
  match segs with
  | [] => True
  | s :: r => match r with
              | [] => True
              | s' :: _ => si_base s' = si_max s + 1 /\ si_min s' = si_base s' /\ linked r
              end
  end.

(* a segment listed as sealed: its file is settled *)
Definition sealed_ok (d : disk) (s : seginfo) : Prop :=
  si_sealed s = true /\ si_min s <= si_max s /\
  exists f, lookup (name_of s) (dk_files d) = Some f /\ df_dir f = true /\ df_pend f = None /\
            df_end f <> 0 /\ si_max s + 1 <= si_base s + llen (df_ents f).

(* sizes of (a version of) the tail file: no uint32 wrap ever happens *)
Definition fsz_ok (L : N) (ents : list log) (fend fseal : N) : Prop :=
  8 * llen ents <= fend /\ fend < two32 /\ (fseal = 0 -> fend <= L + 8) /\
  (ents <> [] -> fend <> 0) /\ (fseal <> 0 -> ents <> []).

(* the segment listed as unsealed (the tail) *)
Definition tail_ok (c : cfg) (d : disk) (t : seginfo) : Prop :=
  si_sealed t = false /\
  match lookup (name_of t) (dk_files d) with
  | None => si_min t = si_base t
  | Some f =>
      fsz_ok (c_seg_size c) (df_ents f) (df_end f) (df_seal f) /\
      fsz_ok (c_seg_size c) (cur_ents f) (cur_end f) (cur_seal f) /\
      (df_dir f = false -> df_ents f = []) /\
      (df_seal f <> 0 -> df_pend f = None) /\
      (if llen (df_ents f) =? 0 then si_min t = si_base t
       else si_min t <= si_base t + llen (df_ents f) - 1) /\
      si_base t + llen (cur_ents f) < two64
  end.

Definition DIs (c : cfg) (nb : N) (d : disk) : Prop :=
  NoDup (map fst (dk_files d)) /\
  match dk_meta d with
  | None => dk_files d = []
  | Some ps =>
      ps_next_id ps <= nb /\
      (forall n f, lookup n (dk_files d) = Some f -> snd n < ps_next_id ps) /\
      exists S t, ps_segs ps = S ++ [t] /\ Forall (seg_wf c (ps_next_id ps)) (S ++ [t]) /\
                  linked (S ++ [t]) /\ Forall (sealed_ok d) S /\ tail_ok c d t
  end.

(* no batch is pending in any file *)
Definition no_pend (d : disk) : Prop :=
  forall n f, lookup n (dk_files d) = Some f -> df_pend f = None.

(* what a crash at this point may make of the disk: A holds for the recovered
   state whether or not pending batches survive *)
Definition DP (c : cfg) (nb : N) (A : spst -> Prop) (d : disk) : Prop :=
  DIs c nb d /\ A (sp_of d) /\ A (sp_of (unpend d)).

(* ---- live invariant ---- *)
Definition tw_ok (t : seginfo) (f : dfile) (tw : wseg) : Prop :=
  ws_name tw = name_of t /\ ws_base tw = si_base t /\ ws_min tw <= si_min t /\
  ws_limit tw = si_size_limit t /\
  ws_n tw = llen (df_ents f) /\ ws_off tw = df_end f /\ ws_index_start tw = df_seal f /\
  ws_commit_idx tw = tl_of (si_base t) (df_ents f).

Definition LInv (c : cfg) (nb : N) (w : wal) (d : disk) : Prop :=
  st_closed w = false /\ st_failed w = false /\ DIs c nb d /\ no_pend d /\
  dk_meta d = Some (persistent w) /\
  exists t f tw, tail_info (st_segs w) = Some t /\
                 lookup (name_of t) (dk_files d) = Some f /\
                 st_tail w = Some tw /\ tw_ok t f tw /\
                 st_rotate w = (if 0 <? df_seal f then Some (df_seal f) else None).

(* ---- traces ---- *)
Definition not_fail (a : act) : Prop := match a with AFail _ => False | _ => True end.

Definition ext (P : disk -> Prop) (e0 e : env) : Prop :=
  e_fault e = None /\
  exists acts, e_acts e = rev acts ++ e_acts e0 /\ Forall not_fail acts /\
               e_disk e = fold_left apply_act acts (e_disk e0) /\
               forall j, P (fold_left apply_act (firstn j acts) (e_disk e0)).

(* entries of a spec state are storable logs *)
Definition sp_good (s : spst) : Prop := Forall log_ok (sl_ents (sp_log s)).
