(* Hist.v -- histories with crashes, the ghost ledger, and the executable
   acceptance predicate over which the crash theorems are stated.
   Definitions only. *)
From RW Require Import Base.Bytes Fmt.Codec Fmt.Frame Wal.Model Wal.Spec Gen.Constants.
Open Scope N_scope.

(* ---- decidable equality of spec states ---- *)
Definition zone_eqb (a b : option Z) : bool :=
  match a, b with
  | None, None => true
  | Some x, Some y => (x =? y)%Z
  | _, _ => false
  end.
Definition time_eqb (a b : gotime) : bool :=
  (t_sec a =? t_sec b)%Z && (t_nsec a =? t_nsec b)%Z && zone_eqb (t_zone a) (t_zone b).
Definition log_eqb (a b : log) : bool :=
  (l_index a =? l_index b) && (l_term a =? l_term b) && (l_type a =? l_type b)
  && beq_bytes (l_data a) (l_data b) && beq_bytes (l_ext a) (l_ext b) && time_eqb (l_time a) (l_time b).
Fixpoint logs_eqb (a b : list log) : bool :=
  match a, b with
  | [], [] => true
  | x :: a', y :: b' => log_eqb x y && logs_eqb a' b'
  | _, _ => false
  end.
Definition slog_eqb (a b : slog) : bool := (sl_first a =? sl_first b) && logs_eqb (sl_ents a) (sl_ents b).
Fixpoint kvs_eqb (a b : list kv) : bool :=
  match a, b with
  | [], [] => true
  | (k, v) :: a', (k', v') :: b' => beq_bytes k k' && beq_bytes v v' && kvs_eqb a' b'
  | _, _ => false
  end.
Definition spst_eqb (a b : spst) : bool := slog_eqb (sp_log a) (sp_log b) && kvs_eqb (sp_kv a) (sp_kv b).

Definition result_eqb (a b : result) : bool :=
  match a, b with
  | ROk, ROk | RErrNotFound, RErrNotFound | RErrOther, RErrOther => true
  | RVal x, RVal y => x =? y
  | RLog x, RLog y => log_eqb x y
  | RBytes x, RBytes y => beq_bytes x y
  | _, _ => false
  end.

(* ---- histories ---- *)
Inductive hstep :=
| HOp (o : sop)                                   (* a call that runs to completion            *)
| HCrashIn (o : sop) (j : nat) (c : crash_choice) (* power loss after the first j I/O actions of
                                                     the call (incl. a pending rotation it waits
                                                     for); j >= all of them = right after it    *)
| HOpen                                           (* Open after a crash                        *)
| HCrashInOpen (j : nat) (c : crash_choice).      (* power loss after j actions of that Open   *)

Inductive hmode := Up (s : sstate) | Down (d : disk).

Record hstate := {
  hs_mode : hmode;
  hs_acked : spst;            (* what has been acknowledged                               *)
  hs_may : spst;              (* what the call in flight at the last crash would have made *)
  hs_ok : bool }.             (* every check so far passed                                 *)

(* the directory holds exactly the files of the listed segments *)
Definition dir_exact (d : disk) : bool :=
  match dk_meta d with
  | None => match dk_files d with [] => true | _ => false end
  | Some ps =>
      forallb (fun nf => listed (ps_segs ps) (fst nf)) (dk_files d)
      && forallb (fun s => match lookup (name_of s) (dk_files d) with Some _ => true | None => false end)
                 (ps_segs ps)
  end.

Definition new_acts (before after : env) : list act :=      (* oldest first *)
  rev_append (firstn (length (e_acts after) - length (e_acts before)) (e_acts after)) [].

Definition env_of (d : disk) : env :=
  {| e_acts := []; e_disk := d; e_fault := None; e_fx := fx_none; e_m := zero_metrics |}.

Definition hstep_run (c : cfg) (h : hstate) (st : hstep) : hstate :=
  match hs_mode h, st with
  | Up s, HOp o =>
      let '(r, s') := step_model c s o in
      let '(r', sp') := step_spec (hs_acked h) o in
      {| hs_mode := Up s'; hs_acked := sp'; hs_may := sp';
         hs_ok := hs_ok h && result_eqb (res_class r) r'
                  && spst_eqb {| sp_log := abs (ss_wal s') (e_disk (ss_env s')); sp_kv := dk_stable (e_disk (ss_env s')) |} sp' |}
  | Up s, HCrashIn o j cc =>
      let '(_, s') := step_model c s o in
      let '(_, sp') := step_spec (hs_acked h) o in
      let acts := new_acts (ss_env s) (ss_env s') in
      let d := crash_disk cc (fold_left apply_act (firstn j acts) (e_disk (ss_env s))) in
      if Nat.leb (length acts) j
      then {| hs_mode := Down d; hs_acked := sp'; hs_may := sp'; hs_ok := hs_ok h |}
      else {| hs_mode := Down d; hs_acked := hs_acked h; hs_may := sp'; hs_ok := hs_ok h |}
  | Down d, HOpen =>
      match open_wal c (env_of d) with
      | (OOk w, e) =>
          let got := {| sp_log := abs w (e_disk e); sp_kv := dk_stable (e_disk e) |} in
          let is_acked := spst_eqb got (hs_acked h) in
          let is_may := spst_eqb got (hs_may h) in
          let now := if is_acked then hs_acked h else hs_may h in
          {| hs_mode := Up {| ss_wal := w; ss_env := e |}; hs_acked := now; hs_may := now;
             hs_ok := hs_ok h && (is_acked || is_may) && dir_exact (e_disk e) |}
      | (OErr _, e) =>
          {| hs_mode := Down (e_disk e); hs_acked := hs_acked h; hs_may := hs_may h; hs_ok := false |}
      end
  | Down d, HCrashInOpen j cc =>
      let '(_, e) := open_wal c (env_of d) in
      let acts := rev_append (e_acts e) [] in
      {| hs_mode := Down (crash_disk cc (fold_left apply_act (firstn j acts) d));
         hs_acked := hs_acked h; hs_may := hs_may h; hs_ok := hs_ok h |}
  | _, _ => h                                      (* step not applicable in this mode: skipped *)
  end.

Definition hist_run (c : cfg) (h : hstate) (steps : list hstep) : hstate :=
  fold_left (hstep_run c) steps h.

Definition hist_init : hstate :=
  {| hs_mode := Down empty_disk;
     hs_acked := {| sp_log := sl_empty; sp_kv := [] |}; hs_may := {| sp_log := sl_empty; sp_kv := [] |};
     hs_ok := true |}.

Definition hstep_wf (st : hstep) : Prop :=
  match st with
  | HOp o | HCrashIn o _ _ => sop_ok o
  | _ => True
  end.

(* The master statement: for every configuration and every history of calls,
   crashes at any I/O boundary with any adversary choice (also inside recovery,
   nested to any depth) and reopen cycles,
     - every Open after a crash succeeds                                   (C03)
     - the recovered log and stable store are exactly the acknowledged
       state or the state the interrupted call would have produced        (C01 C02 C04 C08)
     - the directory holds exactly the listed segment files                (C13)
     - every call's result, and the state after it, equal the contiguous-log
       model's, before and after any number of crashes                     (C05 C03)  *)
(* guard: the 64-bit segment id counter does not wrap (each step allocates at most
   two segment ids, so this excludes only histories of more than 2^62 steps) *)
Definition short_enough {A : Type} (l : list A) : Prop := N.of_nat (length l) < 4611686018427387904.

Definition crash_refinement_stmt : Prop :=
  forall c steps, cfg_ok c -> Forall hstep_wf steps -> short_enough steps ->
    hs_ok (hist_run c hist_init steps) = true.

(* the crash-free special case (C05): results and states agree with the spec *)
Definition seq_refinement_stmt : Prop :=
  forall c os s0, cfg_ok c -> Forall sop_ok os -> short_enough os -> initial c = Some s0 ->
    let '(rs, s1) := run_model c s0 os in
    let '(rs', sp1) := run_spec {| sp_log := sl_empty; sp_kv := [] |} os in
    map res_class rs = rs' /\
    abs (ss_wal s1) (e_disk (ss_env s1)) = sp_log sp1 /\
    dk_stable (e_disk (ss_env s1)) = sp_kv sp1.
