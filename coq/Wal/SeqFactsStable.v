(* SeqFactsStable.v -- the stable store: it is a map (the last accepted Set
   wins), SetUint64/GetUint64 round trip, and log and stable operations do not
   touch each other's data (C08). *)
From RW Require Import Base.Bytes Base.BytesFacts Fmt.Codec Fmt.CodecFacts Fmt.Frame
  Wal.Model Wal.Spec Wal.Hist Wal.BasicFacts Wal.SeqInv Wal.SeqFactsBase Wal.SeqFactsAbs Wal.SeqFactsTxn
  Wal.SeqFactsMain Gen.Constants.
From Coq Require Import ZifyN ZifyNat ZifyBool.
Open Scope N_scope.

(* ------------------------------------------------------------------ *)
(* the key/value map                                                    *)
Lemma kv_set_in k v m a b : In (a, b) (kv_set k v m) -> In (a, b) m \/ (a = k /\ b = v).
Proof.
  induction m as [|[k' v'] m IH]; cbn [kv_set].
  - destruct v; [intros []|]. intros [H|[]]. inversion H; auto.
  - destruct (bytes_eqb k k').
    + destruct v; [intros H; left; right; exact H|]. intros [H|H]; [inversion H; auto|left; right; exact H].
    + intros [H|H]; [left; left; exact H|]. destruct (IH H) as [H1|H1]; [left; right; exact H1|right; exact H1].
Qed.

Lemma kv_set_unique k v m : kv_keys_unique m -> kv_keys_unique (kv_set k v m).
Proof.
  induction m as [|[k' v'] m IH]; intros Hu; cbn [kv_set].
  - destruct v; cbn [kv_keys_unique]; auto. repeat split; auto. intros k2 v2 [].
  - destruct Hu as (Hn & Hd & Hu'). unfold bytes_eqb. destruct (beq_bytes k k') eqn:E.
    + destruct v as [|b v]; [exact Hu'|]. apply beq_bytes_eq in E. subst k'.
      cbn [kv_keys_unique]. repeat split; auto.
    + cbn [kv_keys_unique]. split; [|split; [|apply IH; exact Hu']].
      * intros v0 Hin. apply kv_set_in in Hin. destruct Hin as [Hin|[Hk _]]; [exact (Hn v0 Hin)|].
        subst k'. rewrite beq_bytes_refl in E. discriminate.
      * intros k2 v2 Hin. apply kv_set_in in Hin. destruct Hin as [Hin|[Hk _]]; [exact (Hd k2 v2 Hin)|].
        subst k2. rewrite beq_bytes_sym. exact E.
Qed.

Lemma kv_get_set_nonempty k v m : v <> [] -> kv_get k (kv_set k v m) = v.
Proof.
  intros Hv. induction m as [|[k' v'] m IH]; cbn [kv_set kv_get].
  - destruct v; [congruence|]. cbn [kv_get]. unfold bytes_eqb. rewrite beq_bytes_refl. reflexivity.
  - unfold bytes_eqb. destruct (beq_bytes k k') eqn:E.
    + destruct v; [congruence|]. cbn [kv_get]. unfold bytes_eqb. rewrite beq_bytes_refl. reflexivity.
    + cbn [kv_get]. unfold bytes_eqb. rewrite E. exact IH.
Qed.

(* the value the history last stored under key k by an accepted Set *)
Fixpoint last_set (k : bytes) (os : list sop) (acc : bytes) : bytes :=
  match os with
  | [] => acc
  | OSet k' v _ :: r => last_set k r (if key_ok k' && beq_bytes k k' then v else acc)
  | _ :: r => last_set k r acc
  end.

Lemma run_spec_kv k : forall os sp, kv_keys_unique (sp_kv sp) ->
  kv_get k (sp_kv (snd (run_spec sp os))) = last_set k os (kv_get k (sp_kv sp)).
Proof.
  induction os as [|o os IH]; intros sp Hu; [reflexivity|].
  cbn [run_spec]. destruct (step_spec sp o) as [x sp1] eqn:Es.
  assert (H1 : kv_keys_unique (sp_kv sp1) /\
               last_set k (o :: os) (kv_get k (sp_kv sp)) = last_set k os (kv_get k (sp_kv sp1))).
  { destruct o; cbn [step_spec last_set] in *;
      try (inversion Es; subst; split; [exact Hu|reflexivity]).
    - destruct (spec_store (sp_log sp) ls); inversion Es; subst; cbn [sp_kv]; split; auto.
    - destruct (spec_delete (sp_log sp) mn mx); inversion Es; subst; cbn [sp_kv]; split; auto.
    - destruct (spec_get (sp_log sp) i); inversion Es; subst; split; auto.
    - destruct (key_ok k0); inversion Es; subst; cbn [sp_kv andb]; [|split; auto].
      split; [apply kv_set_unique; exact Hu|]. destruct (beq_bytes k k0) eqn:E.
      + apply beq_bytes_eq in E. subst k0. rewrite kv_get_set_same by exact Hu. reflexivity.
      + rewrite kv_get_set_other by exact E. reflexivity. }
  destruct H1 as [Hu1 Hl]. specialize (IH sp1 Hu1).
  destruct (run_spec sp1 os) as [xs sp2]. cbn [snd] in *. rewrite IH, Hl. reflexivity.
Qed.

Lemma get_last_set c os s0 k :
  cfg_ok c -> Forall sop_ok os -> short_enough os -> initial c = Some s0 ->
  fst (step_model c (snd (run_model c s0 os)) (OGetS k)) = RBytes (last_set k os []).
Proof.
  intros Hc Hops Hshort Hinit.
  destruct (reach_inv c os s0 Hc Hops Hshort Hinit) as ((He & ss & t & tw & HI) & _ & _ & Hk). cbv zeta in *.
  cbn [step_model]. assert (Hcl : st_closed (ss_wal (snd (run_model c s0 os))) = false) by apply HI.
  unfold get_stable. rewrite Hcl. cbn [fst]. unfold s_kv in Hk. rewrite Hk.
  rewrite (run_spec_kv k os spec_init I). reflexivity.
Qed.

(* ------------------------------------------------------------------ *)
(* SetUint64 / GetUint64                                                *)
Lemma le64_len v : len (le64 v) = 8.
Proof. unfold len. rewrite le64_length. reflexivity. Qed.

Lemma uint64_roundtrip w e k v :
  st_closed w = false -> e_fault e = None -> key_ok k = true -> v < two64 ->
  fst (set_uint64 w k v e) = ROk /\
  fst (get_uint64 w k (snd (set_uint64 w k v e))) = RVal v.
Proof.
  intros Hcl He Hk Hv. unfold set_uint64, set_stable. rewrite Hcl, Hk. cbn [negb].
  rewrite (io_ok _ _ (He : e_fault (inc_stable e true) = None)). cbn [fst snd]. split; [reflexivity|].
  unfold get_uint64, get_stable. rewrite Hcl. cbn [e_disk io_post apply_act dk_stable].
  rewrite kv_get_set_nonempty by (unfold le64, le32; discriminate).
  rewrite le64_len. cbn [N.eqb Pos.eqb negb fst]. rewrite rd64_le64 by exact Hv. reflexivity.
Qed.

Lemma uint64_unset w e k :
  st_closed w = false -> kv_get k (dk_stable (e_disk e)) = [] -> fst (get_uint64 w k e) = RVal 0.
Proof. intros Hcl Hk. unfold get_uint64, get_stable. rewrite Hcl, Hk. reflexivity. Qed.

Lemma uint64_bad_size w e k :
  st_closed w = false -> len (kv_get k (dk_stable (e_disk e))) <> 0 ->
  len (kv_get k (dk_stable (e_disk e))) <> 8 -> fst (get_uint64 w k e) = RErrOther.
Proof.
  intros Hcl H0 H8. unfold get_uint64, get_stable. rewrite Hcl.
  destruct (N.eqb_spec (len (kv_get k (dk_stable (e_disk e)))) 0); [contradiction|].
  destruct (N.eqb_spec (len (kv_get k (dk_stable (e_disk e)))) 8); [contradiction|]. reflexivity.
Qed.

(* ------------------------------------------------------------------ *)
(* stable operations do not touch the log                               *)
Lemma abs_files w d d' : dk_files d' = dk_files d -> abs w d' = abs w d.
Proof. intros E. apply abs_frame. intros s _. rewrite E. reflexivity. Qed.

Lemma set_stable_frame w k v n e :
  let e' := snd (set_stable w k v n e) in
  dk_files (e_disk e') = dk_files (e_disk e) /\ dk_meta (e_disk e') = dk_meta (e_disk e) /\
  abs w (e_disk e') = abs w (e_disk e).
Proof.
  cbv zeta.
  assert (H : dk_files (e_disk (snd (set_stable w k v n e))) = dk_files (e_disk e) /\
              dk_meta (e_disk (snd (set_stable w k v n e))) = dk_meta (e_disk e)).
  { unfold set_stable. destruct (st_closed w); [split; reflexivity|].
    destruct (key_ok k); cbn [negb]; [|split; reflexivity].
    unfold io. cbn [is_delete]. change (e_fault (inc_stable e true)) with (e_fault e).
    destruct (e_fault e) as [[|f]|]; [cbn [is_txn andb]; destruct (fx_land _)|..]; split; reflexivity. }
  destruct H as [H1 H2]. split; [exact H1|]. split; [exact H2|]. apply abs_files. exact H1.
Qed.

Lemma get_stable_frame w k e : e_disk (snd (get_stable w k e)) = e_disk e.
Proof. unfold get_stable. destruct (st_closed w); reflexivity. Qed.

(* ------------------------------------------------------------------ *)
(* log operations do not touch the stable store (also when I/O fails)    *)
Definition SS (e e' : env) : Prop := dk_stable (e_disk e') = dk_stable (e_disk e).
Lemma SS_refl e : SS e e. Proof. reflexivity. Qed.
Lemma SS_trans e1 e2 e3 : SS e1 e2 -> SS e2 e3 -> SS e1 e3.
Proof. unfold SS. congruence. Qed.

Definition not_set (a : act) : Prop := match a with ASetStable _ _ => False | _ => True end.
Lemma io_SS a e : not_set a -> SS e (snd (io a e)).
Proof.
  intros Ha. unfold SS, io.
  destruct (is_delete a); [destruct (armed e && fx_del (e_fx e)); [reflexivity|]; cbn [snd e_disk]; rewrite apply_stable; destruct a; try reflexivity; contradiction|].
  destruct (e_fault e) as [[|f]|]; [destruct (is_txn a && fx_land (e_fx e))|..]; cbn [snd e_disk]; try reflexivity; rewrite apply_stable;
    destruct a; try reflexivity; contradiction.
Qed.
Lemma with_m_SS e m : SS e (with_m e m). Proof. reflexivity. Qed.

(* destruct the next I/O call in the goal, remembering that it keeps the stable store *)
Ltac io_step :=
  match goal with
  | |- context [io ?a ?e] =>
      let H := fresh "Hio" in
      assert (H := io_SS a e I); destruct (io a e) as [? ?]; cbn [snd fst] in H |- *
  end.
Ltac ss_close := first [apply SS_refl | assumption | (eapply SS_trans; [eassumption|]; ss_close)].

Lemma seg_create_SS si e : SS e (snd (seg_create si e)).
Proof.
  unfold seg_create. destruct (si_base si =? 0); [apply SS_refl|].
  destruct (lookup _ _); io_step; [ss_close|]. destruct b; [ss_close|]. cbn [snd].
  destruct (fx_leave (e_fx e)); [|ss_close]. unfold SS, leave_entry in *. cbn [e_disk apply_act dk_stable]. exact Hio.
Qed.
Lemma seg_append_SS w ls e : SS e (snd (seg_append w ls e)).
Proof.
  unfold seg_append. destruct ls; [apply SS_refl|].
  destruct (0 <? ws_index_start w); [apply SS_refl|]. destruct (existsb _ _); [apply SS_refl|].
  destruct (negb _); [apply SS_refl|]. cbv zeta. io_step. destruct b; cbn [negb snd]; [|ss_close].
  io_step. destruct b; cbn [negb snd]; ss_close.
Qed.
Lemma seg_force_seal_SS w e : SS e (snd (seg_force_seal w e)).
Proof.
  unfold seg_force_seal. destruct (0 <? ws_index_start w); [apply SS_refl|].
  destruct (ws_n w =? 0); [apply SS_refl|]. cbv zeta. io_step. destruct b; cbn [negb snd]; [|ss_close].
  io_step. destruct b; cbn [negb snd]; ss_close.
Qed.
Lemma delete_files_SS ns : forall e, SS e (delete_files ns e).
Proof.
  induction ns as [|n ns IH]; intros e; [apply SS_refl|].
  unfold delete_files. cbn [fold_left]. eapply SS_trans; [apply (io_SS (ADelete n) e I)|apply IH].
Qed.
Lemma mutate_gen_SS defer w t e : SS e (snd (fst (mutate_gen defer w t e))).
Proof.
  unfold mutate_gen. io_step. destruct b; cbn [negb fst snd]; [|ss_close].
  destruct (tx_create t) as [si|].
  - assert (Hc := seg_create_SS si e0). destruct (seg_create si e0) as [[sw|] e2]; cbn [fst snd] in *; [|ss_close].
    destruct defer; [ss_close|]. assert (Hd := delete_files_SS (tx_delete t) e2). ss_close.
  - cbn [fst snd]. destruct defer; [ss_close|]. assert (Hd := delete_files_SS (tx_delete t) e0). ss_close.
Qed.
Lemma mutate_SS w t e : SS e (snd (mutate w t e)).
Proof.
  unfold mutate. assert (H := mutate_gen_SS false w t e).
  destruct (mutate_gen false w t e) as [[[r w'] e'] d]. exact H.
Qed.

Lemma reset_first_SS c w nb e : SS e (snd (fst (reset_first c w nb e))).
Proof.
  unfold reset_first. destruct (0 <? last_index _ _); [apply SS_refl|].
  destruct (tail_info (st_segs w)) as [t|].
  - destruct (si_base t =? nb); [apply mutate_gen_SS|].
    destruct (create_next _ _ _ _) as [[nid segs2] si]. apply mutate_gen_SS.
  - destruct (create_next _ _ _ _) as [[nid segs2] si]. apply mutate_gen_SS.
Qed.

Lemma rotate_SS c w e : SS e (snd (rotate c w e)).
Proof.
  unfold rotate. destruct (st_rotate w) as [i|]; [|apply SS_refl].
  destruct (st_closed w); [apply SS_refl|]. destruct (tail_info (st_segs w)) as [t|]; [|unfold SS; reflexivity].
  destruct (create_next _ _ _ _) as [[nid segs2] si].
  match goal with |- context [mutate ?w0 ?t0 ?e0] =>
    assert (H := mutate_SS w0 t0 e0); destruct (mutate w0 t0 e0) as [[r w'] e'] end.
  exact H.
Qed.

Lemma store_go_SS L ls w e : SS e (snd (Wal.SeqFactsOps1.store_go L ls w e)).
Proof.
  unfold Wal.SeqFactsOps1.store_go. destruct (check_logs L ls) as [res nb].
  destruct res; try apply SS_refl. destruct (st_tail w) as [tw|]; [|apply SS_refl].
  assert (H := seg_append_SS tw ls e). destruct (seg_append tw ls e) as [[r tw'] e1]. cbn [snd] in *.
  destruct r; exact H.
Qed.

Lemma store_logs_SS c w ls e : SS e (snd (store_logs c w ls e)).
Proof.
  destruct (st_closed w) eqn:Hcl; [unfold store_logs; rewrite Hcl; apply SS_refl|].
  destruct ls as [|l0 rest]; [unfold store_logs; rewrite Hcl; apply SS_refl|].
  destruct (st_failed w) eqn:Hfa; [unfold store_logs; rewrite Hcl, Hfa; apply SS_refl|].
  destruct (tail_info (st_segs w)) as [ti|] eqn:Hti; [|unfold store_logs; rewrite Hcl, Hfa, Hti; apply SS_refl].
  rewrite (Wal.SeqFactsOps1.store_logs_unfold c w l0 rest e ti Hcl Hfa Hti). cbv zeta.
  destruct (_ && _); [|apply store_go_SS].
  assert (H := reset_first_SS c w (l_index l0) e).
  destruct (reset_first c w (l_index l0) e) as [[[r w1] e1] dels]. cbn [fst snd] in H.
  destruct r; try exact H.
  assert (H2 := store_go_SS (last_index (st_segs w) (st_tail w)) (l0 :: rest) w1 e1).
  destruct (Wal.SeqFactsOps1.store_go _ _ w1 e1) as [[r2 w2] e2]. cbn [snd] in *.
  assert (H3 := delete_files_SS dels e2). ss_close.
Qed.

Lemma truncate_head_SS c w nm e : SS e (snd (truncate_head c w nm e)).
Proof.
  unfold truncate_head. destruct (head_scan _ _ _ _ _) as [[[rest del] ntr] [h|]].
  - match goal with |- context [mutate ?w0 ?t0 (add_m e ?f)] =>
      apply (SS_trans _ _ _ (with_m_SS e (f (e_m e)))); apply (mutate_SS w0 t0) end.
  - destruct (create_next _ _ _ _) as [[nid segs2] si].
    match goal with |- context [mutate ?w0 ?t0 (add_m e ?f)] =>
      apply (SS_trans _ _ _ (with_m_SS e (f (e_m e)))); apply (mutate_SS w0 t0) end.
Qed.

Lemma truncate_tail_SS c w nmax e : SS e (snd (truncate_tail c w nmax e)).
Proof.
  unfold truncate_tail. destruct (tail_scan _ _ _ _ _) as [[rrest del] ntr].
  destruct rrest as [|t rr].
  - destruct (create_next _ _ _ _) as [[nid segs2] si]. apply mutate_SS.
  - destruct (si_sealed t).
    + destruct (create_next _ _ _ _) as [[nid segs2] si].
      match goal with |- context [mutate ?w0 ?t0 (add_m e ?f)] =>
        apply (SS_trans _ _ _ (with_m_SS e (f (e_m e)))); apply (mutate_SS w0 t0) end.
    + destruct (st_tail w) as [tw|]; [|apply SS_refl].
      assert (H := seg_force_seal_SS tw e). destruct (seg_force_seal tw e) as [[r tw'] e1]. cbn [snd] in H.
      destruct r; try exact H.
      destruct (create_next _ _ _ _) as [[nid segs2] si].
      match goal with |- context [mutate ?w0 ?t0 (add_m e1 ?f)] =>
        apply (SS_trans _ _ _ H); apply (SS_trans _ _ _ (with_m_SS e1 (f (e_m e1)))); apply (mutate_SS w0 t0) end.
Qed.

Lemma delete_range_SS c w mn mx e : SS e (snd (delete_range c w mn mx e)).
Proof.
  unfold delete_range. destruct (st_closed w); [apply SS_refl|]. destruct (mx <? mn); [apply SS_refl|].
  destruct (st_failed w); [apply SS_refl|]. destruct (_ || _); [apply SS_refl|].
  destruct (mn <=? _); [apply truncate_head_SS|]. destruct (_ <=? mx); [apply truncate_tail_SS|apply SS_refl].
Qed.

Lemma open_segs_SS c : forall segs acc e, SS e (snd (open_segs c segs acc e)).
Proof.
  induction segs as [|si r IH]; intros acc e; cbn [open_segs]; [apply SS_refl|].
  destruct (negb (si_codec si =? c_codec c)); [apply SS_refl|].
  destruct (negb (si_sealed si)).
  - destruct r; [|apply SS_refl].
    destruct (seg_recover si e) as [x|].
    + destruct x as [sw|]; [|apply SS_refl]. destruct (0 <? ws_index_start sw); apply SS_refl.
    + assert (H := seg_create_SS si e). destruct (seg_create si e) as [[sw|] e1]; cbn [snd] in *; [|exact H].
      destruct (0 <? ws_index_start sw); exact H.
  - destruct (lookup _ _) as [f|]; [|apply SS_refl]. destruct (cur_end f =? 0); [apply SS_refl|apply IH].
Qed.

Lemma open_wal_SS c e : SS e (snd (open_wal c e)).
Proof.
  unfold open_wal. destruct (_ && _); [apply SS_refl|].
  assert (H0 : SS e (snd (if dk_inited (e_disk e) then (true, e) else io AInitMeta e))).
  { destruct (dk_inited (e_disk e)); [apply SS_refl|apply (io_SS AInitMeta e I)]. }
  destruct (if dk_inited (e_disk e) then (true, e) else io AInitMeta e) as [ok0 e0]. cbn [snd] in H0.
  destruct ok0; cbn [negb]; [|exact H0].
  destruct (armed e0 && fx_list (e_fx e0)); [exact H0|]. cbv zeta.
  match goal with |- context [open_segs c ?segs [] e0] =>
    assert (H1 := open_segs_SS c segs [] e0); destruct (open_segs c segs [] e0) as [[[r segs'] tail] e1] end.
  cbn [snd] in H1. destruct r; try (cbn [snd]; ss_close).
  destruct tail as [tw|]; cbn [snd].
  - eapply SS_trans; [|apply delete_files_SS]. ss_close.
  - io_step. destruct b; cbn [negb snd]; [|ss_close].
    match goal with |- context [seg_create ?si ?e2] =>
      assert (H2 := seg_create_SS si e2); destruct (seg_create si e2) as [[sw|] e3] end; cbn [snd] in *; [|ss_close].
    eapply SS_trans; [|apply delete_files_SS]. ss_close.
Qed.

Lemma log_ops_preserve_stable c w e :
  (forall ls, dk_stable (e_disk (snd (store_logs c w ls e))) = dk_stable (e_disk e)) /\
  (forall mn mx, dk_stable (e_disk (snd (delete_range c w mn mx e))) = dk_stable (e_disk e)) /\
  dk_stable (e_disk (snd (rotate c w e))) = dk_stable (e_disk e) /\
  dk_stable (e_disk (snd (open_wal c e))) = dk_stable (e_disk e).
Proof.
  split; [intros ls; exact (store_logs_SS c w ls e)|].
  split; [intros mn mx; exact (delete_range_SS c w mn mx e)|].
  split; [exact (rotate_SS c w e)|exact (open_wal_SS c e)].
Qed.

Lemma stable_ops_preserve_log w k v n e :
  (let e' := snd (set_stable w k v n e) in
   dk_files (e_disk e') = dk_files (e_disk e) /\ dk_meta (e_disk e') = dk_meta (e_disk e) /\
   abs w (e_disk e') = abs w (e_disk e)) /\
  e_disk (snd (get_stable w k e)) = e_disk e.
Proof. split; [exact (set_stable_frame w k v n e)|exact (get_stable_frame w k e)]. Qed.
