(* SeqFactsOps2.v -- DeleteRange: head and tail truncation on invariant states. *)
From RW Require Import Base.Bytes Base.BytesFacts Fmt.Codec Fmt.CodecFacts Fmt.Frame
  Wal.Model Wal.Spec Wal.SeqInv Wal.SeqFactsBase Wal.SeqFactsAbs Wal.SeqFactsTxn Wal.SeqFactsOps1
  Gen.Constants.
From Coq Require Import ZifyN ZifyNat ZifyBool.
Open Scope N_scope.

(* ------------------------------------------------------------------ *)
(* list splitting                                                       *)
Lemma span {A} (P : A -> bool) (l : list A) :
  exists pre rest, l = pre ++ rest /\ Forall (fun x => P x = true) pre /\
                   match rest with [] => True | h :: _ => P h = false end.
Proof.
  induction l as [|x l IH].
  - exists [], []. repeat split. constructor.
  - destruct (P x) eqn:E.
    + destruct IH as (pre & rest & -> & HF & Hr). exists (x :: pre), rest.
      repeat split; auto.
    + exists [], (x :: l). repeat split; auto.
Qed.

Lemma snoc_split {A} (ss : list A) t pre rest :
  ss ++ [t] = pre ++ rest -> (rest = [] /\ pre = ss ++ [t]) \/ (exists r', rest = r' ++ [t] /\ ss = pre ++ r').
Proof.
  intros E. destruct rest as [|x rest] using rev_ind.
  - left. rewrite app_nil_r in E. auto.
  - right. clear IHrest. rewrite app_assoc in E. apply app_inj_tail in E. destruct E as [-> ->].
    exists rest. auto.
Qed.

(* ------------------------------------------------------------------ *)
(* order of the listed segments                                         *)
Lemma bases_before c d ss t pre x post :
  Forall (sealed_ok c d) ss -> linked (ss ++ [t]) -> ss ++ [t] = pre ++ x :: post ->
  Forall (fun s => si_max s < si_base x) pre /\ Forall (sealed_ok c d) pre.
Proof.
  intros HS HL E. destruct (snoc_split ss t pre (x :: post) E) as [[E1 _]|(r' & E1 & E2)]; [discriminate|].
  assert (HSp : Forall (sealed_ok c d) pre).
  { rewrite E2 in HS. apply Forall_app in HS. apply HS. }
  split; [|exact HSp].
  rewrite E in HL. apply linked_app_inv in HL. destruct HL as [HL _].
  apply linked_lt; [|exact HL]. eapply Forall_impl; [|exact HSp]. apply sealed_srange.
Qed.

Lemma bases_lt_split c d ss t pre rest :
  Forall (sealed_ok c d) ss -> linked (ss ++ [t]) -> ss ++ [t] = pre ++ rest ->
  forall a b, In a pre -> In b rest -> si_base a <= si_max a /\ si_max a < si_base b.
Proof.
  intros HS HL E a b Ha Hb. apply in_split in Hb. destruct Hb as (r1 & r2 & ->).
  rewrite app_assoc in E. destruct (bases_before _ _ _ _ _ _ _ HS HL E) as [H1 H2].
  rewrite Forall_forall in H1, H2. assert (Ha' : In a (pre ++ r1)) by (apply in_or_app; left; exact Ha).
  split; [|apply H1; exact Ha']. destruct (sealed_srange _ _ _ (H2 a Ha')). lia.
Qed.

(* ------------------------------------------------------------------ *)
(* changing MinIndex / MaxIndex of a segment                            *)
Definition set_min (h : seginfo) (nm : N) : seginfo :=
  {| si_id := si_id h; si_base := si_base h; si_min := nm; si_max := si_max h;
     si_codec := si_codec h; si_index_start := si_index_start h; si_sealed := si_sealed h;
     si_size_limit := si_size_limit h |}.

Lemma vis_set_min tl d h nm :
  1 <= si_min h -> si_base h <= si_min h -> si_min h <= nm ->
  seg_visible tl d (set_min h nm) = skipn (N.to_nat (nm - si_min h)) (seg_visible tl d h).
Proof.
  intros H1 H2 H3. rewrite !seg_visible_eq by (cbn [set_min si_min]; lia).
  change (emax tl (set_min h nm)) with (emax tl h).
  change (name_of (set_min h nm)) with (name_of h). cbn [set_min si_min si_base].
  rewrite skipn_firstn_comm, skipn_skipn2. f_equal; [lia|]. f_equal. lia.
Qed.

Lemma vis_set_max tl tl' d s nmax istart :
  1 <= si_min s -> nmax <= emax tl s ->
  seg_visible tl' d (seal_info s nmax istart) =
  firstn (N.to_nat (nmax + 1 - si_min s)) (seg_visible tl d s).
Proof.
  intros H1 H2. rewrite !seg_visible_eq by (cbn [seal_info si_min]; lia).
  change (name_of (seal_info s nmax istart)) with (name_of s).
  unfold emax at 1. cbn [seal_info si_sealed si_max si_min si_base].
  rewrite firstn_firstn. f_equal. lia.
Qed.

(* ------------------------------------------------------------------ *)
(* dropping a prefix / keeping a prefix of the concatenated visible parts *)
Lemma skipn_chain c d tl nm : forall pre h post,
  Forall (sealed_ok c d) pre -> linked (pre ++ h :: post) -> Forall (fun s => si_max s < nm) pre ->
  skipn (N.to_nat (nm - si_min (hd h pre))) (flat_map (seg_visible tl d) (pre ++ h :: post)) =
  skipn (N.to_nat (nm - si_min h)) (flat_map (seg_visible tl d) (h :: post)).
Proof.
  induction pre as [|s pre IH]; intros h post HS HL HM; [reflexivity|].
  inversion HS as [|? ? Hs HS']; subst. inversion HM as [|? ? Hm HM']; subst.
  cbn [app hd].
  change (flat_map (seg_visible tl d) (s :: pre ++ h :: post))
    with (seg_visible tl d s ++ flat_map (seg_visible tl d) (pre ++ h :: post)).
  destruct (vis_sealed _ _ tl _ Hs) as (f & _ & _ & _ & Hlen & _).
  destruct (sealed_srange _ _ _ Hs) as [Hr1 Hr2].
  assert (Hnext : si_min (hd h pre) = si_max s + 1).
  { destruct pre as [|s' pre']; cbn [app hd] in *; destruct HL as (E1 & E2 & _); lia. }
  rewrite skipn_app_ge by (unfold llen in Hlen; lia).
  rewrite <- (IH h post HS' (linked_tail _ _ HL) HM'). f_equal. unfold llen in Hlen. lia.
Qed.

Lemma firstn_chain c d tl nmax : forall pre s post,
  Forall (sealed_ok c d) pre -> linked (pre ++ s :: post) -> Forall (fun p => si_max p <= nmax) pre ->
  firstn (N.to_nat (nmax + 1 - si_min (hd s pre))) (flat_map (seg_visible tl d) (pre ++ s :: post)) =
  flat_map (seg_visible tl d) pre ++
  firstn (N.to_nat (nmax + 1 - si_min s)) (flat_map (seg_visible tl d) (s :: post)).
Proof.
  induction pre as [|p pre IH]; intros s post HS HL HM; [reflexivity|].
  inversion HS as [|? ? Hs HS']; subst. inversion HM as [|? ? Hm HM']; subst.
  cbn [app hd].
  change (flat_map (seg_visible tl d) (p :: pre ++ s :: post))
    with (seg_visible tl d p ++ flat_map (seg_visible tl d) (pre ++ s :: post)).
  change (flat_map (seg_visible tl d) (p :: pre))
    with (seg_visible tl d p ++ flat_map (seg_visible tl d) pre).
  destruct (vis_sealed _ _ tl _ Hs) as (f & _ & _ & _ & Hlen & _).
  destruct (sealed_srange _ _ _ Hs) as [Hr1 Hr2].
  assert (Hnext : si_min (hd s pre) = si_max p + 1).
  { destruct pre as [|s' pre']; cbn [app hd] in *; destruct HL as (E1 & E2 & _); lia. }
  rewrite firstn_app_ge by (unfold llen in Hlen; lia).
  rewrite <- app_assoc. f_equal.
  rewrite <- (IH s post HS' (linked_tail _ _ HL) HM'). f_equal. unfold llen in Hlen. lia.
Qed.

(* ------------------------------------------------------------------ *)
(* truncateHeadLocked                                                   *)
Definition head_sum (tl : N) (pre : list seginfo) (ntr : N) : N :=
  fold_left (fun a s => if si_min s <=? emax tl s then (a + (emax tl s - si_min s + 1)) mod two64 else a)
            pre ntr.

Lemma head_scan_split nm tl : forall pre rest del ntr,
  Forall (fun s => (emax tl s <? nm) = true) pre ->
  match rest with [] => True | h :: _ => (emax tl h <? nm) = false end ->
  head_scan nm tl (pre ++ rest) del ntr = (rest, del ++ map name_of pre, head_sum tl pre ntr, hd_error rest).
Proof.
  induction pre as [|s pre IH]; intros rest del ntr HF Hr.
  - cbn [app map head_sum fold_left]. rewrite app_nil_r. destruct rest as [|h r]; [reflexivity|].
    cbn [head_scan hd_error]. fold (emax tl h). destruct (N.leb_spec nm (emax tl h)); [reflexivity|lia].
  - inversion HF as [|? ? Hs HF']; subst. cbn [app head_scan]. fold (emax tl s).
    destruct (N.leb_spec nm (emax tl s)); [lia|].
    rewrite IH by assumption. cbn [map head_sum fold_left]. rewrite <- app_assoc. reflexivity.
Qed.

Definition add_head (k : N) (m : metrics) : metrics :=
  {| m_bytes_written := m_bytes_written m; m_entries_written := m_entries_written m;
     m_appends := m_appends m; m_bytes_read := m_bytes_read m;
     m_entries_read := m_entries_read m; m_rotations := m_rotations m;
     m_head_trunc := (m_head_trunc m + k) mod two64; m_tail_trunc := m_tail_trunc m;
     m_stable_gets := m_stable_gets m; m_stable_sets := m_stable_sets m |}.

(* emax of every listed segment is at most LastIndex *)
Lemma emax_le_last c d ss t tw :
  Forall (sealed_ok c d) ss -> tail_ok c d t tw -> linked (ss ++ [t]) ->
  Forall (fun s => emax (ws_commit_idx tw) s <= last_index (ss ++ [t]) (Some tw)) (ss ++ [t]).
Proof.
  intros HS HT HL. rewrite (last_index_inv c d ss _ _ HT).
  destruct (tail_commit _ _ _ _ HT) as [Hci Hb].
  assert (Hlt := linked_lt ss t (Forall_impl _ (sealed_srange c d) HS) HL).
  apply Forall_app. split.
  - rewrite Forall_forall in *. intros s Hs. specialize (Hlt s Hs).
    destruct (HS s Hs) as (Hsl & _). rewrite (emax_sealed _ _ Hsl).
    destruct ss as [|s0 r]; [destruct Hs|]. destruct (N.eqb_spec (ws_n tw) 0); lia.
  - constructor; [|constructor]. assert (Hu : si_sealed t = false) by apply HT.
    rewrite (emax_unsealed _ _ Hu), Hci. destruct (N.eqb_spec (ws_n tw) 0); [|lia].
    destruct ss; lia.
Qed.

(* the tail as head of the remaining log *)
Lemma tail_set_min c d t tw nm :
  tail_ok c d t tw -> si_min t <= nm -> nm <= ws_commit_idx tw -> tail_ok c d (set_min t nm) tw.
Proof.
  intros (H1 & H2 & H3 & H4 & H5 & H6 & H7 & H8 & H9 & H10 & H11 & H12 & H13 & H14 & H15 & H16 & H17
          & f & Hf & Hn) Hm Hc.
  unfold tail_ok. cbn [set_min si_sealed si_codec si_size_limit si_base si_min].
  change (name_of (set_min t nm)) with (name_of t).
  assert (Hx : nm <= si_base t + (ws_n tw - 1)).
  { rewrite H12 in Hc. destruct (N.eqb_spec (ws_n tw) 0); lia. }
  repeat split; auto; try lia. exists f. split; [exact Hf|exact Hn].
Qed.

Lemma sealed_set_min c d h nm :
  sealed_ok c d h -> si_min h <= nm -> nm <= si_max h -> sealed_ok c d (set_min h nm).
Proof.
  intros (H1 & H2 & H3 & H4 & H5 & H6 & f & Hf & H7) Hm Hc.
  unfold sealed_ok. cbn [set_min si_sealed si_codec si_base si_min si_max].
  repeat split; auto; try lia. exists f. split; [exact Hf|exact H7].
Qed.

(* a transaction that only changes the segment list (same tail writer) *)
Lemma mutate_keep_tail c w e ss' t' tw dels :
  e_fault e = None -> st_closed w = false -> st_failed w = false -> dk_inited (e_disk e) = true ->
  fresh w (e_disk e) -> st_tail w = Some tw ->
  Forall (sealed_ok c (e_disk e)) ss' -> tail_ok c (e_disk e) t' tw -> linked (ss' ++ [t']) ->
  st_rotate w = (if 0 <? ws_index_start tw then Some (ws_index_start tw) else None) ->
  (forall s n, In s (ss' ++ [t']) -> In n dels -> fname_eqb (name_of s) n = false) ->
  exists w' e',
    mutate w {| tx_next_id := st_next_id w; tx_segs := ss' ++ [t']; tx_delete := dels;
                tx_create := None; tx_tail := st_tail w |} e = (ROk, w', e') /\
    e_fault e' = None /\ WInvS c w' (e_disk e') ss' t' tw /\
    dk_stable (e_disk e') = dk_stable (e_disk e) /\ st_next_id w' = st_next_id w /\ e_m e' = e_m e /\
    (forall s, In s (ss' ++ [t']) ->
               lookup (name_of s) (dk_files (e_disk e')) = lookup (name_of s) (dk_files (e_disk e))).
Proof.
  intros He Hcl Hfa Hini Hfr Htail HS HT HL Hro Hd.
  unfold mutate. rewrite (mutate_gen_none false w _ e He) by reflexivity.
  cbn [tx_next_id tx_segs tx_tail tx_delete].
  set (w' := wal_with (st_next_id w) (ss' ++ [t']) (st_tail w) w).
  set (e1 := commit_env (st_next_id w) (ss' ++ [t']) e).
  assert (HI1 : WInvS c w' (e_disk e1) ss' t' tw).
  { apply WInvS_intro; unfold w', wal_with; cbn [st_closed st_failed st_next_id st_segs st_tail st_rotate]; auto. }
  assert (He1 : e_fault e1 = None) by reflexivity.
  destruct (WInvS_delete_files c w' e1 ss' t' tw dels HI1 He1 Hd) as (G1 & G2 & G3 & G4 & G5).
  destruct (delete_files_spec dels e1 He1) as (_ & _ & _ & _ & _ & F6 & _).
  eexists _, _. split; [reflexivity|]. split; [exact G3|]. split; [exact G1|].
  split; [exact G4|]. split; [reflexivity|]. split; [exact G5|].
  intros s Hs. rewrite F6; [reflexivity|]. intros n Hn. apply Hd; assumption.
Qed.

Lemma hd_split {A} (ss : list A) t pre h r : ss ++ [t] = pre ++ h :: r -> hd t ss = hd h pre.
Proof. destruct ss, pre; cbn [app hd]; intros E; inversion E; reflexivity. Qed.

Lemma min_head_le c d pre h r nm :
  Forall (sealed_ok c d) pre -> linked (pre ++ h :: r) -> Forall (fun s => si_max s < nm) pre ->
  si_min (hd h pre) < nm -> si_min h <= nm.
Proof.
  intros HS HL HM HF. destruct pre as [|p0 pre0] using rev_ind; [cbn [hd] in HF; lia|].
  clear IHpre0. rewrite <- app_assoc in HL. cbn [app] in HL. apply linked_app_r in HL.
  destruct HL as (E1 & E2 & _). apply Forall_app in HM. destruct HM as [_ HM].
  inversion HM; subst. lia.
Qed.

(* ------------------------------------------------------------------ *)
(* nTruncated arithmetic                                                *)
Lemma abs_ents c w d ss t tw : WInvS c w d ss t tw ->
  sl_ents (abs w d) = flat_map (seg_visible (ws_commit_idx tw) d) (ss ++ [t]).
Proof.
  intros HI. rewrite (abs_eq _ _ _ _ _ _ HI).
  destruct HI as (_ & _ & _ & _ & _ & Hsegs & Htail & HS & HT & HL & _). rewrite Hsegs, Htail.
  destruct (N.eqb_spec (last_index (ss ++ [t]) (Some tw)) 0) as [E|E]; [|reflexivity].
  apply (content_nonempty _ _ _ _ _ HT HS HL) in E. rewrite E. reflexivity.
Qed.

Lemma head_sum_app tl a b n : head_sum tl (a ++ b) n = head_sum tl b (head_sum tl a n).
Proof. unfold head_sum. apply fold_left_app. Qed.

Lemma head_sum_sealed c d tl x : forall pre a,
  Forall (sealed_ok c d) pre -> linked (pre ++ [x]) -> si_base x <= si_min x ->
  a + (si_base x - si_min (hd x pre)) < two64 ->
  head_sum tl pre a = a + (si_base x - si_min (hd x pre)).
Proof.
  induction pre as [|s pre IH]; intros a HS HL Hx Hlt.
  - cbn [head_sum fold_left hd]. lia.
  - inversion HS as [|? ? Hs HS']; subst. cbn [hd] in *.
    assert (Hlt2 := linked_lt (s :: pre) x (Forall_impl _ (sealed_srange c d) HS) HL).
    inversion Hlt2 as [|? ? Hsx _]; subst.
    destruct Hs as (Hsl & _ & Hb1 & Hb2 & Hb3 & Hb4 & _).
    assert (Hnext : si_min (hd x pre) = si_max s + 1).
    { destruct pre as [|s' pre']; cbn [app hd] in *; destruct HL as (E1 & E2 & _); lia. }
    change (head_sum tl (s :: pre) a)
      with (head_sum tl pre (if si_min s <=? emax tl s then (a + (emax tl s - si_min s + 1)) mod two64 else a)).
    rewrite (emax_sealed _ _ Hsl). destruct (N.leb_spec (si_min s) (si_max s)); [|lia].
    rewrite mod64_small by lia.
    rewrite (IH _ HS' (linked_tail _ _ HL) Hx) by lia. lia.
Qed.

Lemma linked_last_min : forall l s t, linked ((s :: l) ++ [t]) -> si_min t = si_base t.
Proof.
  induction l as [|y l IH]; intros s t; cbn [app].
  - intros (_ & E & _). exact E.
  - intros (_ & _ & H). apply (IH y t). exact H.
Qed.

Lemma head_sum_all c d ss t tw :
  Forall (sealed_ok c d) ss -> tail_ok c d t tw -> linked (ss ++ [t]) ->
  head_sum (ws_commit_idx tw) (ss ++ [t]) 0 =
  llen (flat_map (seg_visible (ws_commit_idx tw) d) (ss ++ [t])).
Proof.
  intros HS HT HL. destruct (content_chain _ _ _ _ HT ss HS HL) as (_ & Hlen & _).
  destruct (tail_commit _ _ _ _ HT) as [Hci Hb].
  assert (Hr : si_base t <= si_min t /\ si_min t <= si_base t + (ws_n tw - 1) /\ si_base t + ws_n tw < two64)
    by (repeat split; apply HT).
  assert (Hu : si_sealed t = false) by apply HT.
  assert (Hlt := linked_lt ss t (Forall_impl _ (sealed_srange c d) HS) HL).
  assert (Hhd : si_min (hd t ss) <= si_base t + ws_n tw /\ (ss <> [] -> si_min t = si_base t /\ si_min (hd t ss) < si_base t)).
  { destruct ss as [|s r]; cbn [hd]; [split; [lia|congruence]|].
    inversion HS as [|? ? Hs _]; subst. inversion Hlt; subst. destruct Hs as (_ & _ & ? & ? & ? & _).
    split; [lia|]. intros _. split; [|lia]. eapply linked_last_min. exact HL. }
  set (X := llen (flat_map (seg_visible (ws_commit_idx tw) d) (ss ++ [t]))) in *. clearbody X.
  rewrite head_sum_app.
  rewrite (head_sum_sealed c d (ws_commit_idx tw) t ss 0 HS HL) by lia.
  cbn [head_sum fold_left]. rewrite (emax_unsealed _ _ Hu), Hci.
  destruct (N.eqb_spec (ws_n tw) 0) as [En|En].
  - destruct (N.leb_spec (si_min t) 0); [lia|]. destruct ss; [cbn [hd] in *; lia|]. destruct Hhd as [_ Hh].
    destruct (Hh ltac:(discriminate)). lia.
  - destruct (N.leb_spec (si_min t) (si_base t + ws_n tw - 1)); [|lia].
    rewrite mod64_small by lia. destruct ss as [|s r]; [cbn [hd] in *; lia|]. destruct Hhd as [_ Hh].
    destruct (Hh ltac:(discriminate)). lia.
Qed.

Lemma truncate_head_ok c w e ss t tw nm :
  cfg_ok c -> e_fault e = None -> WInvS c w (e_disk e) ss t tw -> ws_index_start tw = 0 ->
  st_next_id w + 1 < two64 ->
  first_index (st_segs w) (st_tail w) < nm -> nm < two64 ->
  exists w' e',
    truncate_head c w nm e = (ROk, w', e') /\ e_fault e' = None /\ WInv c w' (e_disk e') /\
    dk_stable (e_disk e') = dk_stable (e_disk e) /\
    st_next_id w <= st_next_id w' /\ st_next_id w' <= st_next_id w + 1 /\
    abs w' (e_disk e') =
      (if last_index (st_segs w) (st_tail w) <? nm then sl_empty
       else {| sl_first := nm;
               sl_ents := skipn (N.to_nat (nm - first_index (st_segs w) (st_tail w)))
                                (sl_ents (abs w (e_disk e))) |}) /\
    e_m e' = add_head (if last_index (st_segs w) (st_tail w) <? nm then llen (sl_ents (abs w (e_disk e)))
                       else nm - first_index (st_segs w) (st_tail w)) (e_m e).
Proof.
  intros Hc He HI His Hnid HF Hnm.
  assert (HI0 := HI).
  assert (Hro0 := WInvS_rotate_none _ _ _ _ _ _ HI His).
  destruct (abs_props _ _ _ _ _ _ HI) as (_ & _ & _ & _ & Hne).
  destruct HI as (Hcl & Hfa & Hmeta & Hini & Hfr & Hsegs & Htail & HS & HT & HL & Hro).
  assert (Hemax := emax_le_last _ _ _ _ _ HS HT HL).
  unfold truncate_head.
  set (L := last_index (st_segs w) (st_tail w)) in *.
  set (F := first_index (st_segs w) (st_tail w)) in *.
  assert (HLeq : last_index (ss ++ [t]) (Some tw) = L) by (unfold L; rewrite Hsegs, Htail; reflexivity).
  rewrite HLeq in Hemax.
  rewrite Htail. cbn [tail_last]. rewrite Hsegs.
  destruct (span (fun s => emax (ws_commit_idx tw) s <? nm) (ss ++ [t])) as (pre & rest & E & HFp & Hr).
  rewrite E. rewrite (head_scan_split nm (ws_commit_idx tw) pre rest [] 0 HFp Hr). cbn [app].
  destruct rest as [|h r]; cbn [hd_error].
  - (* every segment goes: a new empty tail after the old last index *)
    rewrite app_nil_r in E. subst pre.
    assert (HLnm : L < nm).
    { destruct (N.eq_dec L 0) as [E0|E0]; [lia|].
      rewrite <- HLeq in *. rewrite (last_index_inv c (e_disk e) ss _ _ HT) in *.
      destruct (tail_commit _ _ _ _ HT) as [Hci Hb].
      apply Forall_app in HFp. destruct HFp as [HFs HFt]. inversion HFt as [|? ? Hft _]; subst.
      assert (Hu : si_sealed t = false) by apply HT. rewrite (emax_unsealed _ _ Hu), Hci in Hft.
      destruct (N.eqb_spec (ws_n tw) 0) as [En|En]; [|lia].
      destruct ss as [|s0 r0] using rev_ind; [congruence|]. clear IHr0.
      apply Forall_app in HFs. destruct HFs as [_ HFs]. inversion HFs as [|? ? Hfs _]; subst.
      apply Forall_app in HS. destruct HS as [_ HS]. inversion HS as [|? ? (Hsl & _) _]; subst.
      rewrite (emax_sealed _ _ Hsl) in Hfs. rewrite <- app_assoc in HL. apply linked_app_r in HL.
      destruct HL as (E1 & _). destruct r0; cbn [app] in E0 |- *; lia. }
    assert (HL1 : L + 1 < two64).
    { destruct (N.eq_dec L 0) as [E0|E0]; [rewrite E0; unfold two64; lia|]. apply Hne. exact E0. }
    rewrite mod64_small by exact HL1.
    rewrite (create_next_nil c _ (L + 1) ltac:(lia) HL1 Hnid).
    set (e0 := add_m e _).
    destruct (mutate_new_tail c false w e0 [] (L + 1) (map name_of (ss ++ [t])))
      as (Hmut & HI' & He' & Hst' & Hm' & Hlk'); try assumption; try reflexivity; try lia;
      try (solve [constructor]).
    unfold mutate. cbn [app] in Hmut. rewrite Hmut.
    set (si := new_segment c (st_next_id w) (L + 1)) in *.
    set (e2 := create_env si _) in *.
    assert (Hdn : forall s n, In s ([] ++ [si]) -> In n (map name_of (ss ++ [t])) ->
                              fname_eqb (name_of s) n = false).
    { intros s n [<-|[]] Hn. apply in_map_iff in Hn. destruct Hn as (x & <- & Hx).
      apply fname_eqb_neq. intros Eq.
      assert (Hnone : lookup (name_of si) (dk_files (e_disk e)) = None) by (apply Hfr; cbn; lia).
      rewrite Eq in Hnone. apply in_app_or in Hx. destruct Hx as [Hx|[<-|[]]].
      - rewrite Forall_forall in HS. destruct (HS x Hx) as (_ & _ & _ & _ & _ & _ & f & (Hl & _) & _). congruence.
      - destruct HT as (_ & _ & _ & _ & _ & _ & _ & _ & _ & _ & _ & _ & _ & _ & _ & _ & _ & f & (Hl & _) & _).
        congruence. }
    destruct (WInvS_delete_files c _ e2 [] si _ _ HI' He' Hdn) as (G1 & G2 & G3 & G4 & G5).
    eexists _, _. split; [reflexivity|]. split; [exact G3|]. split; [eexists [], si, _; exact G1|].
    split; [rewrite G4; exact Hst'|]. cbn [wal_with st_next_id]. split; [lia|]. split; [lia|].
    assert (Hae := abs_empty_tail _ _ _ _ _ _ HI' eq_refl).
    cbn [app] in G2, Hae. rewrite G2, Hae.
    destruct (N.ltb_spec L nm); [|lia]. split; [reflexivity|].
    rewrite G5, Hm'. rewrite (abs_ents _ _ _ _ _ _ HI0), <- (head_sum_all c (e_disk e) ss t tw HS HT HL).
    reflexivity.
  - (* head segment h survives with a larger MinIndex *)
    apply N.ltb_ge in Hr.
    assert (HhL : emax (ws_commit_idx tw) h <= L).
    { rewrite Forall_forall in Hemax. apply Hemax. rewrite E. apply in_or_app. right. left. reflexivity. }
    assert (HL0 : L <> 0) by lia.
    destruct (Hne HL0) as (Ha & HFm & HF1 & HFL & HLlen & HL1 & Hcons).
    destruct (bases_before _ _ _ _ _ _ _ HS HL E) as [Hpb HSp].
    assert (Hlinked : linked (pre ++ h :: r)) by (rewrite <- E; exact HL).
    assert (Hpm : Forall (fun s => si_max s < nm) pre).
    { rewrite Forall_forall in *. intros s Hs. specialize (HFp s Hs). cbv beta in HFp.
      destruct (HSp s Hs) as (Hsl & _). rewrite (emax_sealed _ _ Hsl) in HFp. lia. }
    assert (Hhd : hd t ss = hd h pre) by (eapply hd_split; exact E).
    assert (Hminh : si_min h <= nm).
    { eapply min_head_le; eauto. rewrite <- Hhd, <- HFm. exact HF. }
    fold (set_min h nm). rewrite (seg_set_head (set_min h nm) h r eq_refl).
    set (e0 := add_m e _).
    assert (Hsorted := bases_lt_split _ _ _ _ _ _ HS HL E).
    assert (Hdels : forall s, In s (h :: r) -> forall n, In n (map name_of pre) ->
                               fname_eqb (name_of s) n = false).
    { intros s Hs n Hn. apply in_map_iff in Hn. destruct Hn as (x & <- & Hx).
      apply fname_neq_base. cbn [name_of fst]. specialize (Hsorted x s Hx Hs). lia. }
    destruct (snoc_split ss t pre (h :: r) E) as [[E1 _]|(r' & E1 & E2)]; [discriminate|].
    assert (H1h : 1 <= si_min h /\ si_base h <= si_min h).
    { destruct r' as [|h2 r2]; cbn [app] in E1.
      - inversion E1; subst h r. split; [|apply HT]. assert (1 <= si_base t) by apply HT.
        assert (si_base t <= si_min t) by apply HT. lia.
      - inversion E1; subst h2 r. rewrite E2 in HS. apply Forall_app in HS. destruct HS as [_ HS].
        inversion HS as [|? ? (_ & _ & ? & ? & _) _]; subst. split; lia. }
    assert (Hntr : (head_sum (ws_commit_idx tw) pre 0 + sub64 nm (si_min h)) mod two64 = nm - F).
    { rewrite sub64_small by lia.
      assert (HFh : F <= si_min h).
      { rewrite HFm, Hhd. destruct pre as [|p pre1]; cbn [hd]; [lia|].
        inversion Hpb as [|? ? Hp1 _]; subst. inversion HSp as [|? ? Hp2 _]; subst.
        destruct (sealed_srange _ _ _ Hp2). lia. }
      assert (Hhs : head_sum (ws_commit_idx tw) pre 0 = si_min h - F).
      { rewrite HFm, Hhd.
        destruct pre as [|p0 pre0] eqn:Ep using rev_ind; [cbn [head_sum fold_left hd]; lia|]. clear IHpre0.
        rewrite <- Ep in *.
        assert (Hmb : si_min h = si_base h).
        { rewrite Ep in Hlinked. rewrite <- app_assoc in Hlinked. cbn [app] in Hlinked.
          apply linked_app_r in Hlinked. destruct Hlinked as (_ & E3 & _). exact E3. }
        rewrite (head_sum_sealed c (e_disk e) (ws_commit_idx tw) h pre 0 HSp
                   (proj1 (linked_app_inv _ _ _ Hlinked)) (proj2 H1h)); lia. }
      rewrite Hhs. rewrite mod64_small by lia. lia. }
    assert (Hvis_h : (N.to_nat (nm - si_min h) <= length (seg_visible (ws_commit_idx tw) (e_disk e) h))%nat).
    { destruct r' as [|h2 r2]; cbn [app] in E1.
      - inversion E1; subst h r.
        destruct (vis_tail _ _ _ _ HT) as (f & _ & _ & _ & _ & _ & Hlen & _).
        assert (Hu : si_sealed t = false) by apply HT. rewrite (emax_unsealed _ _ Hu) in Hr.
        destruct (tail_commit _ _ _ _ HT) as [Hci Hb]. rewrite Hci in Hr. unfold llen in Hlen.
        destruct (N.eqb_spec (ws_n tw) 0); lia.
      - inversion E1; subst h2 r. assert (Hsh : sealed_ok c (e_disk e) h).
        { rewrite E2 in HS. apply Forall_app in HS. destruct HS as [_ HS]. inversion HS; assumption. }
        destruct (vis_sealed _ _ (ws_commit_idx tw) _ Hsh) as (f & _ & _ & _ & Hlen & _).
        destruct Hsh as (Hsl & _). rewrite (emax_sealed _ _ Hsl) in Hr. unfold llen in Hlen. lia. }
    assert (Hcont : forall d', (forall s, In s (h :: r) -> lookup (name_of s) (dk_files d')
                                                     = lookup (name_of s) (dk_files (e_disk e))) ->
              flat_map (seg_visible (ws_commit_idx tw) d') (set_min h nm :: r) =
              skipn (N.to_nat (nm - F)) (sl_ents (abs w (e_disk e)))).
    { intros d' Hd'. rewrite Ha. cbn [sl_ents]. rewrite E. rewrite HFm, Hhd.
      rewrite (skipn_chain c (e_disk e) (ws_commit_idx tw) nm pre h r HSp Hlinked Hpm).
      cbn [flat_map]. rewrite skipn_app_le by exact Hvis_h.
      rewrite <- (vis_set_min _ _ h nm) by (try apply H1h; exact Hminh).
      f_equal.
      - apply seg_visible_frame. change (name_of (set_min h nm)) with (name_of h). apply Hd'. left; reflexivity.
      - apply flat_map_visible_frame. intros s Hs. apply Hd'. right; exact Hs. }
    destruct r' as [|h2 r2]; cbn [app] in E1.
    + (* the head is the tail segment itself *)
      inversion E1; subst h r. rewrite app_nil_r in E2. subst pre.
      assert (Hu : si_sealed t = false) by apply HT. rewrite (emax_unsealed _ _ Hu) in Hr, HhL.
      assert (HT' : tail_ok c (e_disk e0) (set_min t nm) tw) by (apply tail_set_min; assumption).
      destruct (mutate_keep_tail c w e0 [] (set_min t nm) tw (map name_of ss) He Hcl Hfa Hini Hfr Htail
                  ltac:(constructor) HT' I Hro)
        as (w' & e' & Hmut & He' & HI' & Hst' & Hid' & Hme' & Hlk').
      { intros s n [<-|[]] Hn. apply (Hdels t); [left; reflexivity|exact Hn]. }
      cbn [app] in Hmut. rewrite Htail in Hmut. rewrite Hmut.
      exists w', e'. split; [reflexivity|]. split; [exact He'|]. split; [exists [], (set_min t nm), tw; exact HI'|].
      split; [exact Hst'|]. split; [lia|]. split; [lia|].
      destruct (N.ltb_spec L nm); [lia|].
      split; [|rewrite Hme'; unfold e0; cbn [add_m with_m e_m]; rewrite Hntr; reflexivity].
      rewrite (abs_eq _ _ _ _ _ _ HI').
      destruct HI' as (_ & _ & _ & _ & _ & Hsegs' & Htail' & HS' & HT'' & _).
      rewrite Hsegs', Htail'.
      assert (Hn0 : (ws_n tw =? 0) = false).
      { destruct (tail_commit _ _ _ _ HT) as [Hci Hb]. rewrite Hci in Hr. destruct (N.eqb_spec (ws_n tw) 0); [lia|reflexivity]. }
      rewrite (last_index_inv c (e_disk e') [] _ _ HT''), (first_index_inv _ _ _ _ _ HS' HT''), Hn0.
      cbn [set_min si_base si_min].
      rewrite <- HLeq in HL0. rewrite (last_index_inv c (e_disk e) ss _ _ HT), Hn0 in HL0.
      destruct (N.eqb_spec (si_base t + ws_n tw - 1) 0); [congruence|]. f_equal.
      cbn [app]. apply Hcont. intros s [<-|[]]. apply (Hlk' (set_min t nm)). left; reflexivity.
    + (* the head is a sealed segment *)
      inversion E1; subst h2 r. 
      assert (Hsh : sealed_ok c (e_disk e) h /\ Forall (sealed_ok c (e_disk e)) r2).
      { rewrite E2 in HS. apply Forall_app in HS. destruct HS as [_ HS]. inversion HS; auto. }
      destruct Hsh as [Hsh HSr]. assert (Hsl : si_sealed h = true) by apply Hsh.
      rewrite (emax_sealed _ _ Hsl) in Hr, HhL.
      assert (HS' : Forall (sealed_ok c (e_disk e0)) (set_min h nm :: r2)).
      { constructor; [apply sealed_set_min; assumption|exact HSr]. }
      assert (HL' : linked ((set_min h nm :: r2) ++ [t])).
      { cbn [app]. apply (linked_head_replace h); [reflexivity|]. apply (linked_app_r pre). exact Hlinked. }
      destruct (mutate_keep_tail c w e0 (set_min h nm :: r2) t tw (map name_of pre) He Hcl Hfa Hini Hfr Htail
                  HS' HT HL' Hro)
        as (w' & e' & Hmut & He' & HI' & Hst' & Hid' & Hme' & Hlk').
      { intros s n Hs Hn. cbn [app] in Hs. destruct Hs as [<-|Hs].
        - change (name_of (set_min h nm)) with (name_of h). apply (Hdels h); [left; reflexivity|exact Hn].
        - apply (Hdels s); [right; exact Hs|exact Hn]. }
      cbn [app] in Hmut. rewrite Htail in Hmut. rewrite Hmut.
      exists w', e'. split; [reflexivity|]. split; [exact He'|].
      split; [exists (set_min h nm :: r2), t, tw; exact HI'|].
      split; [exact Hst'|]. split; [lia|]. split; [lia|].
      destruct (N.ltb_spec L nm); [lia|].
      split; [|rewrite Hme'; unfold e0; cbn [add_m with_m e_m]; rewrite Hntr; reflexivity].
      rewrite (abs_eq _ _ _ _ _ _ HI').
      destruct HI' as (_ & _ & _ & _ & _ & Hsegs' & Htail' & HS'' & HT'' & _).
      rewrite Hsegs', Htail'.
      rewrite (last_index_inv c (e_disk e') _ _ _ HT''), (first_index_inv _ _ _ _ _ HS'' HT'').
      rewrite <- HLeq in HL0. rewrite (last_index_inv c (e_disk e) ss _ _ HT), E2 in HL0.
      assert (HL0' : (if ws_n tw =? 0 then si_base t - 1 else si_base t + ws_n tw - 1) <> 0).
      { destruct pre; exact HL0. }
      destruct ((if ws_n tw =? 0 then si_base t - 1 else si_base t + ws_n tw - 1) =? 0) eqn:Ez;
        [apply N.eqb_eq in Ez; congruence|].
      cbn [set_min si_min]. f_equal.
      cbn [app]. apply Hcont. intros s [<-|Hs].
      * apply (Hlk' (set_min h nm)). left; reflexivity.
      * apply Hlk'. right. exact Hs.
Qed.

(* ------------------------------------------------------------------ *)
(* truncateTailLocked                                                   *)
Definition tail_sum (lastidx : N) (rpost : list seginfo) (ntr : N) : N :=
  fold_left (fun a s => (a + sub64 (emax lastidx s) (si_min s) + 1) mod two64) rpost ntr.

Lemma tail_scan_split nm li : forall rpost rpre del ntr,
  Forall (fun s => (nm <? si_base s) = true) rpost ->
  match rpre with [] => True | s :: _ => (nm <? si_base s) = false end ->
  tail_scan nm li (rpost ++ rpre) del ntr = (rpre, del ++ map name_of rpost, tail_sum li rpost ntr).
Proof.
  induction rpost as [|s rpost IH]; intros rpre del ntr HF Hr.
  - cbn [app map tail_sum fold_left]. rewrite app_nil_r. destruct rpre as [|h r]; [reflexivity|].
    cbn [tail_scan]. destruct (N.leb_spec (si_base h) nm); [reflexivity|lia].
  - inversion HF as [|? ? Hs HF']; subst. cbn [app tail_scan].
    destruct (N.leb_spec (si_base s) nm); [lia|]. fold (emax li s).
    rewrite IH by assumption. cbn [map tail_sum fold_left]. rewrite <- app_assoc. reflexivity.
Qed.

Definition add_tail (k : N) (m : metrics) : metrics :=
  {| m_bytes_written := m_bytes_written m; m_entries_written := m_entries_written m;
     m_appends := m_appends m; m_bytes_read := m_bytes_read m;
     m_entries_read := m_entries_read m; m_rotations := m_rotations m;
     m_head_trunc := m_head_trunc m; m_tail_trunc := (m_tail_trunc m + k) mod two64;
     m_stable_gets := m_stable_gets m; m_stable_sets := m_stable_sets m |}.

(* Writer.ForceSeal *)
Lemma force_seal_arith off n lim (hdr : bool) :
  lim < two30 -> off <= lim -> 8 * n <= off -> 0 < n ->
  let total := (if hdr then 32 else 0) + index_frame_size n + 8 in
  (off + total) mod two32 = off + total /\ off + total < two32 /\ 8 * n <= off + total /\
  (off + total =? 0) = false /\ 0 < off + (if hdr then 32 else 0) + 8.
Proof.
  intros H1 H2 H3 H4. cbv zeta. assert (Hifs := index_frame_size_bounds n H4).
  unfold two30, two32 in *. rewrite N.mod_small by (destruct hdr; lia).
  repeat split; destruct hdr; lia.
Qed.

Lemma seg_force_seal_ok c e t tw :
  cfg_ok c -> e_fault e = None -> tail_ok c (e_disk e) t tw -> ws_index_start tw = 0 -> 0 < ws_n tw ->
  exists tw' e',
    seg_force_seal tw e = (ROk, tw', e') /\ e_fault e' = None /\ e_m e' = e_m e /\
    tail_ok c (e_disk e') t tw' /\ ws_n tw' = ws_n tw /\ 0 < ws_index_start tw' /\
    dk_meta (e_disk e') = dk_meta (e_disk e) /\ dk_stable (e_disk e') = dk_stable (e_disk e) /\
    dk_inited (e_disk e') = dk_inited (e_disk e) /\
    (forall m, fname_eqb m (name_of t) = false ->
               lookup m (dk_files (e_disk e')) = lookup m (dk_files (e_disk e))) /\
    file_ents (name_of t) (e_disk e') = file_ents (name_of t) (e_disk e) /\
    (forall m, lookup m (dk_files (e_disk e)) = None -> lookup m (dk_files (e_disk e')) = None).
Proof.
  intros Hc He HT His Hn.
  destruct (vis_tail _ _ _ _ HT) as (f & Hf & Hlen & Hend & Hseal & _).
  destruct HT as (H1 & H2 & H3 & H4 & H5 & H6 & H7 & H8 & H9 & H10 & H11 & H12 & H13 & H14 & H15 & H16 & H17
          & _).
  destruct (cfg_seg_size c Hc) as [Hs1 Hs2].
  assert (Hoff : ws_off tw <= c_seg_size c) by (apply H16; exact His).
  destruct (force_seal_arith (ws_off tw) (ws_n tw) (c_seg_size c) (ws_hdr tw) Hs2 Hoff H14 Hn)
    as (A1 & A2 & A3 & A4 & A5).
  unfold seg_force_seal. rewrite His. change (0 <? 0) with false. cbv iota.
  destruct (N.eqb_spec (ws_n tw) 0) as [|_]; [lia|]. cbv zeta.
  set (total := (if ws_hdr tw then 32 else 0) + index_frame_size (ws_n tw) + 8) in *.
  rewrite A1. clear A1. rewrite (io_ok _ _ He). cbn [negb]. rewrite (io_ok _ _ (io_post_fault _ _)). cbn [negb].
  eexists _, _. split; [reflexivity|]. split; [reflexivity|]. split; [reflexivity|].
  set (istart := ws_off tw + (if ws_hdr tw then 32 else 0) + 8) in *.
  clearbody total istart.
  set (b := {| pb_ents := []; pb_end := ws_off tw + total; pb_seal := istart |}).
  assert (Hd : e_disk (io_post (ASync (ws_name tw)) (io_post (AWrite (ws_name tw) (ws_off tw) total b) e))
               = wsync (e_disk e) (name_of t) (ws_off tw) total b).
  { rewrite H8. reflexivity. }
  rewrite Hd. clear Hd.
  destruct Hf as (Hlk & Hpend & Hfc & Hfok).
  assert (Hlk' := fun m => lookup_wsync (e_disk e) (name_of t) (ws_off tw) total b f m Hlk Hpend).
  destruct (wsync_other (e_disk e) (name_of t) (ws_off tw) total b) as (Ho1 & Ho2 & Ho3).
  cbn [pb_ents b] in Hlk'. rewrite app_nil_r in Hlk'.
  set (f' := {| df_ents := df_ents f; df_end := pb_end b; df_seal := pb_seal b;
                df_pend := None; df_dir := true; df_size := df_size f |}) in *.
  assert (Hf' : file_ok (wsync (e_disk e) (name_of t) (ws_off tw) total b) t f').
  { unfold file_ok. rewrite Hlk', fname_eqb_refl. cbn [f' df_pend df_ents]. repeat split; auto. }
  split.
  { unfold tail_ok. cbn [ws_n ws_name ws_base ws_min ws_limit ws_off ws_hdr ws_index_start ws_commit_idx].
    destruct (N.eqb_spec (ws_n tw) 0) as [|_]; [lia|].
    repeat split; auto; try lia.
    exists f'. split; [exact Hf'|]. cbn [f' df_ents df_end df_seal b pb_end pb_seal]. repeat split; auto. }
  split; [reflexivity|]. split; [exact A5|]. split; [exact Ho1|]. split; [exact Ho2|]. split; [exact Ho3|].
  split; [intros m Hm; rewrite Hlk', Hm; reflexivity|].
  split.
  - unfold file_ents. rewrite Hlk', fname_eqb_refl, Hlk. unfold cur_ents. cbn [f' df_pend df_ents]. rewrite Hpend. reflexivity.
  - intros m Hm. rewrite Hlk'. destruct (fname_eqb m (name_of t)) eqn:Em; [|exact Hm].
    apply fname_eqb_eq in Em. subst m. congruence.
Qed.

(* a tail writer that still holds entries [.. mx] recorded as sealed at mx *)
Lemma sealed_of_tail_at c d t tw mx istart :
  tail_ok c d t tw -> 0 < ws_n tw -> si_min t <= mx -> mx <= si_base t + ws_n tw - 1 ->
  sealed_ok c d (seal_info t mx istart).
Proof.
  intros (H1 & H2 & H3 & H4 & H5 & H6 & H7 & H8 & H9 & H10 & H11 & H12 & H13 & H14 & H15 & H16 & H17
          & f & Hf & Hn & He & Hs) Hpos Hm1 Hm2.
  unfold sealed_ok, seal_info. cbn [si_sealed si_codec si_base si_min si_max].
  split; [reflexivity|]. split; [exact H2|]. split; [exact H4|]. split; [exact H5|].
  split; [lia|]. split; [lia|]. exists f. split; [|split; lia]. exact Hf.
Qed.

Lemma sealed_set_max c d s mx istart :
  sealed_ok c d s -> si_min s <= mx -> mx <= si_max s -> sealed_ok c d (seal_info s mx istart).
Proof.
  intros (H1 & H2 & H3 & H4 & H5 & H6 & f & Hf & H7 & H8) Hm1 Hm2.
  unfold sealed_ok, seal_info. cbn [si_sealed si_codec si_base si_min si_max].
  repeat split; auto; try lia. exists f. split; [exact Hf|]. split; [exact H7|lia].
Qed.

(* sums over lists of segments *)
Fixpoint nsum (f : seginfo -> N) (l : list seginfo) : N :=
  match l with [] => 0 | s :: r => f s + nsum f r end.
Lemma nsum_app f a b : nsum f (a ++ b) = nsum f a + nsum f b.
Proof. induction a as [|x a IH]; cbn [app nsum]; [reflexivity|]. rewrite IH. lia. Qed.
Lemma nsum_rev f l : nsum f (rev l) = nsum f l.
Proof. induction l as [|x l IH]; [reflexivity|]. cbn [rev]. rewrite nsum_app, IH. cbn [nsum]. lia. Qed.

Definition tterm (li : N) (s : seginfo) : N := emax li s + 1 - si_min s.

Lemma tail_term li s a :
  si_min s <= emax li s + 1 -> emax li s + 1 < two64 -> 1 <= si_min s -> a + tterm li s < two64 ->
  (a + sub64 (emax li s) (si_min s) + 1) mod two64 = a + tterm li s.
Proof.
  intros H1 H2 H3 H4. unfold tterm in *. destruct (N.eq_dec (si_min s) (emax li s + 1)) as [E|E].
  - unfold sub64. rewrite (N.mod_small (si_min s)) by lia.
    replace (emax li s + two64 - si_min s) with (two64 - 1) by lia.
    rewrite (N.mod_small (two64 - 1)) by (unfold two64; lia).
    replace (a + (two64 - 1) + 1) with (a + 1 * two64) by (unfold two64; lia).
    rewrite N.mod_add by (unfold two64; lia). rewrite N.mod_small by lia. lia.
  - rewrite sub64_small by lia. rewrite mod64_small by lia. lia.
Qed.

Lemma tail_sum_nsum li : forall l a,
  Forall (fun s => si_min s <= emax li s + 1 /\ emax li s + 1 < two64 /\ 1 <= si_min s) l ->
  a + nsum (tterm li) l < two64 -> tail_sum li l a = a + nsum (tterm li) l.
Proof.
  induction l as [|s l IH]; intros a HF Hlt; [cbn [tail_sum fold_left nsum]; lia|].
  inversion HF as [|? ? (H1 & H2 & H3) HF']; subst. cbn [nsum] in *.
  change (tail_sum li (s :: l) a) with (tail_sum li l ((a + sub64 (emax li s) (si_min s) + 1) mod two64)).
  rewrite tail_term by lia. rewrite IH by (try assumption; lia). lia.
Qed.

(* the sealed segments r2 after sv, then the tail: their entries number L - MaxIndex sv *)
Lemma nsum_sealed_chain c d li x : forall r2,
  Forall (sealed_ok c d) r2 -> linked (r2 ++ [x]) ->
  (forall s, In s r2 -> si_min s = si_base s) ->
  nsum (tterm li) r2 + si_base (hd x r2) = si_base x.
Proof.
  induction r2 as [|s r2 IH]; intros HS HL Hmin; [cbn [nsum hd]; lia|].
  inversion HS as [|? ? Hs HS']; subst. cbn [nsum hd].
  assert (Hlt2 := linked_lt (s :: r2) x (Forall_impl _ (sealed_srange c d) HS) HL).
  inversion Hlt2 as [|? ? Hsx _]; subst.
  assert (Hm := Hmin s (or_introl eq_refl)).
  destruct Hs as (Hsl & _ & Hb1 & Hb2 & Hb3 & Hb4 & _).
  assert (Hnext : si_base (hd x r2) = si_max s + 1).
  { destruct r2 as [|s' r']; cbn [app hd] in *; destruct HL as (E1 & E2 & _); lia. }
  specialize (IH HS' (linked_tail _ _ HL) (fun s0 H0 => Hmin s0 (or_intror H0))).
  unfold tterm at 1. rewrite (emax_sealed _ _ Hsl). lia.
Qed.

Lemma linked_min_base : forall l x s, linked (x :: l) -> In s l -> si_min s = si_base s.
Proof.
  induction l as [|y l IH]; intros x s HL Hs; [destruct Hs|].
  destruct HL as (_ & E & HL'). destruct Hs as [<-|Hs]; [exact E|]. eapply IH; eauto.
Qed.

(* entries held by the segments after sv (sealed r2, then the tail) *)
Lemma tail_sum_removed c d ss t tw sv pre' r2 :
  Forall (sealed_ok c d) ss -> tail_ok c d t tw -> linked (ss ++ [t]) -> ss = pre' ++ sv :: r2 ->
  last_index (ss ++ [t]) (Some tw) + 1 < two64 ->
  tail_sum (last_index (ss ++ [t]) (Some tw)) (rev (r2 ++ [t])) 0 =
  last_index (ss ++ [t]) (Some tw) - si_max sv /\ si_max sv <= last_index (ss ++ [t]) (Some tw).
Proof.
  intros HS HT HL Ess HL1.
  set (L := last_index (ss ++ [t]) (Some tw)) in *.
  assert (HLi := last_index_inv c d ss _ _ HT). fold L in HLi.
  assert (Hu : si_sealed t = false) by apply HT. assert (Hb : 1 <= si_base t) by apply HT.
  assert (Hl2 : linked (sv :: r2 ++ [t])).
  { rewrite Ess in HL. rewrite <- app_assoc in HL. cbn [app] in HL. apply (linked_app_r pre'). exact HL. }
  assert (HSr : Forall (sealed_ok c d) r2 /\ sealed_ok c d sv).
  { rewrite Ess in HS. apply Forall_app in HS. destruct HS as [_ HS]. inversion HS; auto. }
  destruct HSr as [HSr HSv].
  assert (Hmb : forall s, In s (r2 ++ [t]) -> si_min s = si_base s) by (intros s; apply (linked_min_base _ sv); exact Hl2).
  assert (Hbt : si_base t <= L + 1 /\ si_min t = si_base t).
  { split; [|apply Hmb; apply in_or_app; right; left; reflexivity].
    rewrite HLi. destruct (N.eqb_spec (ws_n tw) 0); [|lia]. rewrite Ess. destruct pre'; cbn [app]; lia. }
  assert (Hchain := nsum_sealed_chain c d L t r2 HSr (linked_tail _ _ Hl2)
                      (fun s Hs => Hmb s (in_or_app _ _ _ (or_introl Hs)))).
  assert (Hfirst : si_base (hd t r2) = si_max sv + 1).
  { destruct r2 as [|s' r']; cbn [app hd] in *; destruct Hl2 as (E1 & _); lia. }
  assert (Hns : nsum (tterm L) (rev (r2 ++ [t])) = L - si_max sv /\ si_max sv <= L).
  { rewrite nsum_rev, nsum_app. cbn [nsum]. unfold tterm at 2. rewrite (emax_unsealed _ _ Hu).
    destruct Hbt as [Hbt1 Hbt2]. rewrite Hbt2. lia. }
  destruct Hns as [Hns HsvL]. split; [|exact HsvL].
  rewrite tail_sum_nsum; [lia| |lia].
  apply Forall_rev. apply Forall_app. split.
  - rewrite Forall_forall in *. intros s Hs. destruct (HSr s Hs) as (Hsl & _ & ? & ? & ? & ? & _).
    rewrite (emax_sealed _ _ Hsl). lia.
  - constructor; [|constructor]. rewrite (emax_unsealed _ _ Hu). destruct Hbt. lia.
Qed.

Lemma seg_visible_ents tl d d' s :
  file_ents (name_of s) d' = file_ents (name_of s) d -> seg_visible tl d' s = seg_visible tl d s.
Proof. intros E. unfold seg_visible. rewrite E. reflexivity. Qed.

Lemma firstn_content c d tl pre sv post nmax istart d' :
  Forall (sealed_ok c d) pre -> linked (pre ++ sv :: post) -> Forall (fun p => si_max p <= nmax) pre ->
  1 <= si_min sv -> nmax <= emax tl sv ->
  (N.to_nat (nmax + 1 - si_min sv) <= length (seg_visible tl d sv))%nat ->
  (forall s, In s pre -> lookup (name_of s) (dk_files d') = lookup (name_of s) (dk_files d)) ->
  file_ents (name_of sv) d' = file_ents (name_of sv) d ->
  flat_map (seg_visible 0 d') (pre ++ [seal_info sv nmax istart]) =
  firstn (N.to_nat (nmax + 1 - si_min (hd sv pre))) (flat_map (seg_visible tl d) (pre ++ sv :: post)).
Proof.
  intros HS HL HM H1 H2 H3 Hlk Hfe.
  rewrite (firstn_chain c d tl nmax pre sv post HS HL HM).
  rewrite flat_map_app. f_equal.
  - apply (flat_map_visible_sealed c); assumption.
  - cbn [flat_map]. rewrite app_nil_r. rewrite firstn_app_le by exact H3.
    rewrite (vis_set_max tl 0 d' sv nmax istart H1 H2). f_equal. apply seg_visible_ents. exact Hfe.
Qed.

Lemma truncate_tail_ok c w e ss t tw nmax :
  cfg_ok c -> e_fault e = None -> WInvS c w (e_disk e) ss t tw -> ws_index_start tw = 0 ->
  st_next_id w + 1 < two64 ->
  first_index (st_segs w) (st_tail w) <= nmax -> nmax < last_index (st_segs w) (st_tail w) ->
  exists w' e',
    truncate_tail c w nmax e = (ROk, w', e') /\ e_fault e' = None /\ WInv c w' (e_disk e') /\
    dk_stable (e_disk e') = dk_stable (e_disk e) /\
    st_next_id w <= st_next_id w' /\ st_next_id w' <= st_next_id w + 1 /\
    abs w' (e_disk e') =
      {| sl_first := first_index (st_segs w) (st_tail w);
         sl_ents := firstn (N.to_nat (nmax + 1 - first_index (st_segs w) (st_tail w)))
                           (sl_ents (abs w (e_disk e))) |} /\
    e_m e' = add_tail (last_index (st_segs w) (st_tail w) - nmax) (e_m e).
Proof.
  intros Hc He HI His Hnid HFn HnL.
  assert (HI0 := HI).
  assert (Hro0 := WInvS_rotate_none _ _ _ _ _ _ HI His).
  destruct (abs_props _ _ _ _ _ _ HI) as (_ & _ & _ & _ & Hne).
  destruct HI as (Hcl & Hfa & Hmeta & Hini & Hfr & Hsegs & Htail & HS & HT & HL & Hro).
  unfold truncate_tail.
  set (L := last_index (st_segs w) (st_tail w)) in *.
  set (F := first_index (st_segs w) (st_tail w)) in *.
  assert (HLeq : last_index (ss ++ [t]) (Some tw) = L) by (unfold L; rewrite Hsegs, Htail; reflexivity).
  assert (HL0 : L <> 0) by lia.
  destruct (Hne HL0) as (Ha & HFm & HF1 & HFL & HLlen & HL1 & Hcons).
  replace (rev (st_segs w)) with (t :: rev ss) by (rewrite Hsegs, rev_unit; reflexivity).
  destruct (span (fun s => nmax <? si_base s) (t :: rev ss)) as (rpost & rpre & E & HFp & Hr).
  rewrite E. rewrite (tail_scan_split nmax L rpost rpre [] 0 HFp Hr). cbn [app].
  (* the first segment survives *)
  assert (Hhd_in : In (hd t ss) (t :: rev ss)).
  { destruct ss as [|s0 r0]; [left; reflexivity|]. right. apply in_rev. rewrite rev_involutive. left; reflexivity. }
  assert (Hhd_base : si_base (hd t ss) <= nmax).
  { destruct ss as [|s0 r0]; cbn [hd] in *.
    - assert (si_base t <= si_min t) by apply HT. lia.
    - inversion HS as [|? ? (_ & _ & _ & ? & _) _]; subst. lia. }
  destruct rpre as [|sv rpre'].
  { exfalso. rewrite app_nil_r in E. subst rpost. rewrite Forall_forall in HFp.
    specialize (HFp _ Hhd_in). cbv beta in HFp. lia. }
  apply N.ltb_ge in Hr.
  assert (E' : ss ++ [t] = rev rpre' ++ sv :: rev rpost).
  { apply (f_equal (@rev _)) in E. cbn [rev] in E. rewrite rev_involutive in E. rewrite E.
    rewrite rev_app_distr. cbn [rev]. rewrite <- app_assoc. reflexivity. }
  set (pre' := rev rpre') in *. set (post := rev rpost) in *.
  assert (Hrest : rev (sv :: rpre') = pre' ++ [sv]) by reflexivity.
  rewrite Hrest.
  assert (Hpost : Forall (fun s => nmax < si_base s) post).
  { unfold post. apply Forall_rev. eapply Forall_impl; [|exact HFp]. intros s Hs. cbv beta in Hs. lia. }
  assert (Hpost_def : post = rev rpost) by reflexivity. clearbody pre' post.
  destruct (bases_before _ _ _ _ _ _ _ HS HL E') as [Hpb HSp].
  assert (Hlinked : linked (pre' ++ sv :: post)) by (rewrite <- E'; exact HL).
  assert (Hpm : Forall (fun p => si_max p <= nmax) pre').
  { eapply Forall_impl; [|exact Hpb]. intros s Hs. cbv beta in Hs. lia. }
  assert (Hpbase : Forall (fun s => si_base s < si_base sv) pre').
  { rewrite Forall_forall in *. intros s Hs. specialize (Hpb s Hs). destruct (sealed_srange _ _ _ (HSp s Hs)). lia. }
  assert (Hhd : hd t ss = hd sv pre') by (eapply hd_split; exact E').
  assert (Hminsv : si_min sv <= nmax /\ 1 <= si_min sv).
  { destruct pre' as [|p0 pre0] eqn:Ep using rev_ind.
    - cbn [hd] in Hhd. rewrite <- Hhd, <- HFm. lia.
    - clear IHpre0. rewrite <- app_assoc in Hlinked. cbn [app] in Hlinked. apply linked_app_r in Hlinked.
      destruct Hlinked as (E1 & E2 & _). lia. }
  destruct Hminsv as [Hminsv Hminsv1].
  assert (Hsorted := bases_lt_split _ _ _ _ (pre' ++ [sv]) post HS HL
                       ltac:(rewrite <- app_assoc; exact E')).
  set (si := new_segment c (st_next_id w) (nmax + 1)).
  assert (Hnone : lookup (name_of si) (dk_files (e_disk e)) = None) by (apply Hfr; cbn; lia).
  assert (Hlisted : forall x, In x (ss ++ [t]) -> lookup (name_of x) (dk_files (e_disk e)) <> None).
  { intros x Hx. apply in_app_or in Hx. destruct Hx as [Hx|[<-|[]]].
    - rewrite Forall_forall in HS. destruct (HS x Hx) as (_ & _ & _ & _ & _ & _ & f & (Hl & _) & _). congruence.
    - destruct HT as (_ & _ & _ & _ & _ & _ & _ & _ & _ & _ & _ & _ & _ & _ & _ & _ & _ & f & (Hl & _) & _).
      congruence. }
  destruct (snoc_split ss t pre' (sv :: post) E') as [[E1 _]|(r' & E1 & E2)]; [discriminate|].
  destruct r' as [|sv2 r2]; cbn [app] in E1.
  - (* the tail segment itself is cut: force-seal it *)
    injection E1 as Esv Epost. subst sv. rewrite app_nil_r in E2.
    assert (Hrp : rpost = []).
    { rewrite Hpost_def in Epost. destruct rpost as [|x xs]; [reflexivity|].
      apply (f_equal (@length _)) in Epost. rewrite rev_length in Epost. discriminate. }
    assert (Hu : si_sealed t = false) by apply HT. rewrite Hu. rewrite Htail.
    destruct (tail_commit _ _ _ _ HT) as [Hci Hb].
    rewrite (last_index_inv c (e_disk e) ss _ _ HT) in HLeq.
    assert (Hn : 0 < ws_n tw).
    { destruct (N.eqb_spec (ws_n tw) 0) as [En|En]; [|lia]. exfalso.
      destruct ss as [|s0 r0]; [lia|]. rewrite <- E2 in *. cbn [hd] in *.
      inversion HS as [|? ? (_ & _ & _ & ? & _) _]; subst. lia. }
    destruct (seg_force_seal_ok c e t tw Hc He HT His Hn)
      as (tw' & e1 & Hfs & He1 & Hm1 & HT1 & Hn1 & His1 & Hme1 & Hst1 & Hin1 & Hlk1 & Hfe1 & Hno1).
    rewrite Hfs.
    fold (seal_info t nmax (ws_index_start tw')).
    set (t' := seal_info t nmax (ws_index_start tw')).
    subst pre'.
    rewrite (seg_set_replace_last t' ss t Hpbase eq_refl).
    assert (Hbase_le : Forall (fun s => si_base s < si_max t' + 1) (ss ++ [t'])).
    { apply Forall_app. split.
      - eapply Forall_impl; [|exact Hpbase]. intros s Hs. cbn [t' seal_info si_max] in *. lia.
      - constructor; [|constructor]. cbn [t' seal_info si_max si_base]. lia. }
    rewrite (create_next_snoc c _ ss t' 0 Hbase_le ltac:(cbn [t' seal_info si_max]; lia) Hnid).
    change (si_max t' + 1) with (nmax + 1). fold si.
    set (w0 := {| st_next_id := st_next_id w; st_segs := st_segs w; st_tail := Some tw';
                  st_rotate := st_rotate w; st_failed := st_failed w; st_closed := st_closed w |}).
    set (e0 := add_m e1 _).
    assert (HnL' : nmax <= si_base t + ws_n tw - 1).
    { destruct (N.eqb_spec (ws_n tw) 0); lia. }
    assert (HSt' : sealed_ok c (e_disk e1) t').
    { unfold t'. apply (sealed_of_tail_at c (e_disk e1) t tw'); [exact HT1|lia|exact Hminsv|lia]. }
    assert (Hoth : forall s, In s ss -> lookup (name_of s) (dk_files (e_disk e1)) = lookup (name_of s) (dk_files (e_disk e))).
    { intros s Hs. apply Hlk1. apply fname_neq_base. rewrite Forall_forall in Hpbase. specialize (Hpbase s Hs).
      cbn [name_of fst]. lia. }
    destruct (mutate_new_tail c false w0 e0 (ss ++ [t']) (nmax + 1) (map name_of rpost))
      as (Hmut & HI' & He' & Hst' & Hm' & Hlk'); try assumption; try reflexivity; try lia.
    { intros n Hn'. apply Hno1. apply Hfr. exact Hn'. }
    { change (e_disk e0) with (e_disk e1). congruence. }
    { apply Forall_app. split; [|constructor; [exact HSt'|constructor]].
      eapply sealed_ok_frame_all; [|exact HS]. exact Hoth. }
    { rewrite <- app_assoc. cbn [app]. apply linked_app_intro.
      - eapply linked_last_replace; [| |exact HL]; reflexivity.
      - cbn [linked new_segment si_base si_min t' seal_info si_max]. repeat split; reflexivity. }
    change (new_segment c (st_next_id w0) (nmax + 1)) with si in *.
    change (st_next_id w0) with (st_next_id w) in *.
    unfold mutate. rewrite Hmut. rewrite Hrp. cbn [map delete_files fold_left].
    eexists _, _. split; [reflexivity|]. split; [exact He'|]. split; [eexists _, _, _; exact HI'|].
    split; [rewrite Hst'; exact Hst1|]. cbn [wal_with st_next_id w0]. split; [lia|]. split; [lia|].
    split.
    2:{ rewrite Hm'. unfold e0. cbn [add_m with_m e_m]. rewrite Hm1, Hrp. cbn [tail_sum fold_left].
        rewrite sub64_small by lia. rewrite N.add_0_l, (mod64_small (L - nmax)) by lia. reflexivity. }
    rewrite (abs_empty_tail _ _ _ _ _ _ HI' eq_refl).
    assert (Hcontent := firstn_content c (e_disk e) (ws_commit_idx tw) ss t [] nmax (ws_index_start tw')
               (e_disk (create_env si (commit_env (st_next_id w + 1) ((ss ++ [t']) ++ [si]) e0)))
               HS HL Hpm Hminsv1).
    rewrite <- HFm in Hcontent. fold t' in Hcontent.
    rewrite Hcontent; clear Hcontent.
    + rewrite Ha. cbn [sl_ents]. destruct ss as [|s0 r0]; cbn [app hd] in *; f_equal; symmetry; exact HFm.
    + rewrite (emax_unsealed _ _ Hu), Hci. destruct (N.eqb_spec (ws_n tw) 0); lia.
    + destruct (vis_tail _ _ _ _ HT) as (f & _ & _ & _ & _ & _ & Hlen & _). unfold llen in Hlen. lia.
    + intros s Hs. rewrite Hlk'; [apply Hoth; exact Hs|].
      apply fname_eqb_neq. intros Eq. apply (Hlisted s); [apply in_or_app; left; exact Hs|]. rewrite Eq. exact Hnone.
    + unfold file_ents at 1. rewrite Hlk'; [exact Hfe1|].
      apply fname_eqb_neq. intros Eq. apply (Hlisted t); [apply in_or_app; right; left; reflexivity|]. rewrite Eq. exact Hnone.
  - (* a sealed segment becomes the last one *)
    injection E1 as Esv Epost. subst sv2.
    assert (Hsv : sealed_ok c (e_disk e) sv).
    { rewrite E2 in HS. apply Forall_app in HS. destruct HS as [_ HS]. inversion HS; assumption. }
    assert (Hsl : si_sealed sv = true) by apply Hsv. rewrite Hsl.
    fold (seal_info sv nmax (si_index_start sv)).
    set (t' := seal_info sv nmax (si_index_start sv)).
    rewrite (seg_set_replace_last t' pre' sv Hpbase eq_refl).
    assert (Hbase_le : Forall (fun s => si_base s < si_max t' + 1) (pre' ++ [t'])).
    { apply Forall_app. split.
      - eapply Forall_impl; [|exact Hpbase]. intros s Hs. cbn [t' seal_info si_max] in *. lia.
      - constructor; [|constructor]. cbn [t' seal_info si_max si_base]. lia. }
    rewrite (create_next_snoc c _ pre' t' 0 Hbase_le ltac:(cbn [t' seal_info si_max]; lia) Hnid).
    change (si_max t' + 1) with (nmax + 1). fold si.
    set (w0 := {| st_next_id := st_next_id w; st_segs := st_segs w; st_tail := st_tail w;
                  st_rotate := st_rotate w; st_failed := st_failed w; st_closed := st_closed w |}).
    set (e0 := add_m e _).
    assert (Hmaxsv : nmax <= si_max sv).
    { rewrite Epost in Hlinked. assert (Hl2 := linked_app_r _ _ Hlinked).
      assert (Hx : exists x rest, r2 ++ [t] = x :: rest) by (destruct r2; cbn [app]; eauto).
      destruct Hx as (x & rest & Ex). rewrite Ex in Hl2. destruct Hl2 as (E3 & _).
      rewrite Epost, Ex in Hpost. inversion Hpost; subst. lia. }
    assert (HSt' : sealed_ok c (e_disk e) t') by (apply sealed_set_max; assumption).
    destruct (mutate_new_tail c false w0 e0 (pre' ++ [t']) (nmax + 1) (map name_of rpost))
      as (Hmut & HI' & He' & Hst' & Hm' & Hlk'); try assumption; try reflexivity; try lia.
    { apply Forall_app. split; [exact HSp|constructor; [exact HSt'|constructor]]. }
    { rewrite <- app_assoc. cbn [app]. apply linked_app_intro.
      - eapply linked_last_replace; [| |exact (proj1 (linked_app_inv _ _ _ Hlinked))]; reflexivity.
      - cbn [linked new_segment si_base si_min t' seal_info si_max]. repeat split; reflexivity. }
    change (new_segment c (st_next_id w0) (nmax + 1)) with si in *.
    change (st_next_id w0) with (st_next_id w) in *.
    unfold mutate. rewrite Hmut.
    set (e2 := create_env si _) in *.
    assert (Hdn : forall s n, In s ((pre' ++ [t']) ++ [si]) -> In n (map name_of rpost) ->
                              fname_eqb (name_of s) n = false).
    { intros s n Hs Hn'. apply in_map_iff in Hn'. destruct Hn' as (x & <- & Hx).
      apply in_rev in Hx. rewrite <- Hpost_def in Hx.
      apply in_app_or in Hs. destruct Hs as [Hs|[<-|[]]].
      - assert (Hs' : exists s', In s' (pre' ++ [sv]) /\ name_of s' = name_of s).
        { apply in_app_or in Hs. destruct Hs as [Hs|[<-|[]]].
          - exists s. split; [apply in_or_app; left; exact Hs|reflexivity].
          - exists sv. split; [apply in_or_app; right; left; reflexivity|reflexivity]. }
        destruct Hs' as (s' & Hs' & <-). apply fname_neq_base. cbn [name_of fst].
        specialize (Hsorted s' x Hs' Hx). lia.
      - apply fname_eqb_neq. intros Eq. apply (Hlisted x).
        + rewrite E'. apply in_or_app. right. right. exact Hx.
        + rewrite <- Eq. exact Hnone. }
    destruct (WInvS_delete_files c _ e2 _ si _ _ HI' He' Hdn) as (G1 & G2 & G3 & G4 & G5).
    eexists _, _. split; [reflexivity|]. split; [exact G3|]. split; [eexists _, si, _; exact G1|].
    split; [rewrite G4; exact Hst'|]. cbn [wal_with st_next_id w0]. split; [lia|]. split; [lia|].
    split.
    2:{ rewrite G5, Hm'. unfold e0. cbn [add_m with_m e_m].
        assert (Hrp : rpost = rev (r2 ++ [t])) by (rewrite <- Epost, Hpost_def, rev_involutive; reflexivity).
        destruct (tail_sum_removed c (e_disk e) ss t tw sv pre' r2 HS HT HL E2 ltac:(rewrite HLeq; exact HL1))
          as [Hts HsvL].
        rewrite HLeq in Hts, HsvL. rewrite Hrp, Hts. rewrite sub64_small by lia.
        rewrite (mod64_small (L - si_max sv + (si_max sv - nmax))) by lia.
        replace (L - si_max sv + (si_max sv - nmax)) with (L - nmax) by lia. reflexivity. }
    rewrite G2. rewrite (abs_empty_tail _ _ _ _ _ _ HI' eq_refl).
    assert (Hcontent := firstn_content c (e_disk e) (ws_commit_idx tw) pre' sv post nmax (si_index_start sv)
               (e_disk e2) HSp Hlinked Hpm Hminsv1).
    fold t' in Hcontent. rewrite <- Hhd, <- HFm, <- E' in Hcontent.
    rewrite Hcontent; clear Hcontent.
    + rewrite Ha. cbn [sl_ents]. rewrite Hhd in HFm.
      destruct pre' as [|s0 r0]; cbn [app hd] in *; f_equal; symmetry; exact HFm.
    + rewrite (emax_sealed _ _ Hsl). exact Hmaxsv.
    + destruct (vis_sealed _ _ (ws_commit_idx tw) _ Hsv) as (f & _ & _ & _ & Hlen & _). unfold llen in Hlen. lia.
    + intros s Hs. apply Hlk'.
      apply fname_eqb_neq. intros Eq. apply (Hlisted s); [rewrite E'; apply in_or_app; left; exact Hs|].
      rewrite Eq. exact Hnone.
    + unfold file_ents. rewrite Hlk'; [reflexivity|].
      apply fname_eqb_neq. intros Eq. apply (Hlisted sv); [rewrite E'; apply in_or_app; right; left; reflexivity|].
      rewrite Eq. exact Hnone.
Qed.

(* ------------------------------------------------------------------ *)
(* DeleteRange                                                          *)
(* how DeleteRange moves the truncation counters: by the number of entries it removes *)
Definition del_m (a a' : slog) (mn : N) (m m' : metrics) : Prop :=
  (m' = m /\ llen (sl_ents a') = llen (sl_ents a)) \/
  (mn <= sl_first a /\ m' = add_head (llen (sl_ents a) - llen (sl_ents a')) m) \/
  (sl_first a < mn /\ m' = add_tail (llen (sl_ents a) - llen (sl_ents a')) m).

Lemma delete_range_ok c w e ss t tw mn mx :
  cfg_ok c -> e_fault e = None -> WInvS c w (e_disk e) ss t tw -> ws_index_start tw = 0 ->
  st_next_id w + 1 < two64 -> mx + 1 < two64 ->
  exists r w' e',
    delete_range c w mn mx e = (r, w', e') /\ e_fault e' = None /\ WInv c w' (e_disk e') /\
    dk_stable (e_disk e') = dk_stable (e_disk e) /\
    st_next_id w <= st_next_id w' /\ st_next_id w' <= st_next_id w + 1 /\
    match spec_delete (abs w (e_disk e)) mn mx with
    | Some a' => r = ROk /\ abs w' (e_disk e') = a' /\ del_m (abs w (e_disk e)) a' mn (e_m e) (e_m e')
    | None => res_class r = RErrOther /\ abs w' (e_disk e') = abs w (e_disk e) /\ e_m e' = e_m e
    end.
Proof.
  intros Hc He HI His Hnid Hmx.
  assert (Hsame : exists r w' e', (ROk, w, e) = (r, w', e') /\ e_fault e' = None /\ WInv c w' (e_disk e') /\
            dk_stable (e_disk e') = dk_stable (e_disk e) /\
            st_next_id w <= st_next_id w' /\ st_next_id w' <= st_next_id w + 1 /\
            r = ROk /\ abs w' (e_disk e') = abs w (e_disk e) /\
            del_m (abs w (e_disk e)) (abs w (e_disk e)) mn (e_m e) (e_m e')).
  { exists ROk, w, e. split; [reflexivity|]. split; [exact He|]. split; [exists ss, t, tw; exact HI|].
    split; [reflexivity|]. split; [lia|]. split; [lia|]. split; [reflexivity|]. split; [reflexivity|].
    left. split; reflexivity. }
  destruct (abs_props _ _ _ _ _ _ HI) as (Hsf & Hsl & Hemp & _ & Hne).
  assert (Habs := abs_eq _ _ _ _ _ _ HI).
  assert (Hcl : st_closed w = false) by apply HI. assert (Hfa : st_failed w = false) by apply HI.
  unfold delete_range. rewrite Hcl.
  set (L := last_index (st_segs w) (st_tail w)) in *.
  set (F := first_index (st_segs w) (st_tail w)) in *.
  set (a := abs w (e_disk e)) in *.
  assert (Hfirst : sl_first a = F).
  { destruct (N.eqb_spec L 0) as [E0|E0].
    - rewrite Habs in Hsf |- *. cbn in Hsf |- *. exact Hsf.
    - destruct (Hne E0) as (Ha & _). rewrite Ha. reflexivity. }
  assert (Hempb : sl_is_empty a = (L =? 0)).
  { destruct (N.eqb_spec L 0) as [E|E]; [apply Hemp; exact E|].
    destruct (sl_is_empty a); [|reflexivity]. exfalso. apply E. apply Hemp. reflexivity. }
  unfold spec_delete. rewrite Hempb, Hsl, Hfirst.
  destruct (N.ltb_spec mx mn) as [Hmm|Hmm]; cbn [orb]; [exact Hsame|].
  rewrite Hfa.
  destruct (N.eqb_spec L 0) as [EL|EL]; cbn [orb].
  - (* empty log *)
    assert (EF : F = 0).
    { rewrite Habs in Hsf. cbn in Hsf. symmetry. exact Hsf. }
    assert (Ha0 : a = sl_empty) by (rewrite Habs; reflexivity).
    rewrite EL, EF. destruct (N.ltb_spec mx 0) as [|_]; [lia|]. cbn [orb].
    destruct (N.ltb_spec 0 mn) as [_|Hmn]; [exact Hsame|].
    destruct (N.leb_spec mn 0) as [_|]; [|lia].
    rewrite mod64_small by exact Hmx.
    destruct (truncate_head_ok c w e ss t tw (mx + 1) Hc He HI His Hnid ltac:(fold F; lia) Hmx)
      as (w' & e' & Hth & He' & HI' & Hst' & Hid1 & Hid2 & Habs' & Hm').
    exists ROk, w', e'. rewrite Hth. fold L a in Habs', Hm'. rewrite EL in Habs', Hm'.
    destruct (N.ltb_spec 0 (mx + 1)); [|lia].
    split; [reflexivity|]. split; [exact He'|]. split; [exact HI'|]. split; [exact Hst'|].
    split; [exact Hid1|]. split; [exact Hid2|]. split; [reflexivity|].
    split; [rewrite Habs', Ha0; reflexivity|].
    right. left. rewrite Hfirst, EF. split; [lia|]. rewrite Hm'. rewrite N.sub_diag, Ha0. reflexivity.
  - destruct (Hne EL) as (Ha & HFm & HF1 & HFL & HLlen & HL1 & Hcons).
    destruct (N.ltb_spec mx F) as [|HmF]; cbn [orb]; [exact Hsame|].
    destruct (N.ltb_spec L mn) as [|HLm]; cbn [orb]; [exact Hsame|].
    destruct (N.leb_spec mn F) as [HmnF|HmnF].
    + rewrite mod64_small by exact Hmx.
      destruct (truncate_head_ok c w e ss t tw (mx + 1) Hc He HI His Hnid ltac:(fold F; lia) Hmx)
        as (w' & e' & Hth & He' & HI' & Hst' & Hid1 & Hid2 & Habs' & Hm').
      exists ROk, w', e'. rewrite Hth. fold L F a in Habs', Hm'.
      split; [reflexivity|]. split; [exact He'|]. split; [exact HI'|]. split; [exact Hst'|].
      split; [exact Hid1|]. split; [exact Hid2|].
      destruct (N.ltb_spec L (mx + 1)); destruct (N.leb_spec L mx); try lia.
      * split; [reflexivity|]. split; [exact Habs'|]. right. left. rewrite Hfirst. split; [exact HmnF|].
        rewrite Hm'. cbn [sl_empty sl_ents]. rewrite llen_nil, N.sub_0_r. reflexivity.
      * split; [reflexivity|]. split; [exact Habs'|]. right. left. rewrite Hfirst. split; [exact HmnF|].
        rewrite Hm'. cbn [sl_ents]. f_equal. unfold llen in *. rewrite skipn_length. lia.
    + destruct (N.leb_spec L mx) as [HLmx|HLmx].
      * destruct (truncate_tail_ok c w e ss t tw (mn - 1) Hc He HI His Hnid ltac:(fold F; lia) ltac:(fold L; lia))
          as (w' & e' & Hth & He' & HI' & Hst' & Hid1 & Hid2 & Habs' & Hm').
        exists ROk, w', e'. rewrite Hth. fold L F a in Habs', Hm'.
        split; [reflexivity|]. split; [exact He'|]. split; [exact HI'|]. split; [exact Hst'|].
        split; [exact Hid1|]. split; [exact Hid2|]. split; [reflexivity|].
        split; [rewrite Habs'; f_equal; f_equal; lia|].
        right. right. rewrite Hfirst. split; [exact HmnF|]. rewrite Hm'. cbn [sl_ents]. f_equal.
        unfold llen in *. rewrite firstn_length. lia.
      * exists RErrMiddle, w, e. split; [reflexivity|]. split; [exact He|]. split; [exists ss, t, tw; exact HI|].
        repeat split; auto; lia.
Qed.
