(* SeqFactsBase.v -- generic facts used by the sequential refinement proof:
   lists indexed by N, file-name maps, consecutive index lists, frame sizes,
   I/O without faults. *)
From RW Require Import Base.Bytes Base.BytesFacts Fmt.Codec Fmt.CodecFacts Fmt.Frame
  Wal.Model Wal.Spec Wal.SeqInv Gen.Constants.
From Coq Require Import ZifyN ZifyNat ZifyBool.
Open Scope N_scope.

(* ------------------------------------------------------------------ *)
(* llen                                                                 *)
Lemma llen_nil {A} : llen (@nil A) = 0.
Proof. reflexivity. Qed.
Lemma llen_cons {A} (x : A) l : llen (x :: l) = llen l + 1.
Proof. unfold llen. cbn [length]. lia. Qed.
Lemma llen_app {A} (a b : list A) : llen (a ++ b) = llen a + llen b.
Proof. unfold llen. rewrite app_length. lia. Qed.
Lemma llen_0 {A} (l : list A) : llen l = 0 -> l = [].
Proof. destruct l; [reflexivity|]. rewrite llen_cons. lia. Qed.

(* ------------------------------------------------------------------ *)
(* nth_error / firstn / skipn                                           *)
Lemma nth_error_skipn {A} (l : list A) k i : nth_error (skipn k l) i = nth_error l (k + i).
Proof.
  revert l. induction k as [|k IH]; intros l; [reflexivity|].
  destruct l as [|x l]; [destruct i; reflexivity|]. cbn [skipn]. rewrite IH. reflexivity.
Qed.
Lemma nth_error_firstn {A} (l : list A) k i : (i < k)%nat -> nth_error (firstn k l) i = nth_error l i.
Proof.
  revert l i. induction k as [|k IH]; intros l i Hi; [lia|].
  destruct l as [|x l]; [reflexivity|]. destruct i as [|i]; [reflexivity|].
  cbn [firstn nth_error]. apply IH. lia.
Qed.
Lemma In_firstn_sub {A} (l : list A) k x : In x (firstn k l) -> In x l.
Proof. intros H. rewrite <- (firstn_skipn k l). apply in_or_app. left. exact H. Qed.
Lemma In_skipn_sub {A} (l : list A) k x : In x (skipn k l) -> In x l.
Proof. intros H. rewrite <- (firstn_skipn k l). apply in_or_app. right. exact H. Qed.
Lemma skipn_skipn2 {A} (a b : nat) (l : list A) : skipn a (skipn b l) = skipn (b + a) l.
Proof.
  revert l. induction b as [|b IH]; intros l; [reflexivity|].
  destruct l as [|x l]; [rewrite !skipn_nil; reflexivity|]. cbn [skipn Nat.add]. apply IH.
Qed.
Lemma skipn_app_le {A} (n : nat) (a b : list A) :
  (n <= length a)%nat -> skipn n (a ++ b) = skipn n a ++ b.
Proof.
  intros H. rewrite skipn_app. replace (n - length a)%nat with 0%nat by lia. reflexivity.
Qed.
Lemma skipn_app_ge {A} (n : nat) (a b : list A) :
  (length a <= n)%nat -> skipn n (a ++ b) = skipn (n - length a) b.
Proof. intros H. rewrite skipn_app. rewrite skipn_all2 by exact H. reflexivity. Qed.
Lemma firstn_app_le {A} (n : nat) (a b : list A) :
  (n <= length a)%nat -> firstn n (a ++ b) = firstn n a.
Proof.
  intros H. rewrite firstn_app. replace (n - length a)%nat with 0%nat by lia.
  cbn [firstn]. apply app_nil_r.
Qed.
Lemma firstn_app_ge {A} (n : nat) (a b : list A) :
  (length a <= n)%nat -> firstn n (a ++ b) = a ++ firstn (n - length a) b.
Proof. intros H. rewrite firstn_app. rewrite firstn_all2 by exact H. reflexivity. Qed.

(* ------------------------------------------------------------------ *)
(* file names and the file map                                          *)
Lemma fname_eqb_eq a b : fname_eqb a b = true <-> a = b.
Proof.
  destruct a as [a1 a2], b as [b1 b2]. unfold fname_eqb. cbn [fst snd].
  rewrite andb_true_iff, !N.eqb_eq. split; [intros [-> ->]; reflexivity|].
  intros H; inversion H; auto.
Qed.
Lemma fname_eqb_refl a : fname_eqb a a = true.
Proof. apply fname_eqb_eq. reflexivity. Qed.
Lemma fname_eqb_neq a b : fname_eqb a b = false <-> a <> b.
Proof.
  split.
  - intros H E. apply fname_eqb_eq in E. congruence.
  - intros H. destruct (fname_eqb a b) eqn:E; [|reflexivity]. apply fname_eqb_eq in E. contradiction.
Qed.
Lemma fname_eqb_sym a b : fname_eqb a b = fname_eqb b a.
Proof.
  destruct (fname_eqb b a) eqn:E.
  - apply fname_eqb_eq in E. subst. apply fname_eqb_refl.
  - apply fname_eqb_neq. apply fname_eqb_neq in E. congruence.
Qed.
Lemma fname_neq_base (a b : fname) : fst a <> fst b -> fname_eqb a b = false.
Proof. intros H. apply fname_eqb_neq. congruence. Qed.
Lemma fname_neq_id (a b : fname) : snd a <> snd b -> fname_eqb a b = false.
Proof. intros H. apply fname_eqb_neq. congruence. Qed.

Lemma lookup_update m n f fs :
  lookup m (update n f fs) = if fname_eqb m n then Some f else lookup m fs.
Proof.
  induction fs as [|[k g] r IH]; cbn [update lookup].
  - destruct (fname_eqb m n); reflexivity.
  - destruct (fname_eqb n k) eqn:E1; cbn [lookup].
    + apply fname_eqb_eq in E1. subst k. destruct (fname_eqb m n); reflexivity.
    + destruct (fname_eqb m k) eqn:E2.
      * apply fname_eqb_eq in E2. subst k. rewrite fname_eqb_sym, E1. reflexivity.
      * exact IH.
Qed.
Lemma lookup_remove_neq m n fs : fname_eqb m n = false -> lookup m (remove n fs) = lookup m fs.
Proof.
  intros H. induction fs as [|[k g] r IH]; [reflexivity|]. cbn [remove lookup].
  destruct (fname_eqb n k) eqn:E1.
  - apply fname_eqb_eq in E1. subst k. rewrite H. reflexivity.
  - cbn [lookup]. rewrite IH. reflexivity.
Qed.
Lemma lookup_remove_none m n fs : lookup m fs = None -> lookup m (remove n fs) = None.
Proof.
  induction fs as [|[k g] r IH]; [reflexivity|]. cbn [remove lookup].
  destruct (fname_eqb m k) eqn:E2; [discriminate|]. intros H.
  destruct (fname_eqb n k) eqn:E1; [exact H|]. cbn [lookup]. rewrite E2. auto.
Qed.
Lemma lookup_in_names n fs f : lookup n fs = Some f -> In n (map fst fs).
Proof.
  induction fs as [|[k g] r IH]; [discriminate|]. cbn [lookup map fst].
  destruct (fname_eqb n k) eqn:E; [|intros H; right; apply IH; exact H].
  apply fname_eqb_eq in E. subst. intros _. left. reflexivity.
Qed.
Lemma in_names_lookup n fs : In n (map fst fs) -> lookup n fs <> None.
Proof.
  induction fs as [|[k g] r IH]; [intros []|]. cbn [lookup map fst].
  intros [->|H]; [rewrite fname_eqb_refl; discriminate|].
  destruct (fname_eqb n k); [discriminate|auto].
Qed.

(* ------------------------------------------------------------------ *)
(* consecutive                                                          *)
Lemma consecutive_app b l1 l2 :
  consecutive b (l1 ++ l2) = consecutive b l1 && consecutive (b + llen l1) l2.
Proof.
  revert b. induction l1 as [|x l1 IH]; intros b.
  - cbn [app consecutive]. rewrite llen_nil, N.add_0_r. reflexivity.
  - cbn [app consecutive]. rewrite IH, llen_cons.
    replace (b + 1 + llen l1) with (b + (llen l1 + 1)) by lia. rewrite andb_assoc. reflexivity.
Qed.
Lemma consecutive_nth b l k x :
  consecutive b l = true -> nth_error l k = Some x -> l_index x = b + N.of_nat k.
Proof.
  revert b k. induction l as [|y l IH]; intros b k Hc Hn; [destruct k; discriminate|].
  cbn [consecutive] in Hc. apply andb_true_iff in Hc. destruct Hc as [Hy Hc]. apply N.eqb_eq in Hy.
  destruct k as [|k]; cbn [nth_error] in Hn.
  - inversion Hn; subst. lia.
  - rewrite (IH _ _ Hc Hn). lia.
Qed.
Lemma consecutive_skipn b l k :
  consecutive b l = true -> consecutive (b + N.of_nat k) (skipn k l) = true.
Proof.
  revert b l. induction k as [|k IH]; intros b l Hc.
  - cbn [skipn]. replace (b + N.of_nat 0) with b by lia. exact Hc.
  - destruct l as [|y l]; [reflexivity|]. cbn [skipn]. cbn [consecutive] in Hc.
    apply andb_true_iff in Hc. destruct Hc as [_ Hc].
    replace (b + N.of_nat (S k)) with (b + 1 + N.of_nat k) by lia. apply IH. exact Hc.
Qed.
Lemma consecutive_firstn b l k : consecutive b l = true -> consecutive b (firstn k l) = true.
Proof.
  revert b l. induction k as [|k IH]; intros b l Hc; [reflexivity|].
  destruct l as [|y l]; [reflexivity|]. cbn [firstn consecutive] in *.
  apply andb_true_iff in Hc. destruct Hc as [Hy Hc]. rewrite Hy. cbn [andb]. apply IH. exact Hc.
Qed.
Lemma consecutive_hd b l0 ls : consecutive b (l0 :: ls) = true -> l_index l0 = b.
Proof. cbn [consecutive]. intros H. apply andb_true_iff in H. destruct H as [H _]. apply N.eqb_eq. exact H. Qed.
(* an element of a consecutive list sits at the position its index says *)
Lemma consecutive_In_nth b l x :
  consecutive b l = true -> In x l -> nth_error l (N.to_nat (l_index x - b)) = Some x.
Proof.
  intros Hc Hin. apply In_nth_error in Hin. destruct Hin as [k Hk].
  rewrite (consecutive_nth _ _ _ _ Hc Hk). replace (N.to_nat (b + N.of_nat k - b)) with k by lia. exact Hk.
Qed.

(* ------------------------------------------------------------------ *)
(* frame sizes                                                          *)
Lemma pad_len_le n : pad_len n <= 7.
Proof.
  unfold pad_len. assert (H := N.mod_upper_bound (8 - n mod 8) 8). lia.
Qed.
Lemma enc_frame_size_bounds n : 8 + n <= enc_frame_size n <= n + 15.
Proof. unfold enc_frame_size. assert (H := pad_len_le n). lia. Qed.
Lemma index_frame_size_bounds n : 0 < n -> 8 <= index_frame_size n <= 4 * n + 15.
Proof.
  intros H. unfold index_frame_size. destruct (N.eqb_spec n 0); [lia|].
  assert (H1 := enc_frame_size_bounds (n * 4)). lia.
Qed.
Lemma frames_size_fold ls a :
  fold_left (fun a l => a + enc_frame_size (enc_len l)) ls a = a + frames_size ls.
Proof.
  unfold frames_size. revert a. induction ls as [|l ls IH]; intros a; cbn [fold_left]; [lia|].
  rewrite IH. rewrite (IH (0 + _)). lia.
Qed.
Lemma frames_size_cons l ls : frames_size (l :: ls) = enc_frame_size (enc_len l) + frames_size ls.
Proof. unfold frames_size at 1. cbn [fold_left]. rewrite frames_size_fold. lia. Qed.
Lemma frames_size_ge ls : 8 * llen ls <= frames_size ls.
Proof.
  induction ls as [|l ls IH]; [unfold llen; cbn [length]; lia|].
  rewrite frames_size_cons, llen_cons. assert (H := enc_frame_size_bounds (enc_len l)). lia.
Qed.

(* ------------------------------------------------------------------ *)
(* 64-bit arithmetic that does not wrap                                 *)
Lemma mod64_small a : a < two64 -> a mod two64 = a.
Proof. intros H. apply N.mod_small. exact H. Qed.
Lemma mod32_small a : a < two32 -> a mod two32 = a.
Proof. intros H. apply N.mod_small. exact H. Qed.
Lemma sub64_small a b : b <= a -> a < two64 -> sub64 a b = a - b.
Proof.
  intros H1 H2. unfold sub64. rewrite (N.mod_small b) by lia.
  replace (a + two64 - b) with ((a - b) + 1 * two64) by lia.
  rewrite N.mod_add by (unfold two64; lia). apply N.mod_small. lia.
Qed.

(* ------------------------------------------------------------------ *)
(* logs that the codec stores faithfully                                *)
Lemma log_ok_codec l : log_ok l -> codec_view l = l /\ exists b, encode_log l = Some b.
Proof.
  intros (Hwf & _). destruct (decode_encode l Hwf) as (bs & He & Hd).
  unfold codec_view. rewrite He, Hd. split; [reflexivity|eauto].
Qed.

(* ------------------------------------------------------------------ *)
(* I/O without faults                                                   *)
Lemma io_ok a e : e_fault e = None -> io a e = (true, io_post a e).
Proof.
  intros H. unfold io, io_post, armed. rewrite H. destruct (is_delete a); reflexivity.
Qed.
Lemma io_post_fault a e : e_fault (io_post a e) = None.
Proof. reflexivity. Qed.
Lemma io_post_disk a e : e_disk (io_post a e) = apply_act (e_disk e) a.
Proof. reflexivity. Qed.
Lemma io_post_m a e : e_m (io_post a e) = e_m e.
Proof. reflexivity. Qed.

(* disk fields under each action *)
Lemma apply_stable d a :
  dk_stable (apply_act d a) = match a with ASetStable k v => kv_set k v (dk_stable d) | _ => dk_stable d end.
Proof.
  destruct a; try reflexivity; cbn [apply_act];
    destruct (lookup n (dk_files d)); reflexivity.
Qed.
Lemma apply_meta d a :
  dk_meta (apply_act d a) = match a with ACommit ps => Some ps | _ => dk_meta d end.
Proof.
  destruct a; try reflexivity; cbn [apply_act];
    destruct (lookup n (dk_files d)); reflexivity.
Qed.
Lemma apply_inited d a :
  dk_inited d = true -> dk_inited (apply_act d a) = true.
Proof.
  intros H. destruct a; try reflexivity; try exact H; cbn [apply_act];
    destruct (lookup n (dk_files d)); exact H.
Qed.
Lemma apply_files_other d a :
  match a with ACommit _ | ASetStable _ _ | AInitMeta | AFail _ => dk_files (apply_act d a) = dk_files d
  | _ => True end.
Proof. destruct a; exact I || reflexivity. Qed.

Lemma lookup_create d n sz m :
  lookup m (dk_files (apply_act d (ACreate n sz))) =
  if fname_eqb m n then Some {| df_ents := []; df_end := 0; df_seal := 0; df_pend := None;
                                df_dir := false; df_size := sz |}
  else lookup m (dk_files d).
Proof. cbn [apply_act dk_files]. apply lookup_update. Qed.
Lemma lookup_delete_neq d n m :
  fname_eqb m n = false -> lookup m (dk_files (apply_act d (ADelete n))) = lookup m (dk_files d).
Proof. cbn [apply_act dk_files]. apply lookup_remove_neq. Qed.
Lemma lookup_delete_none d n m :
  lookup m (dk_files d) = None -> lookup m (dk_files (apply_act d (ADelete n))) = None.
Proof. cbn [apply_act dk_files]. apply lookup_remove_none. Qed.

(* a batch written at the synced end of a file and fsynced *)
Definition wsync (d : disk) (n : fname) (off l : N) (b : pbatch) : disk :=
  apply_act (apply_act d (AWrite n off l b)) (ASync n).
Lemma lookup_wsync d n off l b f m :
  lookup n (dk_files d) = Some f -> df_pend f = None ->
  lookup m (dk_files (wsync d n off l b)) =
  if fname_eqb m n then Some {| df_ents := df_ents f ++ pb_ents b; df_end := pb_end b; df_seal := pb_seal b;
                                df_pend := None; df_dir := true; df_size := df_size f |}
  else lookup m (dk_files d).
Proof.
  intros Hl Hp. unfold wsync. cbn [apply_act]. rewrite Hl, Hp. cbn [dk_files].
  rewrite lookup_update, fname_eqb_refl. cbn [df_pend dk_files df_ents df_size].
  rewrite !lookup_update. destruct (fname_eqb m n); reflexivity.
Qed.
Lemma wsync_other d n off l b :
  dk_meta (wsync d n off l b) = dk_meta d /\ dk_stable (wsync d n off l b) = dk_stable d /\
  dk_inited (wsync d n off l b) = dk_inited d.
Proof.
  unfold wsync. rewrite !apply_meta, !apply_stable.
  repeat split. cbn [apply_act].
  destruct (lookup n (dk_files d)); cbn [dk_files dk_inited]; [|destruct (lookup n (dk_files d)); reflexivity].
  rewrite lookup_update, fname_eqb_refl. reflexivity.
Qed.

(* deletions *)
Lemma delete_files_spec ns : forall e, e_fault e = None ->
  let e' := delete_files ns e in
  e_fault e' = None /\ e_m e' = e_m e /\
  dk_meta (e_disk e') = dk_meta (e_disk e) /\ dk_stable (e_disk e') = dk_stable (e_disk e) /\
  dk_inited (e_disk e') = dk_inited (e_disk e) /\
  (forall m, (forall n, In n ns -> fname_eqb m n = false) ->
             lookup m (dk_files (e_disk e')) = lookup m (dk_files (e_disk e))) /\
  (forall m, lookup m (dk_files (e_disk e)) = None -> lookup m (dk_files (e_disk e')) = None).
Proof.
  induction ns as [|n ns IH]; intros e He; cbn zeta.
  - unfold delete_files. cbn [fold_left]. repeat split; auto.
  - unfold delete_files. cbn [fold_left]. rewrite (io_ok _ _ He). cbn [snd].
    fold (delete_files ns (io_post (ADelete n) e)).
    destruct (IH (io_post (ADelete n) e) (io_post_fault _ _)) as (H1 & H2 & H3 & H4 & H5 & H6 & H7).
    repeat split; auto.
    + intros m Hm. rewrite H6 by (intros k Hk; apply Hm; right; exact Hk).
      rewrite io_post_disk. apply lookup_delete_neq. apply Hm. left; reflexivity.
    + intros m Hm. apply H7. rewrite io_post_disk. apply lookup_delete_none. exact Hm.
Qed.
