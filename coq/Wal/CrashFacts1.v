(* CrashFacts1.v -- frame lemmas for the structural invariant DIs and its
   preservation by the single actions that do not change the metadata, and by
   a crash. *)
From RW Require Import Base.Bytes Base.BytesFacts Fmt.Codec Fmt.Frame Wal.Model Wal.Spec Wal.Hist
  Wal.CrashInv Wal.CrashFacts0 Gen.Constants.
From Coq Require Import ZifyN ZifyNat ZifyBool.
Open Scope N_scope.

(* ---- linked lists of segments ---- *)
Definition sst (s : seginfo) : Prop := si_base s <= si_min s /\ si_min s <= si_max s.

Lemma linked_cons_inv s r : linked (s :: r) -> linked r.
Proof. cbn [linked]. destruct r as [|s' r']; [intros; exact I|intros (_ & _ & H); exact H]. Qed.

Lemma linked_app_r A B : linked (A ++ B) -> linked B.
Proof. induction A as [|a A IH]; cbn [app]; [auto|]. intros H. apply IH. eapply linked_cons_inv; eauto. Qed.

Lemma linked_app_l A B : linked (A ++ B) -> linked A.
Proof.
  induction A as [|a A IH]; cbn [app]; [intros; exact I|].
  intros H. destruct A as [|a' A']; [exact I|].
  cbn [app] in *. destruct H as (H1 & H2 & H3). repeat split; auto.
Qed.

Lemma linked_mid A a b B : linked (A ++ a :: b :: B) -> si_base b = si_max a + 1 /\ si_min b = si_base b.
Proof. intros H. apply linked_app_r in H. cbn [linked] in H. tauto. Qed.

Lemma linked_app_lt S t : linked (S ++ [t]) -> Forall sst S -> Forall (fun s => si_max s < si_base t) S.
Proof.
  induction S as [|a S IH]; intros HL HS; [constructor|].
  inversion HS as [|? ? Ha HS']; subst.
  destruct S as [|b S'].
  - cbn in HL. constructor; [lia|constructor].
  - cbn [app] in HL. destruct HL as (H1 & H2 & H3).
    specialize (IH H3 HS'). constructor; [|exact IH].
    inversion IH as [|? ? Hb _]; subst. inversion HS' as [|? ? Hsb _]; subst.
    unfold sst in Hsb. lia.
Qed.

Lemma sealed_ok_sst c nid d s : seg_wf c nid s -> sealed_ok d s -> sst s.
Proof. unfold seg_wf, sealed_ok, sst. tauto. Qed.

Lemma Forall_sst c nid d S : Forall (seg_wf c nid) S -> Forall (sealed_ok d) S -> Forall sst S.
Proof.
  induction S as [|a S IH]; intros H1 H2; [constructor|].
  inversion H1; inversion H2; subst. constructor; [eapply sealed_ok_sst; eauto|auto].
Qed.

(* names of listed segments differ from the tail's *)
Lemma sealed_name_neq S t s :
  Forall (fun s => si_max s < si_base t) S -> Forall sst S -> In s S -> name_of s <> name_of t.
Proof.
  intros H1 H2 Hin. rewrite Forall_forall in H1, H2. specialize (H1 _ Hin). specialize (H2 _ Hin).
  unfold sst in H2. unfold name_of. intros E. inversion E. lia.
Qed.

(* ---- frame ---- *)
Lemma sealed_ok_ext d d' s :
  lookup (name_of s) (dk_files d') = lookup (name_of s) (dk_files d) -> sealed_ok d s -> sealed_ok d' s.
Proof. unfold sealed_ok. intros ->. auto. Qed.

Lemma tail_ok_ext c d d' t :
  lookup (name_of t) (dk_files d') = lookup (name_of t) (dk_files d) -> tail_ok c d t -> tail_ok c d' t.
Proof. unfold tail_ok. intros ->. auto. Qed.

Lemma Forall_sealed_ext d d' S :
  (forall s, In s S -> lookup (name_of s) (dk_files d') = lookup (name_of s) (dk_files d)) ->
  Forall (sealed_ok d) S -> Forall (sealed_ok d') S.
Proof.
  intros H HS. rewrite Forall_forall in *. intros s Hin. eapply sealed_ok_ext; [apply H; exact Hin|auto].
Qed.

Lemma file_ents_ext n d d' :
  lookup n (dk_files d') = lookup n (dk_files d) -> file_ents n d' = file_ents n d.
Proof. unfold file_ents. intros ->. reflexivity. Qed.

Lemma seg_visible_ext tl d d' s :
  file_ents (name_of s) d' = file_ents (name_of s) d -> seg_visible tl d' s = seg_visible tl d s.
Proof. unfold seg_visible. intros ->. reflexivity. Qed.

Lemma flat_visible_ext tl d d' segs :
  (forall s, In s segs -> file_ents (name_of s) d' = file_ents (name_of s) d) ->
  flat_map (seg_visible tl d') segs = flat_map (seg_visible tl d) segs.
Proof.
  induction segs as [|s r IH]; intros H; cbn [flat_map]; [reflexivity|].
  rewrite (seg_visible_ext tl d d' s) by (apply H; left; reflexivity).
  rewrite IH by (intros; apply H; right; assumption). reflexivity.
Qed.

Lemma abs_gen_ext segs tl d d' :
  (forall s, In s segs -> file_ents (name_of s) d' = file_ents (name_of s) d) ->
  abs_gen segs tl d' = abs_gen segs tl d.
Proof. intros H. unfold abs_gen. rewrite (flat_visible_ext tl d d' segs H). reflexivity. Qed.

Lemma tail_info_In l t : tail_info l = Some t -> In t l.
Proof.
  unfold tail_info. induction l as [|x r IH]; [discriminate|].
  cbn [map]. destruct r as [|y r'].
  - cbn. intros H; inversion H; left; reflexivity.
  - intros H. right. apply IH. exact H.
Qed.

Lemma dread_ext d d' :
  dk_meta d' = dk_meta d ->
  (forall ps s, dk_meta d = Some ps -> In s (ps_segs ps) -> file_ents (name_of s) d' = file_ents (name_of s) d) ->
  dread d' = dread d.
Proof.
  intros Hm H. unfold dread. rewrite Hm. destruct (dk_meta d) as [ps|] eqn:E; [|reflexivity].
  assert (Hd : dtl ps d' = dtl ps d).
  { unfold dtl. destruct (tail_info (ps_segs ps)) as [t|] eqn:Et; [|reflexivity].
    rewrite (H ps t eq_refl); [reflexivity|].
    apply tail_info_In; exact Et. }
  rewrite Hd. apply abs_gen_ext. intros s Hs. apply (H ps s eq_refl Hs).
Qed.

(* ---- DIs: access ---- *)
Lemma DIs_unfold c nb d ps : dk_meta d = Some ps ->
  DIs c nb d <->
  (NoDup (map fst (dk_files d)) /\ ps_next_id ps <= nb /\
   (forall n f, lookup n (dk_files d) = Some f -> snd n < ps_next_id ps) /\
   exists S t, ps_segs ps = S ++ [t] /\ Forall (seg_wf c (ps_next_id ps)) (S ++ [t]) /\
               linked (S ++ [t]) /\ Forall (sealed_ok d) S /\ tail_ok c d t).
Proof. intros H. unfold DIs. rewrite H. tauto. Qed.

Lemma DIs_NoDup c nb d : DIs c nb d -> NoDup (map fst (dk_files d)).
Proof. unfold DIs; tauto. Qed.

Lemma DIs_mono c nb nb' d : nb <= nb' -> DIs c nb d -> DIs c nb' d.
Proof.
  intros Hle. unfold DIs. destruct (dk_meta d) as [ps|]; [|auto].
  intros (H1 & H2 & H3). split; [exact H1|]. split; [lia|exact H3].
Qed.

(* listed names *)
Lemma listed_spec segs n : listed segs n = true <-> exists s, In s segs /\ name_of s = n.
Proof.
  unfold listed. rewrite existsb_exists. split; intros (s & Hin & H); exists s; split; auto.
  - apply fname_eqb_eq; exact H.
  - apply fname_eqb_eq; exact H.
Qed.

(* the general frame lemma: same metadata, same listed files *)
Lemma DIs_frame c nb d d' :
  DIs c nb d -> dk_meta d' = dk_meta d ->
  NoDup (map fst (dk_files d')) ->
  (forall n f, lookup n (dk_files d') = Some f -> exists f0, lookup n (dk_files d) = Some f0) ->
  (forall ps s, dk_meta d = Some ps -> In s (ps_segs ps) ->
                lookup (name_of s) (dk_files d') = lookup (name_of s) (dk_files d)) ->
  DIs c nb d'.
Proof.
  intros HD Hm HN Hsub Hsame. unfold DIs in *. rewrite Hm. destruct HD as (_ & HD).
  split; [exact HN|]. destruct (dk_meta d) as [ps|] eqn:E.
  - destruct HD as (Hnb & Hid & S & t & Hs & Hwf & Hl & Hso & Ht).
    split; [exact Hnb|]. split.
    + intros n f Hf. destruct (Hsub _ _ Hf) as (f0 & Hf0). eapply Hid; eauto.
    + exists S, t. split; [exact Hs|]. split; [exact Hwf|]. split; [exact Hl|]. split.
      * eapply Forall_sealed_ext; [|exact Hso]. intros s Hin. apply (Hsame ps s eq_refl). rewrite Hs. apply in_or_app; left; exact Hin.
      * eapply tail_ok_ext; [|exact Ht]. apply (Hsame ps t eq_refl). rewrite Hs. apply in_or_app; right; left; reflexivity.
  - destruct (dk_files d') as [|[n f] r] eqn:Ef; [reflexivity|].
    destruct (Hsub n f) as (f0 & Hf0); [cbn [lookup]; rewrite fname_eqb_refl; reflexivity|].
    rewrite HD in Hf0. discriminate.
Qed.

(* ---- DIs: parts and construction ---- *)
Lemma DIs_parts c nb d ps S t :
  DIs c nb d -> dk_meta d = Some ps -> ps_segs ps = S ++ [t] ->
  NoDup (map fst (dk_files d)) /\ ps_next_id ps <= nb /\
  (forall n f, lookup n (dk_files d) = Some f -> snd n < ps_next_id ps) /\
  Forall (seg_wf c (ps_next_id ps)) (S ++ [t]) /\ linked (S ++ [t]) /\
  Forall (sealed_ok d) S /\ tail_ok c d t.
Proof.
  intros HD Hm Hs. apply (DIs_unfold c nb d ps Hm) in HD.
  destruct HD as (H1 & H2 & H3 & S' & t' & Hs' & H4 & H5 & H6 & H7).
  rewrite Hs in Hs'. apply app_inj_tail in Hs'. destruct Hs' as [-> ->]. tauto.
Qed.

Lemma DIs_build c nb d ps S t :
  dk_meta d = Some ps -> ps_segs ps = S ++ [t] ->
  NoDup (map fst (dk_files d)) -> ps_next_id ps <= nb ->
  (forall n f, lookup n (dk_files d) = Some f -> snd n < ps_next_id ps) ->
  Forall (seg_wf c (ps_next_id ps)) (S ++ [t]) -> linked (S ++ [t]) ->
  Forall (sealed_ok d) S -> tail_ok c d t -> DIs c nb d.
Proof.
  intros Hm Hs H1 H2 H3 H4 H5 H6 H7. apply (DIs_unfold c nb d ps Hm).
  split; [exact H1|]. split; [exact H2|]. split; [exact H3|]. exists S, t. tauto.
Qed.

Lemma DIs_segs c nb d ps : DIs c nb d -> dk_meta d = Some ps -> exists S t, ps_segs ps = S ++ [t].
Proof.
  intros HD Hm. apply (DIs_unfold c nb d ps Hm) in HD.
  destruct HD as (_ & _ & _ & S & t & Hs & _). eauto.
Qed.

(* sealed names differ from the tail's *)
Lemma DIs_sealed_neq c nb d ps S t s :
  DIs c nb d -> dk_meta d = Some ps -> ps_segs ps = S ++ [t] -> In s S -> name_of s <> name_of t.
Proof.
  intros HD Hm Hs Hin. destruct (DIs_parts _ _ _ _ _ _ HD Hm Hs) as (_ & _ & _ & Hwf & Hl & Hso & _).
  assert (Hsst : Forall sst S).
  { eapply Forall_sst; [|exact Hso]. apply Forall_app in Hwf. apply Hwf. }
  eapply sealed_name_neq; [apply linked_app_lt; eauto|exact Hsst|exact Hin].
Qed.

(* changing only the tail's file *)
Lemma DIs_update_tail c nb d d' ps S t f' :
  DIs c nb d -> dk_meta d = Some ps -> ps_segs ps = S ++ [t] ->
  dk_files d' = update (name_of t) f' (dk_files d) -> dk_meta d' = dk_meta d ->
  tail_ok c d' t -> DIs c nb d'.
Proof.
  intros HD Hm Hs Hf Hm' Ht.
  destruct (DIs_parts _ _ _ _ _ _ HD Hm Hs) as (H1 & H2 & H3 & H4 & H5 & H6 & H7).
  apply (DIs_build c nb d' ps S t); auto; try congruence.
  - rewrite Hf. apply update_NoDup. exact H1.
  - intros n f. rewrite Hf, lookup_update. destruct (fname_eqb n (name_of t)) eqn:E.
    + apply fname_eqb_eq in E; subst n. intros _. cbn [name_of snd].
      rewrite Forall_forall in H4. destruct (H4 t) as (_ & _ & _ & _ & _ & Hid); [apply in_or_app; right; left; reflexivity|exact Hid].
    + apply H3.
  - eapply Forall_sealed_ext; [|exact H6]. intros s Hin. rewrite Hf. apply lookup_update_neq.
    eapply DIs_sealed_neq; eauto.
Qed.

(* same files and metadata *)
Lemma DIs_same c nb d d' :
  dk_files d' = dk_files d -> dk_meta d' = dk_meta d -> DIs c nb d -> DIs c nb d'.
Proof.
  intros Hf Hm HD. eapply DIs_frame; [exact HD|exact Hm| | |].
  - rewrite Hf. eapply DIs_NoDup; eauto.
  - intros n f. rewrite Hf. eauto.
  - intros. rewrite Hf. reflexivity.
Qed.

(* ---- unpend ---- *)
Lemma unpend_cur_ents f : cur_ents (unpend_file f) = df_ents f. Proof. reflexivity. Qed.

Lemma fsz_ok_nil L : fsz_ok L [] 0 0.
Proof. unfold fsz_ok, two32. change (llen (@nil log)) with 0. repeat split; try lia; congruence. Qed.

Lemma tail_ok_unpend c d t : tail_ok c d t -> tail_ok c (unpend d) t.
Proof.
  unfold tail_ok. intros (Hs & H). split; [exact Hs|]. rewrite lookup_unpend.
  destruct (lookup (name_of t) (dk_files d)) as [f|]; cbn [option_map]; [|exact H].
  destruct H as (H1 & H2 & H3 & H4 & H5 & H6).
  cbn [unpend_file df_ents df_end df_seal df_pend df_dir cur_ents cur_end cur_seal].
  repeat split; try apply H1; auto.
  assert (llen (df_ents f) <= llen (cur_ents f)).
  { unfold cur_ents. destruct (df_pend f); [rewrite llen_app|]; lia. }
  lia.
Qed.

Lemma sealed_ok_unpend d s : sealed_ok d s -> sealed_ok (unpend d) s.
Proof.
  unfold sealed_ok. intros (H1 & H2 & f & Hf & H3 & H4 & H5 & H6). split; [exact H1|]. split; [exact H2|].
  exists (unpend_file f). rewrite lookup_unpend, Hf. cbn. auto.
Qed.

Lemma DIs_unpend c nb d : DIs c nb d -> DIs c nb (unpend d).
Proof.
  intros HD. unfold DIs in *. rewrite unpend_keys. cbn [unpend dk_meta].
  destruct HD as (HN & HD). split; [exact HN|].
  destruct (dk_meta d) as [ps|].
  - destruct HD as (H2 & H3 & S & t & Hs & H4 & H5 & H6 & H7). split; [exact H2|]. split.
    + intros n f. change (map (fun nf : fname * dfile => (fst nf, unpend_file (snd nf))) (dk_files d)) with (dk_files (unpend d)).
      rewrite lookup_unpend. destruct (lookup n (dk_files d)) eqn:E; [|discriminate]. intros _. eapply H3; eauto.
    + exists S, t. split; [exact Hs|]. split; [exact H4|]. split; [exact H5|]. split.
      * rewrite Forall_forall in *. intros s Hin. apply sealed_ok_unpend. auto.
      * apply tail_ok_unpend. exact H7.
  - unfold unpend; cbn [dk_files]. rewrite HD. reflexivity.
Qed.

Lemma file_ents_unpend n d :
  file_ents n (unpend d) = match lookup n (dk_files d) with Some f => df_ents f | None => [] end.
Proof. unfold file_ents. rewrite lookup_unpend. destruct (lookup n (dk_files d)); reflexivity. Qed.

(* ---- reading: decomposition under the invariant ---- *)
Definition slog_of (first : N) (es : list log) : slog :=
  match es with [] => sl_empty | _ => {| sl_first := first; sl_ents := es |} end.
Definition hd_min (S : list seginfo) (t : seginfo) : N := si_min (hd t S).
Definition tail_es (d : disk) (t : seginfo) : list log :=
  skipn (N.to_nat (si_min t - si_base t)) (file_ents (name_of t) d).
Definition sealed_es (d : disk) (S : list seginfo) : list log := flat_map (seg_visible 0 d) S.

Lemma seg_visible_sealed tl tl' d s : si_sealed s = true -> seg_visible tl d s = seg_visible tl' d s.
Proof. unfold seg_visible. intros ->. reflexivity. Qed.

Lemma flat_visible_sealed tl d S : Forall (sealed_ok d) S -> flat_map (seg_visible tl d) S = sealed_es d S.
Proof.
  unfold sealed_es. induction S as [|s S IH]; intros H; cbn [flat_map]; [reflexivity|].
  inversion H as [|? ? Hs HS]; subst. rewrite IH by exact HS.
  rewrite (seg_visible_sealed tl 0 d s); [reflexivity|]. apply Hs.
Qed.

Lemma skipn_all2' {A} n (l : list A) : (length l <= n)%nat -> skipn n l = [].
Proof. apply skipn_all2. Qed.

Lemma tail_visible c d t :
  1 <= si_base t -> tail_ok c d t ->
  seg_visible (tl_of (si_base t) (file_ents (name_of t) d)) d t = tail_es d t.
Proof.
  unfold tail_ok, seg_visible, tail_es, tl_of, file_ents. intros Hb1 (Hs & H). rewrite Hs.
  destruct (lookup (name_of t) (dk_files d)) as [f|].
  - destruct H as (_ & _ & _ & _ & H5 & H6).
    assert (Hle : llen (df_ents f) <= llen (cur_ents f)).
    { unfold cur_ents. destruct (df_pend f); [rewrite llen_app|]; lia. }
    destruct (llen (cur_ents f) =? 0) eqn:E0.
    + change (0 =? 0) with true. cbn [orb]. symmetry. apply skipn_all2. unfold llen in *. lia.
    + assert (Hmin : si_min t <= si_base t + llen (cur_ents f) - 1).
      { destruct (llen (df_ents f) =? 0) eqn:E1; lia. }
      assert (Hb : si_base t <= si_min t \/ si_min t < si_base t) by lia.
      destruct ((si_base t + llen (cur_ents f) - 1 =? 0) || (si_base t + llen (cur_ents f) - 1 <? si_min t)) eqn:E2; [lia|].
      apply firstn_all2. rewrite skipn_length. unfold llen in *. lia.
  - change (llen (@nil log)) with 0. cbn. rewrite skipn_nil. reflexivity.
Qed.

Lemma slog_of_abs first first' es : (es <> [] -> first = first') -> slog_of first es = slog_of first' es.
Proof. intros H. destruct es; [reflexivity|]. cbn. rewrite H by discriminate. reflexivity. Qed.

Lemma dread_decomp c nb d ps S t :
  DIs c nb d -> dk_meta d = Some ps -> ps_segs ps = S ++ [t] ->
  dread d = slog_of (hd_min S t) (sealed_es d S ++ tail_es d t).
Proof.
  intros HD Hm Hs. destruct (DIs_parts _ _ _ _ _ _ HD Hm Hs) as (H1 & H2 & H3 & H4 & H5 & H6 & H7).
  unfold dread. rewrite Hm. unfold abs_gen, dtl. rewrite Hs, tail_info_app, flat_map_app.
  rewrite (flat_visible_sealed _ d S H6). cbn [flat_map]. rewrite app_nil_r.
  assert (Hb1 : 1 <= si_base t).
  { rewrite Forall_forall in H4. destruct (H4 t) as (_ & _ & Hb & _); [apply in_or_app; right; left; reflexivity|exact Hb]. }
  rewrite (tail_visible c d t Hb1 H7).
  change (match sealed_es d S ++ tail_es d t with
          | [] => sl_empty
          | _ :: _ => {| sl_first := first_gen (S ++ [t]) (tl_of (si_base t) (file_ents (name_of t) d));
                         sl_ents := sealed_es d S ++ tail_es d t |}
          end) with (slog_of (first_gen (S ++ [t]) (tl_of (si_base t) (file_ents (name_of t) d))) (sealed_es d S ++ tail_es d t)).
  apply slog_of_abs. intros Hne.
  unfold first_gen, hd_min. destruct S as [|s S'].
  - cbn [app hd]. destruct H7 as (Hu & _). rewrite Hu. cbn [negb andb].
    destruct (tl_of (si_base t) (file_ents (name_of t) d) =? 0) eqn:E; [|reflexivity].
    exfalso. apply Hne. cbn [sealed_es flat_map app]. unfold tail_es. apply skipn_all2.
    unfold tl_of in E. destruct (llen (file_ents (name_of t) d) =? 0) eqn:E1.
    + unfold llen in E1. lia.
    + rewrite Forall_forall in H4. destruct (H4 t) as (_ & _ & Hb & _); [left; reflexivity|]. lia.
  - cbn [app hd]. inversion H6 as [|? ? Hs0 _]; subst. destruct Hs0 as (Hse & _). rewrite Hse. reflexivity.
Qed.
