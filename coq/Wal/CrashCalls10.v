(* CrashCalls10.v -- call_ok for DeleteRange; the master theorem. *)
From RW Require Import Base.Bytes Base.BytesFacts Fmt.Codec Fmt.CodecFacts Fmt.Frame Wal.Model Wal.Spec Wal.Hist
  Wal.CrashInv Wal.CrashFacts0 Wal.CrashFacts1 Wal.CrashFacts2 Wal.CrashFacts3 Wal.CrashFacts4 Wal.CrashFacts5
  Wal.CrashFacts6 Wal.CrashGlue Wal.CrashCalls1 Wal.CrashCalls2 Wal.CrashCalls3 Wal.CrashCalls4 Wal.CrashCalls5
  Wal.CrashCalls6 Wal.CrashCalls7 Wal.CrashCalls8 Wal.CrashCalls9 Gen.Constants.
From Coq Require Import ZifyN ZifyNat ZifyBool.
Open Scope N_scope.

Lemma slog_of_cons first es : es <> [] -> slog_of first es = {| sl_first := first; sl_ents := es |}.
Proof. destruct es; [congruence|reflexivity]. Qed.

Lemma delete_range_ok c nb w e mn mx a :
  cfg_ok c -> LInv c nb w (e_disk e) -> e_fault e = None -> st_rotate w = None -> nb + 1 < two64 ->
  sp_of (e_disk e) = a -> mx + 1 < two64 ->
  exists r w' e', delete_range c w mn mx e = (r, w', e') /\
    result_eqb (res_class r) (fst (step_spec a (ODelete mn mx))) = true /\
    LInv c (nb + 1) w' (e_disk e') /\ sp_of (e_disk e') = snd (step_spec a (ODelete mn mx)) /\
    ext (DP c (nb + 1) (fun x => x = a \/ x = snd (step_spec a (ODelete mn mx)))) e e'.
Proof.
  intros Hc HL Hf Hrot Hnb Hsp Hmx. set (d := e_disk e) in *.
  pose proof (LInv_nid _ _ _ _ HL) as Hnid.
  assert (HL1 : LInv c (nb + 1) w d) by (eapply LInv_mono; [|exact HL]; lia).
  destruct (LInv_view _ _ _ _ HL1) as (S & t & f & tw & V).
  set (a' := snd (step_spec a (ODelete mn mx))).
  set (A := fun x : spst => x = a \/ x = a').
  assert (He0 : ext (DP c (nb + 1) A) e e).
  { apply ext_refl; [exact Hf|]. eapply LInv_DP; [exact HL1|left; exact Hsp]. }
  assert (Hspec : step_spec a (ODelete mn mx) =
            match spec_delete (dread d) mn mx with
            | Some l' => (ROk, {| sp_log := l'; sp_kv := dk_stable d |})
            | None => (RErrOther, a) end).
  { cbn [step_spec]. rewrite <- Hsp. reflexivity. }
  assert (Hnoop : spec_delete (dread d) mn mx = Some (dread d) ->
            exists r w' e', (ROk, w, e) = (r, w', e') /\
              result_eqb (res_class r) (fst (step_spec a (ODelete mn mx))) = true /\
              LInv c (nb + 1) w' (e_disk e') /\ sp_of (e_disk e') = a' /\ ext (DP c (nb + 1) A) e e').
  { intros Hsd. exists ROk, w, e. split; [reflexivity|]. unfold a'. rewrite Hspec, Hsd. cbn [fst snd].
    split; [reflexivity|]. split; [exact HL1|]. split; [reflexivity|exact He0]. }
  unfold delete_range. rewrite (lv_closed _ _ _ _ _ _ _ _ V).
  destruct (mx <? mn) eqn:Emm.
  { apply Hnoop. unfold spec_delete. rewrite Emm. reflexivity. }
  rewrite (lv_failed _ _ _ _ _ _ _ _ V). rewrite (lv_first V), (lv_last V).
  rewrite (N.mod_small (mx + 1) two64) by exact Hmx.
  destruct (lv_log_cases V) as [(Ees & ES & Hn0 & Hdr & Hmb)|(Ees & Hdr & Hlast & H2)].
  - (* empty log *)
    rewrite Hdr. change (spec_first sl_empty) with 0. change (spec_last sl_empty) with 0.
    assert (Hsd : spec_delete sl_empty mn mx = Some sl_empty).
    { unfold spec_delete. cbn [sl_is_empty sl_empty sl_ents]. rewrite orb_true_r. reflexivity. }
    destruct ((mx <? 0) || (0 <? mn)) eqn:E1.
    { apply Hnoop. rewrite Hdr. exact Hsd. }
    replace (mn <=? 0) with true by lia.
    set (a1 := {| sp_log := slog_of (mx + 1) (skipn (N.to_nat (mx + 1 - hd_min S t)) (lv_es d S t f)); sp_kv := dk_stable d |}).
    assert (Ea1 : a1 = a) by (unfold a1; rewrite Ees, skipn_nil; cbn; rewrite <- Hsp; unfold sp_of; rewrite Hdr; reflexivity).
    destruct (truncate_head_ok c (nb + 1) A w e S t f tw (mx + 1) Hc V Hf Hrot ltac:(lia) ltac:(lia) ltac:(lia))
      as (w' & e' & Htr & He' & HL' & Hs').
    + fold d. intros Hne. congruence.
    + left. exact Hsp.
    + fold d. fold a1. left. exact Ea1.
    + rewrite Htr. exists ROk, w', e'. split; [reflexivity|]. unfold a'. rewrite Hspec, Hdr, Hsd. cbn [fst snd].
      split; [reflexivity|]. split; [exact HL'|]. split; [|exact He'].
      rewrite Hs'. fold d. fold a1. rewrite Ea1, <- Hsp. unfold sp_of. rewrite Hdr. reflexivity.
  - (* non-empty log *)
    set (first := hd_min S t) in *. set (es := lv_es d S t f) in *.
    assert (Hf1 : 1 <= first).
    { pose proof (lv_twf V) as (_ & _ & Hb1 & _ & Hbm & _). unfold first.
      destruct (list_eq_dec_nil S) as [->|HneS]; [unfold hd_min; cbn; lia|].
      pose proof (lv_Swf V) as Hw. destruct S as [|s S']; [congruence|]. inversion Hw as [|? ? (Hsb & Hsm) _]; subst.
      unfold hd_min. cbn [hd]. lia. }
    pose proof (lv_len V) as Hlen. fold d es first in Hlen.
    assert (Hfirst : spec_first (dread d) = first).
    { rewrite Hdr. unfold spec_first. cbn [sl_is_empty sl_ents sl_first]. destruct es; [congruence|reflexivity]. }
    assert (Hie : sl_is_empty (dread d) = false).
    { rewrite Hdr. unfold sl_is_empty. cbn [sl_ents]. destruct es; [congruence|reflexivity]. }
    rewrite Hfirst.
    assert (Hsd : spec_delete (dread d) mn mx =
              if (mx <? first) || (spec_last (dread d) <? mn) then Some (dread d)
              else if mn <=? first then
                     if spec_last (dread d) <=? mx then Some sl_empty
                     else Some {| sl_first := mx + 1; sl_ents := skipn (N.to_nat (mx + 1 - first)) es |}
                   else if spec_last (dread d) <=? mx
                        then Some {| sl_first := first; sl_ents := firstn (N.to_nat (mn - first)) es |}
                        else None).
    { unfold spec_delete. rewrite Emm, Hie. cbn [orb].
      assert (E1 : sl_first (dread d) = first) by (rewrite Hdr; reflexivity).
      assert (E2 : sl_ents (dread d) = es) by (rewrite Hdr; reflexivity).
      rewrite E1, E2. reflexivity. }
    destruct ((mx <? first) || (spec_last (dread d) <? mn)) eqn:E1.
    { apply Hnoop. rewrite Hsd. reflexivity. }
    destruct (mn <=? first) eqn:E2.
    + (* head truncation *)
      set (a1 := {| sp_log := slog_of (mx + 1) (skipn (N.to_nat (mx + 1 - first)) es); sp_kv := dk_stable d |}).
      assert (Ea1 : a' = a1).
      { unfold a'. rewrite Hspec, Hsd. unfold a1. destruct (spec_last (dread d) <=? mx) eqn:E3; cbn [snd]; f_equal.
        - rewrite skipn_all2; [reflexivity|]. unfold llen in *. lia.
        - symmetry. apply slog_of_cons. intros E. apply (f_equal (@length _)) in E. rewrite skipn_length in E.
          cbn in E. unfold llen in *. lia. }
      destruct (truncate_head_ok c (nb + 1) A w e S t f tw (mx + 1) Hc V Hf Hrot ltac:(lia) ltac:(lia) ltac:(lia))
        as (w' & e' & Htr & He' & HL' & Hs').
      * fold d first. intros _. lia.
      * left. exact Hsp.
      * fold d first es a1. right. symmetry. exact Ea1.
      * rewrite Htr. exists ROk, w', e'. split; [reflexivity|].
        split; [rewrite Hspec, Hsd; destruct (spec_last (dread d) <=? mx); reflexivity|].
        split; [exact HL'|]. split; [|exact He']. rewrite Hs'. fold d first es a1. symmetry. exact Ea1.
    + destruct (spec_last (dread d) <=? mx) eqn:E3.
      * (* tail truncation *)
        set (a1 := {| sp_log := slog_of first (firstn (N.to_nat (mn - 1 + 1 - first)) es); sp_kv := dk_stable d |}).
        assert (Ea1 : a' = a1).
        { unfold a'. rewrite Hspec, Hsd. unfold a1. cbn [snd]. f_equal.
          replace (mn - 1 + 1 - first) with (mn - first) by lia.
          symmetry. apply slog_of_cons. intros E. apply (f_equal (@length _)) in E. rewrite firstn_length in E.
          cbn in E. unfold llen in *. lia. }
        destruct (truncate_tail_ok c (nb + 1) A w e S t f tw (mn - 1) Hc V Hf Hrot ltac:(lia) ltac:(lia))
          as (w' & e' & Htr & He' & HL' & Hs').
        -- exact Ees.
        -- fold first. lia.
        -- lia.
        -- left. exact Hsp.
        -- fold d first es a1. right. symmetry. exact Ea1.
        -- rewrite Htr. exists ROk, w', e'. split; [reflexivity|].
           split; [rewrite Hspec, Hsd; reflexivity|].
           split; [exact HL'|]. split; [|exact He']. rewrite Hs'. fold d first es a1. symmetry. exact Ea1.
      * (* a range strictly inside the log *)
        exists RErrMiddle, w, e. split; [reflexivity|]. unfold a'. rewrite Hspec, Hsd. cbn [fst snd].
        split; [reflexivity|]. split; [exact HL1|]. split; [exact Hsp|exact He0].
Qed.

Lemma call_delete c mn mx : call_ok c (ODelete mn mx).
Proof.
  intros nb s a Hc Hmx Hnb HL Hf Hsp Hg. cbn [step_model]. cbn [sop_ok] in Hmx.
  destruct (settle_ok c nb s a Hc HL Hf Hsp ltac:(lia)) as (HL1 & Hr1 & Hs1 & He1).
  set (s1 := settle c s) in *.
  destruct (delete_range_ok c (nb + 1) (ss_wal s1) (ss_env s1) mn mx a Hc HL1 (ext_fault _ _ _ He1) Hr1 ltac:(lia) Hs1 Hmx)
    as (r & w' & e' & Hst & Hres & HL' & Hs' & He').
  rewrite Hst. exists r, {| ss_wal := w'; ss_env := e' |}. split; [reflexivity|]. cbn [ss_wal ss_env].
  replace (nb + 2) with (nb + 1 + 1) by lia.
  split; [exact Hres|]. split; [exact HL'|]. split; [exact Hs'|].
  eapply ext_trans; [|exact He'].
  eapply ext_mono; [|exact He1]. intros d HP. eapply DP_mono; [| |exact HP]; [lia|]. intros x Hx. left. congruence.
Qed.

(* ---- every call ---- *)
Theorem call_ok_all c o : call_ok c o.
Proof.
  destruct o.
  - apply call_store.
  - apply call_delete.
  - apply call_get.
  - apply call_first.
  - apply call_last.
  - apply call_set.
  - apply call_gets.
  - apply call_reopen.
Qed.

Theorem crash_refinement : crash_refinement_stmt.
Proof.
  intros c steps Hc Hwf Hshort.
  apply (crash_refinement_from_calls c (fun _ => True) steps Hc); auto.
  - intros o _. apply call_ok_all.
  - rewrite Forall_forall. intros st _. destruct st; exact I.
Qed.
