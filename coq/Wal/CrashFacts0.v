(* CrashFacts0.v -- finite-map facts about the abstract directory, small list
   and arithmetic facts used by the crash-invariant proofs. *)
From RW Require Import Base.Bytes Base.BytesFacts Fmt.Codec Fmt.Frame Wal.Model Wal.Spec Wal.Hist Wal.CrashInv Gen.Constants.
From Coq Require Import ZifyN ZifyNat ZifyBool.
Open Scope N_scope.

(* ---- names ---- *)
Lemma fname_eqb_eq a b : fname_eqb a b = true <-> a = b.
Proof.
  destruct a as [a1 a2], b as [b1 b2]; unfold fname_eqb; cbn [fst snd].
  rewrite andb_true_iff, !N.eqb_eq. split; [intros [-> ->]; reflexivity|intros H; inversion H; auto].
Qed.
Lemma fname_eqb_refl a : fname_eqb a a = true.
Proof. apply fname_eqb_eq; reflexivity. Qed.
Lemma fname_eqb_neq a b : fname_eqb a b = false <-> a <> b.
Proof.
  split; intros H.
  - intros E. apply fname_eqb_eq in E. congruence.
  - destruct (fname_eqb a b) eqn:E; [apply fname_eqb_eq in E; contradiction|reflexivity].
Qed.
Lemma fname_eqb_sym a b : fname_eqb a b = fname_eqb b a.
Proof.
  destruct (fname_eqb a b) eqn:E.
  - apply fname_eqb_eq in E; subst; symmetry; apply fname_eqb_refl.
  - apply fname_eqb_neq in E. symmetry. apply fname_eqb_neq. congruence.
Qed.

(* ---- llen ---- *)
Lemma llen_nil {A} : llen (@nil A) = 0. Proof. reflexivity. Qed.
Lemma llen_cons {A} (x : A) l : llen (x :: l) = llen l + 1.
Proof. unfold llen; cbn [length]; lia. Qed.
Lemma llen_app {A} (a b : list A) : llen (a ++ b) = llen a + llen b.
Proof. unfold llen; rewrite app_length; lia. Qed.
Lemma llen_0 {A} (l : list A) : llen l = 0 <-> l = [].
Proof. unfold llen; destruct l; cbn [length]; split; intros; try reflexivity; try discriminate; lia. Qed.
Lemma llen_pos {A} (l : list A) : l <> [] <-> 0 < llen l.
Proof. rewrite <- llen_0. lia. Qed.

(* ---- lookup / update / remove ---- *)
Lemma lookup_In n f fs : lookup n fs = Some f -> In (n, f) fs.
Proof.
  induction fs as [|[m g] r IH]; cbn [lookup]; [discriminate|].
  destruct (fname_eqb n m) eqn:E.
  - apply fname_eqb_eq in E; subst. intros H; inversion H; left; reflexivity.
  - intros H; right; auto.
Qed.
Lemma lookup_None n fs : lookup n fs = None <-> ~ In n (map fst fs).
Proof.
  induction fs as [|[m g] r IH]; cbn [lookup map fst In]; [tauto|].
  destruct (fname_eqb n m) eqn:E.
  - apply fname_eqb_eq in E; subst. split; [discriminate|intros H; exfalso; apply H; left; reflexivity].
  - apply fname_eqb_neq in E. rewrite IH. split; intros H; [intros [K|K]; [congruence|tauto]|tauto].
Qed.
Lemma In_lookup n f fs : NoDup (map fst fs) -> In (n, f) fs -> lookup n fs = Some f.
Proof.
  induction fs as [|[m g] r IH]; cbn [lookup map fst In]; [tauto|].
  intros ND [H|H].
  - inversion H; subst. rewrite fname_eqb_refl. reflexivity.
  - inversion ND as [|? ? Hn ND']; subst.
    destruct (fname_eqb n m) eqn:E.
    + apply fname_eqb_eq in E; subst. exfalso; apply Hn. apply in_map_iff. exists (m, f); auto.
    + auto.
Qed.

Lemma lookup_update_eq n f fs : lookup n (update n f fs) = Some f.
Proof.
  induction fs as [|[m g] r IH]; cbn [update lookup].
  - rewrite fname_eqb_refl; reflexivity.
  - destruct (fname_eqb n m) eqn:E; cbn [lookup]; [rewrite fname_eqb_refl; reflexivity|rewrite E; exact IH].
Qed.
Lemma lookup_update_neq n m f fs : n <> m -> lookup n (update m f fs) = lookup n fs.
Proof.
  intros Hne. induction fs as [|[k g] r IH]; cbn [update lookup].
  - apply fname_eqb_neq in Hne. rewrite Hne. reflexivity.
  - destruct (fname_eqb m k) eqn:E; cbn [lookup].
    + apply fname_eqb_eq in E; subst. apply fname_eqb_neq in Hne. rewrite Hne. reflexivity.
    + rewrite IH. reflexivity.
Qed.
Lemma lookup_update n m f fs :
  lookup n (update m f fs) = if fname_eqb n m then Some f else lookup n fs.
Proof.
  destruct (fname_eqb n m) eqn:E.
  - apply fname_eqb_eq in E; subst; apply lookup_update_eq.
  - apply fname_eqb_neq in E. apply lookup_update_neq; exact E.
Qed.
Lemma update_keys_in n f fs k : In k (map fst (update n f fs)) <-> k = n \/ In k (map fst fs).
Proof.
  induction fs as [|[m g] r IH]; cbn [update map fst In].
  - split; intros [H|H]; auto.
  - destruct (fname_eqb n m) eqn:E; cbn [map fst In].
    + apply fname_eqb_eq in E; subst. split; intros H; intuition.
    + rewrite IH. intuition.
Qed.
Lemma update_NoDup n f fs : NoDup (map fst fs) -> NoDup (map fst (update n f fs)).
Proof.
  induction fs as [|[m g] r IH]; cbn [update map fst]; intros ND.
  - constructor; [intros []|constructor].
  - inversion ND as [|? ? Hn ND']; subst.
    destruct (fname_eqb n m) eqn:E; cbn [map fst].
    + apply fname_eqb_eq in E; subst. constructor; assumption.
    + constructor; [|auto]. rewrite update_keys_in. apply fname_eqb_neq in E. intros [K|K]; [congruence|contradiction].
Qed.

Lemma remove_keys_in n fs k : In k (map fst (remove n fs)) -> In k (map fst fs).
Proof.
  induction fs as [|[m g] r IH]; cbn [remove map fst In]; [tauto|].
  destruct (fname_eqb n m); cbn [map fst In]; intuition.
Qed.
Lemma remove_NoDup n fs : NoDup (map fst fs) -> NoDup (map fst (remove n fs)).
Proof.
  induction fs as [|[m g] r IH]; cbn [remove map fst]; intros ND; [constructor|].
  inversion ND as [|? ? Hn ND']; subst.
  destruct (fname_eqb n m); cbn [map fst]; [assumption|].
  constructor; [|auto]. intros K; apply Hn. eapply remove_keys_in; eauto.
Qed.
Lemma lookup_remove_eq n fs : NoDup (map fst fs) -> lookup n (remove n fs) = None.
Proof.
  induction fs as [|[m g] r IH]; cbn [remove lookup map fst]; intros ND; [reflexivity|].
  inversion ND as [|? ? Hn ND']; subst.
  destruct (fname_eqb n m) eqn:E.
  - apply fname_eqb_eq in E; subst. apply lookup_None. exact Hn.
  - cbn [lookup]. rewrite E. auto.
Qed.
Lemma lookup_remove_neq n m fs : n <> m -> lookup n (remove m fs) = lookup n fs.
Proof.
  intros Hne. induction fs as [|[k g] r IH]; cbn [remove lookup]; [reflexivity|].
  destruct (fname_eqb m k) eqn:E; cbn [lookup].
  - apply fname_eqb_eq in E; subst. apply fname_eqb_neq in Hne. rewrite Hne. reflexivity.
  - rewrite IH. reflexivity.
Qed.
Lemma lookup_remove n m fs : NoDup (map fst fs) ->
  lookup n (remove m fs) = if fname_eqb n m then None else lookup n fs.
Proof.
  intros ND. destruct (fname_eqb n m) eqn:E.
  - apply fname_eqb_eq in E; subst; apply lookup_remove_eq; exact ND.
  - apply fname_eqb_neq in E. apply lookup_remove_neq; exact E.
Qed.

(* ---- unpend ---- *)
Lemma lookup_unpend n d :
  lookup n (dk_files (unpend d)) = option_map unpend_file (lookup n (dk_files d)).
Proof.
  unfold unpend; cbn [dk_files]. induction (dk_files d) as [|[m g] r IH]; cbn [map lookup fst snd option_map]; [reflexivity|].
  destruct (fname_eqb n m); [reflexivity|exact IH].
Qed.
Lemma unpend_keys d : map fst (dk_files (unpend d)) = map fst (dk_files d).
Proof. unfold unpend; cbn [dk_files]. rewrite map_map. reflexivity. Qed.

(* ---- crash ---- *)
Definition crashed_file (keep : bool) (f : dfile) : dfile :=
  match df_pend f with
  | Some b => if keep
              then {| df_ents := df_ents f ++ pb_ents b; df_end := pb_end b; df_seal := pb_seal b;
                      df_pend := None; df_dir := true; df_size := df_size f |}
              else {| df_ents := df_ents f; df_end := df_end f; df_seal := df_seal f;
                      df_pend := None; df_dir := true; df_size := df_size f |}
  | None => {| df_ents := df_ents f; df_end := df_end f; df_seal := df_seal f;
               df_pend := None; df_dir := true; df_size := df_size f |}
  end.

Lemma crash_file_eq cc n f :
  crash_file cc (n, f) =
  if negb (df_dir f) && negb (mem_name n (cc_keep_file cc)) then []
  else [(n, crashed_file (mem_name n (cc_keep_batch cc)) f)].
Proof.
  unfold crash_file, crashed_file.
  destruct (negb (df_dir f) && negb (mem_name n (cc_keep_file cc))); [reflexivity|].
  destruct (df_pend f); [destruct (mem_name n (cc_keep_batch cc))|]; reflexivity.
Qed.

Lemma crash_keys_in cc fs k : In k (map fst (flat_map (crash_file cc) fs)) -> In k (map fst fs).
Proof.
  induction fs as [|[m g] r IH]; cbn [flat_map map fst In]; [tauto|].
  rewrite crash_file_eq. destruct (negb (df_dir g) && negb (mem_name m (cc_keep_file cc))); cbn [app map fst In]; intuition.
Qed.
Lemma crash_NoDup cc fs : NoDup (map fst fs) -> NoDup (map fst (flat_map (crash_file cc) fs)).
Proof.
  induction fs as [|[m g] r IH]; cbn [flat_map map fst]; intros ND; [constructor|].
  inversion ND as [|? ? Hn ND']; subst.
  rewrite crash_file_eq. destruct (negb (df_dir g) && negb (mem_name m (cc_keep_file cc))); cbn [app map fst]; [auto|].
  constructor; [|auto]. intros K; apply Hn. eapply crash_keys_in; eauto.
Qed.
Lemma lookup_crash cc n fs : NoDup (map fst fs) ->
  lookup n (flat_map (crash_file cc) fs) =
  match lookup n fs with
  | None => None
  | Some f => if negb (df_dir f) && negb (mem_name n (cc_keep_file cc)) then None
              else Some (crashed_file (mem_name n (cc_keep_batch cc)) f)
  end.
Proof.
  induction fs as [|[m g] r IH]; cbn [flat_map lookup map fst]; intros ND; [reflexivity|].
  inversion ND as [|? ? Hn ND']; subst.
  rewrite crash_file_eq.
  destruct (fname_eqb n m) eqn:E.
  - apply fname_eqb_eq in E; subst.
    destruct (negb (df_dir g) && negb (mem_name m (cc_keep_file cc))); cbn [app lookup].
    + apply lookup_None. intros K; apply Hn. eapply crash_keys_in; eauto.
    + rewrite fname_eqb_refl. reflexivity.
  - destruct (negb (df_dir g) && negb (mem_name m (cc_keep_file cc))); cbn [app lookup]; [|rewrite E]; auto.
Qed.

(* ---- segment lists ---- *)
Lemma tail_info_app S t : tail_info (S ++ [t]) = Some t.
Proof. unfold tail_info. rewrite map_app. cbn [map]. apply last_last. Qed.
Lemma tail_info_nil : tail_info [] = None.
Proof. reflexivity. Qed.

Lemma name_of_eq s s' : si_base s = si_base s' -> si_id s = si_id s' -> name_of s = name_of s'.
Proof. unfold name_of; intros -> ->; reflexivity. Qed.
