(* Copy.v -- executable model of migrate.CopyLogs / migrate.CopyStable
   (/repo/migrate/migrate.go, with the empty-source early return of f32c8ec).

   Stores are abstract: a LogStore is the contiguous-log spec {first; entries}
   (DESIGN.md C05 spec), a StableStore is a pair of finite maps.  The context is
   a counter: ctx.Err() is non-nil from the k-th loop check on.  Injected I/O
   faults (a GetLog index that fails, the k-th StoreLogs that fails) let the
   model take every return path of the code.  The deferred close(progress) is
   the explicit flag [r_closed], set by [run_deferred] on every return path.
   Model only; theorems are in CopyFacts.v. *)
From RW Require Import Base.Bytes.
Open Scope N_scope.

(* raft.Log projected: AppendedAt is the instant (seconds, nanoseconds) *)
Record entry := { e_index : N; e_term : N; e_type : N;
                  e_data : bytes; e_ext : bytes; e_sec : Z; e_nsec : Z }.

(* ---- contiguous-log store spec ------------------------------------------- *)
Record lstore := { ls_first : N; ls_ents : list entry }.

Definition empty_store : lstore := {| ls_first := 0; ls_ents := [] |}.

Definition ls_len (s : lstore) : N := N.of_nat (length (ls_ents s)).

Definition first_index (s : lstore) : N :=
  match ls_ents s with [] => 0 | _ => ls_first s end.
Definition last_index (s : lstore) : N :=
  match ls_ents s with [] => 0 | _ => ls_first s + ls_len s - 1 end.

Definition get_log (s : lstore) (idx : N) : option entry :=
  if idx <? ls_first s then None
  else nth_error (ls_ents s) (N.to_nat (idx - ls_first s)).

(* batch is consecutive starting at index i *)
Fixpoint consecutive_from (i : N) (b : list entry) : bool :=
  match b with
  | [] => true
  | e :: r => (e_index e =? i) && consecutive_from (i + 1) r
  end.

(* StoreLogs of the spec: an empty log accepts any first index, a non-empty
   one only last+1; the batch must be consecutive.  None = rejected. *)
Definition store_logs (s : lstore) (b : list entry) : option lstore :=
  match b with
  | [] => Some s
  | e :: _ =>
      match ls_ents s with
      | [] => if consecutive_from (e_index e) b
              then Some {| ls_first := e_index e; ls_ents := b |} else None
      | _ => if (e_index e =? last_index s + 1) && consecutive_from (e_index e) b
             then Some {| ls_first := ls_first s; ls_ents := ls_ents s ++ b |} else None
      end
  end.

(* ---- environment: cancellation and injected faults ------------------------ *)
Record env := { cancel_at : option nat;   (* ctx.Err() <> nil from this check on *)
                get_fail : option N;      (* src.GetLog of this index fails      *)
                store_fail : option nat;  (* the k-th dst.StoreLogs call fails   *)
                first_fail : bool;        (* src.FirstIndex() returns an error (e.g. a closed WAL) *)
                last_fail : bool;         (* src.LastIndex() returns an error    *)
                has_progress : bool }.    (* progress channel is non-nil         *)

Definition no_faults (p : bool) : env :=
  {| cancel_at := None; get_fail := None; store_fail := None;
     first_fail := false; last_fail := false; has_progress := p |}.

Definition cancelled (ev : env) (chk : nat) : bool :=
  match cancel_at ev with Some k => Nat.leb k chk | None => false end.

Definition src_get (ev : env) (src : lstore) (idx : N) : option entry :=
  match get_fail ev with
  | Some f => if f =? idx then None else get_log src idx
  | None => get_log src idx
  end.

Definition dst_store (ev : env) (ncall : nat) (dst : lstore) (b : list entry) : option lstore :=
  match store_fail ev with
  | Some k => if Nat.eqb k ncall then None else store_logs dst b
  | None => store_logs dst b
  end.

(* ---- CopyLogs -------------------------------------------------------------- *)
Inductive cres := COk | CCanceled | CErrFirst | CErrLast | CErrGet | CErrStore | COutOfFuel.

(* what the function has done when it reaches a return statement *)
Record cout := { o_res : cres;
                 o_dst : lstore;
                 o_batches : list (list entry);  (* StoreLogs calls accepted, newest first *)
                 o_gets : N }.                   (* GetLog calls issued *)

Record cresult := { r_res : cres; r_dst : lstore; r_batches : list (list entry);
                    r_gets : N; r_closed : bool }.

(* `defer func() { if progress != nil { close(progress) } }()` *)
Definition run_deferred (ev : env) (o : cout) : cresult :=
  {| r_res := o_res o; r_dst := o_dst o; r_batches := rev (o_batches o);
     r_gets := o_gets o; r_closed := has_progress ev |}.

Definition ret (r : cres) (dst : lstore) (bs : list (list entry)) (g : N) : cout :=
  {| o_res := r; o_dst := dst; o_batches := bs; o_gets := g |}.

(* flush: dst.StoreLogs(batch); the batch slice is kept newest-first here *)
Definition flush (ev : env) (dst : lstore) (bs : list (list entry)) (batch_rev : list entry)
  : option (lstore * list (list entry)) :=
  let b := rev_append batch_rev [] in
  match dst_store ev (length bs) dst b with
  | Some d => Some (d, b :: bs)
  | None => None
  end.

(* for idx := first; idx <= last; idx++ { ... }  -- idx wraps like a uint64;
   fuel bounds the iterations (the theorems show it is never exhausted) *)
Fixpoint copy_loop (fuel : nat) (ev : env) (src : lstore) (bb : Z) (last : N)
         (idx : N) (chk : nat) (batch_rev : list entry) (bsize : Z)
         (dst : lstore) (bs : list (list entry)) (g : N) : cout :=
  match fuel with
  | O => ret COutOfFuel dst bs g
  | S f =>
      if last <? idx then
        (* loop exit: if len(batch) > 0 { flush } *)
        match batch_rev with
        | [] => ret COk dst bs g
        | _ => match flush ev dst bs batch_rev with
               | Some (d, bs') => ret COk d bs' g
               | None => ret CErrStore dst bs g
               end
        end
      else if cancelled ev chk then ret CCanceled dst bs g
      else
        match src_get ev src idx with
        | None => ret CErrGet dst bs (g + 1)
        | Some e =>
            let batch' := e :: batch_rev in
            let bsize' := (bsize + Z.of_N (len (e_data e)) + 32)%Z in
            let idx' := (idx + 1) mod two64 in
            if (bb <=? bsize')%Z then
              match flush ev dst bs batch' with
              | Some (d, bs') => copy_loop f ev src bb last idx' (S chk) [] 0%Z d bs' (g + 1)
              | None => ret CErrStore dst bs (g + 1)
              end
            else copy_loop f ev src bb last idx' (S chk) batch' bsize' dst bs (g + 1)
        end
  end.

(* after both index lookups succeeded *)
Definition copy_logs_core (ev : env) (bb : Z) (src dst : lstore) : cout :=
  let first := first_index src in
  let last := last_index src in
  if (first =? 0) && (last =? 0) then ret COk dst [] 0      (* f32c8ec: empty source *)
  else copy_loop (S (S (length (ls_ents src)))) ev src bb last first 0 [] 0%Z dst [] 0.

(* the body runs with the deferred close already installed: the two index
   lookups and their error returns come AFTER the `defer` in the code *)
Definition copy_logs_body (ev : env) (bb : Z) (src dst : lstore) : cout :=
  if first_fail ev then ret CErrFirst dst [] 0        (* "failed getting first index" *)
  else if last_fail ev then ret CErrLast dst [] 0     (* "failed getting last index"  *)
  else copy_logs_core ev bb src dst.

Definition copy_logs (ev : env) (bb : Z) (src dst : lstore) : cresult :=
  run_deferred ev (copy_logs_body ev bb src dst).

(* well-formed source: a contiguous log as every LogStore holds it; raft
   indexes start at 1; the uint64 loop variable must be able to pass `last` *)
Fixpoint indexed_from (i : N) (l : list entry) : Prop :=
  match l with
  | [] => True
  | e :: r => e_index e = i /\ indexed_from (i + 1) r
  end.

Definition wf_store (s : lstore) : Prop :=
  indexed_from (ls_first s) (ls_ents s) /\
  (ls_ents s <> [] -> 1 <= ls_first s) /\
  ls_first s + ls_len s < two64.

Fixpoint indexed_fromb (i : N) (l : list entry) : bool :=
  match l with
  | [] => true
  | e :: r => (e_index e =? i) && indexed_fromb (i + 1) r
  end.
Definition wf_storeb (s : lstore) : bool :=
  indexed_fromb (ls_first s) (ls_ents s) &&
  (match ls_ents s with [] => true | _ => 1 <=? ls_first s end) &&
  (ls_first s + ls_len s <? two64).

(* ---- CopyStable ------------------------------------------------------------ *)
(* A StableStore: byte-valued and uint64-valued keys (two key spaces, as the
   code assumes nothing more).  Lookup finds the newest binding. *)
Record sstore := { s_kv : list (bytes * bytes); s_int : list (bytes * N) }.

Definition empty_sstore : sstore := {| s_kv := []; s_int := [] |}.

Fixpoint lookup {V : Type} (k : bytes) (m : list (bytes * V)) : option V :=
  match m with
  | [] => None
  | (k', v) :: r => if beq_bytes k k' then Some v else lookup k r
  end.

Definition s_get (s : sstore) (k : bytes) : option bytes := lookup k (s_kv s).
Definition s_get_int (s : sstore) (k : bytes) : option N := lookup k (s_int s).
Definition s_set (s : sstore) (k v : bytes) : sstore :=
  {| s_kv := (k, v) :: s_kv s; s_int := s_int s |}.
Definition s_set_int (s : sstore) (k : bytes) (v : N) : sstore :=
  {| s_kv := s_kv s; s_int := (k, v) :: s_int s |}.

(* what the source store does for a key that was never set: raft.InmemStore
   fails Get but returns 0 from GetUint64; raft-boltdb fails both; the WAL
   returns (nil, nil) and (0, nil) *)
Record miss_policy := { miss_get_err : bool; miss_int_err : bool }.

Inductive sres := SOk | SCanceled | SErrGet.

(* "CurrentTerm", "LastVoteTerm", "LastVoteCand" *)
Definition k_current_term : bytes := [67;117;114;114;101;110;116;84;101;114;109].
Definition k_last_vote_term : bytes := [76;97;115;116;86;111;116;101;84;101;114;109].
Definition k_last_vote_cand : bytes := [76;97;115;116;86;111;116;101;67;97;110;100].
Definition known_int_keys : list bytes := [k_current_term; k_last_vote_term].
Definition known_keys : list bytes := [k_last_vote_cand].

Record sout := { so_res : sres; so_dst : sstore; so_chk : nat }.

Fixpoint copy_int_keys (pol : miss_policy) (cancel : option nat) (src : sstore)
         (ks : list bytes) (chk : nat) (dst : sstore) : sout :=
  match ks with
  | [] => {| so_res := SOk; so_dst := dst; so_chk := chk |}
  | k :: r =>
      if match cancel with Some c => Nat.leb c chk | None => false end
      then {| so_res := SCanceled; so_dst := dst; so_chk := chk |}
      else match s_get_int src k with
           | Some v => copy_int_keys pol cancel src r (S chk) (s_set_int dst k v)
           | None => if miss_int_err pol
                     then {| so_res := SErrGet; so_dst := dst; so_chk := chk |}
                     else copy_int_keys pol cancel src r (S chk) (s_set_int dst k 0)
           end
  end.

Fixpoint copy_keys (pol : miss_policy) (cancel : option nat) (src : sstore)
         (ks : list bytes) (chk : nat) (dst : sstore) : sout :=
  match ks with
  | [] => {| so_res := SOk; so_dst := dst; so_chk := chk |}
  | k :: r =>
      if match cancel with Some c => Nat.leb c chk | None => false end
      then {| so_res := SCanceled; so_dst := dst; so_chk := chk |}
      else match s_get src k with
           | Some v => copy_keys pol cancel src r (S chk) (s_set dst k v)
           | None => if miss_get_err pol
                     then {| so_res := SErrGet; so_dst := dst; so_chk := chk |}
                     else copy_keys pol cancel src r (S chk) (s_set dst k [])
           end
  end.

Record sresult := { sr_res : sres; sr_dst : sstore; sr_closed : bool }.

Definition copy_stable (pol : miss_policy) (cancel : option nat) (progress : bool)
           (src dst : sstore) (extra extra_int : list bytes) : sresult :=
  let o1 := copy_int_keys pol cancel src (known_int_keys ++ extra_int) 0 dst in
  let o := match so_res o1 with
           | SOk => copy_keys pol cancel src (known_keys ++ extra) (so_chk o1) (so_dst o1)
           | _ => o1
           end in
  (* deferred close(progress) *)
  {| sr_res := so_res o; sr_dst := so_dst o; sr_closed := progress |}.
