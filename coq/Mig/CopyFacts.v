(* CopyFacts.v -- proofs about the migration model (C19). *)
From Coq Require Import ZifyN ZifyNat ZifyBool.
From RW Require Import Base.Bytes Mig.Copy.
Open Scope N_scope.

(* ---- the loop over indexes equals a structural loop over the entries ------ *)
Definition final_flush (ev : env) (batch_rev : list entry) (dst : lstore)
           (bs : list (list entry)) (g : N) : cout :=
  match batch_rev with
  | [] => ret COk dst bs g
  | _ => match flush ev dst bs batch_rev with
         | Some (d, bs') => ret COk d bs' g
         | None => ret CErrStore dst bs g
         end
  end.

Definition get_fails (ev : env) (e : entry) : bool :=
  match get_fail ev with Some f => f =? e_index e | None => false end.

Fixpoint copy_list (ev : env) (bb : Z) (rest : list entry) (chk : nat)
         (batch_rev : list entry) (bsize : Z) (dst : lstore) (bs : list (list entry)) (g : N) : cout :=
  match rest with
  | [] => final_flush ev batch_rev dst bs g
  | e :: r =>
      if cancelled ev chk then ret CCanceled dst bs g
      else if get_fails ev e then ret CErrGet dst bs (g + 1)
      else
        let batch' := e :: batch_rev in
        let bsize' := (bsize + Z.of_N (len (e_data e)) + 32)%Z in
        if (bb <=? bsize')%Z then
          match flush ev dst bs batch' with
          | Some (d, bs') => copy_list ev bb r (S chk) [] 0%Z d bs' (g + 1)
          | None => ret CErrStore dst bs (g + 1)
          end
        else copy_list ev bb r (S chk) batch' bsize' dst bs (g + 1)
  end.

Lemma indexed_from_app : forall a i b,
  indexed_from i (a ++ b) <-> indexed_from i a /\ indexed_from (i + N.of_nat (length a)) b.
Proof.
  induction a as [|x a IH]; intros i b; cbn [app indexed_from length].
  - replace (i + N.of_nat 0) with i by lia. tauto.
  - rewrite IH. replace (i + 1 + N.of_nat (length a)) with (i + N.of_nat (S (length a))) by lia. tauto.
Qed.

Lemma indexed_fromb_spec : forall l i, indexed_fromb i l = true <-> indexed_from i l.
Proof.
  induction l as [|e l IH]; intros i; cbn [indexed_fromb indexed_from].
  - tauto.
  - rewrite andb_true_iff, IH, N.eqb_eq. tauto.
Qed.

Lemma wf_storeb_spec : forall s, wf_storeb s = true <-> wf_store s.
Proof.
  intros s. unfold wf_storeb, wf_store.
  rewrite !andb_true_iff, indexed_fromb_spec, N.ltb_lt.
  destruct (ls_ents s) as [|e l] eqn:E.
  - split.
    + intros [[H1 _] H3]. split; [exact H1|]. split; [congruence|exact H3].
    + intros (H1 & _ & H3). auto.
  - rewrite N.leb_le. split.
    + intros [[H1 H2] H3]. split; [exact H1|]. split; [intros _; exact H2|exact H3].
    + intros (H1 & H2 & H3). split; [split|]; auto. apply H2. discriminate.
Qed.

Lemma nth_error_mid : forall (A : Type) (a : list A) e b, nth_error (a ++ e :: b) (length a) = Some e.
Proof. induction a as [|x a IH]; intros; cbn; auto. Qed.

Lemma loop_eq_list : forall rest fuel ev src bb last idx chk batch_rev bsize dst bs g done,
  ls_ents src = done ++ rest ->
  indexed_from (ls_first src) (ls_ents src) ->
  ls_ents src <> [] ->
  idx = ls_first src + N.of_nat (length done) ->
  last = ls_first src + ls_len src - 1 ->
  ls_first src + ls_len src < two64 ->
  (length rest < fuel)%nat ->
  copy_loop fuel ev src bb last idx chk batch_rev bsize dst bs g
  = copy_list ev bb rest chk batch_rev bsize dst bs g.
Proof.
  induction rest as [|e r IH]; intros fuel ev src bb last idx chk batch_rev bsize dst bs g done
    Hsplit Hidx Hne Hi Hlast Hlt Hfuel;
    (destruct fuel as [|f]; [cbn in Hfuel; lia|]); cbn [copy_loop copy_list].
  - assert (Hlen : ls_len src = N.of_nat (length done)).
    { unfold ls_len. rewrite Hsplit, app_nil_r. reflexivity. }
    assert (Hpos : 0 < ls_len src).
    { unfold ls_len. destruct (ls_ents src); [congruence|cbn; lia]. }
    replace (last <? idx) with true by (symmetry; apply N.ltb_lt; lia).
    reflexivity.
  - assert (Hlen : ls_len src = N.of_nat (length done) + N.of_nat (S (length r))).
    { unfold ls_len. rewrite Hsplit, app_length. cbn [length]. lia. }
    replace (last <? idx) with false by (symmetry; apply N.ltb_ge; lia).
    destruct (cancelled ev chk); [reflexivity|].
    assert (Hget : get_log src idx = Some e).
    { unfold get_log. replace (idx <? ls_first src) with false by (symmetry; apply N.ltb_ge; lia).
      replace (N.to_nat (idx - ls_first src)) with (length done) by lia.
      rewrite Hsplit. apply nth_error_mid. }
    assert (He : e_index e = idx).
    { rewrite Hsplit in Hidx. apply indexed_from_app in Hidx. destruct Hidx as [_ Hidx].
      cbn [indexed_from] in Hidx. lia. }
    unfold src_get, get_fails. rewrite Hget, He.
    assert (Hmod : (idx + 1) mod two64 = idx + 1).
    { apply N.mod_small. lia. }
    rewrite Hmod.
    assert (Hrec : forall chk' batch' bsize' dst' bs' g',
               copy_loop f ev src bb last (idx + 1) chk' batch' bsize' dst' bs' g'
               = copy_list ev bb r chk' batch' bsize' dst' bs' g').
    { intros. apply (IH f ev src bb last (idx + 1) chk' batch' bsize' dst' bs' g' (done ++ [e])); auto.
      - rewrite <- app_assoc. exact Hsplit.
      - rewrite app_length. cbn [length]. lia.
      - cbn [length] in Hfuel. lia. }
    destruct (get_fail ev) as [fl|].
    + destruct (fl =? idx); [reflexivity|].
      destruct (bb <=? bsize + Z.of_N (len (e_data e)) + 32)%Z.
      * destruct (flush ev dst bs (e :: batch_rev)) as [[d bs']|]; [apply Hrec|reflexivity].
      * apply Hrec.
    + destruct (bb <=? bsize + Z.of_N (len (e_data e)) + 32)%Z.
      * destruct (flush ev dst bs (e :: batch_rev)) as [[d bs']|]; [apply Hrec|reflexivity].
      * apply Hrec.
Qed.

(* ---- acceptance of a batch by the contiguous-log spec --------------------- *)
Fixpoint replay (d : lstore) (bs : list (list entry)) : option lstore :=
  match bs with
  | [] => Some d
  | b :: r => match store_logs d b with Some d' => replay d' r | None => None end
  end.

Lemma replay_app : forall bs d b d',
  replay d bs = Some d' -> replay d (bs ++ [b]) = store_logs d' b.
Proof.
  induction bs as [|x bs IH]; intros d b d' H; cbn [replay app] in *.
  - injection H as <-. destruct (store_logs d b); reflexivity.
  - destruct (store_logs d x) as [d1|]; [|discriminate]. eapply IH; eauto.
Qed.

Lemma consecutive_indexed : forall b i, indexed_from i b -> consecutive_from i b = true.
Proof.
  induction b as [|e b IH]; intros i H; cbn [consecutive_from indexed_from] in *; auto.
  destruct H as [H1 H2]. rewrite IH by auto. rewrite (proj2 (N.eqb_eq _ _) H1). reflexivity.
Qed.

Lemma indexed_consecutive : forall b i, consecutive_from i b = true -> indexed_from i b.
Proof.
  induction b as [|e b IH]; intros i H; cbn [consecutive_from indexed_from] in *; auto.
  apply andb_true_iff in H. destruct H as [H1 H2]. apply N.eqb_eq in H1. auto.
Qed.

(* a batch is acceptable to a contiguous-log destination *)
Definition batch_ok (d : lstore) (b : list entry) : Prop :=
  match b with
  | [] => False
  | e :: _ => indexed_from (e_index e) b /\
              (ls_ents d = [] \/ e_index e = last_index d + 1)
  end.

Lemma store_logs_accepts : forall d b,
  b <> [] -> (batch_ok d b <-> exists d', store_logs d b = Some d').
Proof.
  intros d [|e b] Hne; [congruence|]. unfold batch_ok, store_logs.
  destruct (ls_ents d) as [|x l] eqn:E.
  - split.
    + intros [H _]. rewrite (consecutive_indexed _ _ H). eauto.
    + intros [d' H]. destruct (consecutive_from (e_index e) (e :: b)) eqn:C; [|discriminate].
      split; [apply indexed_consecutive; auto|auto].
  - split.
    + intros [H [H'|H']]; [discriminate|]. rewrite (consecutive_indexed _ _ H).
      rewrite (proj2 (N.eqb_eq _ _) H'). cbn. eauto.
    + intros [d' H].
      destruct ((e_index e =? last_index d + 1) && consecutive_from (e_index e) (e :: b)) eqn:C; [|discriminate].
      apply andb_true_iff in C. destruct C as [C1 C2]. apply N.eqb_eq in C1.
      split; [apply indexed_consecutive; auto|auto].
Qed.

(* every batch of a successful replay was acceptable when it was stored *)
Fixpoint all_batches_ok (d : lstore) (bs : list (list entry)) : Prop :=
  match bs with
  | [] => True
  | b :: r => batch_ok d b /\
              match store_logs d b with Some d' => all_batches_ok d' r | None => False end
  end.

Lemma replay_batches_ok : forall bs d d',
  replay d bs = Some d' -> Forall (fun b => b <> []) bs -> all_batches_ok d bs.
Proof.
  induction bs as [|b bs IH]; intros d d' H HF; cbn [replay all_batches_ok] in *; auto.
  inversion HF as [|? ? Hb HF']; subst.
  destruct (store_logs d b) as [d1|] eqn:S; [|discriminate].
  split; [apply store_logs_accepts; eauto|eauto].
Qed.

(* ---- the main invariant ---------------------------------------------------- *)
Lemma rev_append_rev' : forall (l : list entry), rev_append l [] = rev l.
Proof. intros. rewrite rev_append_rev, app_nil_r. reflexivity. Qed.

Lemma firstn_app_exact : forall (A : Type) (a b : list A), firstn (length a) (a ++ b) = a.
Proof.
  intros. rewrite firstn_app, Nat.sub_diag, firstn_all. cbn. apply app_nil_r.
Qed.

(* storing the next segment of [all] into a destination holding a prefix *)
Lemma store_next_segment : forall first all dst seg rest,
  indexed_from first all ->
  all = ls_ents dst ++ seg ++ rest ->
  (ls_ents dst <> [] -> ls_first dst = first) ->
  seg <> [] ->
  exists d, store_logs dst seg = Some d /\ ls_ents d = ls_ents dst ++ seg /\ ls_first d = first.
Proof.
  intros first all dst seg rest Hidx Hall Hfirst Hne.
  destruct seg as [|e seg]; [congruence|].
  rewrite Hall in Hidx. apply indexed_from_app in Hidx. destruct Hidx as [Hd Hs].
  apply indexed_from_app in Hs. destruct Hs as [Hs _].
  assert (He : e_index e = first + N.of_nat (length (ls_ents dst))) by (cbn [indexed_from] in Hs; tauto).
  unfold store_logs. rewrite <- He in Hs. rewrite (consecutive_indexed _ _ Hs).
  destruct (ls_ents dst) as [|x l] eqn:E.
  - eexists. split; [reflexivity|]. cbn. split; [reflexivity|]. cbn in He. lia.
  - assert (Hf : ls_first dst = first) by (apply Hfirst; discriminate).
    assert (Hl : e_index e = last_index dst + 1).
    { unfold last_index, ls_len. rewrite E, Hf, He. cbn [length]. lia. }
    rewrite (proj2 (N.eqb_eq _ _) Hl). cbn [andb].
    eexists. split; [reflexivity|]. cbn. auto.
Qed.

Record inv_concl (ev : env) (first : N) (all : list entry) (nrest : nat) (g : N) (out : cout) : Prop :=
  { ic_prefix : exists n, ls_ents (o_dst out) = firstn n all;
    ic_first : ls_ents (o_dst out) <> [] -> ls_first (o_dst out) = first;
    ic_replay : replay empty_store (rev (o_batches out)) = Some (o_dst out);
    ic_nonempty : Forall (fun b => b <> []) (o_batches out);
    ic_ok : o_res out = COk -> ls_ents (o_dst out) = all /\ o_gets out = g + N.of_nat nrest;
    ic_nofuel : o_res out <> COutOfFuel;
    ic_nofirst : o_res out <> CErrFirst;
    ic_nolast : o_res out <> CErrLast;
    ic_nostore : store_fail ev = None -> o_res out <> CErrStore;
    ic_noget : get_fail ev = None -> o_res out <> CErrGet;
    ic_nocancel : cancel_at ev = None -> o_res out <> CCanceled }.

Lemma flush_spec : forall ev first all dst bs batch_rev rest,
  indexed_from first all ->
  all = ls_ents dst ++ rev batch_rev ++ rest ->
  (ls_ents dst <> [] -> ls_first dst = first) ->
  replay empty_store (rev bs) = Some dst ->
  batch_rev <> [] ->
  match flush ev dst bs batch_rev with
  | Some (d, bs') => ls_ents d = ls_ents dst ++ rev batch_rev /\ ls_first d = first /\
                     replay empty_store (rev bs') = Some d /\ bs' = rev batch_rev :: bs
  | None => store_fail ev <> None
  end.
Proof.
  intros ev first all dst bs batch_rev rest Hidx Hall Hfirst Hrep Hne.
  unfold flush. rewrite rev_append_rev'.
  assert (Hne' : rev batch_rev <> []).
  { intros H. apply Hne. rewrite <- (rev_involutive batch_rev), H. reflexivity. }
  destruct (store_next_segment first all dst (rev batch_rev) rest Hidx Hall Hfirst Hne')
    as (d & Hs & He & Hf).
  unfold dst_store. destruct (store_fail ev) as [k|].
  - destruct (Nat.eqb k (length bs)); [discriminate|].
    rewrite Hs. repeat split; auto. cbn [rev]. rewrite (replay_app _ _ _ _ Hrep). exact Hs.
  - rewrite Hs. repeat split; auto. cbn [rev]. rewrite (replay_app _ _ _ _ Hrep). exact Hs.
Qed.

Lemma copy_list_inv : forall rest ev bb first all chk batch_rev bsize dst bs g,
  indexed_from first all ->
  all = ls_ents dst ++ rev batch_rev ++ rest ->
  (ls_ents dst <> [] -> ls_first dst = first) ->
  replay empty_store (rev bs) = Some dst ->
  Forall (fun b => b <> []) bs ->
  inv_concl ev first all (length rest) g (copy_list ev bb rest chk batch_rev bsize dst bs g).
Proof.
  induction rest as [|e r IH]; intros ev bb first all chk batch_rev bsize dst bs g
    Hidx Hall Hfirst Hrep Hbs; cbn [copy_list].
  - (* loop exit *)
    unfold final_flush. destruct batch_rev as [|x br] eqn:EB.
    + cbn [rev app] in Hall. rewrite app_nil_r in Hall.
      constructor; cbn; auto; try discriminate.
      * exists (length all). rewrite firstn_all. congruence.
      * intros _. split; [congruence|lia].
    + pose proof (flush_spec ev first all dst bs (x :: br) [] Hidx Hall Hfirst Hrep) as HF.
      destruct (flush ev dst bs (x :: br)) as [[d bs']|].
      * destruct HF as (He & Hf & Hr & Hb); [discriminate|].
        rewrite app_nil_r in Hall.
        constructor; cbn; auto; try discriminate.
        -- exists (length all). rewrite firstn_all. congruence.
        -- subst bs'. constructor; auto. cbn [rev]. intros H. apply app_eq_nil in H. destruct H; discriminate.
        -- intros _. split; [congruence|lia].
      * constructor; cbn; auto; try discriminate.
        -- exists (length (ls_ents dst)). rewrite Hall. symmetry. apply firstn_app_exact.
        -- intros H. exfalso. apply HF; [discriminate|exact H].
  - destruct (cancelled ev chk) eqn:EC.
    { constructor; cbn; auto; try discriminate.
      - exists (length (ls_ents dst)). rewrite Hall. symmetry. apply firstn_app_exact.
      - intros H. unfold cancelled in EC. rewrite H in EC. discriminate. }
    destruct (get_fails ev e) eqn:EG.
    { constructor; cbn; auto; try discriminate.
      - exists (length (ls_ents dst)). rewrite Hall. symmetry. apply firstn_app_exact.
      - intros H. unfold get_fails in EG. rewrite H in EG. discriminate. }
    assert (Hall' : all = ls_ents dst ++ rev (e :: batch_rev) ++ r).
    { cbn [rev]. rewrite <- app_assoc. exact Hall. }
    assert (Hcount : forall out, inv_concl ev first all (length r) (g + 1) out ->
                                 inv_concl ev first all (length (e :: r)) g out).
    { intros out [H1 H2 H3 H4 H5 H6 H7 H7' H8 H9 H10]. constructor; auto.
      intros H. destruct (H5 H) as [Ha Hb]. split; auto. cbn [length]. lia. }
    destruct (bb <=? bsize + Z.of_N (len (e_data e)) + 32)%Z.
    + pose proof (flush_spec ev first all dst bs (e :: batch_rev) r Hidx Hall' Hfirst Hrep) as HF.
      destruct (flush ev dst bs (e :: batch_rev)) as [[d bs']|].
      * destruct HF as (He & Hf & Hr & Hb); [discriminate|].
        apply Hcount. apply IH; auto.
        -- rewrite He. cbn [rev app]. rewrite <- app_assoc. exact Hall'.
        -- subst bs'. constructor; auto. cbn [rev]. intros H. apply app_eq_nil in H. destruct H; discriminate.
      * constructor; cbn; auto; try discriminate.
        -- exists (length (ls_ents dst)). rewrite Hall. symmetry. apply firstn_app_exact.
        -- intros H. exfalso. apply HF; [discriminate|exact H].
    + apply Hcount. apply IH; auto.
Qed.

(* where a cancellation lands: check number k is the first that sees ctx.Err() *)
Lemma copy_list_cancel : forall rest ev bb first all chk batch_rev bsize dst bs g k,
  cancel_at ev = Some k -> get_fail ev = None -> store_fail ev = None ->
  indexed_from first all ->
  all = ls_ents dst ++ rev batch_rev ++ rest ->
  (ls_ents dst <> [] -> ls_first dst = first) ->
  replay empty_store (rev bs) = Some dst ->
  let out := copy_list ev bb rest chk batch_rev bsize dst bs g in
  ((chk + length rest <= k)%nat -> o_res out = COk) /\
  ((k < chk + length rest)%nat -> (chk <= k)%nat ->
     o_res out = CCanceled /\ o_gets out = g + N.of_nat (k - chk)).
Proof.
  induction rest as [|e r IH]; intros ev bb first all chk batch_rev bsize dst bs g k
    Hc Hg Hs Hidx Hall Hfirst Hrep; cbn [copy_list].
  - pose proof (copy_list_inv [] ev bb first all chk batch_rev bsize dst bs g Hidx Hall Hfirst Hrep) as HI.
    cbn [copy_list] in HI. cbn [length]. split; [|lia].
    intros _. unfold final_flush in *. destruct batch_rev as [|x br]; [reflexivity|].
    pose proof (flush_spec ev first all dst bs (x :: br) [] Hidx Hall Hfirst Hrep) as HF.
    destruct (flush ev dst bs (x :: br)) as [[d bs']|]; [reflexivity|].
    exfalso. apply HF; [discriminate|exact Hs].
  - unfold cancelled. rewrite Hc. cbn [length].
    destruct (Nat.leb k chk) eqn:EL.
    + apply Nat.leb_le in EL. cbn. split; [lia|]. intros _ Hk.
      replace (k - chk)%nat with 0%nat by lia. split; [reflexivity|lia].
    + apply Nat.leb_gt in EL. unfold get_fails. rewrite Hg.
      assert (Hall' : all = ls_ents dst ++ rev (e :: batch_rev) ++ r).
      { cbn [rev]. rewrite <- app_assoc. exact Hall. }
      assert (Hstep : forall out,
        (((S chk + length r <= k)%nat -> o_res out = COk) /\
         ((k < S chk + length r)%nat -> (S chk <= k)%nat ->
            o_res out = CCanceled /\ o_gets out = g + 1 + N.of_nat (k - S chk))) ->
        (((chk + S (length r) <= k)%nat -> o_res out = COk) /\
         ((k < chk + S (length r))%nat -> (chk <= k)%nat ->
            o_res out = CCanceled /\ o_gets out = g + N.of_nat (k - chk)))).
      { intros out [Ha Hb]. split.
        - intros H. apply Ha. lia.
        - intros H1 H2. destruct Hb as [Hb1 Hb2]; [lia|lia|]. split; [exact Hb1|]. rewrite Hb2. lia. }
      destruct (bb <=? bsize + Z.of_N (len (e_data e)) + 32)%Z.
      * pose proof (flush_spec ev first all dst bs (e :: batch_rev) r Hidx Hall' Hfirst Hrep) as HF.
        destruct (flush ev dst bs (e :: batch_rev)) as [[d bs']|].
        -- destruct HF as (He & Hf & Hr & Hb); [discriminate|].
           apply Hstep. apply (IH ev bb first all (S chk) [] 0%Z d bs' (g + 1) k); auto.
           rewrite He. cbn [rev app]. rewrite <- app_assoc. exact Hall'.
        -- exfalso. apply HF; [discriminate|exact Hs].
      * apply Hstep. apply (IH ev bb first all (S chk) (e :: batch_rev) _ dst bs (g + 1) k); auto.
Qed.

(* ---- top level -------------------------------------------------------------- *)
Lemma copy_body_list : forall ev bb src dst,
  wf_store src -> ls_ents src <> [] ->
  copy_logs_core ev bb src dst = copy_list ev bb (ls_ents src) 0 [] 0%Z dst [] 0.
Proof.
  intros ev bb src dst (Hidx & Hone & Hlt) Hne.
  unfold copy_logs_core, first_index, last_index.
  destruct (ls_ents src) as [|x l] eqn:E; [congruence|].
  specialize (Hone Hne).
  replace ((ls_first src =? 0) && (ls_first src + ls_len src - 1 =? 0)) with false.
  2:{ symmetry. apply andb_false_iff. left. apply N.eqb_neq. lia. }
  rewrite <- E.
  apply (loop_eq_list (ls_ents src) _ ev src bb _ _ 0%nat [] 0%Z dst [] 0 []); auto.
  - rewrite E. exact Hidx.
  - rewrite E. discriminate.
  - cbn. lia.
Qed.

Definition same_log (a b : lstore) : Prop :=
  ls_ents a = ls_ents b /\ first_index a = first_index b /\ last_index a = last_index b /\
  forall i, get_log a i = get_log b i.

Lemma same_log_of_ents : forall a b,
  ls_ents a = ls_ents b -> (ls_ents a <> [] -> ls_first a = ls_first b) -> same_log a b.
Proof.
  intros a b He Hf. unfold same_log, first_index, last_index, get_log, ls_len. rewrite He.
  destruct (ls_ents b) as [|x l] eqn:E.
  - repeat split; auto. intros i.
    destruct (i <? ls_first a), (i <? ls_first b); auto;
      repeat match goal with |- context [nth_error [] ?n] => destruct n; cbn end; reflexivity.
  - rewrite Hf by (rewrite He; discriminate). repeat split; auto.
Qed.

Definition is_prefix (p l : list entry) : Prop := exists n, p = firstn n l.

Theorem copy_logs_faithful : forall src bb p,
  wf_store src ->
  let r := copy_logs (no_faults p) bb src empty_store in
  r_res r = COk /\ same_log (r_dst r) src /\
  replay empty_store (r_batches r) = Some (r_dst r) /\
  all_batches_ok empty_store (r_batches r) /\
  concat (r_batches r) = ls_ents src /\
  r_gets r = ls_len src.
Proof.
  intros src bb p Hwf. cbn zeta. unfold copy_logs, run_deferred. cbn [r_res r_dst r_batches r_gets].
  change (copy_logs_body (no_faults p) bb src empty_store) with (copy_logs_core (no_faults p) bb src empty_store).
  destruct (ls_ents src) as [|x l] eqn:E.
  - (* empty source: early return *)
    unfold copy_logs_core, first_index, last_index, ls_len. rewrite E. cbn.
    split; [reflexivity|]. split; [apply same_log_of_ents; cbn; congruence|].
    repeat split; auto.
  - assert (Hne : ls_ents src <> []) by (rewrite E; discriminate).
    rewrite (copy_body_list _ _ _ _ Hwf Hne).
    destruct Hwf as (Hidx & Hone & Hlt).
    pose proof (copy_list_inv (ls_ents src) (no_faults p) bb (ls_first src) (ls_ents src) 0 [] 0%Z
                  empty_store [] 0 Hidx eq_refl) as HI.
    destruct HI as [H1 H2 H3 H4 H5 H6 H7 H7' H8 H9 H10]; cbn; auto; try congruence.
    set (out := copy_list (no_faults p) bb (ls_ents src) 0 [] 0%Z empty_store [] 0) in *.
    assert (Hok : o_res out = COk).
    { specialize (H8 eq_refl). specialize (H9 eq_refl). specialize (H10 eq_refl).
      destruct (o_res out); congruence. }
    destruct (H5 Hok) as [He Hg].
    assert (HF : Forall (fun b => b <> []) (rev (o_batches out))).
    { apply Forall_rev. exact H4. }
    split; [exact Hok|]. split; [apply same_log_of_ents; auto; intros; apply H2; congruence|].
    split; [exact H3|]. split; [eapply replay_batches_ok; eauto|].
    rewrite <- E. split; [|unfold ls_len; rewrite Hg; lia].
    rewrite <- He.
    (* concat of replayed batches = entries of the result *)
    clear - H3 HF.
    assert (G : forall bs d d', replay d bs = Some d' -> Forall (fun b => b <> []) bs ->
                                ls_ents d' = ls_ents d ++ concat bs).
    { induction bs as [|b bs IH]; intros d d' H HF'; cbn [replay concat] in *.
      - injection H as <-. rewrite app_nil_r. reflexivity.
      - inversion HF' as [|? ? Hb HF'']; subst.
        destruct (store_logs d b) as [d1|] eqn:S; [|discriminate].
        rewrite (IH _ _ H HF''). rewrite app_assoc. f_equal.
        unfold store_logs in S. destruct b as [|e b]; [congruence|].
        destruct (ls_ents d) eqn:Ed.
        + destruct (consecutive_from (e_index e) (e :: b)); [|discriminate]. injection S as <-. reflexivity.
        + destruct ((e_index e =? last_index d + 1) && consecutive_from (e_index e) (e :: b)); [|discriminate].
          injection S as <-. reflexivity. }
    rewrite (G _ _ _ H3 HF). reflexivity.
Qed.

(* any cancellation point, any injected fault (including a source whose
   FirstIndex/LastIndex fails): the destination holds a prefix of the source,
   written by acceptable batches; Ok only with the full copy *)
Theorem copy_logs_prefix : forall src bb ev,
  wf_store src ->
  let r := copy_logs ev bb src empty_store in
  is_prefix (ls_ents (r_dst r)) (ls_ents src) /\
  (ls_ents (r_dst r) <> [] -> ls_first (r_dst r) = ls_first src) /\
  replay empty_store (r_batches r) = Some (r_dst r) /\
  (r_res r = COk -> same_log (r_dst r) src) /\
  r_res r <> COutOfFuel /\
  (first_fail ev = false -> r_res r <> CErrFirst) /\
  (last_fail ev = false -> r_res r <> CErrLast) /\
  (cancel_at ev = None -> r_res r <> CCanceled).
Proof.
  intros src bb ev Hwf. cbn zeta. unfold copy_logs, run_deferred. cbn [r_res r_dst r_batches].
  unfold copy_logs_body.
  destruct (first_fail ev) eqn:EF.
  { cbn. split; [exists 0%nat; reflexivity|]. split; [congruence|]. split; [reflexivity|].
    repeat split; try discriminate. }
  destruct (last_fail ev) eqn:EL.
  { cbn. split; [exists 0%nat; reflexivity|]. split; [congruence|]. split; [reflexivity|].
    repeat split; try discriminate. }
  destruct (ls_ents src) as [|x l] eqn:E.
  - unfold copy_logs_core, first_index, last_index, ls_len. rewrite E. cbn.
    split; [exists 0%nat; reflexivity|]. split; [congruence|]. split; [reflexivity|].
    split; [intros _; apply same_log_of_ents; cbn; congruence|].
    repeat split; auto; discriminate.
  - assert (Hne : ls_ents src <> []) by (rewrite E; discriminate).
    rewrite (copy_body_list _ _ _ _ Hwf Hne).
    destruct Hwf as (Hidx & Hone & Hlt).
    pose proof (copy_list_inv (ls_ents src) ev bb (ls_first src) (ls_ents src) 0 [] 0%Z
                  empty_store [] 0 Hidx eq_refl) as HI.
    destruct HI as [H1 H2 H3 H4 H5 H6 H7 H7' H8 H9 H10]; cbn; auto; try congruence.
    try rewrite <- E.
    split; [exact H1|]. split; [exact H2|]. split; [exact H3|].
    split; [|auto 8].
    intros Hok. destruct (H5 Hok) as [He _]. apply same_log_of_ents; auto.
Qed.

(* a source whose FirstIndex (resp. LastIndex) fails: that error is returned,
   nothing is read or written *)
Theorem copy_logs_index_fault : forall src dst bb ev,
  let r := copy_logs ev bb src dst in
  (first_fail ev = true -> r_res r = CErrFirst /\ r_dst r = dst /\ r_batches r = [] /\ r_gets r = 0) /\
  (first_fail ev = false -> last_fail ev = true ->
     r_res r = CErrLast /\ r_dst r = dst /\ r_batches r = [] /\ r_gets r = 0) /\
  r_closed r = has_progress ev.
Proof.
  intros src dst bb ev. cbn zeta. unfold copy_logs, run_deferred, copy_logs_body.
  cbn [r_res r_dst r_batches r_gets r_closed].
  split; [|split; [|reflexivity]].
  - intros ->. cbn. auto.
  - intros -> ->. cbn. auto.
Qed.

Theorem copy_logs_cancel_point : forall src bb p k,
  wf_store src ->
  let ev := {| cancel_at := Some k; get_fail := None; store_fail := None;
              first_fail := false; last_fail := false; has_progress := p |} in
  let r := copy_logs ev bb src empty_store in
  ((k < length (ls_ents src))%nat -> r_res r = CCanceled /\ r_gets r = N.of_nat k) /\
  ((length (ls_ents src) <= k)%nat -> r_res r = COk /\ same_log (r_dst r) src).
Proof.
  intros src bb p k Hwf. cbn zeta.
  set (ev := {| cancel_at := Some k; get_fail := None; store_fail := None;
              first_fail := false; last_fail := false; has_progress := p |}).
  pose proof (copy_logs_prefix src bb ev Hwf) as HP. cbn zeta in HP.
  destruct HP as (_ & _ & _ & Hsame & _).
  unfold copy_logs, run_deferred in *. cbn [r_res r_dst r_batches r_gets] in *.
  change (copy_logs_body ev bb src empty_store) with (copy_logs_core ev bb src empty_store) in *.
  destruct (ls_ents src) as [|x l] eqn:E.
  - cbn [length]. split; [lia|]. intros _.
    assert (Hr : o_res (copy_logs_core ev bb src empty_store) = COk).
    { unfold copy_logs_core, first_index, last_index. rewrite E. reflexivity. }
    split; auto.
  - assert (Hne : ls_ents src <> []) by (rewrite E; discriminate).
    rewrite (copy_body_list _ _ _ _ Hwf Hne) in *.
    destruct Hwf as (Hidx & Hone & Hlt).
    pose proof (copy_list_cancel (ls_ents src) ev bb (ls_first src) (ls_ents src) 0 [] 0%Z
                  empty_store [] 0 k eq_refl eq_refl eq_refl Hidx eq_refl) as HC.
    cbn zeta in HC. rewrite <- E.
    destruct HC as [Ha Hb]; [cbn; congruence|reflexivity|].
    split.
    + intros H. destruct Hb as [Hb1 Hb2]; [lia|lia|]. split; [exact Hb1|]. rewrite Hb2. lia.
    + intros H. assert (Hok := Ha ltac:(lia)). split; auto.
Qed.

(* the deferred close runs on every return path: any source (well-formed or
   not), any destination, any cancellation point, any fault *)
Theorem progress_closed : forall ev bb src dst,
  r_closed (copy_logs ev bb src dst) = has_progress ev.
Proof. reflexivity. Qed.

Theorem stable_progress_closed : forall pol cancel p src dst extra extra_int,
  sr_closed (copy_stable pol cancel p src dst extra extra_int) = p.
Proof. reflexivity. Qed.

(* ---- CopyStable -------------------------------------------------------------- *)
Lemma beq_bytes_refl : forall a, beq_bytes a a = true.
Proof. induction a as [|x a IH]; cbn; auto. rewrite N.eqb_refl. exact IH. Qed.

Lemma beq_bytes_eq : forall a b, beq_bytes a b = true -> a = b.
Proof.
  induction a as [|x a IH]; intros [|y b] H; cbn in H; try discriminate; auto.
  apply andb_true_iff in H. destruct H as [H1 H2]. apply N.eqb_eq in H1. f_equal; auto.
Qed.

Definition int_present (src : sstore) (ks : list bytes) : Prop :=
  forall k, In k ks -> s_get_int src k <> None.
Definition key_present (src : sstore) (ks : list bytes) : Prop :=
  forall k, In k ks -> s_get src k <> None.

Lemma copy_int_keys_spec : forall ks pol src chk dst,
  (miss_int_err pol = true -> int_present src ks) ->
  let o := copy_int_keys pol None src ks chk dst in
  so_res o = SOk /\ s_kv (so_dst o) = s_kv dst /\
  (forall k, In k ks -> s_get_int (so_dst o) k = Some (match s_get_int src k with Some v => v | None => 0 end)) /\
  (forall k, ~ In k ks -> s_get_int (so_dst o) k = s_get_int dst k).
Proof.
  induction ks as [|k0 ks IH]; intros pol src chk dst Hp; cbn [copy_int_keys].
  - cbn. repeat split; auto. intros k [].
  - assert (Hp' : miss_int_err pol = true -> int_present src ks).
    { intros H k Hk. apply (Hp H). right. exact Hk. }
    assert (Hstep : forall v, s_get_int src k0 = Some v \/ (s_get_int src k0 = None /\ v = 0) ->
      let o := copy_int_keys pol None src ks (S chk) (s_set_int dst k0 v) in
      so_res o = SOk /\ s_kv (so_dst o) = s_kv dst /\
      (forall k, In k (k0 :: ks) -> s_get_int (so_dst o) k = Some (match s_get_int src k with Some v => v | None => 0 end)) /\
      (forall k, ~ In k (k0 :: ks) -> s_get_int (so_dst o) k = s_get_int dst k)).
    { intros v Hv. cbn zeta.
      destruct (IH pol src (S chk) (s_set_int dst k0 v) Hp') as (R1 & R2 & R3 & R4).
      split; [exact R1|]. split; [exact R2|]. split.
      - intros k Hk.
        destruct (in_dec (list_eq_dec N.eq_dec) k ks) as [Hin|Hnin]; [apply R3; exact Hin|].
        destruct Hk as [<-|Hk]; [|contradiction].
        rewrite (R4 _ Hnin). unfold s_get_int, s_set_int. cbn [s_int lookup]. rewrite beq_bytes_refl.
        destruct Hv as [Hv|[Hv ->]]; unfold s_get_int in Hv; rewrite Hv; reflexivity.
      - intros k Hk. rewrite R4 by (intros H; apply Hk; right; exact H).
        unfold s_get_int, s_set_int. cbn [s_int lookup].
        destruct (beq_bytes k k0) eqn:B; [|reflexivity].
        apply beq_bytes_eq in B. exfalso. apply Hk. left. auto. }
    destruct (s_get_int src k0) as [v|] eqn:G.
    + apply Hstep. left. reflexivity.
    + destruct (miss_int_err pol) eqn:M.
      * exfalso. apply (Hp eq_refl k0); [left; reflexivity|exact G].
      * apply Hstep. right. auto.
Qed.

Lemma copy_keys_spec : forall ks pol src chk dst,
  (miss_get_err pol = true -> key_present src ks) ->
  let o := copy_keys pol None src ks chk dst in
  so_res o = SOk /\ s_int (so_dst o) = s_int dst /\
  (forall k, In k ks -> s_get (so_dst o) k = Some (match s_get src k with Some v => v | None => [] end)) /\
  (forall k, ~ In k ks -> s_get (so_dst o) k = s_get dst k).
Proof.
  induction ks as [|k0 ks IH]; intros pol src chk dst Hp; cbn [copy_keys].
  - cbn. repeat split; auto. intros k [].
  - assert (Hp' : miss_get_err pol = true -> key_present src ks).
    { intros H k Hk. apply (Hp H). right. exact Hk. }
    assert (Hstep : forall v, s_get src k0 = Some v \/ (s_get src k0 = None /\ v = []) ->
      let o := copy_keys pol None src ks (S chk) (s_set dst k0 v) in
      so_res o = SOk /\ s_int (so_dst o) = s_int dst /\
      (forall k, In k (k0 :: ks) -> s_get (so_dst o) k = Some (match s_get src k with Some v => v | None => [] end)) /\
      (forall k, ~ In k (k0 :: ks) -> s_get (so_dst o) k = s_get dst k)).
    { intros v Hv. cbn zeta.
      destruct (IH pol src (S chk) (s_set dst k0 v) Hp') as (R1 & R2 & R3 & R4).
      split; [exact R1|]. split; [exact R2|]. split.
      - intros k Hk.
        destruct (in_dec (list_eq_dec N.eq_dec) k ks) as [Hin|Hnin]; [apply R3; exact Hin|].
        destruct Hk as [<-|Hk]; [|contradiction].
        rewrite (R4 _ Hnin). unfold s_get, s_set. cbn [s_kv lookup]. rewrite beq_bytes_refl.
        destruct Hv as [Hv|[Hv ->]]; unfold s_get in Hv; rewrite Hv; reflexivity.
      - intros k Hk. rewrite R4 by (intros H; apply Hk; right; exact H).
        unfold s_get, s_set. cbn [s_kv lookup].
        destruct (beq_bytes k k0) eqn:B; [|reflexivity].
        apply beq_bytes_eq in B. exfalso. apply Hk. left. auto. }
    destruct (s_get src k0) as [v|] eqn:G.
    + apply Hstep. left. reflexivity.
    + destruct (miss_get_err pol) eqn:M.
      * exfalso. apply (Hp eq_refl k0); [left; reflexivity|exact G].
      * apply Hstep. right. auto.
Qed.

Definition or_zero (o : option N) : N := match o with Some v => v | None => 0 end.
Definition or_empty (o : option bytes) : bytes := match o with Some v => v | None => [] end.

(* without cancellation, and with every requested key present in a source
   that fails on missing keys: all standard and extra keys arrive with their
   values, nothing else in the destination changes *)
Theorem copy_stable_faithful : forall pol p src dst extra extra_int,
  (miss_int_err pol = true -> int_present src (known_int_keys ++ extra_int)) ->
  (miss_get_err pol = true -> key_present src (known_keys ++ extra)) ->
  let r := copy_stable pol None p src dst extra extra_int in
  sr_res r = SOk /\ sr_closed r = p /\
  (forall k, In k (known_int_keys ++ extra_int) ->
             s_get_int (sr_dst r) k = Some (or_zero (s_get_int src k))) /\
  (forall k, In k (known_keys ++ extra) ->
             s_get (sr_dst r) k = Some (or_empty (s_get src k))) /\
  (forall k, ~ In k (known_int_keys ++ extra_int) -> s_get_int (sr_dst r) k = s_get_int dst k) /\
  (forall k, ~ In k (known_keys ++ extra) -> s_get (sr_dst r) k = s_get dst k).
Proof.
  intros pol p src dst extra extra_int Hi Hk. cbn zeta. unfold copy_stable.
  destruct (copy_int_keys_spec (known_int_keys ++ extra_int) pol src 0 dst Hi) as (A1 & A2 & A3 & A4).
  set (o1 := copy_int_keys pol None src (known_int_keys ++ extra_int) 0 dst) in *.
  rewrite A1.
  destruct (copy_keys_spec (known_keys ++ extra) pol src (so_chk o1) (so_dst o1) Hk) as (B1 & B2 & B3 & B4).
  set (o2 := copy_keys pol None src (known_keys ++ extra) (so_chk o1) (so_dst o1)) in *.
  cbn [sr_res sr_dst sr_closed].
  split; [exact B1|]. split; [reflexivity|].
  unfold s_get_int, s_get in *. rewrite B2.
  split; [exact A3|]. split; [exact B3|]. split; [exact A4|].
  intros k Hn. rewrite (B4 k Hn). unfold s_get. rewrite A2. reflexivity.
Qed.
