(* ComposeFacts7.v -- GetLog down to bytes, for a running WAL linked to a byte
   disk: whatever entry L2's get_log returns is the decoding of the bytes the
   byte-level reader (Seg/Reader.v: the tail reader with the in-memory offsets
   of the byte-level writer, or the sealed reader with the index block on the
   disk) returns from the byte-level file of the segment. *)
From RW Require Import Base.Bytes Base.BytesFacts Base.Crc32c Fmt.Codec Fmt.Frame Fmt.FrameFacts
     Seg.Writer Seg.Recover Seg.Reader Seg.SegAbs Seg.WriterFacts Seg.RecoverFacts Seg.ChainFacts
     Wal.Model Wal.Spec Wal.Hist Wal.CrashInv Wal.CrashFacts0 Wal.CrashFacts1 Wal.CrashCalls2
     Link.Abs Link.AbsFacts1 Link.AbsFacts2 Link.AbsFacts3 Link.AbsFacts4
     Link.Disk Link.DiskFacts1 Link.DiskFacts2 Link.Compose Link.ComposeFacts1 Gen.Constants.
From Coq Require Import ZifyN ZifyNat ZifyBool.
Open Scope N_scope.

(* what the metadata must say about a listed segment that is read through a
   sealed reader: MinIndex not below BaseIndex, and the recorded IndexStart is
   the index start of the file.  (L2's seg_read does not use IndexStart, so no
   WAL-level invariant speaks about the second part: it is a hypothesis here.) *)
Definition seg_meta_ok (w : wal) (d : disk) : Prop :=
  forall s, In s (st_segs w) ->
    si_base s <= si_min s /\
    forall f, lookup (name_of s) (dk_files d) = Some f ->
      (forall tw, st_tail w = Some tw -> ws_name tw <> name_of s) ->
      si_index_start s = cur_seal f /\ cur_seal f <> 0.

(* the byte-level read behind a GetLog *)
Definition bread (c : cfg) (w : wal) (bd : bdisk) (d : disk) (idx : N) (p : bytes) : Prop :=
  (exists tw info bs bf, st_tail w = Some tw /\ tail_link c tw info bs bd d /\
      blookup (ws_name tw) bd = Some bf /\
      tail_get (wst info (cstate info bs)) (bf_data bf) idx = Reader.ROk p) \/
  (exists s bf, In s (st_segs w) /\ blookup (name_of s) bd = Some bf /\
      sealed_get s (bf_data bf) idx = Reader.ROk p).

Lemma seg_read_lookup n base idx d l :
  seg_read n base idx d = Some l -> exists f, lookup n (dk_files d) = Some f /\ In l (cur_ents f).
Proof.
  unfold seg_read. destruct (lookup n (dk_files d)) as [f|]; [|discriminate]. intros H.
  exists f. split; [reflexivity|]. eapply nth_error_In; eauto.
Qed.

Lemma frep_at_data info bs bf f : frep_at info bs None bf f -> exists k, bf_data bf = image info bs ++ zeros k.
Proof.
  intros R. destruct (fr_sync _ _ _ _ _ R) as [k D]. exists k.
  rewrite (fr_wf _ _ _ _ _ R), (fr_pend _ _ _ _ _ R). exact D.
Qed.

Lemma tail_read c tw info bs bd d idx l0 :
  tail_link c tw info bs bd d -> tail_lookup tw idx d = Some l0 ->
  exists bf p, blookup (ws_name tw) bd = Some bf /\
               tail_get (wst info (cstate info bs)) (bf_data bf) idx = Reader.ROk p /\
               decode_log p = Some (codec_view l0).
Proof.
  intros [Tn Th Tw Tf] Hl.
  assert (Hr : seg_read (ws_name tw) (ws_base tw) idx d = Some l0).
  { unfold tail_lookup in Hl. destruct (_ || _); [discriminate|exact Hl]. }
  destruct (seg_read_lookup _ _ _ _ _ Hr) as (f & Ef & Hin).
  destruct (Tf f Ef) as (bf & Hb & R). destruct (frep_at_data _ _ _ _ R) as [k Dk].
  pose proof (fr_ok _ _ _ _ _ R) as Hok.
  assert (Hwf : wf_log l0). { rewrite Forall_forall in Hok. apply (Hok l0 Hin). }
  rewrite <- Tn in Ef.
  destruct (get_sim_tail info bs f d tw idx l0 (zeros k) (rep_cur_rep _ _ _ (fr_rep _ _ _ _ _ R))
              (logs_ok_encs_ok _ Hok) Ef Tw Hl Hwf) as (p & Hp & Hdec & _).
  exists bf, p. rewrite Dk. auto.
Qed.

Lemma sealed_read c bd d s idx l0 f :
  drep c bd d -> lookup (name_of s) (dk_files d) = Some f ->
  seg_read (name_of s) (si_base s) idx d = Some l0 ->
  si_index_start s = cur_seal f -> cur_seal f <> 0 ->
  si_base s <= idx -> si_min s <= idx -> (si_max s = 0 \/ idx <= si_max s) ->
  exists bf p, blookup (name_of s) bd = Some bf /\
               sealed_get s (bf_data bf) idx = Reader.ROk p /\ decode_log p = Some (codec_view l0).
Proof.
  intros H0 El Hr Hist Hnz Hb Hmin Hmax.
  destruct (frel_lookup _ _ _ _ _ H0 El) as (bf & Hbl & Hh & bs & pb & R).
  set (info := finfo c (name_of s)) in *.
  pose proof (frep_sync _ _ _ _ _ R) as Rs. destruct (fr_sync _ _ _ _ _ Rs) as [k Dk]. cbn [bsync_file bf_sync] in Dk.
  assert (Hcr : cur_rep info (bs ++ opt_batch pb) f).
  { destruct pb as [b|]; cbn [opt_batch].
    - apply rep_p_cur_rep. apply (fr_rep _ _ _ _ _ R).
    - rewrite app_nil_r. apply rep_cur_rep. apply (fr_rep _ _ _ _ _ R). }
  pose proof (fr_ok _ _ _ _ _ R) as Hok.
  destruct (seg_read_lookup _ _ _ _ _ Hr) as (f' & Ef' & Hin). rewrite El in Ef'. inversion Ef'; subst f'.
  assert (Hwf : wf_log l0). { rewrite Forall_forall in Hok. apply (Hok l0 Hin). }
  assert (En : name_of info = name_of s) by apply finfo_name.
  assert (Eb : si_base info = si_base s) by reflexivity.
  assert (El' : lookup (name_of info) (dk_files d) = Some f) by (rewrite En; exact El).
  assert (Hb' : si_base info <= idx) by (rewrite Eb; exact Hb).
  assert (Hr' : seg_read (name_of info) (si_base info) idx d = Some l0) by (rewrite En, Eb; exact Hr).
  destruct (get_sim_sealed info s (bs ++ opt_batch pb) f d idx l0 (zeros k) Hcr (logs_ok_encs_ok _ Hok)
              (fr_len _ _ _ _ _ R) El' Hnz (eq_sym Eb) Hist Hb' Hmin Hmax Hr' Hwf) as (p & Hp & Hdec & _).
  exists bf, p. rewrite Dk. auto.
Qed.

(* GETLOG DOWN TO BYTES *)
Theorem get_log_link c w bd e idx l e' :
  wlink c w bd (e_disk e) -> seg_meta_ok w (e_disk e) ->
  get_log w idx e = (RLog l, e') ->
  exists p, bread c w bd (e_disk e) idx p /\ decode_log p = Some l.
Proof.
  intros (H0 & Hnd & Hid & Ht) Hmeta H. unfold get_log in H.
  destruct (st_closed w); [discriminate|]. cbn zeta in H.
  assert (Htail : forall tw l0, st_tail w = Some tw -> tail_lookup tw idx (e_disk e) = Some l0 ->
            exists p, bread c w bd (e_disk e) idx p /\ decode_log p = Some (codec_view l0)).
  { intros tw l0 Et Hl. rewrite Et in Ht. destruct Ht as (info & bs & T).
    destruct (tail_read c tw info bs bd _ idx l0 T Hl) as (bf & p & Hb & Hp & Hd).
    exists p. split; [|exact Hd]. left. exists tw, info, bs, bf. auto. }
  match type of H with context [match ?ft with Some _ => _ | None => _ end] =>
    destruct ft as [l0|] eqn:Eft end.
  - inversion H; subst l.
    destruct (st_tail w) as [tw|] eqn:Et; [|discriminate].
    assert (Hl : tail_lookup tw idx (e_disk e) = Some l0).
    { destruct (tail_info (st_segs w)) as [ti|]; [|exact Eft]. destruct (si_min ti <=? idx); [exact Eft|discriminate]. }
    eapply Htail; eauto.
  - destruct (find_segment (st_segs w) idx) as [s|] eqn:Efs; [|discriminate].
    destruct (find_segment_sound _ _ _ Efs) as (Hin & Hmin & Hmax).
    destruct (Hmeta s Hin) as (Hbase & Hist).
    match type of H with context [if ?b then _ else _] => destruct b eqn:Eis end.
    + destruct (st_tail w) as [tw|] eqn:Et; [|discriminate].
      destruct (tail_lookup tw idx (e_disk e)) as [l0|] eqn:Hl; [|discriminate].
      inversion H; subst l. eapply Htail; eauto.
    + destruct (seg_read (name_of s) (si_base s) idx (e_disk e)) as [l0|] eqn:Hr; [|discriminate].
      inversion H; subst l.
      destruct (seg_read_lookup _ _ _ _ _ Hr) as (f & Ef & _).
      destruct (Hist f Ef) as (Hi1 & Hi2).
      { intros tw Et. rewrite Et in Eis. apply fname_eqb_neq in Eis. exact Eis. }
      destruct (sealed_read c bd _ s idx l0 f H0 Ef Hr Hi1 Hi2) as (bf & p & Hb & Hp & Hd); auto; [lia|].
      exists p. split; [|exact Hd]. right. exists s, bf. auto.
Qed.

(* the first part of seg_meta_ok follows from the invariant of crash_refinement *)
Lemma LInv_base_le_min c nb w d s : LInv c nb w d -> In s (st_segs w) -> si_base s <= si_min s.
Proof.
  intros (_ & _ & HD & _ & Hm & _) Hin. destruct HD as (_ & HD). rewrite Hm in HD.
  destruct HD as (_ & _ & S & t & Hsegs & Hwf & _). cbn [persistent ps_segs] in Hsegs.
  rewrite Hsegs in Hin. rewrite Forall_forall in Hwf. destruct (Hwf s Hin) as (_ & _ & _ & _ & H & _). exact H.
Qed.
