(* FaultISFacts3.v -- the IndexStart invariant along histories with injected
   faults, and the observable results of such histories computed from bytes.
     start_facts      what a call needs at its start, from the invariant FInv
                      of fault_safety (Live mode)
     fault_step_FJ    FJH is kept by every step
     fault_hist_bytes every history has a byte-level run at whose end the WAL
                      is linked (FHL) and FJH holds
     fault_get_log    GetLog of the running process = decoding of the bytes the
                      byte-level reader returns; with fault_safety: = the entry
                      of the nominal (specification) state *)
From RW Require Import Base.Bytes Base.BytesFacts Fmt.Codec Fmt.Frame Seg.Reader Seg.SegAbs
     Wal.Model Wal.Spec Wal.Hist Wal.FaultHist
     Wal.CrashInv Wal.CrashFacts0 Wal.CrashFacts1 Wal.CrashFacts2 Wal.CrashFacts3 Wal.CrashFacts4 Wal.CrashFacts5
     Wal.CrashFacts6 Wal.CrashCalls1 Wal.CrashCalls3 Wal.CrashCalls9 Wal.FaultInv Wal.FaultFacts2 Wal.FaultStore Wal.FaultThm Wal.FaultCor
     Link.Abs Link.AbsFacts1 Link.AbsFacts2 Link.Disk Link.DiskFacts1 Link.DiskFacts3 Link.Compose Link.ComposeFacts1
     Link.ComposeFacts3 Link.ComposeFacts5 Link.ComposeFacts6 Link.ComposeFacts7
     Link.IndexStart Link.IndexStartFacts1 Link.IndexStartFacts2 Link.IndexStartFacts3
     Link.FaultDisk Link.FaultDiskFacts1 Link.FaultDiskFacts2 Link.FaultDiskFacts3 Link.FaultDiskFacts4
     Link.FaultLink Link.FaultLinkFacts1 Link.FaultLinkFacts2 Link.FaultLinkFacts3
     Link.FaultIS Link.FaultISFacts1 Link.FaultISFacts2 Gen.Constants.
From Coq Require Import ZifyN ZifyNat ZifyBool.
Open Scope N_scope.

Definition FJH (h : fstate) : Prop :=
  if st_closed (ss_wal (fs_s h)) then ISs' (fdisk h) (meta_segs (fdisk h)) else FJ (ss_wal (fs_s h)) (fdisk h).

(* ---------------- the facts at the start of a call ---------------- *)
Lemma lookup_sh n d : lookup n (dk_files (sh d)) = option_map sh_file (lookup n (dk_files d)).
Proof. unfold sh. apply lookup_map_files. Qed.

Lemma lview_start c nb w0 w d S t f0 tw :
  lview c nb w0 (sh d) S t f0 tw ->
  st_segs w = st_segs w0 -> st_tail w = st_tail w0 -> st_next_id w = st_next_id w0 ->
  (forall f, lookup (name_of t) (dk_files d) = Some f -> df_seal f <> 0 -> df_pend f = None) ->
  ids_ok w /\ trunc_facts w d /\
  (st_rotate w = (if 0 <? df_seal f0 then Some (df_seal f0) else None) -> rot_facts w d).
Proof.
  intros V Es Et En Hcl.
  pose proof (lv_tw _ _ _ _ _ _ _ _ V) as (Hn & _ & _ & _ & _ & _ & Hix & _).
  assert (Hf0 : forall f, lookup (name_of t) (dk_files d) = Some f -> f0 = sh_file f).
  { intros f Ef. pose proof (lv_file _ _ _ _ _ _ _ _ V) as K. rewrite lookup_sh, Ef in K. inversion K. reflexivity. }
  split; [|split].
  - unfold ids_ok. rewrite Es, En, (lv_segs _ _ _ _ _ _ _ _ V).
    eapply Forall_impl; [|apply (lv_wf _ _ _ _ _ _ _ _ V)]. intros s Hs. apply Hs.
  - intros tw0 Etw _. rewrite Et, (lv_tail _ _ _ _ _ _ _ _ V) in Etw. inversion Etw; subst tw0. split.
    + intros x Hx Hxs. rewrite Es, (lv_segs _ _ _ _ _ _ _ _ V) in Hx. apply in_app_or in Hx as [Hx|[<-|[]]]; [|symmetry; exact Hn].
      pose proof (lv_sealed _ _ _ _ _ _ _ _ V) as Hso. rewrite Forall_forall in Hso. destruct (Hso x Hx) as (K & _). congruence.
    + intros Hpos f Ef. rewrite Hn in Ef. apply (Hcl f Ef). rewrite (Hf0 f Ef) in Hix. cbn in Hix. lia.
  - intros Hrot i Hi. rewrite Hrot in Hi. destruct (0 <? df_seal f0) eqn:Z; [|discriminate]. inversion Hi; subst i.
    exists tw. split; [rewrite Et; apply (lv_tail _ _ _ _ _ _ _ _ V)|]. split; [exact Hix|]. split; [lia|]. split.
    + intros t0 Ht0. rewrite Es, (lv_segs _ _ _ _ _ _ _ _ V), tail_info_app in Ht0. inversion Ht0; subst t0. symmetry. exact Hn.
    + intros f Ef. rewrite Hn in Ef. apply (Hcl f Ef). rewrite (Hf0 f Ef) in Z. cbn in Z. lia.
Qed.

Lemma start_facts c nb w d nom defer :
  Mode c nb w d nom defer -> st_closed w = false -> st_failed w = false ->
  ids_ok w /\ rot_facts w d /\ trunc_facts w d.
Proof.
  intros [(A & _)|(_ & [((HL & Hst) & _)|(A & _)])] Hcl Hfa; try congruence.
  (* Live *)
  - destruct (LInv_view _ _ _ _ HL) as (S & t & f0 & tw & V).
    destruct (lview_start c nb w w d S t f0 tw V eq_refl eq_refl eq_refl) as (H1 & H2 & H3).
    + intros f Ef Hse. destruct (df_pend f) as [p|] eqn:Ep; [|reflexivity]. exfalso.
      destruct (Hst _ _ _ Ef Ep) as [(t2 & Ht2 & _ & (Hz & _))|K]; [congruence|].
      apply (K (persistent w) t (live_meta _ _ _ _ HL)); [|reflexivity].
      cbn [persistent ps_segs]. rewrite (lv_segs _ _ _ _ _ _ _ _ V). apply in_or_app. right. left. reflexivity.
    + split; [exact H1|]. split; [apply H3; apply (lv_rot _ _ _ _ _ _ _ _ V)|exact H2].
Qed.

(* the reopen hypotheses, from the structural invariant of the adopted disk *)
Lemma RD_open_facts c nb d alts defer :
  RD c nb d alts defer -> names_sep (meta_segs (adopt_disk d)) /\ dids_ok (adopt_disk d).
Proof.
  intros (HD & _). unfold meta_segs, dids_ok. change (dk_meta (adopt_disk d)) with (dk_meta (ad d)).
  destruct (dk_meta (ad d)) as [ps|] eqn:Hm; [|split; [intros s u []|exact I]].
  destruct (DIs_segs _ _ _ _ HD Hm) as (S & t & Hs).
  destruct (DIs_parts _ _ _ _ _ _ HD Hm Hs) as (_ & _ & _ & Hwf & _ & Hso & (Hu & _)).
  split.
  - intros s u Hin Hiu Hss Hus. rewrite Hs in Hin, Hiu.
    apply in_app_or in Hin as [Hin|[<-|[]]]; [|congruence].
    apply in_app_or in Hiu as [Hiu|[<-|[]]].
    + rewrite Forall_forall in Hso. destruct (Hso u Hiu) as (K & _). congruence.
    + eapply DIs_sealed_neq; eauto.
  - rewrite Hs. eapply Forall_impl; [|exact Hwf]. intros s Hsw. apply Hsw.
Qed.

(* ---------------- refused calls ---------------- *)
Lemma failed_store_same c w ls e r w' e' :
  st_failed w = true -> store_logs c w ls e = (r, w', e') -> w' = w /\ e' = e.
Proof.
  intros Hf. unfold store_logs. destruct (st_closed w); [intros [= _ <- <-]; auto|].
  destruct ls; [intros [= _ <- <-]; auto|]. rewrite Hf. intros [= _ <- <-]; auto.
Qed.

Lemma failed_delete_same c w mn mx e r w' e' :
  st_failed w = true -> delete_range c w mn mx e = (r, w', e') -> w' = w /\ e' = e.
Proof.
  intros Hf. unfold delete_range. destruct (st_closed w); [intros [= _ <- <-]; auto|].
  destruct (mx <? mn); [intros [= _ <- <-]; auto|]. rewrite Hf. intros [= _ <- <-]; auto.
Qed.

(* ---------------- a call that is not Reopen ---------------- *)
Lemma FJ_files w d d' : dk_files d' = dk_files d -> dk_meta d' = dk_meta d -> FJ w d -> FJ w d'.
Proof. intros Ef Em H. unfold FJ in *. rewrite (meta_segs_files _ _ Em). eapply ISs'_files; eauto. Qed.

Lemma trunc_facts_files w d d' : dk_files d' = dk_files d -> trunc_facts w d -> trunc_facts w d'.
Proof. intros Ef H tw Et Hc. rewrite Ef. apply (H tw Et Hc). Qed.

Lemma trunc_facts_new w d si : st_tail w = Some (new_wseg si) -> trunc_facts w d.
Proof. intros Et tw Etw [K|K]; rewrite Et in Etw; inversion Etw; subst tw; cbn in K; [discriminate|lia]. Qed.

Theorem step_FJ c nb s o bd r s' nom defer :
  cfg_ok c -> sop_ok o -> o <> OReopen ->
  WL c (ss_wal s) bd (e_disk (ss_env s)) -> st_next_id (ss_wal s) + 2 < two64 ->
  Mode c nb (ss_wal s) (e_disk (ss_env s)) nom defer -> st_closed (ss_wal s) = false ->
  FJ (ss_wal s) (e_disk (ss_env s)) ->
  step_model c s o = (r, s') -> FJ (ss_wal s') (e_disk (ss_env s')).
Proof.
  intros Hc Ho Hne HW Hn HM Hcl HJ H.
  pose proof (WL_NoDup _ _ _ _ HW) as ND.
  assert (Hmid : forall (k : wal -> env -> Prop),
            (* what the mutating operation k does from the settled state *)
            (forall w1 e1, st_failed w1 = true -> FJ w1 (e_disk e1) -> k w1 e1) ->
            (forall w1 bd1 e1, WL c w1 bd1 (e_disk e1) -> st_next_id w1 + 1 < two64 -> FJ w1 (e_disk e1) -> ids_ok w1 ->
                               trunc_facts w1 (e_disk e1) -> k w1 e1) ->
            k (ss_wal (settle c s)) (ss_env (settle c s))).
  { intros k Kfail Kok.
    destruct (st_failed (ss_wal s)) eqn:Efa.
    - assert (Hro : st_rotate (ss_wal s) = None).
      { destruct HM as [(A & _)|(_ & [((HL & _) & _)|(_ & A & _)])]; try congruence.
        destruct HL as (_ & K & _). congruence. }
      unfold settle. rewrite Hro. apply Kfail; assumption.
    - destruct (start_facts c nb _ _ nom defer HM Hcl Efa) as (Hids & Hrf & Htf).
      destruct (settle_wlink c s bd Hc HW ltac:(lia)) as ((bd1 & _ & HW1) & Hn1).
      unfold settle in *. destruct (st_rotate (ss_wal s)) eqn:Er.
      + destruct (rotate c (ss_wal s) (ss_env s)) as [w1 e1] eqn:Erot. cbn [ss_wal ss_env] in *.
        destruct (rotate_FJ c _ _ w1 e1 ND HJ Hids Hrf (WL_tail_agree _ _ _ _ HW) ltac:(lia) Erot) as (HJ1 & ND1 & _ & Hcase).
        destruct Hcase as [(A & B & C & [D|(D1 & D2)])|(Hids1 & si & Et1)].
        * apply Kfail; assumption.
        * apply (Kok w1 bd1 e1 HW1 ltac:(lia) HJ1).
          -- unfold ids_ok in *. rewrite A, C. exact Hids.
          -- intros tw Etw Hc'. rewrite B in Etw. rewrite D1. rewrite A. apply (Htf tw Etw Hc').
        * apply (Kok w1 bd1 e1 HW1 ltac:(lia) HJ1 Hids1). eapply trunc_facts_new; eauto.
      + apply (Kok _ bd1 _ HW1 ltac:(lia) HJ Hids Htf). }
  destruct o; cbn [step_model] in H; try congruence.
  - set (s1 := settle c s) in *. destruct (store_logs c (ss_wal s1) ls (ss_env s1)) as [[r0 w'] e'] eqn:Es.
    inversion H; subst. cbn [ss_wal ss_env]. revert Es.
    apply (Hmid (fun w1 e1 => store_logs c w1 ls e1 = (r, w', e') -> FJ w' (e_disk e'))).
    + intros w1 e1 Hf1 HJ1 Es. destruct (failed_store_same _ _ _ _ _ _ _ Hf1 Es) as (-> & ->). exact HJ1.
    + intros w1 bd1 e1 HW1 Hn1 HJ1 Hids1 _ Es. eapply store_logs_FJ; eauto.
  - set (s1 := settle c s) in *. destruct (delete_range c (ss_wal s1) mn mx (ss_env s1)) as [[r0 w'] e'] eqn:Es.
    inversion H; subst. cbn [ss_wal ss_env]. revert Es.
    apply (Hmid (fun w1 e1 => delete_range c w1 mn mx e1 = (r, w', e') -> FJ w' (e_disk e'))).
    + intros w1 e1 Hf1 HJ1 Es. destruct (failed_delete_same _ _ _ _ _ _ _ _ Hf1 Es) as (-> & ->). exact HJ1.
    + intros w1 bd1 e1 HW1 Hn1 HJ1 Hids1 Htf1 Es. eapply delete_range_FJ; eauto.
  - destruct (get_log (ss_wal s) i (ss_env s)) as [r0 e'] eqn:Eg. inversion H; subst. cbn [ss_wal ss_env].
    destruct (get_log_env _ _ _ _ _ Eg) as [m ->]. exact HJ.
  - destruct (set_stable (ss_wal s) k v is_nil (ss_env s)) as [r0 e'] eqn:Eg. inversion H; subst. cbn [ss_wal ss_env].
    unfold set_stable in Eg. destruct (st_closed (ss_wal s)); [inversion Eg; subst; exact HJ|].
    cbn zeta in Eg. destruct (negb (key_ok k)); [inversion Eg; subst; exact HJ|].
    destruct (io _ _) as [ok e1] eqn:Eio.
    assert (Hx : FJ (ss_wal s) (e_disk e1)).
    { destruct (io_cases3 _ _ _ _ Eio) as [(_ & Ed)|[(_ & Ed)|(_ & _ & Ed)]]; rewrite Ed; [|exact HJ|];
        (eapply FJ_files; [| |exact HJ]; reflexivity). }
    destruct ok; inversion Eg; subst; exact Hx.
  - destruct (get_stable (ss_wal s) k (ss_env s)) as [r0 e'] eqn:Eg. inversion H; subst. cbn [ss_wal ss_env].
    unfold get_stable in Eg. destruct (st_closed (ss_wal s)); inversion Eg; subst; exact HJ.
Qed.

(* ---------------- every step ---------------- *)
Lemma sop_eq_reopen o : {o = OReopen} + {o <> OReopen}.
Proof. destruct o; try (right; discriminate). left. reflexivity. Qed.

Lemma FJH_disk h : FJH h -> ISs' (fdisk h) (meta_segs (fdisk h)).
Proof. unfold FJH. destruct (st_closed _); [auto|]. intros H. apply ISs'_app in H. apply H. Qed.

Theorem fault_step_FJ c nb h st bd :
  cfg_ok c -> fstep_wf st -> nb + 2 < two64 -> FInv c nb h -> FHL c nb h bd -> FJH h ->
  FJH (fstep_run c h st).
Proof.
  intros Hc Hwf Hnb HF HL HJ.
  assert (Hre : forall f fx, FJH {| fs_s := snd (step_model c (reopen_in h f fx) OReopen); fs_nom := fs_nom h;
                                     fs_alts := fs_alts h; fs_defer := fs_defer h; fs_ok := true |}).
  { intros f fx. destruct (FHL_wdrep _ _ _ _ HL) as (_ & ND).
    pose proof HF as (_ & _ & _ & _ & _ & _ & HRD & _).
    destruct (RD_open_facts _ _ _ _ _ HRD) as (Hsep & Hdid).
    cbn [step_model reopen_in ss_env ss_wal].
    destruct (open_wal c (adopted_env h f fx)) as [res e'] eqn:Eo.
    destruct (open_wal_FJ c (adopted_env h f fx) res e') as (_ & Hres); cbn [adopted_env e_disk]; auto.
    - apply adopt_NoDup. exact ND.
    - apply adopt_no_pend. exact ND.
    - change (meta_segs (adopt_disk (fdisk h))) with (meta_segs (fdisk h)). apply ISs'_adopt; [exact ND|apply FJH_disk; exact HJ].
    - destruct res as [w'|x]; cbn [snd]; unfold FJH, fdisk; cbn [fs_s ss_wal ss_env].
      + assert (Hcl : st_closed w' = false).
        { rewrite open_wal_unfold in Eo. destruct (_ && _); [discriminate|].
          destruct (if dk_inited _ then _ else _) as [ok0 e0]. destruct (negb ok0); [discriminate|].
          destruct (_ && _); [discriminate|]. unfold open_rest in Eo. destruct (open_segs _ _ _ _) as [[[r0 segs] tail] e1].
          destruct r0; try discriminate. destruct tail; [inversion Eo; reflexivity|].
          unfold open_newtail in Eo. cbn zeta in Eo. destruct (io _ e1) as [ok1 e2]. destruct (negb ok1); [discriminate|].
          destruct (seg_create _ _) as [[sw|] e3]; inversion Eo; reflexivity. }
        rewrite Hcl. exact Hres.
      + cbn [close st_closed]. exact Hres. }
  destruct st as [f fx o|].
  - destruct (sop_eq_reopen o) as [->|Hne].
    + unfold FJH, fdisk. rewrite freopen_s. cbn [with_fault ss_wal ss_env e_disk]. apply (Hre f fx).
    + rewrite fstep_run_other by exact Hne. unfold FJH, fdisk in *. rewrite fop_run_s.
      destruct (step_model c (with_fault (fs_s h) f fx) o) as [r s1] eqn:Es. cbn [snd with_fault ss_wal ss_env e_disk].
      unfold FHL, fdisk in HL. pose proof HF as (_ & _ & _ & _ & _ & _ & _ & HM).
      destruct (st_closed (ss_wal (fs_s h))) eqn:Ecl.
      * assert (Hro : st_rotate (ss_wal (fs_s h)) = None).
        { destruct HM as [(_ & Hr)|(Hc' & _)]; [exact Hr|congruence]. }
        destruct (FaultLinkFacts1.closed_step c (with_fault (fs_s h) f fx) o r s1 Ecl Hro Hne Es) as (Ed & Hcl').
        rewrite Hcl'. cbn [with_fault ss_env e_disk] in Ed. rewrite Ed. exact HJ.
      * destruct HL as (HW & Hnid).
        pose proof (step_FJ c nb (with_fault (fs_s h) f fx) o bd r s1 (fs_nom h) (fs_defer h) Hc Hwf Hne HW
                      ltac:(cbn [with_fault ss_wal]; lia) HM Ecl HJ Es) as HJ1.
        destruct (st_closed (ss_wal s1)); [|exact HJ1]. apply ISs'_app in HJ1. apply HJ1.
  - unfold FJH, fdisk. rewrite frestart_s. apply (Hre None fx_none).
Qed.

(* ---------------- histories ---------------- *)
Lemma FJH_init c s0 : initial c = Some s0 -> FJH (fault_init s0).
Proof.
  intros Hi. unfold initial in Hi. destruct (open_wal c fresh_env) as [res e'] eqn:Eo.
  destruct res as [w|x]; [|discriminate]. inversion Hi; subst s0. clear Hi.
  destruct (open_wal_FJ c fresh_env (OOk w) e') as (_ & Hres); cbn [fresh_env e_disk empty_disk dk_files dk_meta]; auto.
  - constructor.
  - intros n f H. discriminate.
  - constructor.
  - intros s u [].
  - exact I.
  - unfold FJH, fault_init, fdisk. cbn [fs_s ss_wal ss_env]. destruct (st_closed w); [|exact Hres].
    apply ISs'_app in Hres. apply Hres.
Qed.

(* EVERY HISTORY WITH INJECTED FAULTS, AT BYTE LEVEL: a byte-level run exists
   (given restarts_clean); at its end the WAL is linked to the byte disk (FHL),
   the invariant of fault_safety holds (FInv), and every sealed segment records
   the index start of its file (FJH). *)
Lemma fault_hist_bytes_gen c steps : forall nb h bd,
  cfg_ok c -> Forall fstep_wf steps -> nb + 2 * N.of_nat (length steps) < two64 ->
  FInv c nb h -> FHL c nb h bd -> FJH h -> restarts_clean c h bd steps ->
  exists bd', fbrun c h bd steps (fault_run c h steps) bd' /\
              FHL c (nb + 2 * N.of_nat (length steps)) (fault_run c h steps) bd' /\
              FInv c (nb + 2 * N.of_nat (length steps)) (fault_run c h steps) /\
              FJH (fault_run c h steps).
Proof.
  induction steps as [|st steps IH]; intros nb h bd Hc Hwf Hnb HF HL HJ Hrc.
  - exists bd. cbn [length fault_run fold_left]. replace (nb + 2 * N.of_nat 0) with nb by lia.
    split; [constructor|]. auto.
  - inversion Hwf as [|? ? Hw1 Hw2]; subst. cbn [length] in Hnb.
    destruct (fault_step_link c nb h st bd Hc Hw1 ltac:(lia) HF HL) as (bd1 & Hs1 & HL1).
    { intros Hr. apply (Hrc [] st steps h bd eq_refl Hr). constructor. }
    pose proof (FInv_step c nb h st Hc Hw1 ltac:(lia) HF) as HF1.
    pose proof (fault_step_FJ c nb h st bd Hc Hw1 ltac:(lia) HF HL HJ) as HJ1.
    destruct (IH (nb + 2) (fstep_run c h st) bd1 Hc Hw2 ltac:(lia) HF1 HL1 HJ1) as (bd' & Hrun & HL' & HF' & HJ').
    { intros pre st' post h1 bd2 E Hr Hpre. apply (Hrc (st :: pre) st' post h1 bd2); [cbn [app]; rewrite E; reflexivity|exact Hr|].
      econstructor; eauto. }
    exists bd'. cbn [fault_run fold_left length].
    replace (nb + 2 * N.of_nat (S (length steps))) with ((nb + 2) + 2 * N.of_nat (length steps)) by lia.
    split; [econstructor; eauto|]. auto.
Qed.

Theorem fault_hist_bytes c steps s0 :
  cfg_ok c -> Forall fstep_wf steps -> short_enough steps -> initial c = Some s0 ->
  exists bd0, FHL c 1 (fault_init s0) bd0 /\
    (restarts_clean c (fault_init s0) bd0 steps ->
     let h := fault_run c (fault_init s0) steps in
     let nb := 1 + 2 * N.of_nat (length steps) in
     exists bd, fbrun c (fault_init s0) bd0 steps h bd /\ FHL c nb h bd /\ FInv c nb h /\ FJH h).
Proof.
  intros Hc Hwf Hshort Hi. destruct (FHL_init c s0 Hi Hc) as (bd0 & HL0). exists bd0. split; [exact HL0|].
  intros Hrc h nb.
  apply (fault_hist_bytes_gen c steps 1 (fault_init s0) bd0 Hc Hwf); auto.
  - unfold short_enough in Hshort. unfold two64. lia.
  - apply FInv_init; assumption.
  - apply FJH_init with c. exact Hi.
Qed.

(* ---------------- the observable results, from bytes ---------------- *)
Lemma RV_seg_meta c nb w d nom : RV c nb w d nom -> FJ w d -> seg_meta_ok w d /\ (forall tw, st_tail w = Some tw -> 1 <= ws_base tw).
Proof.
  intros HRV HJ. destruct (RV_view _ _ _ _ _ HRV) as (wc & dc & S & t & f0 & tw & RVw & _ & _).
  pose proof (rv_view _ _ _ _ _ _ _ _ _ _ RVw) as V.
  pose proof (lv_tw _ _ _ _ _ _ _ _ V) as (Hn & Hb & _).
  pose proof (lv_twf V) as (_ & _ & Hb1 & _).
  split.
  - intros s Hin. rewrite (rv_segs _ _ _ _ _ _ _ _ _ _ RVw) in Hin.
    split; [eapply LInv_base_le_min; [apply (LInv_of_view V)|exact Hin]|].
    intros f Ef Hnt. rewrite (lv_segs _ _ _ _ _ _ _ _ V) in Hin. apply in_app_or in Hin as [Hin|[<-|[]]].
    + pose proof (lv_sealed _ _ _ _ _ _ _ _ V) as Hso. rewrite Forall_forall in Hso. destruct (Hso s Hin) as (Hse & _).
      apply FJ_mem in HJ. unfold ISs' in HJ. rewrite Forall_forall in HJ.
      assert (Hin' : In s (st_segs w)).
      { rewrite (rv_segs _ _ _ _ _ _ _ _ _ _ RVw), (lv_segs _ _ _ _ _ _ _ _ V). apply in_or_app. left. exact Hin. }
      destruct (HJ s Hin' Hse f Ef) as (A & B & C). unfold cur_seal. rewrite C. auto.
    + exfalso. apply (Hnt tw); [rewrite (rv_tail _ _ _ _ _ _ _ _ _ _ RVw); apply (lv_tail _ _ _ _ _ _ _ _ V)|exact Hn].
  - intros tw0 Et. rewrite (rv_tail _ _ _ _ _ _ _ _ _ _ RVw), (lv_tail _ _ _ _ _ _ _ _ V) in Et. inversion Et; subst tw0.
    rewrite Hb. exact Hb1.
Qed.

(* GETLOG OF THE RUNNING PROCESS, FROM BYTES, in any state of a history with
   injected faults that satisfies the invariants (every state of every history
   does: fault_hist_bytes) *)
Theorem fault_get_log c nb h bd idx l e' :
  FInv c nb h -> FHL c nb h bd -> FJH h -> st_closed (ss_wal (fs_s h)) = false ->
  get_log (ss_wal (fs_s h)) idx (ss_env (fs_s h)) = (RLog l, e') ->
  exists p, wbread c (ss_wal (fs_s h)) bd (fdisk h) idx p /\ decode_log p = Some l.
Proof.
  intros (_ & _ & _ & _ & _ & _ & _ & HM) HL HJ Hcl H. unfold FHL, FJH in *. rewrite Hcl in HL, HJ.
  destruct HL as (HW & _).
  destruct (RV_seg_meta c nb _ _ _ (Mode_RV _ _ _ _ _ _ HM Hcl) HJ) as (Hmeta & Hbase).
  eapply wget_log_link; eauto.
Qed.

(* ... and with fault_safety: whatever entry the NOMINAL state (the calls that
   returned nil applied, those that returned an error not) holds at index i is
   the decoding of the bytes the byte-level reader returns *)
Theorem fault_nominal_bytes c nb h bd i l :
  cfg_ok c -> nb + 2 < two64 -> FInv c nb h -> FHL c nb h bd -> FJH h -> st_closed (ss_wal (fs_s h)) = false ->
  i < two64 -> spec_get (sp_log (fs_nom h)) i = Some l ->
  exists p, wbread c (ss_wal (fs_s h)) bd (fdisk h) i p /\ decode_log p = Some l.
Proof.
  intros Hc Hnb HF HL HJ Hcl Hi Hsp.
  pose proof (FInv_getlog c nb h i Hc Hnb HF Hcl Hi) as Hres. cbn [step_spec] in Hres. rewrite Hsp in Hres. cbn [fst] in Hres.
  destruct (get_log (ss_wal (fs_s h)) i (ss_env (fs_s h))) as [r e'] eqn:Eg. cbn [fst] in Hres.
  apply res_class_log in Hres. subst r. eapply fault_get_log; eauto.
Qed.
