(* ComposeFacts5.v -- Open in lock step: open_segs (Filer.Open of the sealed
   segments, RecoverTail or re-creation of the tail), open_wal (metadata
   initialisation, completion of an interrupted rotation, garbage deletion).
   The byte-level RecoverTail of a file without a write in flight writes
   nothing (seg_recover_link), so there is no byte-level action to match. *)
From RW Require Import Base.Bytes Base.BytesFacts Base.Crc32c Fmt.Codec Fmt.Frame Fmt.FrameFacts
     Seg.Writer Seg.Recover Seg.SegAbs Seg.WriterFacts Seg.RecoverFacts Seg.ChainFacts
     Wal.Model Wal.Spec Wal.Hist Wal.CrashInv Wal.CrashFacts0 Wal.CrashFacts4
     Link.Abs Link.AbsFacts1 Link.AbsFacts2 Link.AbsFacts3 Link.AbsFacts4
     Link.Disk Link.DiskFacts1 Link.DiskFacts2 Link.Compose Link.ComposeFacts1 Link.ComposeFacts2
     Link.ComposeFacts3 Gen.Constants.
From Coq Require Import ZifyN ZifyNat ZifyBool.
Open Scope N_scope.

Definition name_small (s : seginfo) : Prop := si_base s < two64 /\ si_id s < two64.

(* the persisted metadata names files with 64-bit components *)
Definition meta_small (d : disk) : Prop :=
  match dk_meta d with
  | Some ps => ps_next_id ps < two64 /\ Forall name_small (ps_segs ps)
  | None => True
  end.

Lemma open_segs_link c segs : forall acc bd e r segs' tail e1,
  cfg_ok c -> drep c bd (e_disk e) -> NoDup (map fst (dk_files (e_disk e))) -> e_fault e = None ->
  no_pend (e_disk e) -> Forall name_small segs ->
  open_segs c segs acc e = (r, segs', tail, e1) ->
  exists bd', erun c bd e bd' e1 /\ NoDup (map fst (dk_files (e_disk e1))) /\
              tail_linked c tail bd' (e_disk e1).
Proof.
  induction segs as [|si rest IH]; intros acc bd e r segs' tail e1 Hc H0 Hnd Hf Hnp Hsm H.
  - cbn [open_segs] in H. inversion H; subst. exists bd. split; [apply erun_refl; assumption|]. split; [exact Hnd|exact I].
  - assert (Hsame : (tail, e1) = (None, e) ->
                    exists bd', erun c bd e bd' e1 /\ NoDup (map fst (dk_files (e_disk e1))) /\
                                tail_linked c tail bd' (e_disk e1)).
    { intros [= -> ->]. exists bd. split; [apply erun_refl; assumption|]. split; [exact Hnd|exact I]. }
    inversion Hsm as [|? ? (Hb & Hi) Hsm']; subst.
    cbn [open_segs] in H.
    destruct (si_codec si =? c_codec c) eqn:Ecod; cbn [negb] in H; [|inversion H; subst; apply Hsame; reflexivity].
    apply N.eqb_eq in Ecod.
    destruct (si_sealed si); cbn [negb] in H.
    + destruct (lookup (name_of si) (dk_files (e_disk e))) as [f|]; [|inversion H; subst; apply Hsame; reflexivity].
      destruct (cur_end f =? 0); [inversion H; subst; apply Hsame; reflexivity|].
      eapply IH; eauto.
    + destruct rest as [|s2 rest']; [|inversion H; subst; apply Hsame; reflexivity].
      assert (Hh : hdr_wf (finfo c (name_of si))).
      { destruct Hc as (_ & Hcod & _). unfold hdr_wf, finfo, name_of, new_segment. cbn. auto. }
      destruct (lookup (name_of si) (dk_files (e_disk e))) as [f|] eqn:El.
      * destruct (seg_recover_link c si bd e f H0 Ecod El (Hnp _ _ El)) as (Hrec & bs & bf & T & _).
        rewrite Hrec in H.
        destruct (0 <? ws_index_start (recw si f)); [inversion H; subst; apply Hsame; reflexivity|].
        inversion H; subst. exists bd. split; [apply erun_refl; assumption|]. split; [exact Hnd|].
        cbn [tail_linked]. eauto.
      * rewrite (seg_recover_missing si e El) in H.
        destruct (seg_create si e) as [sw e2] eqn:Es.
        destruct (seg_create_link c si bd e sw e2 None H0 Hnd Hf Ecod Hh I Es) as (bd2 & E2 & Hnd2 & Hsw).
        destruct sw as [sw|].
        -- destruct Hsw as [-> T].
           replace (0 <? ws_index_start (new_wseg si)) with false in H by reflexivity.
           inversion H; subst. exists bd2. split; [exact E2|]. split; [exact Hnd2|]. cbn [tail_linked]. eauto.
        -- inversion H; subst. exists bd2. split; [exact E2|]. split; [exact Hnd2|exact I].
Qed.

Lemma open_newtail_link c nid0 segs garbage bd e res e' :
  cfg_ok c -> drep c bd (e_disk e) -> NoDup (map fst (dk_files (e_disk e))) -> e_fault e = None ->
  nid0 < two64 ->
  open_newtail c nid0 segs garbage e = (res, e') ->
  exists bd', erun c bd e bd' e' /\
              match res with OOk w => wlink c w bd' (e_disk e') /\ small_tail (st_tail w) | OErr _ => True end.
Proof.
  intros Hc H0 Hnd Hf Hid H. unfold open_newtail in H. cbn zeta in H.
  set (base := match tail_info segs with Some t => (si_max t + 1) mod two64 | None => 1 end) in *.
  set (si := new_segment c nid0 base) in *.
  rewrite (io_nofault _ _ Hf) in H. cbn [negb] in H.
  match type of H with context [io_ok e ?a] => set (e1 := io_ok e a) in * end.
  assert (E1 : erun c bd e bd e1) by (apply erun_meta; [exact I|assumption..]).
  assert (Hbase : base < two64).
  { unfold base. destruct (tail_info segs); [apply N.mod_lt; unfold two64; lia|unfold two64; lia]. }
  assert (Hh : hdr_wf (finfo c (name_of si))).
  { destruct Hc as (_ & Hcod & _). unfold hdr_wf, finfo, name_of, si, new_segment. cbn. auto. }
  destruct (seg_create si e1) as [sw e2] eqn:Es.
  destruct (seg_create_link c si bd e1 sw e2 None (erun_end _ _ _ _ _ E1) (NoDup_apply _ _ Hnd)
              (erun_fault _ _ _ _ _ E1) eq_refl Hh I Es) as (bd2 & E2 & Hnd2 & Hsw).
  destruct sw as [sw|].
  - destruct Hsw as [-> T].
    assert (Hl2 : tail_linked c (Some (new_wseg si)) bd2 (e_disk e2)) by (cbn; eauto).
    destruct (delete_files_link c garbage bd2 e2 (Some (new_wseg si)) (erun_end _ _ _ _ _ E2) Hnd2
                (erun_fault _ _ _ _ _ E2) Hl2) as (bd3 & E3 & Hnd3 & Hl3).
    inversion H; subst. exists bd3. split; [eapply erun_trans; [exact E1|eapply erun_trans; eauto]|].
    split.
    + split; [apply (erun_end _ _ _ _ _ E3)|]. split; [exact Hnd3|].
      split; [cbn [st_next_id]; apply N.mod_lt; unfold two64; lia|exact Hl3].
    + cbn [st_tail small_tail]. intros _. cbn [new_wseg si new_segment ws_limit ws_off ws_n si_size_limit].
      destruct Hc as (_ & _ & _ & Hsz).
      assert (c_seg_size c mod two32 < two30) by (rewrite N.mod_small; [exact Hsz|unfold two30, two32 in *; lia]).
      lia.
  - inversion H; subst. exists bd2. split; [eapply erun_trans; eauto|exact I].
Qed.

Theorem open_wal_link c bd e res e' :
  cfg_ok c -> drep c bd (e_disk e) -> NoDup (map fst (dk_files (e_disk e))) -> e_fault e = None ->
  no_pend (e_disk e) -> meta_small (e_disk e) ->
  open_wal c e = (res, e') ->
  exists bd', erun c bd e bd' e' /\
              match res with OOk w => wlink c w bd' (e_disk e') | OErr _ => True end.
Proof.
  intros Hc H0 Hnd Hf Hnp Hms H. rewrite open_wal_unfold in H.
  destruct (negb (FirstExternalCodecID <=? c_codec c) && negb (c_codec c =? BinaryCodecID)).
  { inversion H; subst. exists bd. split; [apply erun_refl; assumption|exact I]. }
  (* after the (optional) initialisation of the metadata database *)
  assert (Hrest : forall bd0 e0,
            erun c bd e bd0 e0 -> NoDup (map fst (dk_files (e_disk e0))) -> no_pend (e_disk e0) ->
            meta_small (e_disk e0) -> open_rest c e0 = (res, e') ->
            exists bd', erun c bd e bd' e' /\
                        match res with OOk w => wlink c w bd' (e_disk e') | OErr _ => True end).
  { intros bd0 e0 E0 Hnd0 Hnp0 Hms0 Hr. unfold open_rest in Hr. cbn zeta in Hr.
    set (ps := match dk_meta (e_disk e0) with Some ps => ps | None => {| ps_next_id := 0; ps_segs := [] |} end) in *.
    assert (Hps : ps_next_id ps < two64 /\ Forall name_small (ps_segs ps)).
    { unfold ps, meta_small in *. destruct (dk_meta (e_disk e0)); [exact Hms0|]. cbn. split; [unfold two64; lia|constructor]. }
    destruct Hps as [Hpid Hpsm].
    destruct (open_segs c (ps_segs ps) [] e0) as [[[r segs] tail] e1] eqn:Eo.
    destruct (open_segs_link c _ _ bd0 e0 r segs tail e1 Hc (erun_end _ _ _ _ _ E0) Hnd0 (erun_fault _ _ _ _ _ E0)
                Hnp0 Hpsm Eo) as (bd1 & E1 & Hnd1 & Ht1).
    pose proof (erun_trans _ _ _ _ _ _ _ E0 E1) as E01.
    destruct r; try solve [inversion Hr; subst; exists bd1; split; [exact E01|exact I]].
    destruct tail as [tw|].
    - destruct (delete_files_link c (filter (fun n => negb (listed (ps_segs ps) n)) (map fst (dk_files (e_disk e0))))
                  bd1 e1 (Some tw) (erun_end _ _ _ _ _ E1) Hnd1 (erun_fault _ _ _ _ _ E1) Ht1) as (bd2 & E2 & Hnd2 & Ht2).
      inversion Hr; subst. exists bd2. split; [eapply erun_trans; eauto|].
      split; [apply (erun_end _ _ _ _ _ E2)|]. split; [exact Hnd2|]. split; [exact Hpid|exact Ht2].
    - destruct (open_newtail_link c _ _ _ bd1 e1 res e' Hc (erun_end _ _ _ _ _ E1) Hnd1 (erun_fault _ _ _ _ _ E1) Hpid Hr)
        as (bd2 & E2 & Hres).
      exists bd2. split; [eapply erun_trans; eauto|]. destruct res; [apply Hres|exact I]. }
  destruct (dk_inited (e_disk e)).
  - cbn [negb] in H. unfold armed in H. rewrite Hf in H. cbn [andb] in H.
    apply (Hrest bd e); auto. apply erun_refl; assumption.
  - rewrite (io_nofault _ _ Hf) in H. cbn [negb] in H.
    unfold armed in H. rewrite (io_ok_fault _ _ Hf) in H. cbn [andb] in H.
    apply (Hrest bd (io_ok e AInitMeta)); auto.
    + apply erun_meta; [exact I|assumption..].
Qed.
