(* FaultIS.v -- the recorded IndexStart (Link/IndexStart.v) along histories WITH
   INJECTED FAULTS (Wal/FaultHist.v); definitions only.

   In these histories a file can carry a pending batch for a long time (a
   failed fsync), the in-memory segment list can lag behind the metadata on
   the disk (a creation that failed after the commit), and there is no
   structural invariant at the I/O boundaries inside a call.  The invariant is
   therefore stated for BOTH lists and includes that the file of a segment
   listed as sealed has nothing pending:
     ISseg' d s   s listed as sealed, its file f exists  ==>
                  si_index_start s = df_seal f <> 0  and  df_pend f = None
     FJ w d       ISseg' for every segment of the in-memory list of w and of
                  the metadata of d
   Facts a call needs at its start (they follow from the invariant FInv of
   fault_safety, FaultISFacts2.v):
     ids_ok       listed segment ids are below the next id
     rot_facts    a pending rotation: the tail writer is sealed at st_rotate,
                  the listed tail is its segment, its file has nothing pending
     trunc_facts  for the tail truncation: the unsealed listed segment is the
                  tail writer's; a sealed tail writer's file has nothing pending
     tail_agree   the tail writer's index start is the seal offset of its file
                  (from the byte-level link WL) *)
From RW Require Import Base.Bytes Fmt.Codec Fmt.Frame Wal.Model Wal.Spec Wal.Hist Wal.FaultHist
     Link.IndexStart Gen.Constants.
Open Scope N_scope.

Definition ISseg' (d : disk) (s : seginfo) : Prop :=
  si_sealed s = true ->
  forall f, lookup (name_of s) (dk_files d) = Some f ->
    si_index_start s = df_seal f /\ df_seal f <> 0 /\ df_pend f = None.

Definition ISs' (d : disk) (segs : list seginfo) : Prop := Forall (ISseg' d) segs.

Definition meta_segs (d : disk) : list seginfo :=
  match dk_meta d with Some ps => ps_segs ps | None => [] end.

Definition FJ (w : wal) (d : disk) : Prop := ISs' d (st_segs w ++ meta_segs d).

Definition ids_ok (w : wal) : Prop := Forall (fun s => si_id s < st_next_id w) (st_segs w).

Definition tail_agree (w : wal) (d : disk) : Prop :=
  forall tw f, st_tail w = Some tw -> lookup (ws_name tw) (dk_files d) = Some f -> df_seal f = ws_index_start tw.

Definition rot_facts (w : wal) (d : disk) : Prop :=
  forall i, st_rotate w = Some i ->
    exists tw, st_tail w = Some tw /\ ws_index_start tw = i /\ 0 < i /\
      (forall t, tail_info (st_segs w) = Some t -> name_of t = ws_name tw) /\
      (forall f, lookup (ws_name tw) (dk_files d) = Some f -> df_pend f = None).

Definition trunc_facts (w : wal) (d : disk) : Prop :=
  forall tw, st_tail w = Some tw -> (ws_n tw =? 0) = false \/ 0 < ws_index_start tw ->
    (forall x, In x (st_segs w) -> si_sealed x = false -> name_of x = ws_name tw) /\
    (0 < ws_index_start tw -> forall f, lookup (ws_name tw) (dk_files d) = Some f -> df_pend f = None).

(* the disk meta's ids (for Open) *)
Definition dids_ok (d : disk) : Prop :=
  match dk_meta d with
  | Some ps => Forall (fun s => si_id s < ps_next_id ps) (ps_segs ps)
  | None => True
  end.
