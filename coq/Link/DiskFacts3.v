(* DiskFacts3.v -- the directory level of the link, part 3: what the per-file
   link left open about restarts without power loss and failed fsyncs.
   (a) adopt_disk (a process restart: what was written but never fsynced is
       still in the page cache and is adopted by the next recovery).  Its
       byte-level counterpart forgets that the bytes were not synced -- this is
       L2's modelling decision, mirrored, not a fact about disks.  frep/drep are
       preserved; byte-level recovery of the adopted file returns the writer
       seg_recover builds and RecoverTail writes nothing.  After adoption the
       next AWrite is an ordinary write at the synced end (bwrite_drep).
   (b) the branch of apply_act that EXTENDS a pending batch (write at pb_end of
       a batch that is still pending, i.e. without adopt_disk in between): the
       merged batch stands for two L1 batches; content and fsync agree with the
       bytes.  (The all-or-nothing crash of the merged batch is weaker than
       tearing: see Props/Link.v Link_ex_merged_crash.)
   (c) a FAILED fsync: the writers are rolled back (.._sim_faults), the bytes
       stay in the file and in L2's df_pend; frep_at still holds (with the batch
       pending).  The retry writes at the same offset: L2 replaces the pending
       batch, the bytes overwrite the old ones.  If the new write is at least as
       long, "image, then zeros" holds again; if it is shorter, the rest of the
       old write stays behind the image until it is overwritten or zeroed. *)
From RW Require Import Base.Bytes Base.BytesFacts Base.Crc32c Fmt.Codec Fmt.Frame Fmt.FrameFacts
     Seg.Writer Seg.Recover Seg.SegAbs Seg.WriterFacts Seg.RecoverFacts Seg.ChainFacts
     Wal.Model Wal.Spec Wal.CrashFacts0 Link.Abs Link.AbsFacts1 Link.AbsFacts2 Link.AbsFacts3 Link.AbsFacts4
     Link.Disk Link.DiskFacts1 Link.DiskFacts2 Gen.Constants.
From Coq Require Import ZifyN ZifyNat ZifyBool.
Open Scope N_scope.

(* ---------------- (a) restart without power loss ---------------- *)
Definition badopt_file (bf : bfile) : bfile :=
  {| bf_data := bf_data bf; bf_sync := bf_data bf; bf_pend := []; bf_dir := bf_dir bf |}.
Definition badopt (bd : bdisk) : bdisk := map (fun nf => (fst nf, badopt_file (snd nf))) bd.

Lemma cur_ents_adopt f : cur_ents (adopt_file f) = cur_ents f.
Proof. unfold adopt_file. destruct (df_pend f) eqn:E; unfold cur_ents; cbn [df_pend df_ents]; rewrite ?E; reflexivity. Qed.

Lemma frep_adopt info bs pb bf f :
  frep_at info bs pb bf f -> frep_at info (bs ++ opt_batch pb) None (badopt_file bf) (adopt_file f).
Proof.
  intros R. pose proof (frep_sync _ _ _ _ _ R) as [A B C D E F G].
  pose proof (fr_dir _ _ _ _ _ R) as Hd.
  constructor; cbn [opt_batch badopt_file bf_sync bf_pend bf_dir bf_data] in *.
  - destruct R as [A' _ _ _ _ _ _]. destruct pb as [b|]; cbn [opt_batch] in *.
    + destruct A' as (R0 & p & Hp & Hb1 & Hb2 & Hb3). unfold adopt_file. rewrite Hp.
      destruct R0 as [R1 R2 R3 R4]. cbn [unpend df_ents df_end df_seal df_pend] in *.
      constructor; cbn [df_ents df_end df_seal df_pend]; auto.
      rewrite pls_snoc, map_app, Hb1, R1. reflexivity.
    + rewrite app_nil_r. unfold adopt_file. rewrite (rep_pend _ _ _ A'). exact A'.
  - rewrite cur_ents_adopt. rewrite cur_ents_crashed_true in B. exact B.
  - exact C.
  - exact D.
  - reflexivity.
  - reflexivity.
  - rewrite Hd. unfold adopt_file. destruct (df_pend f); reflexivity.
Qed.

Theorem drep_adopt c bd d : drep c bd d -> drep c (badopt bd) (adopt_disk d).
Proof.
  unfold drep. cbn [adopt_disk dk_files]. generalize (dk_files d). intros fs H.
  induction H as [|[m bf] [n f] bd fs (Hn & Hh & bs & pb & R) _ IH]; cbn [badopt map]; [constructor|].
  constructor; [|exact IH]. cbn [fst snd] in *. split; [exact Hn|]. split; [exact Hh|].
  eexists. exists None. apply frep_adopt. exact R.
Qed.

(* recovery after the restart: the byte-level writer recovered from the file
   (pending bytes included) is represented by the writer seg_recover builds,
   and zeroStaleTail has nothing to do *)
Theorem restart_recover info bs pb bf f e :
  hdr_wf info -> frep_at info bs pb bf f ->
  lookup (name_of info) (dk_files (e_disk e)) = Some (adopt_file f) ->
  let bs' := bs ++ opt_batch pb in
  recover_state info (bf_data bf) = Some (wst info (cstate info bs')) /\
  seg_recover info e = Some (Some (recw info (adopt_file f))) /\
  rep_w (wst info (cstate info bs')) (recw info (adopt_file f)) /\
  bf_data (bscrub_file info (bkept (bf_data bf))) = bf_data bf.
Proof.
  intros Hh R Hl bs'. pose proof (frep_adopt _ _ _ _ _ R) as Ra. fold bs' in Ra.
  destruct (frep_crash_clean info bs' (badopt_file bf) (adopt_file f) true Hh Ra) as (_ & P2 & P3).
  cbn [badopt_file bf_sync] in P2, P3.
  split; [exact P2|]. split; [apply seg_recover_char; exact Hl|]. split; [|exact P3].
  apply rep_w_recw, rep_cur_rep. apply (fr_rep _ _ _ _ _ Ra).
Qed.

(* ---------------- (b) a write that extends a pending batch ---------------- *)
Definition merged (p q : pbatch) : pbatch :=
  {| pb_ents := pb_ents p ++ pb_ents q; pb_end := pb_end q; pb_seal := pb_seal q |}.

Lemma apply_extend_files d n l p q f :
  lookup n (dk_files d) = Some f -> df_pend f = Some p ->
  dk_files (apply_act d (AWrite n (pb_end p) l q)) = update n (written f (merged p q)) (dk_files d).
Proof. intros H Hp. cbn [apply_act]. rewrite H, Hp, N.eqb_refl. reflexivity. Qed.

(* f has b1 pending (pbatch p); the batch b2 is written right behind it.  L2's
   merged pending batch stands for the two L1 batches: the content a reader or a
   restarted process sees is that of bs ++ [b1; b2], the bytes are its image
   followed by zeros, and an fsync commits both on both sides. *)
Theorem frep_extend info bs b1 b2 bf f p q :
  let s1 := cstate info (bs ++ [b1]) in
  let new2 := batch_write info s1 b2 in
  let bf2 := bwrite_file bf (len (image info (bs ++ [b1]))) new2 in
  let f2 := written f (merged p q) in
  frep_at info bs (Some b1) bf f -> df_pend f = Some p ->
  rep_b info (bs ++ [b1]) b2 q -> Forall log_ok (pb_ents q) ->
  len (image info (bs ++ [b1; b2])) < two32 ->
  cur_rep info (bs ++ [b1; b2]) f2 /\
  (exists k, bf_data bf2 = image info (bs ++ [b1; b2]) ++ zeros k) /\
  frep_at info (bs ++ [b1; b2]) None (bsync_file bf2) (crashed true f2).
Proof.
  intros s1 new2 bf2 f2 R Hp (Hq1 & Hq2 & Hq3) Hok Hlen.
  pose proof (frep_sync _ _ _ _ _ R) as Rs. cbn [opt_batch] in Rs.
  destruct R as [A B C [k D] E F G]. cbn [opt_batch] in *.
  destruct A as (R0 & p' & Hp' & Hb1 & Hb2 & Hb3). rewrite Hp in Hp'. inversion Hp'; subst p'.
  destruct R0 as [R1 R2 R3 R4]. cbn [unpend df_ents df_end df_seal df_pend] in *.
  replace (bs ++ [b1; b2]) with ((bs ++ [b1]) ++ [b2]) in * by (rewrite <- app_assoc; reflexivity).
  assert (Hc : cur_rep info ((bs ++ [b1]) ++ [b2]) f2).
  { unfold cur_rep, cur_ents, cur_end, cur_seal, f2. cbn [written merged df_pend df_ents pb_ents pb_end pb_seal].
    split; [|split; assumption]. rewrite !pls_snoc, !map_app, Hb1, Hq1, R1, app_assoc. reflexivity. }
  assert (Hd : exists k', bf_data bf2 = image info ((bs ++ [b1]) ++ [b2]) ++ zeros k').
  { destruct (fr_sync _ _ _ _ _ Rs) as [k1 D1]. cbn [bsync_file bf_sync] in D1.
    unfold bf2, bwrite_file, pwrite. cbn [bf_data fst snd]. rewrite D1, to_nat_len, overwrite_app, skipn_zeros, app_assoc.
    rewrite (image_snoc info (bs ++ [b1]) b2). fold s1 new2. eexists. reflexivity. }
  split; [exact Hc|]. split; [exact Hd|].
  destruct Hd as [k' Hd]. destruct Hc as (Hc1 & Hc2 & Hc3).
  constructor; cbn [opt_batch bsync_file bf_sync bf_pend bf_dir bf_data].
  - unfold f2, crashed. cbn [written df_pend synced merged pb_ents pb_end pb_seal df_ents df_size].
    constructor; cbn [df_ents df_end df_seal df_pend]; auto.
  - rewrite cur_ents_crashed_true. unfold f2, cur_ents. cbn [written df_pend merged pb_ents df_ents].
    rewrite app_assoc. apply Forall_app. split; [|exact Hok]. unfold cur_ents in B. rewrite Hp in B. exact B.
  - rewrite app_nil_r. exact Hlen.
  - exists k'. exact Hd.
  - reflexivity.
  - reflexivity.
  - reflexivity.
Qed.

(* ---------------- (c) a failed fsync, then the retry ---------------- *)
(* after "write ok, fsync failed" both sides hold the batch as pending: this IS
   frep_at _ bs (Some b1) (bwrite_drep, first conjunct), and the writers are
   rolled back to the ones of bs (Link_append_sim_faults).  The next operation
   writes at the same offset. *)
Lemma apply_replace_files d n off l p q f :
  lookup n (dk_files d) = Some f -> df_pend f = Some p -> off <> pb_end p ->
  dk_files (apply_act d (AWrite n off l q)) = update n (written f q) (dk_files d).
Proof.
  intros H Hp Hne. cbn [apply_act]. rewrite H, Hp.
  replace (off =? pb_end p) with false by (symmetry; apply N.eqb_neq; exact Hne). reflexivity.
Qed.

Lemma batch_write_pos info s b : 0 < len (batch_write info s b).
Proof. rewrite len_batch_write. lia. Qed.

Theorem frep_retry info bs b1 b2 bf f p q :
  let s := cstate info bs in
  let off := len (image info bs) in
  let new1 := batch_write info s b1 in
  let new2 := batch_write info s b2 in
  let bf2 := bwrite_file bf off new2 in
  let f2 := written f q in
  frep_at info bs (Some b1) bf f -> df_pend f = Some p ->
  rep_b info bs b2 q -> Forall log_ok (pb_ents q) -> len (image info (bs ++ [b2])) < two32 ->
  (* L2 replaces the pending batch (the write is not at pb_end p) *)
  off <> pb_end p /\
  (* L2: the file represents bs with b2 pending; after the fsync bs ++ [b2] *)
  rep_p info bs b2 f2 /\ rep info (bs ++ [b2]) (crashed true f2) /\
  (* bytes: the image of bs ++ [b2], then what is left of the failed write, then zeros *)
  (exists k, bf_data bf2 = image info (bs ++ [b2]) ++ skipn (length new2) new1 ++ zeros k) /\
  (* a retry at least as long as the failed write re-establishes the link *)
  (len new1 <= len new2 ->
   exists k, bf_data bf2 = image info (bs ++ [b2]) ++ zeros k /\
             frep_at info (bs ++ [b2]) None (bsync_file bf2) (crashed true f2)).
Proof.
  intros s off new1 new2 bf2 f2 R Hp Hq Hok Hlen.
  pose proof (frep_sync _ _ _ _ _ R) as Rs. cbn [opt_batch] in Rs.
  destruct R as [A B C [k D] E F G]. cbn [opt_batch] in *.
  destruct A as (R0 & p' & Hp' & Hb1 & Hb2 & Hb3). rewrite Hp in Hp'. inversion Hp'; subst p'.
  assert (Hne : off <> pb_end p).
  { rewrite Hb2, image_snoc, len_app. pose proof (batch_write_pos info (cstate info bs) b1). unfold off. lia. }
  assert (Rp : rep_p info bs b2 f2).
  { split; [exact R0|]. exists q. split; [reflexivity|exact Hq]. }
  assert (Hdata : bf_data bf = image info bs ++ new1 ++ zeros (k - length new1)).
  { unfold bf_wf in F. rewrite F, D, E. cbn [pwrites fold_left]. unfold pwrite. cbn [fst snd].
    rewrite to_nat_len, overwrite_app, skipn_zeros. reflexivity. }
  assert (Hd2 : bf_data bf2 = image info (bs ++ [b2]) ++ skipn (length new2) (new1 ++ zeros (k - length new1))).
  { unfold bf2, bwrite_file, pwrite. cbn [bf_data fst snd]. rewrite Hdata. unfold off.
    rewrite to_nat_len, overwrite_app, app_assoc, image_snoc. reflexivity. }
  split; [exact Hne|]. split; [exact Rp|]. split; [apply (rep_crashed info bs b2 f2 true Rp)|]. split.
  - rewrite Hd2. rewrite skipn_app, skipn_zeros. eexists. reflexivity.
  - intros Hle. assert (Hz : exists k', skipn (length new2) (new1 ++ zeros (k - length new1)) = zeros k').
    { rewrite skipn_app. rewrite (skipn_all2 new1) by (unfold len in Hle; lia). rewrite skipn_zeros. eexists. reflexivity. }
    destruct Hz as [k' Hz]. rewrite Hz in Hd2. exists k'. split; [exact Hd2|].
    constructor; cbn [opt_batch bsync_file bf_sync bf_pend bf_dir bf_data].
    + apply (rep_crashed info bs b2 f2 true Rp).
    + rewrite cur_ents_crashed_true. unfold f2, cur_ents. cbn [written df_pend df_ents].
      apply Forall_app. split; [|exact Hok]. unfold cur_ents in B. rewrite Hp in B. apply Forall_app in B. apply B.
    + rewrite app_nil_r. exact Hlen.
    + exists k'. exact Hd2.
    + reflexivity.
    + reflexivity.
    + reflexivity.
Qed.
