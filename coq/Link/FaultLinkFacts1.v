(* FaultLinkFacts1.v -- every step of a history with injected faults
   (Wal/FaultHist.v) at byte level.
     *_nid              a call allocates at most two segment ids
     step_wlink         a call (not Reopen) from a linked running WAL: its
                        effective actions are a weak lock-step run, the result is
                        linked
     closed_step        a call on a WAL that is not open touches nothing
     reopen_wlink       restart / reopen: byte-level recovery of every file
                        (brestart) gives back the STRONG relation to adopt_disk,
                        then Open runs in lock step, with whatever faults
     LInv_WG            the numeric guards of WL from the live invariant
     fault_step_link    FHL is kept by every step; every step has a byte-level
                        step (fbstep), given stale_free at restarts
     fbrun_sound / fault_hist_link   whole histories *)
From RW Require Import Base.Bytes Base.BytesFacts Base.Crc32c Fmt.Codec Fmt.Frame Fmt.FrameFacts
     Seg.Writer Seg.Recover Seg.SegAbs Seg.WriterFacts Seg.RecoverFacts Seg.ChainFacts Seg.FailFacts
     Wal.Model Wal.Spec Wal.Hist Wal.FaultHist Wal.CrashInv Wal.CrashFacts0 Wal.CrashFacts1 Wal.CrashFacts4
     Wal.CrashFacts5 Wal.CrashFacts6 Wal.CrashCalls3 Wal.FaultInv Wal.FaultThm
     Link.Abs Link.AbsFacts1 Link.AbsFacts2 Link.AbsFacts3 Link.AbsFacts4
     Link.Disk Link.DiskFacts1 Link.DiskFacts2 Link.DiskFacts3 Link.Compose Link.ComposeFacts1 Link.ComposeFacts2
     Link.ComposeFacts3 Link.ComposeFacts5 Link.ComposeFacts6
     Link.FaultDisk Link.FaultDiskFacts1 Link.FaultDiskFacts2 Link.FaultDiskFacts3 Link.FaultDiskFacts4
     Link.FaultLink Gen.Constants.
From Coq Require Import ZifyN ZifyNat ZifyBool.
Open Scope N_scope.

(* ---------------- segment ids ---------------- *)
Definition nid_step (w w' : wal) : Prop :=
  st_next_id w' = st_next_id w \/ st_next_id w' = (st_next_id w + 1) mod two64.

Lemma mutate_nid w t e r w' e' : mutate w t e = (r, w', e') -> st_next_id w' = st_next_id w \/ st_next_id w' = tx_next_id t.
Proof.
  unfold mutate. destruct (mutate_gen false w t e) as [[[r0 w0] e0] d0] eqn:E. intros [= _ <- _].
  eapply mutate_gen_nid; eauto.
Qed.

Lemma reset_first_nid c w nb e r w' e' dels : reset_first c w nb e = (r, w', e', dels) -> nid_step w w'.
Proof.
  unfold reset_first, nid_step. destruct (0 <? last_index _ _); [intros [= _ <- _ _]; auto|].
  destruct (tail_info (st_segs w)) as [t|].
  - destruct (si_base t =? nb); intros H; destruct (mutate_gen_nid _ _ _ _ _ _ _ _ H) as [->| ->]; auto.
  - intros H; destruct (mutate_gen_nid _ _ _ _ _ _ _ _ H) as [->| ->]; auto.
Qed.

Lemma sl_go_nid last ls w e r w' e' : sl_go last ls w e = (r, w', e') -> st_next_id w' = st_next_id w.
Proof.
  unfold sl_go. destruct (check_logs last ls) as [res nb]. destruct res; try (intros [= _ <- _]; reflexivity).
  destruct (st_tail w); [|intros [= _ <- _]; reflexivity].
  destruct (seg_append _ _ _) as [[r0 tw'] e1]. destruct r0; intros [= _ <- _]; reflexivity.
Qed.

Lemma store_logs_nid c w ls e r w' e' : store_logs c w ls e = (r, w', e') -> nid_step w w'.
Proof.
  rewrite store_logs_unfold. unfold nid_step. destruct (st_closed w); [intros [= _ <- _]; auto|].
  destruct ls as [|l0 lr]; [intros [= _ <- _]; auto|]. destruct (st_failed w); [intros [= _ <- _]; auto|].
  cbn zeta. destruct (tail_info (st_segs w)); [|intros [= _ <- _]; auto].
  destruct (_ && _).
  - destruct (reset_first c w (l_index l0) e) as [[[r1 w1] e1] dels] eqn:Er.
    pose proof (reset_first_nid _ _ _ _ _ _ _ _ Er) as H1.
    destruct r1; try (intros [= _ <- _]; exact H1).
    destruct (sl_go _ _ w1 e1) as [[r2 w2] e2] eqn:Eg. intros [= _ <- _]. rewrite (sl_go_nid _ _ _ _ _ _ _ Eg). exact H1.
  - intros H. left. eapply sl_go_nid; eauto.
Qed.

Lemma delete_range_nid c w mn mx e r w' e' : delete_range c w mn mx e = (r, w', e') -> nid_step w w'.
Proof.
  unfold delete_range, nid_step. destruct (st_closed w); [intros [= _ <- _]; auto|].
  destruct (mx <? mn); [intros [= _ <- _]; auto|]. destruct (st_failed w); [intros [= _ <- _]; auto|]. cbn zeta.
  destruct (_ || _); [intros [= _ <- _]; auto|].
  destruct (mn <=? _).
  { unfold truncate_head. destruct (head_scan _ _ _ _ _) as [[[rest del] ntr] head]. destruct head.
    - intros H. destruct (mutate_nid _ _ _ _ _ _ H) as [->| ->]; auto.
    - intros H. destruct (mutate_nid _ _ _ _ _ _ H) as [->| ->]; auto. }
  destruct (_ <=? mx); [|intros [= _ <- _]; auto].
  unfold truncate_tail. destruct (tail_scan _ _ _ _ _) as [[rrest del] ntr]. destruct rrest as [|t rr].
  - intros H. destruct (mutate_nid _ _ _ _ _ _ H) as [->| ->]; auto.
  - destruct (si_sealed t).
    + intros H. destruct (mutate_nid _ _ _ _ _ _ H) as [->| ->]; auto.
    + destruct (st_tail w); [|intros [= _ <- _]; auto].
      destruct (seg_force_seal _ _) as [[r0 tw'] e1]. destruct r0; try (intros [= _ <- _]; auto).
      intros H. destruct (mutate_nid _ _ _ _ _ _ H) as [->| ->]; auto.
Qed.

Lemma nid_step_le w w' : nid_step w w' -> st_next_id w + 1 < two64 -> st_next_id w' <= st_next_id w + 1.
Proof. intros [->| ->] H; [lia|]. rewrite N.mod_small by exact H. lia. Qed.

(* ---------------- a call that is not Reopen ---------------- *)
Lemma settle_wlink c s bd :
  cfg_ok c -> WL c (ss_wal s) bd (e_disk (ss_env s)) -> st_next_id (ss_wal s) + 1 < two64 ->
  wop_link c bd (ss_env s) (ss_wal (settle c s)) (ss_env (settle c s)) /\
  st_next_id (ss_wal (settle c s)) <= st_next_id (ss_wal s) + 1.
Proof.
  intros Hc HW Hn. unfold settle. destruct (st_rotate (ss_wal s)).
  - destruct (rotate c (ss_wal s) (ss_env s)) as [w' e'] eqn:E. cbn [ss_wal ss_env]. eapply rotate_wlink; eauto.
  - split; [apply wop_link_same; exact HW|lia].
Qed.

Theorem step_wlink c s o bd r s' :
  cfg_ok c -> sop_ok o -> o <> OReopen -> WL c (ss_wal s) bd (e_disk (ss_env s)) ->
  st_next_id (ss_wal s) + 2 < two64 -> step_model c s o = (r, s') ->
  wop_link c bd (ss_env s) (ss_wal s') (ss_env s') /\ st_next_id (ss_wal s') <= st_next_id (ss_wal s) + 2.
Proof.
  intros Hc Ho Hne HW Hn H.
  destruct o; cbn [step_model] in H; try congruence.
  - destruct (settle_wlink c s bd Hc HW ltac:(lia)) as (HL1 & Hn1). set (s1 := settle c s) in *.
    destruct (store_logs c (ss_wal s1) ls (ss_env s1)) as [[r0 w'] e'] eqn:Es. inversion H; subst. cbn [ss_wal ss_env].
    destruct Ho as (Hls & Hfs).
    split; [eapply wop_link_trans; [exact HL1|]; intros bd1 W1; eapply store_logs_wlink; eauto; lia|].
    pose proof (nid_step_le _ _ (store_logs_nid _ _ _ _ _ _ _ Es) ltac:(lia)). lia.
  - destruct (settle_wlink c s bd Hc HW ltac:(lia)) as (HL1 & Hn1). set (s1 := settle c s) in *.
    destruct (delete_range c (ss_wal s1) mn mx (ss_env s1)) as [[r0 w'] e'] eqn:Es. inversion H; subst. cbn [ss_wal ss_env].
    split; [eapply wop_link_trans; [exact HL1|]; intros bd1 W1; eapply delete_range_wlink; eauto; lia|].
    pose proof (nid_step_le _ _ (delete_range_nid _ _ _ _ _ _ _ _ Es) ltac:(lia)). lia.
  - destruct (get_log (ss_wal s) i (ss_env s)) as [r0 e'] eqn:Eg. inversion H; subst. cbn [ss_wal ss_env].
    split; [|lia]. assert (Ed : e_disk e' = e_disk (ss_env s)).
    { unfold get_log in Eg. destruct (st_closed (ss_wal s)); [inversion Eg; reflexivity|].
      cbn zeta in Eg. unfold inc_read, add_m in Eg.
      repeat match type of Eg with context [match ?x with _ => _ end] => destruct x end; inversion Eg; reflexivity. }
    eapply wop_link_disk_r; [symmetry; exact Ed|]. apply wop_link_same. exact HW.
  - inversion H; subst. split; [apply wop_link_same; exact HW|lia].
  - inversion H; subst. split; [apply wop_link_same; exact HW|lia].
  - destruct (set_stable (ss_wal s) k v is_nil (ss_env s)) as [r0 e'] eqn:Eg. inversion H; subst. cbn [ss_wal ss_env].
    split; [|lia].
    unfold set_stable in Eg. destruct (st_closed (ss_wal s)); [inversion Eg; subst; apply wop_link_same; exact HW|].
    cbn zeta in Eg. destruct (negb (key_ok k)).
    + inversion Eg; subst. eapply wop_link_disk_r; [|apply wop_link_same; exact HW]. reflexivity.
    + destruct (io _ _) as [ok e1] eqn:Eio. destruct HW as ((H0 & Hnd & Ht) & HG).
      assert (E1 : werun c bd (ss_env s) bd e1).
      { eapply werun_disk_l; [|eapply werun_meta; [exact Eio|exact I|exact H0]]. reflexivity. }
      pose proof (io_meta_files _ _ _ _ Eio I) as Ef. cbn [inc_stable add_m with_m e_disk] in Ef.
      assert (W1 : WL c (ss_wal s) bd (e_disk e1)).
      { split; [|exact HG]. split; [apply (werun_end _ _ _ _ _ E1)|]. split; [rewrite Ef; exact Hnd|].
        eapply wtail_linked_files; eauto. }
      destruct ok; inversion Eg; subst; exists bd; auto.
  - destruct (get_stable (ss_wal s) k (ss_env s)) as [r0 e'] eqn:Eg. inversion H; subst. cbn [ss_wal ss_env].
    split; [|lia].
    unfold get_stable in Eg. destruct (st_closed (ss_wal s)); inversion Eg; subst; [apply wop_link_same; exact HW|].
    eapply wop_link_disk_r; [|apply wop_link_same; exact HW]. reflexivity.
Qed.

(* a call on a WAL that is not open (an earlier Open failed) touches nothing *)
Lemma closed_step c s o r s' :
  st_closed (ss_wal s) = true -> st_rotate (ss_wal s) = None -> o <> OReopen -> step_model c s o = (r, s') ->
  e_disk (ss_env s') = e_disk (ss_env s) /\ st_closed (ss_wal s') = true.
Proof.
  intros Hcl Hro Hne H. destruct o; cbn [step_model] in H; try congruence.
  - unfold settle in H. rewrite Hro in H. unfold store_logs in H. rewrite Hcl in H. inversion H; subst. auto.
  - unfold settle in H. rewrite Hro in H. unfold delete_range in H. rewrite Hcl in H. inversion H; subst. auto.
  - unfold get_log in H. rewrite Hcl in H. inversion H; subst. auto.
  - inversion H; subst. auto.
  - inversion H; subst. auto.
  - unfold set_stable in H. rewrite Hcl in H. inversion H; subst. auto.
  - unfold get_stable in H. rewrite Hcl in H. inversion H; subst. auto.
Qed.

(* ---------------- the numeric guards from the live invariant ---------------- *)
Lemma LInv_WG c nb w d : cfg_ok c -> LInv c nb w d -> nb < two64 -> WG w /\ st_next_id w <= nb.
Proof.
  intros Hc HL Hnb. pose proof (LInv_nid _ _ _ _ HL) as Hnid.
  split; [|exact Hnid]. split; [lia|]. split; [eapply LInv_small; eauto|].
  destruct (LInv_view _ _ _ _ HL) as (S & t & f & tw & V). unfold tail_id. rewrite (lv_tail _ _ _ _ _ _ _ _ V).
  pose proof (lv_tw _ _ _ _ _ _ _ _ V) as (Hn & _). pose proof (lv_twf V) as (_ & _ & _ & _ & _ & Hi).
  rewrite Hn. exact Hi.
Qed.

(* ---------------- restart / reopen ---------------- *)
Lemma adopt_NoDup d : NoDup (map fst (dk_files d)) -> NoDup (map fst (dk_files (adopt_disk d))).
Proof. intros H. cbn [adopt_disk dk_files]. rewrite map_map. cbn [fst]. exact H. Qed.

Lemma adopt_no_pend d : NoDup (map fst (dk_files d)) -> no_pend (adopt_disk d).
Proof.
  intros ND n f Hl. apply lookup_In in Hl. cbn [adopt_disk dk_files] in Hl. apply in_map_iff in Hl.
  destruct Hl as ([m g] & E & _). cbn [fst snd] in E. inversion E; subst. unfold adopt_file.
  destruct (df_pend g) eqn:Ep; [reflexivity|exact Ep].
Qed.

Lemma RD_meta_small c nb d alts defer : RD c nb d alts defer -> nb < two64 -> meta_small (adopt_disk d).
Proof.
  intros (HD & _) Hnb. pose proof (DIs_meta_small _ _ _ HD Hnb) as H. unfold meta_small in *. exact H.
Qed.

Theorem reopen_wlink c nb d alts defer bd acts f fx m res e' :
  cfg_ok c -> nb < two64 -> wdrep c bd d -> NoDup (map fst (dk_files d)) -> stale_free bd d ->
  RD c nb d alts defer ->
  open_wal c {| e_acts := acts; e_disk := adopt_disk d; e_fault := f; e_fx := fx; e_m := m |} = (res, e') ->
  drep c (brestart c bd) (adopt_disk d) /\
  exists bd', werun c (brestart c bd) {| e_acts := acts; e_disk := adopt_disk d; e_fault := f; e_fx := fx; e_m := m |} bd' e' /\
              NoDup (map fst (dk_files (e_disk e'))) /\
              match res with OOk w => wtail_linked c (st_tail w) bd' (e_disk e') | OErr _ => True end.
Proof.
  intros Hc Hnb H0 Hnd Hsf HRD Ho. pose proof (wrestart c bd d H0 Hnd Hsf) as HD.
  split; [exact HD|].
  eapply (open_wal_wlink c (brestart c bd)); [exact Hc| | | | |exact Ho]; cbn [e_disk].
  - apply drep_wdrep. exact HD.
  - apply adopt_NoDup. exact Hnd.
  - apply adopt_no_pend. exact Hnd.
  - eapply RD_meta_small; eauto.
Qed.
