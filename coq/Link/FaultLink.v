(* FaultLink.v -- the byte-level disk along the histories of Wal/FaultHist.v
   (calls with a counted fault and the fault modes, restarts without power
   loss); definitions only.
     FHL c nb h bd    the invariant: the running WAL of the history state h is
                      linked (Link/FaultDisk.v WL: weak relation, stale bytes
                      behind the valid chains allowed) to the byte disk bd; a
                      WAL that is closed (a failed Open) only keeps wdrep
     fbstep           what the byte level does in one step of a history: a call
                      is a weak lock-step run of its effective actions; a
                      restart / reopen first runs the byte-level recovery of
                      every file (brestart: the page cache is kept, RecoverTail
                      incl. zeroStaleTail) -- which needs the side condition
                      stale_free of Seg/FailFacts.v -- and then Open in lock step
     fbrun            a byte-level run of a whole history
   Theorems: Link/FaultLinkFacts*.v, statements in Props/Link.v section 8. *)
From RW Require Import Base.Bytes Base.Crc32c Fmt.Codec Fmt.Frame Seg.Writer Seg.SegAbs Seg.Recover
     Seg.Reader Seg.RecoverFacts Seg.FailFacts Wal.Model Wal.Spec Wal.Hist Wal.FaultHist
     Link.Abs Link.AbsFacts2 Link.Disk Link.DiskFacts3 Link.Compose Link.FaultDisk Gen.Constants.
Open Scope N_scope.

Definition fdisk (h : fstate) : disk := e_disk (ss_env (fs_s h)).

Definition FHL (c : cfg) (nb : N) (h : fstate) (bd : bdisk) : Prop :=
  if st_closed (ss_wal (fs_s h))
  then wdrep c bd (fdisk h) /\ NoDup (map fst (dk_files (fdisk h)))
  else WL c (ss_wal (fs_s h)) bd (fdisk h) /\ st_next_id (ss_wal (fs_s h)) <= nb.

Definition is_reopen (o : sop) : bool := match o with OReopen => true | _ => false end.

(* the environment Open runs in after a restart / at a reopen *)
Definition adopted_env (h : fstate) (f : option nat) (fx : fxmode) : env :=
  {| e_acts := e_acts (ss_env (fs_s h)); e_disk := adopt_disk (fdisk h); e_fault := f; e_fx := fx;
     e_m := e_m (ss_env (fs_s h)) |}.

Definition fbstep (c : cfg) (h : fstate) (bd : bdisk) (st : fstep) (bd1 : bdisk) : Prop :=
  let h' := fstep_run c h st in
  match st with
  | FOp f fx o =>
      if is_reopen o
      then stale_free bd (fdisk h) /\ werun c (brestart c bd) (adopted_env h f fx) bd1 (ss_env (fs_s h'))
      else werun c bd (ss_env (fs_s h)) bd1 (ss_env (fs_s h'))
  | FRestart => stale_free bd (fdisk h) /\ werun c (brestart c bd) (adopted_env h None fx_none) bd1 (ss_env (fs_s h'))
  end.

Inductive fbrun (c : cfg) : fstate -> bdisk -> list fstep -> fstate -> bdisk -> Prop :=
| fbrun_nil h bd : fbrun c h bd [] h bd
| fbrun_cons h bd st bd1 steps h' bd' :
    fbstep c h bd st bd1 -> fbrun c (fstep_run c h st) bd1 steps h' bd' ->
    fbrun c h bd (st :: steps) h' bd'.

Definition is_restart (st : fstep) : bool :=
  match st with FRestart => true | FOp _ _ o => is_reopen o end.

(* no CRC collision in the leftovers at any restart of any byte-level run of a
   prefix of the history *)
Definition restarts_clean (c : cfg) (h0 : fstate) (bd0 : bdisk) (steps : list fstep) : Prop :=
  forall pre st post h1 bd1,
    steps = pre ++ st :: post -> is_restart st = true -> fbrun c h0 bd0 pre h1 bd1 -> stale_free bd1 (fdisk h1).
