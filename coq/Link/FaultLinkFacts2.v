(* FaultLinkFacts2.v -- histories with injected faults at byte level:
   the invariant FHL is kept by every step, every step has a byte-level step,
   and whole histories (fbrun). *)
From RW Require Import Base.Bytes Base.BytesFacts Base.Crc32c Fmt.Codec Fmt.Frame Fmt.FrameFacts
     Seg.Writer Seg.Recover Seg.SegAbs Seg.WriterFacts Seg.RecoverFacts Seg.ChainFacts Seg.FailFacts
     Wal.Model Wal.Spec Wal.Hist Wal.FaultHist Wal.CrashInv Wal.CrashFacts0 Wal.CrashFacts1 Wal.CrashFacts4
     Wal.CrashFacts5 Wal.CrashFacts6 Wal.CrashCalls1 Wal.CrashCalls3 Wal.FaultInv Wal.FaultThm
     Link.Abs Link.AbsFacts1 Link.AbsFacts2 Link.AbsFacts3 Link.AbsFacts4
     Link.Disk Link.DiskFacts1 Link.DiskFacts2 Link.DiskFacts3 Link.Compose Link.ComposeFacts1 Link.ComposeFacts2
     Link.ComposeFacts3 Link.ComposeFacts5 Link.ComposeFacts6
     Link.FaultDisk Link.FaultDiskFacts1 Link.FaultDiskFacts2 Link.FaultDiskFacts3 Link.FaultDiskFacts4
     Link.FaultLink Link.FaultLinkFacts1 Gen.Constants.
From Coq Require Import ZifyN ZifyNat ZifyBool.
Open Scope N_scope.

(* ---------------- the state after a step ---------------- *)
Lemma fop_run_s c h f fx o :
  fs_s (fop_run c h f fx o) = with_fault (snd (step_model c (with_fault (fs_s h) f fx) o)) None fx_none.
Proof.
  unfold fop_run. destruct (step_model c (with_fault (fs_s h) f fx) o) as [r s1]. cbn [snd].
  destruct (st_closed (ss_wal (fs_s h))); [reflexivity|].
  destruct (is_mutating o).
  - destruct r; try reflexivity. destruct (spec_accepts (fs_nom h) o); reflexivity.
  - destruct (step_spec (fs_nom h) o). reflexivity.
Qed.

Definition reopen_in (h : fstate) (f : option nat) (fx : fxmode) : sstate :=
  {| ss_wal := ss_wal (fs_s h); ss_env := adopted_env h f fx |}.

Lemma freopen_s c h f fx :
  fs_s (fstep_run c h (FOp f fx OReopen)) = with_fault (snd (step_model c (reopen_in h f fx) OReopen)) None fx_none.
Proof.
  cbn [fstep_run]. change (with_fault _ f fx) with (reopen_in h f fx).
  destruct (step_model c (reopen_in h f fx) OReopen) as [r s1]. cbn [snd].
  destruct r; try reflexivity. destruct (matches _ _); reflexivity.
Qed.

Lemma frestart_s c h :
  fs_s (fstep_run c h FRestart) = snd (step_model c (reopen_in h None fx_none) OReopen).
Proof.
  cbn [fstep_run]. change {| ss_wal := ss_wal (fs_s h); ss_env := _ |} with (reopen_in h None fx_none).
  destruct (step_model c (reopen_in h None fx_none) OReopen) as [r s1]. cbn [snd].
  destruct r; try reflexivity. destruct (matches _ _); reflexivity.
Qed.

Lemma FHL_wdrep c nb h bd : FHL c nb h bd -> wdrep c bd (fdisk h) /\ NoDup (map fst (dk_files (fdisk h))).
Proof.
  unfold FHL. destruct (st_closed _); [auto|]. intros (((A & B & _) & _) & _). auto.
Qed.

Lemma FHL_mono c nb nb' h bd : nb <= nb' -> FHL c nb h bd -> FHL c nb' h bd.
Proof. unfold FHL. destruct (st_closed _); [auto|]. intros Hle (A & B). split; [exact A|lia]. Qed.

(* a linked state, seen as FHL whatever its closed flag *)
Lemma FHL_of_WL c nb h bd :
  WL c (ss_wal (fs_s h)) bd (fdisk h) -> st_next_id (ss_wal (fs_s h)) <= nb -> FHL c nb h bd.
Proof.
  intros HW Hn. unfold FHL. destruct (st_closed _); [|auto]. destruct HW as ((A & B & _) & _). auto.
Qed.

(* ---------------- one call ---------------- *)
Lemma call_step_link c nb h f fx o bd :
  cfg_ok c -> sop_ok o -> o <> OReopen -> nb + 2 < two64 -> FInv c nb h -> FHL c nb h bd ->
  exists bd', werun c bd (ss_env (fs_s h)) bd' (ss_env (fs_s (fop_run c h f fx o))) /\
              FHL c (nb + 2) (fop_run c h f fx o) bd'.
Proof.
  intros Hc Ho Hne Hnb HF HL. rewrite !fop_run_s.
  destruct (step_model c (with_fault (fs_s h) f fx) o) as [r s1] eqn:Es. cbn [snd].
  unfold FHL, fdisk in *. rewrite fop_run_s, Es. cbn [snd with_fault ss_wal ss_env e_disk].
  destruct (st_closed (ss_wal (fs_s h))) eqn:Ecl.
  - (* no WAL: nothing happens *)
    destruct HF as (_ & _ & _ & _ & _ & _ & _ & HM).
    assert (Hro : st_rotate (ss_wal (fs_s h)) = None).
    { destruct HM as [(_ & Hr)|(Hc' & _)]; [exact Hr|congruence]. }
    destruct (closed_step c (with_fault (fs_s h) f fx) o r s1 Ecl Hro Hne Es) as (Ed & Hcl').
    cbn [with_fault ss_env e_disk] in Ed. rewrite Hcl'. exists bd. rewrite Ed.
    split; [|exact HL]. exists []. cbn [e_disk]. constructor. apply HL.
  - destruct HL as (HW & Hnid).
    destruct (step_wlink c (with_fault (fs_s h) f fx) o bd r s1 Hc Ho Hne HW ltac:(cbn [with_fault ss_wal]; lia) Es)
      as ((bd' & E & HW') & Hn').
    exists bd'. split; [eapply werun_disk_l; [|eapply werun_disk; [|exact E]]; reflexivity|].
    cbn [with_fault ss_wal] in Hn'.
    destruct (st_closed (ss_wal s1)); [destruct HW' as ((A & B & _) & _); auto|]. split; [exact HW'|lia].
Qed.

(* ---------------- restart / reopen ---------------- *)
Lemma reopen_step_link c nb h f fx bd :
  cfg_ok c -> nb + 2 < two64 -> FInv c nb h -> FHL c nb h bd -> stale_free bd (fdisk h) ->
  let s1 := snd (step_model c (reopen_in h f fx) OReopen) in
  drep c (brestart c bd) (adopt_disk (fdisk h)) /\
  exists bd', werun c (brestart c bd) (adopted_env h f fx) bd' (ss_env s1) /\
    (if st_closed (ss_wal s1)
     then wdrep c bd' (e_disk (ss_env s1)) /\ NoDup (map fst (dk_files (e_disk (ss_env s1))))
     else WL c (ss_wal s1) bd' (e_disk (ss_env s1)) /\ st_next_id (ss_wal s1) <= nb + 2).
Proof.
  intros Hc Hnb HF HL Hsf s1. destruct (FHL_wdrep _ _ _ _ HL) as (H0 & Hnd).
  pose proof HF as (_ & _ & _ & _ & _ & _ & HRD & _).
  destruct (reopen_step c nb h f fx Hc Hnb HF) as (r & s1' & Hst & Hcase).
  change {| ss_wal := ss_wal (fs_s h); ss_env := _ |} with (reopen_in h f fx) in Hst.
  assert (Es1 : s1 = s1') by (unfold s1; rewrite Hst; reflexivity). clearbody s1. subst s1'.
  cbn [step_model reopen_in ss_env ss_wal] in Hst.
  destruct (open_wal c (adopted_env h f fx)) as [res e'] eqn:Eo.
  destruct (reopen_wlink c nb (fdisk h) (fs_alts h) (fs_defer h) bd (e_acts (ss_env (fs_s h))) f fx (e_m (ss_env (fs_s h)))
              res e' Hc ltac:(lia) H0 Hnd Hsf HRD Eo) as (HD & bd' & E & Hnd' & Hres).
  split; [exact HD|]. exists bd'.
  destruct res as [w'|x]; inversion Hst; subst r s1; cbn [ss_wal ss_env].
  - split; [exact E|].
    destruct Hcase as [(_ & Hcl & HLi & _)|(Hr & _)]; [|congruence]. cbn [ss_wal ss_env] in Hcl, HLi. rewrite Hcl.
    destruct (LInv_WG c (nb + 1) w' _ Hc HLi ltac:(lia)) as (HG & Hn).
    split; [|lia]. split; [|exact HG]. split; [apply (werun_end _ _ _ _ _ E)|]. split; [exact Hnd'|exact Hres].
  - split; [exact E|]. cbn [close st_closed]. split; [apply (werun_end _ _ _ _ _ E)|exact Hnd'].
Qed.

(* ---------------- every step ---------------- *)
Theorem fault_step_link c nb h st bd :
  cfg_ok c -> fstep_wf st -> nb + 2 < two64 -> FInv c nb h -> FHL c nb h bd ->
  (is_restart st = true -> stale_free bd (fdisk h)) ->
  exists bd', fbstep c h bd st bd' /\ FHL c (nb + 2) (fstep_run c h st) bd'.
Proof.
  intros Hc Hwf Hnb HF HL Hsf. destruct st as [f fx o|].
  - destruct o; try solve [
      rewrite fstep_run_other by discriminate;
      destruct (call_step_link c nb h f fx _ bd Hc Hwf ltac:(discriminate) Hnb HF HL) as (bd' & E & HL');
      exists bd'; split; [unfold fbstep; cbn [is_reopen]; rewrite fstep_run_other by discriminate; exact E|exact HL'] ].
    (* Reopen *)
    specialize (Hsf eq_refl).
    destruct (reopen_step_link c nb h f fx bd Hc Hnb HF HL Hsf) as (_ & bd' & E & Hres).
    exists bd'. unfold fbstep. cbn [is_reopen]. rewrite freopen_s. cbn [with_fault ss_env].
    split; [split; [exact Hsf|eapply werun_disk; [|exact E]; reflexivity]|].
    unfold FHL, fdisk. rewrite freopen_s. cbn [with_fault ss_wal ss_env e_disk]. exact Hres.
  - specialize (Hsf eq_refl).
    destruct (reopen_step_link c nb h None fx_none bd Hc Hnb HF HL Hsf) as (_ & bd' & E & Hres).
    exists bd'. unfold fbstep. rewrite frestart_s.
    split; [split; [exact Hsf|exact E]|].
    unfold FHL, fdisk. rewrite frestart_s. exact Hres.
Qed.

(* a byte-level step keeps the invariant, whichever lock-step run it is *)
Theorem fbstep_sound c nb h st bd bd1 :
  cfg_ok c -> fstep_wf st -> nb + 2 < two64 -> FInv c nb h -> FHL c nb h bd ->
  fbstep c h bd st bd1 -> wdrep c bd1 (fdisk (fstep_run c h st)).
Proof.
  intros Hc Hwf Hnb HF HL Hs. unfold fbstep in Hs. destruct st as [f fx o|].
  - destruct (is_reopen o); [destruct Hs as (_ & E)|rename Hs into E]; apply (werun_end _ _ _ _ _ E).
  - destruct Hs as (_ & E). apply (werun_end _ _ _ _ _ E).
Qed.

(* ---------------- histories ---------------- *)
Lemma FHL_init c s0 : initial c = Some s0 -> cfg_ok c -> exists bd, FHL c 1 (fault_init s0) bd.
Proof.
  intros Hi Hc. unfold initial in Hi.
  destruct (open_wal c fresh_env) as [res e'] eqn:Eo. destruct res as [w|x]; [|discriminate]. inversion Hi; subst s0. clear Hi.
  destruct (open_wal_link c [] fresh_env (OOk w) e' Hc) with (6 := Eo) as (bd & E & HW).
  - constructor.
  - constructor.
  - reflexivity.
  - intros n f H. discriminate.
  - exact I.
  - destruct (open_wal_ok c 0 fresh_env Hc eq_refl) as (w2 & e2 & Ho2 & _ & HLi & _).
    + split; [constructor|reflexivity].
    + intros n f H. discriminate.
    + unfold two64. lia.
    + rewrite Eo in Ho2. inversion Ho2; subst w2 e2.
      destruct (LInv_WG c 1 w _ Hc HLi ltac:(unfold two64; lia)) as (HG & Hn).
      exists bd. unfold FHL, fault_init, fdisk. cbn [fs_s ss_wal ss_env].
      rewrite (LInv_closed _ _ _ _ HLi). split; [|exact Hn]. split; [|exact HG].
      destruct HW as (A & B & _ & D). split; [apply drep_wdrep; exact A|]. split; [exact B|]. apply tail_linked_wtail. exact D.
Qed.

(* EVERY HISTORY WITH INJECTED FAULTS HAS A BYTE-LEVEL RUN, provided no commit
   frame in the leftovers verifies at the restarts (restarts_clean); the
   invariant FHL holds at its end. *)
Lemma fault_hist_link_gen c steps : forall nb h bd,
  cfg_ok c -> Forall fstep_wf steps -> nb + 2 * N.of_nat (length steps) < two64 ->
  FInv c nb h -> FHL c nb h bd -> restarts_clean c h bd steps ->
  exists bd', fbrun c h bd steps (fault_run c h steps) bd' /\
              FHL c (nb + 2 * N.of_nat (length steps)) (fault_run c h steps) bd' /\
              FInv c (nb + 2 * N.of_nat (length steps)) (fault_run c h steps).
Proof.
  induction steps as [|st steps IH]; intros nb h bd Hc Hwf Hnb HF HL Hrc.
  - exists bd. cbn [length fault_run fold_left]. replace (nb + 2 * N.of_nat 0) with nb by lia.
    split; [constructor|]. auto.
  - inversion Hwf as [|? ? Hw1 Hw2]; subst. cbn [length] in Hnb.
    destruct (fault_step_link c nb h st bd Hc Hw1 ltac:(lia) HF HL) as (bd1 & Hs1 & HL1).
    { intros Hr. apply (Hrc [] st steps h bd eq_refl Hr). constructor. }
    pose proof (FInv_step c nb h st Hc Hw1 ltac:(lia) HF) as HF1.
    destruct (IH (nb + 2) (fstep_run c h st) bd1 Hc Hw2 ltac:(lia) HF1 HL1) as (bd' & Hrun & HL' & HF').
    { intros pre st' post h1 bd2 E Hr Hpre. apply (Hrc (st :: pre) st' post h1 bd2); [cbn [app]; rewrite E; reflexivity|exact Hr|].
      econstructor; eauto. }
    exists bd'. cbn [fault_run fold_left length].
    replace (nb + 2 * N.of_nat (S (length steps))) with ((nb + 2) + 2 * N.of_nat (length steps)) by lia.
    split; [econstructor; eauto|]. auto.
Qed.

Theorem fault_hist_link c steps s0 :
  cfg_ok c -> Forall fstep_wf steps -> short_enough steps -> initial c = Some s0 ->
  exists bd0, FHL c 1 (fault_init s0) bd0 /\
    (restarts_clean c (fault_init s0) bd0 steps ->
     exists bd', fbrun c (fault_init s0) bd0 steps (fault_run c (fault_init s0) steps) bd' /\
                 FHL c (1 + 2 * N.of_nat (length steps)) (fault_run c (fault_init s0) steps) bd').
Proof.
  intros Hc Hwf Hshort Hi. destruct (FHL_init c s0 Hi Hc) as (bd0 & HL0). exists bd0. split; [exact HL0|].
  intros Hrc.
  destruct (fault_hist_link_gen c steps 1 (fault_init s0) bd0 Hc Hwf) as (bd' & Hrun & HL' & _); auto.
  - unfold short_enough in Hshort. unfold two64. lia.
  - apply FInv_init; assumption.
  - exists bd'. auto.
Qed.

(* every byte-level run of a history (whatever lock-step runs it consists of)
   ends in a byte disk weakly related to L2's *)
Theorem fbrun_sound c steps : forall nb h bd h' bd',
  cfg_ok c -> Forall fstep_wf steps -> nb + 2 * N.of_nat (length steps) < two64 ->
  FInv c nb h -> wdrep c bd (fdisk h) ->
  fbrun c h bd steps h' bd' -> h' = fault_run c h steps /\ wdrep c bd' (fdisk h').
Proof.
  induction steps as [|st steps IH]; intros nb h bd h' bd' Hc Hwf Hnb HF H0 Hrun.
  - inversion Hrun; subst. auto.
  - inversion Hwf as [|? ? Hw1 Hw2]; subst. cbn [length] in Hnb.
    inversion Hrun as [|? ? ? bd1 ? ? ? Hs Hr]; subst.
    pose proof (FInv_step c nb h st Hc Hw1 ltac:(lia) HF) as HF1.
    assert (H1 : wdrep c bd1 (fdisk (fstep_run c h st))).
    { unfold fbstep in Hs. destruct st as [f fx o|].
      - destruct (is_reopen o); [destruct Hs as (_ & E)|rename Hs into E]; apply (werun_end _ _ _ _ _ E).
      - destruct Hs as (_ & E). apply (werun_end _ _ _ _ _ E). }
    destruct (IH (nb + 2) _ bd1 h' bd' Hc Hw2 ltac:(lia) HF1 H1 Hr) as (E & H').
    split; [exact E|exact H'].
Qed.
