(* AbsFacts2.v -- files: the abstract file of Wal/Model.v represents the byte
   image of Seg/SegAbs.v
     - across one commit (write, then fsync) of the writer: commit_rep,
       append_sim_rep, force_seal_sim_rep;
     - across recovery of a cleanly synced file: recover_sim;
     - across a crash with a written-but-unsynced batch: crash_file_sound
       (every torn byte image is recovered as one of the two outcomes L2's
       crash_file offers) and crash_file_tight (both outcomes are produced by
       some torn byte image). *)
From RW Require Import Base.Bytes Base.BytesFacts Base.Crc32c Base.Crc32cFacts Fmt.Codec Fmt.Frame Fmt.FrameFacts
     Seg.Writer Seg.Recover Seg.SegAbs Seg.WriterFacts Seg.ScanFacts Seg.RecoverFacts Seg.ChainFacts
     Seg.ReaderFacts Wal.Model Link.Abs Link.AbsFacts1 Gen.Constants.
From Coq Require Import ZifyN ZifyNat ZifyBool.
Open Scope N_scope.

(* ---------------- the abstract directory ---------------- *)
Lemma fname_eqb_refl' a : fname_eqb a a = true.
Proof. unfold fname_eqb. rewrite !N.eqb_refl. reflexivity. Qed.

Lemma lookup_update_same n f fs : lookup n (update n f fs) = Some f.
Proof.
  induction fs as [|[m g] r IH]; cbn [update lookup].
  - rewrite fname_eqb_refl'; reflexivity.
  - destruct (fname_eqb n m) eqn:E; cbn [lookup]; [rewrite fname_eqb_refl'; reflexivity|rewrite E; exact IH].
Qed.

(* ---------------- payloads of batches ---------------- *)
Lemma pls_payloads bs : pls bs = payloads bs.
Proof. reflexivity. Qed.

Lemma pls_snoc bs b : pls (bs ++ [b]) = pls bs ++ fst b.
Proof. apply payloads_snoc. Qed.

Lemma batches_wf_pls bs : batches_wf bs <-> Forall wf_bytes (pls bs).
Proof.
  unfold batches_wf, pls. induction bs as [|b r IH]; cbn [flat_map].
  - split; constructor.
  - rewrite Forall_app. split.
    + intros H. inversion H; subst. split; [assumption|apply IH; assumption].
    + intros [H1 H2]. constructor; [assumption|apply IH; assumption].
Qed.

Lemma encs_ok_wf ls : encs_ok ls -> Forall wf_bytes (map enc ls).
Proof. intros H. rewrite Forall_map. eapply Forall_impl; [|exact H]. intros l [Hl _]. exact Hl. Qed.

Lemma encs_ok_max ls : encs_ok ls -> Forall (fun p => len p <= MaxEntrySize) (map enc ls).
Proof. intros H. rewrite Forall_map. eapply Forall_impl; [|exact H]. intros l [_ Hl]. exact Hl. Qed.

Lemma image_snoc info bs b :
  image info (bs ++ [b]) = image info bs ++ batch_write info (cstate info bs) b.
Proof. unfold image. rewrite cstate_snoc. reflexivity. Qed.

Lemma len_image_snoc_lt info bs b : len (image info (bs ++ [b])) < two32 -> len (image info bs) < two32.
Proof. rewrite image_snoc, len_app. lia. Qed.

(* ---------------- representation of the current content ---------------- *)
(* what a reader / a restarted process sees: pending batch included *)
Definition cur_rep (info : seginfo) (bs : list batch) (f : dfile) : Prop :=
  pls bs = map enc (cur_ents f) /\ cur_end f = len (image info bs) /\
  cur_seal f = c_istart (cstate info bs).

Lemma rep_cur_rep info bs f : rep info bs f -> cur_rep info bs f.
Proof.
  intros R. unfold cur_rep, cur_ents, cur_end, cur_seal. rewrite (rep_pend _ _ _ R).
  split; [apply R|]. split; apply R.
Qed.

Lemma rep_p_cur_rep info bs b f : rep_p info bs b f -> cur_rep info (bs ++ [b]) f.
Proof.
  intros (R & pb & Hp & Hb1 & Hb2 & Hb3). unfold cur_rep, cur_ents, cur_end, cur_seal. rewrite Hp.
  split; [|split; assumption].
  rewrite pls_snoc, map_app, Hb1. f_equal. apply (rep_ents _ _ _ R).
Qed.

(* the writer seg_recover builds from a file *)
Definition recw (info : seginfo) (f : dfile) : wseg :=
  {| ws_name := name_of info; ws_base := si_base info; ws_min := si_min info;
     ws_limit := si_size_limit info; ws_n := llen (cur_ents f); ws_off := cur_end f;
     ws_hdr := (cur_end f =? 0); ws_index_start := cur_seal f;
     ws_commit_idx := if llen (cur_ents f) =? 0 then 0 else si_base info + llen (cur_ents f) - 1 |}.

Lemma seg_recover_char info e f :
  lookup (name_of info) (dk_files (e_disk e)) = Some f -> seg_recover info e = Some (Some (recw info f)).
Proof. intros H. unfold seg_recover. rewrite H. reflexivity. Qed.

Lemma seg_recover_missing info e :
  lookup (name_of info) (dk_files (e_disk e)) = None -> seg_recover info e = None.
Proof. intros H. unfold seg_recover. rewrite H. reflexivity. Qed.

Lemma cur_rep_offs info bs f : cur_rep info bs f -> len (c_offs (cstate info bs)) = llen (cur_ents f).
Proof.
  intros (H & _). unfold len, llen. rewrite c_offs_length, <- pls_payloads, H, map_length. reflexivity.
Qed.

Lemma rep_w_recw info bs f : cur_rep info bs f -> rep_w (wst info (cstate info bs)) (recw info f).
Proof.
  intros C. pose proof (cur_rep_offs _ _ _ C) as Ln. destruct C as (He & Hend & Hseal).
  set (s := cstate info bs) in *.
  constructor; cbn [wst recw w_info w_buf w_crc w_off w_index_start w_offsets w_commit_idx
                    ws_name ws_base ws_min ws_limit ws_n ws_off ws_hdr ws_index_start ws_commit_idx];
    try reflexivity.
  - symmetry. exact Ln.
  - exact Hend.
  - rewrite Hend. unfold image. fold s. unfold c_pend. destruct (c_img s) as [|x r]; [reflexivity|].
    rewrite len_cons. replace (1 + len r =? 0) with false by (symmetry; apply N.eqb_neq; lia). reflexivity.
  - exact Hseal.
  - unfold commit_idx_of. cbn [w_offsets w_info]. rewrite <- Ln.
    destruct (c_offs s) as [|o r]; [reflexivity|].
    rewrite len_cons. replace (1 + len r =? 0) with false by (symmetry; apply N.eqb_neq; lia). reflexivity.
Qed.

(* ---------------- well-formed chains from abstract files ---------------- *)
Lemma chain_wf_cur info bs f :
  cur_rep info bs f -> encs_ok (cur_ents f) -> len (image info bs) < two32 -> chain_wf info c0 bs.
Proof.
  intros (He & _) Hok Hl. apply chain_wf_of; [|exact Hl].
  apply batches_wf_pls. rewrite He. apply encs_ok_wf. exact Hok.
Qed.

(* ---------------- one commit: write, then fsync ---------------- *)
Definition written (f : dfile) (pb : pbatch) : dfile :=
  {| df_ents := df_ents f; df_end := df_end f; df_seal := df_seal f; df_pend := Some pb;
     df_dir := df_dir f; df_size := df_size f |}.
Definition synced (f : dfile) (pb : pbatch) : dfile :=
  {| df_ents := df_ents f ++ pb_ents pb; df_end := pb_end pb; df_seal := pb_seal pb; df_pend := None;
     df_dir := true; df_size := df_size f |}.

Lemma apply_write d n off l pb f :
  lookup n (dk_files d) = Some f -> df_pend f = None ->
  lookup n (dk_files (apply_act d (AWrite n off l pb))) = Some (written f pb).
Proof.
  intros H Hp. cbn [apply_act]. rewrite H, Hp. cbn [dk_files]. apply lookup_update_same.
Qed.

Lemma apply_write_sync d n off l pb f :
  lookup n (dk_files d) = Some f -> df_pend f = None ->
  lookup n (dk_files (apply_act (apply_act d (AWrite n off l pb)) (ASync n))) = Some (synced f pb).
Proof.
  intros H Hp. pose proof (apply_write d n off l pb f H Hp) as Hw.
  set (d1 := apply_act d (AWrite n off l pb)) in *.
  cbn [apply_act]. rewrite Hw. cbn [written df_pend dk_files]. apply lookup_update_same.
Qed.

Lemma do_write_sync e n off l pb :
  e_fault e = None ->
  e_disk (do_acts e [AWrite n off l pb; ASync n]) =
  apply_act (apply_act (e_disk e) (AWrite n off l pb)) (ASync n).
Proof.
  intros Hf. cbn [do_acts]. rewrite (io_char _ e) by reflexivity. rewrite Hf.
  rewrite io_char by reflexivity. rewrite e_fault_io_ok, Hf. reflexivity.
Qed.

(* One successful L1 operation [op] on the writer of the image of bs commits
   the batch b with the bytes [batch_write]; the L2 actions that abstract its
   I/O turn a file representing bs into one representing bs with b pending
   (after the write) and into one representing bs ++ [b] (after the fsync). *)
Theorem commit_rep info bs f op w1' acts b ls d :
  let s := cstate info bs in
  let n := name_of info in
  rep info bs f -> lookup n (dk_files d) = Some f ->
  wrun (wst info s) [op] = Some (w1', acts, [b]) ->
  fst b = map enc ls ->
  len (image info (bs ++ [b])) < two32 ->
  let new := batch_write info s b in
  let pb := pb_of ls w1' in
  let aw := AWrite n (len (image info bs)) (len new) pb in
  acts = [WWrite (len (image info bs)) new; WSync] /\
  w1' = wst info (cstate info (bs ++ [b])) /\
  abs_acts n pb acts = [aw; ASync n] /\
  lookup n (dk_files (apply_act d aw)) = Some (written f pb) /\ rep_p info bs b (written f pb) /\
  lookup n (dk_files (apply_act (apply_act d aw) (ASync n))) = Some (synced f pb) /\
  rep info (bs ++ [b]) (synced f pb).
Proof.
  intros s n R Hl Hrun Hb Hlen new pb aw.
  assert (Hl2 : len (c_img (fold_left (cstep info) [b] s)) < two32).
  { cbn [fold_left]. unfold image in Hlen. rewrite cstate_snoc in Hlen. exact Hlen. }
  destruct (wrun_char info [op] s w1' acts [b] Hrun Hl2) as (Ew & Hcont & Himg).
  cbn [fold_left] in Ew, Himg.
  (* shape of the actions *)
  assert (Hacts : exists off buf, acts = [WWrite off buf; WSync]).
  { cbn [wrun] in Hrun. destruct (do_op (wst info s) op) as [[r w'] acts0] eqn:Eop.
    destruct r; try discriminate. inversion Hrun; subst w' acts. rewrite app_nil_r in *.
    destruct op as [es|]; cbn [do_op op_batch] in *.
    - destruct es as [|e0 er]; [discriminate|].
      rewrite append_ne in Eop by discriminate.
      destruct (0 <? w_index_start (wst info s)); [discriminate|].
      destruct (too_big (e0 :: er)); [discriminate|].
      destruct (append_entries (wst info s) (e0 :: er)) as [wa|]; [|discriminate].
      destruct (if needs_seal wa then append_index wa else Some wa) as [wb|]; [|discriminate].
      unfold append_commit in Eop. inversion Eop. eexists; eexists; reflexivity.
    - unfold force_seal in Eop. destruct (sealed (wst info s)) eqn:Es; [discriminate|].
      unfold sealed in Es. rewrite Es in Eop.
      destruct (append_index (wst info s)) as [wb|]; [|discriminate].
      unfold append_commit in Eop. inversion Eop. eexists; eexists; reflexivity. }
  destruct Hacts as (off & buf & ->).
  cbn [writes_contiguous] in Hcont. destruct Hcont as [Eoff _].
  cbn [writes_concat cstep c_img] in Himg. rewrite app_nil_r in Himg. apply app_inv_head in Himg.
  subst off buf. fold new. fold (image info bs).
  assert (Ecs : cstate info (bs ++ [b]) = cstep info s b) by apply cstate_snoc.
  split; [reflexivity|]. split; [rewrite Ecs; exact Ew|]. split; [reflexivity|].
  pose proof (rep_pend _ _ _ R) as Hp.
  assert (Hrb : rep_b info bs b pb).
  { unfold rep_b, pb, pb_of. cbn [pb_ents pb_end pb_seal]. split; [exact Hb|].
    unfold image. rewrite Ew, Ecs. split; reflexivity. }
  split; [apply apply_write; assumption|]. split.
  { split.
    - destruct R as [R1 R2 R3 R4]. constructor; cbn [unpend written df_ents df_end df_seal df_pend]; auto.
    - exists pb. split; [reflexivity|exact Hrb]. }
  split; [apply apply_write_sync; assumption|].
  destruct Hrb as (Hb1 & Hb2 & Hb3).
  constructor; cbn [synced df_ents df_end df_seal df_pend]; try assumption; try reflexivity.
  rewrite pls_snoc, map_app, Hb. f_equal. apply (rep_ents _ _ _ R).
Qed.

(* Append: the L1 and L2 writers of a file representing bs, run side by side *)
Theorem append_sim_rep info bs f w2 ls e w1' acts w2' e' :
  let s := cstate info bs in
  let n := name_of info in
  rep info bs f -> lookup n (dk_files (e_disk e)) = Some f ->
  rep_w (wst info s) w2 -> consec ls -> ls <> [] -> e_fault e = None ->
  append (wst info s) (ents ls) FNone = (WOk, w1', acts) ->
  seg_append w2 ls e = (Model.ROk, w2', e') ->
  let b := (map enc ls, sealed w1') in
  len (image info (bs ++ [b])) < two32 ->
  acts = [WWrite (len (image info bs)) (batch_write info s b); WSync] /\
  w1' = wst info (cstate info (bs ++ [b])) /\ rep_w w1' w2' /\
  lookup n (dk_files (e_disk e')) = Some (synced f (pb_of ls w1')) /\
  rep info (bs ++ [b]) (synced f (pb_of ls w1')).
Proof.
  intros s n R Hl Rw Hc Hne Hf Ha H2 b Hlen.
  assert (Hrun : wrun (wst info s) [OpAppend (ents ls)] = Some (w1', acts, [b])).
  { cbn [wrun do_op]. rewrite Ha. rewrite !app_nil_r. unfold b. cbn [op_batch].
    destruct ls as [|l0 lr]; [congruence|]. cbn [ents map]. fold (ents lr).
    change (ent l0 :: ents lr) with (ents (l0 :: lr)). rewrite map_snd_ents. reflexivity. }
  destruct (commit_rep info bs f _ w1' acts b ls (e_disk e) R Hl Hrun eq_refl Hlen)
    as (Eacts & Ew & Eabs & _ & _ & Hl' & R').
  fold s n in Eacts, Ew, Eabs, Hl', R'.
  destruct (append_sim _ _ ls e Rw Hc Hf) as (r & w1x & actsx & w2x & Ea & E2 & Rw' & _).
  rewrite Ha in Ea. inversion Ea; subst r w1x actsx. rewrite H2 in E2.
  inversion E2 as [[Ew2 Ee]]. subst w2x.
  split; [exact Eacts|]. split; [exact Ew|]. split; [exact Rw'|].
  split; [|exact R'].
  rewrite (rw_name _ _ Rw). cbn [wst w_info]. fold n. rewrite Eabs.
  rewrite do_write_sync by exact Hf. exact Hl'.
Qed.

(* ForceSeal likewise *)
Theorem force_seal_sim_rep info bs f w2 e w1' acts w2' e' :
  let s := cstate info bs in
  let n := name_of info in
  rep info bs f -> lookup n (dk_files (e_disk e)) = Some f ->
  rep_w (wst info s) w2 -> e_fault e = None -> ws_index_start w2 = 0 ->
  force_seal (wst info s) FNone = (WOk, w1', acts) ->
  seg_force_seal w2 e = (Model.ROk, w2', e') ->
  let b := (@nil bytes, true) in
  len (image info (bs ++ [b])) < two32 ->
  acts = [WWrite (len (image info bs)) (batch_write info s b); WSync] /\
  w1' = wst info (cstate info (bs ++ [b])) /\ rep_w w1' w2' /\
  lookup n (dk_files (e_disk e')) = Some (synced f (pb_of [] w1')) /\
  rep info (bs ++ [b]) (synced f (pb_of [] w1')).
Proof.
  intros s n R Hl Rw Hf Hu Ha H2 b Hlen.
  assert (Hns : sealed (wst info s) = false).
  { unfold sealed. rewrite <- (rw_istart _ _ Rw), Hu. reflexivity. }
  assert (Hrun : wrun (wst info s) [OpSeal] = Some (w1', acts, [b])).
  { cbn [wrun do_op]. rewrite Ha. rewrite !app_nil_r. cbn [op_batch]. rewrite Hns. reflexivity. }
  destruct (commit_rep info bs f _ w1' acts b [] (e_disk e) R Hl Hrun eq_refl Hlen)
    as (Eacts & Ew & Eabs & _ & _ & Hl' & R').
  fold s n in Eacts, Ew, Eabs, Hl', R'.
  destruct (force_seal_sim _ _ e Rw Hf) as (r & w1x & actsx & w2x & Ea & E2 & Rw').
  rewrite Ha in Ea. inversion Ea; subst r w1x actsx. rewrite H2 in E2.
  inversion E2 as [[Ew2 Ee]]. subst w2x.
  split; [exact Eacts|]. split; [exact Ew|]. split; [exact Rw'|].
  split; [|exact R'].
  rewrite (rw_name _ _ Rw). cbn [wst w_info]. fold n. rewrite Eabs.
  rewrite do_write_sync by exact Hf. exact Hl'.
Qed.

(* ---------------- recovery of a cleanly written file ---------------- *)
Lemma scan_zeros k : scan (zeros k) = [].
Proof.
  rewrite scan_is_scanF. destruct (Nat.lt_ge_cases k 32) as [H|H].
  - rewrite scanF_unfold. rewrite read_at_beyond by (rewrite len_zeros; lia). reflexivity.
  - replace k with (32 + (k - 32))%nat by lia. rewrite zeros_app.
    change 32 with (len (zeros 32)). apply scanF_stop_zeros.
Qed.

Lemma recover_zeros info k : hdr_wf info -> recover_state info (zeros k) = Some (init_empty info).
Proof.
  intros Hhw. rewrite <- wst_c0.
  apply (recover_no_commit info c0 (zeros k)
           {| ra_offsets := []; ra_pending := 0; ra_commits := [] |} []).
  - exact Hhw.
  - apply hdr_inv_c0.
  - reflexivity.
  - unfold acc_inv. cbn. auto.
  - constructor.
  - cbn [c0 c_img app]. rewrite scan_zeros. reflexivity.
Qed.

Lemma mod8_len8 (x : bytes) : len x mod 8 = 0 -> exists k, length x = (8 * k)%nat.
Proof.
  intros H. exists (length x / 8)%nat. unfold len in H.
  pose proof (Nat.div_mod (length x) 8 ltac:(lia)).
  assert ((length x mod 8 = 0)%nat); lia.
Qed.

Lemma batch_write_len8 info s b : exists k, length (batch_write info s b) = (8 * k)%nat.
Proof.
  apply mod8_len8. rewrite len_batch_write, len_batch_body, len_c_pend.
  pose proof (len_entries_bytes_aligned (fst b)).
  pose proof (enc_frame_size_aligned (4 * len (c_offs' info s b))).
  destruct (len (c_img s) =? 0); destruct (snd b); lia.
Qed.

Lemma torn_batch_refl info s b : torn (batch_write info s b) (batch_write info s b).
Proof. destruct (batch_write_len8 info s b) as [k Hk]. exact (torn_refl k _ Hk). Qed.

Lemma torn_batch_zeros info s b :
  torn (batch_write info s b) (zeros (length (batch_write info s b))).
Proof. destruct (batch_write_len8 info s b) as [k Hk]. exact (torn_all_zero k _ Hk). Qed.

(* a file that holds exactly the image of a well-formed chain, then zeros *)
Theorem recover_complete info bs k :
  hdr_wf info -> chain_wf info c0 bs ->
  recover_state info (image info bs ++ zeros k) = Some (wst info (cstate info bs)).
Proof.
  intros Hhw Hwf. destruct bs as [|b bs] using rev_ind.
  - cbn [image cstate fold_left c0 c_img app]. rewrite wst_c0. apply recover_zeros. exact Hhw.
  - clear IHbs. pose proof (seg_recover_torn info bs b (batch_write info (cstate info bs) b) k Hhw Hwf
                              (torn_batch_refl _ _ _) (or_introl eq_refl)) as H.
    cbn zeta in H. rewrite beq_bytes_refl in H. rewrite image_snoc, cstate_snoc, <- app_assoc. exact H.
Qed.

(* RECOVERY SIMULATION, no pending batch (or a pending batch that is complete
   in the page cache: process restart without power loss).  L1 recovery of the
   byte image returns the byte writer that L2's recovered writer represents. *)
Theorem recover_sim_cur info bs f e k :
  hdr_wf info -> cur_rep info bs f -> encs_ok (cur_ents f) -> len (image info bs) < two32 ->
  lookup (name_of info) (dk_files (e_disk e)) = Some f ->
  recover_state info (image info bs ++ zeros k) = Some (wst info (cstate info bs)) /\
  seg_recover info e = Some (Some (recw info f)) /\
  rep_w (wst info (cstate info bs)) (recw info f).
Proof.
  intros Hhw C Hok Hlen Hl. split; [|split].
  - apply recover_complete; [exact Hhw|]. eapply chain_wf_cur; eassumption.
  - apply seg_recover_char. exact Hl.
  - apply rep_w_recw. exact C.
Qed.

Theorem recover_sim info bs f e k :
  hdr_wf info -> rep info bs f -> encs_ok (df_ents f) -> len (image info bs) < two32 ->
  lookup (name_of info) (dk_files (e_disk e)) = Some f ->
  exists w1 w2,
    recover_state info (image info bs ++ zeros k) = Some w1 /\
    seg_recover info e = Some (Some w2) /\ rep_w w1 w2 /\
    w1 = wst info (cstate info bs).
Proof.
  intros Hhw R Hok Hlen Hl.
  assert (Hok' : encs_ok (cur_ents f)) by (unfold cur_ents; rewrite (rep_pend _ _ _ R); exact Hok).
  destruct (recover_sim_cur info bs f e k Hhw (rep_cur_rep _ _ _ R) Hok' Hlen Hl) as (A & B & C).
  exists (wst info (cstate info bs)), (recw info f). auto.
Qed.

(* ---------------- crash with a written, unsynced batch ---------------- *)
Lemma torn_tail_commit x c : torn_tail (x ++ commit_frame c) = commit_frame c.
Proof.
  unfold torn_tail. rewrite app_length.
  replace (length x + length (commit_frame c) - 8)%nat with (length x) by (cbn; lia).
  apply skipn_app_exact.
Qed.

Lemma torn_tail_batch info s b :
  torn_tail (batch_write info s b) = commit_frame (crc32c (c_pend info s ++ batch_body info s b)).
Proof. unfold batch_write. apply torn_tail_commit. Qed.

Lemma torn_tail_zeros n : (8 <= n)%nat -> torn_tail (zeros n) = zeros 8.
Proof.
  intros H. unfold torn_tail. rewrite zeros_length, skipn_zeros. f_equal. lia.
Qed.

Lemma batch_write_ge8 info s b : (8 <= length (batch_write info s b))%nat.
Proof. pose proof (len_batch_write info s b). unfold len in *. lia. Qed.

Lemma zeros_not_batch info s b :
  torn_tail (zeros (length (batch_write info s b))) <> torn_tail (batch_write info s b).
Proof.
  rewrite torn_tail_zeros by apply batch_write_ge8. rewrite torn_tail_batch.
  unfold commit_frame, frame_header. cbn [zeros repeat app]. unfold FrameCommit. discriminate.
Qed.

(* the file L2's crash_file leaves for a durable (or surviving) file *)
Definition crashed (keep : bool) (f : dfile) : dfile :=
  match df_pend f with
  | Some pb => if keep then synced f pb
               else {| df_ents := df_ents f; df_end := df_end f; df_seal := df_seal f;
                       df_pend := None; df_dir := true; df_size := df_size f |}
  | None => {| df_ents := df_ents f; df_end := df_end f; df_seal := df_seal f;
               df_pend := None; df_dir := true; df_size := df_size f |}
  end.

Lemma crash_file_char c n f :
  (df_dir f = true \/ mem_name n (cc_keep_file c) = true) ->
  crash_file c (n, f) = [(n, crashed (mem_name n (cc_keep_batch c)) f)].
Proof.
  intros H. unfold crash_file, crashed.
  replace (negb (df_dir f) && negb (mem_name n (cc_keep_file c))) with false.
  2:{ symmetry. apply andb_false_iff. destruct H as [H|H]; rewrite H; auto. }
  destruct (df_pend f); [destruct (mem_name n (cc_keep_batch c))|]; reflexivity.
Qed.

Lemma rep_crashed info bs b f (keep : bool) :
  rep_p info bs b f -> rep info (if keep then bs ++ [b] else bs) (crashed keep f).
Proof.
  intros (R & pb & Hp & Hb1 & Hb2 & Hb3). unfold crashed. rewrite Hp.
  destruct R as [R1 R2 R3 R4]. cbn [unpend df_ents df_end df_seal df_pend] in *.
  destruct keep; constructor; cbn [synced df_ents df_end df_seal df_pend]; auto.
  rewrite pls_snoc, map_app, Hb1, R1. reflexivity.
Qed.

(* CRASH SIMULATION.  f represents the image of bs with one more batch b
   written at its end but not known to be durable.  Whatever torn image T of
   the bytes of b is on the disk after the power loss (over zeros, no CRC
   collision): byte-level recovery succeeds and returns the writer of
     bs ++ [b]  if T is complete,   bs  otherwise,
   zeroStaleTail restores "image followed by zeros", and this is exactly what
   L2 gets from crash_file with the pending batch KEPT resp. DROPPED followed
   by seg_recover: the recovered L2 file represents the recovered byte image
   and the recovered L2 writer represents the recovered byte writer. *)
Theorem crash_file_sound info bs b f c T k :
  let s := cstate info bs in
  let n := name_of info in
  let new := batch_write info s b in
  hdr_wf info -> rep_p info bs b f -> encs_ok (cur_ents f) ->
  len (image info (bs ++ [b])) < two32 ->
  torn new T -> no_torn_collision new T ->
  (df_dir f = true \/ mem_name n (cc_keep_file c) = true) ->
  mem_name n (cc_keep_batch c) = beq_bytes T new ->
  let file := image info bs ++ T ++ zeros k in
  let bs' := if beq_bytes T new then bs ++ [b] else bs in
  let w1 := wst info (cstate info bs') in
  exists f',
    crash_file c (n, f) = [(n, f')] /\ rep info bs' f' /\ df_dir f' = true /\
    recover_state info file = Some w1 /\
    (exists acts, recover_tail info file = Some (w1, acts) /\
                  apply_wactions file acts = image info bs' ++ zeros (length file - length (image info bs'))) /\
    rep_w w1 (recw info f') /\
    forall e, lookup n (dk_files (e_disk e)) = Some f' -> seg_recover info e = Some (Some (recw info f')).
Proof.
  intros s n new Hhw Rp Hok Hlen HT Hnc Hsurv Hkeep file bs' w1.
  pose proof (rep_p_cur_rep _ _ _ _ Rp) as C.
  pose proof (chain_wf_cur _ _ _ C Hok Hlen) as Hwf.
  pose proof (seg_recover_torn info bs b T k Hhw Hwf HT Hnc) as Hrs.
  destruct (seg_recover_round info bs b T k Hhw Hwf HT Hnc) as (acts & Hrt & Happ).
  cbn zeta in Hrs, Hrt, Happ. fold s new file in Hrs, Hrt, Happ.
  exists (crashed (beq_bytes T new) f).
  pose proof (rep_crashed info bs b f (beq_bytes T new) Rp) as R'. fold bs' in R'.
  assert (Ecs : (if beq_bytes T new then cstep info s b else s) = cstate info bs').
  { unfold bs'. destruct (beq_bytes T new); [symmetry; apply cstate_snoc|reflexivity]. }
  split; [rewrite <- Hkeep; apply crash_file_char; exact Hsurv|].
  split; [exact R'|]. split.
  { unfold crashed. destruct Rp as (_ & pb & Hp & _). rewrite Hp. destruct (beq_bytes T new); reflexivity. }
  split.
  { change (recover_state info file) with (recover_state info (c_img s ++ T ++ zeros k)).
    rewrite Hrs. unfold w1. rewrite <- Ecs. destruct (beq_bytes T new); reflexivity. }
  split.
  { exists acts. rewrite Ecs in Hrt, Happ. split; [exact Hrt|exact Happ]. }
  split; [apply rep_w_recw, rep_cur_rep; exact R'|].
  intros e He. apply seg_recover_char. exact He.
Qed.

(* ... and both outcomes of crash_file are produced by some byte-level torn
   write: the complete image keeps the batch, the image of which no chunk
   reached the disk drops it.  So L2's adversary is neither weaker nor
   stronger than torn writes of the batch's bytes. *)
Theorem crash_file_tight info s b (keep : bool) :
  let new := batch_write info s b in
  exists T, torn new T /\ no_torn_collision new T /\ beq_bytes T new = keep.
Proof.
  cbn zeta. destruct keep.
  - exists (batch_write info s b). split; [apply torn_batch_refl|]. split; [left; reflexivity|apply beq_bytes_refl].
  - exists (zeros (length (batch_write info s b))). split; [apply torn_batch_zeros|].
    pose proof (zeros_not_batch info s b) as Hne. split; [right; left; exact Hne|].
    destruct (beq_bytes _ _) eqn:E; [|reflexivity]. apply beq_bytes_eq in E. rewrite E in Hne. congruence.
Qed.
