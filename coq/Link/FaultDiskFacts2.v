(* FaultDiskFacts2.v -- the primitives of the WAL under INJECTED FAULTS, in
   lock step with the byte disk (weak relation, Link/FaultDisk.v):
   io, delete_files (every deletion may fail), seg_create (a failed creation
   may leave the empty file), seg_append / seg_force_seal (failed write:
   nothing written; failed fsync: the bytes stay behind the valid chain, both
   writers rolled back).  No hypothesis on e_fault / e_fx. *)
From RW Require Import Base.Bytes Base.BytesFacts Base.Crc32c Fmt.Codec Fmt.Frame Fmt.FrameFacts
     Seg.Writer Seg.Recover Seg.SegAbs Seg.WriterFacts Seg.RecoverFacts Seg.ChainFacts Seg.FailFacts
     Wal.Model Wal.Spec Wal.CrashFacts0 Link.Abs Link.AbsFacts1 Link.AbsFacts2 Link.AbsFacts3 Link.AbsFacts4
     Link.Disk Link.DiskFacts1 Link.DiskFacts2 Link.DiskFacts3 Link.Compose Link.ComposeFacts1 Link.ComposeFacts2
     Link.FaultDisk Link.FaultDiskFacts1 Gen.Constants.
From Coq Require Import ZifyN ZifyNat ZifyBool.
Open Scope N_scope.

(* ---------------- one I/O action, whatever the fault state ---------------- *)
Lemma io_cases3 a e ok e' :
  io a e = (ok, e') ->
  (ok = true /\ e_disk e' = apply_act (e_disk e) a) \/ (ok = false /\ e_disk e' = e_disk e) \/
  (* a BoltDB transaction reported as failed and found applied *)
  (ok = false /\ is_txn a = true /\ e_disk e' = apply_act (e_disk e) a).
Proof.
  unfold io. destruct (is_delete a).
  - destruct (armed e && fx_del (e_fx e)); intros [= <- <-]; cbn; auto.
  - destruct (e_fault e) as [[|k]|]; [|intros [= <- <-]; cbn; auto..].
    destruct (is_txn a) eqn:Et, (fx_land (e_fx e)); cbn [andb]; intros [= <- <-]; cbn; auto.
Qed.

Lemma io_cases a e ok e' :
  io a e = (ok, e') -> is_txn a = false ->
  (ok = true /\ e_disk e' = apply_act (e_disk e) a) \/ (ok = false /\ e_disk e' = e_disk e).
Proof.
  intros H Ht. destruct (io_cases3 _ _ _ _ H) as [K|[K|(_ & K & _)]]; [left; exact K|right; exact K|congruence].
Qed.

Lemma werun_io c bd e a ba ok e' : is_txn a = false ->
  io a e = (ok, e') -> wdrep c bd (e_disk e) -> bmatch a ba ->
  wdrep c (bapply bd ba) (apply_act (e_disk e) a) ->
  werun c bd e (if ok then bapply bd ba else bd) e'.
Proof.
  intros Hnt Hio H0 Hm H1. destruct (io_cases _ _ _ _ Hio Hnt) as [(-> & E)|(-> & E)].
  - exists [a]. rewrite E. apply wlrun_one; assumption.
  - exists []. rewrite E. constructor. exact H0.
Qed.

Lemma werun_meta c bd e a ok e' :
  io a e = (ok, e') -> meta_act a -> wdrep c bd (e_disk e) -> werun c bd e bd e'.
Proof.
  intros Hio Hm H0.
  assert (Hb : bmatch a BNone) by (destruct a; cbn in Hm |- *; try contradiction; reflexivity).
  pose proof (wnone_drep _ _ _ _ Hm H0) as H1.
  destruct (io_cases3 _ _ _ _ Hio) as [(_ & E)|[(_ & E)|(_ & _ & E)]].
  - exists [a]. rewrite E. change bd with (bapply bd BNone) at 2. apply wlrun_one; assumption.
  - exists []. rewrite E. constructor. exact H0.
  - exists [a]. rewrite E. change bd with (bapply bd BNone) at 2. apply wlrun_one; assumption.
Qed.

Lemma io_meta_files a e ok e' : io a e = (ok, e') -> meta_act a -> dk_files (e_disk e') = dk_files (e_disk e).
Proof.
  intros Hio Hm. destruct (io_cases3 _ _ _ _ Hio) as [(_ & E)|[(_ & E)|(_ & _ & E)]]; rewrite E;
    [apply meta_act_files; exact Hm|reflexivity|apply meta_act_files; exact Hm].
Qed.

(* ---------------- the weak tail link across actions on other files ---------------- *)
Lemma wtail_link_frame c tw info bs bd d bd' d' :
  wtail_link c tw info bs bd d ->
  (forall f, lookup (ws_name tw) (dk_files d') = Some f ->
             lookup (ws_name tw) (dk_files d) = Some f /\ blookup (ws_name tw) bd' = blookup (ws_name tw) bd) ->
  wtail_link c tw info bs bd' d'.
Proof.
  intros [A B C D] H. constructor; auto. intros f Hf. destruct (H f Hf) as [H1 H2]. rewrite H2. apply D. exact H1.
Qed.

Lemma wtail_link_files c tw info bs bd d d' :
  dk_files d' = dk_files d -> wtail_link c tw info bs bd d -> wtail_link c tw info bs bd d'.
Proof. intros E H. eapply wtail_link_frame; [exact H|]. intros f Hf. rewrite E in Hf. auto. Qed.

Lemma wtail_linked_files c t bd d d' :
  dk_files d' = dk_files d -> wtail_linked c t bd d -> wtail_linked c t bd d'.
Proof.
  intros E. destruct t as [tw|]; [|auto]. intros (info & bs & H). exists info, bs. eapply wtail_link_files; eauto.
Qed.

Lemma wtail_link_delete c tw info bs bd d m :
  NoDup (map fst (dk_files d)) -> wtail_link c tw info bs bd d ->
  wtail_link c tw info bs (bapply bd (BDelete m)) (apply_act d (ADelete m)).
Proof.
  intros Hnd H. eapply wtail_link_frame; [exact H|]. cbn [apply_act dk_files bapply]. intros f Hf.
  destruct (fname_eqb (ws_name tw) m) eqn:E.
  - apply fname_eqb_eq in E. subst m. rewrite lookup_remove_eq in Hf by exact Hnd. discriminate.
  - apply fname_eqb_neq in E. rewrite lookup_remove_neq in Hf by exact E. split; [exact Hf|].
    apply blookup_bremove_neq. exact E.
Qed.

Lemma wtail_link_create_other c tw info bs bd d m size :
  ws_name tw <> m -> wtail_link c tw info bs bd d ->
  wtail_link c tw info bs (bapply bd (BCreate m size)) (apply_act d (ACreate m size)).
Proof.
  intros Hne H. eapply wtail_link_frame; [exact H|]. cbn [apply_act dk_files bapply]. intros f Hf.
  rewrite lookup_update_neq in Hf by exact Hne. split; [exact Hf|]. apply blookup_bupdate_neq. exact Hne.
Qed.

Lemma tail_link_wtail c tw info bs bd d : tail_link c tw info bs bd d -> wtail_link c tw info bs bd d.
Proof.
  intros [A B C D]. constructor; auto. intros f Hf. destruct (D f Hf) as (bf & Hb & R).
  exists bf, None. split; [exact Hb|apply frep_wfrep; exact R].
Qed.

Lemma tail_linked_wtail c t bd d : tail_linked c t bd d -> wtail_linked c t bd d.
Proof. destruct t as [tw|]; [|auto]. intros (info & bs & H). exists info, bs. apply tail_link_wtail. exact H. Qed.

(* ---------------- delete_files: every deletion may fail ---------------- *)
Lemma delete_files_wlink c ns : forall bd e t,
  wdrep c bd (e_disk e) -> NoDup (map fst (dk_files (e_disk e))) ->
  wtail_linked c t bd (e_disk e) ->
  exists bd', werun c bd e bd' (delete_files ns e) /\
              NoDup (map fst (dk_files (e_disk (delete_files ns e)))) /\
              wtail_linked c t bd' (e_disk (delete_files ns e)).
Proof.
  induction ns as [|n ns IH]; intros bd e t H0 Hnd Ht.
  - exists bd. split; [apply werun_refl; assumption|]. auto.
  - unfold delete_files. cbn [fold_left]. fold (delete_files ns (snd (io (ADelete n) e))).
    destruct (io (ADelete n) e) as [ok e1] eqn:Eio. cbn [snd].
    assert (H1 : wdrep c (bapply bd (BDelete n)) (apply_act (e_disk e) (ADelete n))) by (apply wdelete_drep; exact H0).
    pose proof (werun_io c bd e (ADelete n) (BDelete n) ok e1 eq_refl Eio H0 eq_refl H1) as E1.
    destruct (io_cases _ _ _ _ Eio eq_refl) as [(-> & Ed)|(-> & Ed)].
    + destruct (IH (bapply bd (BDelete n)) e1 t) as (bd' & E2 & Hnd' & Ht').
      * rewrite Ed. exact H1.
      * rewrite Ed. apply NoDup_apply. exact Hnd.
      * rewrite Ed. destruct t as [tw|]; [|exact I]. destruct Ht as (info & bs & Ht). exists info, bs.
        apply wtail_link_delete; assumption.
      * exists bd'. split; [eapply werun_trans; eauto|]. auto.
    + destruct (IH bd e1 t) as (bd' & E2 & Hnd' & Ht').
      * rewrite Ed. exact H0.
      * rewrite Ed. exact Hnd.
      * rewrite Ed. exact Ht.
      * exists bd'. split; [eapply werun_trans; eauto|]. auto.
Qed.

(* ---------------- seg_create: the creation may fail, and may leave the empty file ---------------- *)
Lemma wtail_link_created c si bd d size :
  si_codec si = c_codec c ->
  wtail_link c (new_wseg si) si [] (bapply bd (BCreate (name_of si) size))
            (apply_act d (ACreate (name_of si) size)).
Proof.
  intros Hc. constructor.
  - reflexivity.
  - cbn [new_wseg ws_name]. unfold hdr_eq, finfo, name_of. cbn. auto.
  - change (cstate si []) with c0. rewrite wst_c0. apply rep_w_init.
  - cbn [new_wseg ws_name apply_act dk_files bapply]. intros f Hf. rewrite lookup_update_eq in Hf. inversion Hf; subst f.
    exists (bcreated size), None. split; [apply blookup_bupdate_eq|]. apply wfrep_create.
Qed.

Definition other_name (t : option wseg) (n : fname) : Prop :=
  match t with Some tw => ws_name tw <> n | None => True end.

Lemma seg_create_wlink c si bd e sw e' t :
  wdrep c bd (e_disk e) -> NoDup (map fst (dk_files (e_disk e))) ->
  si_codec si = c_codec c -> hdr_wf (finfo c (name_of si)) ->
  wtail_linked c t bd (e_disk e) -> other_name t (name_of si) ->
  seg_create si e = (sw, e') ->
  exists bd', werun c bd e bd' e' /\ NoDup (map fst (dk_files (e_disk e'))) /\
    wtail_linked c t bd' (e_disk e') /\
    match sw with
    | Some tw => tw = new_wseg si /\ wtail_link c tw si [] bd' (e_disk e')
    | None => True
    end.
Proof.
  intros H0 Hnd Hc Hh Ht Hon. unfold seg_create. destruct (si_base si =? 0).
  - intros [= <- <-]. exists bd. split; [apply werun_refl; assumption|]. auto.
  - assert (Hother : forall size, wtail_linked c t (bapply bd (BCreate (name_of si) size))
                                   (apply_act (e_disk e) (ACreate (name_of si) size))).
    { intros size. destruct t as [tw|]; [|exact I]. destruct Ht as (info & bs & Ht). exists info, bs.
      apply wtail_link_create_other; [exact Hon|exact Ht]. }
    destruct (lookup (name_of si) (dk_files (e_disk e))) as [f|] eqn:El.
    + destruct (io _ e) as [ok e1] eqn:Eio. intros [= <- <-]. exists bd.
      split; [eapply werun_meta; eauto; exact I|].
      pose proof (io_meta_files _ _ _ _ Eio I) as Ef.
      split; [rewrite Ef; exact Hnd|]. split; [eapply wtail_linked_files; eauto|exact I].
    + destruct (io _ e) as [ok e1] eqn:Eio.
      assert (H1 : forall size, wdrep c (bapply bd (BCreate (name_of si) size)) (apply_act (e_disk e) (ACreate (name_of si) size)))
        by (intros size; apply wcreate_drep; assumption).
      destruct (io_cases _ _ _ _ Eio eq_refl) as [(-> & Ed)|(-> & Ed)].
      * intros [= <- <-]. exists (bapply bd (BCreate (name_of si) (si_size_limit si))).
        split; [exists [ACreate (name_of si) (si_size_limit si)]; rewrite Ed; apply wlrun_one; [exact H0|reflexivity|apply H1]|].
        rewrite Ed. split; [apply NoDup_apply; exact Hnd|]. split; [apply Hother|].
        split; [reflexivity|]. apply wtail_link_created. exact Hc.
      * destruct (fx_leave (e_fx e)).
        -- (* the failed creation leaves the empty file *)
           intros [= <- <-]. exists (bapply bd (BCreate (name_of si) 0)).
           cbn [leave_entry e_disk]. rewrite Ed.
           split; [exists [ACreate (name_of si) 0]; cbn [leave_entry e_disk]; rewrite Ed; apply wlrun_one; [exact H0|reflexivity|apply H1]|].
           split; [apply NoDup_apply; exact Hnd|]. split; [apply Hother|exact I].
        -- intros [= <- <-]. exists bd. rewrite Ed.
           split; [exists []; rewrite Ed; constructor; exact H0|]. auto.
Qed.

(* ---------------- one commit of the tail writer, with faults ---------------- *)
(* the environment after the two actions of a commit, whatever fails *)
Lemma do_acts2_cases e a1 a2 :
  let e' := do_acts e [a1; a2] in
  is_delete a1 = false -> is_delete a2 = false -> is_txn a1 = false -> is_txn a2 = false ->
  (both_ok (e_fault e) = true /\ e_disk e' = apply_act (apply_act (e_disk e) a1) a2) \/
  (e_fault e = Some 1%nat /\ e_disk e' = apply_act (e_disk e) a1) \/
  (e_fault e = Some O /\ e_disk e' = e_disk e).
Proof.
  intros e' H1 H2 T1 T2. unfold e'. cbn [do_acts]. rewrite (io_char _ e H1 T1).
  destruct (e_fault e) as [[|[|k]]|] eqn:Ef.
  - right. right. auto.
  - right. left. split; [reflexivity|]. rewrite (io_char _ _ H2 T2). rewrite e_fault_io_ok, Ef. reflexivity.
  - left. split; [reflexivity|]. rewrite (io_char _ _ H2 T2). rewrite e_fault_io_ok, Ef. reflexivity.
  - left. split; [reflexivity|]. rewrite (io_char _ _ H2 T2). rewrite e_fault_io_ok, Ef. reflexivity.
Qed.

Lemma wcommit_link c tw info bs bd e op ls w1' new tot pb tw' :
  let n := ws_name tw in
  let aw := AWrite n (ws_off tw) tot pb in
  let e' := do_acts e [aw; ASync n] in
  wdrep c bd (e_disk e) -> NoDup (map fst (dk_files (e_disk e))) ->
  wtail_link c tw info bs bd (e_disk e) -> logs_ok ls ->
  do_op (wst info (cstate info bs)) op = (WOk, w1', [WWrite (ws_off tw) new; WSync]) ->
  wop_of pb = op -> op_batch (wst info (cstate info bs)) w1' op = [(map enc ls, sealed w1')] ->
  len new = tot -> len (batch_write info (cstate info bs) (map enc ls, sealed w1')) = tot ->
  rep_w w1' tw' -> ws_name tw' = n -> pb = pb_of ls w1' ->
  ws_off tw + tot < two32 ->
  exists bd',
    werun c bd e bd' e' /\ NoDup (map fst (dk_files (e_disk e'))) /\
    if both_ok (e_fault e) then exists bs', wtail_link c tw' info bs' bd' (e_disk e')
    else wtail_link c tw info bs bd' (e_disk e').
Proof.
  intros n aw e' H0 Hnd [Tn Th Tw Tf] Hls Hop Hwop Hob Hlen Hlb Rw' Hn' Hpb Hguard.
  set (s := cstate info bs) in *. set (b := (map enc ls, sealed w1')) in *.
  assert (Hrun : SegAbs.wrun (wst info s) [op] = Some (w1', [WWrite (ws_off tw) new; WSync], [b])).
  { cbn [SegAbs.wrun]. rewrite Hop, Hob. rewrite !app_nil_r. reflexivity. }
  assert (Hoff : ws_off tw = len (image info bs)) by (rewrite (rw_off _ _ Tw); reflexivity).
  assert (Hm : bmatch aw (BWrite n (ws_off tw) new)).
  { cbn [aw bmatch]. exists new. split; [reflexivity|]. split; [exact Hlen|].
    exists (wst info s), w1'. rewrite Hwop. exact Hop. }
  assert (T0 : wtail_link c tw info bs bd (e_disk e)) by (constructor; assumption).
  assert (Ew : w1' = wst info (cstate info (bs ++ [b]))).
  { assert (Hl2 : len (c_img (fold_left (cstep info) [b] s)) < two32).
    { cbn [fold_left cstep c_img]. rewrite len_app, Hlb. rewrite Hoff in Hguard. exact Hguard. }
    destruct (wrun_char info [op] s w1' _ [b] Hrun Hl2) as (Ew & _). cbn [fold_left] in Ew.
    rewrite cstate_snoc. exact Ew. }
  pose proof (do_acts2_cases e aw (ASync n) eq_refl eq_refl eq_refl eq_refl) as Hcases. fold e' in Hcases.
  destruct (lookup n (dk_files (e_disk e))) as [f|] eqn:El.
  - destruct (Tf f El) as (bf & pb0 & Hbl & R).
    assert (Hlen' : len (image info (bs ++ [b])) < two32).
    { rewrite image_snoc, len_app. fold s. rewrite Hlb, <- Hoff. exact Hguard. }
    destruct (wwrite_drep c bd (e_disk e) info n bs pb0 bf f op w1' _ b ls H0 Tn Th El Hbl R Hrun eq_refl Hls Hlen')
      as (Ea & _ & D1 & L1 & B1 & R1).
    fold s in Ea. inversion Ea as [[Eo En]].
    assert (Eaw : AWrite n (len (image info bs)) (len (batch_write info s b)) (pb_of ls w1') = aw).
    { unfold aw. rewrite <- En, Hlen, <- Hoff, Hpb. reflexivity. }
    fold s in D1, L1, B1, R1. rewrite Eaw in D1, L1. rewrite <- En, <- Hoff in D1, B1, R1.
    assert (T1 : wtail_link c tw info bs (bapply bd (BWrite n (ws_off tw) new)) (apply_act (e_disk e) aw)).
    { constructor; auto. intros f' Hf'. fold n in Hf'. rewrite L1 in Hf'. inversion Hf'; subst f'.
      exists (bwrite_file bf (ws_off tw) new), (Some b). split; [exact B1|exact R1]. }
    destruct Hcases as [(Hok & Ed)|[(Hf1 & Ed)|(Hf0 & Ed)]].
    + (* both succeed *)
      pose proof (wsync_drep c _ _ n D1) as D2.
      exists (bapply (bapply bd (BWrite n (ws_off tw) new)) (BSync n)). unfold werun. rewrite Ed, Hok.
      assert (L2 : lookup n (dk_files (apply_act (apply_act (e_disk e) aw) (ASync n))) = Some (crashed true (written f (pb_of ls w1')))).
      { rewrite (apply_sync_files _ n (written f (pb_of ls w1'))); [apply lookup_update_eq|]. exact L1. }
      assert (B2 : blookup n (bapply (bapply bd (BWrite n (ws_off tw) new)) (BSync n)) = Some (bsync_file (bwrite_file bf (ws_off tw) new))).
      { rewrite (bapply_sync _ n _ B1). apply blookup_bupdate_eq. }
      pose proof (wfrep_sync _ _ _ _ _ R1) as R2. cbn [opt_batch] in R2.
      split; [exists [aw; ASync n]; econstructor; [exact H0|exact Hm|]; apply wlrun_one; [exact D1|reflexivity|exact D2]|].
      split; [apply NoDup_apply, NoDup_apply; exact Hnd|]. exists (bs ++ [b]). constructor.
      * rewrite Hn'. exact Tn.
      * rewrite Hn'. exact Th.
      * rewrite Ew in Rw'. exact Rw'.
      * rewrite Hn'. intros f' Hf'. fold n in Hf'. rewrite L2 in Hf'. inversion Hf'; subst f'.
        exists (bsync_file (bwrite_file bf (ws_off tw) new)), None. split; [exact B2|exact R2].
    + (* the fsync fails: the bytes stay, the writers are rolled back *)
      exists (bapply bd (BWrite n (ws_off tw) new)). unfold werun. rewrite Ed, Hf1. cbn [both_ok].
      split; [exists [aw]; apply wlrun_one; assumption|]. split; [apply NoDup_apply; exact Hnd|exact T1].
    + (* the write fails: nothing happens *)
      exists bd. unfold werun. rewrite Ed, Hf0. cbn [both_ok].
      split; [exists []; constructor; exact H0|]. split; [exact Hnd|exact T0].
  - (* the file does not exist: the actions have no effect on either side *)
    pose proof (grel_lookup_none _ _ _ _ _ H0 El) as Hbn.
    assert (Ed1 : apply_act (e_disk e) aw = e_disk e) by (cbn [aw apply_act]; rewrite El; reflexivity).
    assert (Ed2 : apply_act (e_disk e) (ASync n) = e_disk e) by (cbn [apply_act]; rewrite El; reflexivity).
    assert (Ede : e_disk e' = e_disk e).
    { destruct Hcases as [(_ & Ed)|[(_ & Ed)|(_ & Ed)]]; rewrite Ed, ?Ed1, ?Ed2; reflexivity. }
    exists bd. unfold werun. rewrite Ede. split; [exists []; constructor; exact H0|]. split; [exact Hnd|].
    destruct (both_ok (e_fault e)).
    + exists (bs ++ [b]). constructor.
      * rewrite Hn'. exact Tn.
      * rewrite Hn'. exact Th.
      * rewrite Ew in Rw'. exact Rw'.
      * rewrite Hn'. intros f' Hf'. fold n in Hf'. rewrite El in Hf'. discriminate.
    + exact T0.
Qed.

(* ---------------- the size facts of the tail writer are kept ---------------- *)
Lemma index_frame_size_ge8 n : n <> 0 -> 8 <= index_frame_size n.
Proof.
  intros Hn. unfold index_frame_size. destruct (n =? 0) eqn:E; [lia|]. unfold enc_frame_size. lia.
Qed.

Lemma small_after tw ls :
  small_tw tw -> ws_index_start tw = 0 -> frames_size ls < two30 -> ls <> [] -> small_tw (l2_after tw ls).
Proof.
  intros Hs Hz Hfs Hne. destruct (Hs Hz) as (S1 & S2 & S3). intros Hi.
  cbn [l2_after ws_index_start ws_limit ws_off ws_n] in *.
  pose proof (frames_size_ge8 ls) as Hk.
  pose proof (index_frame_size_le' (ws_n tw + llen ls)) as Hi2.
  assert (Hl : 0 < llen ls) by (destruct ls; [congruence|rewrite llen_cons; lia]).
  pose proof (index_frame_size_ge8 (ws_n tw + llen ls) ltac:(lia)) as Hi3.
  assert (Hseal : l2_seal tw ls = false).
  { unfold l2_istart in Hi. destruct (l2_seal tw ls); [unfold hdr_len in Hi; lia|reflexivity]. }
  unfold l2_total. rewrite Hseal. unfold l2_seal in Hseal. apply N.ltb_ge in Hseal.
  unfold hdr_len, two30, two32 in *.
  rewrite (N.mod_small (_ + index_frame_size _)) in Hseal by (destruct (ws_hdr tw); lia).
  rewrite N.mod_small in Hseal by (destruct (ws_hdr tw); lia).
  rewrite N.mod_small by (destruct (ws_hdr tw); lia).
  split; [exact S1|]. destruct (ws_hdr tw); lia.
Qed.

(* ---------------- seg_append ---------------- *)
Lemma seg_append_wlink c tw info bs ls bd e r tw' e' :
  wdrep c bd (e_disk e) -> NoDup (map fst (dk_files (e_disk e))) ->
  wtail_link c tw info bs bd (e_disk e) -> consec ls -> logs_ok ls ->
  (ws_index_start tw = 0 -> ws_off tw + l2_total tw ls < two32) ->
  seg_append tw ls e = (r, tw', e') ->
  exists bd' bs', werun c bd e bd' e' /\ NoDup (map fst (dk_files (e_disk e'))) /\
                  wtail_link c tw' info bs' bd' (e_disk e') /\
                  (tw' = tw \/ (r = ROk /\ ls <> [] /\ ws_index_start tw = 0 /\ tw' = l2_after tw ls)).
Proof.
  intros H0 Hnd T Hc Hls Hg Hs.
  assert (Hsame : (tw', e') = (tw, e) ->
                  exists bd' bs', werun c bd e bd' e' /\ NoDup (map fst (dk_files (e_disk e'))) /\
                                  wtail_link c tw' info bs' bd' (e_disk e') /\
                                  (tw' = tw \/ (r = ROk /\ ls <> [] /\ ws_index_start tw = 0 /\ tw' = l2_after tw ls))).
  { intros [= -> ->]. exists bd, bs. split; [apply werun_refl; assumption|]. auto. }
  destruct ls as [|l0 lr]; [cbn in Hs; inversion Hs; subst; apply Hsame; reflexivity|].
  destruct (0 <? ws_index_start tw) eqn:E1.
  { unfold seg_append in Hs. rewrite E1 in Hs. inversion Hs; subst. apply Hsame; reflexivity. }
  destruct (existsb (fun l => MaxEntrySize <? enc_len l) (l0 :: lr)) eqn:E2.
  { unfold seg_append in Hs. rewrite E1, E2 in Hs. inversion Hs; subst. apply Hsame; reflexivity. }
  destruct (l_index l0 =? ws_base tw + ws_n tw) eqn:E3.
  2:{ unfold seg_append in Hs. rewrite E1, E2, E3 in Hs. inversion Hs; subst. apply Hsame; reflexivity. }
  apply N.eqb_eq in E3. rewrite (seg_append_char tw l0 lr e E1 E2 E3) in Hs.
  inversion Hs; subst r tw' e'. clear Hs.
  set (ls := l0 :: lr) in *.
  pose proof (wt_w _ _ _ _ _ _ T) as Rw.
  destruct (append_l1_char _ tw l0 lr Rw Hc E1 E2 E3) as (w1' & new & Ea & Lnew & Rw'). fold ls in Ea, Lnew, Rw'.
  assert (Hz : ws_index_start tw = 0) by (apply N.ltb_ge in E1; lia).
  destruct (wcommit_link c tw info bs bd e (OpAppend (ents ls)) ls w1' new (l2_total tw ls) (l2_batch tw ls) (l2_after tw ls))
    as (bd' & E & Hnd' & Hl); try eassumption.
  - reflexivity.
  - cbn [op_batch]. unfold ls at 1. cbn [ents map]. fold (ents lr). change (ent l0 :: ents lr) with (ents ls).
    rewrite map_snd_ents. reflexivity.
  - rewrite (sealed_l2 _ _ _ Rw'). apply len_batch_write_l2; [exact Rw|discriminate].
  - reflexivity.
  - symmetry. apply pb_of_l2_batch. exact Rw'.
  - apply Hg. exact Hz.
  - destruct (both_ok (e_fault e)).
    + destruct Hl as (bs' & Hl). exists bd', bs'. split; [exact E|]. split; [exact Hnd'|]. split; [exact Hl|].
      right. split; [reflexivity|]. split; [discriminate|]. auto.
    + exists bd', bs. auto.
Qed.

(* ---------------- seg_force_seal ---------------- *)
Lemma seg_force_seal_wlink c tw info bs bd e r tw' e' :
  wdrep c bd (e_disk e) -> NoDup (map fst (dk_files (e_disk e))) ->
  wtail_link c tw info bs bd (e_disk e) ->
  (ws_index_start tw = 0 -> ws_off tw + fs_total tw < two32) ->
  seg_force_seal tw e = (r, tw', e') ->
  exists bd' bs', werun c bd e bd' e' /\ NoDup (map fst (dk_files (e_disk e'))) /\
                  wtail_link c tw' info bs' bd' (e_disk e') /\
                  (tw' = tw \/ 0 < ws_index_start tw').
Proof.
  intros H0 Hnd T Hg Hs.
  assert (Hsame : (tw', e') = (tw, e) ->
                  exists bd' bs', werun c bd e bd' e' /\ NoDup (map fst (dk_files (e_disk e'))) /\
                                  wtail_link c tw' info bs' bd' (e_disk e') /\ (tw' = tw \/ 0 < ws_index_start tw')).
  { intros [= -> ->]. exists bd, bs. split; [apply werun_refl; assumption|]. auto. }
  destruct (0 <? ws_index_start tw) eqn:E1.
  { unfold seg_force_seal in Hs. rewrite E1 in Hs. inversion Hs; subst. apply Hsame; reflexivity. }
  destruct (ws_n tw =? 0) eqn:E2.
  { unfold seg_force_seal in Hs. rewrite E1, E2 in Hs. inversion Hs; subst. apply Hsame; reflexivity. }
  rewrite (seg_force_seal_char tw e E1 E2) in Hs. inversion Hs; subst r tw' e'. clear Hs.
  pose proof (wt_w _ _ _ _ _ _ T) as Rw.
  destruct (force_seal_l1_char _ tw Rw E1 E2) as (w1' & new & Ea & Lnew & Rw').
  assert (Hz : ws_index_start tw = 0) by (apply N.ltb_ge in E1; lia).
  assert (Hns : sealed (wst info (cstate info bs)) = false).
  { unfold sealed. rewrite <- (rw_istart _ _ Rw), Hz. reflexivity. }
  assert (Hsl : sealed w1' = true).
  { unfold sealed. rewrite <- (rw_istart _ _ Rw'). cbn [fs_after ws_index_start]. unfold fs_istart. apply N.ltb_lt. lia. }
  destruct (wcommit_link c tw info bs bd e OpSeal [] w1' new (fs_total tw) (fs_batch tw) (fs_after tw))
    as (bd' & E & Hnd' & Hl); try eassumption.
  - constructor.
  - reflexivity.
  - cbn [op_batch]. rewrite Hns, Hsl. reflexivity.
  - rewrite Hsl. apply (len_batch_write_fs info bs tw Rw E2).
  - reflexivity.
  - symmetry. apply pb_of_fs_batch. exact Rw'.
  - apply Hg. exact Hz.
  - destruct (both_ok (e_fault e)).
    + destruct Hl as (bs' & Hl). exists bd', bs'. split; [exact E|]. split; [exact Hnd'|]. split; [exact Hl|].
      right. cbn [fs_after ws_index_start]. unfold fs_istart. lia.
    + exists bd', bs. auto.
Qed.
