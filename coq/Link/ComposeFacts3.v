(* ComposeFacts3.v -- the WAL operations in lock step with the byte disk:
   mutate_gen (commit, post-commit create, deletions), rotate, reset_first,
   store_logs, truncate_head, truncate_tail, delete_range.  Each lemma: from a
   linked state (wlink) and without injected faults, the operation's new L2
   actions are a lock-step run (erun: every intermediate disk pair is
   drep-related, i.e. every crash point is covered) and the result is linked. *)
From RW Require Import Base.Bytes Base.BytesFacts Base.Crc32c Fmt.Codec Fmt.Frame Fmt.FrameFacts
     Seg.Writer Seg.Recover Seg.SegAbs Seg.WriterFacts Seg.RecoverFacts Seg.ChainFacts
     Wal.Model Wal.Spec Wal.CrashFacts0 Wal.SeqFactsOps1
     Link.Abs Link.AbsFacts1 Link.AbsFacts2 Link.AbsFacts3 Link.AbsFacts4
     Link.Disk Link.DiskFacts1 Link.DiskFacts2 Link.Compose Link.ComposeFacts1 Link.ComposeFacts2 Gen.Constants.
From Coq Require Import ZifyN ZifyNat ZifyBool.
Open Scope N_scope.

Definition op_link (c : cfg) (bd : bdisk) (e : env) (w' : wal) (e' : env) : Prop :=
  exists bd', erun c bd e bd' e' /\ wlink c w' bd' (e_disk e').

Lemma op_link_same c w bd e : wlink c w bd (e_disk e) -> e_fault e = None -> op_link c bd e w e.
Proof. intros H Hf. exists bd. split; [apply erun_refl; [apply H|exact Hf]|exact H]. Qed.

Lemma wlink_tail_ext c w w' bd d :
  st_next_id w' = st_next_id w -> st_tail w' = st_tail w -> wlink c w bd d -> wlink c w' bd d.
Proof. intros H1 H2 (A & B & C & D). unfold wlink. rewrite H1, H2. auto. Qed.

Lemma op_link_with_m c bd e w' e' m : op_link c bd (with_m e m) w' e' -> op_link c bd e w' e'.
Proof. intros (bd' & E & W). exists bd'. split; [exact (proj1 (erun_with_m_l _ _ _ _ _ _) E)|exact W]. Qed.
Lemma op_link_with_m_r c bd e w' e' m : op_link c bd e w' e' -> op_link c bd e w' (with_m e' m).
Proof. intros (bd' & E & W). exists bd'. split; [apply erun_with_m_r; exact E|exact W]. Qed.

(* ---------------- createNextSegment ---------------- *)
Lemma create_next_facts c nid segs nb nid' segs' si :
  cfg_ok c -> nid < two64 -> create_next c nid segs nb = (nid', segs', si) ->
  nid' < two64 /\ si_codec si = c_codec c /\ hdr_wf (finfo c (name_of si)) /\
  small_tw (new_wseg si).
Proof.
  intros (_ & Hcod & Hsz0 & Hsz) Hn H. unfold create_next in H. inversion H; subst. clear H.
  split; [apply N.mod_lt; unfold two64; lia|]. split; [reflexivity|]. split.
  - unfold hdr_wf, finfo, name_of, new_segment. cbn. split; [apply N.mod_lt; unfold two64; lia|]. auto.
  - intros _. cbn [new_wseg new_segment ws_limit ws_off ws_n si_size_limit].
    assert (c_seg_size c mod two32 < two30).
    { rewrite N.mod_small; [exact Hsz|]. unfold two30, two32 in *. lia. }
    lia.
Qed.

(* ---------------- mutateStateLocked ---------------- *)
Lemma mutate_gen_link c defer w t bd e r w' e' dels :
  wlink c w bd (e_disk e) -> e_fault e = None ->
  tail_linked c (tx_tail t) bd (e_disk e) -> tx_next_id t < two64 ->
  (forall si, tx_create t = Some si -> si_codec si = c_codec c /\ hdr_wf (finfo c (name_of si))) ->
  mutate_gen defer w t e = (r, w', e', dels) ->
  op_link c bd e w' e' /\
  match tx_create t with
  | None => st_tail w' = tx_tail t
  | Some si => st_tail w' = Some (new_wseg si) \/ st_tail w' = st_tail w
  end.
Proof.
  intros (H0 & Hnd & Hid & Ht) Hf Htt Hnid Hcr Hm. unfold mutate_gen in Hm.
  rewrite (io_nofault _ _ Hf) in Hm. cbn [negb] in Hm.
  set (a := ACommit {| ps_next_id := tx_next_id t; ps_segs := tx_segs t |}) in *.
  set (e1 := io_ok e a) in *.
  assert (E1 : erun c bd e bd e1) by (apply erun_meta; [exact I|assumption..]).
  assert (Hf1 : e_fault e1 = None) by (apply io_ok_fault; exact Hf).
  assert (H1 : drep c bd (e_disk e1)) by (apply (erun_end _ _ _ _ _ E1)).
  assert (Hnd1 : NoDup (map fst (dk_files (e_disk e1)))) by (apply NoDup_apply; exact Hnd).
  assert (Ht1 : tail_linked c (st_tail w) bd (e_disk e1)) by (apply tail_linked_meta; [exact I|exact Ht]).
  assert (Htt1 : tail_linked c (tx_tail t) bd (e_disk e1)) by (apply tail_linked_meta; [exact I|exact Htt]).
  destruct (tx_create t) as [si|] eqn:Ec.
  - destruct (seg_create si e1) as [sw e2] eqn:Es.
    destruct (Hcr si eq_refl) as [Hc Hh].
    destruct (seg_create_link c si bd e1 sw e2 (st_tail w) H1 Hnd1 Hf1 Hc Hh Ht1 Es) as (bd2 & E2 & Hnd2 & Hsw).
    pose proof (erun_trans _ _ _ _ _ _ _ E1 E2) as E12.
    destruct sw as [sw|].
    + destruct Hsw as [-> Hl].
      destruct defer.
      * inversion Hm; subst. split; [|left; reflexivity].
        exists bd2. split; [exact E12|]. split; [apply (erun_end _ _ _ _ _ E12)|].
        split; [exact Hnd2|]. split; [exact Hnid|]. cbn [st_tail tail_linked]. eauto.
      * assert (Hl2 : tail_linked c (Some (new_wseg si)) bd2 (e_disk e2)) by (cbn; eauto).
        destruct (delete_files_link c (tx_delete t) bd2 e2 (Some (new_wseg si)) (erun_end _ _ _ _ _ E2) Hnd2
                    (erun_fault _ _ _ _ _ E2) Hl2) as (bd3 & E3 & Hnd3 & Hl3).
        inversion Hm; subst. split; [|left; reflexivity].
        exists bd3. split; [eapply erun_trans; eauto|]. split; [apply (erun_end _ _ _ _ _ E3)|].
        split; [exact Hnd3|]. split; [exact Hnid|]. exact Hl3.
    + inversion Hm; subst. split; [|right; reflexivity].
      exists bd2. split; [exact E12|]. split; [apply (erun_end _ _ _ _ _ E12)|].
      split; [exact Hnd2|]. split; [exact Hid|]. exact Hsw.
  - destruct defer.
    + inversion Hm; subst. split; [|reflexivity].
      exists bd. split; [exact E1|]. split; [exact H1|]. split; [exact Hnd1|]. split; [exact Hnid|]. exact Htt1.
    + destruct (delete_files_link c (tx_delete t) bd e1 (tx_tail t) H1 Hnd1 Hf1 Htt1) as (bd3 & E3 & Hnd3 & Hl3).
      inversion Hm; subst. split; [|reflexivity].
      exists bd3. split; [eapply erun_trans; eauto|]. split; [apply (erun_end _ _ _ _ _ E3)|].
      split; [exact Hnd3|]. split; [exact Hnid|]. exact Hl3.
Qed.

Lemma mutate_link c w t bd e r w' e' :
  wlink c w bd (e_disk e) -> e_fault e = None ->
  tail_linked c (tx_tail t) bd (e_disk e) -> tx_next_id t < two64 ->
  (forall si, tx_create t = Some si -> si_codec si = c_codec c /\ hdr_wf (finfo c (name_of si))) ->
  mutate w t e = (r, w', e') ->
  op_link c bd e w' e' /\
  match tx_create t with
  | None => st_tail w' = tx_tail t
  | Some si => st_tail w' = Some (new_wseg si) \/ st_tail w' = st_tail w
  end.
Proof.
  intros HW Hf Ht Hn Hc Hm. unfold mutate in Hm.
  destruct (mutate_gen false w t e) as [[[r0 w0] e0] d0] eqn:Eg. inversion Hm; subst.
  eapply mutate_gen_link; eauto.
Qed.

(* ---------------- rotateSegmentLocked ---------------- *)
Lemma rotate_link c w bd e w' e' :
  cfg_ok c -> wlink c w bd (e_disk e) -> e_fault e = None ->
  rotate c w e = (w', e') ->
  op_link c bd e w' e' /\
  (st_tail w' = st_tail w \/ exists si, small_tw (new_wseg si) /\ st_tail w' = Some (new_wseg si)).
Proof.
  intros Hc HW Hf Hr. unfold rotate in Hr.
  destruct (st_rotate w) as [istart|]; [|inversion Hr; subst; split; [apply op_link_same; assumption|left; reflexivity]].
  set (w0 := {| st_next_id := st_next_id w; st_segs := st_segs w; st_tail := st_tail w; st_rotate := None;
                st_failed := st_failed w; st_closed := st_closed w |}) in *.
  assert (HW0 : wlink c w0 bd (e_disk e)) by (eapply wlink_tail_ext; [| |exact HW]; reflexivity).
  destruct (st_closed w).
  { inversion Hr; subst. split; [apply op_link_same; assumption|left; reflexivity]. }
  destruct (tail_info (st_segs w)) as [t|].
  2:{ inversion Hr; subst. split; [|left; reflexivity]. apply op_link_with_m_r. apply op_link_same; assumption. }
  match type of Hr with context [create_next c ?a ?b ?d] => destruct (create_next c a b d) as [[nid segs2] si] eqn:Ecn end.
  destruct HW as (_ & _ & Hid & _).
  destruct (create_next_facts _ _ _ _ _ _ _ Hc Hid Ecn) as (Hn' & Hcod & Hh & Hsm).
  match type of Hr with context [mutate w0 ?t ?e0] => destruct (mutate w0 t e0) as [[r1 w1] e1] eqn:Em end.
  inversion Hr; subst w1 e1. clear Hr.
  match type of Em with mutate _ ?t ?e0 = _ => pose proof (mutate_link c w0 t bd e0 r1 w' e') as HM end.
  cbn [tx_create tx_tail tx_next_id] in HM.
  match type of Em with mutate _ _ ?e0 = _ => assert (X1 : wlink c w0 bd (e_disk e0)) by exact HW0 end.
  assert (X5 : forall si', Some si = Some si' -> si_codec si' = c_codec c /\ hdr_wf (finfo c (name_of si')))
    by (intros si' [= <-]; auto).
  destruct (HM X1 Hf I Hn' X5 Em) as (HL & Hcase).
  split; [unfold add_m in HL; apply op_link_with_m in HL; exact HL|].
  cbn [w0 st_tail] in Hcase. destruct Hcase as [Hc1|Hc1].
  - right. exists si. auto.
  - left. exact Hc1.
Qed.

(* a transaction that creates the segment createNextSegment hands out *)
Lemma mutate_gen_create_link c defer w bd e nid0 segs nb nid segs2 si del r w' e' dels :
  cfg_ok c -> wlink c w bd (e_disk e) -> e_fault e = None -> nid0 < two64 ->
  create_next c nid0 segs nb = (nid, segs2, si) ->
  mutate_gen defer w {| tx_next_id := nid; tx_segs := segs2; tx_delete := del; tx_create := Some si; tx_tail := None |} e
    = (r, w', e', dels) ->
  op_link c bd e w' e' /\ (st_tail w' = st_tail w \/ (small_tw (new_wseg si) /\ st_tail w' = Some (new_wseg si))).
Proof.
  intros Hc HW Hf Hid Ecn Hm.
  destruct (create_next_facts _ _ _ _ _ _ _ Hc Hid Ecn) as (Hn' & Hcod & Hh & Hsm).
  match type of Hm with mutate_gen _ _ ?t _ = _ =>
    pose proof (mutate_gen_link c defer w t bd e r w' e' dels HW Hf) as HM end.
  cbn [tx_tail tx_next_id tx_create] in HM.
  assert (X : forall si', Some si = Some si' -> si_codec si' = c_codec c /\ hdr_wf (finfo c (name_of si')))
    by (intros si' [= <-]; auto).
  destruct (HM I Hn' X Hm) as (HL & Hcase).
  split; [exact HL|]. destruct Hcase; auto.
Qed.

Lemma mutate_create_link c w bd e nid0 segs nb nid segs2 si del r w' e' :
  cfg_ok c -> wlink c w bd (e_disk e) -> e_fault e = None -> nid0 < two64 ->
  create_next c nid0 segs nb = (nid, segs2, si) ->
  mutate w {| tx_next_id := nid; tx_segs := segs2; tx_delete := del; tx_create := Some si; tx_tail := None |} e
    = (r, w', e') ->
  op_link c bd e w' e' /\ (st_tail w' = st_tail w \/ (small_tw (new_wseg si) /\ st_tail w' = Some (new_wseg si))).
Proof.
  intros Hc HW Hf Hid Ecn Hm. unfold mutate in Hm.
  match type of Hm with context [mutate_gen false w ?t e] => destruct (mutate_gen false w t e) as [[[r0 w0] e0] d0] eqn:Eg end.
  inversion Hm; subst. eapply mutate_gen_create_link; eauto.
Qed.

(* ---------------- resetEmptyFirstSegmentBaseIndex ---------------- *)
Lemma small_tail_case w w' si :
  small_tail (st_tail w) -> st_tail w' = st_tail w \/ (small_tw (new_wseg si) /\ st_tail w' = Some (new_wseg si)) ->
  small_tail (st_tail w').
Proof. intros H [->|[Hs ->]]; [exact H|exact Hs]. Qed.

Lemma reset_first_link c w nb bd e r w' e' dels :
  cfg_ok c -> wlink c w bd (e_disk e) -> e_fault e = None -> small_tail (st_tail w) ->
  reset_first c w nb e = (r, w', e', dels) ->
  op_link c bd e w' e' /\ small_tail (st_tail w').
Proof.
  intros Hc HW Hf Hs Hr. pose proof HW as (_ & _ & Hid & Ht). unfold reset_first in Hr.
  destruct (0 <? last_index (st_segs w) (st_tail w)).
  { inversion Hr; subst. split; [apply op_link_same; assumption|exact Hs]. }
  destruct (tail_info (st_segs w)) as [t|].
  - destruct (si_base t =? nb).
    + match type of Hr with mutate_gen _ _ ?t _ = _ =>
        pose proof (mutate_gen_link c true w t bd e r w' e' dels HW Hf) as HM end.
      cbn [tx_tail tx_next_id tx_create] in HM.
      assert (X : forall si', @None seginfo = Some si' -> si_codec si' = c_codec c /\ hdr_wf (finfo c (name_of si')))
        by discriminate.
      destruct (HM Ht Hid X Hr) as (HL & Hcase).
      split; [exact HL|]. rewrite Hcase. exact Hs.
    + match type of Hr with context [create_next c ?a ?b ?d] => destruct (create_next c a b d) as [[nid segs2] si] eqn:Ecn end.
      destruct (mutate_gen_create_link c true w bd e _ _ _ _ _ _ _ r w' e' dels Hc HW Hf Hid Ecn Hr) as (HL & Hcase).
      split; [exact HL|]. eapply small_tail_case; eauto.
  - match type of Hr with context [create_next c ?a ?b ?d] => destruct (create_next c a b d) as [[nid segs2] si] eqn:Ecn end.
    destruct (mutate_gen_create_link c true w bd e _ _ _ _ _ _ _ r w' e' dels Hc HW Hf Hid Ecn Hr) as (HL & Hcase).
    split; [exact HL|]. eapply small_tail_case; eauto.
Qed.

(* ---------------- StoreLogs ---------------- *)
Lemma consecutive_consec_from ls : forall i, consecutive i ls = true -> consec_from i ls.
Proof.
  induction ls as [|l r IH]; intros i H; [exact I|]. cbn [consecutive] in H. apply andb_true_iff in H as [H1 H2].
  apply N.eqb_eq in H1. cbn [consec_from]. split; [exact H1|]. apply IH. exact H2.
Qed.

Lemma check_logs_consec last ls : logs_ok ls -> fst (check_logs last ls) = ROk -> consec ls.
Proof.
  intros Hok H. destruct ls as [|l0 r]; [exact I|]. inversion Hok as [|? ? Hl Hr]; subst.
  cbn [check_logs] in H. destruct ((0 <? last) && negb (l_index l0 =? (last + 1) mod two64)); [discriminate|].
  destruct (encode_log l0) as [b|]; [|discriminate].
  destruct Hl as (_ & Hl1 & Hl2 & _).
  pose proof (check_logs_inner r (l_index l0) Hr Hl1 Hl2) as Hin.
  destruct (check_logs (l_index l0) r) as [res n]. cbn [fst] in *. rewrite Hin in H.
  destruct (consecutive (l_index l0 + 1) r) eqn:Ec; [|discriminate].
  cbn [consec consec_from]. split; [reflexivity|]. apply consecutive_consec_from. exact Ec.
Qed.

Lemma seg_append_nofault_cases tw ls e r tw' e' :
  e_fault e = None -> seg_append tw ls e = (r, tw', e') -> r = ROk \/ (tw' = tw /\ e' = e).
Proof.
  intros Hf H. unfold seg_append in H. destruct ls as [|l0 lr]; [inversion H; auto|].
  destruct (0 <? ws_index_start tw); [inversion H; auto|].
  destruct (existsb _ _); [inversion H; auto|].
  destruct (negb _); [inversion H; auto|].
  rewrite (io_nofault _ _ Hf) in H. cbn [negb] in H.
  rewrite (io_nofault _ _ (io_ok_fault _ _ Hf)) in H. cbn [negb] in H. inversion H; auto.
Qed.

(* the loop body of StoreLogs after the optional base reset *)
Definition sl_go (last : N) (ls : list log) (w : wal) (e : env) : result * wal * env :=
  let '(res, nbytes) := check_logs last ls in
  match res with
  | ROk =>
      match st_tail w with
      | None => (RErrOther, w, e)
      | Some tw =>
          let '(r, tw', e1) := seg_append tw ls e in
          match r with
          | ROk =>
              let e2 := add_m e1 (fun m =>
                {| m_bytes_written := (m_bytes_written m + nbytes) mod two64;
                   m_entries_written := m_entries_written m + llen ls;
                   m_appends := m_appends m + 1; m_bytes_read := m_bytes_read m;
                   m_entries_read := m_entries_read m; m_rotations := m_rotations m;
                   m_head_trunc := m_head_trunc m; m_tail_trunc := m_tail_trunc m;
                   m_stable_gets := m_stable_gets m; m_stable_sets := m_stable_sets m |}) in
              (ROk, {| st_next_id := st_next_id w; st_segs := st_segs w; st_tail := Some tw';
                       st_rotate := if 0 <? ws_index_start tw' then Some (ws_index_start tw') else None;
                       st_failed := st_failed w; st_closed := st_closed w |}, e2)
          | _ => (r, w, e1)
          end
      end
  | _ => (res, w, e)
  end.

Lemma sl_go_link c last ls w bd e r w' e' :
  wlink c w bd (e_disk e) -> e_fault e = None -> small_tail (st_tail w) ->
  logs_ok ls -> frames_size ls < two30 ->
  sl_go last ls w e = (r, w', e') -> op_link c bd e w' e'.
Proof.
  intros HW Hf Hs Hls Hfs H. unfold sl_go in H.
  destruct (check_logs last ls) as [res nbytes] eqn:Ec.
  assert (Hsame : (w', e') = (w, e) -> op_link c bd e w' e').
  { intros [= -> ->]. apply op_link_same; assumption. }
  destruct res; try (inversion H; subst; apply Hsame; reflexivity).
  destruct (st_tail w) as [tw|] eqn:Et; [|inversion H; subst; apply Hsame; reflexivity].
  destruct (seg_append tw ls e) as [[r0 tw'] e1] eqn:Ea.
  pose proof HW as (H0 & Hnd & Hid & Ht). rewrite Et in Ht. destruct Ht as (info & bs & T).
  assert (Hcon : consec ls) by (apply (check_logs_consec last); [exact Hls|rewrite Ec; reflexivity]).
  assert (Hg : ws_index_start tw = 0 -> ws_off tw + l2_total tw ls < two32).
  { intros Hz. cbn [small_tail] in Hs. destruct (Hs Hz) as (S1 & S2 & S3). apply l2_append_guard; assumption. }
  destruct (seg_append_link c tw info bs ls bd e r0 tw' e1 H0 Hnd Hf T Hcon Hls Hg Ea) as (bd' & bs' & E & Hnd' & T').
  pose proof (seg_append_nofault_cases _ _ _ _ _ _ Hf Ea) as Hcases.
  destruct r0;
    try (destruct Hcases as [Hx|[-> ->]]; [discriminate|inversion H; subst; apply Hsame; reflexivity]).
  inversion H; subst. exists bd'. split; [apply erun_with_m_r; exact E|].
  unfold add_m. cbn [with_m e_disk]. split; [apply (erun_end _ _ _ _ _ E)|]. split; [exact Hnd'|].
  split; [exact Hid|]. cbn [st_tail tail_linked]. eauto.
Qed.

Lemma store_logs_unfold c w ls e :
  store_logs c w ls e =
  if st_closed w then (RErrClosed, w, e)
  else match ls with
  | [] => (ROk, w, e)
  | l0 :: _ =>
      if st_failed w then (RErrFailed, w, e)
      else
        let last := last_index (st_segs w) (st_tail w) in
        match tail_info (st_segs w) with
        | None => (RErrOther, w, e)
        | Some ti =>
            if (last =? 0) && negb (l_index l0 =? si_base ti) then
              let '(r, w1, e1, dels) := reset_first c w (l_index l0) e in
              match r with
              | ROk => let '(r2, w2, e2) := sl_go last ls w1 e1 in (r2, w2, delete_files dels e2)
              | _ => (r, w1, e1)
              end
            else sl_go last ls w e
        end
  end.
Proof. reflexivity. Qed.

Theorem store_logs_link c w ls bd e r w' e' :
  cfg_ok c -> wlink c w bd (e_disk e) -> e_fault e = None -> small_tail (st_tail w) ->
  logs_ok ls -> frames_size ls < two30 ->
  store_logs c w ls e = (r, w', e') -> op_link c bd e w' e'.
Proof.
  intros Hc HW Hf Hs Hls Hfs H. rewrite store_logs_unfold in H.
  assert (Hsame : (w', e') = (w, e) -> op_link c bd e w' e').
  { intros [= -> ->]. apply op_link_same; assumption. }
  destruct (st_closed w); [inversion H; subst; apply Hsame; reflexivity|].
  destruct ls as [|l0 lr]; [inversion H; subst; apply Hsame; reflexivity|]. set (ls := l0 :: lr) in *.
  destruct (st_failed w); [inversion H; subst; apply Hsame; reflexivity|].
  cbn zeta in H. destruct (tail_info (st_segs w)) as [ti|]; [|inversion H; subst; apply Hsame; reflexivity].
  destruct ((last_index (st_segs w) (st_tail w) =? 0) && negb (l_index l0 =? si_base ti)).
  - destruct (reset_first c w (l_index l0) e) as [[[r1 w1] e1] dels] eqn:Er.
    destruct (reset_first_link c w _ bd e r1 w1 e1 dels Hc HW Hf Hs Er) as ((bd1 & E1 & HW1) & Hs1).
    assert (Hgo : r1 = ROk -> op_link c bd e w' e').
    { intros ->. destruct (sl_go (last_index (st_segs w) (st_tail w)) ls w1 e1) as [[r2 w2] e2] eqn:Eg.
      inversion H; subst r2 w2 e'. clear H.
      destruct (sl_go_link c _ ls w1 bd1 e1 r w' e2 HW1 (erun_fault _ _ _ _ _ E1) Hs1 Hls Hfs Eg) as (bd2 & E2 & HW2).
      pose proof HW2 as (H2 & Hnd2 & Hid2 & Ht2).
      destruct (delete_files_link c dels bd2 e2 (st_tail w') H2 Hnd2 (erun_fault _ _ _ _ _ E2) Ht2) as (bd3 & E3 & Hnd3 & Ht3).
      exists bd3. split; [eapply erun_trans; [exact E1|eapply erun_trans; eauto]|].
      split; [apply (erun_end _ _ _ _ _ E3)|]. auto. }
    destruct r1; try solve [inversion H; subst; exists bd1; split; assumption]. apply Hgo. reflexivity.
  - eapply sl_go_link; eauto.
Qed.
